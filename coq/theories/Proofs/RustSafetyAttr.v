(* Proofs/RustSafetyAttr.v — facts about the attribute semantics of the specification (Model/RustSafetySpec.v:
   attr_lex / attr_path / cfg_pred / attr_is_test_fn / attr_is_cfg_test), which is computed from the attribute text. *)
From TL Require Import Lib.Base Model.RustSafetyTypes Model.RustSafetySpec.

(* the documented vocabulary and the look-alikes get the verdicts listed in the catalogue, and are well-formed *)
Lemma attr_catalogue_agrees :
  forallb (fun e => Bool.eqb (attr_is_test_fn (fst e)) (fst (snd e)) && Bool.eqb (attr_is_cfg_test (fst e)) (snd (snd e)) && attr_wf (fst e))
          attr_catalogue = true.
Proof. vm_compute. reflexivity. Qed.

(* ------------------------------------------------------------------ Kleene evaluation *)
(* a predicate without the option `test` has the same value whatever `test` is: the two components agree *)
Definition agree (v : k3 * k3) : Prop := fst v = snd v.

Lemma cfg_combine_agree op vs : Forall agree vs -> agree (cfg_combine op vs).
Proof.
  intros H. assert (E : map fst vs = map snd vs).
  { induction H as [|v r Hv _ IH]; [reflexivity|]. cbn [map]. now rewrite Hv, IH. }
  unfold cfg_combine, agree.
  destruct (String.eqb op "all"); [cbn [fst snd]; now rewrite E|].
  destruct (String.eqb op "any"); [cbn [fst snd]; now rewrite E|].
  destruct vs as [|[a b] [|? ?]]; try reflexivity.
  inversion H as [|? ? Hab _]; subst. unfold agree in Hab. cbn [fst snd] in *. now subst.
Qed.

(* no identifier token `test` *)
Definition no_test_tok (ts : list atok) : Prop := ~ In (AId "test") ts.

Lemma atom_agree x : x <> "test" -> agree (if String.eqb x "test" then (Some false, Some true) else (None, None)).
Proof. intros H. destruct (String.eqb_spec x "test"); [contradiction|reflexivity]. Qed.

(* the parser returns a suffix of its input *)
Lemma cfg_pred_list_facts fuel :
  (forall ts v r, cfg_pred fuel ts = Some (v, r) -> (exists p, ts = p ++ r) /\ (no_test_tok ts -> agree v)) /\
  (forall ts vs r, cfg_list fuel ts = Some (vs, r) -> (exists p, ts = p ++ r) /\ (no_test_tok ts -> Forall agree vs)).
Proof.
  induction fuel as [|f [IHp IHl]]; [split; intros; discriminate|]. split.
  - intros ts v r. cbn [cfg_pred].
    destruct ts as [|t ts]; [discriminate|]. destruct t as [x| | | | |a]; try discriminate.
    destruct ts as [|t2 ts].
    { intros E. inversion E; subst. split; [now exists [AId x]|].
      intros NT. apply atom_agree; intros EQ; apply NT; left; now rewrite EQ. }
    destruct t2 as [y| | | | |e].
    + intros E. inversion E; subst. split; [now exists [AId x]|].
      intros NT. apply atom_agree; intros EQ; apply NT; left; now rewrite EQ.
    + destruct (smem x ["all"; "any"; "not"]); [|discriminate].
      destruct (cfg_list f ts) as [[vs r']|] eqn:EL; [|discriminate].
      destruct (String.eqb x "not" && negb (List.length vs =? 1)); [discriminate|].
      intros E. inversion E; subst. destruct (IHl _ _ _ EL) as [[p Hp] HA]. split.
      * exists (AId x :: ALP :: p). now rewrite Hp.
      * intros NT. apply cfg_combine_agree. apply HA. intros I. apply NT. right. right. exact I.
    + intros E. inversion E; subst. split; [now exists [AId x]|].
      intros NT. apply atom_agree; intros EQ; apply NT; left; now rewrite EQ.
    + intros E. inversion E; subst. split; [now exists [AId x]|].
      intros NT. apply atom_agree; intros EQ; apply NT; left; now rewrite EQ.
    + intros E. inversion E; subst. split; [now exists [AId x]|].
      intros NT. apply atom_agree; intros EQ; apply NT; left; now rewrite EQ.
    + destruct ts as [|t3 ts].
      { intros E. inversion E; subst. split; [now exists [AId x]|].
        intros NT. apply atom_agree; intros EQ; apply NT; left; now rewrite EQ. }
      destruct t3 as [z| | | | |a3];
        try (intros E; inversion E; subst; split; [now exists [AId x]|];
             intros NT; apply atom_agree; intros EQ; apply NT; left; now rewrite EQ).
      destruct (Ascii.eqb e "="%char); [|discriminate].
      intros E. inversion E; subst. split; [now exists [AId x; AOther e; AStr]|]. intros _. reflexivity.
  - intros ts vs r. cbn [cfg_list].
    assert (G : match cfg_pred f ts with
                | Some (v, AComma :: r0) => match cfg_list f r0 with Some (vs0, r') => Some (v :: vs0, r') | None => None end
                | Some (v, ARP :: r0) => Some ([v], r0)
                | _ => None
                end = Some (vs, r) -> (exists p, ts = p ++ r) /\ (no_test_tok ts -> Forall agree vs)).
    { destruct (cfg_pred f ts) as [[v rest]|] eqn:EP; [|discriminate].
      destruct (IHp _ _ _ EP) as [[p Hp] HA].
      destruct rest as [|t rest]; [discriminate|]. destruct t; try discriminate.
      - intros E. inversion E; subst. split; [exists (p ++ [ARP]); now rewrite <- app_assoc|].
        intros NT. constructor; [now apply HA|constructor].
      - destruct (cfg_list f rest) as [[vs0 r']|] eqn:EL; [|discriminate].
        intros E. inversion E; subst. destruct (IHl _ _ _ EL) as [[p2 Hp2] HA2]. split.
        + exists (p ++ AComma :: p2). rewrite <- app_assoc. cbn [app]. now rewrite <- Hp2.
        + intros NT. constructor; [now apply HA|]. apply HA2. intros I. apply NT. apply in_or_app. right. right. exact I. }
    destruct ts as [|t ts]; [exact G|]. destruct t; try exact G.
    intros E. inversion E; subst. split; [now exists [ARP]|]. intros _. constructor.
Qed.

(* test-only configuration needs the option `test` among the tokens of the predicate *)
Lemma test_only_needs_test_tok r v : cfg_of r = Some v -> test_only v = true -> In (AId "test") r.
Proof.
  unfold cfg_of. intros E T.
  destruct (cfg_pred _ r) as [[v' rest]|] eqn:EP; [|discriminate].
  destruct (In_dec (fun a b : atok => ltac:(decide equality; [apply string_dec|apply ascii_dec]) : {a = b} + {a <> b}) (AId "test") r) as [I|NI]; [exact I|].
  exfalso. destruct rest as [|t rest]; [discriminate|]. destruct t; try discriminate. destruct rest; [|discriminate]. inversion E; subst.
  destruct (proj1 (cfg_pred_list_facts _) _ _ _ EP) as [_ HA]. specialize (HA NI). destruct v as [a b]. unfold agree in HA. cbn [fst snd] in HA. subst.
  destruct b as [[|]|]; discriminate.
Qed.

(* ------------------------------------------------------------------ identifier tokens are substrings of the text *)
Lemma contains_cons n a s : contains n s = true -> contains n (String a s) = true.
Proof. intros H. cbn [contains]. destruct (String.prefix n (String a s)); [reflexivity|exact H]. Qed.

Lemma contains_prefix n s : String.prefix n s = true -> contains n s = true.
Proof. intros H. destruct s; cbn [contains]; now rewrite H. Qed.

Lemma append_snoc cur a pre : ((cur ++ String a EmptyString) ++ pre)%string = (cur ++ String a pre)%string.
Proof. induction cur as [|c cur IH]; [reflexivity|]. cbn [String.append]. now rewrite IH. Qed.

Lemma append_empty_r s : (s ++ "")%string = s.
Proof. induction s as [|c s IH]; [reflexivity|]. cbn [String.append]. now rewrite IH. Qed.

Lemma prefix_cons a p r : String.prefix p r = true -> String.prefix (String a p) (String a r) = true.
Proof. intros H. cbn [String.prefix]. destruct (ascii_dec a a); [exact H|contradiction]. Qed.

Lemma in_flush s cur : In (AId s) (flush_t cur) -> s = cur.
Proof. destruct cur; cbn [flush_t In]; [tauto|]. intros [E|[]]. now inversion E. Qed.

Lemma in_punct s a : ~ In (AId s) (punct a).
Proof.
  unfold punct. destruct (Ascii.eqb a "("); [intros [E|[]]; discriminate|].
  destruct (Ascii.eqb a ")"); [intros [E|[]]; discriminate|].
  destruct (Ascii.eqb a ","); [intros [E|[]]; discriminate|].
  destruct (is_space a); [intros []|intros [E|[]]; discriminate].
Qed.

Lemma lex_ident_sub t : forall st cur s, (st <> 0 -> cur = "") -> In (AId s) (attr_lex t st cur) ->
  (st = 0 /\ exists pre, s = (cur ++ pre)%string /\ String.prefix pre t = true) \/ contains s t = true.
Proof.
  induction t as [|a r IH]; intros st cur s Hc HI.
  - cbn [attr_lex] in HI. apply in_flush in HI. subst s. destruct st as [|st].
    + left. split; [reflexivity|]. exists "". now rewrite append_empty_r.
    + rewrite (Hc ltac:(discriminate)). right. reflexivity.
  - assert (R : forall st', st' <> 0 -> In (AId s) (attr_lex r st' "") -> contains s (String a r) = true).
    { intros st' Hst HI'. destruct (IH st' "" s (fun _ => eq_refl) HI') as [[E _]|C]; [contradiction|now apply contains_cons]. }
    assert (R0 : In (AId s) (attr_lex r 0 "") -> contains s (String a r) = true).
    { intros HI'. destruct (IH 0 "" s (fun _ => eq_refl) HI') as [[_ (pre & -> & Hp)]|C]; apply contains_cons; [now apply contains_prefix|exact C]. }
    assert (F : In (AId s) (flush_t cur) -> st = 0 ->
                (st = 0 /\ exists pre, s = (cur ++ pre)%string /\ String.prefix pre (String a r) = true) \/ contains s (String a r) = true).
    { intros HF E0. apply in_flush in HF. left. split; [exact E0|]. exists "". subst s. now rewrite append_empty_r. }
    cbn [attr_lex] in HI. destruct st as [|[|st]].
    + destruct (Ascii.eqb a """").
      { apply in_app_or in HI as [HF|HI]; [now apply F|right; now apply (R 1)]. }
      destruct (is_ident_char a && (negb (String.eqb cur "") || is_ident_start a)).
      { destruct (IH 0 _ s (fun H => False_ind _ (H eq_refl)) HI) as [[_ (pre & -> & Hp)]|C].
        - left. split; [reflexivity|]. exists (String a pre). split; [apply append_snoc|now apply prefix_cons].
        - right. now apply contains_cons. }
      apply in_app_or in HI as [HF|HI]; [now apply F|].
      apply in_app_or in HI as [HP|HI]; [now apply in_punct in HP|]. right. now apply R0.
    + right. destruct (Ascii.eqb a """").
      { destruct HI as [E|HI]; [discriminate|now apply R0]. }
      destruct (Ascii.eqb a "\"); [now apply (R 2)|now apply (R 1)].
    + right. now apply (R 1).
Qed.

Lemma lex_ident_contains t s : In (AId s) (attr_lex t 0 "") -> contains s t = true.
Proof.
  intros H. destruct (lex_ident_sub t 0 "" s (fun H => False_ind _ (H eq_refl)) H) as [[_ (pre & -> & Hp)]|C]; [|exact C].
  now apply contains_prefix.
Qed.

(* ------------------------------------------------------------------ the attribute readers *)
Lemma attr_meta_in t m x : attr_meta t = Some m -> In x m -> In x (attr_lex t 0 "").
Proof.
  unfold attr_meta. destruct (attr_lex t 0 "") as [|h [|b r]]; try discriminate; [destruct h; discriminate|].
  destruct h as [| | | | |h]; try discriminate. destruct b as [| | | | |b]; try discriminate.
  destruct (Ascii.eqb h "#" && Ascii.eqb b "["); [|discriminate].
  destruct (rev r) as [|e m'] eqn:ER; [discriminate|]. destruct e as [| | | | |e]; try discriminate.
  destruct (Ascii.eqb e "]"); [|discriminate]. intros E I. inversion E; subst m.
  right. right. rewrite <- (rev_involutive r), ER. cbn [rev]. apply in_or_app. now left.
Qed.

Lemma attr_path_in n : forall m name rest, List.length m <= n -> attr_path m = Some (name, rest) -> In (AId name) m.
Proof.
  induction n as [|n IH]; intros m name rest L.
  - destruct m; [discriminate|cbn [List.length] in L; lia].
  - destruct m as [|t r]; [discriminate|]. destruct t as [x| | | | |a]; try discriminate.
    cbn [attr_path].
    assert (D : Some (x, r) = Some (name, rest) -> In (AId name) (AId x :: r)) by (intros E; inversion E; now left).
    destruct r as [|t1 r1]; [exact D|]. destruct t1 as [| | | | |c1]; try exact D.
    destruct r1 as [|t2 r2]; [exact D|]. destruct t2 as [| | | | |c2]; try exact D.
    destruct (Ascii.eqb c1 ":" && Ascii.eqb c2 ":"); [|exact D].
    intros E. right. right. right. apply (IH r2 name rest); [cbn [List.length] in L; lia|exact E].
Qed.

(* whatever the specification takes for a test-marking or test-only attribute mentions the identifier `test` *)
Lemma test_fn_mentions_test t : attr_is_test_fn t = true -> contains "test" t = true.
Proof.
  unfold attr_is_test_fn. destruct (attr_meta t) as [m|] eqn:EM; [|discriminate].
  destruct (attr_path m) as [[name rest]|] eqn:EP; [|discriminate].
  intros H. apply andb_true_iff in H as [H _]. apply String.eqb_eq in H. subst name.
  apply lex_ident_contains. apply (attr_meta_in t m _ EM). exact (attr_path_in _ m "test" rest (le_n _) EP).
Qed.

Lemma cfg_test_mentions_test t : attr_is_cfg_test t = true -> contains "test" t = true.
Proof.
  unfold attr_is_cfg_test. destruct (attr_meta t) as [m|] eqn:EM; [|discriminate].
  destruct m as [|t1 [|t2 r]]; try discriminate; [destruct t1; discriminate|].
  destruct t1 as [c| | | | |]; try discriminate. destruct t2; try discriminate.
  intros H. apply andb_true_iff in H as [_ H]. destruct (cfg_of r) as [v|] eqn:EC; [|discriminate].
  apply lex_ident_contains. apply (attr_meta_in t _ _ EM). right. right. exact (test_only_needs_test_tok r v EC H).
Qed.

Theorem marks_test_fn_mentions_test t : attr_marks_test_fn t = true -> contains "test" t = true.
Proof.
  unfold attr_marks_test_fn. intros H. apply orb_true_iff in H as [H|H]; [now apply test_fn_mentions_test|now apply cfg_test_mentions_test].
Qed.
