(* Proofs/CfgTail.v — what `existing_content.rstrip()` (append mode of merge_config_sections) removes, for EVERY text:
   the blank lines after the last non-blank line and the white space at the end of that line - nothing else.  Together with
   the byte-level theorem (C20_raw_text_preserved) this confines finding eof_rstrip_changes_block_scalar: a pre-existing
   setting can change only when that trailing white space is part of its value (the file ends inside a block scalar). *)
From TL Require Import Lib.Base Lib.GenTypes Model.CfgTypes Gen.CfgToolGen Model.CfgMerge Proofs.CfgLines Proofs.CfgMergeMain
     Proofs.CfgMergeText Proofs.CfgInitMain.

Fixpoint all_ws (s : string) : bool := match s with String c r => is_ws c && all_ws r | EmptyString => true end.

(* str.rstrip() of a line cuts a run of white space off its end *)
Lemma rstrip_cuts_ws l : exists w, l = (rstrip l ++ w)%string /\ all_ws w = true.
Proof.
  induction l as [|c r (w & Hr & Hw)]; [now exists EmptyString|]. cbn [rstrip].
  destruct (rstrip r) as [|d r'] eqn:Hs.
  - cbn [String.append] in Hr. subst w. destruct (is_ws c) eqn:Hc.
    + exists (String c r). split; [reflexivity|]. cbn [all_ws]. now rewrite Hc.
    + exists r. split; [reflexivity|exact Hw].
  - exists w. split; [|exact Hw]. cbn [String.append]. f_equal. exact Hr.
Qed.

Lemma rstrip_lines_spec E :
  (rstrip_lines E = [] /\ forallb is_blank E = true) \/
  (exists A l B, E = A ++ l :: B /\ is_blank l = false /\ forallb is_blank B = true /\ rstrip_lines E = A ++ [rstrip l]).
Proof.
  induction E as [|x r IH]; [now left|]. cbn [rstrip_lines forallb]. destruct IH as [(H0 & Hb)|(A & l & B & HE & Hl & HB & HR)].
  - rewrite H0. destruct (is_blank x) eqn:Hx.
    + left. now rewrite Hb.
    + right. exists [], x, r. repeat split; try assumption; reflexivity.
  - right. rewrite HR. destruct (A ++ [rstrip l]) as [|y ys] eqn:HA; [now destruct A|].
    exists (x :: A), l, B. rewrite <- HA. repeat split; try assumption. cbn [app]. now rewrite HE.
Qed.

(* lines of content.rstrip(): either the text is all white space and nothing is left, or the text is A, a non-blank line l and
   blank lines B, and what is left is A and l without the white space at its end *)
Theorem rstrip_doc_spec E :
  (forallb is_blank E = true /\ rstrip_doc E = [EmptyString]) \/
  (exists A l B w, E = A ++ l :: B /\ is_blank l = false /\ forallb is_blank B = true /\
                   l = (rstrip l ++ w)%string /\ all_ws w = true /\ rstrip_doc E = A ++ [rstrip l]).
Proof.
  unfold rstrip_doc. destruct (rstrip_lines_spec E) as [(H0 & Hb)|(A & l & B & HE & Hl & HB & HR)].
  - left. now rewrite H0.
  - right. destruct (rstrip_cuts_ws l) as (w & Hw1 & Hw2). exists A, l, B, w. rewrite HR.
    destruct (A ++ [rstrip l]) as [|y ys] eqn:HA; [now destruct A|]. repeat split; assumption.
Qed.

(* init-config, any file, any quirk vector: whenever the file is rewritten, either the new lines are put between two parts of
   the old text, or they follow the old text from which only the white space at its very end has been cut *)
Theorem init_append_loses_only_ws q preset reps E names R :
  lookup preset presets = Some reps -> init_config q preset E = Merged names R ->
  (exists pre ins post, E = pre ++ post /\ R = pre ++ ins ++ post) \/
  (forallb is_blank E = true /\ exists ins, R = EmptyString :: ins) \/
  (exists A l B w ins, E = A ++ l :: B /\ is_blank l = false /\ forallb is_blank B = true /\
                       l = (rstrip l ++ w)%string /\ all_ws w = true /\ R = A ++ rstrip l :: ins).
Proof.
  intros Hl Hr. destruct (init_raw_preserved q preset reps E names R Hl Hr) as [ins H|pre ins post H1 H2].
  - destruct (rstrip_doc_spec E) as [(Hb & H0)|(A & l & B & w & HE & Hl' & HB & Hw1 & Hw2 & HR)].
    + right. left. split; [exact Hb|]. exists ins. now rewrite H, H0.
    + right. right. exists A, l, B, w, ins. repeat split; try assumption. now rewrite H, HR, <- app_assoc.
  - left. now exists pre, ins, post.
Qed.
