(* Proofs/OutputBytesDoc.v — from the bytes of stdout to the violations (C06): the byte-level theorems of Proofs/OutputBytes.v composed
   with the document-level round trips of Proofs/OutputJson.v (kept apart so that a changed JSON / SARIF template does not take the
   byte-level theorems down with it). *)
From TL Require Import Lib.Base Model.OutputTypes Gen.OutputGen Model.Output Model.OutputBytes Proofs.OutputStr Proofs.OutputJson Proofs.OutputBytes.
From Coq Require Import ZArith.
Local Open Scope string_scope.

Theorem json_bytes_roundtrip vs :
  bind (loads (stdout_of (render_json vs))) decode_json = Some (map san_core vs, Z.of_nat (List.length vs)).
Proof. rewrite loads_stdout. cbn [bind]. apply json_roundtrip. Qed.

Theorem sarif_bytes_roundtrip q ver vs :
  bind (loads (stdout_of (render_sarif q ver vs))) decode_sarif = Some (map san_core vs).
Proof. rewrite loads_stdout. cbn [bind]. apply sarif_roundtrip_exact. Qed.
