(* Proofs/ConfigThms.v - the C05 statements derived from the main theorem (Proofs/ConfigMain.v):
   key spelling, carrier equivalence, precedence, enabled=false, monotonicity, invalid => exit 2,
   top-level ignore, and the confinement of the listed defects for the claimed quirk vector. *)
From TL Require Import Lib.Base Lib.GenTypes Model.ConfigTypes Gen.ConfigGen Model.Config
     Proofs.ConfigLemmas Proofs.ConfigMain Actual.ConfigActual.
From Coq Require Import ZArith Lia.

(* ------------------------------------------------------------------ 1. key spelling *)
Theorem section_any_spelling q u raw :
  has q (fl "section_not_read" u) = false -> has q (fl "whole_config_fallback" u) = false ->
  match find_section (lookup_row q u) (normalize_top raw) with Some s => s | None => [] end = section_of u raw.
Proof.
  intros H1 H2. rewrite (lookup_row_section q u _ H1 H2 (normalize_normal raw)).
  unfold section_of. now rewrite get_normalize.
Qed.

Theorem section_of_spelling u key body :
  norm_key key = norm_key u -> section_of u [(key, VMap body)] = body.
Proof. intros E. unfold section_of. cbn [find_last fst snd]. rewrite E, String.eqb_refl. reflexivity. Qed.

Theorem both_spellings q u body :
  flags_off q -> In u units ->
  find_section (lookup_row q u) (normalize_top [(u, VMap body)]) = Some body
  /\ find_section (lookup_row q u) (normalize_top [(norm_key u, VMap body)]) = Some body.
Proof.
  intros H Hu.
  assert (H1 : has q (fl "section_not_read" u) = false) by (apply H, in_flags_unit; [cbn [In]; tauto|exact Hu]).
  assert (H2 : has q (fl "whole_config_fallback" u) = false) by (apply H, in_flags_unit; [cbn [In]; tauto|exact Hu]).
  assert (G : forall key, norm_key key = norm_key u ->
              find_section (lookup_row q u) (normalize_top [(key, VMap body)]) = Some body).
  { intros key E. unfold normalize_top. cbn [fold_left norm_step fst snd dict_set]. rewrite E.
    unfold lookup_row. rewrite H1, H2.
    assert (K : first_present [norm_key u] false [(norm_key u, VMap body)] = Some body)
      by (cbn [first_present get]; now rewrite String.eqb_refl).
    destruct (row_good (norm_key u) (gen_lookup u)) eqn:R; [|exact K].
    destruct (gen_lookup u) as [[s ks] w]. destruct ks as [|k rest]; [destruct s; discriminate|].
    cbn [row_good] in R. apply andb_true_iff in R. destruct R as [R _]. apply andb_true_iff in R. destruct R as [Rs Rk].
    apply String.eqb_eq in Rk. subst k.
    assert (F : find_section (s, norm_key u :: rest, false) [(norm_key u, VMap body)]
                = first_present (norm_key u :: rest) false [(norm_key u, VMap body)]).
    { destruct s; cbn [find_section meta_src] in *; try reflexivity; discriminate. }
    rewrite F. cbn [first_present get]. now rewrite String.eqb_refl. }
  split; [apply G; reflexivity|apply G, norm_key_idem].
Qed.

(* the lookup keys found in the source do find the section, for every unit outside the listed defects *)
Theorem lookup_table_sound u raw :
  In u units -> smem u lookup_defect_units = false ->
  match find_section (match gen_lookup u with (s, ks, _) => (s, ks, false) end) (normalize_top raw)
  with Some s => s | None => [] end = section_of u raw.
Proof.
  intros Hu Hd. pose proof (F_lookup u Hu Hd) as G.
  destruct (gen_lookup u) as [[s ks] w].
  rewrite (find_section_good (norm_key u) (s, ks, false) _ (normalize_normal raw)).
  - unfold section_of. now rewrite get_normalize.
  - split; [|reflexivity]. destruct ks; [destruct s; discriminate|exact G].
Qed.

(* ------------------------------------------------------------------ 2. carriers *)
Definition with_proj (c : case) (p : project) : case :=
  {| c_proj := p; c_cmd := c_cmd c; c_unit := c_unit c; c_lang := c_lang c; c_fname := c_fname c;
     c_overrides := c_overrides c; c_metrics := c_metrics c |}.
Definition only_yaml (d : dict) : project := {| p_yaml := Doc d; p_json := Absent; p_pyproject := Absent; p_dash := None; p_ignore_file := []; p_subdir := false |}.
Definition only_json (d : dict) : project := {| p_yaml := Absent; p_json := Doc d; p_pyproject := Absent; p_dash := None; p_ignore_file := []; p_subdir := false |}.
Definition only_pyproject (d : dict) : project := {| p_yaml := Absent; p_json := Absent; p_pyproject := Doc d; p_dash := None; p_ignore_file := []; p_subdir := false |}.
Definition only_dash (pos : dashpos) (suf : string) (d : dict) : project :=
  {| p_yaml := Absent; p_json := Absent; p_pyproject := Absent;
     p_dash := Some {| d_pos := pos; d_suffix := suf; d_file := Doc d |}; p_ignore_file := []; p_subdir := false |}.

(* the specification looks at the project only through the selected document *)
Lemma spec_by_doc c p k raw :
  spec_selected (with_proj c p) = LDoc k raw -> p_ignore_file p = [] ->
  spec (with_proj c p) = spec (with_proj c (only_yaml raw)).
Proof.
  intros H Hi. unfold spec. rewrite H. cbn [c_proj with_proj]. rewrite Hi.
  change (spec_selected (with_proj c (only_yaml raw))) with (LDoc KYaml raw). reflexivity.
Qed.

Lemma good_with_proj c p : case_good (with_proj c p) = case_good c /\ lang_good (with_proj c p) = lang_good c.
Proof. split; reflexivity. Qed.

Lemma spec_selected_only_dash c pos suf d :
  smem suf doc_valid_suffixes = true -> spec_selected (with_proj c (only_dash pos suf d)) = LDoc KDash d.
Proof.
  intros S. unfold spec_selected, spec_dash, spec_discovered, only_dash, with_proj.
  cbn [c_proj p_dash d_file d_suffix p_yaml p_json p_pyproject]. now rewrite S.
Qed.

Theorem carrier_equivalence q c d pos suf :
  flags_off q -> case_good c = true -> lang_good c = true -> smem suf doc_valid_suffixes = true ->
  run q (with_proj c (only_yaml d)) = run q (with_proj c (only_json d))
  /\ run q (with_proj c (only_yaml d)) = run q (with_proj c (only_pyproject d))
  /\ run q (with_proj c (only_yaml d)) = run q (with_proj c (only_dash pos suf d)).
Proof.
  intros H G L S.
  rewrite !(run_exact q _ H) by assumption.
  rewrite (spec_by_doc c (only_json d) KJson d eq_refl eq_refl).
  rewrite (spec_by_doc c (only_pyproject d) KPy d eq_refl eq_refl).
  rewrite (spec_by_doc c (only_dash pos suf d) KDash d (spec_selected_only_dash c pos suf d S) eq_refl). repeat split.
Qed.

(* precedence among discovered files: .thailint.yaml, then .thailint.json, then pyproject.toml *)
Theorem yaml_wins q c dy fj fp :
  flags_off q -> case_good c = true -> lang_good c = true ->
  run q (with_proj c {| p_yaml := Doc dy; p_json := fj; p_pyproject := fp; p_dash := None; p_ignore_file := []; p_subdir := false |})
  = run q (with_proj c (only_yaml dy)).
Proof.
  intros H G L. rewrite !(run_exact q _ H) by assumption.
  exact (spec_by_doc c {| p_yaml := Doc dy; p_json := fj; p_pyproject := fp; p_dash := None; p_ignore_file := []; p_subdir := false |} KYaml dy eq_refl eq_refl).
Qed.

Theorem json_wins q c dj fp :
  flags_off q -> case_good c = true -> lang_good c = true ->
  run q (with_proj c {| p_yaml := Absent; p_json := Doc dj; p_pyproject := fp; p_dash := None; p_ignore_file := []; p_subdir := false |})
  = run q (with_proj c (only_json dj)).
Proof.
  intros H G L. rewrite !(run_exact q _ H) by assumption.
  rewrite (spec_by_doc c {| p_yaml := Absent; p_json := Doc dj; p_pyproject := fp; p_dash := None; p_ignore_file := []; p_subdir := false |} KJson dj eq_refl eq_refl).
  now rewrite (spec_by_doc c (only_json dj) KJson dj eq_refl eq_refl).
Qed.

(* --config beats every discovered file (as long as the discovered one parses) *)
Theorem dash_wins q c fy fj fp pos suf dd :
  flags_off q -> case_good c = true -> lang_good c = true -> smem suf doc_valid_suffixes = true ->
  spec_discovered {| p_yaml := fy; p_json := fj; p_pyproject := fp; p_dash := None; p_ignore_file := []; p_subdir := false |} <> LErr ->
  run q (with_proj c {| p_yaml := fy; p_json := fj; p_pyproject := fp;
                        p_dash := Some {| d_pos := pos; d_suffix := suf; d_file := Doc dd |}; p_ignore_file := []; p_subdir := false |})
  = run q (with_proj c (only_dash pos suf dd)).
Proof.
  intros H G L S D. rewrite !(run_exact q _ H) by assumption.
  assert (E : spec_selected (with_proj c {| p_yaml := fy; p_json := fj; p_pyproject := fp;
                 p_dash := Some {| d_pos := pos; d_suffix := suf; d_file := Doc dd |}; p_ignore_file := []; p_subdir := false |}) = LDoc KDash dd).
  { unfold spec_selected, spec_dash. cbn [c_proj with_proj p_dash d_file d_suffix].
    change (spec_discovered {| p_yaml := fy; p_json := fj; p_pyproject := fp;
                               p_dash := Some {| d_pos := pos; d_suffix := suf; d_file := Doc dd |}; p_ignore_file := []; p_subdir := false |})
      with (spec_discovered {| p_yaml := fy; p_json := fj; p_pyproject := fp; p_dash := None; p_ignore_file := []; p_subdir := false |}).
    destruct (spec_discovered _); [contradiction|]. now rewrite S. }
  rewrite (spec_by_doc c _ KDash dd E eq_refl).
  now rewrite (spec_by_doc c _ KDash dd (spec_selected_only_dash c pos suf dd S) eq_refl).
Qed.

(* an EXPLICIT configuration that says nothing about the unit (empty / comment-only file, `{}`, only unrelated sections, no
   ignore list) means "all defaults": the run equals the run in a directory without any configuration, whatever the project's
   own .thailint.yaml / .thailint.json / pyproject.toml say - an explicit file that is present but empty is not "no file given" *)
Definition no_config : project :=
  {| p_yaml := Absent; p_json := Absent; p_pyproject := Absent; p_dash := None; p_ignore_file := []; p_subdir := false |}.

Theorem explicit_unrelated_config_is_defaults q c fy fj fp pos suf dd :
  flags_off q -> case_good c = true -> lang_good c = true -> smem suf doc_valid_suffixes = true ->
  spec_discovered {| p_yaml := fy; p_json := fj; p_pyproject := fp; p_dash := None; p_ignore_file := []; p_subdir := false |} <> LErr ->
  section_of (c_unit c) dd = [] -> str_list (get "ignore" dd) = [] ->
  run q (with_proj c {| p_yaml := fy; p_json := fj; p_pyproject := fp;
                        p_dash := Some {| d_pos := pos; d_suffix := suf; d_file := Doc dd |}; p_ignore_file := []; p_subdir := false |})
  = run q (with_proj c no_config).
Proof.
  intros H G L S D Hs Hi. rewrite (dash_wins q c fy fj fp pos suf dd H G L S D).
  rewrite !(run_exact q _ H) by assumption.
  unfold spec. rewrite (spec_selected_only_dash c pos suf dd S).
  change (spec_selected (with_proj c no_config)) with (LDoc KNone []).
  cbn [c_proj with_proj only_dash no_config p_ignore_file c_unit c_fname c_metrics app].
  rewrite Hi, Hs. reflexivity.
Qed.

Theorem explicit_empty_config_is_defaults q c fy fj fp pos suf :
  flags_off q -> case_good c = true -> lang_good c = true -> smem suf doc_valid_suffixes = true ->
  spec_discovered {| p_yaml := fy; p_json := fj; p_pyproject := fp; p_dash := None; p_ignore_file := []; p_subdir := false |} <> LErr ->
  run q (with_proj c {| p_yaml := fy; p_json := fj; p_pyproject := fp;
                        p_dash := Some {| d_pos := pos; d_suffix := suf; d_file := Doc [] |}; p_ignore_file := []; p_subdir := false |})
  = run q (with_proj c no_config).
Proof. intros H G L S D. now apply explicit_unrelated_config_is_defaults. Qed.

(* a CLI threshold option beats the section and every per-language sub-section *)
Theorem cli_option_wins q u lopts lang opt ovs cfg z :
  flags_off q -> In u units -> In lang all_languages -> ~ In opt all_languages ->
  spec_cli (cmd_of u) ovs opt = Some z ->
  opt_lookup lopts (as_map (get (norm_key u) (apply_overrides q cli_overrides (cmd_of u) ovs cfg))) lang opt
  = Some (VInt z).
Proof.
  intros H Hu Hl Ho E.
  rewrite (overrides_lookup q u lopts lang opt ovs); [now rewrite E| |exact Hu|exact Hl|exact Ho].
  apply H. unfold all_flags. rewrite !in_app_iff. do 4 right. left. apply in_map. now apply in_map.
Qed.

(* which language sub-sections each CLI option is also written into (nesting: all four languages, repaired;
   the srp defect concerns every language sub-section) *)
Definition row_langs (r : orow) : string * string * list string := match r with (c, o, _, _, langs) => (c, o, langs) end.
Fact F_override_langs : map row_langs cli_overrides =
  [("nesting", "--max-depth", ["python"; "typescript"; "javascript"; "rust"]); ("srp", "--max-methods", []); ("srp", "--max-loc", []);
   ("dry", "--min-lines", []); ("pipeline", "--min-continues", [])].
Proof. reflexivity. Qed.

Example cli_options_documented :
  cli_targets "nesting" "--max-depth" = ["max_nesting_depth"] /\ cli_targets "srp" "--max-methods" = ["max_methods"]
  /\ cli_targets "srp" "--max-loc" = ["max_loc"] /\ cli_targets "dry" "--min-lines" = ["min_duplicate_lines"]
  /\ cli_targets "pipeline" "--min-continues" = ["min_continues"].
Proof. repeat split; reflexivity. Qed.

(* ------------------------------------------------------------------ 3. enabled: false *)
Lemma spec_cli_not_target cmd ovs opt :
  (forall cli, smem opt (cli_targets cmd cli) = false) -> spec_cli cmd ovs opt = None.
Proof.
  intros H. induction ovs as [|[cli z] r IH]; cbn [spec_cli]; [reflexivity|]. now rewrite IH, H.
Qed.

Lemma enabled_not_target cmd cli : smem "enabled" (cli_targets cmd cli) = false.
Proof.
  unfold cli_targets, doc_cli_opts. cbn [flat_map app].
  repeat match goal with |- context [if ?b then _ else _] => destruct b end; reflexivity.
Qed.

Theorem enabled_false_silences q c k raw :
  flags_off q -> case_good c = true -> lang_good c = true ->
  spec_selected c = LDoc k raw ->
  smem "enabled" (doc_lang_opts (c_unit c)) = false ->
  get "enabled" (section_of (c_unit c) raw) = Some (VBool false) ->
  count_of (run q c) = 0.
Proof.
  intros H G L S Hl E. rewrite (run_exact q c H G L). unfold spec. rewrite S.
  destruct (existsb _ _); [reflexivity|].
  assert (Gu : In (c_unit c) units).
  { unfold case_good in G. apply andb_true_iff in G. now apply smem_In. }
  assert (B : unit_body (doc_opts (c_unit c)) (unit_probes (c_unit c)) (spec_res c (section_of (c_unit c) raw)) (c_fname c) (c_metrics c) = 0).
  { unfold unit_body. rewrite (F_enabled_opt _ Gu).
    unfold spec_res. rewrite (spec_cli_not_target _ _ "enabled" (enabled_not_target (c_cmd c))).
    unfold opt_lookup. rewrite Hl, E. reflexivity. }
  unfold unit_outcome. destruct (guard_status _ _ (spec_res _ _)); try reflexivity.
  destruct (guard_status _ _ _); try reflexivity. cbn [count_of]. exact B.
Qed.

(* ------------------------------------------------------------------ 4. monotonicity *)
(* direction in which a limit option of a probe is "more permissive": true = larger values report less *)
Definition mentions (p : probe) (o : string) : bool := smem o (probe_opts p).
Definition agree_dir (a b : option bool) : option bool :=
  match a, b with Some x, Some y => if Bool.eqb x y then Some x else None | _, _ => None end.
Fixpoint limit_dir (p : probe) (o : string) : option bool :=
  match p with
  | PGt _ o' | PGe _ o' => if String.eqb o o' then Some true else None
  | PLe _ o' => if String.eqb o o' then Some false else None
  | PRange _ a mx => if String.eqb o mx then (if String.eqb o a then None else Some true) else None
  | POr a b | PAnd a b =>
    match mentions a o, mentions b o with
    | false, false => None
    | true, false => limit_dir a o
    | false, true => limit_dir b o
    | true, true => agree_dir (limit_dir a o) (limit_dir b o)
    end
  | _ => None
  end.

Lemma mentions_app a b o : smem o (probe_opts a ++ probe_opts b) = mentions a o || mentions b o.
Proof. apply smem_app. Qed.

(* a combined probe has a direction for [o] only when each part that mentions [o] has that direction *)
Lemma combined_dir a b o up :
  (smem o (probe_opts a ++ probe_opts b) = false
   \/ match mentions a o, mentions b o with
      | false, false => None
      | true, false => limit_dir a o
      | false, true => limit_dir b o
      | true, true => agree_dir (limit_dir a o) (limit_dir b o)
      end = Some up) ->
  (mentions a o = false \/ limit_dir a o = Some up) /\ (mentions b o = false \/ limit_dir b o = Some up).
Proof.
  rewrite mentions_app. intros [D|D].
  - apply orb_false_iff in D. destruct D as [-> ->]. tauto.
  - destruct (mentions a o), (mentions b o); try discriminate; try tauto.
    unfold agree_dir in D. destruct (limit_dir a o) as [x|], (limit_dir b o) as [y|]; try discriminate.
    destruct (Bool.eqb x y) eqn:E; [|discriminate]. apply Bool.eqb_prop in E. subst y. tauto.
Qed.

Lemma fires_mono opts r1 r2 ms p o z1 z2 up :
  (forall o', o' <> o -> r1 o' = r2 o') ->
  as_int (r1 o) (default_of opts o) = Some z1 -> as_int (r2 o) (default_of opts o) = Some z2 ->
  (mentions p o = false \/ limit_dir p o = Some up) ->
  (if up then (z1 <= z2)%Z else (z2 <= z1)%Z) ->
  fires opts r2 ms p = true -> fires opts r1 ms p = true.
Proof.
  intros Hag E1 E2 D Hle.
  assert (U : forall p', mentions p' o = false -> fires opts r2 ms p' = true -> fires opts r1 ms p' = true).
  { intros p' D' F. rewrite <- F. apply fires_ext. intros o' Ho'. apply Hag. intros ->.
    unfold mentions in D'. apply smem_false_notin in D'. contradiction. }
  revert D.
  induction p as [m|m opt|m opt|m opt|m opt|m allowed mx|m opt|m opt|a IHa b IHb|a IHa b IHb]; intros D.
  all: try (destruct D as [D|D]; [now apply U|cbn [limit_dir] in D; discriminate]).
  - destruct D as [D|D]; [now apply U|]. cbn [limit_dir] in D.
    destruct (String.eqb_spec o opt) as [<-|]; [|discriminate]. injection D as <-.
    cbn [fires]. rewrite E1, E2. destruct (assoc m ms); [|discriminate]. rewrite !Z.ltb_lt. lia.
  - destruct D as [D|D]; [now apply U|]. cbn [limit_dir] in D.
    destruct (String.eqb_spec o opt) as [<-|]; [|discriminate]. injection D as <-.
    cbn [fires]. rewrite E1, E2. destruct (assoc m ms); [|discriminate]. rewrite !Z.leb_le. lia.
  - destruct D as [D|D]; [now apply U|]. cbn [limit_dir] in D.
    destruct (String.eqb_spec o opt) as [<-|]; [|discriminate]. injection D as <-.
    cbn [fires]. rewrite E1, E2. destruct (assoc m ms); [|discriminate]. rewrite !Z.leb_le. lia.
  - destruct D as [D|D]; [now apply U|]. cbn [limit_dir] in D.
    destruct (String.eqb_spec o mx) as [<-|]; [|discriminate].
    destruct (String.eqb_spec o allowed) as [|Na]; [discriminate|]. injection D as <-.
    cbn [fires]. rewrite E1, E2. rewrite (Hag allowed) by (intros ->; contradiction).
    destruct (assoc m ms); [|discriminate].
    rewrite !andb_true_iff, !negb_true_iff, !andb_false_iff, !Z.leb_gt. intros [Ha [Hz|Hz]]; split; try exact Ha; lia.
  - unfold mentions in D at 1. cbn [probe_opts limit_dir] in D. apply combined_dir in D. destruct D as [Da Db].
    cbn [fires]. rewrite !orb_true_iff. intros [F|F]; [left; now apply IHa|right; now apply IHb].
  - unfold mentions in D at 1. cbn [probe_opts limit_dir] in D. apply combined_dir in D. destruct D as [Da Db].
    cbn [fires]. rewrite !andb_true_iff. intros [Fa Fb]. split; [now apply IHa|now apply IHb].
Qed.

Lemma count_mono {A} (f g : A -> bool) l :
  (forall a, In a l -> g a = true -> f a = true) -> List.length (filter g l) <= List.length (filter f l).
Proof.
  induction l as [|x xs IH]; intros H; cbn [filter]; [lia|].
  assert (IH' := IH (fun a Ha => H a (or_intror Ha))).
  destruct (g x) eqn:G; [rewrite (H x (or_introl eq_refl) G); cbn [List.length]; lia|].
  destruct (f x); cbn [List.length]; lia.
Qed.

(* Two configurations of one rule that differ only in limit option [o] (not `enabled`/`ignore`):
   the more permissive value never reports more. *)
Theorem limit_monotone opts probes r1 r2 fname ms o z1 z2 up :
  (forall o', o' <> o -> r1 o' = r2 o') -> has_opt opts o = true ->
  o <> "enabled" -> o <> "ignore" ->
  as_int (r1 o) (default_of opts o) = Some z1 -> as_int (r2 o) (default_of opts o) = Some z2 ->
  Forall (fun p => mentions p o = false \/ limit_dir p o = Some up) probes ->
  (if up then (z1 <= z2)%Z else (z2 <= z1)%Z) ->
  unit_body opts probes r2 fname ms <= unit_body opts probes r1 fname ms.
Proof.
  intros Hag Ho Ne Ni E1 E2 Hp Hle. unfold unit_body.
  rewrite <- (Hag "enabled") by congruence. rewrite <- (Hag "ignore") by congruence.
  destruct (negb _); [lia|].
  destruct (existsb _ _); [lia|].
  apply count_mono. intros p Hin.
  apply (fires_mono opts _ _ ms p o z1 z2 up).
  - intros o' N. now rewrite (Hag o' N).
  - now rewrite Ho.
  - now rewrite Ho.
  - exact (proj1 (Forall_forall _ _) Hp p Hin).
  - exact Hle.
Qed.

(* a run that is not ended by exit 2 reports exactly what the rule body reports under the effective options *)
Theorem spec_ran_is_body opts gs probes res top fname ms n :
  unit_outcome opts gs probes false false false true res top fname ms = Ran n -> n = unit_body opts probes res fname ms.
Proof.
  unfold unit_outcome. destruct (guard_status opts gs res); try discriminate.
  destruct (guard_status opts gs top); try discriminate. now intros [= <-].
Qed.

(* the limit options of the modelled units have one direction each; `false` = smaller is more permissive *)
Definition documented_limits : list (string * string * bool) :=
  [("nesting", "max_nesting_depth", true); ("srp", "max_methods", true); ("srp", "max_loc", true);
   ("dry", "min_duplicate_lines", true); ("dry", "min_occurrences", true);
   ("magic-numbers", "max_small_integer", true); ("method-property", "max_body_statements", false);
   ("stateless-class", "min_methods", true); ("collection-pipeline", "min_continues", true);
   ("stringly-typed", "min_occurrences", true); ("stringly-typed", "min_values_for_enum", true);
   ("stringly-typed", "max_values_for_enum", false)].
Definition dir_eqb (a : option bool) (b : bool) : bool := match a with Some x => Bool.eqb x b | None => false end.
Fact F_limits : forallb (fun t => match t with (u, o, up) =>
    has_opt (doc_opts u) o && negb (String.eqb o "enabled") && negb (String.eqb o "ignore")
    && forallb (fun p => negb (mentions p o) || dir_eqb (limit_dir p o) up) (unit_probes u) end) documented_limits = true.
Proof. vm_compute. reflexivity. Qed.

Fact F_type_checks :
  lang_block_unchecked_own = ["nesting"; "srp"; "magic-numbers"; "print-statements"; "improper-logging"; "stringly-typed"]
  /\ lang_block_unchecked_fixed = [("dry", ["python"; "typescript"; "javascript"])]
  /\ lang_values_unvalidated = ["dry"] /\ section_type_unchecked = ["stateless-class"; "collection-pipeline"].
Proof. repeat split; reflexivity. Qed.

(* allowed-number lists: a superset never reports more *)
Theorem allowed_list_monotone opts res1 res2 ms m o :
  (forall x, zmem x (as_ints (res1 o) (default_of opts o)) = true -> zmem x (as_ints (res2 o) (default_of opts o)) = true) ->
  fires opts res2 ms (PNotIn m o) = true -> fires opts res1 ms (PNotIn m o) = true.
Proof.
  cbn [fires]. intros H. destruct (assoc m ms) as [x|]; [|discriminate].
  rewrite !negb_true_iff. intros F. destruct (zmem x (as_ints (res1 o) _)) eqn:E; [|reflexivity].
  rewrite (H x E) in F. discriminate.
Qed.

(* ------------------------------------------------------------------ 5. invalid => exit 2 *)
Lemma check_guards_fail gs ri o c b :
  In (o, c, b) gs -> (match ri o with Some z => cmp_Z c z b = true | None => True end) ->
  check_guards gs ri <> StOk.
Proof.
  induction gs as [|[[o' c'] b'] r IH]; intros Hin Hbad; [destruct Hin|].
  cbn [check_guards]. destruct Hin as [E|Hin].
  - injection E as -> -> ->. destruct (ri o); [rewrite Hbad|]; discriminate.
  - destruct (ri o'); [|discriminate]. destruct (cmp_Z c' z b'); [discriminate|]. now apply IH.
Qed.

Definition bad_value (v : option val) (cm : cmp) (b : Z) : Prop :=
  match v with
  | Some (VInt z) => cmp_Z cm z b = true     (* outside the documented range *)
  | Some _ => True                           (* not a number *)
  | None => False
  end.

(* the effective value (language block first) or the top-level value a language block shadows is invalid => exit 2 *)
Theorem invalid_value_exit_2 q c k raw o cm b :
  flags_off q -> case_good c = true -> lang_good c = true ->
  spec_selected c = LDoc k raw ->
  existsb (String.eqb (c_fname c)) (p_ignore_file (c_proj c) ++ str_list (get "ignore" raw)) = false ->
  In (o, cm, b) (doc_guards (c_unit c)) ->
  bad_value (spec_res c (section_of (c_unit c) raw) o) cm b
  \/ bad_value (spec_res_top c (section_of (c_unit c) raw) o) cm b ->
  run q c = Exit2.
Proof.
  intros H G L S I Hin Hbad. rewrite (run_exact q c H G L). unfold spec. rewrite S, I.
  assert (Gu : In (c_unit c) units).
  { unfold case_good in G. apply andb_true_iff in G. now apply smem_In. }
  pose proof (proj1 (forallb_forall _ _) (F_guard_opts _ Gu) (o, cm, b) Hin) as Ho. cbn [gopt fst] in Ho.
  assert (K : forall res, bad_value (res o) cm b ->
              guard_status (doc_opts (c_unit c)) (doc_guards (c_unit c)) res <> StOk).
  { intros res Hb. unfold guard_status. apply (check_guards_fail _ _ o cm b Hin). cbn beta. rewrite Ho.
    unfold bad_value in Hb. destruct (res o) as [[| z | | |]|]; cbn [as_int]; try exact Hb; try exact Logic.I. contradiction. }
  unfold unit_outcome. destruct Hbad as [Hb|Hb].
  - pose proof (K _ Hb) as N. destruct (guard_status _ _ (spec_res _ _)); [contradiction|reflexivity|reflexivity].
  - pose proof (K _ Hb) as N. destruct (guard_status _ _ (spec_res _ _)); try reflexivity.
    destruct (guard_status _ _ (spec_res_top _ _)); [contradiction|reflexivity|reflexivity].
Qed.

Theorem unparsable_exit_2 q c :
  flags_off q -> case_good c = true -> lang_good c = true -> spec_selected c = LErr -> run q c = Exit2.
Proof. intros H G L S. rewrite (run_exact q c H G L). unfold spec. now rewrite S. Qed.

(* when the selection is an error: the file that wins by precedence does not parse, or --config names a
   missing / unparsable file or one with an unsupported suffix *)
Theorem selection_errors c :
  (p_yaml (c_proj c) = Unparsable -> spec_selected c = LErr)
  /\ (p_yaml (c_proj c) = Absent -> p_json (c_proj c) = Unparsable -> spec_selected c = LErr)
  /\ (p_yaml (c_proj c) = Absent -> p_json (c_proj c) = Absent -> p_pyproject (c_proj c) = Unparsable -> spec_selected c = LErr)
  /\ (forall d, p_dash (c_proj c) = Some d ->
        d_file d = Absent \/ d_file d = Unparsable \/ smem (d_suffix d) doc_valid_suffixes = false -> spec_selected c = LErr).
Proof.
  unfold spec_selected, spec_discovered, spec_dash. repeat split.
  - now intros ->.
  - now intros -> ->.
  - now intros -> -> ->.
  - intros d Ed Hd. rewrite Ed.
    assert (X : match d_file d with
                | Doc r => if smem (d_suffix d) doc_valid_suffixes then LDoc KDash r else LErr
                | _ => LErr end = LErr).
    { destruct Hd as [E | Hd]; [now rewrite E|]. destruct Hd as [E | E]; [now rewrite E|].
      rewrite E. now destruct (d_file d). }
    rewrite X.
    destruct (p_yaml (c_proj c)); try reflexivity.
    destruct (p_json (c_proj c)); try reflexivity.
    destruct (p_pyproject (c_proj c)); reflexivity.
Qed.

(* ------------------------------------------------------------------ 6. top-level ignore *)
Theorem top_level_ignore_honoured q c k raw :
  flags_off q -> case_good c = true -> lang_good c = true ->
  spec_selected c = LDoc k raw -> In (c_fname c) (p_ignore_file (c_proj c) ++ str_list (get "ignore" raw)) ->
  run q c = Ran 0.
Proof.
  intros H G L S I. rewrite (run_exact q c H G L). unfold spec. rewrite S.
  assert (E : existsb (String.eqb (c_fname c)) (p_ignore_file (c_proj c) ++ str_list (get "ignore" raw)) = true).
  { apply existsb_exists. exists (c_fname c). split; [exact I|apply String.eqb_refl]. }
  now rewrite E.
Qed.

(* where the linted file lies below the project directory does not matter *)
Definition with_subdir (c : case) (b : bool) : case :=
  with_proj c {| p_yaml := p_yaml (c_proj c); p_json := p_json (c_proj c); p_pyproject := p_pyproject (c_proj c);
                 p_dash := p_dash (c_proj c); p_ignore_file := p_ignore_file (c_proj c); p_subdir := b |}.
Theorem subdirectory_irrelevant q c :
  flags_off q -> case_good c = true -> lang_good c = true ->
  run q (with_subdir c true) = run q (with_subdir c false).
Proof. intros H G L. rewrite !(run_exact q _ H) by assumption. reflexivity. Qed.

(* ------------------------------------------------------------------ 7. the claimed vector outside the defect classes *)
(* For the vector claimed for the current tree: on projects configured by .thailint.yaml and/or .thailint.json (or not at all),
   without CLI threshold options, for units none of whose flags is listed, the faithful model equals the
   specification (the listed defects are confined to the other carriers, CLI options and the listed units). *)
Definition unit_clean (u : string) : bool :=
  negb (has config_actual (fl "section_not_read" u)) && negb (has config_actual (fl "enabled_option_missing" u))
  && negb (has config_actual (fl "whole_config_fallback" u)) && negb (has config_actual (fl "language_override_ignored" u))
  && negb (has config_actual (fl "language_block_value_not_validated" u)) && negb (has config_actual (fl "non_mapping_section_crashes" u)).

Definition clean_units : list string := filter unit_clean units.
Example clean_units_are :
  clean_units = ["nesting"; "srp"; "magic-numbers"; "print-statements"; "method-property"; "stringly-typed"; "lbyl"; "cqs"; "performance";
                 "unwrap-abuse"; "clone-abuse"; "blocking-async"].
Proof. vm_compute. reflexivity. Qed.

Theorem actual_partial c :
  unit_clean (c_unit c) = true -> case_good c = true -> lang_good c = true ->
  p_pyproject (c_proj c) = Absent -> p_dash (c_proj c) = None -> c_overrides c = [] -> p_subdir (c_proj c) = false ->
  (* no guarded option is given as a non-number and the top-level values are valid: the wrong-type, retry and
     shadowed-value defects are excluded *)
  (forall k raw, spec_selected c = LDoc k raw ->
     no_type_error (doc_opts (c_unit c)) (doc_guards (c_unit c)) (spec_res c (section_of (c_unit c) raw))) ->
  (forall k raw, spec_selected c = LDoc k raw ->
     guard_status (doc_opts (c_unit c)) (doc_guards (c_unit c)) (spec_res_top c (section_of (c_unit c) raw)) = StOk) ->
  (* nothing but a mapping is written where a language block is expected *)
  (forall k raw, spec_selected c = LDoc k raw -> forall l, nonmap (get l (section_of (c_unit c) raw)) = false) ->
  run config_actual c = spec c.
Proof.
  intros U G L P D O Sd T V B.
  unfold unit_clean in U. rewrite !andb_true_iff, !negb_true_iff in U. destruct U as [[[[[U1 U2] U3] U4] U5] U6].
  apply run_confined; [|exact G|exact L].
  constructor; try assumption; try (right; assumption). right. split; assumption.
Qed.
