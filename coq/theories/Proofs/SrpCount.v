(* Proofs/SrpCount.v — the three counting functions of each language against the documented notions:
   public methods (name tests, node types and the property decorator from the generated layer),
   lines of code (slice offsets and comment prefixes from the generated layer), Rust impl association. *)
From TL Require Import Lib.Base Lib.GenTypes Model.SrpTypes Gen.SrpGen Model.SrpSpec Model.Srp Proofs.SrpBase.

(* ------------------------------------------------------------------ methods *)
Lemma py_countable_spec q m :
  member_good Py m = true ->
  q_py_setter_counted q = false \/ is_setter (m_kind m) = false ->
  q_py_cached_property_counted q = false \/ is_cached (m_kind m) = false ->
  py_countable q m = public_method m.
Proof.
  destruct m as [k n]. unfold member_good, py_countable, public_method, py_countable_tests. cbn [m_kind m_name existsb py_test].
  generalize (starts_with "_" n). intros b.
  destruct k; cbn; intros H Hs Hc; try discriminate; try (destruct b; cbn; rewrite ?orb_true_r; reflexivity).
  - (* MSetter *) destruct Hs as [-> | Hs]; [|discriminate]. destruct b; cbn; now rewrite ?andb_false_r.
  - (* MCachedProp *) destruct Hc as [-> | Hc]; [|discriminate]. destruct b; cbn; now rewrite ?andb_false_r.
Qed.

Lemma rs_countable_spec m : member_good Rs m = true -> rs_countable m = public_method m.
Proof.
  destruct m as [k n]. unfold member_good, rs_countable, rs_fn_name, public_method. cbn [m_kind m_name].
  destruct k; cbn; intros H; try discriminate; reflexivity.
Qed.

Lemma ts_countable_spec q l m :
  l = Ts \/ l = Js -> member_good l m = true ->
  q_ts_nonpublic_counted q = false \/ nonpublic (m_kind m) = false ->
  q_ts_accessor_counted q = false \/ accessor (m_kind m) = false ->
  ts_countable q m = public_method m.
Proof.
  intros Hl Hg Hn Ha. destruct m as [k n]. unfold member_good in Hg. cbn [m_kind m_name] in *.
  assert (Hc : Bool.eqb (is_ctor k) (String.eqb n "constructor") = true).
  { destruct Hl as [-> | ->]; apply andb_prop in Hg; tauto. }
  assert (Hk : mkind_ok Ts k = true).
  { destruct Hl as [-> | ->]; apply andb_prop in Hg; destruct Hg as [Hg _]; apply andb_prop in Hg; destruct Hg as [Hg _];
      [exact Hg | destruct k; try discriminate; reflexivity]. }
  apply Bool.eqb_prop in Hc.
  unfold ts_countable, ts_countable_tests, public_method. cbn [existsb ts_test]. unfold ts_method_name, ts_name_node_type. cbn [m_kind m_name].
  clear Hg Hl.
  destruct k; cbn in Hk; try discriminate; cbn -[starts_with] in Hc, Hn, Ha |- *; rewrite <- ?Hc;
    generalize (starts_with "_" n); intros b;
    try (destruct b; cbn; rewrite ?orb_true_r; reflexivity).
  - (* MProperty *) destruct Ha as [-> | Ha]; [|discriminate]. destruct b; cbn; now rewrite ?andb_false_r.
  - (* MPrivateKw *) destruct Hn as [-> | Hn]; [|discriminate]. destruct b; cbn; now rewrite ?andb_false_r.
  - (* MProtectedKw *) destruct Hn as [-> | Hn]; [|discriminate]. destruct b; cbn; now rewrite ?andb_false_r.
  - (* MHashPrivate *) destruct Hn as [-> | Hn]; [|discriminate]. reflexivity.
  - (* MSetter *) destruct Ha as [-> | Ha]; [|discriminate]. destruct b; cbn; now rewrite ?andb_false_r.
Qed.

(* ------------------------------------------------------------------ lines *)
Ltac fin := cbn; rewrite ?andb_false_r, ?orb_false_r, ?andb_true_r, ?orb_true_r; try reflexivity.

Lemma py_line_counts_spec q x :
  line_good Py x = true -> q_py_hash_in_string q = false \/ lkind_eqb (l_kind x) LStrHash = false ->
  py_line_counts q x = is_code x.
Proof.
  destruct x as [k raw]. unfold line_good, py_line_counts, text_counts, is_code, py_comment_prefix, l_text. cbn [l_kind l_raw comment_marker].
  generalize (strip raw). intros t. intros Hg Hq. apply andb_prop in Hg. destruct Hg as [_ Hg]. revert Hg Hq.
  destruct k; cbn [lkind_eqb]; intros Hg Hq.
  - apply String.eqb_eq in Hg. subst t. fin.
  - rewrite Hg. fin.
  - discriminate.
  - rewrite andb_true_r in Hg. rewrite Hg. fin.
  - rewrite Hg. destruct Hq as [-> | Hq]; [|discriminate]. fin.
Qed.

(* TypeScript / JavaScript / Rust: the // filter *)
Lemma slash_counts_spec l b x :
  l <> Py -> line_good l x = true -> b = false \/ lkind_eqb (l_kind x) LBlockComment = false ->
  text_counts "//" x && (b || negb (lkind_eqb (l_kind x) LBlockComment)) = is_code x.
Proof.
  intros Hl. assert (Hm : comment_marker l = "//") by (destruct l; [congruence | reflexivity..]).
  assert (Hb : forall t, match l with Py => false | _ => starts_with block_marker t end = starts_with "/*" t) by (destruct l; [congruence | reflexivity..]).
  assert (Hc : forall t, match l with Py => true | _ => negb (starts_with block_marker t) end = negb (starts_with "/*" t)) by (destruct l; [congruence | reflexivity..]).
  assert (Hh : forall t, match l with Py => starts_with "#" t | _ => false end = false) by (destruct l; [congruence | reflexivity..]).
  destruct x as [k raw]. unfold line_good, text_counts, is_code, l_text. cbn [l_kind l_raw]. rewrite Hm.
  generalize (strip raw). intros t. intros Hg Hq. apply andb_prop in Hg. destruct Hg as [_ Hg]. revert Hg Hq.
  destruct k; cbn [lkind_eqb]; intros Hg Hq.
  - apply String.eqb_eq in Hg. subst t. fin.
  - rewrite Hg. fin.
  - rewrite Hb in Hg. destruct (block_not_line t Hg) as [H1 H2]. rewrite H1, H2. destruct Hq as [-> | Hq]; [|discriminate]. fin.
  - apply andb_prop in Hg. destruct Hg as [Hg _]. rewrite Hg. fin.
  - rewrite Hh in Hg. discriminate.
Qed.

Lemma rs_line_counts_spec q x :
  line_good Rs x = true -> q_rs_block_comment_counted q = false \/ lkind_eqb (l_kind x) LBlockComment = false ->
  rs_line_counts q x = is_code x.
Proof. intros Hg Hq. unfold rs_line_counts, rs_comment_prefix. apply (slash_counts_spec Rs); [discriminate | exact Hg | exact Hq]. Qed.

Lemma ts_line_counts_spec q l x :
  l = Ts \/ l = Js -> line_good l x = true -> q_ts_block_comment_counted q = false \/ lkind_eqb (l_kind x) LBlockComment = false ->
  ts_line_counts q "//" x = is_code x.
Proof. intros Hl Hg Hq. unfold ts_line_counts. apply (slash_counts_spec l); [destruct Hl; subst; discriminate | exact Hg | exact Hq]. Qed.

Section Loc.
  Variable lines : list line.
  Variable l : lang.
  Hypothesis Hlines : forallb (line_good l) lines = true.

  Lemma py_count_loc_spec q c :
    l = Py -> span_good (List.length lines) (c_line c) (c_len c) = true ->
    q_py_hash_in_string q = false \/ forallb (fun x => negb (lkind_eqb (l_kind x) LStrHash)) lines = true ->
    py_count_loc q lines c = spec_loc lines (c_line c) (c_len c).
  Proof.
    intros -> Hs Hq. destruct (span_good_inv _ _ _ Hs) as (H1 & H2 & H3).
    unfold py_count_loc, spec_loc, py_loc_lo_sub, py_loc_hi_add. rewrite Nat.add_0_r, slice_extent by exact H1.
    apply filter_length_ext. intros x Hx. apply extent_In in Hx. apply py_line_counts_spec.
    - exact (forallb_In _ _ _ Hlines Hx).
    - destruct Hq as [Hq | Hq]; [now left | right]. pose proof (forallb_In _ _ _ Hq Hx) as E. now apply negb_true_iff in E.
  Qed.

  Lemma rs_node_loc_spec q start len :
    l = Rs -> span_good (List.length lines) start len = true ->
    q_rs_block_comment_counted q = false \/ forallb (fun x => negb (lkind_eqb (l_kind x) LBlockComment)) lines = true ->
    rs_node_loc q lines start len = spec_loc lines start len.
  Proof.
    intros -> Hs Hq. destruct (span_good_inv _ _ _ Hs) as (H1 & H2 & H3).
    unfold rs_node_loc, spec_loc, rs_loc_lo_sub, rs_loc_hi_add. rewrite Nat.sub_0_r.
    replace (start + len - 2 + 1) with (start + len - 1) by lia. rewrite slice_extent by exact H1.
    apply filter_length_ext. intros x Hx. apply extent_In in Hx. apply rs_line_counts_spec.
    - exact (forallb_In _ _ _ Hlines Hx).
    - destruct Hq as [Hq | Hq]; [now left | right]. pose proof (forallb_In _ _ _ Hq Hx) as E. now apply negb_true_iff in E.
  Qed.

  Lemma ts_count_loc_spec q c :
    l = Ts \/ l = Js -> span_good (List.length lines) (c_line c - c_deco c) (c_len c) = true ->
    q_ts_block_comment_counted q = false \/ forallb (fun x => negb (lkind_eqb (l_kind x) LBlockComment)) lines = true ->
    ts_count_loc q lines c = spec_loc lines (c_line c - c_deco c) (c_len c).
  Proof.
    intros Hl Hs Hq. destruct (span_good_inv _ _ _ Hs) as (H1 & H2 & H3).
    unfold ts_count_loc, spec_loc, ts_loc_mode. rewrite Nat.sub_0_r.
    replace (c_line c - c_deco c + c_len c - 2 + 1) with (c_line c - c_deco c + c_len c - 1) by lia. rewrite slice_extent by exact H1.
    apply filter_length_ext. intros x Hx. apply extent_In in Hx. apply (ts_line_counts_spec q l x Hl).
    - exact (forallb_In _ _ _ Hlines Hx).
    - destruct Hq as [Hq | Hq]; [now left | right]. pose proof (forallb_In _ _ _ Hq Hx) as E. now apply negb_true_iff in E.
  Qed.
End Loc.

(* ------------------------------------------------------------------ Rust: which impl blocks belong to a struct *)
(* repaired get_impl_target_name: the implementing type, for inherent, trait and generic impl blocks alike *)
Lemma rs_target_spec i : rs_target i = i_self i.
Proof. unfold rs_target, rs_target_mode. destruct (i_generic i); reflexivity. Qed.

Lemma rs_assoc_spec q n s i :
  impl_good n i = true ->
  q_rs_name_collision q = false \/ implb (String.eqb (s_name s) (i_self i)) (path_eqb (s_path s) (i_path i)) = true ->
  rs_assoc q s i = own_impl s i.
Proof.
  intros Hg Hc. unfold rs_assoc, own_impl. rewrite (rs_target_spec i).
  assert (Hn : String.eqb (i_self i) "" = false).
  { unfold impl_good in Hg. apply andb_prop in Hg. destruct Hg as [Hg _]. apply andb_prop in Hg. destruct Hg as [Hg _].
    apply andb_prop in Hg. destruct Hg as [Hn _]. now apply negb_true_iff in Hn. }
  rewrite Hn. cbn [negb]. rewrite andb_true_r.
  change (rs_struct_key s) with (s_name s).
  destruct Hc as [-> | Hc]; [reflexivity|].
  destruct (String.eqb (s_name s) (i_self i)); cbn in Hc |- *; [rewrite Hc; now rewrite orb_true_r | reflexivity].
Qed.
