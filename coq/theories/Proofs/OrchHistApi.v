(* Proofs/OrchHistApi.v — agreement of the entry points (C10): a directory / file-list run is the union of
   single-file runs for everything check() returns, the library API and the command line make the same calls,
   several command-line targets are independent runs, and the API's rule filter agrees with the per-command
   filters of the CLI on the rule ids a run can emit. *)
From Coq Require Import Permutation.
From TL Require Import Lib.Base Lib.GenTypes Gen.OrchHistGen Model.OrchHist Proofs.OrchHistBase Proofs.OrchHistMain.

(* ---------- every command's rule filter selects exactly the rule ids of its own linter package ---------- *)
(* CLI filter function -> package of src/linters it is the front end of (the specification side of the table) *)
Definition cmd_pkg : list (string * list string) :=
  [("_run_dry_lint", ["dry"]); ("_run_stringly_typed_lint", ["stringly_typed"]); ("_run_nesting_lint", ["nesting"]);
   ("_run_magic_numbers_lint", ["magic_numbers"]); ("_run_improper_logging_lint", ["print_statements"]);
   ("_run_file_header_lint", ["file_header"]); ("_run_lbyl_lint", ["lbyl"]); ("_run_srp_lint", ["srp"]);
   ("_run_method_property_lint", ["method_property"]); ("_run_stateless_class_lint", ["stateless_class"]);
   ("_run_pipeline_lint", ["collection_pipeline"]); ("_execute_file_placement_lint", ["file_placement"]);
   ("_run_lazy_ignores_lint", ["lazy_ignores"]); ("_run_unwrap_abuse_lint", ["unwrap_abuse"]);
   ("_run_clone_abuse_lint", ["clone_abuse"]); ("_run_blocking_async_lint", ["blocking_async"]);
   ("_run_all_perf_lint", ["performance"])].

Definition filter_exact (fn : string) (pkgs : list string) : bool :=
  match cli_filter_of fn cli_filters with
  | Some (k, n) =>
      forallb (fun e : string * list string =>
                 forallb (fun id => Bool.eqb (fmatch k n id) (smem (fst e) pkgs)) (snd e)) package_rule_ids
  | None => false
  end.

Theorem cli_filters_select_own_package : forallb (fun e => filter_exact (fst e) (snd e)) cmd_pkg = true.
Proof. vm_compute. reflexivity. Qed.

Section Filters.
  Variable V : Type.
  Variable rule_of : V -> string.

  (* Linter._filter_violations: `if rules: [v for v in violations if v.rule_id in rules]` else everything *)
  Definition api_filter (rules : list string) (vs : list V) : list V :=
    match rules with
    | [] => vs
    | _ => if String.eqb api_rules_filter "FIn" then filter (fun v => smem (rule_of v) rules) vs
           else filter (fun v => negb (smem (rule_of v) rules)) vs
    end.
  Definition cli_filter (kind needle : string) (vs : list V) : list V := filter (fun v => fmatch kind needle (rule_of v)) vs.

  Lemma smem_filter f r ids : In r ids -> smem r (filter f ids) = f r.
  Proof.
    intros H. destruct (f r) eqn:E.
    - apply smem_In. apply filter_In. now split.
    - destruct (smem r (filter f ids)) eqn:S; [|reflexivity].
      apply smem_In in S. apply filter_In in S. destruct S as [_ S]. congruence.
  Qed.

  (* asking the API for exactly the rule ids a command's filter accepts gives what the command prints *)
  Theorem filters_agree kind needle ids vs :
    (forall v, In v vs -> In (rule_of v) ids) ->
    filter (fmatch kind needle) ids <> [] ->
    api_filter (filter (fmatch kind needle) ids) vs = cli_filter kind needle vs.
  Proof.
    intros Hin Hne. unfold api_filter, cli_filter.
    destruct (filter (fmatch kind needle) ids) as [|r0 rs] eqn:E; [congruence|]. rewrite <- E.
    rewrite gen_api_rules_filter. cbn [String.eqb Ascii.eqb Bool.eqb].
    apply filter_ext_in. intros v Hv. apply smem_filter. now apply Hin.
  Qed.
End Filters.

Section Api.
  Variable V : Type.
  Variable perfile perfile_fp : path -> option content -> list V.
  Variable rep_blocks : option content -> list fv -> list fv -> list V.
  Variable rep_consts : option content -> list fv -> list V.
  Variable rep_st : list fv -> list V.
  Variable hard_excl : path -> bool.
  Variable ignored : option content -> path -> bool.
  Variable ign_path cfg_path : path.
  Variable in_dir : nat -> path -> bool.

  Notation run_entry := (run_entry V perfile perfile_fp rep_blocks rep_consts rep_st hard_excl ignored).
  Notation run_single := (run_single V perfile perfile_fp rep_blocks rep_consts rep_st hard_excl ignored).
  Notation step := (step V perfile perfile_fp rep_blocks rep_consts rep_st hard_excl ignored ign_path cfg_path in_dir).
  Notation run := (run V perfile perfile_fp rep_blocks rep_consts rep_st hard_excl ignored ign_path cfg_path in_dir).
  Notation freshN := (fresh V perfile perfile_fp rep_blocks rep_consts rep_st hard_excl ignored ign_path cfg_path in_dir).
  Notation fresh_run := (fresh_run V perfile perfile_fp rep_blocks rep_consts rep_st hard_excl ignored ign_path cfg_path in_dir).
  Notation cli_run := (cli_run V perfile perfile_fp rep_blocks rep_consts rep_st hard_excl ignored ign_path cfg_path in_dir).
  Notation api_run := (api_run V perfile perfile_fp rep_blocks rep_consts rep_st hard_excl ignored ign_path cfg_path in_dir).
  Notation mk_init := (mk_init ign_path cfg_path).
  Notation coherent := (coherent ignored).
  Notation pfout := (pfout V perfile perfile_fp hard_excl ignored).
  Notation pf1 := (pf1 V perfile perfile_fp hard_excl ignored).
  Notation REF := (run_entry_finalizing V perfile perfile_fp rep_blocks rep_consts rep_st hard_excl ignored).
  Notation RSC := (run_single_char V perfile perfile_fp rep_blocks rep_consts rep_st hard_excl ignored).
  Notation views_ok := (views_ok).

  (* ---------- 1. directory / file list = union of the files, for everything check() returns ---------- *)
  (* (for an object that holds the current patterns and configuration and whose rules use that configuration) *)
  Definition current (q : oquirks) (st : ostate) (fs : fsys) : Prop :=
    ppats st = fs_get fs ign_path /\ ocfg st = fs_get fs cfg_path /\ views_ok q st.

  Lemma fresh_fp_view q fs : fp_view q (mk_init fs) = fs_get fs cfg_path.
  Proof. destruct (views_ok_fresh q (fs_get fs ign_path) (fs_get fs cfg_path)) as (A & _). exact A. Qed.

  Lemma single_file_pf q fs p : o_pf (freshN q fs (LintFile p)) = pf1 (fs_get fs ign_path) (fs_get fs cfg_path) (fs_get fs cfg_path) fs p.
  Proof.
    unfold OrchHist.fresh. cbn [OrchHist.step].
    pose proof (RSC q "lint_file" fs (mk_init fs) p (coherent_init ignored _ _)) as (_ & _ & _ & Hp).
    destruct (Hp gen_lint_file_no_finalize) as (H1 & _). cbn zeta in H1. rewrite fresh_fp_view in H1.
    destruct (run_single q "lint_file" fs (mk_init fs) p) as [s r]. cbn [fst snd] in *. rewrite H1. cbn [o_pf].
    unfold OrchHistBase.pfout. cbn [flat_map]. apply app_nil_r.
  Qed.

  Lemma pfout_union q fs ps :
    pfout (fs_get fs ign_path) (fs_get fs cfg_path) (fs_get fs cfg_path) fs ps = flat_map (fun p => o_pf (freshN q fs (LintFile p))) ps.
  Proof. unfold OrchHistBase.pfout. apply flat_map_ext. intros p. symmetry. apply single_file_pf. Qed.

  Theorem files_is_union q st fs ps : coherent st -> current q st fs ->
    o_pf (snd (step q (st, fs) (LintFiles ps))) = flat_map (fun p => o_pf (freshN q fs (LintFile p))) ps.
  Proof.
    intros C (S & SC & (W1 & _)). cbn [OrchHist.step].
    pose proof (REF q "lint_files" fs st ps gen_lint_files_finalizes C) as (H1 & _).
    destruct (run_entry q "lint_files" fs st ps) as [s r]. cbn [fst snd] in *. rewrite H1, W1, S, SC. cbn [o_pf]. apply pfout_union.
  Qed.

  Theorem dir_is_union q st fs d l : coherent st -> current q st fs ->
    o_pf (snd (step q (st, fs) (LintDir d l))) = flat_map (fun p => o_pf (freshN q fs (LintFile p))) (walk in_dir fs d l)
    /\ o_pf (snd (step q (st, fs) (ApiLint (TDir d l)))) = flat_map (fun p => o_pf (freshN q fs (LintFile p))) (walk in_dir fs d l).
  Proof.
    intros C (S & SC & (W1 & _)). cbn [OrchHist.step]. rewrite gen_api_dir_entry.
    pose proof (REF q "lint_directory" fs st (walk in_dir fs d l) gen_lint_directory_finalizes C) as (H1 & _).
    destruct (run_entry q "lint_directory" fs st (walk in_dir fs d l)) as [s r]. cbn [fst snd] in *. rewrite H1, W1, S, SC. cbn [o_pf].
    split; apply pfout_union.
  Qed.

  (* a single existing file through the API: the same per-file findings as through any other entry point *)
  Theorem api_file_perfile q fs p c : fs_get fs p = Some c ->
    o_pf (api_run q fs (TFile p)) = o_pf (freshN q fs (LintFile p)).
  Proof.
    intros E. unfold OrchHist.api_run, OrchHist.fresh at 1. cbn [OrchHist.step]. rewrite E.
    pose proof (RSC q (api_file_entry q) fs (mk_init fs) p (coherent_init ignored _ _)) as (_ & _ & Hf & Hp).
    rewrite single_file_pf. destruct (api_entry_cases q) as [Ea|Ea]; rewrite Ea in *.
    - destruct (Hp gen_lint_file_no_finalize) as (H1 & _). cbn zeta in H1. rewrite fresh_fp_view in H1.
      destruct (run_single q "lint_file" fs (mk_init fs) p) as [s r]. cbn [fst snd] in *. rewrite H1. cbn [o_pf].
      unfold OrchHistBase.pfout. cbn [flat_map]. apply app_nil_r.
    - specialize (Hf gen_lint_files_finalizes).
      pose proof (REF q "lint_files" fs (mk_init fs) [p] gen_lint_files_finalizes (coherent_init ignored _ _)) as (H1 & _).
      cbn zeta in H1. rewrite fresh_fp_view in H1.
      destruct (run_single q "lint_files" fs (mk_init fs) p) as [s r]. rewrite <- Hf in H1. cbn [fst snd] in *. rewrite H1. cbn [o_pf].
      unfold OrchHistBase.pfout. cbn [flat_map]. apply app_nil_r.
  Qed.

  (* ---------- 2. the API and the CLI make the same call for the same single target ---------- *)
  Lemma cli_guard : is_entry cli_files_entry "lint_files" && is_entry cli_dirs_entry "lint_directory" = true.
  Proof. reflexivity. Qed.

  Theorem api_eq_cli_dir q fs d l : cli_run q fs [] [(d, l)] = [api_run q fs (TDir d l)].
  Proof.
    unfold OrchHist.cli_run, OrchHist.api_run, OrchHist.fresh. rewrite cli_guard.
    cbn [cli_ops map app fst snd OrchHist.run OrchHist.step]. rewrite gen_api_dir_entry.
    destruct (run_entry q "lint_directory" fs (mk_init fs) (walk in_dir fs d l)) as [s r]. reflexivity.
  Qed.

  Theorem api_eq_cli_file q fs p c : fs_get fs p = Some c ->
    cli_run q fs [p] [] = [api_run q fs (TFile p)].
  Proof.
    intros E. unfold OrchHist.cli_run, OrchHist.api_run, OrchHist.fresh. rewrite cli_guard.
    cbn [cli_ops map app fst snd OrchHist.run OrchHist.step]. rewrite E, (gen_api_file_entry q).
    unfold OrchHist.run_single. rewrite gen_lint_files_finalizes.
    destruct (run_entry q "lint_files" fs (mk_init fs) [p]) as [s r]. reflexivity.
  Qed.

  (* ---------- 3. several command-line targets: each is reported as a run of its own ---------- *)
  Lemma fresh_run_lint_only q fs h : forallb lint_op h = true -> fresh_run q fs h = map (freshN q fs) h.
  Proof.
    revert fs. induction h as [|o r IH]; intros fs H; cbn [OrchHistMain.fresh_run map]; [reflexivity|].
    cbn [forallb] in H. apply andb_true_iff in H. destruct H as [Ho Hr].
    assert (fs_step fs o = fs) as -> by (destruct o; cbn [fs_step lint_op] in *; try reflexivity; discriminate).
    now rewrite IH.
  Qed.

  Lemma cli_ops_batch q files dirs :
    forallb (fun o => negb (bare_single q o)) (cli_ops files dirs) = true /\ forallb lint_op (cli_ops files dirs) = true
    /\ hist_synced ign_path cfg_path false false (cli_ops files dirs) = true
    /\ forallb (fun o => negb (is_new_linter o)) (cli_ops files dirs) = true
    /\ forallb (fun o => negb (is_reload o)) (cli_ops files dirs) = true.
  Proof.
    unfold cli_ops. assert (HD : forall ds : list (nat * list path),
               forallb (fun o => negb (bare_single q o)) (map (fun d => LintDir (fst d) (snd d)) ds) = true
               /\ forallb lint_op (map (fun d => LintDir (fst d) (snd d)) ds) = true
               /\ hist_synced ign_path cfg_path false false (map (fun d => LintDir (fst d) (snd d)) ds) = true
               /\ forallb (fun o => negb (is_new_linter o)) (map (fun d => LintDir (fst d) (snd d)) ds) = true
               /\ forallb (fun o => negb (is_reload o)) (map (fun d => LintDir (fst d) (snd d)) ds) = true).
    { induction ds as [|d r (I1 & I2 & I3 & I4 & I5)]; [repeat split|]. cbn [map forallb bare_single negb andb lint_op hist_synced is_new_linter is_reload].
      repeat split; assumption. }
    destruct (HD dirs) as (H1 & H2 & H3 & H4 & H5). destruct files as [|f fr]; cbn [app]; [repeat split; assumption|].
    cbn [forallb bare_single negb andb lint_op hist_synced is_new_linter is_reload]. repeat split; assumption.
  Qed.

  (* for every quirk vector, in particular the one claimed for the current tree *)
  Theorem cli_targets_independent q fs files dirs :
    cli_run q fs files dirs = map (freshN q fs) (cli_ops files dirs).
  Proof.
    unfold OrchHist.cli_run. rewrite cli_guard.
    destruct (cli_ops_batch q files dirs) as (B & L & HS & NL & NR).
    rewrite (history_independent_faithful V perfile perfile_fp rep_blocks rep_consts rep_st hard_excl ignored ign_path cfg_path in_dir q fs (cli_ops files dirs) B NL NR HS).
    now apply fresh_run_lint_only.
  Qed.
End Api.
