(* Proofs/OutputSan.v — the sanitiser of C06 as a function on byte strings (text.encode("utf-8", "surrogateescape")
   .decode("utf-8", "replace")): it is the identity exactly on well-formed UTF-8, its result is always well-formed
   UTF-8, it is idempotent, and it neither removes nor introduces ASCII bytes (newline, colon, ...). *)
From TL Require Import Lib.Base Model.OutputTypes Gen.OutputGen Model.Output Proofs.OutputStr.
From Coq Require Import ZArith Lia.
Local Open Scope string_scope.

(* the codec arguments found in _sanitize_string are the ones this model was written for *)
Lemma sanitize_codec_ok : sanitize_codec = ["utf-8"; "surrogateescape"; "utf-8"; "replace"].
Proof. reflexivity. Qed.

Lemma utf8_start_pos b n l h : utf8_start b = Some (n, l, h) -> n <> 0%nat /\ (128 <= l)%nat.
Proof.
  unfold utf8_start.
  repeat match goal with |- context [if ?c then _ else _] => destruct c end;
    intros [= <- <- <-]; split; (discriminate || lia).
Qed.

Lemma utf8_start_high b x : utf8_start b = Some x -> (128 <= b)%nat.
Proof.
  unfold utf8_start.
  repeat match goal with |- context [if ?c then _ else _] => destruct c eqn:? end; intros [= <-];
    repeat match goal with
           | H : (_ && _)%bool = true |- _ => apply andb_true_iff in H as [? ?]
           | H : (_ <=? _)%nat = true |- _ => apply Nat.leb_le in H
           | H : (_ =? _)%nat = true |- _ => apply Nat.eqb_eq in H
           end; lia.
Qed.

(* ---------- identity on well-formed UTF-8 ---------- *)
Lemma san_go_valid s : forall need lo hi buf,
  utf8_valid_go s need lo hi = true ->
  san_go s need lo hi buf = (match need with O => EmptyString | _ => buf end) ++ s.
Proof.
  induction s as [|a r IH]; intros need lo hi buf H.
  - destruct need; [reflexivity|discriminate].
  - cbn [utf8_valid_go san_go] in *. destruct need as [|n].
    + cbn [append]. destruct (nat_of_ascii a <? 128)%nat.
      * now rewrite (IH _ _ _ EmptyString H).
      * destruct (utf8_start (nat_of_ascii a)) as [[[n l] h]|] eqn:E; [|discriminate].
        destruct (utf8_start_pos _ _ _ _ E) as [Hn _]. rewrite (IH _ _ _ _ H).
        destruct n; [contradiction|reflexivity].
    + destruct ((lo <=? nat_of_ascii a) && (nat_of_ascii a <=? hi))%nat; [|discriminate].
      destruct n as [|m].
      * now rewrite (IH _ _ _ EmptyString H).
      * rewrite (IH _ _ _ _ H). now rewrite app_assoc.
Qed.

Theorem sanitize_valid_id s : utf8_valid s = true -> sanitize s = s.
Proof. intros H. unfold sanitize. now rewrite (san_go_valid s _ _ _ _ H). Qed.

(* ---------- the result is well-formed ---------- *)
Lemma valid_fffd X : utf8_valid_go (fffd ++ X) 0 0 0 = utf8_valid_go X 0 0 0.
Proof. reflexivity. Qed.

(* buf is the accepted prefix of a sequence that still needs `need` continuation bytes, the next one in [lo, hi] *)
Definition pending (buf : string) (need lo hi : nat) : Prop :=
  forall X, utf8_valid_go (buf ++ X) 0 0 0 = utf8_valid_go X need lo hi.

Lemma pending_start a n l h : (nat_of_ascii a <? 128)%nat = false -> utf8_start (nat_of_ascii a) = Some (n, l, h) ->
  pending (String a EmptyString) n l h.
Proof. intros Hb E X. cbn [append utf8_valid_go]. now rewrite Hb, E. Qed.

Lemma san_go_wellformed s : forall need lo hi buf,
  (need = 0%nat \/ pending buf need lo hi) -> utf8_valid (san_go s need lo hi buf) = true.
Proof.
  unfold utf8_valid. induction s as [|a r IH]; intros need lo hi buf Hp.
  - destruct need; reflexivity.
  - assert (Fresh : utf8_valid_go
        (if (nat_of_ascii a <? 128)%nat then String a (san_go r 0 0 0 EmptyString)
         else match utf8_start (nat_of_ascii a) with
              | Some (n, l, h) => san_go r n l h (String a EmptyString)
              | None => fffd ++ san_go r 0 0 0 EmptyString
              end) 0 0 0 = true).
    { destruct (nat_of_ascii a <? 128)%nat eqn:Hb.
      - cbn [utf8_valid_go]. rewrite Hb. apply IH. now left.
      - destruct (utf8_start (nat_of_ascii a)) as [[[n l] h]|] eqn:E.
        + apply IH. right. now apply pending_start.
        + rewrite valid_fffd. apply IH. now left. }
    cbn [san_go]. destruct need as [|n]; [exact Fresh|].
    destruct Hp as [Hp|Hp]; [discriminate|].
    destruct ((lo <=? nat_of_ascii a) && (nat_of_ascii a <=? hi))%nat eqn:Hr.
    + destruct n as [|m].
      * rewrite Hp. cbn [utf8_valid_go]. rewrite Hr. apply IH. now left.
      * apply IH. right. intros X. rewrite app_assoc. cbn [append]. rewrite Hp. cbn [utf8_valid_go]. now rewrite Hr.
    + rewrite valid_fffd. exact Fresh.
Qed.

Theorem sanitize_wellformed s : utf8_valid (sanitize s) = true.
Proof. apply san_go_wellformed. now left. Qed.

Theorem sanitize_idempotent s : sanitize (sanitize s) = sanitize s.
Proof. apply sanitize_valid_id, sanitize_wellformed. Qed.

(* the strings the sanitiser leaves alone are exactly the well-formed ones *)
Theorem sanitize_fixpoint_iff s : sanitize s = s <-> utf8_valid s = true.
Proof. split; [intros H; rewrite <- H; apply sanitize_wellformed|apply sanitize_valid_id]. Qed.

(* ---------- ASCII bytes are neither removed nor introduced ---------- *)
Definition is_ascii (c : ascii) : bool := (nat_of_ascii c <? 128)%nat.

Lemma has_char_fffd c : is_ascii c = true -> has_char c fffd = false.
Proof.
  unfold is_ascii, fffd. intros H. cbn [has_char].
  repeat match goal with |- context [Ascii.eqb ?x c] => destruct (Ascii.eqb_spec x c) as [<-|_]; [discriminate H|] end.
  reflexivity.
Qed.

Lemma eqb_ascii_high a c : is_ascii c = true -> (nat_of_ascii a <? 128)%nat = false -> Ascii.eqb a c = false.
Proof. unfold is_ascii. intros Hc Ha. destruct (Ascii.eqb_spec a c) as [->|]; [congruence|reflexivity]. Qed.

(* a pending buffer holds only bytes >= 128 *)
Definition high_only (s : string) : Prop := forall c, is_ascii c = true -> has_char c s = false.

Lemma high_only_snoc buf a : high_only buf -> (nat_of_ascii a <? 128)%nat = false -> high_only (buf ++ String a EmptyString).
Proof.
  intros Hb Ha c Hc. rewrite has_char_app, (Hb c Hc). cbn [has_char orb]. now rewrite (eqb_ascii_high a c Hc Ha).
Qed.

Lemma san_go_ascii c s : is_ascii c = true -> forall need lo hi buf,
  high_only buf -> (need <> 0%nat -> (128 <= lo)%nat) ->
  has_char c (san_go s need lo hi buf) = has_char c s.
Proof.
  intros Hc. induction s as [|a r IH]; intros need lo hi buf Hb Hlo.
  - cbn [san_go]. destruct need; [reflexivity|]. now apply has_char_fffd.
  - assert (E0 : forall b, high_only b -> has_char c (san_go r 0 0 0 b) = has_char c r).
    { intros b Hb'. apply IH; [exact Hb'|intros H; now contradiction H]. }
    assert (Hnil : high_only EmptyString) by (intros x _; reflexivity).
    assert (Fresh : has_char c
        (if (nat_of_ascii a <? 128)%nat then String a (san_go r 0 0 0 EmptyString)
         else match utf8_start (nat_of_ascii a) with
              | Some (n, l, h) => san_go r n l h (String a EmptyString)
              | None => fffd ++ san_go r 0 0 0 EmptyString
              end) = has_char c (String a r)).
    { cbn [has_char]. destruct (nat_of_ascii a <? 128)%nat eqn:Ha.
      - cbn [has_char]. now rewrite (E0 _ Hnil).
      - rewrite (eqb_ascii_high a c Hc Ha). cbn [orb].
        destruct (utf8_start (nat_of_ascii a)) as [[[n l] h]|] eqn:E.
        + apply IH.
          * intros x Hx. cbn [has_char]. now rewrite (eqb_ascii_high a x Hx Ha).
          * intros _. now destruct (utf8_start_pos _ _ _ _ E).
        + rewrite has_char_app, (has_char_fffd c Hc). cbn [orb]. apply (E0 _ Hnil). }
    cbn [san_go]. destruct need as [|n]; [exact Fresh|].
    assert (L : (128 <= lo)%nat) by (apply Hlo; discriminate).
    destruct ((lo <=? nat_of_ascii a) && (nat_of_ascii a <=? hi))%nat eqn:Hr.
    + apply andb_true_iff in Hr as [Hr _]. apply Nat.leb_le in Hr.
      assert (Ha : (nat_of_ascii a <? 128)%nat = false) by (apply Nat.ltb_ge; lia).
      cbn [has_char]. rewrite (eqb_ascii_high a c Hc Ha). cbn [orb]. destruct n as [|m].
      * rewrite has_char_app, (Hb c Hc). cbn [has_char orb]. rewrite (eqb_ascii_high a c Hc Ha). cbn [orb]. apply (E0 _ Hnil).
      * apply IH; [now apply high_only_snoc|intros _; lia].
    + rewrite has_char_app, (has_char_fffd c Hc). cbn [orb]. exact Fresh.
Qed.

Theorem sanitize_ascii c s : is_ascii c = true -> has_char c (sanitize s) = has_char c s.
Proof.
  intros Hc. apply san_go_ascii; [exact Hc|intros x _; reflexivity|intros H; now contradiction H].
Qed.

Corollary sanitize_no_nl s : no_nl (sanitize s) = no_nl s.
Proof. unfold no_nl. now rewrite (sanitize_ascii nl s eq_refl). Qed.

(* ---------- an ASCII byte splits the input: both sides are sanitised on their own ---------- *)
Lemma san_go_split c : is_ascii c = true -> forall a need lo hi buf d,
  (need <> 0%nat -> (128 <= lo)%nat) ->
  san_go (a ++ String c d) need lo hi buf = san_go a need lo hi buf ++ String c (sanitize d).
Proof.
  intros Hc. unfold is_ascii in Hc. induction a as [|x a IH]; intros need lo hi buf d Hlo.
  - cbn [append san_go]. rewrite Hc. destruct need as [|n]; [reflexivity|].
    assert (L : (128 <= lo)%nat) by (apply Hlo; discriminate).
    assert (R : ((lo <=? nat_of_ascii c) && (nat_of_ascii c <=? hi))%nat = false).
    { apply andb_false_iff. left. apply Nat.leb_gt. apply Nat.ltb_lt in Hc. lia. }
    rewrite R. reflexivity.
  - change (String x a ++ String c d) with (String x (a ++ String c d)). cbn [san_go].
    assert (Fresh :
      (if (nat_of_ascii x <? 128)%nat then String x (san_go (a ++ String c d) 0 0 0 EmptyString)
       else match utf8_start (nat_of_ascii x) with
            | Some (n, l, h) => san_go (a ++ String c d) n l h (String x EmptyString)
            | None => fffd ++ san_go (a ++ String c d) 0 0 0 EmptyString
            end) =
      (if (nat_of_ascii x <? 128)%nat then String x (san_go a 0 0 0 EmptyString)
       else match utf8_start (nat_of_ascii x) with
            | Some (n, l, h) => san_go a n l h (String x EmptyString)
            | None => fffd ++ san_go a 0 0 0 EmptyString
            end) ++ String c (sanitize d)).
    { destruct (nat_of_ascii x <? 128)%nat.
      - rewrite IH by (intros H; now contradiction H). reflexivity.
      - destruct (utf8_start (nat_of_ascii x)) as [[[n l] h]|] eqn:E.
        + apply IH. intros _. now destruct (utf8_start_pos _ _ _ _ E).
        + rewrite IH by (intros H; now contradiction H). now rewrite app_assoc. }
    destruct need as [|n]; [exact Fresh|].
    destruct ((lo <=? nat_of_ascii x) && (nat_of_ascii x <=? hi))%nat.
    + destruct n as [|m].
      * rewrite IH by (intros H; now contradiction H). rewrite !app_assoc. reflexivity.
      * apply IH. intros _. lia.
    + rewrite Fresh. now rewrite app_assoc.
Qed.

Theorem sanitize_split c a d : is_ascii c = true -> sanitize (a ++ String c d) = sanitize a ++ String c (sanitize d).
Proof. intros Hc. apply san_go_split; [exact Hc|intros H; now contradiction H]. Qed.

(* ---------- digits ---------- *)
Fixpoint ascii_only (s : string) : bool :=
  match s with EmptyString => true | String a r => is_ascii a && ascii_only r end.

Lemma ascii_only_app a b : ascii_only (a ++ b) = ascii_only a && ascii_only b.
Proof. induction a as [|x a IH]; cbn [append ascii_only]; [reflexivity|]. now rewrite IH, andb_assoc. Qed.

Lemma ascii_only_fffd : ascii_only fffd = false.
Proof. reflexivity. Qed.

Lemma ascii_valid s : ascii_only s = true -> utf8_valid s = true.
Proof.
  unfold utf8_valid. induction s as [|a r IH]; [reflexivity|]. cbn [ascii_only utf8_valid_go]. unfold is_ascii.
  intros H. apply andb_true_iff in H as [H1 H2]. rewrite H1. now apply IH.
Qed.

Lemma san_go_ascii_only s : forall need lo hi buf,
  (need <> 0%nat -> (128 <= lo)%nat) ->
  ascii_only (san_go s need lo hi buf) = true -> need = 0%nat /\ ascii_only s = true.
Proof.
  induction s as [|a r IH]; intros need lo hi buf Hlo H.
  - cbn [san_go] in H. destruct need; [now split|discriminate].
  - cbn [san_go] in H.
    assert (Fresh : ascii_only
        (if (nat_of_ascii a <? 128)%nat then String a (san_go r 0 0 0 EmptyString)
         else match utf8_start (nat_of_ascii a) with
              | Some (n, l, h) => san_go r n l h (String a EmptyString)
              | None => fffd ++ san_go r 0 0 0 EmptyString
              end) = true -> ascii_only (String a r) = true).
    { destruct (nat_of_ascii a <? 128)%nat eqn:Ha.
      - cbn [ascii_only]. unfold is_ascii. rewrite Ha. cbn [andb]. intros H'.
        now destruct (IH 0%nat 0%nat 0%nat EmptyString (fun E => False_ind _ (E eq_refl)) H').
      - destruct (utf8_start (nat_of_ascii a)) as [[[n l] h]|] eqn:E.
        + intros H'. destruct (utf8_start_pos _ _ _ _ E) as [Hn Hl].
          destruct (IH n l h _ (fun _ => Hl) H') as [N _]. contradiction.
        + rewrite ascii_only_app, ascii_only_fffd. discriminate. }
    destruct need as [|n]; [split; [reflexivity|now apply Fresh]|].
    assert (L : (128 <= lo)%nat) by (apply Hlo; discriminate).
    destruct ((lo <=? nat_of_ascii a) && (nat_of_ascii a <=? hi))%nat eqn:Hr.
    + apply andb_true_iff in Hr as [Hr _]. apply Nat.leb_le in Hr.
      assert (Ha : is_ascii a = false) by (unfold is_ascii; apply Nat.ltb_ge; lia).
      destruct n as [|m].
      * rewrite ascii_only_app in H. cbn [ascii_only] in H. rewrite Ha in H. cbn [andb] in H. rewrite andb_false_r in H. discriminate.
      * destruct (IH (S m) 128%nat 191%nat _ (fun _ => Nat.le_refl _) H) as [N _]. discriminate.
    + rewrite ascii_only_app, ascii_only_fffd in H. discriminate.
Qed.

Lemma only_digits_ascii s : only_digits s = true -> ascii_only s = true.
Proof.
  induction s as [|a r IH]; [reflexivity|]. cbn [only_digits ascii_only]. intros H. apply andb_true_iff in H as [H1 H2].
  rewrite (IH H2), andb_true_r. unfold is_digit in H1. unfold is_ascii. apply andb_true_iff in H1 as [_ H1].
  apply Nat.leb_le in H1. apply Nat.ltb_lt. lia.
Qed.

Theorem only_digits_sanitize d : only_digits (sanitize d) = only_digits d.
Proof.
  destruct (only_digits d) eqn:E.
  - now rewrite (sanitize_valid_id d (ascii_valid d (only_digits_ascii d E))).
  - destruct (only_digits (sanitize d)) eqn:E'; [|reflexivity].
    destruct (san_go_ascii_only d 0%nat 0%nat 0%nat EmptyString (fun H => False_ind _ (H eq_refl)) (only_digits_ascii _ E')) as [_ A].
    rewrite (sanitize_valid_id d (ascii_valid d A)) in E'. congruence.
Qed.

Theorem all_digits_sanitize d : all_digits (sanitize d) = all_digits d.
Proof.
  destruct d as [|a r]; [reflexivity|]. unfold all_digits at 2. rewrite <- only_digits_sanitize.
  destruct (sanitize (String a r)) eqn:E; [|reflexivity].
  (* the image of a non-empty string is non-empty *)
  exfalso. assert (V : utf8_valid (String a r) = true).
  { apply ascii_valid. apply (proj2 (san_go_ascii_only (String a r) 0%nat 0%nat 0%nat EmptyString (fun H => False_ind _ (H eq_refl))
                                       ltac:(unfold sanitize in E; rewrite E; reflexivity))). }
  rewrite (sanitize_valid_id _ V) in E. discriminate.
Qed.

(* ---------- the last colon ---------- *)
Lemma rsplit_spec c s :
  match rsplit c s with
  | Some (a, d) => s = a ++ String c d /\ has_char c d = false
  | None => has_char c s = false
  end.
Proof.
  induction s as [|x r IH]; [reflexivity|]. cbn [rsplit has_char].
  destruct (rsplit c r) as [[u w]|].
  - destruct IH as [-> Hw]. split; [reflexivity|exact Hw].
  - destruct (Ascii.eqb_spec x c) as [->|Hne]; [split; [reflexivity|exact IH]|].
    cbn [orb]. exact IH.
Qed.

Theorem rsplit_sanitize p :
  rsplit ":"%char (sanitize p) =
  match rsplit ":"%char p with Some (a, d) => Some (sanitize a, sanitize d) | None => None end.
Proof.
  pose proof (rsplit_spec ":"%char p) as S. destruct (rsplit ":"%char p) as [[a d]|].
  - destruct S as [-> Hd]. rewrite (sanitize_split ":"%char a d eq_refl).
    apply rsplit_app. now rewrite (sanitize_ascii ":"%char d eq_refl).
  - apply rsplit_none. now rewrite (sanitize_ascii ":"%char p eq_refl).
Qed.

Theorem path_tail_ok_sanitize p : path_tail_ok (sanitize p) = path_tail_ok p.
Proof.
  unfold path_tail_ok. rewrite rsplit_sanitize. destruct (rsplit ":"%char p) as [[a d]|]; [|reflexivity].
  now rewrite all_digits_sanitize.
Qed.
