(* Proofs/ContainState.v — analyzers with memory (C11): the functional rule of Model/Contain.v is exact for history-free analyzers,
   isolation follows for them, and a stale memo (the analyzer replays the previous file's result for a file that does not parse)
   breaks isolation on a concrete run. *)
From TL Require Import Lib.Base Lib.GenTypes Model.ContainTypes Gen.ContainGen Model.Contain Model.ContainState.

Lemma collect_history_free : forall S (a : analyzer S), history_free a ->
  forall files s, collect a s files = List.concat (map (contrib_of a) files).
Proof.
  intros S a H files. induction files as [| p ps IH]; intros s; cbn [collect map List.concat]; [reflexivity |].
  rewrite IH. unfold contrib_of. rewrite (H s (a_init a) p). reflexivity.
Qed.

(* for a history-free analyzer the store after the first loop is store_of of the functional rule *)
Theorem history_free_is_functional : forall S (a : analyzer S) (r : rule), history_free a ->
  (forall p, r_contrib r p = contrib_of a p) ->
  forall files, collect a (a_init a) files = store_of r files.
Proof.
  intros S a r H E files. rewrite collect_history_free by exact H. unfold store_of. f_equal.
  apply map_ext. intros p. symmetry. apply E.
Qed.

Lemma concat_filter_nil : forall (f : string -> list evid) (bad : string -> bool) files,
  (forall p, bad p = true -> f p = []) ->
  List.concat (map f (filter (fun p => negb (bad p)) files)) = List.concat (map f files).
Proof.
  intros f bad files H. induction files as [| p ps IH]; [reflexivity |].
  cbn [filter map List.concat]. destruct (bad p) eqn:B; cbn [negb map List.concat].
  - rewrite (H p B). cbn. exact IH.
  - rewrite IH. reflexivity.
Qed.

(* isolation of the store: files that store nothing on their own can be removed from the run without changing the store *)
Theorem history_free_isolation : forall S (a : analyzer S) (bad : string -> bool) files, history_free a ->
  (forall p, bad p = true -> contrib_of a p = []) ->
  collect a (a_init a) (filter (fun p => negb (bad p)) files) = collect a (a_init a) files.
Proof.
  intros S a bad files H Hbad. rewrite !collect_history_free by exact H. apply concat_filter_nil. exact Hbad.
Qed.

Lemma plain_history_free : forall parse, history_free (plain_analyzer parse).
Proof. intros parse s s' p. cbn. destruct (parse p); reflexivity. Qed.

(* the analyzer without memo is isolated from every file that does not parse *)
Theorem plain_isolated : forall parse files,
  collect (plain_analyzer parse) tt (filter (fun p => negb (match parse p with None => true | Some _ => false end)) files)
  = collect (plain_analyzer parse) tt files.
Proof.
  intros parse files. apply (history_free_isolation unit (plain_analyzer parse) (fun p => match parse p with None => true | Some _ => false end)).
  - apply plain_history_free.
  - intros p Hp. unfold contrib_of. cbn. destruct (parse p); [discriminate | reflexivity].
Qed.

(* the memo analyzer is not history free, and a healthy file directly BEFORE a file that does not parse gets its evidence stored twice:
   the store differs from the run without the damaged file although the damaged file stores nothing on its own *)
Definition ex_parse (p : string) : option (list nat) :=
  if String.eqb p "carrier.py" then Some [7; 8] else if String.eqb p "plain.py" then Some [] else None.

Theorem memo_breaks_isolation :
  contrib_of (memo_analyzer ex_parse) "damaged.py" = []
  /\ collect (memo_analyzer ex_parse) [] ["plain.py"; "carrier.py"; "damaged.py"]
     = [("carrier.py", 7); ("carrier.py", 8); ("damaged.py", 7); ("damaged.py", 8)]
  /\ collect (memo_analyzer ex_parse) [] ["plain.py"; "carrier.py"] = [("carrier.py", 7); ("carrier.py", 8)]
  /\ collect (memo_analyzer ex_parse) [] ["plain.py"; "damaged.py"; "carrier.py"] = [("carrier.py", 7); ("carrier.py", 8)]
  /\ ~ history_free (memo_analyzer ex_parse).
Proof.
  repeat split; try reflexivity.
  intros H. specialize (H [] [7] "damaged.py"). cbn in H. discriminate.
Qed.
