(* Proofs/CollectIgnore.v — with the three matching quirks off, matches_pattern decides exactly the
   documented meaning (CollectSpec.spec_match) of every documented pattern form, on every
   project-relative path. *)
From TL Require Import Lib.Base Model.CollectStr Model.Glob Gen.CollectGen Model.Collect Model.CollectSpec
     Proofs.CollectStrFacts Proofs.GlobFacts Proofs.CollectTables Proofs.CollectIgnoreStr.

Definition glob_ideal (q : cquirks) : Prop :=
  q_dirpat_prefix q = false /\ q_dirpat_filename q = false /\ q_doublestar_needs_dir q = false.

(* the non-recursive part of matches_pattern *)
Definition matches_core (q : cquirks) (path pattern : string) : bool :=
  if ends_with pattern "/" then match_dir q path pattern else fnm path pattern || fnm (path_norm path) pattern.

Lemma matches_fuel_step q k path pat :
  matches_fuel q (S k) path pat = (starts_with pat "**/" && matches_fuel q k path (sdrop 3 pat)) || matches_core q path pat.
Proof. cbn [matches_fuel]. now rewrite matches_pattern_gen_spec. Qed.

Lemma matches_nodstar q path pat : starts_with pat "**/" = false -> matches q path pat = matches_core q path pat.
Proof.
  intro H. unfold matches. destruct (q_doublestar_needs_dir q).
  - now rewrite matches_pattern_gen_spec, H.
  - now rewrite matches_fuel_step, H.
Qed.

Lemma length_la s : List.length (la s) = String.length s.
Proof. induction s as [|c s IH]; [reflexivity|]. rewrite la_cons. cbn. now rewrite IH. Qed.

(* one leading "**/" : the pattern itself or the pattern without the prefix *)
Lemma matches_off q path pat : q_doublestar_needs_dir q = false -> starts_with (sdrop 3 pat) "**/" = false ->
  matches q path pat = matches_core q path pat || (starts_with pat "**/" && matches_core q path (sdrop 3 pat)).
Proof.
  intros H Hin. unfold matches. rewrite H, matches_fuel_step, orb_comm. f_equal.
  destruct (starts_with pat "**/") eqn:E; [|reflexivity]. cbn [andb].
  apply starts_with_spec in E. destruct E as [r E].
  assert (L : String.length pat = S (S (S (List.length r)))).
  { rewrite <- length_la, E. reflexivity. }
  rewrite L, matches_fuel_step, Hin. reflexivity.
Qed.

Lemma match_dir_off q path pat : q_dirpat_prefix q = false -> q_dirpat_filename q = false ->
  match_dir q path pat
  = smem (rstrip_chars pat "/") (removelast (path_parts path)) || fnm path (rstrip_chars pat "/" ++ "/*")%string.
Proof. intros H1 H2. unfold match_dir. rewrite H1, H2. cbn [negb andb]. apply matches_directory_pattern_gen_spec. Qed.

Lemma core_file q path pat : ends_with pat "/" = false -> path_norm path = path -> matches_core q path pat = fnm path pat.
Proof. intros H1 H2. unfold matches_core. rewrite H1, H2. now destruct (fnm path pat). Qed.

Lemma core_dir q path pat : q_dirpat_prefix q = false -> q_dirpat_filename q = false -> ends_with pat "/" = true ->
  matches_core q path pat
  = smem (rstrip_chars pat "/") (removelast (path_parts path)) || fnm path (rstrip_chars pat "/" ++ "/*")%string.
Proof. intros H1 H2 H3. unfold matches_core. rewrite H3. now apply match_dir_off. Qed.

Lemma or_absorb (a b : bool) : (a = true -> b = true) -> a || b = b.
Proof. destruct a, b; intro H; try reflexivity. now specialize (H eq_refl). Qed.

Lemma orb_comm_absorb (a b : bool) : (b = true -> a = true) -> a || b = a.
Proof. destruct a, b; intro H; try reflexivity. now specialize (H eq_refl). Qed.

Lemma str_eq_list_spec a b : str_eq_list a b = true <-> a = b.
Proof.
  revert b. induction a as [|x a IH]; intros [|y b]; cbn [str_eq_list]; try (split; [discriminate|congruence]); [tauto|].
  rewrite andb_true_iff, String.eqb_eq, IH. split; [intros [-> ->]; reflexivity|intro E; injection E; auto].
Qed.

Lemma map_la_inj a b : map la a = map la b -> a = b.
Proof. intro E. rewrite <- (map_sa_la a), <- (map_sa_la b). now rewrite E. Qed.

Lemma not_slash_2stars : no_slash [c_star; c_star].
Proof. intros [H|[H|[]]]; discriminate. Qed.

Lemma head_plain x : lit_ok x = true -> exists c l, la x = c :: l /\ special c = false.
Proof.
  intro H. destruct (lit_ok_props _ H) as [Hc Hp]. destruct (comp_ok_props _ Hc) as [Hne _].
  destruct (la x) as [|c l]; [congruence|]. exists c, l. split; [reflexivity|]. now inversion Hp.
Qed.

Lemma ljoin_head_plain d : d <> [] -> forallb lit_ok d = true -> exists c l, ljoin (map la d) = c :: l /\ special c = false.
Proof.
  intros Hne H. destruct d as [|x d]; [congruence|]. cbn [forallb] in H. apply andb_true_iff in H. destruct H as [Hx _].
  destruct (head_plain _ Hx) as [c [l [E Hc]]]. destruct (ljoin_head_char x d c l E) as [l' E']. now exists c, l'.
Qed.

(* the last component of a joined path, as a slash-free non-empty tail *)
Lemma ljoin_tail d : d <> [] -> forallb comp_ok d = true ->
  exists u v, ljoin (map la d) = u ++ v /\ v <> [] /\ no_slash v.
Proof.
  intros Hne H. assert (Hm : map la d <> []) by (destruct d; [congruence|discriminate]).
  destruct (ljoin_last (map la d) [] Hm) as [pre [E _]]. exists pre, (last (map la d) []). split; [exact E|].
  rewrite last_map_la. rewrite forallb_forall in H.
  assert (Hin : In (last d "") d) by (apply last_In; exact Hne).
  destruct (comp_ok_props _ (H _ Hin)) as [H1 [H2 _]]. now split.
Qed.

Section Forms.
  Variable q : cquirks.
  Hypothesis Hq : glob_ideal q.
  Variable comps : list string.
  Hypothesis Hc : comps_ok comps.

  Let path := pjoin comps.
  Let Hnorm : path_norm path = path := path_norm_pjoin comps Hc.
  Let Hparts : path_parts path = comps := path_parts_pjoin comps Hc.
  Let Hok : forallb comp_ok comps = true := proj2 Hc.

  Lemma ends_with_path s : no_slash (la s) -> ends_with path s = ends_with (last comps "") s.
  Proof.
    intro Hs. apply bool_ext. rewrite <- (suffix_of_path comps s Hc Hs). apply ends_with_spec.
  Qed.

  Lemma no_comp_with_slash x : In slash (la x) -> smem x (removelast comps) = false.
  Proof.
    intro Hx. destruct (smem x (removelast comps)) eqn:E; [|reflexivity]. exfalso.
    apply smem_In in E. assert (Hin : In x comps).
    { rewrite (app_removelast_last "" (proj1 Hc)). apply in_or_app. now left. }
    rewrite forallb_forall in Hok. destruct (comp_ok_props _ (Hok _ Hin)) as [_ [Hs _]]. now apply Hs.
  Qed.

  (* --- "*" ++ s *)
  Lemma form_suffix s : nonempty s = true -> has_char slash s = false -> no_special s = true ->
    matches q path ("*" ++ s) = ends_with (last comps "") s.
  Proof.
    intros Hne Hsl Hsp.
    assert (Hs : no_slash (la s)) by (intro H; apply has_char_In in H; congruence).
    assert (Pl := no_special_plain _ Hsp).
    assert (E : la ("*" ++ s) = c_star :: la s) by reflexivity.
    assert (Hne' : la s <> []) by (destruct s; discriminate).
    assert (Hnd : starts_with ("*" ++ s) "**/" = false).
    { destruct (la s) as [|c r] eqn:L; [congruence|]. apply (not_dstar_star_plain _ c r); [rewrite E; try rewrite L; reflexivity|now inversion Pl]. }
    rewrite matches_nodstar by exact Hnd.
    rewrite core_file; [|apply (ends_with_slash_no _ [c_star] (la s)); [reflexivity|exact Hne'|exact Hs]|exact Hnorm].
    rewrite fnm_star_lit by exact Pl. now apply ends_with_path.
  Qed.

  (* --- "**/*" ++ s *)
  Lemma form_any_suffix s : nonempty s = true -> has_char slash s = false -> no_special s = true ->
    matches q path ("**/*" ++ s) = ends_with (last comps "") s.
  Proof.
    intros Hne Hsl Hsp. destruct Hq as [_ [_ Hd]].
    assert (Hs : no_slash (la s)) by (intro H; apply has_char_In in H; congruence).
    assert (Pl := no_special_plain _ Hsp).
    assert (E : la ("**/*" ++ s) = c_star :: c_star :: slash :: c_star :: la s) by reflexivity.
    assert (Es : sa (c_star :: la s) = ("*" ++ s)%string) by (cbn; now rewrite sa_la).
    assert (Hne' : la s <> []) by (destruct s; discriminate).
    assert (Hin : starts_with ("*" ++ s) "**/" = false).
    { destruct (la s) as [|c r] eqn:L; [congruence|]. apply (not_dstar_star_plain _ c r); [change (la ("*" ++ s)) with (c_star :: la s); now rewrite L|now inversion Pl]. }
    rewrite matches_off; [|exact Hd|destruct (dstar_yes _ _ E) as [_ ->]; now rewrite Es].
    destruct (dstar_yes _ _ E) as [-> ->].
    rewrite Es. cbn [andb].
    assert (H2 : matches_core q path ("*" ++ s) = ends_with (last comps "") s).
    { rewrite core_file; [|apply (ends_with_slash_no _ [c_star] (la s)); [reflexivity|exact Hne'|exact Hs]|exact Hnorm].
      rewrite fnm_star_lit by exact Pl. now apply ends_with_path. }
    rewrite H2. apply or_absorb.
    rewrite core_file; [|apply (ends_with_slash_no _ [c_star; c_star; slash; c_star] (la s)); [reflexivity|exact Hne'|exact Hs]|exact Hnorm].
    intro M. destruct (fnm_dstar_slash_la _ _ _ E M) as [a [b [En Mb]]].
    rewrite parse_star, parse_plain_all in Mb by exact Pl. apply gmatch_star in Mb. destruct Mb as [a' [b' [-> Mb]]].
    rewrite <- (app_nil_r (map TLit (la s))) in Mb. apply gmatch_lits in Mb. destruct Mb as [b'' [-> Mb]].
    apply gmatch_nil in Mb. subst b''. rewrite app_nil_r in En.
    apply (suffix_of_path comps s Hc Hs). exists (a ++ slash :: a'). unfold path in En. rewrite En, <- app_assoc. reflexivity.
  Qed.

  (* --- prefix directories: d ++ "/**" and d ++ "/" *)
  Lemma prefix_match d pat : d <> [] -> forallb lit_ok d = true ->
    (la pat = (ljoin (map la d) ++ [slash]) ++ [c_star] \/ la pat = (ljoin (map la d) ++ [slash]) ++ [c_star; c_star]) ->
    fnm path pat = proper_prefix d comps.
  Proof.
    intros Hne Hd E. rewrite (fnm_prefix _ _ (ljoin (map la d) ++ [slash])); [|apply plain_app; [now apply plain_ljoin|now constructor]|exact E].
    apply bool_ext. rewrite lprefix_spec. unfold path. rewrite la_pjoin.
    rewrite <- (prefix_of_path d comps Hne (lit_comps_ok _ Hd) Hok). split; intros [b Eb]; exists b; rewrite Eb, <- app_assoc; reflexivity.
  Qed.

  Lemma form_under d : d <> [] -> forallb lit_ok d = true -> matches q path (pjoin d ++ "/**") = proper_prefix d comps.
  Proof.
    intros Hne Hd.
    assert (E : la (pjoin d ++ "/**") = (ljoin (map la d) ++ [slash]) ++ [c_star; c_star]).
    { rewrite la_app, la_pjoin, <- app_assoc. reflexivity. }
    destruct (ljoin_head_plain d Hne Hd) as [c [l [Eh Hcp]]].
    assert (Hnd : starts_with (pjoin d ++ "/**") "**/" = false).
    { apply (not_dstar_plain_head _ c (l ++ [slash; c_star; c_star])); [|exact Hcp]. rewrite E, Eh. cbn. now rewrite <- !app_assoc. }
    rewrite matches_nodstar by exact Hnd.
    rewrite core_file; [|apply (ends_with_slash_no _ (ljoin (map la d) ++ [slash]) [c_star; c_star]); [exact E|discriminate|exact not_slash_2stars]|exact Hnorm].
    apply (prefix_match d); [exact Hne|exact Hd|now right].
  Qed.

  Lemma rstrip_of pat u v : la pat = (u ++ v) ++ [slash] -> v <> [] -> no_slash v -> rstrip_chars pat "/" = sa (u ++ v).
  Proof.
    intros E Hv Hs. rewrite <- (sa_la pat), E, <- app_assoc. now apply rstrip_slash.
  Qed.

  Lemma form_dirpath d : 2 <= List.length d -> forallb lit_ok d = true -> matches q path (pjoin d ++ "/") = proper_prefix d comps.
  Proof.
    intros Hlen Hd. assert (Hne : d <> []) by (destruct d; [cbn in Hlen; lia|discriminate]).
    destruct Hq as [Hq1 [Hq2 Hdd]].
    assert (E : la (pjoin d ++ "/") = ljoin (map la d) ++ [slash]) by (now rewrite la_app, la_pjoin).
    destruct (ljoin_head_plain d Hne Hd) as [c [l [Eh Hcp]]].
    assert (Hnd : starts_with (pjoin d ++ "/") "**/" = false).
    { apply (not_dstar_plain_head _ c (l ++ [slash])); [|exact Hcp]. now rewrite E, Eh. }
    rewrite matches_nodstar by exact Hnd.
    rewrite core_dir; [|exact Hq1|exact Hq2|exact (ends_with_slash_yes _ _ E)].
    destruct (ljoin_tail d Hne (lit_comps_ok _ Hd)) as [u [v [Euv [Hv Hvs]]]].
    rewrite (rstrip_of _ u v); [|now rewrite E, Euv|exact Hv|exact Hvs].
    rewrite <- Euv. change (sa (ljoin (map la d))) with (pjoin d). rewrite Hparts.
    rewrite no_comp_with_slash.
    - cbn [orb]. apply (prefix_match d); [exact Hne|exact Hd|]. left. rewrite la_app, la_pjoin, <- app_assoc. reflexivity.
    - rewrite la_pjoin. destruct d as [|x [|y d]]; [cbn in Hlen; lia|cbn in Hlen; lia|].
      change (map la (x :: y :: d)) with (la x :: map la (y :: d)). rewrite ljoin_cons by discriminate.
      apply in_or_app. right. now left.
  Qed.

  (* --- n ++ "/" *)
  Lemma core_dirname n : lit_ok n = true -> matches_core q path (n ++ "/") = smem n (removelast comps).
  Proof.
    intro Hn. destruct Hq as [Hq1 [Hq2 _]]. destruct (lit_ok_props _ Hn) as [Hnc Pn].
    destruct (comp_ok_props _ Hnc) as [Hne [Hns _]].
    assert (E : la (n ++ "/") = la n ++ [slash]) by (now rewrite la_app).
    rewrite core_dir; [|exact Hq1|exact Hq2|exact (ends_with_slash_yes _ _ E)].
    rewrite (rstrip_of _ [] (la n)); [|now rewrite E|exact Hne|exact Hns].
    cbn [app]. rewrite sa_la, Hparts. apply orb_comm_absorb.
    rewrite (prefix_match [n]); [|discriminate|cbn; now rewrite Hn|left; rewrite la_app; cbn [map ljoin]; now rewrite <- app_assoc].
    destruct comps as [|x p]; [discriminate|]. cbn [proper_prefix]. rewrite andb_true_iff, String.eqb_eq. intros [-> Hp].
    apply smem_In. destruct p; [discriminate|]. now left.
  Qed.

  Lemma form_dir n : lit_ok n = true -> matches q path (n ++ "/") = smem n (removelast comps).
  Proof.
    intro Hn.
    destruct (head_plain _ Hn) as [c [l [Eh Hcp]]].
    assert (Hnd : starts_with (n ++ "/") "**/" = false).
    { apply (not_dstar_plain_head _ c (l ++ [slash])); [|exact Hcp]. now rewrite la_app, Eh. }
    rewrite matches_nodstar by exact Hnd. now apply core_dirname.
  Qed.

  (* --- "**/" ++ n ++ "/" *)
  Lemma form_any_dir n : lit_ok n = true -> matches q path ("**/" ++ n ++ "/") = smem n (removelast comps).
  Proof.
    intro Hn. destruct Hq as [Hq1 [Hq2 Hdd]].
    destruct (lit_ok_props _ Hn) as [Hnc Pn]. destruct (comp_ok_props _ Hnc) as [Hne [Hns _]].
    assert (E : la ("**/" ++ n ++ "/") = c_star :: c_star :: slash :: (la n ++ [slash])).
    { change ("**/" ++ n ++ "/")%string with (String c_star (String c_star (String slash (n ++ "/")))). rewrite !la_cons, la_app. reflexivity. }
    assert (Es : sa (la n ++ [slash]) = (n ++ "/")%string) by (apply la_inj; now rewrite la_sa, la_app).
    assert (Hin : starts_with (n ++ "/") "**/" = false).
    { destruct (head_plain _ Hn) as [c [l [Eh Hcp]]]. apply (not_dstar_plain_head _ c (l ++ [slash])); [|exact Hcp]. now rewrite la_app, Eh. }
    rewrite matches_off; [|exact Hdd|destruct (dstar_yes _ _ E) as [_ ->]; now rewrite Es].
    destruct (dstar_yes _ _ E) as [-> ->]. cbn [andb].
    rewrite Es, core_dirname by exact Hn. apply or_absorb.
    assert (E' : la ("**/" ++ n ++ "/") = ([c_star; c_star; slash] ++ la n) ++ [slash]) by (rewrite E; reflexivity).
    rewrite core_dir; [|exact Hq1|exact Hq2|exact (ends_with_slash_yes _ _ E')].
    rewrite (rstrip_of _ [c_star; c_star; slash] (la n)); [|exact E'|exact Hne|exact Hns].
    rewrite Hparts, no_comp_with_slash by (rewrite la_sa; right; right; now left).
    cbn [orb]. intro M.
    assert (Ep : la (sa ([c_star; c_star; slash] ++ la n) ++ "/*") = c_star :: c_star :: slash :: ((la n ++ [slash]) ++ [c_star])).
    { rewrite la_app, la_sa. cbn. now rewrite <- app_assoc. }
    destruct (fnm_dstar_slash_la _ _ _ Ep M) as [a [b [En Mb]]].
    rewrite parse_plain in Mb by (apply plain_app; [exact Pn|now constructor]).
    apply gmatch_lits in Mb. destruct Mb as [b' [-> _]].
    apply smem_In. apply (mid_component n comps a b' Hok Hns). unfold path in En. rewrite la_pjoin in En.
    rewrite En, <- app_assoc. reflexivity.
  Qed.

  (* --- a literal path *)
  Lemma form_exact f : f <> [] -> forallb lit_ok f = true -> matches q path (pjoin f) = str_eq_list f comps.
  Proof.
    intros Hne Hf.
    destruct (ljoin_head_plain f Hne Hf) as [c [l [Eh Hcp]]].
    assert (Hnd : starts_with (pjoin f) "**/" = false).
    { apply (not_dstar_plain_head _ c l); [|exact Hcp]. now rewrite la_pjoin. }
    rewrite matches_nodstar by exact Hnd.
    destruct (ljoin_tail f Hne (lit_comps_ok _ Hf)) as [u [v [Euv [Hv Hvs]]]].
    rewrite core_file; [|apply (ends_with_slash_no _ u v); [now rewrite la_pjoin|exact Hv|exact Hvs]|exact Hnorm].
    apply bool_ext. rewrite fnm_literal_la by (rewrite la_pjoin; now apply plain_ljoin).
    unfold path. rewrite !la_pjoin, str_eq_list_spec. split.
    - intro E. symmetry. apply map_la_inj.
      apply ljoin_inj; [pose proof (proj1 Hc) as H; destruct comps; [congruence|discriminate]|destruct f; [congruence|discriminate]
                       |now apply comps_ok_plain|apply comps_ok_plain; now apply lit_comps_ok|exact E].
    - now intros ->.
  Qed.

  (* --- any other glob *)
  Lemma form_raw s : ends_with s "/" = false -> starts_with s "**/" = false -> matches q path s = fnm path s.
  Proof.
    intros H1 H2. rewrite matches_nodstar by exact H2. now apply core_file.
  Qed.
End Forms.

(* the forms whose matching does not involve the directory-pattern branch or a leading "**/" *)
Definition simple_form (p : pat) : bool :=
  match p with PSuffix _ | PUnder _ | PExact _ | PRaw _ => true | _ => false end.

(* for those forms matches_pattern is the documented meaning whatever the quirk vector *)
Theorem matches_spec_simple q p comps :
  simple_form p = true -> pat_ok p = true -> comps_ok comps -> matches q (pjoin comps) (render p) = spec_match p comps.
Proof.
  intros Hs Hp Hc. unfold pat_ok in Hp. apply andb_true_iff in Hp. destruct Hp as [_ Hp].
  destruct p as [s|d|s|n|n|d|f|s]; try discriminate Hs; cbn [render spec_match].
  - rewrite !andb_true_iff, !negb_true_iff in Hp. destruct Hp as [[H1 H2] H3]. now apply form_suffix.
  - rewrite andb_true_iff, negb_true_iff in Hp. destruct Hp as [H1 H2]. apply form_under; [exact Hc| |exact H2]. destruct d; [discriminate|discriminate].
  - rewrite andb_true_iff, negb_true_iff in Hp. destruct Hp as [H1 H2]. apply form_exact; [exact Hc| |exact H2]. destruct f; [discriminate|discriminate].
  - rewrite andb_true_iff, !negb_true_iff in Hp. destruct Hp as [H1 H2]. now apply form_raw.
Qed.

(* with the three matching quirks off, matches_pattern is the documented meaning of every documented form *)
Theorem matches_spec q p comps :
  glob_ideal q -> pat_ok p = true -> comps_ok comps -> matches q (pjoin comps) (render p) = spec_match p comps.
Proof.
  intros Hq Hp Hc. unfold pat_ok in Hp. apply andb_true_iff in Hp. destruct Hp as [_ Hp].
  destruct p as [s|d|s|n|n|d|f|s]; cbn [render spec_match].
  - rewrite !andb_true_iff, !negb_true_iff in Hp. destruct Hp as [[H1 H2] H3]. now apply form_suffix.
  - rewrite andb_true_iff, negb_true_iff in Hp. destruct Hp as [H1 H2]. apply form_under; [exact Hc| |exact H2]. destruct d; [discriminate|discriminate].
  - rewrite !andb_true_iff, !negb_true_iff in Hp. destruct Hp as [[H1 H2] H3]. now apply form_any_suffix.
  - now apply form_dir.
  - now apply form_any_dir.
  - rewrite andb_true_iff in Hp. destruct Hp as [H1 H2]. apply form_dirpath; [exact Hq|exact Hc| |exact H2]. now apply Nat.leb_le.
  - rewrite andb_true_iff, negb_true_iff in Hp. destruct Hp as [H1 H2]. apply form_exact; [exact Hc| |exact H2]. destruct f; [discriminate|discriminate].
  - rewrite andb_true_iff, !negb_true_iff in Hp. destruct Hp as [H1 H2]. now apply form_raw.
Qed.

(* what the code did with a directory pattern "n/" before 9c8f928 (both directory-pattern flags on):
   n is any component of the path -- the file's own name included -- or the path merely starts with n *)
Theorem dirpattern_former q path n :
  q_dirpat_prefix q = true -> q_dirpat_filename q = true -> lit_ok n = true ->
  match_dir q path (n ++ "/") = smem n (path_parts path) || starts_with path n.
Proof.
  intros H1 H2 Hn. unfold match_dir. rewrite H1, H2. cbn [negb andb].
  destruct (lit_ok_props _ Hn) as [Hnc Pn]. destruct (comp_ok_props _ Hnc) as [Hne [Hns _]].
  assert (E : rstrip_chars (n ++ "/") "/" = n).
  { rewrite <- (sa_la (n ++ "/")), la_app. change (la "/") with [slash]. rewrite <- (sa_la n) at 2.
    apply (rstrip_slash [] (la n) Hne Hns). }
  rewrite E. f_equal. now apply fnm_lit_stars; [|left].
Qed.
