(* Proofs/MethodPropRename.v — renaming for the method-property detector (Model/MethodProp.v), every quirk vector:
   a renaming that keeps `self` apart and keeps the dunder / action-verb status of every name (the documented exclusions)
   commutes with detection; class and method name in a report are renamed. *)
From TL Require Import Lib.Base Lib.GenTypes Gen.EmbedGen Model.Embed Model.PrintStmt Model.PerfConcat Model.StatelessCls
     Model.MethodProp Proofs.EmbedLocality Proofs.PrintStmtLocal Proofs.PerfConcatLocal Proofs.PerfConcatRename Proofs.StatelessClsLocal.

Definition mp_sigma_ok (sg : string -> string) : Prop :=
  keeps sg mp_self_name /\ (forall x, is_dunder (sg x) = is_dunder x) /\ (forall x, is_action_verb (sg x) = is_action_verb x).

Definition renameRR (sg : string -> string) (r : rep) : rep := match r with (l, c, p, x) => (l, c, sg p, sg x) end.

Lemma nonempty_map {A B} (f : A -> B) l : nonempty (map f l) = nonempty l.
Proof. destruct l; reflexivity. Qed.

Lemma nsval_rename_is sg c t : is_cls c t = true -> String.eqb c "Constant" = false -> nsval (rename sg t) = sg (nsval t).
Proof. intros H Hc. apply nsval_rename_nc. unfold is_cls in H. apply String.eqb_eq in H. now rewrite H. Qed.

Lemma takes_only_self_rename sg m : takes_only_self (rename sg m) = takes_only_self m.
Proof.
  unfold takes_only_self. rewrite field_rename.
  destruct (field "args" m) as [|a [|b r]]; cbn [map]; try reflexivity.
  now rewrite !field_rename, map_length, !nonempty_map.
Qed.

Lemma nd_body_rename sg m : nd_body (rename sg m) = map (rename sg) (nd_body m).
Proof.
  unfold nd_body. rewrite field_rename.
  destruct (field "body" m) as [|first rest]; cbn [map]; [reflexivity|].
  rewrite is_cls_rename, field_rename.
  assert (E : match map (rename sg) (field "value" first) with
              | [v] => is_cls mp_const_cls v && String.eqb (nckind v) "str" | _ => false end
              = match field "value" first with [v] => is_cls mp_const_cls v && String.eqb (nckind v) "str" | _ => false end).
  { destruct (field "value" first) as [|v [|w r]]; cbn [map]; try reflexivity. now rewrite is_cls_rename, nckind_rename. }
  rewrite E.
  destruct (is_cls mp_expr_cls first && match field "value" first with [v] => is_cls mp_const_cls v && String.eqb (nckind v) "str" | _ => false end);
    reflexivity.
Qed.

Lemma is_value_return_rename sg n : is_value_return (rename sg n) = is_value_return n.
Proof.
  unfold is_value_return. rewrite is_cls_rename, field_rename.
  destruct (field "value" n) as [|v [|w r]]; cbn [map]; try reflexivity. now rewrite is_cls_rename, nckind_rename.
Qed.

Lemma returns_value_rename sg m : returns_value (rename sg m) = returns_value m.
Proof.
  unfold returns_value. rewrite nd_body_rename, <- map_rev.
  destruct (rev (nd_body m)) as [|l r]; cbn [map]; [reflexivity|]. apply is_value_return_rename.
Qed.

Lemma has_simple_body_rename sg m : has_simple_body (rename sg m) = has_simple_body m.
Proof. unfold has_simple_body. now rewrite nd_body_rename, map_length. Qed.

Section Sg.
  Variable sg : string -> string.
  Hypothesis Hs : mp_sigma_ok sg.

  Lemma is_self_target_rename t : is_self_target (rename sg t) = is_self_target t.
  Proof.
    unfold is_self_target. rewrite is_cls_rename, field_rename.
    destruct (field "value" t) as [|v [|w r]]; cbn [map]; try reflexivity.
    destruct Hs as (H1 & _). now rewrite (named_rename_ident sg mp_self_name_cls mp_self_name v eq_refl H1).
  Qed.

  Lemma existsb_self_map l : existsb is_self_target (map (rename sg) l) = existsb is_self_target l.
  Proof. induction l as [|x xs IH]; cbn [map existsb]; [reflexivity|]. now rewrite is_self_target_rename, IH. Qed.

  Lemma is_side_effect_rename n : is_side_effect (rename sg n) = is_side_effect n.
  Proof.
    unfold is_side_effect. rewrite !is_cls_rename, !field_rename, !existsb_self_map, nonempty_map.
    assert (E : match map (rename sg) (field "target" n) with [t] => is_self_target t | _ => false end
                = match field "target" n with [t] => is_self_target t | _ => false end).
    { destruct (field "target" n) as [|t [|u r]]; cbn [map]; try reflexivity. apply is_self_target_rename. }
    now rewrite E.
  Qed.

  Lemma is_control_flow_rename n : is_control_flow (rename sg n) = is_control_flow n.
  Proof. unfold is_control_flow. now rewrite ncls_rename. Qed.

  Lemma is_external_call_rename n : is_external_call (rename sg n) = is_external_call n.
  Proof.
    unfold is_external_call. rewrite is_cls_rename, field_rename.
    destruct (field "func" n) as [|f [|g r]]; cbn [map]; try reflexivity. now rewrite is_cls_rename.
  Qed.

  Lemma is_candidate_rename m : is_cls mp_method_cls m = true -> is_candidate (rename sg m) = is_candidate m.
  Proof.
    intro Hm. unfold is_candidate. destruct Hs as (_ & H2 & H3).
    rewrite (nsval_rename_is sg mp_method_cls m Hm eq_refl), H2, H3.
    rewrite field_rename, nonempty_map, takes_only_self_rename, has_simple_body_rename, returns_value_rename.
    rewrite (walk_any_rename sg is_side_effect m is_side_effect_rename).
    rewrite (walk_any_rename sg is_control_flow m is_control_flow_rename).
    now rewrite (walk_any_rename sg is_external_call m is_external_call_rename).
  Qed.

  Definition mp_renS (s : msum) : msum := (fst s, match fst s with 1 => sg (snd s) | _ => snd s end).

  Lemma mp_step_rename q s t : mp_step q (mp_renS s) (rename sg t) = mp_renS (mp_step q s t).
  Proof.
    unfold mp_step, mp_renS. cbn [fst]. rewrite is_cls_rename, nrole_rename.
    destruct (is_cls mp_class_cls t) eqn:E.
    - rewrite (nsval_rename_is sg mp_class_cls t E eq_refl).
      destruct (q_mp_class_body_only q); [|reflexivity].
      destruct (fst s) as [|[|n]]; cbn [andb fst snd]; try reflexivity.
      destruct (String.eqb (nrole t) "body"); reflexivity.
    - destruct (q_mp_class_body_only q); [|reflexivity].
      destruct (fst s) as [|[|n]]; reflexivity.
  Qed.

  Lemma mp_emit_rename s t : mp_emit (mp_renS s) (rename sg t) = map (renameRR sg) (mp_emit s t).
  Proof.
    unfold mp_emit, mp_renS. cbn [fst]. destruct (fst s) as [|[|n]]; try reflexivity. cbn [snd].
    rewrite is_cls_rename, nrole_rename, erase_rename.
    destruct (is_cls mp_method_cls t) eqn:E; [|reflexivity].
    assert (E' : is_cls mp_method_cls (erase t) = true) by now rewrite is_cls_erase.
    rewrite (is_candidate_rename (erase t) E'), (nsval_rename_is sg mp_method_cls t E eq_refl).
    destruct (true && String.eqb (nrole t) "body" && is_candidate (erase t)); destruct t as [i ks]; reflexivity.
  Qed.

  Theorem method_rename q file : method_reports q (renameF sg file) = map (renameRR sg) (method_reports q file).
  Proof.
    unfold method_reports.
    exact (renameF_commutes (mp_step q) mp_emit sg mp_renS (renameRR sg) (mp_step_rename q) mp_emit_rename file (0, "")).
  Qed.
End Sg.

(* the finite renamings the harness uses (Model/EmbedRun2.v: the method-property component of `domains`) *)
From TL Require Import Model.EmbedRun Model.EmbedRun2.

Lemma kept_sigma_mp (P : string -> bool) sg :
  forallb (fun p => Bool.eqb (P (fst p)) (P (snd p))) sg = true -> forall x, P (sigma_of sg x) = P x.
Proof.
  induction sg as [|[a b] r IH]; cbn [forallb sigma_of fst snd]; intros H x; [reflexivity|].
  apply andb_true_iff in H. destruct H as [H Hr]. apply Bool.eqb_prop in H.
  destruct (String.eqb_spec x a) as [->|N]; [now symmetry|now apply IH].
Qed.

Theorem method_rename_finite q sg file :
  avoids [mp_self_name] sg = true -> mp_names_kept sg = true ->
  method_reports q (renameF (sigma_of sg) file) = map (renameRR (sigma_of sg)) (method_reports q file).
Proof.
  intros Ha Hk. apply method_rename. unfold mp_names_kept in Hk. rewrite forallb_forall in Hk. repeat split.
  - eapply avoids_keeps; [|exact Ha]. reflexivity.
  - apply (kept_sigma_mp is_dunder). apply forallb_forall. intros p Hp. specialize (Hk p Hp).
    apply andb_true_iff in Hk. tauto.
  - apply (kept_sigma_mp is_action_verb). apply forallb_forall. intros p Hp. specialize (Hk p Hp).
    apply andb_true_iff in Hk. tauto.
Qed.
