(* Proofs/MagicMain.v — C02, language-independent statements: exactness for every language, the
   characterisation of what is reported (iff / exactly once), the delta law of allowed_numbers
   (for every quirk vector, the faithful one included), non-literals, monotonicity in max_small_integer. *)
From Coq Require Import ZArith.
From TL Require Import Lib.Base Lib.GenTypes Gen.MagicGen Model.MagicNum Model.Magic Model.MagicSpec
     Proofs.MagicChars Proofs.MagicExtract Proofs.MagicFacts Proofs.MagicTs Proofs.MagicRs Proofs.MagicPy.

(* ------------------------------------------------------------------ exactness *)
Definition flags_off (lg : mlang) (q : mquirks) : Prop :=
  match lg with
  | MPy => q_py_upper_neg_flagged q = false /\ q_py_upper_ann_flagged q = false /\ q_py_upper_tuple_flagged q = false
  | MTs => q_ts_test_marker_anywhere q = false /\ q_ts_single_letter_const q = false
  | MRs => True
  end.

Theorem report_exact lg q cfg f :
  flags_off lg q -> file_good lg f = true -> report lg q cfg f = spec_report lg cfg f.
Proof.
  destruct lg; cbn [flags_off report].
  - intros [H2 [H3 H4]]. apply py_report_exact; assumption.
  - intros [H3 H4]. apply ts_report_exact; assumption.
  - intros _. apply rs_report_exact.
Qed.

(* the input classes outside which a flag that is on cannot matter *)
Definition file_plain (lg : mlang) (q : mquirks) (f : file) : bool :=
  match lg with MPy => py_file_plain q f | MTs => ts_file_plain q f | MRs => true end.

Theorem report_guarded lg q cfg f :
  file_good lg f = true -> file_plain lg q f = true -> report lg q cfg f = spec_report lg cfg f.
Proof.
  destruct lg; cbn [file_plain report]; intros Hg Hp;
    [apply py_report_guarded | apply ts_report_guarded | apply rs_report_exact]; assumption.
Qed.

(* ------------------------------------------------------------------ what the specification demands *)
Definition flaggable (lg : mlang) (cfg : mconfig) (f : file) (sc : scope) (s : site) (l : lit) : option num :=
  match lit_value l with
  | None => None
  | Some v => if nmem v (spec_allowed cfg) || (spec_file_exempt lg f || spec_site_exempt lg cfg sc s l) then None else Some v
  end.

Lemma spec_lit_flaggable lg cfg f sc s l :
  spec_lit lg cfg (spec_file_exempt lg f) sc s l
  = match flaggable lg cfg f sc s l with Some v => [(s_line s, RNum v)] | None => [] end.
Proof.
  unfold spec_lit, flaggable. destruct (lit_value l) as [v|]; [|reflexivity].
  destruct (nmem v (spec_allowed cfg)); [reflexivity|]. cbn [orb].
  destruct (spec_file_exempt lg f || spec_site_exempt lg cfg sc s l); reflexivity.
Qed.

(* reported iff: a numeric literal whose value is not allowed and which is in no exempt position;
   the report is on the literal's line and names its value *)
Theorem spec_reported_iff lg cfg f r :
  In r (spec_report lg cfg f) <->
  exists sc s l v, In sc (f_scopes f) /\ In s (sc_sites sc) /\ In l (s_lits s)
                   /\ flaggable lg cfg f sc s l = Some v /\ r = (s_line s, RNum v).
Proof.
  unfold spec_report. split.
  - intros H. apply in_flat_map in H. destruct H as [sc [Hsc H]]. apply in_flat_map in H. destruct H as [s [Hs H]].
    apply in_flat_map in H. destruct H as [l [Hl H]]. rewrite spec_lit_flaggable in H.
    destruct (flaggable lg cfg f sc s l) as [v|] eqn:E; [|destruct H]. destruct H as [<-|[]].
    exists sc, s, l, v. auto.
  - intros [sc [s [l [v [Hsc [Hs [Hl [E ->]]]]]]]].
    apply in_flat_map. exists sc. split; [exact Hsc|]. apply in_flat_map. exists s. split; [exact Hs|].
    apply in_flat_map. exists l. split; [exact Hl|]. rewrite spec_lit_flaggable, E. left. reflexivity.
Qed.

Definition count_flaggable (lg : mlang) (cfg : mconfig) (f : file) : nat :=
  sum_nat (map (fun sc => sum_nat (map (fun s => sum_nat (map (fun l => match flaggable lg cfg f sc s l with Some _ => 1 | None => 0 end)
                                                               (s_lits s))) (sc_sites sc))) (f_scopes f)).

Lemma length_flat_map {A B} (g : A -> list B) l : List.length (flat_map g l) = sum_nat (map (fun x => List.length (g x)) l).
Proof.
  induction l as [|x xs IH]; [reflexivity|]. cbn [flat_map map]. rewrite app_length, IH. reflexivity.
Qed.

(* exactly once: as many reports as flaggable literal occurrences *)
Theorem spec_exactly_once lg cfg f : List.length (spec_report lg cfg f) = count_flaggable lg cfg f.
Proof.
  unfold spec_report, count_flaggable. rewrite length_flat_map. f_equal. apply map_ext. intros sc.
  rewrite length_flat_map. f_equal. apply map_ext. intros s.
  rewrite length_flat_map. f_equal. apply map_ext. intros l.
  rewrite spec_lit_flaggable. destruct (flaggable lg cfg f sc s l); reflexivity.
Qed.

(* nothing that is not a numeric literal is ever reported *)
Theorem spec_nonliteral_never lg cfg f sc s l :
  lit_is_numeric l = false -> spec_lit lg cfg (spec_file_exempt lg f) sc s l = [].
Proof. intros H. unfold spec_lit. rewrite (lit_value_numeric l H). reflexivity. Qed.

Theorem report_only_numeric lg q cfg f r :
  flags_off lg q -> file_good lg f = true -> In r (report lg q cfg f) ->
  exists sc s l v, In sc (f_scopes f) /\ In s (sc_sites sc) /\ In l (s_lits s) /\ lit_is_numeric l = true
                   /\ lit_value l = Some v /\ r = (s_line s, RNum v).
Proof.
  intros Hq Hg Hr. rewrite (report_exact lg q cfg f Hq Hg) in Hr. apply spec_reported_iff in Hr.
  destruct Hr as [sc [s [l [v [Hsc [Hs [Hl [E ->]]]]]]]]. exists sc, s, l, v. repeat split; try assumption.
  - destruct (lit_is_numeric l) eqn:N; [reflexivity|]. unfold flaggable in E. rewrite (lit_value_numeric l N) in E. discriminate.
  - unfold flaggable in E. destruct (lit_value l) as [v'|]; [|discriminate]. destruct (_ || _); [discriminate|]. exact E.
Qed.

(* ------------------------------------------------------------------ the delta law of allowed_numbers *)
(* a report names the value a *)
Definition rval_names (r : rval) (a : num) : bool :=
  match r with RNum v => num_eqb v a | RBool b => num_eqb ((if b then 1 else 0)%Z, 0%Z) a end.
Definition keep (a : num) (r : mrep) : bool := negb (rval_names (snd r) a).

Lemma filter_flat_map {A B} (p : B -> bool) (g : A -> list B) l : filter p (flat_map g l) = flat_map (fun x => filter p (g x)) l.
Proof. induction l as [|x xs IH]; [reflexivity|]. cbn [flat_map]. rewrite filter_app, IH. reflexivity. Qed.

Section Delta.
  Variables (q : mquirks) (c1 c2 : mconfig) (a : num).
  Hypothesis Hmem : forall v, nmem v (allowed c2) = num_eqb v a || nmem v (allowed c1).
  Hypothesis Hmax : max_small c2 = max_small c1.

  Lemma py_site_delta t s : py_site_report q c2 t s = filter (keep a) (py_site_report q c1 t s).
  Proof.
    rewrite !py_site_report_eq. destruct (negb (val_is (p_val s) py_numeric_types (excl (q_py_bool_is_number q) py_numeric_excluded))); [reflexivity|].
    assert (E : py_exempt q c2 s = py_exempt q c1 s) by (unfold py_exempt, py_small_in; rewrite Hmax; reflexivity).
    rewrite Hmem, E.
    assert (N : rval_names (rval_of (p_val s)) a = num_eqb (val_num (p_val s)) a) by (destruct (p_val s); reflexivity).
    destruct (nmem (val_num (p_val s)) (allowed c1)); [rewrite orb_true_r; reflexivity|]. rewrite orb_false_r.
    destruct (t || py_exempt q c1 s); [destruct (num_eqb _ a); reflexivity|].
    cbn [filter]. unfold keep. cbn [snd]. rewrite N. destruct (num_eqb (val_num (p_val s)) a); reflexivity.
  Qed.

  Lemma ts_site_delta t s : ts_site_report q c2 t s = filter (keep a) (ts_site_report q c1 t s).
  Proof.
    unfold ts_site_report. destruct (negb (String.eqb (t_type s) ts_number_type)); [reflexivity|].
    destruct (ts_extract _ _ (t_text s)) as [raw|]; [|reflexivity]. cbv zeta. rewrite Hmem.
    destruct (nmem (norm raw) (allowed c1)); [rewrite orb_true_r; reflexivity|]. rewrite orb_false_r.
    destruct t; [rewrite orb_true_r; reflexivity|]. rewrite !orb_false_r.
    destruct (ts_is_enum (t_anc s) || ts_is_const_def q (t_anc s)); [destruct (num_eqb _ a); reflexivity|].
    cbn [filter]. unfold keep. cbn [snd rval_names]. destruct (num_eqb (norm raw) a); reflexivity.
  Qed.

  Lemma rs_site_delta s : rs_site_report q c2 s = filter (keep a) (rs_site_report q c1 s).
  Proof.
    unfold rs_site_report. destruct (negb (smem (r_type s) rs_numeric_types)); [reflexivity|].
    destruct (rs_extract _ _ (r_text s)) as [raw|]; [|reflexivity]. cbv zeta. rewrite Hmem.
    destruct (nmem (norm raw) (allowed c1)); [rewrite orb_true_r; reflexivity|]. rewrite orb_false_r.
    destruct (rs_is_const (r_anc s)); [destruct (num_eqb _ a); reflexivity|].
    destruct (rs_is_test (r_anc s)); [destruct (num_eqb _ a); reflexivity|].
    cbn [filter]. unfold keep. cbn [snd rval_names]. destruct (num_eqb (norm raw) a); reflexivity.
  Qed.

  (* for EVERY quirk vector (the code's included): the reports under c2 are the reports under c1 minus those naming a *)
  Theorem allowed_delta lg f : report lg q c2 f = filter (keep a) (report lg q c1 f).
  Proof.
    destruct lg; cbn [report].
    - unfold py_report. destruct (py_is_definition_file q (f_name f) (to_py f)); [reflexivity|].
      rewrite filter_flat_map. apply flat_map_ext. intros st. rewrite filter_flat_map. apply flat_map_ext. intros s. apply py_site_delta.
    - unfold ts_report. rewrite filter_flat_map. apply flat_map_ext. intros s.
      replace (ts_is_test q (f_name f)) with (ts_is_test q (f_name f)) by reflexivity. apply ts_site_delta.
    - unfold rs_report. rewrite filter_flat_map. apply flat_map_ext. intros s. apply rs_site_delta.
  Qed.
End Delta.

(* a is added to the list in effect (at the top level; a language section keeps its other keys) *)
Definition add_allowed (a : num) (cfg : mconfig) : mconfig :=
  mk_cfg (Some (a :: raw_allowed cfg)) (c_max_small cfg) (option_map (fun s => (None, snd s)) (c_lang cfg)).

(* adding a value removes exactly the violations naming it *)
Theorem allowed_add lg q cfg a f :
  report lg q (add_allowed a cfg) f = filter (keep (norm a)) (report lg q cfg f).
Proof.
  apply allowed_delta.
  - intros v. unfold allowed. rewrite (raw_allowed_pick (add_allowed a cfg)). unfold add_allowed. cbn [c_lang c_allowed].
    destruct (c_lang cfg) as [[la lm]|]; reflexivity.
  - unfold max_small, add_allowed. cbn [c_lang c_max_small]. destruct (c_lang cfg) as [[la lm]|]; reflexivity.
Qed.

(* removing a value: for any configuration cfg' whose allowed set is that of cfg without a, the reports under cfg
   are those under cfg' minus the ones naming a, i.e. removal adds exactly the violations naming a *)
Theorem allowed_remove lg q cfg cfg' a f :
  (forall v, nmem v (allowed cfg) = num_eqb v (norm a) || nmem v (allowed cfg')) -> max_small cfg = max_small cfg' ->
  report lg q cfg f = filter (keep (norm a)) (report lg q cfg' f).
Proof. intros H1 H2. apply allowed_delta; assumption. Qed.

(* configurations with the same allowed set and limit give the same reports *)
Theorem allowed_ext lg q c1 c2 f :
  (forall v, nmem v (allowed c2) = nmem v (allowed c1)) -> max_small c2 = max_small c1 -> report lg q c2 f = report lg q c1 f.
Proof.
  intros H1 H2. destruct lg; cbn [report].
  - unfold py_report. destruct (py_is_definition_file q (f_name f) (to_py f)); [reflexivity|].
    apply flat_map_ext. intros st. apply flat_map_ext. intros s. rewrite !py_site_report_eq.
    assert (E : py_exempt q c2 s = py_exempt q c1 s) by (unfold py_exempt, py_small_in; rewrite H2; reflexivity).
    rewrite H1, E. reflexivity.
  - unfold ts_report. apply flat_map_ext. intros s. unfold ts_site_report.
    destruct (negb (String.eqb (t_type s) ts_number_type)); [reflexivity|].
    destruct (ts_extract _ _ (t_text s)) as [raw|]; [|reflexivity]. cbv zeta. rewrite H1. reflexivity.
  - unfold rs_report. apply flat_map_ext. intros s. unfold rs_site_report.
    destruct (negb (smem (r_type s) rs_numeric_types)); [reflexivity|].
    destruct (rs_extract _ _ (r_text s)) as [raw|]; [|reflexivity]. cbv zeta. rewrite H1. reflexivity.
Qed.

(* ------------------------------------------------------------------ max_small_integer *)
Theorem small_int_monotone c1 c2 c l v :
  (spec_max_small c1 <= spec_max_small c2)%Z -> spec_usage_exempt c1 c l v = true -> spec_usage_exempt c2 c l v = true.
Proof.
  intros H. unfold spec_usage_exempt. destruct c; try (intros; assumption);
    intros E; apply andb_prop in E; destruct E as [E E2]; apply andb_prop in E; destruct E as [E0 E1];
    rewrite E0, E1; cbn [andb]; apply Z.leb_le in E2; apply Z.leb_le; lia.
Qed.

(* ------------------------------------------------------------------ extract_total *)
(* for the property's reading (flags false) and for the tables found in the source (flags true) alike *)
Theorem ts_extract_total pq bq l raw :
  lit_ok MTs l = true -> lit_raw l = Some raw -> ts_extract pq bq (lit_chars l) = Some raw.
Proof.
  intros Hok Hr.
  exact (ts_lit_extract (Build_mquirks false false false false pq bq false false false) l raw Hok Hr).
Qed.

Theorem rs_extract_total tbl l raw :
  lit_ok MRs l = true -> lit_raw l = Some raw -> rs_extract tbl (rs_node_type l) (lit_chars l) = Some raw.
Proof.
  intros Hok Hr.
  exact (rs_lit_extract (Build_mquirks false false false false false false false false tbl) l raw Hok Hr).
Qed.

(* what is reported is reported once per occurrence, on its line, naming its value — for the model with the flags off *)
Theorem report_exactly_once lg q cfg f :
  flags_off lg q -> file_good lg f = true -> List.length (report lg q cfg f) = count_flaggable lg cfg f.
Proof. intros Hq Hg. rewrite (report_exact lg q cfg f Hq Hg). apply spec_exactly_once. Qed.

Theorem reported_iff lg q cfg f r :
  flags_off lg q -> file_good lg f = true ->
  (In r (report lg q cfg f) <->
   exists sc s l v, In sc (f_scopes f) /\ In s (sc_sites sc) /\ In l (s_lits s)
                    /\ flaggable lg cfg f sc s l = Some v /\ r = (s_line s, RNum v)).
Proof. intros Hq Hg. rewrite (report_exact lg q cfg f Hq Hg). apply spec_reported_iff. Qed.
