(* Proofs/MagicMain.v — C02, language-independent statements: exactness for every language, the
   characterisation of what is reported (iff / exactly once), the delta law of allowed_numbers
   (for every quirk vector, the faithful one included), non-literals, monotonicity in max_small_integer. *)
From Coq Require Import ZArith.
From TL Require Import Lib.Base Lib.GenTypes Gen.MagicGen Model.MagicNum Model.Magic Model.MagicSpec
     Proofs.MagicChars Proofs.MagicExtract Proofs.MagicFacts Proofs.MagicTs Proofs.MagicRs Proofs.MagicPy.

(* ------------------------------------------------------------------ exactness *)
Definition flags_off (lg : mlang) (q : mquirks) : Prop :=
  match lg with
  | MPy => q_py_upper_neg_flagged q = false /\ q_py_upper_ann_flagged q = false /\ q_py_upper_tuple_flagged q = false
           /\ q_py_enumerate_kw_flagged q = false /\ q_py_upper_binop_flagged q = false
  | MTs => q_ts_test_marker_anywhere q = false /\ q_ts_single_letter_const q = false
  | MRs => True
  end.

Theorem report_exact lg q cfg f :
  flags_off lg q -> file_good lg f = true -> report lg q cfg f = spec_report lg cfg f.
Proof.
  destruct lg; cbn [flags_off report].
  - intros [H2 [H3 [H4 [H5 H6]]]]. apply py_report_exact; assumption.
  - intros [H3 H4]. apply ts_report_exact; assumption.
  - intros _. apply rs_report_exact.
Qed.

(* the input classes outside which a flag that is on cannot matter *)
Definition file_plain (lg : mlang) (q : mquirks) (f : file) : bool :=
  match lg with MPy => py_file_plain q f | MTs => ts_file_plain q f | MRs => true end.

Theorem report_guarded lg q cfg f :
  file_good lg f = true -> file_plain lg q f = true -> report lg q cfg f = spec_report lg cfg f.
Proof.
  destruct lg; cbn [file_plain report]; intros Hg Hp;
    [apply py_report_guarded | apply ts_report_guarded | apply rs_report_exact]; assumption.
Qed.

(* ------------------------------------------------------------------ what the specification demands *)
Definition flaggable (lg : mlang) (cfg : mconfig) (f : file) (sc : scope) (s : site) (l : lit) : option num :=
  match lit_value l with
  | None => None
  | Some v => if nmem v (spec_allowed cfg) || (spec_file_exempt lg f || spec_site_exempt lg cfg sc s l) then None else Some v
  end.

Lemma spec_lit_flaggable lg cfg f sc s l :
  spec_lit lg cfg (spec_file_exempt lg f) sc s l
  = match flaggable lg cfg f sc s l with Some v => [(s_line s, RNum v)] | None => [] end.
Proof.
  unfold spec_lit, flaggable. destruct (lit_value l) as [v|]; [|reflexivity].
  destruct (nmem v (spec_allowed cfg)); [reflexivity|]. cbn [orb].
  destruct (spec_file_exempt lg f || spec_site_exempt lg cfg sc s l); reflexivity.
Qed.

(* reported iff: a numeric literal whose value is not allowed and which is in no exempt position;
   the report is on the literal's line and names its value *)
Theorem spec_reported_iff lg cfg f r :
  In r (spec_report lg cfg f) <->
  exists sc s l v, In sc (f_scopes f) /\ In s (sc_sites sc) /\ In l (s_lits s)
                   /\ flaggable lg cfg f sc s l = Some v /\ r = (s_line s, RNum v).
Proof.
  unfold spec_report. split.
  - intros H. apply in_flat_map in H. destruct H as [sc [Hsc H]]. apply in_flat_map in H. destruct H as [s [Hs H]].
    apply in_flat_map in H. destruct H as [l [Hl H]]. rewrite spec_lit_flaggable in H.
    destruct (flaggable lg cfg f sc s l) as [v|] eqn:E; [|destruct H]. destruct H as [<-|[]].
    exists sc, s, l, v. auto.
  - intros [sc [s [l [v [Hsc [Hs [Hl [E ->]]]]]]]].
    apply in_flat_map. exists sc. split; [exact Hsc|]. apply in_flat_map. exists s. split; [exact Hs|].
    apply in_flat_map. exists l. split; [exact Hl|]. rewrite spec_lit_flaggable, E. left. reflexivity.
Qed.

Definition count_flaggable (lg : mlang) (cfg : mconfig) (f : file) : nat :=
  sum_nat (map (fun sc => sum_nat (map (fun s => sum_nat (map (fun l => match flaggable lg cfg f sc s l with Some _ => 1 | None => 0 end)
                                                               (s_lits s))) (sc_sites sc))) (f_scopes f)).

Lemma length_flat_map {A B} (g : A -> list B) l : List.length (flat_map g l) = sum_nat (map (fun x => List.length (g x)) l).
Proof.
  induction l as [|x xs IH]; [reflexivity|]. cbn [flat_map map]. rewrite app_length, IH. reflexivity.
Qed.

(* exactly once: as many reports as flaggable literal occurrences *)
Theorem spec_exactly_once lg cfg f : List.length (spec_report lg cfg f) = count_flaggable lg cfg f.
Proof.
  unfold spec_report, count_flaggable. rewrite length_flat_map. f_equal. apply map_ext. intros sc.
  rewrite length_flat_map. f_equal. apply map_ext. intros s.
  rewrite length_flat_map. f_equal. apply map_ext. intros l.
  rewrite spec_lit_flaggable. destruct (flaggable lg cfg f sc s l); reflexivity.
Qed.

(* nothing that is not a numeric literal is ever reported *)
Theorem spec_nonliteral_never lg cfg f sc s l :
  lit_is_numeric l = false -> spec_lit lg cfg (spec_file_exempt lg f) sc s l = [].
Proof. intros H. unfold spec_lit. rewrite (lit_value_numeric l H). reflexivity. Qed.

Theorem report_only_numeric lg q cfg f r :
  flags_off lg q -> file_good lg f = true -> In r (report lg q cfg f) ->
  exists sc s l v, In sc (f_scopes f) /\ In s (sc_sites sc) /\ In l (s_lits s) /\ lit_is_numeric l = true
                   /\ lit_value l = Some v /\ r = (s_line s, RNum v).
Proof.
  intros Hq Hg Hr. rewrite (report_exact lg q cfg f Hq Hg) in Hr. apply spec_reported_iff in Hr.
  destruct Hr as [sc [s [l [v [Hsc [Hs [Hl [E ->]]]]]]]]. exists sc, s, l, v. repeat split; try assumption.
  - destruct (lit_is_numeric l) eqn:N; [reflexivity|]. unfold flaggable in E. rewrite (lit_value_numeric l N) in E. discriminate.
  - unfold flaggable in E. destruct (lit_value l) as [v'|]; [|discriminate]. destruct (_ || _); [discriminate|]. exact E.
Qed.

(* ------------------------------------------------------------------ the delta law of allowed_numbers *)
(* a report names the value a *)
Definition rval_names (r : rval) (a : num) : bool :=
  match r with RNum v => num_eqb v a | RBool b => num_eqb ((if b then 1 else 0)%Z, 0%Z) a end.
Definition keep (a : num) (r : mrep) : bool := negb (rval_names (snd r) a).

Lemma filter_flat_map {A B} (p : B -> bool) (g : A -> list B) l : filter p (flat_map g l) = flat_map (fun x => filter p (g x)) l.
Proof. induction l as [|x xs IH]; [reflexivity|]. cbn [flat_map]. rewrite filter_app, IH. reflexivity. Qed.

Section Delta.
  Variables (q : mquirks) (c1 c2 : mconfig) (a : num).
  Hypothesis Hmem : forall v, nmem v (allowed c2) = num_eqb v a || nmem v (allowed c1).
  Hypothesis Hmax : max_small c2 = max_small c1.

  Lemma py_site_delta t s : py_site_report q c2 t s = filter (keep a) (py_site_report q c1 t s).
  Proof.
    rewrite !py_site_report_eq. destruct (negb (val_is (p_val s) py_numeric_types (excl (q_py_bool_is_number q) py_numeric_excluded))); [reflexivity|].
    assert (E : py_exempt q c2 s = py_exempt q c1 s) by (unfold py_exempt, py_small_in, py_small_kw; rewrite Hmax; reflexivity).
    rewrite Hmem, E.
    assert (N : rval_names (rval_of (p_val s)) a = num_eqb (val_num (p_val s)) a) by (destruct (p_val s); reflexivity).
    destruct (nmem (val_num (p_val s)) (allowed c1)); [rewrite orb_true_r; reflexivity|]. rewrite orb_false_r.
    destruct (t || py_exempt q c1 s); [destruct (num_eqb _ a); reflexivity|].
    cbn [filter]. unfold keep. cbn [snd]. rewrite N. destruct (num_eqb (val_num (p_val s)) a); reflexivity.
  Qed.

  Lemma ts_site_delta t s : ts_site_report q c2 t s = filter (keep a) (ts_site_report q c1 t s).
  Proof.
    unfold ts_site_report. destruct (negb (String.eqb (t_type s) ts_number_type)); [reflexivity|].
    destruct (ts_extract _ _ (t_text s)) as [raw|]; [|reflexivity]. cbv zeta. rewrite Hmem.
    destruct (nmem (norm raw) (allowed c1)); [rewrite orb_true_r; reflexivity|]. rewrite orb_false_r.
    destruct t; [rewrite orb_true_r; reflexivity|]. rewrite !orb_false_r.
    destruct (ts_is_enum (t_anc s) || ts_is_const_def q (t_anc s)); [destruct (num_eqb _ a); reflexivity|].
    cbn [filter]. unfold keep. cbn [snd rval_names]. destruct (num_eqb (norm raw) a); reflexivity.
  Qed.

  Lemma rs_site_delta s : rs_site_report q c2 s = filter (keep a) (rs_site_report q c1 s).
  Proof.
    unfold rs_site_report. destruct (negb (smem (r_type s) rs_numeric_types)); [reflexivity|].
    destruct (rs_extract _ _ (r_text s)) as [raw|]; [|reflexivity]. cbv zeta. rewrite Hmem.
    destruct (nmem (norm raw) (allowed c1)); [rewrite orb_true_r; reflexivity|]. rewrite orb_false_r.
    destruct (rs_is_const (r_anc s)); [destruct (num_eqb _ a); reflexivity|].
    destruct (rs_is_test (r_anc s)); [destruct (num_eqb _ a); reflexivity|].
    cbn [filter]. unfold keep. cbn [snd rval_names]. destruct (num_eqb (norm raw) a); reflexivity.
  Qed.

  (* for EVERY quirk vector (the code's included): the reports under c2 are the reports under c1 minus those naming a *)
  Theorem allowed_delta lg f : report lg q c2 f = filter (keep a) (report lg q c1 f).
  Proof.
    destruct lg; cbn [report].
    - unfold py_report. destruct (py_is_definition_file q (f_name f) (to_py f)); [reflexivity|].
      rewrite filter_flat_map. apply flat_map_ext. intros st. rewrite filter_flat_map. apply flat_map_ext. intros s. apply py_site_delta.
    - unfold ts_report. rewrite filter_flat_map. apply flat_map_ext. intros s.
      replace (ts_is_test q (f_name f)) with (ts_is_test q (f_name f)) by reflexivity. apply ts_site_delta.
    - unfold rs_report. rewrite filter_flat_map. apply flat_map_ext. intros s. apply rs_site_delta.
  Qed.
End Delta.

(* a is added to the list in effect (at the top level; a language section keeps its other keys) *)
Definition add_allowed (a : num) (cfg : mconfig) : mconfig :=
  mk_cfg (Some (a :: raw_allowed cfg)) (c_max_small cfg) (option_map (fun s => (None, snd s)) (c_lang cfg)) (c_enabled cfg) (c_ignore cfg).

(* adding a value removes exactly the violations naming it *)
Theorem allowed_add lg q cfg a f :
  report lg q (add_allowed a cfg) f = filter (keep (norm a)) (report lg q cfg f).
Proof.
  apply allowed_delta.
  - intros v. unfold allowed. rewrite (raw_allowed_pick (add_allowed a cfg)). unfold add_allowed. cbn [c_lang c_allowed].
    destruct (c_lang cfg) as [[la lm]|]; reflexivity.
  - unfold max_small, add_allowed. cbn [c_lang c_max_small]. destruct (c_lang cfg) as [[la lm]|]; reflexivity.
Qed.

(* removing a value: for any configuration cfg' whose allowed set is that of cfg without a, the reports under cfg
   are those under cfg' minus the ones naming a, i.e. removal adds exactly the violations naming a *)
Theorem allowed_remove lg q cfg cfg' a f :
  (forall v, nmem v (allowed cfg) = num_eqb v (norm a) || nmem v (allowed cfg')) -> max_small cfg = max_small cfg' ->
  report lg q cfg f = filter (keep (norm a)) (report lg q cfg' f).
Proof. intros H1 H2. apply allowed_delta; assumption. Qed.

(* configurations with the same allowed set and limit give the same reports *)
Theorem allowed_ext lg q c1 c2 f :
  (forall v, nmem v (allowed c2) = nmem v (allowed c1)) -> max_small c2 = max_small c1 -> report lg q c2 f = report lg q c1 f.
Proof.
  intros H1 H2. destruct lg; cbn [report].
  - unfold py_report. destruct (py_is_definition_file q (f_name f) (to_py f)); [reflexivity|].
    apply flat_map_ext. intros st. apply flat_map_ext. intros s. rewrite !py_site_report_eq.
    assert (E : py_exempt q c2 s = py_exempt q c1 s) by (unfold py_exempt, py_small_in, py_small_kw; rewrite H2; reflexivity).
    rewrite H1, E. reflexivity.
  - unfold ts_report. apply flat_map_ext. intros s. unfold ts_site_report.
    destruct (negb (String.eqb (t_type s) ts_number_type)); [reflexivity|].
    destruct (ts_extract _ _ (t_text s)) as [raw|]; [|reflexivity]. cbv zeta. rewrite H1. reflexivity.
  - unfold rs_report. apply flat_map_ext. intros s. unfold rs_site_report.
    destruct (negb (smem (r_type s) rs_numeric_types)); [reflexivity|].
    destruct (rs_extract _ _ (r_text s)) as [raw|]; [|reflexivity]. cbv zeta. rewrite H1. reflexivity.
Qed.

(* ------------------------------------------------------------------ max_small_integer *)
Theorem small_int_monotone c1 c2 c l v :
  (spec_max_small c1 <= spec_max_small c2)%Z -> spec_usage_exempt c1 c l v = true -> spec_usage_exempt c2 c l v = true.
Proof.
  intros H. unfold spec_usage_exempt. destruct c; try (intros; assumption);
    intros E; apply andb_prop in E; destruct E as [E E2]; apply andb_prop in E; destruct E as [E0 E1];
    rewrite E0, E1; cbn [andb]; apply Z.leb_le in E2; apply Z.leb_le; lia.
Qed.

(* ------------------------------------------------------------------ extract_total *)
(* for the property's reading (flags false) and for the tables found in the source (flags true) alike *)
Theorem ts_extract_total pq bq l raw :
  lit_ok MTs l = true -> lit_raw l = Some raw -> ts_extract pq bq (lit_chars l) = Some raw.
Proof.
  intros Hok Hr.
  exact (ts_lit_extract (Build_mquirks false false false false pq bq false false false false false) l raw Hok Hr).
Qed.

Theorem rs_extract_total tbl l raw :
  lit_ok MRs l = true -> lit_raw l = Some raw -> rs_extract tbl (rs_node_type l) (lit_chars l) = Some raw.
Proof.
  intros Hok Hr.
  exact (rs_lit_extract (Build_mquirks false false false false false false false false tbl false false) l raw Hok Hr).
Qed.

(* what is reported is reported once per occurrence, on its line, naming its value — for the model with the flags off *)
Theorem report_exactly_once lg q cfg f :
  flags_off lg q -> file_good lg f = true -> List.length (report lg q cfg f) = count_flaggable lg cfg f.
Proof. intros Hq Hg. rewrite (report_exact lg q cfg f Hq Hg). apply spec_exactly_once. Qed.

Theorem reported_iff lg q cfg f r :
  flags_off lg q -> file_good lg f = true ->
  (In r (report lg q cfg f) <->
   exists sc s l v, In sc (f_scopes f) /\ In s (sc_sites sc) /\ In l (s_lits s)
                    /\ flaggable lg cfg f sc s l = Some v /\ r = (s_line s, RNum v)).
Proof. intros Hq Hg. rewrite (report_exact lg q cfg f Hq Hg). apply spec_reported_iff. Qed.

(* ------------------------------------------------------------------ the section switches *)
Lemma gen_switches : (cfg_key_enabled, cfg_enabled_default, cfg_key_ignore, ignore_match_modes) = ("enabled", true, "ignore", ["path_match"; "substring"]).
Proof. reflexivity. Qed.

Lemma lint_spec_shape lg q cfg f :
  lint lg q cfg f = match c_enabled cfg with
                    | Some false => []
                    | _ => if existsb (fun p => path_match p (f_name f) || contains (chars p) (chars (f_name f))) (c_ignore cfg) then []
                           else report lg q cfg f
                    end.
Proof.
  unfold lint, enabled, file_ignored, ignore_matches. replace cfg_enabled_default with true by reflexivity.
  replace ignore_match_modes with ["path_match"; "substring"] by reflexivity.
  destruct (c_enabled cfg) as [[|]|]; reflexivity.
Qed.

(* what the command reports, section switches included *)
Theorem lint_exact lg q cfg f :
  flags_off lg q -> file_good lg f = true -> lint lg q cfg f = spec_lint lg cfg f.
Proof. intros Hq Hg. rewrite lint_spec_shape. unfold spec_lint. rewrite (report_exact lg q cfg f Hq Hg). reflexivity. Qed.

Theorem lint_guarded lg q cfg f :
  file_good lg f = true -> file_plain lg q f = true -> lint lg q cfg f = spec_lint lg cfg f.
Proof. intros Hg Hp. rewrite lint_spec_shape. unfold spec_lint. rewrite (report_guarded lg q cfg f Hg Hp). reflexivity. Qed.

Theorem lint_disabled lg q cfg f : c_enabled cfg = Some false -> lint lg q cfg f = [].
Proof. intros H. rewrite lint_spec_shape, H. reflexivity. Qed.

Theorem lint_ignored lg q cfg f p :
  In p (c_ignore cfg) -> path_match p (f_name f) || contains (chars p) (chars (f_name f)) = true -> lint lg q cfg f = [].
Proof.
  intros Hin Hm. rewrite lint_spec_shape. destruct (c_enabled cfg) as [[|]|]; try reflexivity;
    (replace (existsb _ (c_ignore cfg)) with true; [reflexivity|]; symmetry; apply existsb_exists; exists p; auto).
Qed.

(* the delta law survives the switches *)
Theorem lint_allowed_add lg q cfg a f :
  lint lg q (add_allowed a cfg) f = filter (keep (norm a)) (lint lg q cfg f).
Proof.
  rewrite !lint_spec_shape.
  change (c_enabled (add_allowed a cfg)) with (c_enabled cfg). change (c_ignore (add_allowed a cfg)) with (c_ignore cfg).
  destruct (c_enabled cfg) as [[|]|]; try reflexivity;
    (destruct (existsb _ (c_ignore cfg)); [reflexivity | apply allowed_add]).
Qed.

(* ------------------------------------------------------------------ same-line ignore directives *)
Lemma gen_directives :
  (py_dir_generic, py_dir_noqa, ts_dir_specific, ts_dir_generic, ts_dir_noqa)
  = (("# thailint: ignore", "#", "["), "# noqa", "// thailint: ignore[magic-numbers]", ("// thailint: ignore", "//", "["), "// noqa").
Proof. reflexivity. Qed.

Lemma str_list_eqb_eq (x y : list string) :
  (List.length x =? List.length y) && forallb (fun p => String.eqb (fst p) (snd p)) (combine x y) = true -> x = y.
Proof.
  revert y. induction x as [|a x IH]; intros [|b y] H; try reflexivity; try discriminate.
  cbn [List.length combine forallb fst snd] in H. apply andb_prop in H. destruct H as [HL H]. apply andb_prop in H. destruct H as [Hab H].
  apply String.eqb_eq in Hab. subst b. f_equal. apply IH. rewrite H, andb_true_r. exact HL.
Qed.

Lemma directive_eqb_eq a b : directive_eqb a b = true -> a = b.
Proof.
  destruct a as [ta ra], b as [tb rb]. unfold directive_eqb. cbn [d_text d_rules]. intros H. apply andb_prop in H. destruct H as [Ht Hr].
  apply String.eqb_eq in Ht. subst tb. destruct ra as [x|], rb as [y|]; try discriminate; [|reflexivity].
  rewrite (str_list_eqb_eq x y Hr). reflexivity.
Qed.

(* on every directive form of the pool the parser oracle plus the linter's own text checks suppress exactly what is documented *)
Lemma pool_suppress lg d : existsb (directive_eqb d) dir_pool = true -> model_suppresses lg d = spec_suppresses d.
Proof.
  intros H. apply existsb_exists in H. destruct H as [x [Hin E]]. apply directive_eqb_eq in E. subst x.
  cbn [dir_pool In] in Hin. repeat (destruct Hin as [<-|Hin]; [destruct lg; vm_compute; reflexivity|]). destruct Hin.
Qed.

Lemma filter_ext_in' {A} (p r : A -> bool) l : (forall x, In x l -> p x = r x) -> filter p l = filter r l.
Proof. induction l as [|x xs IH]; intros H; [reflexivity|]. cbn [filter]. rewrite (H x (or_introl eq_refl)), IH; [reflexivity|]. intros y Hy. apply H. right. exact Hy. Qed.

Lemma suppressed_at_pool lg ds n : dirs_good ds = true -> suppressed_at (model_suppresses lg) ds n = suppressed_at spec_suppresses ds n.
Proof.
  intros H. unfold suppressed_at, dirs_good in *. rewrite forallb_forall in H. apply existsb_ext_in. intros ld Hld.
  rewrite (pool_suppress lg (snd ld) (H ld Hld)). reflexivity.
Qed.

(* reports with line-level ignores: exactly the demanded reports on lines that carry no matching directive *)
Theorem lint_d_exact lg q cfg f ds :
  flags_off lg q -> file_good lg f = true -> dirs_good ds = true -> lint_d lg q cfg f ds = spec_lint_d lg cfg f ds.
Proof.
  intros Hq Hg Hd. unfold lint_d, spec_lint_d. rewrite (lint_exact lg q cfg f Hq Hg).
  apply filter_ext_in'. intros r _. rewrite (suppressed_at_pool lg ds (fst r) Hd). reflexivity.
Qed.

Theorem lint_d_guarded lg q cfg f ds :
  file_good lg f = true -> file_plain lg q f = true -> dirs_good ds = true -> lint_d lg q cfg f ds = spec_lint_d lg cfg f ds.
Proof.
  intros Hg Hp Hd. unfold lint_d, spec_lint_d. rewrite (lint_guarded lg q cfg f Hg Hp).
  apply filter_ext_in'. intros r _. rewrite (suppressed_at_pool lg ds (fst r) Hd). reflexivity.
Qed.

Lemma filter_comm {A} (p r : A -> bool) l : filter p (filter r l) = filter r (filter p l).
Proof. induction l as [|x xs IH]; [reflexivity|]. cbn [filter]. destruct (p x) eqn:P, (r x) eqn:R; cbn [filter]; rewrite ?P, ?R, IH; reflexivity. Qed.

(* a directive with a matching rule (or the bare form) on a line removes every report of that line, and nothing else *)
Theorem lint_d_delta lg q cfg a f ds :
  lint_d lg q (add_allowed a cfg) f ds = filter (keep (norm a)) (lint_d lg q cfg f ds).
Proof. unfold lint_d. rewrite lint_allowed_add. apply filter_comm. Qed.

Theorem spec_directive_line lg cfg f ds r :
  In r (spec_lint_d lg cfg f ds) <-> In r (spec_lint lg cfg f) /\ suppressed_at spec_suppresses ds (fst r) = false.
Proof. unfold spec_lint_d. rewrite filter_In, negb_true_iff. reflexivity. Qed.

(* ------------------------------------------------------------------ negative entries of allowed_numbers *)
(* a literal is an unsigned token (the minus of `-5` is an operator in all three grammars): values are never negative, so a
   negative entry of allowed_numbers matches nothing *)
Lemma digits_val_nonneg base acc ds : (0 <= base)%Z -> (0 <= acc)%Z -> (0 <= digits_val base acc ds)%Z.
Proof. intros Hb. revert acc. induction ds as [|d r IH]; intros acc Ha; cbn [digits_val]; [exact Ha|]. apply IH. nia. Qed.

Lemma strip10_sign fuel m e : ((0 <= m)%Z -> (0 <= fst (strip10 fuel m e))%Z) /\ ((m < 0)%Z -> (fst (strip10 fuel m e) < 0)%Z).
Proof.
  revert m e. induction fuel as [|n IH]; intros m e; cbn [strip10]; [cbn; split; auto|].
  destruct (m mod 10 =? 0)%Z eqn:E; [|cbn; split; auto].
  apply Z.eqb_eq in E. destruct (IH (m / 10)%Z (e + 1)%Z) as [I1 I2]. split; intros H.
  - apply I1. apply Z.div_pos; lia.
  - apply I2. assert (m = 10 * (m / 10))%Z by (rewrite (Z.div_mod m 10) at 1; lia). lia.
Qed.

Lemma norm_nonneg v : (0 <= fst v)%Z -> (0 <= fst (norm v))%Z.
Proof.
  destruct v as [m e]. cbn [fst]. intros H. unfold norm. destruct (m =? 0)%Z; [cbn; lia|].
  apply (proj1 (strip10_sign _ m e)). exact H.
Qed.

Lemma norm_neg v : (fst v < 0)%Z -> (fst (norm v) < 0)%Z.
Proof.
  destruct v as [m e]. cbn [fst]. intros H. unfold norm. destruct (m =? 0)%Z eqn:E; [apply Z.eqb_eq in E; lia|].
  apply (proj2 (strip10_sign _ m e)). exact H.
Qed.

Lemma lit_value_nonneg l v : lit_value l = Some v -> (0 <= fst v)%Z.
Proof.
  unfold lit_value. destruct l; cbn [lit_raw option_map]; try discriminate; intros E; inversion E; apply norm_nonneg; cbn [fst];
    apply digits_val_nonneg; lia.
Qed.

Theorem negative_allowed_inert lg q cfg a f :
  flags_off lg q -> file_good lg f = true -> (fst a < 0)%Z ->
  report lg q (add_allowed a cfg) f = report lg q cfg f.
Proof.
  intros Hq Hg Ha. rewrite allowed_add.
  assert (K : forall r, In r (report lg q cfg f) -> keep (norm a) r = true).
  { intros r Hr. destruct (report_only_numeric lg q cfg f r Hq Hg Hr) as [sc [s [l [v [_ [_ [_ [_ [Hv ->]]]]]]]]].
    unfold keep. cbn [snd rval_names]. apply negb_true_iff. destruct (num_eqb v (norm a)) eqn:E; [|reflexivity].
    apply num_eqb_eq in E. subst v. assert (N := norm_neg a Ha). assert (P := lit_value_nonneg l _ Hv). lia. }
  induction (report lg q cfg f) as [|x xs IH]; [reflexivity|]. cbn [filter]. rewrite (K x (or_introl eq_refl)). f_equal.
  apply IH. intros r Hr. apply K. right. exact Hr.
Qed.
