(* Proofs/LocTsPat.v — C12: the TypeScript pattern-linter location model (Model/LocTsPat.v).

   tpat_reports_node    whatever the detector selects, every report is computed from row / column of a node of the tree whose type is
                        one of those read from the source;
   tpat_sites_fact      the sites of the current tree: string-concat reports an augmented_assignment_expression, CQS one of the four
                        function node types, both at (row + 1, column);
   tpat_report_position hence line = row + 1 and column = the node's column;
   tpat_hit_sound       soundness of the executable judge. *)
From TL Require Import Lib.Base Lib.GenTypes Model.LocTypes Gen.LocGen Gen.LocPatGen Model.Loc Model.Embed Model.LocPat Gen.LocTsPatGen
     Model.LocTsPat Proofs.LocPat.

Theorem tpat_reports_node s sel root r : In r (tpat_walk s sel root) ->
  exists n, tsub n root /\ smem (tty n) (ps_classes s) = true /\ sel n = true
            /\ r = (eval_line (ps_line s) (trow n), eval_col (ps_col s) (tcol n)).
Proof.
  revert r. induction root as [ty row col text ks IH] using tnode_ind'. intros r. cbn [tpat_walk]. rewrite in_app_iff. intros [H|H].
  - unfold tpat_emit in H. destruct (smem _ _ && sel _) eqn:E; [|destruct H]. destruct H as [<-|[]].
    apply Bool.andb_true_iff in E. destruct E as [E1 E2].
    exists (TN ty row col text ks). split; [apply tsub_refl|]. auto.
  - apply in_flat_map in H. destruct H as [x [Hx H]]. rewrite Forall_forall in IH.
    destruct (IH x Hx r H) as [n [Hs Hrest]]. exists n. split; [eapply tsub_kid; eassumption|exact Hrest].
Qed.

(* and conversely: a selected node of a listed type is reported *)
Theorem tpat_reports_complete s sel root n : tsub n root -> smem (tty n) (ps_classes s) = true -> sel n = true ->
  In (eval_line (ps_line s) (trow n), eval_col (ps_col s) (tcol n)) (tpat_walk s sel root).
Proof.
  induction root as [ty row col text ks IH] using tnode_ind'. intros Hs Ht Hsel. apply tsub_inv in Hs. cbn [tpat_walk]. apply in_app_iff.
  destruct Hs as [->|[x [Hx Hs]]].
  - left. unfold tpat_emit. rewrite Ht, Hsel. now left.
  - right. apply in_flat_map. exists x. split; [exact Hx|]. rewrite Forall_forall in IH. now apply IH.
Qed.

Lemma tpat_sites_fact :
  map (fun k => option_map (fun s => (ps_classes s, ps_line s, ps_col s)) (tsite_of k)) ["perf-ts"; "cqs-ts"]
  = [Some (["augmented_assignment_expression"], LBase0 1, CNode 0);
     Some (["function_declaration"; "arrow_function"; "method_definition"; "function"], LBase0 1, CNode 0)].
Proof. reflexivity. Qed.

Lemma tsite_conv linter s : In linter ["perf-ts"; "cqs-ts"] -> tsite_of linter = Some s -> ps_line s = LBase0 1 /\ ps_col s = CNode 0.
Proof.
  intros Hin Hs. destruct Hin as [<-|[<-|[]]]; vm_compute in Hs; injection Hs as <-; split; reflexivity.
Qed.

Corollary tpat_report_position linter s sel root l c : In linter ["perf-ts"; "cqs-ts"] -> tsite_of linter = Some s ->
  In (l, c) (tpat_walk s sel root) ->
  exists n, tsub n root /\ smem (tty n) (ps_classes s) = true /\ l = trow n + 1 /\ c = tcol n.
Proof.
  intros Hin Hs H. destruct (tsite_conv _ _ Hin Hs) as [El Ec].
  destruct (tpat_reports_node _ _ _ _ H) as [n [Hsub [Hty [_ E]]]]. rewrite El, Ec in E. cbn [eval_line eval_col] in E.
  injection E as -> ->. exists n. repeat split; auto; try lia.
Qed.

Theorem tpat_hit_sound s root l c : tpat_hit s root (l, c) = true ->
  exists n, tsub n root /\ smem (tty n) (ps_classes s) = true /\ l = eval_line (ps_line s) (trow n) /\ c = eval_col (ps_col s) (tcol n).
Proof.
  unfold tpat_hit. intros H. apply existsb_exists in H. destruct H as [[l' c'] [Hin E]]. cbn [fst snd] in E.
  apply Bool.andb_true_iff in E. destruct E as [E1 E2]. apply Nat.eqb_eq in E1. apply Nat.eqb_eq in E2. subst l' c'.
  destruct (tpat_reports_node _ _ _ _ Hin) as [n [Hs [Ht [_ E]]]]. injection E as -> ->. exists n. auto.
Qed.
