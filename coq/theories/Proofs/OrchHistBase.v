(* Proofs/OrchHistBase.v — lemmas about the long-lived orchestrator model:
   canonical sorting of evidence, facts read off the generated layer, and the characterisation of the
   per-file loop (what it returns and what evidence it leaves) that every theorem builds on. *)
From Coq Require Import Permutation.
From TL Require Import Lib.Base Lib.GenTypes Gen.OrchHistGen Model.OrchHist.

(* ---------- fv_sort is a canonical form for permutations ---------- *)
Lemma fv_leb_total a b : fv_leb a b = true \/ fv_leb b a = true.
Proof.
  destruct a as [a1 a2], b as [b1 b2]. unfold fv_leb. cbn [fst snd].
  destruct (a1 <? b1) eqn:E1; [now left|].
  destruct (b1 <? a1) eqn:E2; [now right|].
  apply Nat.ltb_ge in E1. apply Nat.ltb_ge in E2.
  assert (a1 = b1) as -> by lia. rewrite Nat.eqb_refl. cbn [orb andb].
  destruct (a2 <=? b2) eqn:E3; [now left|]. right. apply Nat.leb_gt in E3. apply Nat.leb_le. lia.
Qed.

Lemma fv_leb_antisym a b : fv_leb a b = true -> fv_leb b a = true -> a = b.
Proof.
  destruct a as [a1 a2], b as [b1 b2]. unfold fv_leb. cbn [fst snd]. intros H1 H2.
  apply orb_true_iff in H1. apply orb_true_iff in H2.
  destruct H1 as [H1|H1], H2 as [H2|H2];
    repeat match goal with
           | H : (_ <? _) = true |- _ => apply Nat.ltb_lt in H
           | H : (_ && _) = true |- _ => apply andb_true_iff in H; destruct H
           | H : (_ =? _) = true |- _ => apply Nat.eqb_eq in H
           | H : (_ <=? _) = true |- _ => apply Nat.leb_le in H
           end; try lia.
  f_equal; lia.
Qed.

Lemma fv_leb_trans a b c : fv_leb a b = true -> fv_leb b c = true -> fv_leb a c = true.
Proof.
  destruct a as [a1 a2], b as [b1 b2], c as [c1 c2]. unfold fv_leb. cbn [fst snd]. intros H1 H2.
  apply orb_true_iff in H1. apply orb_true_iff in H2. apply orb_true_iff.
  destruct H1 as [H1|H1], H2 as [H2|H2];
    repeat match goal with
           | H : (_ <? _) = true |- _ => apply Nat.ltb_lt in H
           | H : (_ && _) = true |- _ => apply andb_true_iff in H; destruct H
           | H : (_ =? _) = true |- _ => apply Nat.eqb_eq in H
           | H : (_ <=? _) = true |- _ => apply Nat.leb_le in H
           end.
  - left. apply Nat.ltb_lt. lia.
  - left. apply Nat.ltb_lt. lia.
  - left. apply Nat.ltb_lt. lia.
  - right. apply andb_true_iff. split; [apply Nat.eqb_eq|apply Nat.leb_le]; lia.
Qed.

Lemma fv_insert_comm x y l : fv_insert x (fv_insert y l) = fv_insert y (fv_insert x l).
Proof.
  induction l as [|h t IH]; cbn [fv_insert].
  - destruct (fv_leb x y) eqn:Exy, (fv_leb y x) eqn:Eyx; try reflexivity.
    + now rewrite (fv_leb_antisym _ _ Exy Eyx).
    + destruct (fv_leb_total x y); congruence.
  - destruct (fv_leb y h) eqn:Eyh, (fv_leb x h) eqn:Exh; cbn [fv_insert]; rewrite ?Eyh, ?Exh.
    + destruct (fv_leb x y) eqn:Exy, (fv_leb y x) eqn:Eyx; try reflexivity.
      * now rewrite (fv_leb_antisym _ _ Exy Eyx).
      * destruct (fv_leb_total x y); congruence.
    + assert (fv_leb x y = false) as ->.
      { destruct (fv_leb x y) eqn:E; [|reflexivity]. rewrite (fv_leb_trans _ _ _ E Eyh) in Exh. discriminate. }
      reflexivity.
    + assert (fv_leb y x = false) as ->.
      { destruct (fv_leb y x) eqn:E; [|reflexivity]. rewrite (fv_leb_trans _ _ _ E Exh) in Eyh. discriminate. }
      reflexivity.
    + now rewrite IH.
Qed.

Lemma fv_sort_perm_eq l l' : Permutation l l' -> fv_sort l = fv_sort l'.
Proof.
  induction 1 as [|x l l' _ IH|x y l|l l' l'' _ IH1 _ IH2]; cbn [fv_sort].
  - reflexivity.
  - now rewrite IH.
  - apply fv_insert_comm.
  - now rewrite IH1.
Qed.

Lemma fv_insert_perm x l : Permutation (fv_insert x l) (x :: l).
Proof.
  induction l as [|h t IH]; cbn [fv_insert]; [reflexivity|].
  destruct (fv_leb x h); [reflexivity|]. rewrite IH. apply perm_swap.
Qed.

Lemma fv_sort_perm l : Permutation (fv_sort l) l.
Proof.
  induction l as [|x t IH]; cbn [fv_sort]; [reflexivity|]. rewrite fv_insert_perm. now constructor.
Qed.

(* ---------- facts read off the generated layer (break when the source changes shape) ---------- *)
Lemma gen_lint_files_finalizes : finalizes "lint_files" = true. Proof. reflexivity. Qed.
Lemma gen_lint_directory_finalizes : finalizes "lint_directory" = true. Proof. reflexivity. Qed.
Lemma gen_lint_file_no_finalize : finalizes "lint_file" = false. Proof. reflexivity. Qed.
Lemma gen_api_dir_entry : api_dir_entry = "lint_directory". Proof. reflexivity. Qed.
(* the next three hold whether or not the listed defects are still in the source (a fix must not break the proofs) *)
Lemma api_entry_when_off q : q_api_file_no_finalize q = false -> api_file_entry q = "lint_files".
Proof. unfold api_file_entry. intros ->. reflexivity. Qed.
Lemma api_entry_cases q : api_file_entry q = "lint_file" \/ api_file_entry q = "lint_files".
Proof. unfold api_file_entry. destruct (q_api_file_no_finalize q); first [left; reflexivity | right; reflexivity]. Qed.
Lemma gen_dry_aux_reset q : aux_cleared q = true.
Proof. unfold aux_cleared, dry_resets. destruct (q_dry_keeps_storage q); reflexivity. Qed.
Definition rows_kept (q : oquirks) : bool := negb (smem "_storage" (dry_resets q)).
(* facts of the repaired source (fix commits 8b82489, 5ce39e3, f7c62f4): they hold for EVERY quirk vector, i.e. also for the
   vector that reads these tables from the source; reverting a fix breaks them *)
Lemma gen_rows_reset q : rows_kept q = false.
Proof. unfold rows_kept, dry_resets. destruct (q_dry_keeps_storage q); reflexivity. Qed.
Lemma gen_consts_view q l : consts_view q l = fv_sort l.
Proof. unfold consts_view. destruct (q_consts_in_processing_order q); reflexivity. Qed.
Lemma gen_api_file_entry q : api_file_entry q = "lint_files".
Proof. unfold api_file_entry. destruct (q_api_file_no_finalize q); reflexivity. Qed.
Lemma rows_reset_when_off q : q_dry_keeps_storage q = false -> rows_kept q = false.
Proof. unfold rows_kept, dry_resets. intros ->. reflexivity. Qed.
Lemma gen_st_clears : st_clears = true. Proof. reflexivity. Qed.
Lemma gen_cli_entries : cli_files_entry = "lint_files" /\ cli_dirs_entry = "lint_directory". Proof. split; reflexivity. Qed.
Lemma gen_api_recursive : api_dir_recursive = true. Proof. reflexivity. Qed.
Lemma gen_api_rules_filter : api_rules_filter = "FIn". Proof. reflexivity. Qed.
Lemma gen_cache_keys : ignore_cache_key = "str(file_path)" /\ ignore_parser_singleton_key = "effective_root" /\ fp_linter_cache_key = "project_root".
Proof. repeat split; reflexivity. Qed.
Lemma gen_iterates : entry_iterates = [("lint_files", "file_paths"); ("lint_directory", "_collect_files_fast(dir_path, recursive)")].
Proof. reflexivity. Qed.
(* the block report reads its rows ORDER BY file_path, start_line: insertion order cannot matter *)
Lemma gen_dry_sql :
  dry_sql_blocks_by_hash = "SELECT file_path, start_line, end_line, snippet, hash_value FROM code_blocks WHERE hash_value = ? ORDER BY file_path, start_line"
  /\ dry_sql_duplicate_hashes = "SELECT hash_value FROM code_blocks GROUP BY hash_value HAVING COUNT(*) >= 2".
Proof. split; reflexivity. Qed.

Section Base.
  Variable V : Type.
  Variable perfile : path -> option content -> list V.
  Variable rep_blocks : list fv -> list fv -> list V.
  Variable rep_consts rep_st : list fv -> list V.
  Variable hard_excl : path -> bool.
  Variable ignored : option content -> path -> bool.
  Variable ign_path : path.
  Variable in_dir : nat -> path -> bool.

  Notation lint_file1 := (lint_file1 V perfile hard_excl ignored).
  Notation lint_each := (lint_each V perfile hard_excl ignored).
  Notation finalize := (finalize V rep_blocks rep_consts rep_st).
  Notation run_entry := (run_entry V perfile rep_blocks rep_consts rep_st hard_excl ignored).
  Notation run_single := (run_single V perfile rep_blocks rep_consts rep_st hard_excl ignored).
  Notation step := (step V perfile rep_blocks rep_consts rep_st hard_excl ignored ign_path in_dir).
  Notation run := (run V perfile rep_blocks rep_consts rep_st hard_excl ignored ign_path in_dir).
  Notation mk_init := (mk_init ign_path).

  (* the ignore memo table only ever holds correct answers for the patterns the parser loaded *)
  Definition coherent (st : ostate) : Prop := forall p b, passoc p (icache st) = Some b -> b = ignored (ppats st) p.

  Lemma coherent_init pp : coherent (init_st pp). Proof. intros p b H. discriminate H. Qed.

  Lemma cached_ignored_ok pp ic p : (forall p b, passoc p ic = Some b -> b = ignored pp p) ->
    fst (cached_ignored ignored pp ic p) = ignored pp p
    /\ (forall p' b, passoc p' (snd (cached_ignored ignored pp ic p)) = Some b -> b = ignored pp p').
  Proof.
    intros C. unfold cached_ignored. destruct (passoc p ic) eqn:E; cbn [fst snd].
    - split; [now apply C|exact C].
    - split; [reflexivity|]. intros p' b'. cbn [passoc]. destruct (p' =? p) eqn:Ep.
      + apply Nat.eqb_eq in Ep. subst p'. intros H. now inversion H.
      + apply C.
  Qed.

  (* a file is looked at by the rules iff no guard of lint_file rejects it *)
  Definition accepted (pp : option content) (p : path) : bool :=
    negb (smem "_is_hardcoded_excluded" lint_file_guards && hard_excl p)
    && negb (smem "is_ignored" lint_file_guards && ignored pp p).

  Definition evid1 (pp : option content) (fs : fsys) (p : path) : list fv :=
    if accepted pp p then match fs_get fs p with Some c => [(p, c)] | None => [] end else [].
  Definition pf1 (pp : option content) (fs : fsys) (p : path) : list V := if accepted pp p then perfile p (fs_get fs p) else [].
  Definition evid (pp : option content) (fs : fsys) (ps : list path) : list fv := flat_map (evid1 pp fs) ps.
  Definition pfout (pp : option content) (fs : fsys) (ps : list path) : list V := flat_map (pf1 pp fs) ps.

  Lemma lint_file1_char fs st p : coherent st ->
    let r := lint_file1 fs st p in let pp := ppats st in
    dry_rows (fst r) = dry_rows st ++ evid1 pp fs p /\ dry_aux (fst r) = dry_aux st ++ evid1 pp fs p
    /\ st_ev (fst r) = st_ev st ++ evid1 pp fs p /\ snd r = pf1 pp fs p /\ coherent (fst r) /\ ppats (fst r) = pp.
  Proof.
    intros C. unfold lint_file1, evid1, pf1, accepted. cbn zeta.
    destruct (smem "_is_hardcoded_excluded" lint_file_guards && hard_excl p) eqn:E1; cbn [negb andb fst snd].
    { rewrite !app_nil_r. repeat split; try reflexivity. exact C. }
    destruct (smem "is_ignored" lint_file_guards) eqn:G2; cbn [andb].
    - pose proof (cached_ignored_ok (ppats st) (icache st) p C) as [Hf Hc].
      destruct (cached_ignored ignored (ppats st) (icache st) p) as [ig ic]. cbn [fst snd] in Hf, Hc. subst ig.
      destruct (ignored (ppats st) p); cbn [negb].
      + cbn [fst snd set_icache dry_rows dry_aux st_ev icache ppats]. rewrite !app_nil_r. repeat split; try reflexivity. exact Hc.
      + destruct (fs_get fs p); cbn [fst snd set_icache dry_rows dry_aux st_ev icache ppats]; rewrite ?app_nil_r; repeat split; try reflexivity; exact Hc.
    - cbn [negb]. destruct (fs_get fs p); cbn [fst snd set_icache dry_rows dry_aux st_ev icache ppats]; rewrite ?app_nil_r; repeat split; try reflexivity; exact C.
  Qed.

  Lemma lint_each_char fs ps : forall st, coherent st ->
    let r := lint_each fs st ps in let pp := ppats st in
    dry_rows (fst r) = dry_rows st ++ evid pp fs ps /\ dry_aux (fst r) = dry_aux st ++ evid pp fs ps
    /\ st_ev (fst r) = st_ev st ++ evid pp fs ps /\ snd r = pfout pp fs ps /\ coherent (fst r) /\ ppats (fst r) = pp.
  Proof.
    induction ps as [|p r IH]; intros st C; cbn [OrchHist.lint_each evid pfout flat_map]; cbn zeta.
    - cbn [fst snd]. rewrite !app_nil_r. repeat split; try reflexivity. exact C.
    - pose proof (lint_file1_char fs st p C) as (H1 & H2 & H3 & H4 & H5 & H6).
      destruct (lint_file1 fs st p) as [s1 o1]. cbn [fst snd] in H1, H2, H3, H4, H5, H6.
      pose proof (IH s1 H5) as (K1 & K2 & K3 & K4 & K5 & K6). rewrite H6 in K1, K2, K3, K4, K6.
      destruct (lint_each fs s1 r) as [s2 o2]. cbn [fst snd] in K1, K2, K3, K4, K5, K6 |- *.
      rewrite K1, K2, K3, K4, H1, H2, H3, H4, <- !app_assoc. repeat split; try reflexivity; assumption.
  Qed.

  Lemma evid_app pp fs a b : evid pp fs (a ++ b) = evid pp fs a ++ evid pp fs b.
  Proof. unfold evid. apply flat_map_app. Qed.
  Lemma pfout_app pp fs a b : pfout pp fs (a ++ b) = pfout pp fs a ++ pfout pp fs b.
  Proof. unfold pfout. apply flat_map_app. Qed.

  (* ---------- an entry point, characterised ---------- *)
  Definition after_finalize (q : oquirks) (rows : list fv) (pp : option content) (ic : list (path * bool)) : ostate :=
    Build_ostate (if rows_kept q then rows else []) [] [] pp ic.

  Lemma finalize_char q st :
    finalize q st = (after_finalize q (dry_rows st) (ppats st) (icache st),
                     Build_out [] (rep_blocks (dry_rows st) (dry_aux st)) (rep_consts (consts_view q (dry_aux st))) (rep_st (st_ev st))).
  Proof.
    unfold OrchHist.finalize, after_finalize, rows_kept. rewrite gen_dry_aux_reset, gen_st_clears.
    destruct (smem "_storage" (dry_resets q)); reflexivity.
  Qed.

  Lemma run_entry_finalizing q entry fs st ps : finalizes entry = true -> coherent st ->
    let r := run_entry q entry fs st ps in let pp := ppats st in
    snd r = Build_out (pfout pp fs ps) (rep_blocks (dry_rows st ++ evid pp fs ps) (dry_aux st ++ evid pp fs ps))
                      (rep_consts (consts_view q (dry_aux st ++ evid pp fs ps))) (rep_st (st_ev st ++ evid pp fs ps))
    /\ dry_rows (fst r) = (if rows_kept q then dry_rows st ++ evid pp fs ps else [])
    /\ dry_aux (fst r) = [] /\ st_ev (fst r) = [] /\ coherent (fst r) /\ ppats (fst r) = pp.
  Proof.
    intros F C. unfold OrchHist.run_entry. rewrite F. cbn zeta.
    pose proof (lint_each_char fs ps st C) as (H1 & H2 & H3 & H4 & H5 & H6).
    destruct (lint_each fs st ps) as [s1 pf]. cbn [fst snd] in H1, H2, H3, H4, H5, H6.
    rewrite finalize_char. cbn [fst snd with_pf o_pf o_blocks o_consts o_st after_finalize dry_rows dry_aux st_ev icache ppats].
    rewrite H1, H2, H3, H4. unfold with_pf. cbn [o_pf o_blocks o_consts o_st]. rewrite app_nil_r.
    repeat split; try reflexivity; try exact H6.
    intros p b Hp. cbn [icache ppats] in *. apply (H5 p b Hp).
  Qed.

  Lemma run_entry_plain q entry fs st ps : finalizes entry = false -> coherent st ->
    let r := run_entry q entry fs st ps in let pp := ppats st in
    snd r = Build_out (pfout pp fs ps) [] [] []
    /\ dry_rows (fst r) = dry_rows st ++ evid pp fs ps /\ dry_aux (fst r) = dry_aux st ++ evid pp fs ps
    /\ st_ev (fst r) = st_ev st ++ evid pp fs ps /\ coherent (fst r) /\ ppats (fst r) = pp.
  Proof.
    intros F C. unfold OrchHist.run_entry. rewrite F. cbn zeta.
    pose proof (lint_each_char fs ps st C) as (H1 & H2 & H3 & H4 & H5 & H6).
    destruct (lint_each fs st ps) as [s1 pf]. cbn [fst snd] in *. rewrite H4. repeat split; assumption.
  Qed.

  (* ---------- the file system component ---------- *)
  Lemma step_fs q st fs o : snd (fst (step q (st, fs) o)) = fs_step fs o.
  Proof.
    destruct o as [p|ps|d l|[p|d l]|p c|p|p c|]; cbn [OrchHist.step fs_step].
    - destruct (run_single q "lint_file" fs st p); reflexivity.
    - destruct (run_entry q "lint_files" fs st ps); reflexivity.
    - destruct (run_entry q "lint_directory" fs st _); reflexivity.
    - destruct (fs_get fs p); [|reflexivity]. destruct (run_single q _ fs st p); reflexivity.
    - destruct (run_entry q api_dir_entry fs st _); reflexivity.
    - reflexivity.
    - reflexivity.
    - reflexivity.
    - reflexivity.
  Qed.

  Lemma run_fs q h : forall st fs, snd (fst (run q (st, fs) h)) = fs_after fs h.
  Proof.
    induction h as [|o r IH]; intros st fs; cbn [OrchHist.run fs_after fold_left]; [reflexivity|].
    pose proof (step_fs q st fs o) as Hs.
    destruct (step q (st, fs) o) as [[s1 f1] x]. cbn [fst snd] in Hs. subst f1.
    specialize (IH s1 (fs_step fs o)). destruct (run q (s1, fs_step fs o) r) as [w2 xs]. exact IH.
  Qed.
End Base.
