(* Proofs/OrchHistBase.v — lemmas about the long-lived orchestrator model:
   canonical sorting of evidence, facts read off the generated layer, and the characterisation of the
   per-file loop (what it returns and what evidence it leaves) that every theorem builds on. *)
From Coq Require Import Permutation.
From TL Require Import Lib.Base Lib.GenTypes Gen.OrchHistGen Model.OrchHist.

(* ---------- fv_sort is a canonical form for permutations ---------- *)
Lemma fv_leb_total a b : fv_leb a b = true \/ fv_leb b a = true.
Proof.
  destruct a as [a1 a2], b as [b1 b2]. unfold fv_leb. cbn [fst snd].
  destruct (a1 <? b1) eqn:E1; [now left|].
  destruct (b1 <? a1) eqn:E2; [now right|].
  apply Nat.ltb_ge in E1. apply Nat.ltb_ge in E2.
  assert (a1 = b1) as -> by lia. rewrite Nat.eqb_refl. cbn [orb andb].
  destruct (a2 <=? b2) eqn:E3; [now left|]. right. apply Nat.leb_gt in E3. apply Nat.leb_le. lia.
Qed.

Lemma fv_leb_antisym a b : fv_leb a b = true -> fv_leb b a = true -> a = b.
Proof.
  destruct a as [a1 a2], b as [b1 b2]. unfold fv_leb. cbn [fst snd]. intros H1 H2.
  apply orb_true_iff in H1. apply orb_true_iff in H2.
  destruct H1 as [H1|H1], H2 as [H2|H2];
    repeat match goal with
           | H : (_ <? _) = true |- _ => apply Nat.ltb_lt in H
           | H : (_ && _) = true |- _ => apply andb_true_iff in H; destruct H
           | H : (_ =? _) = true |- _ => apply Nat.eqb_eq in H
           | H : (_ <=? _) = true |- _ => apply Nat.leb_le in H
           end; try lia.
  f_equal; lia.
Qed.

Lemma fv_leb_trans a b c : fv_leb a b = true -> fv_leb b c = true -> fv_leb a c = true.
Proof.
  destruct a as [a1 a2], b as [b1 b2], c as [c1 c2]. unfold fv_leb. cbn [fst snd]. intros H1 H2.
  apply orb_true_iff in H1. apply orb_true_iff in H2. apply orb_true_iff.
  destruct H1 as [H1|H1], H2 as [H2|H2];
    repeat match goal with
           | H : (_ <? _) = true |- _ => apply Nat.ltb_lt in H
           | H : (_ && _) = true |- _ => apply andb_true_iff in H; destruct H
           | H : (_ =? _) = true |- _ => apply Nat.eqb_eq in H
           | H : (_ <=? _) = true |- _ => apply Nat.leb_le in H
           end.
  - left. apply Nat.ltb_lt. lia.
  - left. apply Nat.ltb_lt. lia.
  - left. apply Nat.ltb_lt. lia.
  - right. apply andb_true_iff. split; [apply Nat.eqb_eq|apply Nat.leb_le]; lia.
Qed.

Lemma fv_insert_comm x y l : fv_insert x (fv_insert y l) = fv_insert y (fv_insert x l).
Proof.
  induction l as [|h t IH]; cbn [fv_insert].
  - destruct (fv_leb x y) eqn:Exy, (fv_leb y x) eqn:Eyx; try reflexivity.
    + now rewrite (fv_leb_antisym _ _ Exy Eyx).
    + destruct (fv_leb_total x y); congruence.
  - destruct (fv_leb y h) eqn:Eyh, (fv_leb x h) eqn:Exh; cbn [fv_insert]; rewrite ?Eyh, ?Exh.
    + destruct (fv_leb x y) eqn:Exy, (fv_leb y x) eqn:Eyx; try reflexivity.
      * now rewrite (fv_leb_antisym _ _ Exy Eyx).
      * destruct (fv_leb_total x y); congruence.
    + assert (fv_leb x y = false) as ->.
      { destruct (fv_leb x y) eqn:E; [|reflexivity]. rewrite (fv_leb_trans _ _ _ E Eyh) in Exh. discriminate. }
      reflexivity.
    + assert (fv_leb y x = false) as ->.
      { destruct (fv_leb y x) eqn:E; [|reflexivity]. rewrite (fv_leb_trans _ _ _ E Exh) in Eyh. discriminate. }
      reflexivity.
    + now rewrite IH.
Qed.

Lemma fv_sort_perm_eq l l' : Permutation l l' -> fv_sort l = fv_sort l'.
Proof.
  induction 1 as [|x l l' _ IH|x y l|l l' l'' _ IH1 _ IH2]; cbn [fv_sort].
  - reflexivity.
  - now rewrite IH.
  - apply fv_insert_comm.
  - now rewrite IH1.
Qed.

Lemma fv_insert_perm x l : Permutation (fv_insert x l) (x :: l).
Proof.
  induction l as [|h t IH]; cbn [fv_insert]; [reflexivity|].
  destruct (fv_leb x h); [reflexivity|]. rewrite IH. apply perm_swap.
Qed.

Lemma fv_sort_perm l : Permutation (fv_sort l) l.
Proof.
  induction l as [|x t IH]; cbn [fv_sort]; [reflexivity|]. rewrite fv_insert_perm. now constructor.
Qed.

(* ---------- facts read off the generated layer (break when the source changes shape) ---------- *)
Lemma gen_lint_files_finalizes : finalizes "lint_files" = true. Proof. reflexivity. Qed.
Lemma gen_lint_directory_finalizes : finalizes "lint_directory" = true. Proof. reflexivity. Qed.
Lemma gen_lint_file_no_finalize : finalizes "lint_file" = false. Proof. reflexivity. Qed.
Lemma gen_api_dir_entry : api_dir_entry = "lint_directory". Proof. reflexivity. Qed.
(* the next three hold whether or not the listed defects are still in the source (a fix must not break the proofs) *)
Lemma api_entry_when_off q : q_api_file_no_finalize q = false -> api_file_entry q = "lint_files".
Proof. unfold api_file_entry. intros ->. reflexivity. Qed.
Lemma api_entry_cases q : api_file_entry q = "lint_file" \/ api_file_entry q = "lint_files".
Proof. unfold api_file_entry. destruct (q_api_file_no_finalize q); first [left; reflexivity | right; reflexivity]. Qed.
Lemma gen_dry_aux_reset q : aux_cleared q = true.
Proof. unfold aux_cleared, dry_resets. destruct (q_dry_keeps_storage q); reflexivity. Qed.
Definition rows_kept (q : oquirks) : bool := negb (smem "_storage" (dry_resets q)).
(* facts of the repaired source (fix commits 8b82489, 5ce39e3, f7c62f4): they hold for EVERY quirk vector, i.e. also for the
   vector that reads these tables from the source; reverting a fix breaks them *)
Lemma gen_rows_reset q : rows_kept q = false.
Proof. unfold rows_kept, dry_resets. destruct (q_dry_keeps_storage q); reflexivity. Qed.
Lemma gen_consts_view q l : consts_view q l = fv_sort l.
Proof. unfold consts_view. destruct (q_consts_in_processing_order q); reflexivity. Qed.
Lemma gen_api_file_entry q : api_file_entry q = "lint_files".
Proof. unfold api_file_entry. destruct (q_api_file_no_finalize q); reflexivity. Qed.
Lemma rows_reset_when_off q : q_dry_keeps_storage q = false -> rows_kept q = false.
Proof. unfold rows_kept, dry_resets. intros ->. reflexivity. Qed.
Lemma gen_st_clears : st_clears = true. Proof. reflexivity. Qed.
Lemma gen_cli_entries : cli_files_entry = "lint_files" /\ cli_dirs_entry = "lint_directory". Proof. split; reflexivity. Qed.
Lemma gen_api_recursive : api_dir_recursive = true. Proof. reflexivity. Qed.
Lemma gen_api_rules_filter : api_rules_filter = "FIn". Proof. reflexivity. Qed.
Lemma gen_cache_keys : ignore_cache_key = "str(file_path)" /\ ignore_parser_singleton_key = "effective_root" /\ fp_linter_cache_key = "project_root".
Proof. repeat split; reflexivity. Qed.
Lemma gen_iterates : entry_iterates = [("lint_files", "file_paths"); ("lint_directory", "_collect_files_fast(dir_path, recursive)")].
Proof. reflexivity. Qed.
(* the block report reads its rows ORDER BY file_path, start_line: insertion order cannot matter *)
Lemma gen_dry_sql :
  dry_sql_blocks_by_hash = "SELECT file_path, start_line, end_line, snippet, hash_value FROM code_blocks WHERE hash_value = ? ORDER BY file_path, start_line"
  /\ dry_sql_duplicate_hashes = "SELECT hash_value FROM code_blocks GROUP BY hash_value HAVING COUNT(*) >= 2".
Proof. split; reflexivity. Qed.

Section Base.
  Variable V : Type.
  Variable perfile perfile_fp : path -> option content -> list V.
  Variable rep_blocks : option content -> list fv -> list fv -> list V.
  Variable rep_consts : option content -> list fv -> list V.
  Variable rep_st : list fv -> list V.
  Variable hard_excl : path -> bool.
  Variable ignored : option content -> path -> bool.
  Variable ign_path cfg_path : path.
  Variable in_dir : nat -> path -> bool.

  Notation lint_file1 := (lint_file1 V perfile perfile_fp hard_excl ignored).
  Notation lint_each := (lint_each V perfile perfile_fp hard_excl ignored).
  Notation finalize := (finalize V rep_blocks rep_consts rep_st).
  Notation run_entry := (run_entry V perfile perfile_fp rep_blocks rep_consts rep_st hard_excl ignored).
  Notation run_single := (run_single V perfile perfile_fp rep_blocks rep_consts rep_st hard_excl ignored).
  Notation step := (step V perfile perfile_fp rep_blocks rep_consts rep_st hard_excl ignored ign_path cfg_path in_dir).
  Notation run := (run V perfile perfile_fp rep_blocks rep_consts rep_st hard_excl ignored ign_path cfg_path in_dir).
  Notation mk_init := (mk_init ign_path cfg_path).

  (* the ignore memo table only ever holds correct answers for the patterns the parser loaded *)
  Definition coherent (st : ostate) : Prop := forall p b, passoc p (icache st) = Some b -> b = ignored (ppats st) p.

  Lemma coherent_init pp oc : coherent (init_st pp oc). Proof. intros p b H. discriminate H. Qed.

  Lemma cached_ignored_ok pp ic p : (forall p b, passoc p ic = Some b -> b = ignored pp p) ->
    fst (cached_ignored ignored pp ic p) = ignored pp p
    /\ (forall p' b, passoc p' (snd (cached_ignored ignored pp ic p)) = Some b -> b = ignored pp p').
  Proof.
    intros C. unfold cached_ignored. destruct (passoc p ic) eqn:E; cbn [fst snd].
    - split; [now apply C|exact C].
    - split; [reflexivity|]. intros p' b'. cbn [passoc]. destruct (p' =? p) eqn:Ep.
      + apply Nat.eqb_eq in Ep. subst p'. intros H. now inversion H.
      + apply C.
  Qed.

  (* a file is looked at by the rules iff no guard of lint_file rejects it *)
  Definition accepted (pp : option content) (p : path) : bool :=
    negb (smem "_is_hardcoded_excluded" lint_file_guards && hard_excl p)
    && negb (smem "is_ignored" lint_file_guards && ignored pp p).

  (* pp: patterns of the parser; k: configuration the object holds; kf: configuration the file-placement rule uses *)
  Definition evid1 (pp k : option content) (fs : fsys) (p : path) : list fv :=
    if accepted pp p then match fs_get fs p with Some c => [(p, enc c k)] | None => [] end else [].
  Definition pf1 (pp k kf : option content) (fs : fsys) (p : path) : list V :=
    if accepted pp p
    then match fs_get fs p with
         | Some c => perfile p (Some (enc c k)) ++ perfile_fp p (Some (enc c kf))
         | None => perfile p (Some (absent_ver k)) ++ perfile_fp p (Some (absent_ver kf))
         end
    else [].
  Definition evid (pp k : option content) (fs : fsys) (ps : list path) : list fv := flat_map (evid1 pp k fs) ps.
  Definition pfout (pp k kf : option content) (fs : fsys) (ps : list path) : list V := flat_map (pf1 pp k kf fs) ps.

  (* what does not change while files are linted *)
  Definition same_frame (q : oquirks) (a b : ostate) : Prop :=
    ppats b = ppats a /\ ocfg b = ocfg a /\ fp_view q b = fp_view q a /\ dry_view q b = dry_view q a.

  Lemma same_frame_refl q a : same_frame q a a. Proof. repeat split. Qed.
  Lemma same_frame_trans q a b c : same_frame q a b -> same_frame q b c -> same_frame q a c.
  Proof. intros (A1 & A2 & A3 & A4) (B1 & B2 & B3 & B4). repeat split; congruence. Qed.

  Lemma view_first_seen s f cur : view s (first_seen f cur) cur = view s f cur.
  Proof. unfold view, first_seen. destruct s, f; reflexivity. Qed.

  Lemma checked_frame q st rows aux sev ic : same_frame q st (checked st rows aux sev ic).
  Proof.
    unfold same_frame, fp_view, dry_view, checked. cbn [ppats ocfg fp_cfg0 dry_cfg0].
    rewrite !view_first_seen. repeat split.
  Qed.

  Lemma lint_file1_char q fs st p : coherent st ->
    let r := lint_file1 q fs st p in let pp := ppats st in let k := ocfg st in
    dry_rows (fst r) = dry_rows st ++ evid1 pp k fs p /\ dry_aux (fst r) = dry_aux st ++ evid1 pp k fs p
    /\ st_ev (fst r) = st_ev st ++ evid1 pp k fs p /\ snd r = pf1 pp k (fp_view q st) fs p /\ coherent (fst r) /\ same_frame q st (fst r).
  Proof.
    intros C. unfold lint_file1, evid1, pf1, accepted. cbn zeta.
    destruct (smem "_is_hardcoded_excluded" lint_file_guards && hard_excl p) eqn:E1; cbn [negb andb fst snd].
    { rewrite !app_nil_r. repeat split; try reflexivity. exact C. }
    destruct (smem "is_ignored" lint_file_guards) eqn:G2; cbn [andb].
    - pose proof (cached_ignored_ok (ppats st) (icache st) p C) as [Hf Hc].
      destruct (cached_ignored ignored (ppats st) (icache st) p) as [ig ic]. cbn [fst snd] in Hf, Hc. subst ig.
      destruct (ignored (ppats st) p); cbn [negb].
      + cbn [fst snd set_icache dry_rows dry_aux st_ev icache ppats]. rewrite !app_nil_r.
        split; [reflexivity|]. split; [reflexivity|]. split; [reflexivity|]. split; [reflexivity|]. split; [exact Hc|repeat split].
      + destruct (fs_get fs p); cbn [fst snd checked dry_rows dry_aux st_ev icache ppats]; rewrite ?app_nil_r;
          (split; [reflexivity|]); (split; [reflexivity|]); (split; [reflexivity|]); (split; [reflexivity|]); (split; [exact Hc|apply checked_frame]).
    - cbn [negb]. destruct (fs_get fs p); cbn [fst snd checked dry_rows dry_aux st_ev icache ppats]; rewrite ?app_nil_r;
        (split; [reflexivity|]); (split; [reflexivity|]); (split; [reflexivity|]); (split; [reflexivity|]); (split; [exact C|apply checked_frame]).
  Qed.

  Lemma lint_each_char q fs ps : forall st, coherent st ->
    let r := lint_each q fs st ps in let pp := ppats st in let k := ocfg st in
    dry_rows (fst r) = dry_rows st ++ evid pp k fs ps /\ dry_aux (fst r) = dry_aux st ++ evid pp k fs ps
    /\ st_ev (fst r) = st_ev st ++ evid pp k fs ps /\ snd r = pfout pp k (fp_view q st) fs ps /\ coherent (fst r) /\ same_frame q st (fst r).
  Proof.
    induction ps as [|p r IH]; intros st C; cbn [OrchHist.lint_each evid pfout flat_map]; cbn zeta.
    - cbn [fst snd]. rewrite !app_nil_r. repeat split; try reflexivity. exact C.
    - pose proof (lint_file1_char q fs st p C) as (H1 & H2 & H3 & H4 & H5 & H6).
      destruct (lint_file1 q fs st p) as [s1 o1]. cbn [fst snd] in H1, H2, H3, H4, H5, H6.
      pose proof (IH s1 H5) as (K1 & K2 & K3 & K4 & K5 & K6). cbn zeta in *.
      destruct H6 as (F1 & F2 & F3 & F4). rewrite F1, F2 in K1, K2, K3. rewrite F1, F2, F3 in K4.
      destruct (lint_each q fs s1 r) as [s2 o2]. cbn [fst snd] in K1, K2, K3, K4, K5, K6 |- *.
      rewrite K1, K2, K3, K4, H1, H2, H3, H4, <- !app_assoc.
      split; [reflexivity|]. split; [reflexivity|]. split; [reflexivity|]. split; [reflexivity|]. split; [exact K5|].
      apply (same_frame_trans q st s1 s2); [repeat split; assumption|exact K6].
  Qed.

  (* the first-configuration memories of DRYRule / FilePlacementRule after a per-file loop *)
  Definition any_checked (pp : option content) (ps : list path) : bool := existsb (accepted pp) ps.
  Definition cfg0_after (pp : option content) (ps : list path) (f : option (option content)) (cur : option content) :=
    if any_checked pp ps then first_seen f cur else f.

  Lemma first_seen_idem f cur : first_seen (first_seen f cur) cur = first_seen f cur.
  Proof. destruct f; reflexivity. Qed.

  Lemma lint_file1_cfg0 q fs st p : coherent st ->
    let r := lint_file1 q fs st p in
    dry_cfg0 (fst r) = cfg0_after (ppats st) [p] (dry_cfg0 st) (ocfg st)
    /\ fp_cfg0 (fst r) = cfg0_after (ppats st) [p] (fp_cfg0 st) (ocfg st).
  Proof.
    intros C. unfold lint_file1, cfg0_after, any_checked, accepted. cbn [existsb]. rewrite orb_false_r. cbn zeta.
    destruct (smem "_is_hardcoded_excluded" lint_file_guards && hard_excl p) eqn:E1; cbn [negb andb fst snd]; [split; reflexivity|].
    destruct (smem "is_ignored" lint_file_guards) eqn:G2; cbn [andb].
    - pose proof (cached_ignored_ok (ppats st) (icache st) p C) as [Hf Hc].
      destruct (cached_ignored ignored (ppats st) (icache st) p) as [ig ic]. cbn [fst snd] in Hf, Hc. subst ig.
      destruct (ignored (ppats st) p); cbn [negb]; [split; reflexivity|].
      destruct (fs_get fs p); cbn [fst snd checked dry_cfg0 fp_cfg0]; split; reflexivity.
    - cbn [negb]. destruct (fs_get fs p); cbn [fst snd checked dry_cfg0 fp_cfg0]; split; reflexivity.
  Qed.

  Lemma lint_each_cfg0 q fs ps : forall st, coherent st ->
    let r := lint_each q fs st ps in
    dry_cfg0 (fst r) = cfg0_after (ppats st) ps (dry_cfg0 st) (ocfg st)
    /\ fp_cfg0 (fst r) = cfg0_after (ppats st) ps (fp_cfg0 st) (ocfg st).
  Proof.
    induction ps as [|p r IH]; intros st C; cbn [OrchHist.lint_each]; cbn zeta; [split; reflexivity|].
    pose proof (lint_file1_char q fs st p C) as (_ & _ & _ & _ & H5 & (F1 & F2 & _)).
    pose proof (lint_file1_cfg0 q fs st p C) as (D1 & D2).
    destruct (lint_file1 q fs st p) as [s1 o1]. cbn [fst snd] in *.
    pose proof (IH s1 H5) as (K1 & K2). destruct (lint_each q fs s1 r) as [s2 o2]. cbn [fst snd] in *.
    rewrite K1, K2, D1, D2, F1, F2. unfold cfg0_after, any_checked. cbn [existsb]. rewrite orb_false_r.
    destruct (accepted (ppats st) p); cbn [orb]; [|split; reflexivity].
    destruct (existsb (accepted (ppats st)) r); rewrite ?first_seen_idem; split; reflexivity.
  Qed.

  Lemma run_entry_cfg0 q entry fs st ps : coherent st ->
    let r := run_entry q entry fs st ps in
    dry_cfg0 (fst r) = cfg0_after (ppats st) ps (dry_cfg0 st) (ocfg st)
    /\ fp_cfg0 (fst r) = cfg0_after (ppats st) ps (fp_cfg0 st) (ocfg st).
  Proof.
    intros C. unfold OrchHist.run_entry. cbn zeta.
    pose proof (lint_each_cfg0 q fs ps st C) as (K1 & K2).
    destruct (lint_each q fs st ps) as [s1 pf]. cbn [fst snd] in *.
    destruct (finalizes entry); [|split; assumption].
    unfold OrchHist.finalize. cbn [fst dry_cfg0 fp_cfg0]. split; assumption.
  Qed.

  (* ---------- an entry point, characterised ---------- *)
  Lemma finalize_frame q st : same_frame q st (fst (finalize q st)) /\ icache (fst (finalize q st)) = icache st.
  Proof. unfold OrchHist.finalize, same_frame, fp_view, dry_view. cbn [fst ppats ocfg fp_cfg0 dry_cfg0 icache]. repeat split. Qed.

  Lemma finalize_char q st :
    let r := finalize q st in
    snd r = Build_out [] (rep_blocks (dry_view q st) (dry_rows st) (dry_aux st)) (rep_consts (dry_view q st) (consts_view q (dry_aux st))) (rep_st (st_ev st))
    /\ dry_rows (fst r) = (if rows_kept q then dry_rows st else []) /\ dry_aux (fst r) = [] /\ st_ev (fst r) = [].
  Proof.
    unfold OrchHist.finalize, rows_kept. cbn [fst snd dry_rows dry_aux st_ev]. rewrite gen_dry_aux_reset, gen_st_clears.
    destruct (smem "_storage" (dry_resets q)); repeat split.
  Qed.

  Lemma run_entry_finalizing q entry fs st ps : finalizes entry = true -> coherent st ->
    let r := run_entry q entry fs st ps in let pp := ppats st in let k := ocfg st in
    snd r = Build_out (pfout pp k (fp_view q st) fs ps)
                      (rep_blocks (dry_view q st) (dry_rows st ++ evid pp k fs ps) (dry_aux st ++ evid pp k fs ps))
                      (rep_consts (dry_view q st) (consts_view q (dry_aux st ++ evid pp k fs ps))) (rep_st (st_ev st ++ evid pp k fs ps))
    /\ dry_rows (fst r) = (if rows_kept q then dry_rows st ++ evid pp k fs ps else [])
    /\ dry_aux (fst r) = [] /\ st_ev (fst r) = [] /\ coherent (fst r) /\ same_frame q st (fst r).
  Proof.
    intros F C. unfold OrchHist.run_entry. rewrite F. cbn zeta.
    pose proof (lint_each_char q fs ps st C) as (H1 & H2 & H3 & H4 & H5 & H6).
    destruct (lint_each q fs st ps) as [s1 pf]. cbn [fst snd] in H1, H2, H3, H4, H5, H6. cbn zeta in *.
    pose proof (finalize_char q s1) as (E1 & E2 & E3 & E4). pose proof (finalize_frame q s1) as (G1 & G2).
    destruct (finalize q s1) as [s2 o]. cbn [fst snd] in *. subst o.
    destruct H6 as (F1 & F2 & F3 & F4).
    unfold with_pf. cbn [o_pf o_blocks o_consts o_st]. rewrite app_nil_r, E2, E3, E4, H1, H2, H3, H4, F4.
    split; [reflexivity|]. split; [reflexivity|]. split; [reflexivity|]. split; [reflexivity|].
    split.
    - intros x b Hx. rewrite G2 in Hx. destruct G1 as (G1 & _). rewrite G1. apply (H5 x b Hx).
    - apply (same_frame_trans q st s1 s2); [repeat split; assumption|exact G1].
  Qed.

  Lemma run_entry_plain q entry fs st ps : finalizes entry = false -> coherent st ->
    let r := run_entry q entry fs st ps in let pp := ppats st in let k := ocfg st in
    snd r = Build_out (pfout pp k (fp_view q st) fs ps) [] [] []
    /\ dry_rows (fst r) = dry_rows st ++ evid pp k fs ps /\ dry_aux (fst r) = dry_aux st ++ evid pp k fs ps
    /\ st_ev (fst r) = st_ev st ++ evid pp k fs ps /\ coherent (fst r) /\ same_frame q st (fst r).
  Proof.
    intros F C. unfold OrchHist.run_entry. rewrite F. cbn zeta.
    pose proof (lint_each_char q fs ps st C) as (H1 & H2 & H3 & H4 & H5 & H6).
    destruct (lint_each q fs st ps) as [s1 pf]. cbn [fst snd] in *. rewrite H4. repeat split; try assumption; apply H6.
  Qed.

  (* ---------- the file system component ---------- *)
  Lemma step_fs q st fs o : snd (fst (step q (st, fs) o)) = fs_step fs o.
  Proof.
    destruct o as [p|ps|d l|[p|d l]|p c|p|p c| |]; cbn [OrchHist.step fs_step].
    - destruct (run_single q "lint_file" fs st p); reflexivity.
    - destruct (run_entry q "lint_files" fs st ps); reflexivity.
    - destruct (run_entry q "lint_directory" fs st _); reflexivity.
    - destruct (fs_get fs p); [|reflexivity]. destruct (run_single q _ fs st p); reflexivity.
    - destruct (run_entry q api_dir_entry fs st _); reflexivity.
    - reflexivity.
    - reflexivity.
    - reflexivity.
    - reflexivity.
    - reflexivity.
  Qed.

  Lemma run_fs q h : forall st fs, snd (fst (run q (st, fs) h)) = fs_after fs h.
  Proof.
    induction h as [|o r IH]; intros st fs; cbn [OrchHist.run fs_after fold_left]; [reflexivity|].
    pose proof (step_fs q st fs o) as Hs.
    destruct (step q (st, fs) o) as [[s1 f1] x]. cbn [fst snd] in Hs. subst f1.
    specialize (IH s1 (fs_step fs o)). destruct (run q (s1, fs_step fs o) r) as [w2 xs]. exact IH.
  Qed.
End Base.
