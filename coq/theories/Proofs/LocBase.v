(* Proofs/LocBase.v — C12: the location theory (line_ok / col_ok, text <-> line list), the
   conversions read from the source, and the main theorems about the builder model. *)
From TL Require Import Lib.Base Lib.GenTypes Model.LocTypes Gen.LocGen Model.Loc.

(* ------------------------------------------------------------------ line_ok / col_ok *)
Lemma line_ok_spec f line : line_ok f line = true <-> 1 <= line <= nlines f.
Proof.
  unfold line_ok. rewrite Bool.andb_true_iff, !Nat.leb_le. tauto.
Qed.

Lemma col_ok_spec f line col : col_ok f line col = true <-> col <= String.length (line_text f line).
Proof. unfold col_ok. apply Nat.leb_le. Qed.

Lemma line_text_row f row : line_text f (row + 1) = nth row f "".
Proof. unfold line_text. now replace (row + 1 - 1) with row by lia. Qed.

(* a reported line that is in range names an element of the line list *)
Lemma line_ok_nth f line : line_ok f line = true -> nth_error f (line - 1) = Some (line_text f line).
Proof.
  intros H. apply line_ok_spec in H. unfold line_text, nlines in *.
  apply nth_error_nth'. lia.
Qed.

(* ------------------------------------------------------------------ text <-> line list *)
Lemma append_nil_r (s : string) : (s ++ "")%string = s.
Proof. induction s as [|c s IH]; cbn [String.append]; [reflexivity|now rewrite IH]. Qed.

Lemma append_assoc (a b c : string) : ((a ++ b) ++ c)%string = (a ++ (b ++ c))%string.
Proof. induction a as [|x a IH]; cbn [String.append]; [reflexivity|now rewrite IH]. Qed.

Lemma lines_acc_line : forall l acc rest, lf_free l = true ->
  lines_acc acc (l ++ String lf rest) = (acc ++ l)%string :: lines_acc EmptyString rest.
Proof.
  induction l as [|c l IH]; intros acc rest H.
  - cbn [String.append lines_acc]. rewrite Ascii.eqb_refl. now rewrite append_nil_r.
  - cbn [lf_free] in H. apply Bool.andb_true_iff in H. destruct H as [Hc Hl].
    cbn [String.append lines_acc]. apply Bool.negb_true_iff in Hc. rewrite Hc.
    rewrite (IH _ rest Hl). rewrite append_assoc. reflexivity.
Qed.

(* splitting the rendered text gives back the rendered lines: the line number the renderer counted
   is the line number of the text *)
Theorem lines_of_text_of : forall ls, forallb lf_free ls = true -> lines_of (text_of ls) = ls.
Proof.
  unfold lines_of. induction ls as [|l r IH]; intros H; [reflexivity|].
  cbn [forallb] in H. apply Bool.andb_true_iff in H. destruct H as [Hl Hr].
  cbn [text_of]. rewrite (lines_acc_line l EmptyString (text_of r) Hl). cbn [String.append]. now rewrite IH.
Qed.

(* the same text without the final newline has the same lines, provided the last line is not empty *)
Lemma lines_acc_last : forall l acc, lf_free l = true -> (acc ++ l)%string <> EmptyString ->
  lines_acc acc l = [(acc ++ l)%string].
Proof.
  induction l as [|c l IH]; intros acc H Hne.
  - cbn [lines_acc]. rewrite append_nil_r in *. destruct acc; [congruence|reflexivity].
  - cbn [lf_free] in H. apply Bool.andb_true_iff in H. destruct H as [Hc Hl].
    cbn [lines_acc]. apply Bool.negb_true_iff in Hc. rewrite Hc.
    rewrite (IH _ Hl).
    + now rewrite append_assoc.
    + rewrite append_assoc. exact Hne.
Qed.

Fixpoint text_no_final (ls : list string) : string :=
  match ls with
  | [] => EmptyString
  | [l] => l
  | l :: r => (l ++ String lf (text_no_final r))%string
  end.

Theorem lines_of_no_final_newline : forall ls, forallb lf_free ls = true -> last ls "x" <> EmptyString ->
  lines_of (text_no_final ls) = ls.
Proof.
  unfold lines_of. induction ls as [|l r IH]; intros H Hlast; [reflexivity|].
  cbn [forallb] in H. apply Bool.andb_true_iff in H. destruct H as [Hl Hr].
  destruct r as [|l2 r'].
  - cbn [text_no_final last] in *. now apply (lines_acc_last l EmptyString Hl).
  - change (text_no_final (l :: l2 :: r')) with (l ++ String lf (text_no_final (l2 :: r')))%string.
    rewrite (lines_acc_line l EmptyString _ Hl). cbn [String.append]. f_equal. apply IH; [exact Hr|exact Hlast].
Qed.

(* ------------------------------------------------------------------ conversions *)
(* whenever the parser-position oracle (0-based row) is within the file, a converting builder
   reports the 1-based line of that row, and the line exists *)
Theorem conv_line_ok e f row0 : conv_ok e = true -> row0 < nlines f ->
  eval_line e row0 = row0 + 1 /\ line_ok f (eval_line e row0) = true.
Proof.
  intros Hc Hr. assert (E : eval_line e row0 = row0 + 1).
  { destruct e as [off|off|n]; cbn [conv_ok eval_line] in *; try discriminate; apply Nat.eqb_eq in Hc; lia. }
  split; [exact E|]. rewrite E. apply line_ok_spec. lia.
Qed.

(* the 1-based line of a 1-based parser (ast: lineno) and of a 0-based parser (tree-sitter: row) *)
Corollary conv_base1 f lineno : 1 <= lineno <= nlines f -> line_ok f (eval_line (LBase1 0) (lineno - 1)) = true
  /\ eval_line (LBase1 0) (lineno - 1) = lineno.
Proof.
  intros H. destruct (conv_line_ok (LBase1 0) f (lineno - 1) eq_refl ltac:(lia)) as [E L].
  split; [exact L|]. rewrite E. lia.
Qed.
Corollary conv_base0 f row : row < nlines f -> line_ok f (eval_line (LBase0 1) row) = true
  /\ 1 <= eval_line (LBase0 1) row <= nlines f.
Proof.
  intros H. destruct (conv_line_ok (LBase0 1) f row eq_refl H) as [E L]. split; [exact L|]. now apply line_ok_spec.
Qed.

(* a conversion that is off by one in either direction leaves the file for some row *)
Theorem conv_off_by_one_escapes e : is_const_line e = false -> conv_ok e = false ->
  exists f row0, row0 < nlines f /\ (line_ok f (eval_line e row0) = false \/ eval_line e row0 <> row0 + 1).
Proof.
  intros Hk Hc. exists ["a"], 0. split; [cbn; lia|]. right.
  destruct e as [off|off|n]; cbn [conv_ok eval_line is_const_line] in *; try discriminate; apply Nat.eqb_neq in Hc; lia.
Qed.

(* ---- generated facts: every modelled builder converts, or is a file-level constant; columns are passed on *)
Definition builder_row_ok (b : string * lexpr * cexpr) : bool :=
  let '(_, le, ce) := b in (conv_ok le || is_const_line le) && col_plain ce.

Lemma builders_ok : forallb builder_row_ok loc_builders = true.
Proof. vm_compute. reflexivity. Qed.

Lemma lookup3_in k l le ce : lookup3 k l = Some (le, ce) -> In (k, le, ce) l.
Proof.
  induction l as [|[[k' a] b] r IH]; cbn [lookup3]; [discriminate|].
  destruct (String.eqb_spec k k') as [->|_]; [intros [= -> ->]; now left|intros H; right; now apply IH].
Qed.

Lemma builder_facts b le ce : builder b = Some (le, ce) -> (conv_ok le = true \/ is_const_line le = true) /\ col_plain ce = true.
Proof.
  intros H. apply lookup3_in in H.
  pose proof (proj1 (forallb_forall _ _) builders_ok _ H) as F. cbn in F.
  apply Bool.andb_true_iff in F. destruct F as [F1 F2]. apply Bool.orb_true_iff in F1. tauto.
Qed.

(* the builders named in the property exist, convert, and pass the column on (or report a constant) *)
Definition named : list string :=
  ["nesting.py"; "nesting.ts"; "nesting.rs"; "magic.py"; "magic.ts"; "magic.rs"; "srp.py"; "srp.ts"; "srp.rs";
   "unwrap"; "clone"; "blocking"; "dry"; "dry.constant.py"; "dry.constant.ts"; "print.py"; "print.ts"; "stateless"; "cqs.py"; "cqs.ts"].
Lemma named_builders :
  forallb (fun b => match builder b with Some (le, ce) => conv_ok le && col_plain ce | None => false end) named = true.
Proof. vm_compute. reflexivity. Qed.
Lemma named_builder_converts b : In b named -> exists le ce, builder b = Some (le, ce) /\ conv_ok le = true /\ col_plain ce = true.
Proof.
  intros H. pose proof (proj1 (forallb_forall _ _) named_builders b H) as F. cbn beta in F.
  destruct (builder b) as [[le ce]|]; [|discriminate]. apply Bool.andb_true_iff in F. exists le, ce. tauto.
Qed.

(* ---- census: every use of a tree-sitter row that can reach a violation is `+ 1`; `lineno` and columns are
        never shifted on their way to a violation *)
Lemma row_sites_ok : forallb row_use_ok loc_row_sites = true.
Proof. vm_compute. reflexivity. Qed.
Lemma lineno_sites_ok : forallb lineno_use_ok loc_lineno_sites = true.
Proof. vm_compute. reflexivity. Qed.
Lemma col_sites_ok : forallb col_use_ok loc_col_sites = true.
Proof. vm_compute. reflexivity. Qed.

Theorem row_census s : In s loc_row_sites -> snd s = UPlus 1 \/ In (fst s) raw_row_allowed.
Proof.
  intros H. pose proof (proj1 (forallb_forall _ _) row_sites_ok _ H) as F. unfold row_use_ok in F.
  destruct (snd s) as [|k|k|] eqn:E.
  - right. now apply smem_In.
  - left. apply Nat.eqb_eq in F. now subst.
  - right. now apply smem_In.
  - right. now apply smem_In.
Qed.

(* ---- SARIF: startLine = line, startColumn = column + 1 *)
Lemma sarif_region_fact : sarif_region = (0, 1).
Proof. reflexivity. Qed.

Theorem sarif_region_ok f line col : line_ok f line = true -> col_ok f line col = true ->
  sarif_line line = line /\ 1 <= sarif_col col <= String.length (line_text f line) + 1.
Proof.
  intros _ Hc. apply col_ok_spec in Hc. unfold sarif_line, sarif_col. rewrite sarif_region_fact. cbn [fst snd]. lia.
Qed.

(* ------------------------------------------------------------------ the builder model *)
Ltac split_ifs := repeat match goal with |- context [if ?x then _ else _] => destruct x end; reflexivity.

Lemma use_node_off q b :
  q_rs_chain_start q = false -> q_ts_arrow_node_start q = false -> q_ts_console_chain_start q = false ->
  q_fh_header_relative q = false -> use_node q b = false.
Proof. intros H1 H2 H3 H4. unfold use_node. rewrite H1, H2, H3, H4. split_ifs. Qed.

Lemma use_node_ideal b : use_node loc_ideal b = false.
Proof. now apply use_node_off. Qed.

Lemma min_le_r a b : Nat.min a b <= b.
Proof. lia. Qed.

(* shared core: when the model works from the header position, a well-formed construct gets a location that
   satisfies the property, provided a constant column fits (or is clamped) *)
Lemma model_from_header q f c :
  node_row q c = k_hrow c -> node_col q c = k_hcol c -> wf_construct f c = true ->
  (q_col_const_unclamped q = true -> const_col_fits f c = true) ->
  loc_ok f c (model_line q c) (model_col q f c) = true.
Proof.
  intros Hnr Hnc Hwf Hfit.
  unfold wf_construct in Hwf. apply Bool.andb_true_iff in Hwf. destruct Hwf as [Hwf Hb].
  apply Bool.andb_true_iff in Hwf. destruct Hwf as [Hrow Hcol].
  apply Nat.ltb_lt in Hrow. apply Nat.leb_le in Hcol.
  unfold model_col, model_line, const_col_fits in *. rewrite Hnr, Hnc.
  destruct (builder (k_builder c)) as [[le ce]|] eqn:EB; [|discriminate].
  destruct (builder_facts _ _ _ EB) as [Hle Hce].
  assert (EL : eval_line le (k_hrow c) = k_hrow c + 1).
  { destruct Hle as [Hle|Hle].
    - now destruct (conv_line_ok le f (k_hrow c) Hle Hrow).
    - destruct le as [o|o|n]; cbn [is_const_line] in Hle; try discriminate. cbn [eval_line]. apply Nat.eqb_eq in Hb. lia. }
  unfold loc_ok. rewrite EL, Nat.eqb_refl. cbn [andb].
  assert (LO : line_ok f (k_hrow c + 1) = true) by (apply line_ok_spec; lia).
  rewrite LO. cbn [andb]. apply col_ok_spec. rewrite line_text_row.
  destruct ce as [off|n].
  - cbn [col_plain] in Hce. apply Nat.eqb_eq in Hce. subst off. cbn [eval_col]. lia.
  - destruct (q_col_const_unclamped q) eqn:EQ.
    + specialize (Hfit eq_refl). now apply Nat.leb_le in Hfit.
    + apply min_le_r.
Qed.

(* MAIN (all flags off): for every file, every construct whose recorded header position lies within the
   file, whatever its builder: the model reports the construct's own line, the line exists, the column lies
   within that line. *)
Theorem model_ideal_ok q f c :
  q_rs_chain_start q = false -> q_ts_arrow_node_start q = false -> q_ts_console_chain_start q = false ->
  q_fh_header_relative q = false -> q_col_const_unclamped q = false ->
  wf_construct f c = true -> loc_ok f c (model_line q c) (model_col q f c) = true.
Proof.
  intros H1 H2 H3 H4 H5 Hwf.
  assert (U : use_node q (k_builder c) = false) by now apply use_node_off.
  apply model_from_header; [unfold node_row; now rewrite U|unfold node_col; now rewrite U|exact Hwf|rewrite H5; discriminate].
Qed.

(* CONFINEMENT (any quirk vector, in particular the one claimed for the current tree): the property holds for
   every construct that has no separate node start (no decorator, no multi-line receiver chain, header text
   starting on line 1) and on whose line a constant column fits. *)
Theorem model_actual_partial q f c :
  wf_construct f c = true -> plain_construct c = true -> const_col_fits f c = true ->
  loc_ok f c (model_line q c) (model_col q f c) = true.
Proof.
  intros Hwf Hp Hfit. unfold plain_construct in Hp. apply Bool.andb_true_iff in Hp. destruct Hp as [Hr Hc].
  apply Nat.eqb_eq in Hr. apply Nat.eqb_eq in Hc.
  apply model_from_header; [| |exact Hwf|intros _; exact Hfit].
  - unfold node_row. now destruct (use_node q (k_builder c)).
  - unfold node_col. now destruct (use_node q (k_builder c)).
Qed.

(* builders no flag refers to (nesting and CQS in Python, nesting in Rust, magic numbers, SRP in every language - TypeScript since 147bf8d -, blocking-async,
   Python print, stateless-class, file-placement with column 0): the property holds for the FAITHFUL model, whatever the
   quirk vector, for every well-formed construct whose builder reports the node column or the constant 0 *)
Definition flag_free (b : string) : bool :=
  negb (String.eqb b "unwrap" || String.eqb b "clone" || String.eqb b "nesting.ts" || String.eqb b "cqs.ts" || String.eqb b "print.ts" || String.eqb b "file-header.atemporal").
Theorem model_flag_free_exact q f c :
  flag_free (k_builder c) = true -> wf_construct f c = true -> const_col_fits f c = true ->
  loc_ok f c (model_line q c) (model_col q f c) = true.
Proof.
  intros Hf Hwf Hfit.
  assert (U : use_node q (k_builder c) = false).
  { unfold flag_free in Hf. apply Bool.negb_true_iff in Hf. unfold use_node.
    destruct (String.eqb (k_builder c) "unwrap"), (String.eqb (k_builder c) "clone"), (String.eqb (k_builder c) "nesting.ts"), (String.eqb (k_builder c) "cqs.ts"), (String.eqb (k_builder c) "print.ts"),
             (String.eqb (k_builder c) "file-header.atemporal"); cbn in Hf; try discriminate; reflexivity. }
  apply model_from_header; [unfold node_row; now rewrite U|unfold node_col; now rewrite U|exact Hwf|intros _; exact Hfit].
Qed.

(* what loc_ok gives: the three clauses of the property *)
Theorem loc_ok_means f c line col : loc_ok f c line col = true ->
  line = k_hrow c + 1 /\ 1 <= line <= nlines f /\ col <= String.length (line_text f line).
Proof.
  unfold loc_ok. rewrite !Bool.andb_true_iff, Nat.eqb_eq, line_ok_spec, col_ok_spec. tauto.
Qed.
