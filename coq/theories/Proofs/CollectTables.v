(* Proofs/CollectTables.v — the facts the C14 proofs consume from the generated layer Gen/CollectGen.v
   (all closed by computation: editing a table, an operator or a literal in
   src/orchestrator/core.py, src/linter_config/ignore.py or pattern_utils.py breaks one of them). *)
From TL Require Import Lib.Base Model.CollectStr Model.Glob Gen.CollectGen Model.Collect Model.CollectSpec Proofs.CollectStrFacts.

Lemma subset_In l1 l2 : forallb (fun x => smem x l2) l1 = true -> forall x, In x l1 -> In x l2.
Proof. intros H x Hx. rewrite forallb_forall in H. apply smem_In. now apply H. Qed.

Lemma smem_same l1 l2 :
  forallb (fun x => smem x l2) l1 = true -> forallb (fun x => smem x l1) l2 = true -> forall s, smem s l1 = smem s l2.
Proof.
  intros H1 H2 s. apply bool_ext. rewrite !smem_In. split; [apply (subset_In _ _ H1)|apply (subset_In _ _ H2)].
Qed.

(* the code's always-excluded directory names are exactly the ones the property lists *)
Lemma excluded_dirs_table n : smem n excluded_dirs = smem n spec_excluded_dirs.
Proof. apply smem_same; vm_compute; reflexivity. Qed.

(* the code's compiled-artefact suffixes *)
Lemma excluded_exts_table n : smem n excluded_exts = smem n spec_compiled_exts.
Proof. apply smem_same; vm_compute; reflexivity. Qed.

Lemma hx_part_cond_spec n : hx_part_cond n = spec_excluded_dir n.
Proof. unfold hx_part_cond, spec_excluded_dir. now rewrite excluded_dirs_table. Qed.

Lemma should_include_dir_spec n : should_include_dir n = negb (spec_excluded_dir n).
Proof. unfold should_include_dir, spec_excluded_dir. rewrite excluded_dirs_table. now rewrite negb_orb. Qed.

Lemma walk_prune_spec n : walk_prune_cond n = negb (spec_excluded_dir n).
Proof. unfold walk_prune_cond. apply should_include_dir_spec. Qed.

Lemma walk_keeps_spec f : walk_keeps_file f = negb (spec_compiled f).
Proof. unfold walk_keeps_file, spec_compiled. now rewrite excluded_exts_table. Qed.

Lemma hx_suffix_spec p : hx_suffix_cond p = spec_compiled (last p "").
Proof. unfold hx_suffix_cond, spec_compiled, parts_suffix. now rewrite excluded_exts_table. Qed.

(* since 27377de the directory-name test ranges over the components before the file name *)
Lemma is_hardcoded_excluded_shape p : is_hardcoded_excluded p = hx_suffix_cond p || existsb hx_part_cond (removelast p).
Proof.
  unfold is_hardcoded_excluded, hx_suffix_cond. destruct (smem (parts_suffix p) excluded_exts); [reflexivity|].
  cbn [orb]. change (fun part : string => smem part excluded_dirs || ends_with part ".egg-info") with hx_part_cond.
  now destruct (existsb hx_part_cond (removelast p)).
Qed.

Lemma walk_breaks_spec r : walk_breaks r = negb r.
Proof. reflexivity. Qed.

(* both directory entry points pass their `recursive` argument on to _collect_files_fast *)
Lemma seq_collect_recursive_spec r : seq_collect_recursive r = r.
Proof. reflexivity. Qed.

Lemma par_collect_recursive_spec r : par_collect_recursive r = r.
Proof. reflexivity. Qed.

Lemma lint_gates_spec : lint_gates = [GHard; GIgnored].
Proof. reflexivity. Qed.

Lemma is_ignored_core_spec mp path pats : is_ignored_core mp path pats = existsb (mp path) pats.
Proof. reflexivity. Qed.

(* since 9c8f928: a pattern that starts with "**/" is also tried without that prefix (recursive call),
   a directory pattern is tested against the directory components and matched as a whole component prefix *)
Lemma matches_pattern_gen_spec self f d path pat :
  matches_pattern_gen self f d path pat
  = (starts_with pat "**/" && self path (sdrop 3 pat))
    || (if ends_with pat "/" then d path pat else f path pat || f (path_norm path) pat).
Proof. unfold matches_pattern_gen. now destruct (starts_with pat "**/" && self path (sdrop 3 pat)). Qed.

Lemma matches_directory_pattern_gen_spec f path pat :
  matches_directory_pattern_gen f path pat
  = smem (rstrip_chars pat "/") (removelast (path_parts path)) || f path (rstrip_chars pat "/" ++ "/*")%string.
Proof. unfold matches_directory_pattern_gen. now destruct (smem (rstrip_chars pat "/") (removelast (path_parts path))). Qed.

Lemma extract_patterns_gen_spec ls :
  extract_patterns_gen ls = filter (fun l => nonempty l && negb (starts_with l "#")) (map strip_ws ls).
Proof. reflexivity. Qed.

(* since bbae54e: .thailintignore and the config's list are combined; .thailint.json is consulted when there is no .thailint.yaml *)
Lemma source_names :
  thailintignore_name = ".thailintignore"%string /\ ignore_config_names = [".thailint.yaml"; ".thailint.json"]%string
  /\ load_combines_sources = true /\ ignore_config_key = "ignore"%string /\ cli_paths_shape_checked = true.
Proof. repeat split. Qed.
