(* Proofs/RegexLoopRename.v — renaming for the regex-in-loop detector (Model/RegexLoop.v), every quirk vector:
   a one-to-one renaming that keeps `re`, `compile` and the re function names apart commutes with detection; the name facts
   and the function name in a report are renamed. *)
From TL Require Import Lib.Base Lib.GenTypes Gen.EmbedGen Gen.Embed2Gen Model.Embed Model.PrintStmt Model.PerfConcat Model.StatelessCls
     Model.RegexLoop Proofs.EmbedLocality Proofs.PrintStmtLocal Proofs.PerfConcatLocal Proofs.PerfConcatRename Proofs.StatelessClsLocal
     Proofs.RegexLoopLocal.

Definition rx_sigma_ok (sg : string -> string) : Prop := inj sg /\ keeps_all sg rx_fixed_names.

Definition ren_fact (sg : string -> string) (e : fact) : fact :=
  (f_tag e, sg (f_name e), match f_tag e with 2 => sg (f_base e) | _ => f_base e end).
Definition renG (sg : string -> string) (g : list fact) : list fact := map (ren_fact sg) g.
Definition rx_renS (sg : string -> string) (s : rsum) : rsum := (fst s, renG sg (snd s)).

Lemma existsb_map' {A B} (p : B -> bool) (r : A -> B) l : existsb p (map r l) = existsb (fun e => p (r e)) l.
Proof. induction l as [|x xs IH]; cbn [map existsb]; [reflexivity|]. now rewrite IH. Qed.

Section Sg.
  Variable sg : string -> string.
  Hypothesis Hs : rx_sigma_ok sg.

  Lemma Hinj : inj sg. Proof. exact (proj1 Hs). Qed.
  Lemma keeps_fixed k : In k rx_fixed_names -> keeps sg k. Proof. exact (proj2 Hs k). Qed.
  Lemma keeps_module : keeps sg rx_module. Proof. apply keeps_fixed. cbn. tauto. Qed.
  Lemma keeps_default : keeps sg rx_default_alias. Proof. apply keeps_fixed. cbn. tauto. Qed.
  Lemma keeps_compile : keeps sg rx_compile_name. Proof. apply keeps_fixed. cbn. tauto. Qed.
  Lemma keeps_functions : keeps_all sg rx_functions.
  Proof. intros k Hk. apply keeps_fixed. unfold rx_fixed_names. now do 3 right. Qed.

  (* ---------------------------------------------------------------- the name facts *)
  Lemma is_alias_ren g y : is_alias (renG sg g) (sg y) = is_alias g y.
  Proof.
    unfold is_alias, renG. rewrite (keeps_default y), existsb_map'. f_equal. apply existsb_ext_p.
    intro e. unfold ren_fact, f_tag, f_name. cbn [fst snd]. now rewrite (eqb_inj sg _ _ Hinj).
  Qed.
  Lemma is_direct_ren g y : is_direct (renG sg g) (sg y) = is_direct g y.
  Proof.
    unfold is_direct, renG. rewrite existsb_map'. apply existsb_ext_p.
    intro e. unfold ren_fact, f_tag, f_name. cbn [fst snd]. now rewrite (eqb_inj sg _ _ Hinj).
  Qed.
  Lemma is_compiled_ren g x : is_compiled (renG sg g) (sg x) = is_compiled g x.
  Proof.
    unfold is_compiled. unfold renG at 2. rewrite existsb_map'. apply existsb_ext_p.
    intro e. destruct e as [[t n] b]. unfold ren_fact, f_tag, f_name, f_base. cbn [fst snd].
    rewrite (eqb_inj sg _ _ Hinj). destruct (t =? 2) eqn:E; [|reflexivity].
    apply Nat.eqb_eq in E. subst t. cbn [andb]. now rewrite is_alias_ren.
  Qed.

  (* ---------------------------------------------------------------- collecting them *)
  Lemma asname_of_rename a : asname_of (rename sg a) = option_map sg (asname_of a).
  Proof.
    unfold asname_of. rewrite field_rename.
    destruct (field "asname" a) as [|k [|k' r]]; cbn [map]; try reflexivity. rewrite is_cls_rename.
    destruct (is_cls str_cls k) eqn:E; [|reflexivity]. cbn [option_map].
    now rewrite (nsval_rename_ident sg str_cls k eq_refl E).
  Qed.

  Lemma compile_base_rename v : compile_base (rename sg v) = option_map sg (compile_base v).
  Proof.
    unfold compile_base. rewrite is_cls_rename. destruct (is_cls rx_compile_call_cls v); [|reflexivity].
    rewrite field_rename. destruct (field "func" v) as [|f [|f' r]]; cbn [map]; try reflexivity.
    rewrite (named_rename_ident sg rx_compile_attr_cls rx_compile_name f eq_refl keeps_compile).
    destruct (named rx_compile_attr_cls rx_compile_name f); [|reflexivity].
    rewrite field_rename. destruct (field "value" f) as [|b [|b' r]]; cbn [map]; try reflexivity.
    rewrite is_cls_rename. destruct (is_cls rx_compile_base_cls b) eqn:E; [|reflexivity]. cbn [option_map].
    now rewrite (nsval_rename_ident sg rx_compile_base_cls b eq_refl E).
  Qed.

  Lemma rx_node0_rename t : rx_node0 (rename sg t) = renG sg (rx_node0 t).
  Proof.
    unfold rx_node0. rewrite !is_cls_rename.
    destruct (is_cls rx_import_cls t) eqn:E1.
    - rewrite field_rename, flat_map_map. unfold renG.
      apply (flat_map_mapped (map (ren_fact sg))); [apply map_app|reflexivity|].
      apply Forall_forall. intros a _. rewrite is_cls_rename, asname_of_rename.
      destruct (is_cls alias_cls a) eqn:Ea; [|reflexivity]. cbn [andb].
      rewrite (nsval_rename_ident sg alias_cls a eq_refl Ea), (keeps_module (nsval a)).
      destruct (String.eqb (nsval a) rx_module); [|reflexivity].
      destruct (asname_of a); reflexivity.
    - destruct (is_cls rx_importfrom_cls t) eqn:E2.
      + rewrite (nsval_rename_ident sg rx_importfrom_cls t eq_refl E2), (keeps_module (nsval t)).
        destruct (String.eqb (nsval t) rx_module); [|reflexivity].
        rewrite field_rename, flat_map_map. unfold renG.
        apply (flat_map_mapped (map (ren_fact sg))); [apply map_app|reflexivity|].
        apply Forall_forall. intros a _. rewrite is_cls_rename, asname_of_rename.
        destruct (is_cls alias_cls a) eqn:Ea; [|reflexivity]. cbn [andb].
        rewrite (nsval_rename_ident sg alias_cls a eq_refl Ea), (smem_keeps sg (nsval a) rx_functions keeps_functions).
        destruct (smem (nsval a) rx_functions); [|reflexivity].
        destruct (asname_of a); reflexivity.
      + destruct (is_cls rx_assign_cls t || is_cls rx_annassign_cls t); [|reflexivity].
        rewrite (assigned_rename sg rx_assign_cls rx_annassign_cls rx_target_cls rx_target_cls t eq_refl eq_refl).
        destruct (assigned rx_assign_cls rx_annassign_cls rx_target_cls rx_target_cls t) as [[v xs]|]; [|reflexivity].
        cbn [option_map ren_pair fst snd]. rewrite compile_base_rename.
        destruct (compile_base v) as [y|]; [|reflexivity]. cbn [option_map]. unfold renG. rewrite !map_map. reflexivity.
  Qed.

  Lemma rx_node_rename t : rx_node (rename sg t) = renG sg (rx_node t).
  Proof. unfold rx_node. now rewrite erase_rename, rx_node0_rename. Qed.

  Lemma names_sc_rename t : names_sc (rename sg t) = renG sg (names_sc t).
  Proof.
    induction t as [i ks IH] using ast_ind'.
    rewrite rename_node, names_sc_node. rewrite <- rename_node.
    rewrite is_scope_rename, rx_node_rename, names_sc_node.
    destruct (is_scope (Node i ks)); [reflexivity|]. unfold renG. rewrite map_app. f_equal.
    rewrite flat_map_map. apply (flat_map_mapped (map (ren_fact sg))); [apply map_app|reflexivity|exact IH].
  Qed.
  Lemma names_all_rename t : names_all (rename sg t) = renG sg (names_all t).
  Proof.
    induction t as [i ks IH] using ast_ind'.
    rewrite rename_node, names_all_node. rewrite <- rename_node.
    rewrite rx_node_rename, names_all_node. unfold renG. rewrite map_app. f_equal.
    rewrite flat_map_map. apply (flat_map_mapped (map (ren_fact sg))); [apply map_app|reflexivity|exact IH].
  Qed.
  Lemma names_scF_rename ts : names_scF (renameF sg ts) = renG sg (names_scF ts).
  Proof.
    unfold names_scF, renameF. rewrite flat_map_map.
    apply (flat_map_mapped (map (ren_fact sg))); [apply map_app|reflexivity|].
    apply Forall_forall. intros k _. apply names_sc_rename.
  Qed.
  Lemma names_allF_rename ts : names_allF (renameF sg ts) = renG sg (names_allF ts).
  Proof.
    unfold names_allF, renameF. rewrite flat_map_map.
    apply (flat_map_mapped (map (ren_fact sg))); [apply map_app|reflexivity|].
    apply Forall_forall. intros k _. apply names_all_rename.
  Qed.

  (* ---------------------------------------------------------------- the walker *)
  Lemma rx_enter_rename q g t : rx_enter q (renG sg g) (rename sg t) = renG sg (rx_enter q g t).
  Proof.
    unfold rx_enter. destruct (q_rx_file_wide_names q); [reflexivity|].
    rewrite is_scope_rename, nkids_rename. destruct (is_scope t); [|reflexivity].
    change (renG sg (g ++ names_scF (nkids t))) with (map (ren_fact sg) (g ++ names_scF (nkids t))).
    rewrite map_app. f_equal. apply names_scF_rename.
  Qed.

  Lemma rx_step_rename q s t : rx_step q (rx_renS sg s) (rename sg t) = rx_renS sg (rx_step q s t).
  Proof.
    unfold rx_step, rx_renS, rx_loop_type. cbn [fst snd]. now rewrite ncls_rename, rx_enter_rename.
  Qed.

  Lemma rx_call_rename g t :
    rx_call (renG sg g) (rename sg t) = option_map (fun p => (fst p, sg (snd p))) (rx_call g t).
  Proof.
    unfold rx_call. rewrite is_cls_rename. destruct (is_cls rx_call_cls t); [|reflexivity].
    rewrite field_rename. destruct (field "func" t) as [|f [|f' r]]; cbn [map]; try reflexivity.
    rewrite !is_cls_rename. destruct (is_cls rx_func_attr_cls f) eqn:Ea.
    - rewrite (nsval_rename_ident sg rx_func_attr_cls f eq_refl Ea), (smem_keeps sg (nsval f) rx_functions keeps_functions).
      destruct (smem (nsval f) rx_functions); [|reflexivity].
      rewrite field_rename. destruct (field "value" f) as [|b [|b' r]]; cbn [map]; try reflexivity.
      rewrite is_cls_rename. destruct (is_cls rx_caller_cls b) eqn:Eb; [|reflexivity].
      rewrite (nsval_rename_ident sg rx_caller_cls b eq_refl Eb), is_compiled_ren, is_alias_ren.
      destruct (is_compiled g (nsval b)); [reflexivity|]. destruct (is_alias g (nsval b)); reflexivity.
    - destruct (is_cls rx_func_name_cls f) eqn:En; [|reflexivity].
      rewrite (nsval_rename_ident sg rx_func_name_cls f eq_refl En), is_direct_ren.
      destruct (is_direct g (nsval f)); reflexivity.
  Qed.

  Lemma rx_emit_rename s t : rx_emit (rx_renS sg s) (rename sg t) = map (renameR sg) (rx_emit s t).
  Proof.
    unfold rx_emit, rx_renS. cbn [fst snd]. destruct (String.eqb (fst s) ""); [reflexivity|].
    rewrite erase_rename, rx_call_rename.
    destruct (rx_call (snd s) (erase t)) as [[m x]|]; destruct t as [i ks]; reflexivity.
  Qed.

  Theorem rx_rename q file : rx_reports q (renameF sg file) = map (renameR sg) (rx_reports q file).
  Proof.
    unfold rx_reports.
    assert (E : rx_names0 q (renameF sg file) = renG sg (rx_names0 q file)).
    { unfold rx_names0. destruct (q_rx_file_wide_names q); [apply names_allF_rename|apply names_scF_rename]. }
    rewrite E.
    exact (renameF_commutes (rx_step q) rx_emit sg (rx_renS sg) (renameR sg) (rx_step_rename q) rx_emit_rename file
             ("", rx_names0 q file)).
  Qed.
End Sg.
