(* Proofs/SrpCor.v — consequences of the exact-report theorem for C16: reported-iff, boundary,
   message composition, one violation per class, scope of language overrides, monotonicity. *)
From TL Require Import Lib.Base Lib.GenTypes Model.SrpTypes Gen.SrpGen Model.SrpSpec Model.Srp
     Proofs.SrpBase Proofs.SrpEval Proofs.SrpCount Proofs.SrpMain.

(* ------------------------------------------------------------------ verdict of one class *)
Lemma spec_issues_nil_iff mm ml ck mc loc kw :
  spec_issues mm ml ck mc loc kw = [] <-> mc <= mm /\ loc <= ml /\ ck && kw = false.
Proof.
  unfold spec_issues.
  destruct (Nat.ltb_spec mm mc), (Nat.ltb_spec ml loc), (ck && kw); cbn [app]; split;
    try discriminate; try (intros (? & ? & ?); try discriminate; lia); intros _; repeat split; lia.
Qed.

Theorem unit_reported_iff name line col mm ml ck mc loc kw :
  spec_unit_rep name line col mm ml ck mc loc kw <> [] <-> (mm < mc \/ ml < loc \/ (ck = true /\ kw = true)).
Proof.
  unfold spec_unit_rep. pose proof (spec_issues_nil_iff mm ml ck mc loc kw) as H.
  destruct (spec_issues mm ml ck mc loc kw) as [|i is].
  - destruct H as [H _]. destruct (H eq_refl) as (H1 & H2 & H3). split.
    + intros N. now contradiction N.
    + intros [A|[A|[-> ->]]]; [lia | lia | discriminate H3].
  - split; [|discriminate]. intros _.
    destruct (Nat.le_gt_cases mc mm) as [A|A]; [|now left]. destruct (Nat.le_gt_cases loc ml) as [B|B]; [|right; now left].
    right; right. destruct H as [_ H]. destruct ck, kw; try (now split); exfalso; discriminate H; repeat split; assumption.
Qed.

(* a class sitting exactly on both limits is not reported; one method or one line more and it is *)
Theorem unit_boundary name line col mm ml ck kw :
  ck && kw = false ->
  spec_unit_rep name line col mm ml ck mm ml kw = []
  /\ spec_unit_rep name line col mm ml ck (S mm) ml kw <> []
  /\ spec_unit_rep name line col mm ml ck mm (S ml) kw <> [].
Proof.
  intros Hk. split; [|split].
  - unfold spec_unit_rep. destruct (spec_issues_nil_iff mm ml ck mm ml kw) as [_ H]. rewrite H; [reflexivity | repeat split; [lia | lia | exact Hk]].
  - apply unit_reported_iff. left. lia.
  - apply unit_reported_iff. right. left. lia.
Qed.

(* the same at the level of the model: evaluate_metrics + build_violation as generated from the source *)
Theorem model_boundary d name line0 col hl hc cfg kw :
  d = py_metrics_dict \/ d = ts_metrics_dict \/ d = rs_metrics_dict ->
  cf_check cfg && kw = false ->
  class_rep d name (cf_mm cfg) (cf_ml cfg) kw line0 col hl hc cfg = []
  /\ class_rep d name (S (cf_mm cfg)) (cf_ml cfg) kw line0 col hl hc cfg <> []
  /\ class_rep d name (cf_mm cfg) (S (cf_ml cfg)) kw line0 col hl hc cfg <> [].
Proof.
  intros [-> | [-> | ->]] Hk; rewrite ?class_rep_py, ?class_rep_ts, ?class_rep_rs; now apply unit_boundary.
Qed.

(* ------------------------------------------------------------------ the message *)
Inductive crit := KMethods | KLines | KKeyword.

Definition exceeded (mm ml : nat) (ck : bool) (mc loc : nat) (kw : bool) (k : crit) : bool :=
  match k with KMethods => mm <? mc | KLines => ml <? loc | KKeyword => ck && kw end.
Definition crit_text (mm ml mc loc : nat) (k : crit) : string :=
  match k with KMethods => methods_text mc mm | KLines => lines_text loc ml | KKeyword => keyword_text end.

(* the issue list is exactly the exceeded criteria, in the order methods, lines, keyword, each with the
   true count and the limit in force *)
Theorem issues_exact mm ml ck mc loc kw :
  spec_issues mm ml ck mc loc kw = map (crit_text mm ml mc loc) (filter (exceeded mm ml ck mc loc kw) [KMethods; KLines; KKeyword]).
Proof. unfold spec_issues. cbn [filter exceeded]. destruct (mm <? mc), (ml <? loc), (ck && kw); reflexivity. Qed.

Theorem unit_message name line col mm ml ck mc loc kw r :
  In r (spec_unit_rep name line col mm ml ck mc loc kw) ->
  r = (line, col, sconcat ["Class '"; name; "' may violate SRP: ";
                           join ", " (map (crit_text mm ml mc loc) (filter (exceeded mm ml ck mc loc kw) [KMethods; KLines; KKeyword]))]).
Proof.
  unfold spec_unit_rep. rewrite <- issues_exact. destruct (spec_issues mm ml ck mc loc kw); [intros []|].
  intros [<- | []]. reflexivity.
Qed.

Theorem unit_at_most_one name line col mm ml ck mc loc kw :
  List.length (spec_unit_rep name line col mm ml ck mc loc kw) <= 1.
Proof. unfold spec_unit_rep. destruct (spec_issues mm ml ck mc loc kw); cbn; lia. Qed.

(* ------------------------------------------------------------------ one violation per class / struct *)
Definition nonempty {A} (l : list A) : bool := match l with [] => false | _ => true end.

Lemma flat_map_at_most_one {A B} (g : A -> list B) (d : B) l :
  (forall x, List.length (g x) <= 1) ->
  flat_map g l = map (fun x => hd d (g x)) (filter (fun x => nonempty (g x)) l).
Proof.
  intros H. induction l as [|x xs IH]; cbn [flat_map filter map]; [reflexivity|].
  specialize (H x). destruct (g x) as [|y [|z ys]] eqn:E; cbn [nonempty app map hd List.length] in *; rewrite ?E; cbn [hd]; [exact IH | now rewrite IH | lia].
Qed.

Definition class_flagged (s : section) (f : sfile) (c : cls) : bool := nonempty (spec_class_rep s f c).
Definition struct_flagged (s : section) (f : sfile) (st : rstruct) : bool := nonempty (spec_struct_rep s f st).
Definition dummy_rep : rep := (0, 0, "").

(* the reported list is: one violation for each flagged class (struct), in order, none for the others *)
Theorem report_one_per_unit q c f :
  file_good f = true -> quirks_ok q f = true ->
  report q c f =
  if negb (spec_enabled (spec_section c)) then []
  else match f_lang f with
       | Rs => map (fun st => hd dummy_rep (spec_struct_rep (spec_section c) f st)) (filter (struct_flagged (spec_section c) f) (f_structs f))
       | _ => map (fun cl => hd dummy_rep (spec_class_rep (spec_section c) f cl)) (filter (class_flagged (spec_section c) f) (f_classes f))
       end.
Proof.
  intros Hg Hq. rewrite (report_exact q c f Hg Hq). unfold spec_report.
  destruct (negb (spec_enabled (spec_section c))); [reflexivity|].
  destruct (f_lang f); apply flat_map_at_most_one; intros x; apply unit_at_most_one.
Qed.

(* every violation sits at the position of its class *)
Theorem class_rep_position s f cl r : In r (spec_class_rep s f cl) -> fst r = (c_line cl, c_col cl).
Proof. unfold spec_class_rep. intros H. apply unit_message in H. now subst r. Qed.
Theorem struct_rep_position s f st r : In r (spec_struct_rep s f st) -> fst r = (s_line st, s_col st).
Proof. unfold spec_struct_rep. intros H. apply unit_message in H. now subst r. Qed.

(* ------------------------------------------------------------------ language overrides *)
Definition lang_eqb (a b : lang) : bool :=
  match a, b with Py, Py | Ts, Ts | Js, Js | Rs, Rs => true | _, _ => false end.
Definition other_lang_key (l : lang) (k : string) : bool :=
  existsb (fun l' => negb (lang_eqb l l') && String.eqb k (lang_key l')) [Py; Ts; Js; Rs].

Lemma spec_conf_other_lang l k v s : other_lang_key l k = true -> spec_conf ((k, VSec v) :: s) l = spec_conf s l.
Proof.
  unfold other_lang_key. intros H. apply existsb_exists in H. destruct H as (l' & _ & H).
  apply andb_prop in H. destruct H as [Hne Hk]. apply String.eqb_eq in Hk. subst k.
  destruct l, l'; try discriminate Hne; reflexivity.
Qed.

(* setting (adding, changing) the section of another language does not change the report of a file *)
Theorem override_scope q k v s rest f :
  ext_ok (f_lang f) (f_ext f) = true -> other_lang_key (f_lang f) k = true ->
  report q (("srp", (k, VSec v) :: s) :: rest) f = report q (("srp", s) :: rest) f.
Proof.
  intros He Hk. unfold report, report_sec.
  destruct (ext_dispatch (f_lang f) (f_ext f) He) as [E1 E2]. rewrite E1, E2.
  change (section_of (("srp", (k, VSec v) :: s) :: rest)) with ((k, VSec v) :: s).
  change (section_of (("srp", s) :: rest)) with s.
  now rewrite !from_dict_spec, spec_conf_other_lang.
Qed.

Theorem override_scope_spec k v s rest f :
  other_lang_key (f_lang f) k = true ->
  spec_report (("srp", (k, VSec v) :: s) :: rest) f = spec_report (("srp", s) :: rest) f.
Proof.
  intros Hk. unfold spec_report.
  change (spec_section (("srp", (k, VSec v) :: s) :: rest)) with ((k, VSec v) :: s).
  change (spec_section (("srp", s) :: rest)) with s.
  pose proof (spec_conf_other_lang _ _ v s Hk) as E. unfold spec_conf in E. injection E as E1 E2 E3 E4 E5.
  rewrite E3. destruct (negb (spec_enabled s)); [reflexivity|].
  destruct (f_lang f) eqn:EL; apply flat_map_ext_in'; intros x _; unfold spec_class_rep, spec_struct_rep; rewrite EL, E1, E2, E4, E5; reflexivity.
Qed.

(* ------------------------------------------------------------------ monotonicity in the thresholds *)
Lemma unit_mono name line col mm ml mm' ml' ck mc loc kw :
  mm <= mm' -> ml <= ml' ->
  incl (map fst (spec_unit_rep name line col mm' ml' ck mc loc kw)) (map fst (spec_unit_rep name line col mm ml ck mc loc kw)).
Proof.
  intros H1 H2. unfold spec_unit_rep.
  destruct (spec_issues mm' ml' ck mc loc kw) as [|i' is'] eqn:E'; [intros x []|].
  destruct (spec_issues mm ml ck mc loc kw) as [|i is] eqn:E; [|intros x Hx; exact Hx].
  exfalso. apply spec_issues_nil_iff in E. destruct E as (A & B & C).
  assert (N : spec_issues mm' ml' ck mc loc kw = []) by (apply spec_issues_nil_iff; repeat split; [lia | lia | exact C]).
  congruence.
Qed.

Lemma incl_flat_map {A B C} (g g' : A -> list B) (p : B -> C) l :
  (forall x, incl (map p (g' x)) (map p (g x))) -> incl (map p (flat_map g' l)) (map p (flat_map g l)).
Proof.
  intros H. induction l as [|x xs IH]; cbn [flat_map]; [intros y []|].
  rewrite !map_app. apply incl_app; [apply incl_appl, H | apply incl_appr, IH].
Qed.

(* raising a threshold never adds a violation (for every quirk vector) *)
Theorem report_monotone q h cfg cfg' f :
  cf_mm cfg <= cf_mm cfg' -> cf_ml cfg <= cf_ml cfg' ->
  cf_enabled cfg = cf_enabled cfg' -> cf_check cfg = cf_check cfg' -> cf_keywords cfg = cf_keywords cfg' ->
  incl (map fst (report_conf q h cfg' f)) (map fst (report_conf q h cfg f)).
Proof.
  intros H1 H2 He Hc Hk. unfold report_conf. rewrite <- He.
  destruct (negb (cf_enabled cfg)); [intros x []|].
  destruct (String.eqb h "python"); [|destruct (String.eqb h "typescript"); [|destruct (String.eqb h "rust"); [|intros x []]]].
  - unfold py_report. apply incl_flat_map. intros c. unfold py_class_rep. rewrite !class_rep_py, <- Hc, <- Hk. now apply unit_mono.
  - unfold ts_report. apply incl_flat_map. intros c. unfold ts_class_rep. rewrite !class_rep_ts, <- Hc, <- Hk. now apply unit_mono.
  - unfold rs_report. apply incl_flat_map. intros c. unfold rs_struct_rep. rewrite !class_rep_rs, <- Hc, <- Hk. now apply unit_mono.
Qed.

(* ------------------------------------------------------------------ keyword criterion *)
Theorem keyword_iff kws name :
  spec_keyword kws name = true <-> exists kw a b, In kw kws /\ name = (a ++ kw ++ b)%string.
Proof.
  unfold spec_keyword. rewrite existsb_exists. split.
  - intros (kw & Hin & H). apply contains_spec in H. destruct H as (a & b & H). now exists kw, a, b.
  - intros (kw & a & b & Hin & H). exists kw. split; [exact Hin|]. apply contains_spec. now exists a, b.
Qed.
