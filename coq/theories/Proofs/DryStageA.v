(* Proofs/DryStageA.v — text -> stored rows, for the reference parameters (ref_aparams):
   line tracking (strictly increasing line numbers), windows by index, the rows are well formed
   (Proofs/DryStageB.v rows_ok), the snippet of a row is exactly the code lines of its line range
   (canon_range), and equal snippets mean line-for-line equal code (join is injective on newline-free lines). *)
From TL Require Import Lib.Base Lib.GenTypes Model.DryBase Model.DryPipe Model.DrySpec Proofs.DryGreedy Proofs.DryStageB.
From Coq Require Import Sorting.Sorted.

(* ------------------------------------------------------------------ list helpers *)
Lemma ss_app_inv {A} (R : A -> A -> Prop) : forall l1 l2, StronglySorted R (l1 ++ l2) ->
  StronglySorted R l1 /\ StronglySorted R l2 /\ (forall a b, In a l1 -> In b l2 -> R a b).
Proof.
  induction l1 as [|x xs IH]; intros l2 H; [split; [constructor|split; [exact H|intros ? ? []]]|].
  change ((x :: xs) ++ l2) with (x :: (xs ++ l2)) in H. inversion H as [|? ? H' Hall]; subst.
  destruct (IH l2 H') as [H1 [H2 H3]]. rewrite Forall_forall in Hall. split; [|split; [exact H2|]].
  - constructor; [exact H1|]. apply Forall_forall. intros y Hy. apply Hall. apply in_or_app. left. exact Hy.
  - intros a b [<-|Ha] Hb; [apply Hall; apply in_or_app; right; exact Hb|apply H3; assumption].
Qed.

Lemma ss_map_seq {A} (R : A -> A -> Prop) (g : nat -> A) : forall c s0,
  (forall i j, s0 <= i -> i < j -> j < s0 + c -> R (g i) (g j)) -> StronglySorted R (map g (seq s0 c)).
Proof.
  induction c as [|c IH]; intros s0 H; [constructor|]. cbn [seq map]. constructor.
  - apply IH. intros i j Hi Hij Hj. apply H; lia.
  - apply Forall_forall. intros y Hy. apply in_map_iff in Hy. destruct Hy as [j [<- Hj]]. apply in_seq in Hj. apply H; lia.
Qed.

Lemma nth_firstn' {A} : forall (l : list A) W j d, j < W -> nth j (firstn W l) d = nth j l d.
Proof.
  induction l as [|x l IH]; intros W j d H; [destruct W, j; reflexivity|].
  destruct W as [|W]; [lia|]. destruct j as [|j]; [reflexivity|]. cbn [firstn nth]. apply IH. lia.
Qed.

Lemma nth_skipn' {A} : forall (l : list A) i j d, nth j (skipn i l) d = nth (i + j) l d.
Proof.
  induction l as [|x l IH]; intros i j d; [destruct i, j; reflexivity|].
  destruct i as [|i]; [reflexivity|]. cbn [skipn Nat.add nth]. apply IH.
Qed.

Lemma firstn_In' {A} (x : A) n l : In x (firstn n l) -> In x l.
Proof. intros H. rewrite <- (firstn_skipn n l). apply in_or_app. left. exact H. Qed.

Lemma skipn_In' {A} (x : A) n l : In x (skipn n l) -> In x l.
Proof. intros H. rewrite <- (firstn_skipn n l). apply in_or_app. right. exact H. Qed.

Definition fst_lt (a b : nat * string) : Prop := fst a < fst b.

Lemma ss_nth_lt : forall (s : list (nat * string)) d, StronglySorted fst_lt s ->
  forall i j, i < j -> j < List.length s -> fst (nth i s d) < fst (nth j s d).
Proof.
  induction s as [|x xs IH]; intros d Hs i j Hij Hj; [cbn in Hj; lia|].
  inversion Hs as [|? ? Hs' Hall]; subst. rewrite Forall_forall in Hall.
  destruct j as [|j]; [lia|]. cbn [List.length] in Hj. destruct i as [|i].
  - cbn [nth]. apply Hall. apply nth_In. lia.
  - cbn [nth]. apply IH; [exact Hs'|lia|lia].
Qed.

Lemma ss_nth_le : forall (s : list (nat * string)) d, StronglySorted fst_lt s ->
  forall i j, i <= j -> j < List.length s -> fst (nth i s d) <= fst (nth j s d).
Proof.
  intros s d Hs i j Hij Hj. destruct (Nat.eq_dec i j) as [->|Hne]; [lia|].
  pose proof (ss_nth_lt s d Hs i j ltac:(lia) Hj). lia.
Qed.

(* ------------------------------------------------------------------ tokenize: line numbers *)
Lemma tokenize_from_sorted P : forall ls n st,
  StronglySorted fst_lt (tokenize_from P n st ls) /\ (forall p, In p (tokenize_from P n st ls) -> n <= fst p).
Proof.
  induction ls as [|l rest IH]; intros n st; cbn [tokenize_from]; [split; [constructor|intros ? []]|].
  assert (Hskip : forall st', StronglySorted fst_lt (tokenize_from P (S n) st' rest) /\
                              (forall p, In p (tokenize_from P (S n) st' rest) -> n <= fst p)).
  { intros st'. destruct (IH (S n) st') as [H1 H2]. split; [exact H1|]. intros p Hp. specialize (H2 p Hp). lia. }
  destruct (a_doc l); [apply Hskip|]. destruct (str_empty (p_norm P l)); [apply Hskip|].
  destruct (snd (p_skip P (p_norm P l) st)); [apply Hskip|].
  destruct (IH (S n) (fst (p_skip P (p_norm P l) st))) as [H1 H2]. split.
  - constructor; [exact H1|]. apply Forall_forall. intros p Hp. specialize (H2 p Hp). unfold fst_lt. cbn [fst]. lia.
  - intros p [<-|Hp]; [cbn [fst]; lia|]. specialize (H2 p Hp). lia.
Qed.

Lemma tokenize_from_text P : forall ls n st p, In p (tokenize_from P n st ls) -> exists l, In l ls /\ snd p = p_norm P l.
Proof.
  induction ls as [|l rest IH]; intros n st p Hp; cbn [tokenize_from] in Hp; [contradiction|].
  assert (Hskip : forall st', In p (tokenize_from P (S n) st' rest) -> exists l0, In l0 (l :: rest) /\ snd p = p_norm P l0).
  { intros st' H. destruct (IH _ _ _ H) as [l0 [H1 H2]]. exists l0. split; [right; exact H1|exact H2]. }
  destruct (a_doc l); [exact (Hskip _ Hp)|]. destruct (str_empty (p_norm P l)); [exact (Hskip _ Hp)|].
  destruct (snd (p_skip P (p_norm P l) st)); [exact (Hskip _ Hp)|].
  destruct Hp as [<-|Hp]; [exists l; split; [left; reflexivity|reflexivity]|exact (Hskip _ Hp)].
Qed.

(* ------------------------------------------------------------------ normalised lines contain no newline *)
Definition nlc : ascii := ascii_of_nat 10.
Fixpoint nl_free (s : string) : Prop := match s with EmptyString => True | String c s' => c <> nlc /\ nl_free s' end.
Fixpoint ws_free (s : string) : Prop := match s with EmptyString => True | String c s' => is_ws c = false /\ ws_free s' end.

Lemma ws_free_nl_free s : ws_free s -> nl_free s.
Proof.
  induction s as [|c s IH]; cbn [ws_free nl_free]; [trivial|]. intros [Hc Hs]. split; [|exact (IH Hs)].
  intros ->. vm_compute in Hc. discriminate.
Qed.

Lemma nl_free_app a b : nl_free a -> nl_free b -> nl_free (a ++ b).
Proof. induction a as [|c a IH]; cbn [nl_free String.append]; [trivial|]. intros [Hc Ha] Hb. split; [exact Hc|exact (IH Ha Hb)]. Qed.

Lemma ws_free_srev_app a b : ws_free a -> ws_free b -> ws_free (srev_app a b).
Proof.
  revert b. induction a as [|c a IH]; intros b Ha Hb; cbn [srev_app]; [exact Hb|].
  cbn [ws_free] in Ha. apply IH; [exact (proj2 Ha)|]. cbn [ws_free]. split; [exact (proj1 Ha)|exact Hb].
Qed.

Lemma words_acc_ws_free : forall s acc, ws_free acc -> Forall ws_free (words_acc acc s).
Proof.
  assert (Hflush : forall acc rest, ws_free acc -> Forall ws_free rest -> Forall ws_free (flush acc rest)).
  { intros acc rest Ha Hr. unfold flush. destruct acc; [exact Hr|]. constructor; [|exact Hr].
    unfold srev. apply ws_free_srev_app; [exact Ha|exact I]. }
  induction s as [|c s IH]; intros acc Ha; cbn [words_acc].
  - apply Hflush; [exact Ha|constructor].
  - destruct (is_ws c) eqn:E.
    + apply Hflush; [exact Ha|]. apply IH. exact I.
    + apply IH. cbn [ws_free]. split; assumption.
Qed.

Lemma join_space_nl_free : forall l, Forall nl_free l -> nl_free (join " " l).
Proof.
  induction l as [|x [|y t] IH]; intros H; cbn [join]; [exact I|inversion H; assumption|].
  inversion H as [|? ? Hx Ht]; subst. apply nl_free_app; [exact Hx|].
  apply nl_free_app; [|exact (IH Ht)]. cbn [nl_free]. split; [|exact I]. intros E. vm_compute in E. discriminate.
Qed.

Lemma ref_norm_nl_free a : nl_free (ref_norm a).
Proof.
  unfold ref_norm. apply join_space_nl_free. unfold words.
  pose proof (words_acc_ws_free (a_code a) EmptyString I) as H. rewrite Forall_forall in *. intros x Hx. apply ws_free_nl_free. exact (H x Hx).
Qed.

Lemma ref_stream_nl_free f p : In p (ref_stream f) -> nl_free (snd p).
Proof.
  intros Hp. unfold ref_stream, tokenize in Hp. destruct (tokenize_from_text _ _ _ _ _ Hp) as [l [_ ->]]. apply ref_norm_nl_free.
Qed.

(* join nl is injective on newline-free lines *)
Lemma nl_split : forall x y r1 r2, nl_free x -> nl_free y ->
  (x ++ String nlc r1)%string = (y ++ String nlc r2)%string -> x = y /\ r1 = r2.
Proof.
  induction x as [|c x IH]; intros y r1 r2 Hx Hy E.
  - destruct y as [|d y]; cbn [String.append] in E.
    + inversion E. auto.
    + inversion E as [[E1 E2]]. cbn [nl_free] in Hy. exfalso. apply (proj1 Hy). symmetry. exact E1.
  - destruct y as [|d y]; cbn [String.append] in E.
    + inversion E as [[E1 E2]]. cbn [nl_free] in Hx. exfalso. exact (proj1 Hx E1).
    + inversion E as [[E1 E2]]. cbn [nl_free] in Hx, Hy. destruct (IH y r1 r2 (proj2 Hx) (proj2 Hy) E2) as [-> ->]. auto.
Qed.

Lemma join_nl_cons x y t : join nl (x :: y :: t) = (x ++ String nlc (join nl (y :: t)))%string.
Proof. reflexivity. Qed.

Lemma join_nl_inj : forall l1 l2, List.length l1 = List.length l2 -> Forall nl_free l1 -> Forall nl_free l2 ->
  join nl l1 = join nl l2 -> l1 = l2.
Proof.
  induction l1 as [|x [|y t] IH]; intros l2 Hlen H1 H2 E.
  - destruct l2; [reflexivity|discriminate].
  - destruct l2 as [|x2 [|y2 t2]]; try discriminate. cbn [join] in E. congruence.
  - destruct l2 as [|x2 [|y2 t2]]; try discriminate.
    rewrite !join_nl_cons in E. inversion H1 as [|? ? Hx Ht]; subst. inversion H2 as [|? ? Hx2 Ht2]; subst.
    destruct (nl_split _ _ _ _ Hx Hx2 E) as [-> E']. f_equal. apply IH; [cbn [List.length] in *; lia|exact Ht|exact Ht2|exact E'].
Qed.

(* ------------------------------------------------------------------ windows by index *)
Definition win (W i : nat) (s : list (nat * string)) : list (nat * string) := firstn W (skipn i s).

Lemma windows_from_seq W : forall c s, windows_from W c s = map (fun i => win W i s) (seq 0 c).
Proof.
  induction c as [|c IH]; intros s; [reflexivity|]. cbn [windows_from seq map]. f_equal.
  rewrite IH, <- seq_shift, map_map. apply map_ext. intros i. unfold win. destruct s; [destruct i; reflexivity|reflexivity].
Qed.

Lemma ref_window_list W s : window_list ref_aparams W s =
  if List.length s <? W then [] else map (fun i => win W i s) (seq 0 (List.length s - W + 1)).
Proof. unfold window_list. cbn [p_guard p_off ref_aparams cmp_nat]. rewrite windows_from_seq. reflexivity. Qed.

Lemma win_length W i s : i + W <= List.length s -> List.length (win W i s) = W.
Proof. intros H. unfold win. rewrite firstn_length, skipn_length. lia. Qed.

Lemma win_nth W i s j d : j < W -> nth j (win W i s) d = nth (i + j) s d.
Proof.
  intros Hj. unfold win. rewrite nth_firstn' by exact Hj. apply nth_skipn'.
Qed.

Lemma win_decomp W i s : s = firstn i s ++ win W i s ++ skipn W (skipn i s).
Proof. unfold win. rewrite firstn_skipn, firstn_skipn. reflexivity. Qed.

(* the row of window i *)
Lemma ref_row_fields W fi i s : 1 <= W -> i + W <= List.length s ->
  let b := mk_row ref_aparams fi (win W i s) in
  r_file b = fi /\ r_start b = fst (nth i s (0, "")) /\ r_end b = fst (nth (i + W - 1) s (0, "")) /\
  r_snip b = join nl (map snd (win W i s)).
Proof.
  intros HW Hi. cbn [mk_row r_file r_start r_end r_snip p_wstart p_wend p_sep ref_aparams win_pick].
  split; [reflexivity|]. split; [rewrite win_nth by lia; rewrite Nat.add_0_r; reflexivity|]. split; [|reflexivity].
  rewrite rev_nth by (rewrite win_length by exact Hi; lia). rewrite win_length by exact Hi.
  rewrite win_nth by lia. f_equal. f_equal. lia.
Qed.

Definition ref_file_rows (W fi : nat) (f : afile) : list row := file_rows ref_aparams W fi (f_lines f).

Lemma ref_file_rows_eq W fi f : let s := ref_stream f in
  ref_file_rows W fi f = if List.length s <? W then [] else map (fun i => mk_row ref_aparams fi (win W i s)) (seq 0 (List.length s - W + 1)).
Proof.
  cbn zeta. unfold ref_file_rows, file_rows. fold (ref_stream f). rewrite ref_window_list.
  destruct (List.length (ref_stream f) <? W); [reflexivity|]. rewrite map_map. reflexivity.
Qed.

Lemma ref_file_rows_in W fi f b : In b (ref_file_rows W fi f) <->
  exists i, i + W <= List.length (ref_stream f) /\ b = mk_row ref_aparams fi (win W i (ref_stream f)).
Proof.
  rewrite ref_file_rows_eq. cbn zeta. destruct (List.length (ref_stream f) <? W) eqn:E.
  - apply Nat.ltb_lt in E. split; [intros []|intros [i [Hi _]]; lia].
  - apply Nat.ltb_ge in E. rewrite in_map_iff. split.
    + intros [i [<- Hi]]. apply in_seq in Hi. exists i. split; [lia|reflexivity].
    + intros [i [Hi ->]]. exists i. split; [reflexivity|]. apply in_seq. lia.
Qed.

Lemma ref_stream_sorted f : StronglySorted fst_lt (ref_stream f).
Proof. unfold ref_stream, tokenize. exact (proj1 (tokenize_from_sorted _ _ _ _)). Qed.

(* rows of one file are well formed *)
Lemma ref_file_rows_sorted W fi f : 1 <= W -> StronglySorted row_lt (ref_file_rows W fi f).
Proof.
  intros HW. rewrite ref_file_rows_eq. cbn zeta. set (s := ref_stream f).
  destruct (List.length s <? W) eqn:E; [constructor|]. apply Nat.ltb_ge in E.
  apply ss_map_seq. intros i j _ Hij Hj. right.
  destruct (ref_row_fields W fi i s HW ltac:(lia)) as [F1 [S1 _]]. destruct (ref_row_fields W fi j s HW ltac:(lia)) as [F2 [S2 _]].
  cbn zeta in *. rewrite F1, F2, S1, S2. split; [reflexivity|]. apply ss_nth_lt; [exact (ref_stream_sorted f)|exact Hij|lia].
Qed.

Lemma index_of_start (s : list (nat * string)) i j : StronglySorted fst_lt s -> i < List.length s -> j < List.length s ->
  fst (nth i s (0, "")) < fst (nth j s (0, "")) -> i < j.
Proof.
  intros Hs Hi Hj H. destruct (lt_eq_lt_dec i j) as [[L|E]|L]; [exact L|subst; lia|].
  pose proof (ss_nth_lt s (0, "") Hs j i L Hi). lia.
Qed.

(* ------------------------------------------------------------------ all rows *)
Lemma rows_from_in PA W : forall files i0 b, In b (rows_from PA W i0 files) <->
  exists j f, nth_error files j = Some f /\ In b (file_rows (PA (f_lang f)) W (i0 + j) (f_lines f)).
Proof.
  induction files as [|f fs IH]; intros i0 b; cbn [rows_from].
  - split; [intros []|intros [j [f [H _]]]; destruct j; discriminate].
  - rewrite in_app_iff, IH. split.
    + intros [H|[j [f' [Hn Hb]]]].
      * exists 0, f. rewrite Nat.add_0_r. auto.
      * exists (S j), f'. rewrite Nat.add_succ_r. auto.
    + intros [[|j] [f' [Hn Hb]]].
      * cbn in Hn. inversion Hn; subst f'. rewrite Nat.add_0_r in Hb. left. exact Hb.
      * right. exists j, f'. rewrite Nat.add_succ_r in Hb. auto.
Qed.

Lemma ref_rows_in W files b : In b (ref_rows W files) <->
  exists j f i, nth_error files j = Some f /\ i + W <= List.length (ref_stream f) /\ b = mk_row ref_aparams j (win W i (ref_stream f)).
Proof.
  unfold ref_rows, all_rows. rewrite rows_from_in. split.
  - intros [j [f [Hn Hb]]]. cbn [Nat.add] in Hb. apply (ref_file_rows_in W j f b) in Hb. destruct Hb as [i [Hi Hb]]. exists j, f, i. auto.
  - intros [j [f [i [Hn [Hi Hb]]]]]. exists j, f. split; [exact Hn|]. cbn [Nat.add]. apply (ref_file_rows_in W j f b). exists i. auto.
Qed.

Lemma rows_from_sorted W : 1 <= W -> forall files i0,
  StronglySorted row_lt (rows_from (fun _ => ref_aparams) W i0 files) /\
  (forall b, In b (rows_from (fun _ => ref_aparams) W i0 files) -> i0 <= r_file b).
Proof.
  intros HW. induction files as [|f fs IH]; intros i0; cbn [rows_from]; [split; [constructor|intros ? []]|].
  destruct (IH (S i0)) as [H1 H2].
  assert (Hfile : forall b, In b (file_rows ref_aparams W i0 (f_lines f)) -> r_file b = i0).
  { intros b Hb. apply (ref_file_rows_in W i0 f b) in Hb. destruct Hb as [i [Hi ->]]. reflexivity. }
  split.
  - apply ss_app; [exact (ref_file_rows_sorted W i0 f HW)|exact H1|].
    intros a b Ha Hb. left. rewrite (Hfile a Ha). specialize (H2 b Hb). lia.
  - intros b Hb. apply in_app_or in Hb. destruct Hb as [Hb|Hb]; [rewrite (Hfile b Hb); lia|specialize (H2 b Hb); lia].
Qed.

Theorem ref_rows_ok W files : 1 <= W -> rows_ok (ref_rows W files).
Proof.
  intros HW. constructor.
  - exact (proj1 (rows_from_sorted W HW files 0)).
  - intros r Hr. apply ref_rows_in in Hr. destruct Hr as [j [f [i [_ [Hi ->]]]]].
    destruct (ref_row_fields W j i (ref_stream f) HW Hi) as [_ [S [E _]]]. cbn zeta in *. rewrite S, E.
    apply ss_nth_le; [exact (ref_stream_sorted f)|lia|lia].
  - intros a b Ha Hb Hf Hs. apply ref_rows_in in Ha, Hb.
    destruct Ha as [j [f [i [Hn [Hi ->]]]]]. destruct Hb as [j' [f' [i' [Hn' [Hi' ->]]]]].
    destruct (ref_row_fields W j i (ref_stream f) HW Hi) as [F1 [S1 [E1 _]]].
    destruct (ref_row_fields W j' i' (ref_stream f') HW Hi') as [F2 [S2 [E2 _]]]. cbn zeta in *.
    rewrite F1, F2 in Hf. subst j'. rewrite Hn in Hn'. inversion Hn'; subst f'.
    rewrite S1, S2 in Hs. rewrite E1, E2.
    pose proof (index_of_start _ i i' (ref_stream_sorted f) ltac:(lia) ltac:(lia) Hs).
    apply ss_nth_lt; [exact (ref_stream_sorted f)|lia|lia].
Qed.

(* ------------------------------------------------------------------ the text of a row's line range *)
Lemma filter_all {A} (f : A -> bool) l : (forall x, In x l -> f x = true) -> filter f l = l.
Proof.
  induction l as [|x xs IH]; intros H; [reflexivity|]. cbn [filter]. rewrite (H x (or_introl eq_refl)). f_equal. apply IH. intros y Hy. apply H. right. exact Hy.
Qed.

Lemma range_is_window W i (s : list (nat * string)) : 1 <= W -> i + W <= List.length s -> StronglySorted fst_lt s ->
  filter (in_range (fst (nth i s (0, ""))) (fst (nth (i + W - 1) s (0, "")))) s = win W i s.
Proof.
  intros HW Hi Hs. set (lo := fst (nth i s (0, ""))). set (hi := fst (nth (i + W - 1) s (0, ""))).
  rewrite (win_decomp W i s) at 1. rewrite !filter_app.
  pose proof Hs as Hs'. rewrite (win_decomp W i s) in Hs'.
  destruct (ss_app_inv _ _ _ Hs') as [_ [Hs2 H12]]. destruct (ss_app_inv _ _ _ Hs2) as [Hw [_ H23]].
  assert (Hlo : In (nth i s (0, "")) (win W i s)).
  { replace (nth i s (0, "")) with (nth 0 (win W i s) (0, "")) by (rewrite win_nth by lia; f_equal; lia).
    apply nth_In. rewrite win_length by exact Hi. lia. }
  assert (Hhi : In (nth (i + W - 1) s (0, "")) (win W i s)).
  { replace (nth (i + W - 1) s (0, "")) with (nth (W - 1) (win W i s) (0, "")) by (rewrite win_nth by lia; f_equal; lia).
    apply nth_In. rewrite win_length by exact Hi. lia. }
  rewrite (filter_nil (in_range lo hi) (firstn i s)).
  2:{ intros x Hx. specialize (H12 x _ Hx (in_or_app _ _ _ (or_introl Hlo))). unfold fst_lt in H12. fold lo in H12.
      unfold in_range. apply andb_false_iff. left. apply Nat.leb_gt. exact H12. }
  rewrite (filter_nil (in_range lo hi) (skipn W (skipn i s))).
  2:{ intros x Hx. specialize (H23 _ x Hhi Hx). unfold fst_lt in H23. fold hi in H23.
      unfold in_range. apply andb_false_iff. right. apply Nat.leb_gt. exact H23. }
  rewrite app_nil_r. cbn [app]. apply filter_all. intros x Hx.
  apply In_nth with (d := (0, "")) in Hx. destruct Hx as [j [Hj <-]]. rewrite win_length in Hj by exact Hi.
  rewrite win_nth by exact Hj. unfold in_range. apply andb_true_iff. rewrite !Nat.leb_le. unfold lo, hi. split.
  - apply ss_nth_le; [exact Hs|lia|lia].
  - apply ss_nth_le; [exact Hs|lia|lia].
Qed.

(* a stored row: its snippet is the W code lines of its line range, joined *)
Theorem ref_row_text W files b : 1 <= W -> In b (ref_rows W files) ->
  let txt := canon_range (nth_file files (r_file b)) (r_start b) (r_end b) in
  List.length txt = W /\ Forall nl_free txt /\ r_snip b = join nl txt.
Proof.
  intros HW Hb. apply ref_rows_in in Hb. destruct Hb as [j [f [i [Hn [Hi ->]]]]].
  destruct (ref_row_fields W j i (ref_stream f) HW Hi) as [F [S [E Sn]]]. cbn zeta in *. rewrite F, S, E, Sn.
  assert (Hf : nth_file files j = f) by (unfold nth_file; apply nth_error_nth; exact Hn). rewrite Hf.
  unfold canon_range. rewrite (range_is_window W i (ref_stream f) HW Hi (ref_stream_sorted f)).
  split; [rewrite map_length; apply win_length; exact Hi|]. split; [|reflexivity].
  apply Forall_forall. intros x Hx. apply in_map_iff in Hx. destruct Hx as [p [<- Hp]].
  apply (ref_stream_nl_free f). unfold win in Hp. apply firstn_In' in Hp. apply skipn_In' in Hp. exact Hp. (* in the stream *)
Qed.

(* two rows with the same snippet are line for line the same code *)
Theorem ref_rows_same_text W files a b : 1 <= W -> In a (ref_rows W files) -> In b (ref_rows W files) ->
  r_snip a = r_snip b ->
  canon_range (nth_file files (r_file a)) (r_start a) (r_end a) = canon_range (nth_file files (r_file b)) (r_start b) (r_end b).
Proof.
  intros HW Ha Hb E.
  destruct (ref_row_text W files a HW Ha) as [La [Na Sa]]. destruct (ref_row_text W files b HW Hb) as [Lb [Nb Sb]]. cbn zeta in *.
  apply join_nl_inj; [congruence|exact Na|exact Nb|congruence].
Qed.

(* every run of W consecutive code lines of a file is a stored row *)
Theorem ref_rows_window W files j f pre w post : 1 <= W ->
  nth_error files j = Some f -> ref_stream f = pre ++ w ++ post -> List.length w = W ->
  exists b, In b (ref_rows W files) /\ r_file b = j /\ r_snip b = join nl (map snd w) /\
            r_start b = fst (hd (0, "") w) /\ r_end b = fst (last w (0, "")).
Proof.
  intros HW Hn Hs Hw. set (i := List.length pre).
  assert (Hi : i + W <= List.length (ref_stream f)) by (rewrite Hs, !app_length; unfold i; lia).
  assert (Hwin : win W i (ref_stream f) = w).
  { unfold win, i. rewrite Hs, skipn_app, skipn_all, Nat.sub_diag. cbn [skipn app]. rewrite firstn_app, <- Hw, firstn_all, Nat.sub_diag. cbn [firstn]. apply app_nil_r. }
  exists (mk_row ref_aparams j (win W i (ref_stream f))). split; [apply ref_rows_in; exists j, f, i; auto|].
  destruct (ref_row_fields W j i (ref_stream f) HW Hi) as [F [S [E Sn]]]. cbn zeta in *. rewrite F, S, E, Sn, Hwin.
  split; [reflexivity|]. split; [reflexivity|].
  assert (Hnth : forall m, m < W -> nth (i + m) (ref_stream f) (0, "") = nth m w (0, "")).
  { intros m Hm. rewrite <- Hwin. rewrite win_nth by exact Hm. reflexivity. }
  split.
  - replace i with (i + 0) by lia. rewrite Hnth by lia. destruct w; [cbn in Hw; lia|reflexivity].
  - replace (i + W - 1) with (i + (W - 1)) by lia. rewrite Hnth by lia. f_equal.
    rewrite <- Hw. destruct w as [|x w'] using rev_ind; [cbn in Hw; lia|].
    rewrite app_length, last_last. cbn [List.length]. rewrite app_nth2 by lia. replace (List.length w' + 1 - 1 - List.length w') with 0 by lia. reflexivity.
Qed.
