(* Proofs/EditDryB.v — C13, DRY stage B (grouping by snippet, per-file overlap removal of blocks, violation building,
   per-file overlap filter of violations: Model/DryPipe.v `report`) under a strictly monotone renumbering of the lines of
   each file - in particular under the insertion of lines that yield no token (Proofs/EditDry.v).

   Result, for the parameters read from the source (Model/Dry.v model_bparams, every quirk vector):
     report (rows renumbered) = map vshift (report rows)
   where vshift moves the line, the references and the END of the block (line + count - 1) with the renumbering.  So the
   set of reported blocks, their positions, occurrence counts and references are invariant up to the shift; the ONLY thing
   that is not invariant is the line count N of `Duplicate code (N lines, ...)`, and it changes exactly when the new line
   falls strictly inside the reported block (then by one).  The repaired overlap test line1 < line2 + count2 compares
   against the end of the earlier block and is therefore insensitive to the stretching (with the pre-fix test count1 this
   proof does not go through: the proof of `viol_overlap_repaired` fails when the source regresses). *)
From Coq Require Import Sorted.
From TL Require Import Lib.Base Lib.GenTypes Model.DryBase Model.DryPipe Gen.DryGen Model.Dry Model.Edit Proofs.EditList Proofs.EditDry.

(* ------------------------------------------------------------------ list lemmas *)
Lemma filter_map_comm {A B} (f : A -> B) (p : B -> bool) (q : A -> bool) : (forall x, p (f x) = q x) ->
  forall l, filter p (map f l) = map f (filter q l).
Proof. intros H. induction l as [|x r IH]; [reflexivity|]. cbn [map filter]. rewrite H. destruct (q x); cbn [map]; now rewrite IH. Qed.

Lemma flat_map_map_comm {A B C} (f : A -> list B) (g : A -> list C) (h : C -> B) : (forall x, f x = map h (g x)) ->
  forall l, flat_map f l = map h (flat_map g l).
Proof. intros H. induction l as [|x r IH]; [reflexivity|]. cbn [flat_map]. now rewrite H, IH, map_app. Qed.

(* greedy commutes with a map that preserves the overlap test on the elements that occur *)
Lemma greedy_map {A} (ovl : A -> A -> bool) (f : A -> A) (P : A -> Prop) :
  (forall a b, P a -> P b -> ovl (f a) (f b) = ovl a b) ->
  forall l kept, Forall P l -> Forall P kept -> greedy ovl (map f kept) (map f l) = map f (greedy ovl kept l).
Proof.
  intros H. induction l as [|x r IH]; intros kept Hl Hk; [reflexivity|].
  inversion Hl as [|? ? Px Pr]; subst. cbn [map greedy].
  assert (E : existsb (ovl (f x)) (map f kept) = existsb (ovl x) kept).
  { clear IH. induction Hk as [|y ys Py _ IHk]; [reflexivity|]. cbn [map existsb]. now rewrite (H x y Px Py), IHk. }
  rewrite E. destruct (existsb (ovl x) kept).
  - now apply IH.
  - cbn [map]. f_equal. apply (IH (x :: kept)); [assumption|now constructor].
Qed.

Lemma greedy_incl {A} (ovl : A -> A -> bool) : forall l kept x, In x (greedy ovl kept l) -> In x l.
Proof.
  induction l as [|y r IH]; intros kept x H; [destruct H|]. cbn [greedy] in H.
  destruct (existsb (ovl y) kept); [right; now apply (IH kept)|]. destruct H as [->|H]; [now left|right; now apply (IH (y :: kept))].
Qed.

Lemma insert_by_map {A} (key : A -> nat) (f : A -> A) (P : A -> Prop) :
  (forall a b, P a -> P b -> (key (f a) <=? key (f b)) = (key a <=? key b)) ->
  forall l x, P x -> Forall P l -> insert_by key (f x) (map f l) = map f (insert_by key x l).
Proof.
  intros H. induction l as [|y r IH]; intros x Px Hl; [reflexivity|].
  inversion Hl as [|? ? Py Pr]; subst. cbn [map insert_by]. rewrite (H x y Px Py).
  destruct (key x <=? key y); [reflexivity|]. cbn [map]. now rewrite IH.
Qed.

Lemma insert_by_forall {A} (key : A -> nat) (P : A -> Prop) : forall l x, P x -> Forall P l -> Forall P (insert_by key x l).
Proof.
  induction l as [|y r IH]; intros x Px Hl; [now constructor|]. inversion Hl; subst. cbn [insert_by].
  destruct (key x <=? key y); constructor; try assumption. now apply IH.
Qed.

Lemma isort_forall {A} (key : A -> nat) (P : A -> Prop) : forall l, Forall P l -> Forall P (isort key l).
Proof. induction l as [|x r IH]; intro H; [constructor|]. inversion H; subst. cbn [isort fold_right]. apply insert_by_forall; [assumption|now apply IH]. Qed.

Lemma isort_map {A} (key : A -> nat) (f : A -> A) (P : A -> Prop) :
  (forall a b, P a -> P b -> (key (f a) <=? key (f b)) = (key a <=? key b)) ->
  forall l, Forall P l -> isort key (map f l) = map f (isort key l).
Proof.
  intros H. induction l as [|x r IH]; intro Hl; [reflexivity|]. inversion Hl as [|? ? Px Pr]; subst.
  cbn [map isort fold_right]. change (fold_right (insert_by key) [] (map f r)) with (isort key (map f r)).
  change (fold_right (insert_by key) [] r) with (isort key r). rewrite (IH Pr).
  apply (insert_by_map key f P H); [assumption|now apply isort_forall].
Qed.

(* ------------------------------------------------------------------ the renumbering *)
Section Renumber.
  Variable F : nat -> nat -> nat.                       (* file -> old line -> new line *)
  Hypothesis Fmono : forall f a b, a < b <-> F f a < F f b.

  Lemma F_le f a b : a <= b <-> F f a <= F f b.
  Proof.
    split; intro H.
    - destruct (Nat.lt_ge_cases (F f b) (F f a)) as [L|L]; [|assumption]. apply (Fmono f) in L. lia.
    - destruct (Nat.lt_ge_cases b a) as [L|L]; [|assumption]. apply (Fmono f) in L. lia.
  Qed.

  Lemma F_inj f a b : F f a = F f b -> a = b.
  Proof.
    intro H. destruct (Nat.lt_trichotomy a b) as [L|[E|L]]; [|assumption|]; apply (Fmono f) in L; lia.
  Qed.

  Lemma F_eqb f a b : (F f a =? F f b) = (a =? b).
  Proof. destruct (Nat.eqb_spec a b) as [->|N]; [apply Nat.eqb_refl|]. apply Nat.eqb_neq. intro H. now apply F_inj in H. Qed.

  Lemma F_leb f a b : (F f a <=? F f b) = (a <=? b).
  Proof. destruct (Nat.leb_spec a b) as [L|L]; [apply Nat.leb_le; now apply F_le|]. apply Nat.leb_gt. now apply Fmono. Qed.

  Lemma F_ltb f a b : (F f a <? F f b) = (a <? b).
  Proof. destruct (Nat.ltb_spec a b) as [L|L]; [apply Nat.ltb_lt; now apply Fmono|]. apply Nat.ltb_ge. now apply F_le. Qed.

  Definition rshift (r : row) : row :=
    {| r_file := r_file r; r_start := F (r_file r) (r_start r); r_end := F (r_file r) (r_end r); r_snip := r_snip r |}.
  Definition loc_shift (l : nat * nat * nat) : nat * nat * nat := let '(f, s, e) := l in (f, F f s, F f e).
  (* the block keeps its first line and its LAST line (line + count - 1); the count is what lies between them *)
  Definition vshift (v : viol) : viol :=
    {| v_file := v_file v; v_line := F (v_file v) (v_line v); v_col := v_col v;
       v_count := F (v_file v) (v_line v + v_count v - 1) - F (v_file v) (v_line v) + 1;
       v_occ := v_occ v; v_refs := map loc_shift (v_refs v) |}.

  Definition row_wf (r : row) : Prop := r_start r <= r_end r.

  Variable q : dquirks.
  Let B := model_bparams q.

  (* the literals of stage B the proof rests on (fail when the source changes) *)
  Lemma viol_overlap_repaired l1 l2 c1 c2 : p_viol_overlap B l1 l2 c1 c2 = (l1 <? l2 + c2).
  Proof. unfold B, model_bparams. cbn [p_viol_overlap]. destruct (q_overlap_asym q); reflexivity. Qed.

  Lemma gen_stage_b : forall s e s' e' sf,
    p_line_count B s e = e - s + 1 /\ p_blocks_overlap B s e s' e' = ((s <=? e') && (s' <=? e)) /\
    p_is_other B sf s e s' e' = (negb sf || negb (s =? s')).
  Proof. intros. repeat split; reflexivity. Qed.

  (* --- grouping --- *)
  Lemma blocks_of_shift s rows : blocks_of s (map rshift rows) = map rshift (blocks_of s rows).
  Proof. unfold blocks_of. now apply filter_map_comm. Qed.

  Lemma snip_count_shift s rows : snip_count s (map rshift rows) = snip_count s rows.
  Proof. unfold snip_count. now rewrite blocks_of_shift, map_length. Qed.

  Lemma dup_snips_shift rows : dup_snips B (map rshift rows) = dup_snips B rows.
  Proof.
    unfold dup_snips. f_equal.
    rewrite (filter_map_comm rshift (is_dup B (map rshift rows)) (is_dup B rows)).
    - now rewrite map_map.
    - intro r. unfold is_dup. cbn [rshift r_snip]. now rewrite snip_count_shift.
  Qed.

  Lemma blk_ovl_shift a b : blk_ovl B (rshift a) (rshift b) = blk_ovl B a b.
  Proof.
    unfold blk_ovl. cbn [rshift r_file r_start r_end]. destruct (Nat.eqb_spec (r_file a) (r_file b)) as [E|N]; [|reflexivity].
    cbn [andb]. destruct (gen_stage_b 0 0 0 0 false) as (_ & _ & _).
    change (p_blocks_overlap B) with dry_blocks_overlap. unfold dry_blocks_overlap. rewrite <- E. now rewrite !F_leb.
  Qed.

  Lemma places_shift s rows : places B s (map rshift rows) = map rshift (places B s rows).
  Proof.
    unfold places. rewrite blocks_of_shift.
    apply (greedy_map (blk_ovl B) rshift (fun _ => True)) with (kept := []); [intros; apply blk_ovl_shift| |constructor].
    apply Forall_forall. trivial.
  Qed.

  (* --- violations --- *)
  Lemma loc_of_shift d : loc_of (rshift d) = loc_shift (loc_of d).
  Proof. reflexivity. Qed.

  Lemma mk_viol_shift ps b : row_wf b -> mk_viol B (map rshift ps) (rshift b) = vshift (mk_viol B ps b).
  Proof.
    intro W. unfold mk_viol, vshift. cbn [v_file v_line v_col v_count v_occ v_refs rshift r_file r_start r_end].
    change (p_line_count B) with dry_line_count. unfold dry_line_count. unfold row_wf in W.
    replace (r_start b + (r_end b - r_start b + 1) - 1) with (r_end b) by lia.
    rewrite map_length. f_equal.
    rewrite (filter_map_comm rshift _ (fun d => p_is_other B (r_file d =? r_file b) (r_start d) (r_end d) (r_start b) (r_end b))).
    - rewrite !map_map. apply map_ext. intro d. apply loc_of_shift.
    - intro d. cbn [rshift r_file r_start r_end]. change (p_is_other B) with dry_is_other. unfold dry_is_other.
      destruct (Nat.eqb_spec (r_file d) (r_file b)) as [E|N]; [|reflexivity]. cbn [negb orb]. rewrite E. now rewrite F_eqb.
  Qed.

  Lemma places_wf s rows : Forall row_wf rows -> Forall row_wf (places B s rows).
  Proof.
    intro H. apply Forall_forall. intros r Hr. unfold places in Hr. apply greedy_incl in Hr.
    unfold blocks_of in Hr. apply filter_In in Hr as [Hr _]. rewrite Forall_forall in H. now apply H.
  Qed.

  Lemma viols_of_snip_shift k rows s : Forall row_wf rows ->
    viols_of_snip B k (map rshift rows) s = map vshift (viols_of_snip B k rows s).
  Proof.
    intro W. unfold viols_of_snip. rewrite places_shift, map_length.
    destruct (p_meets B (List.length (places B s rows)) k); [|reflexivity].
    rewrite !map_map. apply map_ext_in. intros b Hb. apply mk_viol_shift.
    pose proof (places_wf s rows W) as PW. rewrite Forall_forall in PW. now apply PW.
  Qed.

  Lemma raw_viols_shift k rows : Forall row_wf rows -> raw_viols B k (map rshift rows) = map vshift (raw_viols B k rows).
  Proof.
    intro W. unfold raw_viols. rewrite dup_snips_shift.
    apply flat_map_map_comm. intro s. now apply viols_of_snip_shift.
  Qed.

  (* every raw violation spans at least one line *)
  Lemma raw_count_pos k rows v : In v (raw_viols B k rows) -> 1 <= v_count v.
  Proof.
    unfold raw_viols. intro H. apply in_flat_map in H as (s & _ & H). unfold viols_of_snip in H.
    destruct (p_meets B _ k); [|destruct H]. apply in_map_iff in H as (b & <- & _). cbn [mk_viol v_count].
    change (p_line_count B) with dry_line_count. unfold dry_line_count. lia.
  Qed.

  (* --- the overlap filter of violations --- *)
  Definition vgood (f : nat) (v : viol) : Prop := v_file v = f /\ 1 <= v_count v.

  Lemma v_ovl_shift f v1 v2 : vgood f v1 -> vgood f v2 -> v_ovl B (vshift v1) (vshift v2) = v_ovl B v1 v2.
  Proof.
    intros [E1 _] [E2 C2]. unfold v_ovl. rewrite !viol_overlap_repaired. cbn [vshift v_line v_count]. rewrite E1, E2.
    remember (v_line v2 + v_count v2 - 1) as e2 eqn:He.
    assert (L : F f (v_line v2) <= F f e2) by (apply F_le; lia).
    replace (F f (v_line v2) + (F f e2 - F f (v_line v2) + 1)) with (S (F f e2)) by lia.
    replace (v_line v2 + v_count v2) with (S e2) by lia.
    change (F f (v_line v1) <? S (F f e2)) with (F f (v_line v1) <=? F f e2). change (v_line v1 <? S e2) with (v_line v1 <=? e2).
    apply F_leb.
  Qed.

  Lemma vshift_count_pos v : 1 <= v_count (vshift v).
  Proof. cbn [vshift v_count]. lia. Qed.

  Lemma dedup_file_shift raw f : Forall (fun v => 1 <= v_count v) raw ->
    dedup_file B (map vshift raw) f = map vshift (dedup_file B raw f).
  Proof.
    intro C. unfold dedup_file.
    rewrite (filter_map_comm vshift (in_file f) (in_file f)) by reflexivity.
    assert (G : Forall (vgood f) (filter (in_file f) raw)).
    { apply Forall_forall. intros v Hv. apply filter_In in Hv as [Hv Hf]. unfold in_file in Hf. apply Nat.eqb_eq in Hf.
      rewrite Forall_forall in C. split; [assumption|now apply C]. }
    rewrite (isort_map v_line vshift (vgood f)); [| |exact G].
    - apply (greedy_map (v_ovl B) vshift (vgood f)) with (kept := []); [apply v_ovl_shift| |constructor].
      now apply isort_forall.
    - intros a b [Ea _] [Eb _]. cbn [vshift v_line]. rewrite Ea, Eb. apply F_leb.
  Qed.

  Lemma viol_files_shift raw : viol_files (map vshift raw) = viol_files raw.
  Proof. unfold viol_files. now rewrite map_map. Qed.

  Lemma dedup_viols_shift raw : Forall (fun v => 1 <= v_count v) raw ->
    dedup_viols B (map vshift raw) = map vshift (dedup_viols B raw).
  Proof.
    intro C. unfold dedup_viols. rewrite viol_files_shift. apply flat_map_map_comm. intro f. now apply dedup_file_shift.
  Qed.

  (* the report of the renumbered rows is the renumbered report *)
  Theorem report_shift k rows : Forall row_wf rows -> report B k (map rshift rows) = map vshift (report B k rows).
  Proof.
    intro W. unfold report. rewrite (raw_viols_shift k rows W). apply dedup_viols_shift.
    apply Forall_forall. intros v Hv. now apply (raw_count_pos k rows).
  Qed.
End Renumber.

(* ------------------------------------------------------------------ insertion of a line into one file *)
Definition ins_renumber (fi k : nat) (f line : nat) : nat := if f =? fi then shift_ins k line else line.

Lemma ins_renumber_mono fi k f a b : a < b <-> ins_renumber fi k f a < ins_renumber fi k f b.
Proof. unfold ins_renumber. destruct (f =? fi); [apply shift_ins_lt|reflexivity]. Qed.

Theorem dry_report_renumbered q fi k kk rows : Forall row_wf rows ->
  dry_report q kk (map (rshift (ins_renumber fi k)) rows) = map (vshift (ins_renumber fi k)) (dry_report q kk rows).
Proof. intro W. unfold dry_report. apply report_shift; [apply ins_renumber_mono|exact W]. Qed.

(* what happens to the reported size: it grows by one exactly when the new line falls strictly inside the block *)
Lemma span_stretch k s e : s <= e ->
  shift_ins k e - shift_ins k s + 1 = (e - s + 1) + (if (s <=? k) && (k <? e) then 1 else 0).
Proof.
  intro H. unfold shift_ins. destruct (Nat.ltb_spec k s), (Nat.ltb_spec k e), (Nat.leb_spec s k); cbn [andb]; lia.
Qed.

Theorem vshift_count fi k v : 1 <= v_count v ->
  v_count (vshift (ins_renumber fi k) v)
  = v_count v + (if (v_file v =? fi) && (v_line v <=? k) && (k <? v_line v + v_count v - 1) then 1 else 0).
Proof.
  intro C. cbn [vshift v_count]. unfold ins_renumber. destruct (v_file v =? fi); cbn [andb].
  - rewrite span_stretch by lia. replace (v_line v + v_count v - 1 - v_line v + 1) with (v_count v) by lia. reflexivity.
  - lia.
Qed.

(* everything else of a violation only moves *)
Theorem vshift_rest fi k v :
  v_file (vshift (ins_renumber fi k) v) = v_file v /\ v_line (vshift (ins_renumber fi k) v) = ins_renumber fi k (v_file v) (v_line v) /\
  v_col (vshift (ins_renumber fi k) v) = v_col v /\ v_occ (vshift (ins_renumber fi k) v) = v_occ v /\
  v_refs (vshift (ins_renumber fi k) v) = map (loc_shift (ins_renumber fi k)) (v_refs v).
Proof. repeat split. Qed.

(* ------------------------------------------------------------------ from the files: rows are well formed and move with the insertion *)
Lemma Forall_firstn {A} (P : A -> Prop) : forall n l, Forall P l -> Forall P (firstn n l).
Proof. induction n as [|n IH]; intros [|x r] H; cbn [firstn]; try constructor; inversion H; subst; [assumption|now apply IH]. Qed.

Section Rows.
  Variable P : aparams.
  Hypothesis Hstart : p_wstart P = WIdx 0.
  Hypothesis Hend : p_wend P = WFromEnd 0.

  Definition tok_lt (a b : nat * string) : Prop := fst a < fst b.

  Lemma tokenize_from_sorted : forall ls n st, StronglySorted tok_lt (tokenize_from P n st ls).
  Proof.
    induction ls as [|l rest IH]; intros n st; [constructor|]. cbn [tokenize_from].
    destruct (a_doc l); [apply IH|]. destruct (str_empty (p_norm P l)); [apply IH|].
    destruct (snd (p_skip P (p_norm P l) st)); [apply IH|].
    constructor; [apply IH|]. apply Forall_forall. intros t Ht. apply (tokenize_from_ge P) in Ht. unfold tok_lt. cbn [fst]. lia.
  Qed.

  Lemma sorted_tl s : StronglySorted tok_lt s -> StronglySorted tok_lt (tl s).
  Proof. destruct s as [|x r]; intro H; [constructor|]. now inversion H. Qed.

  Lemma sorted_firstn : forall n s, StronglySorted tok_lt s -> StronglySorted tok_lt (firstn n s).
  Proof.
    induction n as [|n IH]; intros [|x r] H; cbn [firstn]; try constructor.
    - inversion H; subst. now apply IH.
    - inversion H; subst. now apply Forall_firstn.
  Qed.

  Lemma windows_sorted W : forall cnt s, StronglySorted tok_lt s -> Forall (StronglySorted tok_lt) (windows_from W cnt s).
  Proof.
    induction cnt as [|c IH]; intros s H; [constructor|]. cbn [windows_from]. constructor; [now apply sorted_firstn|].
    apply IH. now apply sorted_tl.
  Qed.

  Lemma last_in {A} (d : A) w : w <> [] -> In (nth 0 (rev w) d) w.
  Proof.
    intro H. apply in_rev. apply nth_In. rewrite rev_length. destruct w; [congruence|cbn [List.length]; lia].
  Qed.

  Lemma sorted_first_le_last w : StronglySorted tok_lt w -> fst (nth 0 w (0, "")) <= fst (nth 0 (rev w) (0, "")).
  Proof.
    destruct w as [|x r]; intro H; [cbn; lia|]. cbn [nth]. inversion H as [|? ? _ Hall]; subst.
    assert (I : In (nth 0 (rev (x :: r)) (0, "")) (x :: r)) by (apply last_in; discriminate).
    destruct I as [<-|I]; [lia|]. rewrite Forall_forall in Hall. specialize (Hall _ I). unfold tok_lt in Hall. lia.
  Qed.

  Lemma mk_row_wf fi w : StronglySorted tok_lt w -> row_wf (mk_row P fi w).
  Proof. intro H. unfold row_wf, mk_row. cbn [r_start r_end]. rewrite Hstart, Hend. cbn [win_pick]. now apply sorted_first_le_last. Qed.

  Lemma file_rows_wf W fi ls : Forall row_wf (file_rows P W fi ls).
  Proof.
    unfold file_rows, window_list. destruct (cmp_nat (p_guard P) _ W); [constructor|].
    apply Forall_forall. intros r Hr. apply in_map_iff in Hr as (w & <- & Hw). apply mk_row_wf.
    pose proof (windows_sorted W (List.length (tokenize P ls) - W + p_off P) (tokenize P ls) (tokenize_from_sorted ls _ _)) as S.
    rewrite Forall_forall in S. now apply S.
  Qed.

  Lemma file_rows_file W fi ls r : In r (file_rows P W fi ls) -> r_file r = fi.
  Proof. unfold file_rows. intro H. apply in_map_iff in H as (w & <- & _). reflexivity. Qed.
End Rows.

Lemma model_windows q l : p_wstart (model_aparams q l) = WIdx 0 /\ p_wend (model_aparams q l) = WFromEnd 0.
Proof. destruct l; split; reflexivity. Qed.

Lemma rows_from_wf q W : forall files i, Forall row_wf (rows_from (model_aparams q) W i files).
Proof.
  induction files as [|f r IH]; intro i; [constructor|]. cbn [rows_from]. apply Forall_app. split; [|apply IH].
  destruct (model_windows q (DryPipe.f_lang f)) as [A B]. now apply file_rows_wf.
Qed.

Lemma rows_from_file_ge PA W : forall files i r, In r (rows_from PA W i files) -> i <= r_file r.
Proof.
  induction files as [|f rest IH]; intros i r H; [destruct H|]. cbn [rows_from] in H. apply in_app_or in H as [H|H].
  - apply file_rows_file in H. lia.
  - apply IH in H. lia.
Qed.

Lemma rshift_other fi k r : r_file r <> fi -> rshift (ins_renumber fi k) r = r.
Proof. intro H. destruct r as [f s e sn]. cbn [r_file] in H. unfold rshift, ins_renumber. cbn [r_file r_start r_end r_snip]. apply Nat.eqb_neq in H. now rewrite H. Qed.

Lemma rshift_same fi k r : r_file r = fi -> rshift (ins_renumber fi k) r = row_shift (shift_ins k) r.
Proof. intro H. unfold rshift, row_shift, ins_renumber. rewrite H, Nat.eqb_refl. reflexivity. Qed.

(* the file at position j of the project gets a new line before index k *)
Definition ins_file (j k : nat) (x : aline) (files : list afile) : list afile :=
  upd j (fun f => {| DryPipe.f_lang := DryPipe.f_lang f; DryPipe.f_lines := ins k x (DryPipe.f_lines f) |}) files.

Lemma rows_from_ins q W k x : forall files j i f, nth_error files j = Some f ->
  yields_no_token (model_aparams q (DryPipe.f_lang f)) x = true -> k <= List.length (DryPipe.f_lines f) ->
  rows_from (model_aparams q) W i (ins_file j k x files)
  = map (rshift (ins_renumber (i + j) k)) (rows_from (model_aparams q) W i files).
Proof.
  induction files as [|g rest IH]; intros j i f Hn Hx Hk; [destruct j; discriminate|].
  destruct j as [|j].
  - cbn [nth_error] in Hn. injection Hn as ->. unfold ins_file. cbn [upd rows_from DryPipe.f_lang DryPipe.f_lines].
    rewrite Nat.add_0_r, map_app. f_equal.
    + rewrite (dry_rows_insert q (DryPipe.f_lang f) W i x _ k Hx Hk). apply map_ext_in. intros r Hr.
      symmetry. apply rshift_same. now apply (file_rows_file (model_aparams q (DryPipe.f_lang f)) W i (DryPipe.f_lines f)).
    + symmetry. rewrite <- (map_id (rows_from (model_aparams q) W (S i) rest)) at 2. apply map_ext_in. intros r Hr.
      apply rshift_other. apply rows_from_file_ge in Hr. lia.
  - cbn [nth_error] in Hn. unfold ins_file. cbn [upd rows_from]. rewrite map_app. f_equal.
    + symmetry. rewrite <- (map_id (file_rows _ W i (DryPipe.f_lines g))) at 2. apply map_ext_in. intros r Hr.
      apply rshift_other. apply file_rows_file in Hr. lia.
    + change (upd j _ rest) with (ins_file j k x rest). rewrite (IH j (S i) f Hn Hx Hk). now replace (S i + j) with (i + S j) by lia.
Qed.

(* the DRY report of a project after a no-token line was inserted into one of its files = the old report renumbered *)
Theorem dry_model_insert q W kk k x files j f : nth_error files j = Some f ->
  yields_no_token (model_aparams q (DryPipe.f_lang f)) x = true -> k <= List.length (DryPipe.f_lines f) ->
  dry_model q W kk (ins_file j k x files) = map (vshift (ins_renumber j k)) (dry_model q W kk files).
Proof.
  intros Hn Hx Hk. unfold dry_model, pipeline, all_rows. rewrite (rows_from_ins q W k x files j 0 f Hn Hx Hk). cbn [Nat.add].
  apply (dry_report_renumbered q j k kk). apply rows_from_wf.
Qed.

(* non-vacuity and the exact deviation: a blank line inside one of two duplicate blocks - same blocks, same places, count 3 -> 4 *)
Definition all_flags_on : dquirks := Build_dquirks true true true.
Example dry_model_insert_example :
  let body := map (raw_aline false) ["x = norm(a)"; "y = norm(b)"; "z = join(x, y)"] in
  let f1 := {| DryPipe.f_lang := DPy; DryPipe.f_lines := raw_aline false "def load(a, b):" :: body |} in
  let f2 := {| DryPipe.f_lang := DPy; DryPipe.f_lines := raw_aline false "def save(a, b):" :: body |} in
  let blank := raw_aline false "" in
  map (fun v => (v_file v, v_line v, v_count v)) (dry_model all_flags_on 3 2 [f1; f2]) = [(0, 2, 3); (1, 2, 3)] /\
  map (fun v => (v_file v, v_line v, v_count v)) (dry_model all_flags_on 3 2 (ins_file 0 2 blank [f1; f2])) = [(0, 2, 4); (1, 2, 3)].
Proof. vm_compute. split; reflexivity. Qed.
