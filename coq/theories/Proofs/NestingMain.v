(* Proofs/NestingMain.v — instantiation of the generic visitor theorems with the tables
   generated from the source (Gen/NestingGen.v), and the report-level statements of C01. *)
From TL Require Import Lib.Base Lib.GenTypes Gen.NestingGen Model.Skel Model.Nesting
     Proofs.NestingTs Proofs.NestingPy.

(* ------------------------------------------------------------------ admissible files *)
Definition ne_of (l : lang) (t : tree) : bool := match l with Py => no_else_if t | _ => true end.

Definition tree_good (l : lang) (t : tree) : bool :=
  wf t && tree_all (kind_ok l) t && ne_of l t.

Definition file_good (l : lang) (file : list tree) : bool := forallb (tree_good l) file.

Definition fn_good (l : lang) (f : fninfo) : Prop :=
  forallb wf (fn_body f) = true /\ forallb (tree_all (kind_ok l)) (fn_body f) = true
  /\ forallb (ne_of l) (fn_body f) = true
  /\ fkind_ok l (fn_kind f) = true.

Lemma wf_children_nonif k cs :
  is_branch k = false -> (match k with KIf => true | _ => false end) = false ->
  wf (T k cs) = true -> forallb wf cs = true.
Proof.
  intros Hb Hk Hw. cbn [wf] in Hw. rewrite Hb in Hw. cbn [negb andb] in Hw.
  apply andb_prop in Hw. destruct Hw as [_ Hw].
  rewrite forallb_forall in Hw |- *. intros [ck ccs] Hin. specialize (Hw _ Hin). cbn beta iota in Hw.
  destruct (is_branch ck); [|exact Hw]. destruct k; cbn in Hw; try discriminate.
Qed.

Lemma no_else_if_children k cs : no_else_if (T k cs) = true -> forallb no_else_if cs = true.
Proof. cbn [no_else_if]. intros H. apply andb_prop in H. tauto. Qed.

Lemma ne_children l k cs : ne_of l (T k cs) = true -> forallb (ne_of l) cs = true.
Proof. destruct l; [apply no_else_if_children| |]; intros _; apply forallb_forall; reflexivity. Qed.

Section Fns.
  Variable l : lang.
  Let okk := kind_ok l.
  Let ne := ne_of l.

  Definition Q (t : tree) : Prop :=
    wfb t = true -> tree_all okk t = true -> ne t = true -> Forall (fn_good l) (functions_of t).

  Lemma Q_all t : Q t.
  Proof.
    induction t as [k cs IH] using tree_ind'. unfold Q. intros Hw Ha Hn.
    cbn [functions_of]. apply Forall_app. split.
    - destruct k; try constructor; [|constructor].
      (* a function node: its body is the list of children *)
      unfold wfb in Hw. cbn [is_branch] in Hw.
      cbn [tree_all] in Ha. apply andb_prop in Ha. destruct Ha as [Hk Ha].
      unfold fn_good. cbn [fn_body fn_kind]. repeat split.
      + apply (wf_children_nonif (KFn fk name line col) cs eq_refl eq_refl Hw).
      + exact Ha.
      + exact (ne_children _ _ _ Hn).
      + exact Hk.
    - (* functions below *)
      assert (Hkids : forallb (fun c => wfb c) cs = true).
      { unfold wfb in Hw. destruct (is_branch k) eqn:Hb.
        - rewrite forallb_forall in Hw |- *. intros [ck ccs] Hin. specialize (Hw _ Hin).
          pose proof (wf_not_branch _ Hw) as Hb2. cbn [tkind] in Hb2. cbn [wfb]. rewrite Hb2. exact Hw.
        - cbn [wf] in Hw. rewrite Hb in Hw. cbn [negb andb] in Hw. apply andb_prop in Hw. destruct Hw as [_ Hw].
          rewrite forallb_forall in Hw |- *. intros [ck ccs] Hin. specialize (Hw _ Hin). cbn beta iota in Hw.
          cbn [wfb]. destruct (is_branch ck); [apply andb_prop in Hw; tauto | exact Hw]. }
      cbn [tree_all] in Ha. apply andb_prop in Ha. destruct Ha as [_ Ha].
      pose proof (ne_children _ _ _ Hn) as Hns.
      clear Hw Hn. induction IH as [|c cs' Hc _ IHl]; cbn [flat_map]; [constructor|].
      cbn [forallb] in Hkids, Ha, Hns.
      apply andb_prop in Hkids. destruct Hkids as [H1 H1s]. apply andb_prop in Ha. destruct Ha as [H2 H2s].
      apply andb_prop in Hns. destruct Hns as [H3 H3s].
      apply Forall_app. split; [apply Hc; assumption | apply IHl; assumption].
  Qed.

  Lemma file_fns_good file : file_good l file = true -> Forall (fn_good l) (file_functions file).
  Proof.
    unfold file_good, file_functions. induction file as [|t ts IH]; cbn [forallb flat_map]; [constructor|].
    intros H. apply andb_prop in H. destruct H as [Ht Hts].
    apply Forall_app. split; [|apply IH, Hts].
    unfold tree_good in Ht. apply andb_prop in Ht. destruct Ht as [Ht Hne]. apply andb_prop in Ht. destruct Ht as [Hw Ha].
    apply Q_all; [|exact Ha|exact Hne].
    destruct t as [k cs]. unfold wfb. pose proof (wf_not_branch _ Hw) as Hb. cbn [tkind] in Hb. rewrite Hb. exact Hw.
  Qed.
End Fns.

Lemma flat_map_ext_in {A B} (f g : A -> list B) l :
  Forall (fun x => f x = g x) l -> flat_map f l = flat_map g l.
Proof. induction 1 as [|x xs Hx _ IH]; cbn [flat_map]; [reflexivity|]. now rewrite Hx, IH. Qed.

Lemma skip_le d limit : negb (d <=? limit) = (limit <? d).
Proof. destruct (Nat.leb_spec d limit), (Nat.ltb_spec limit d); try reflexivity; lia. Qed.

(* ------------------------------------------------------------------ TypeScript / JavaScript *)
Section Ts.
  Variable q : nquirks.
  Hypothesis Hq : q_ts_elseif_nests q = false.

  Lemma ts_facts k : kind_ok Ts k = true -> is_branch k = false -> k <> KIf ->
                     kind_facts ts_nesting_types ts_names k = true.
  Proof. destruct k as [| | | | | | | | | | | | | | | | | | | |fk name line col]; try destruct fk; intros H1 H2 H3;
           try discriminate; try congruence; reflexivity. Qed.

  Lemma nty_not_body t : String.eqb (nty (to_ts ts_names t)) ts_body_type = false.
  Proof. destruct t as [k cs]. destruct k as [| | | | | | | | | | | | | | | | | | | |fk name line col]; try destruct fk; reflexivity. Qed.

  (* an arrow function with an expression body has no statement block: depth 0, never reported *)
  Lemma ts_calc_unjudged f : fn_kind f = FArrowExpr -> ts_calc q f = 0.
  Proof.
    intros Hk. unfold ts_calc, fn_node. rewrite Hk. cbn [to_ts]. unfold body_of. cbn [ts_names n_wrap n_blocked n_of ts_ftype wrap_in].
    unfold ts_calc_node. cbn [nkids].
    assert (Hnone : find (fun c => String.eqb (nty c) ts_body_type) (map (to_ts ts_names) (fn_body f)) = None).
    { induction (fn_body f) as [|t ts IH]; [reflexivity|]. cbn [map find]. rewrite nty_not_body. exact IH. }
    rewrite Hnone. reflexivity.
  Qed.

  Lemma ts_calc_exact f : fn_good Ts f -> judged (fn_kind f) = true -> ts_calc q f = doc_depth (fn_body f).
  Proof.
    intros (Hw & Ha & _ & Hk) Hj. unfold ts_calc, fn_node. rewrite Hq. cbn [negb].
    rewrite (calc_value ts_nesting_types true ts_names eq_refl eq_refl eq_refl (kind_ok Ts)
                        eq_refl eq_refl eq_refl eq_refl ts_facts ts_start_depth ts_body_type).
    - reflexivity.
    - reflexivity.
    - destruct (fn_kind f); try discriminate; reflexivity.
    - destruct (fn_kind f); try discriminate; reflexivity.
    - reflexivity.
    - exact Hw.
    - exact Ha.
  Qed.

  (* exact on every admissible file all of whose function nodes have a type the extractor's table lists *)
  Theorem ts_report_exact_found limit file :
    file_good Ts file = true ->
    forallb (fun f => smem (ts_ftype (fn_kind f)) (ts_fn_types q)) (file_functions file) = true ->
    ts_report q limit file = spec_report limit file.
  Proof.
    intros Hg Hfd. unfold ts_report, spec_report. apply flat_map_ext_in.
    pose proof (file_fns_good Ts file Hg) as HF. rewrite Forall_forall in HF |- *. intros f Hf.
    specialize (HF f Hf). rewrite forallb_forall in Hfd. pose proof (Hfd f Hf) as Hfound. cbn beta in Hfound.
    unfold report_fn. rewrite Hfound. change ts_skip_cmp with CLe. cbn [cmp_nat].
    destruct (judged (fn_kind f)) eqn:Hj; cbn [andb].
    - rewrite (ts_calc_exact f HF Hj).
      rewrite <- skip_le. destruct (doc_depth (fn_body f) <=? limit); reflexivity.
    - assert (Hk : fn_kind f = FArrowExpr) by (destruct (fn_kind f); try discriminate; reflexivity).
      rewrite (ts_calc_unjudged f Hk). reflexivity.
  Qed.

  (* function kinds whose node type the table found in the source lists *)
  Definition ts_listed (f : fninfo) : bool := match fn_kind f with FFnExpr | FGen => false | _ => true end.

  Lemma ts_found_all file :
    file_good Ts file = true ->
    (q_ts_fn_types_from_code q = false \/ forallb ts_listed (file_functions file) = true) ->
    forallb (fun f => smem (ts_ftype (fn_kind f)) (ts_fn_types q)) (file_functions file) = true.
  Proof.
    intros Hg Hor. pose proof (file_fns_good Ts file Hg) as HF. rewrite Forall_forall in HF.
    apply forallb_forall. intros f Hf. destruct (HF f Hf) as (_ & _ & _ & Hk).
    destruct Hor as [H0|Hl].
    - unfold ts_fn_types. rewrite H0. destruct (fn_kind f); try discriminate; reflexivity.
    - rewrite forallb_forall in Hl. specialize (Hl f Hf). unfold ts_listed in Hl.
      unfold ts_fn_types. destruct (q_ts_fn_types_from_code q); destruct (fn_kind f); try discriminate; reflexivity.
  Qed.

  Theorem ts_report_exact limit file :
    q_ts_fn_types_from_code q = false -> file_good Ts file = true -> ts_report q limit file = spec_report limit file.
  Proof. intros H0 Hg. apply ts_report_exact_found; [exact Hg|]. apply ts_found_all; [exact Hg|left; exact H0]. Qed.

  (* confinement of q_ts_fn_types_from_code: whatever the flag, exact on files without function expressions and
     generator functions *)
  Theorem ts_report_exact_listed limit file :
    file_good Ts file = true -> forallb ts_listed (file_functions file) = true ->
    ts_report q limit file = spec_report limit file.
  Proof. intros Hg Hl. apply ts_report_exact_found; [exact Hg|]. apply ts_found_all; [exact Hg|right; exact Hl]. Qed.
End Ts.

(* ------------------------------------------------------------------ Rust *)
Section Rs.
  Variable q : nquirks.
  Hypothesis Hq1 : q_rs_elseif_nests q = false.

  (* the table found in the source and the corrected table both agree with `counts` *)
  Lemma rs_facts k : kind_ok Rs k = true -> is_branch k = false -> k <> KIf ->
                     kind_facts (rs_types q) rs_names k = true.
  Proof. unfold rs_types. destruct (q_rs_table_from_code q); destruct k as [| | | | | | | | | | | | | | | | | | | |fk name line col]; try destruct fk; intros H1 H2 H3;
           try discriminate; try congruence; reflexivity. Qed.

  Lemma rs_calc_exact f : fn_good Rs f -> rs_calc q f = doc_depth (fn_body f).
  Proof.
    intros (Hw & Ha & _ & Hk). unfold rs_calc, fn_node. rewrite Hq1. cbn [negb].
    assert (Hb : plain (rs_types q) rs_names (n_block rs_names) = true) by (unfold rs_types; destruct (q_rs_table_from_code q); reflexivity).
    assert (Ho : plain (rs_types q) rs_names "{" = true) by (unfold rs_types; destruct (q_rs_table_from_code q); reflexivity).
    assert (Hc : plain (rs_types q) rs_names "}" = true) by (unfold rs_types; destruct (q_rs_table_from_code q); reflexivity).
    assert (Hif : smem (n_if rs_names) (rs_types q) = true) by (unfold rs_types; destruct (q_rs_table_from_code q); reflexivity).
    assert (Hel : smem (n_else rs_names) (rs_types q) = false) by (unfold rs_types; destruct (q_rs_table_from_code q); reflexivity).
    rewrite (calc_value (rs_types q) true rs_names Hb Ho Hc (kind_ok Rs)
                        eq_refl Hif eq_refl Hel rs_facts rs_start_depth rs_body_type).
    - reflexivity.
    - reflexivity.
    - destruct (fn_kind f); try discriminate; apply rs_facts; try reflexivity; discriminate.
    - reflexivity.
    - reflexivity.
    - exact Hw.
    - exact Ha.
  Qed.

  Theorem rs_report_exact limit file :
    file_good Rs file = true -> rs_report q limit file = spec_report limit file.
  Proof.
    intros Hg. unfold rs_report, spec_report. apply flat_map_ext_in.
    pose proof (file_fns_good Rs file Hg) as HF. rewrite Forall_forall in HF |- *. intros f Hf.
    specialize (HF f Hf). rewrite (rs_calc_exact f HF).
    assert (Hj : judged (fn_kind f) = true) by (destruct HF as (_ & _ & _ & Hk); destruct (fn_kind f); try discriminate; reflexivity).
    rewrite Hj. cbn [andb].
    unfold report_fn. change (smem "function_item" rs_function_types) with true. change rs_skip_cmp with CLe. cbn [cmp_nat].
    rewrite <- skip_le. destruct (doc_depth (fn_body f) <=? limit); reflexivity.
  Qed.
End Rs.

(* ------------------------------------------------------------------ Python *)
Lemma py_found f : fkind_ok Py (fn_kind f) = true -> smem (py_fn_cls (fn_kind f)) py_function_types = true.
Proof. destruct (fn_kind f); try discriminate; reflexivity. Qed.

Section Py.
  Variable q : nquirks.
  Hypothesis Hq1 : q_py_start_from_code q = false.

  (* the table found in the source and the corrected table both agree with `counts` *)
  Lemma py_facts k : kind_ok Py k = true -> is_branch k = false -> k <> KIf ->
                     smem (py_cls k) (py_controls q) = counts k.
  Proof. unfold py_controls. destruct (q_py_table_from_code q);
         destruct k as [| | | | | | | | | | | | | | | | | | | |fk name line col]; try destruct fk; intros H1 H2 H3;
           try discriminate; try congruence; reflexivity. Qed.

  Lemma py_calc_exact f : fn_good Py f -> py_calc q (fn_body f) = sh 1 (maxl (map nest (fn_body f))).
  Proof.
    intros (Hw & Ha & Hn & _). unfold py_calc, py_start. rewrite Hq1.
    rewrite (maxl_map_ext _ (fun st => py_visit (py_controls q) (to_py st) 1 false))
      by (apply Forall_forall; intros x _; apply py_visit_src_eq).
    apply (py_calc_value (py_controls q) (kind_ok Py) py_facts 1); assumption.
  Qed.

  Theorem py_report_exact limit file :
    1 <= limit -> file_good Py file = true -> py_report q limit file = spec_report limit file.
  Proof.
    intros Hlim Hg. unfold py_report, spec_report. apply flat_map_ext_in.
    pose proof (file_fns_good Py file Hg) as HF. rewrite Forall_forall in HF |- *. intros f Hf.
    specialize (HF f Hf). rewrite (py_calc_exact f HF). destruct HF as (_ & _ & _ & Hk).
    assert (Hj : judged (fn_kind f) = true) by (destruct (fn_kind f); try discriminate; reflexivity).
    rewrite Hj. cbn [andb].
    unfold report_fn. rewrite (py_found f Hk). change py_skip_cmp with CLe. cbn [cmp_nat].
    unfold doc_depth, sh. destruct (maxl (map nest (fn_body f))) as [|m] eqn:Em; cbn [Nat.eqb].
    - (* no control structure: depth 1 never exceeds a limit >= 1 *)
      destruct (Nat.leb_spec 0 limit); [|lia]. destruct (Nat.ltb_spec limit (1 + 0)); [lia|reflexivity].
    - rewrite <- skip_le. destruct (1 + S m <=? limit); reflexivity.
  Qed.
End Py.

(* the code as it is (start depth taken from the source): exact up to the constant offset *)
Section PyActual.
  Variable q : nquirks.
  Hypothesis Hq1 : q_py_start_from_code q = true.

  Lemma py_facts_actual k : kind_ok Py k = true -> is_branch k = false -> k <> KIf ->
                            smem (py_cls k) (py_controls q) = counts k.
  Proof. unfold py_controls. destruct (q_py_table_from_code q);
         destruct k as [| | | | | | | | | | | | | | | | | | | |fk name line col]; try destruct fk; intros H1 H2 H3;
           try discriminate; try congruence; reflexivity. Qed.

  Lemma py_calc_actual f :
    fn_good Py f -> py_calc q (fn_body f) = sh py_start_depth (maxl (map nest (fn_body f))).
  Proof.
    intros (Hw & Ha & Hn & _). unfold py_calc, py_start. rewrite Hq1.
    rewrite (maxl_map_ext _ (fun st => py_visit (py_controls q) (to_py st) py_start_depth false))
      by (apply Forall_forall; intros x _; apply py_visit_src_eq).
    apply (py_calc_value (py_controls q) (kind_ok Py) py_facts_actual py_start_depth); assumption.
  Qed.

  (* with the start depth found in the source (0) the computed depth is the documented depth minus one *)
  Corollary py_calc_actual_offset f :
    fn_good Py f -> py_calc q (fn_body f) + (1 - py_start_depth) = doc_depth (fn_body f)
                    \/ (maxl (map nest (fn_body f)) = 0 /\ py_calc q (fn_body f) = 0).
  Proof.
    intros H. rewrite (py_calc_actual f H). unfold sh, doc_depth.
    destruct (maxl (map nest (fn_body f))) as [|m]; cbn [Nat.eqb]; [right; split; reflexivity|left].
    change py_start_depth with 0. lia.
  Qed.
End PyActual.

(* ------------------------------------------------------------------ wrapping the deepest statement *)
Lemma deepest_index_lt l : l <> [] -> deepest_index l < List.length l.
Proof.
  induction l as [|x xs IH]; [congruence|]. intros _. cbn [deepest_index List.length].
  destruct (maxl xs <=? x) eqn:E; [lia|]. apply Nat.leb_gt in E.
  destruct xs as [|y ys]; [cbn [maxl] in E; lia|]. specialize (IH ltac:(discriminate)). lia.
Qed.

Lemma upd_at_deepest (f : tree -> tree) (l : list tree) :
  l <> [] ->
  (forall x, In x l -> nest x = maxl (map nest l) -> nest (f x) = S (nest x)) ->
  maxl (map nest (upd_at f l (deepest_index (map nest l)))) = S (maxl (map nest l)).
Proof.
  induction l as [|x xs IH]; [congruence|]. intros _ Hf.
  cbn [map deepest_index]. destruct (maxl (map nest xs) <=? nest x) eqn:E.
  - apply Nat.leb_le in E. cbn [upd_at map maxl]. rewrite Hf; [lia|left; reflexivity|cbn [map maxl]; lia].
  - apply Nat.leb_gt in E. cbn [upd_at map maxl].
    destruct xs as [|y ys]; [cbn [map maxl] in E; lia|].
    rewrite IH; [lia|discriminate|].
    intros z Hz Hm. apply Hf; [right; exact Hz|]. cbn [map maxl] in Hm |- *. cbn [map maxl] in E. lia.
Qed.

Lemma nest_wrap_deepest k t : counts k = true -> nest (wrap_deepest k t) = S (nest t).
Proof.
  intros Hk. induction t as [k0 cs IH] using tree_ind'.
  destruct cs as [|c cs']; [cbn [wrap_deepest nest map maxl]; rewrite Hk; cbn [b2n]; lia|].
  cbn [wrap_deepest]. cbn [nest]. rewrite upd_at_deepest; [lia|discriminate|].
  intros x Hx _. rewrite Forall_forall in IH. apply IH, Hx.
Qed.

Theorem doc_depth_wrap k body : counts k = true -> doc_depth (wrap_body k body) = S (doc_depth body).
Proof.
  intros Hk. unfold doc_depth, wrap_body. destruct body as [|c cs]; [cbn [map nest maxl]; rewrite Hk; reflexivity|].
  rewrite upd_at_deepest; [lia|discriminate|]. intros x _ _. apply nest_wrap_deepest, Hk.
Qed.

(* the verdict as a function of the limit flips at exactly one value *)
Theorem verdict_flips_once body :
  exists! m, forall limit, (limit <? doc_depth body) = (limit <? m).
Proof.
  exists (doc_depth body). split; [reflexivity|].
  intros m' H. pose proof (H (doc_depth body)) as H1. pose proof (H m') as H2.
  rewrite Nat.ltb_irrefl in H1, H2. symmetry in H1. apply Nat.ltb_ge in H1. apply Nat.ltb_ge in H2. lia.
Qed.

(* message format taken from the source states the depth, and the number reads back *)
Lemma message_states_depth l line col name d :
  message l (line, col, name, d) =
  sconcat ["Function '"; name; "' has excessive nesting depth ("; show_nat d; ")"].
Proof. destruct l; reflexivity. Qed.

(* ------------------------------------------------------------------ the same skeleton in every language *)
Theorem cross_language q limit file :
  q_py_start_from_code q = false -> q_ts_elseif_nests q = false -> q_rs_elseif_nests q = false ->
  1 <= limit -> file_good Py file = true -> file_good Ts file = true -> file_good Rs file = true ->
  report Py q limit file = report Ts q limit file /\ report Ts q limit file = report Rs q limit file.
Proof.
  intros H1 H3 H4 Hl Gp Gt Gr. cbn [report].
  assert (Hlisted : forallb ts_listed (file_functions file) = true).
  { pose proof (file_fns_good Py file Gp) as HF. rewrite Forall_forall in HF. apply forallb_forall. intros f Hf.
    destruct (HF f Hf) as (_ & _ & _ & Hk). unfold ts_listed. destruct (fn_kind f); try discriminate; reflexivity. }
  rewrite (py_report_exact q H1 limit file Hl Gp), (ts_report_exact_listed q H3 limit file Gt Hlisted),
          (rs_report_exact q H4 limit file Gr). split; reflexivity.
Qed.
