(* Proofs/ConfigMain.v - the configuration model equals the specification:
   for every quirk vector whose flags are off (more precisely: off wherever they can matter for the case),
   every project (any documents in any carriers), every unit, language, CLI option list and source measures. *)
From TL Require Import Lib.Base Lib.GenTypes Model.ConfigTypes Gen.ConfigGen Model.Config Proofs.ConfigLemmas.
From Coq Require Import ZArith.

(* ------------------------------------------------------------------ facts about the generated layer *)
(* each is closed by computation on the current Gen/ConfigGen.v: editing the source breaks it *)
Ltac by_units Hu :=
  unfold units in Hu; cbn [In] in Hu;
  repeat (destruct Hu as [<-|Hu]; [vm_compute; reflexivity|]); contradiction.

Fact F_discovery : discovery_order = [".thailint.yaml"; ".thailint.json"].
Proof. reflexivity. Qed.
Fact F_pyname : pyproject_name = "pyproject.toml".
Proof. reflexivity. Qed.
Fact F_pytable : pyproject_table = ["tool"; "thailint"].
Proof. reflexivity. Qed.
Fact F_suffixes : valid_suffixes = doc_valid_suffixes.
Proof. reflexivity. Qed.
Fact F_repo_files : repo_ignore_files = [".thailintignore"; ".thailint.yaml"; ".thailint.json"].
Proof. reflexivity. Qed.
Fact F_repo_key : repo_ignore_key = "ignore".
Proof. reflexivity. Qed.
Fact F_parsers : file_parser_normalises = true /\ pyproject_parser_normalises = true.
Proof. split; reflexivity. Qed.
Lemma norm_for_eq k raw : norm_for k raw = normalize_top raw.
Proof. unfold norm_for. destruct F_parsers as [-> ->]. now destruct k. Qed.
Fact F_py_swallow : pyproject_error_swallowed = false.
Proof. reflexivity. Qed.
Fact F_retry : retry_exceptions = ["TypeError"].
Proof. reflexivity. Qed.
Fact F_global_checks : global_config_missing_exits = true /\ global_config_invalid_exits = true.
Proof. split; reflexivity. Qed.
Fact F_markers : root_markers = [".git"; ".thailint.yaml"; "pyproject.toml"].
Proof. reflexivity. Qed.
Fact F_norm : norm_from = "-" /\ norm_to = "_".
Proof. split; reflexivity. Qed.
Fact F_errors : value_error_reraised = true /\ error_exit_code = 2 /\ exit_with_violations = 1 /\ exit_clean = 0.
Proof. repeat split; reflexivity. Qed.

Definition row_proj (r : orow) : string * string * string := match r with (c, o, _, opt, _) => (c, o, opt) end.
Definition row_opt (r : orow) : string := match r with (_, _, _, opt, _) => opt end.
Fact F_cli : map row_proj cli_overrides = doc_cli_opts.
Proof. reflexivity. Qed.

(* every override row writes a non-language option into the section stored under the normalised name of
   the unit whose command it belongs to *)
Definition row_okb (r : orow) : bool :=
  match r with
  | (c, _, skey, opt, _) =>
    negb (smem opt all_languages)
    && forallb (fun u => negb (String.eqb (cmd_of u) c) || String.eqb skey (norm_key u)) units
  end.
Fact F_rows : forallb row_okb cli_overrides = true.
Proof. vm_compute. reflexivity. Qed.

Definition with_enabled (g : list (string * dval)) : list (string * dval) :=
  if has_opt g "enabled" then g else ("enabled", DBool true) :: g.
Fact F_opts u : In u units -> with_enabled (gen_opts u) = doc_opts u.
Proof. intros Hu. by_units Hu. Qed.
Fact F_guards u : In u units -> guards_of guards u = doc_guards u.
Proof. intros Hu. by_units Hu. Qed.
Fact F_lang u : In u units -> gen_lang_opts u ++ doc_extra_lang_opts u = doc_lang_opts u.
Proof. intros Hu. by_units Hu. Qed.

(* units whose rule does not find its documented section (listed defects) *)
Definition lookup_defect_units : list string :=
  ["improper-logging"; "stateless-class"; "lazy-ignores"].
Fact F_lookup u : In u units -> smem u lookup_defect_units = false -> row_good (norm_key u) (gen_lookup u) = true.
Proof.
  intros Hu. unfold units in Hu; cbn [In] in Hu.
  repeat (destruct Hu as [<-|Hu]; [vm_compute; try reflexivity; discriminate|]). contradiction.
Qed.

(* options a unit's guards, `enabled`/`ignore` handling and probes query *)
Fixpoint probe_opts (p : probe) : list string :=
  match p with
  | PAlways _ => []
  | PGt _ o | PGe _ o | PLe _ o | PNotIn _ o | PSwitchOn _ o | PSwitchOff _ o => [o]
  | PRange _ a mx => [a; mx]
  | POr a b | PAnd a b => probe_opts a ++ probe_opts b
  end.
Definition gopt (g : grow) : string := fst (fst g).
Definition queried (gs : list grow) (probes : list probe) : list string :=
  map gopt gs ++ ["enabled"; "ignore"] ++ flat_map probe_opts probes.
Fact F_queried u : In u units ->
  forallb (fun o => negb (smem o all_languages)) (queried (doc_guards u) (unit_probes u)) = true.
Proof. intros Hu. by_units Hu. Qed.
Fact F_guard_opts u : In u units -> forallb (fun g => has_opt (doc_opts u) (gopt g)) (doc_guards u) = true.
Proof. intros Hu. by_units Hu. Qed.
Fact F_enabled_opt u : In u units -> has_opt (doc_opts u) "enabled" = true.
Proof. intros Hu. by_units Hu. Qed.

(* ------------------------------------------------------------------ flags *)
Definition flags_off (q : quirks) : Prop := forall f, In f all_flags -> has q f = false.

Lemma ideal_off : flags_off ideal.
Proof. intros f _. reflexivity. Qed.

(* no guarded option resolves to a non-number / the top-level values pass every guard *)
Definition no_type_error (opts : list (string * dval)) (gs : list grow) (res : string -> option val) : Prop :=
  guard_status opts gs res <> StType.

(* what the proof needs of the vector for one case: every flag is off or cannot matter for this case *)
Record relevant_off (q : quirks) (c : case) : Prop := {
  r_section : has q (fl "section_not_read" (c_unit c)) = false;
  r_enabled : has q (fl "enabled_option_missing" (c_unit c)) = false;
  r_whole : has q (fl "whole_config_fallback" (c_unit c)) = false;
  r_lang : has q (fl "language_override_ignored" (c_unit c)) = false;
  r_cli : has q (fl "cli_override_skips_language_sections" (c_cmd c)) = false \/ c_overrides c = [];
  r_ign_py : has q "repo_ignore_not_loaded[pyproject]" = false \/ p_pyproject (c_proj c) = Absent;
  r_ign_dash : has q "repo_ignore_not_loaded[--config]" = false \/ p_dash (c_proj c) = None;
  r_global : has q "global_config_option_ignored" = false \/ p_dash (c_proj c) = None;
  r_dry : has q "dry_config_option_merges_section_only" = false \/ p_dash (c_proj c) = None;
  r_root : has q "thailint_json_is_not_a_root_marker" = false \/ p_subdir (c_proj c) = false;
  r_types : has q "wrong_type_swallowed" = false
            \/ (forall k raw, spec_selected c = LDoc k raw ->
                 no_type_error (doc_opts (c_unit c)) (doc_guards (c_unit c)) (spec_res c (section_of (c_unit c) raw)));
  r_retry : has q "language_block_error_retried_without_language" = false
            \/ (forall k raw, spec_selected c = LDoc k raw ->
                 no_type_error (doc_opts (c_unit c)) (doc_guards (c_unit c)) (spec_res c (section_of (c_unit c) raw)));
  r_shadow : has q "invalid_top_level_value_shadowed_by_language_block" = false
            \/ (forall k raw, spec_selected c = LDoc k raw ->
                 guard_status (doc_opts (c_unit c)) (doc_guards (c_unit c)) (spec_res_top c (section_of (c_unit c) raw)) = StOk);
  r_unval : has q (fl "language_block_value_not_validated" (c_unit c)) = false;
  r_nm_sect : has q (fl "non_mapping_section_crashes" (c_unit c)) = false;
  r_nm_lang : has q "non_mapping_language_block_crashes" = false
              \/ (c_overrides c = []
                  /\ forall k raw, spec_selected c = LDoc k raw -> forall l, nonmap (get l (section_of (c_unit c) raw)) = false);
}.

Lemma in_flags_unit kind u :
  In kind ["section_not_read"; "enabled_option_missing"; "whole_config_fallback"; "language_override_ignored";
           "language_block_value_not_validated"; "non_mapping_section_crashes"] ->
  In u units -> In (fl kind u) all_flags.
Proof.
  intros Hk Hu. unfold all_flags. rewrite !in_app_iff. cbn [In] in Hk.
  destruct Hk as [<-|[<-|[<-|[<-|[<-|[<-|[]]]]]]].
  - left. now apply in_map.
  - right; left. now apply in_map.
  - right; right; left. now apply in_map.
  - right; right; right; left. now apply in_map.
  - do 6 right. left. now apply in_map.
  - do 7 right. now apply in_map.
Qed.

Lemma off_relevant q c : flags_off q -> case_good c = true -> relevant_off q c.
Proof.
  intros H G. unfold case_good in G. apply andb_true_iff in G. destruct G as [Gu Gc].
  apply smem_In in Gu.
  assert (P : forall f, In f ["repo_ignore_not_loaded[pyproject]"; "repo_ignore_not_loaded[--config]";
      "global_config_option_ignored"; "dry_config_option_merges_section_only";
      "pyproject_unparsable_swallowed"; "wrong_type_swallowed";
      "language_block_error_retried_without_language"; "invalid_top_level_value_shadowed_by_language_block";
      "thailint_json_is_not_a_root_marker"; "non_mapping_language_block_crashes"] -> has q f = false).
  { intros f Hf. apply H. unfold all_flags. rewrite !in_app_iff. do 5 right. left. exact Hf. }
  constructor; try (apply H; apply in_flags_unit; [cbn [In]; tauto|exact Gu]);
    try (left; apply P; cbn [In]; tauto); try (apply P; cbn [In]; tauto).
  (* the command flag *)
  apply orb_true_iff in Gc. destruct Gc as [E|E].
  - left. apply String.eqb_eq in E. rewrite E. apply H. unfold all_flags. rewrite !in_app_iff.
    do 4 right. left. apply in_map. now apply in_map.
  - right. apply andb_true_iff in E. destruct E as [_ E]. now destruct (c_overrides c).
Qed.

(* ------------------------------------------------------------------ carrier selection *)
Lemma discovered_spec q p : discovered q p = spec_discovered p.
Proof.
  destruct p as [y j py d ig sd].
  unfold discovered, spec_discovered, swallow_py. rewrite F_py_swallow.
  destruct y, j, py; try reflexivity.
  cbv beta iota delta [discovery_order pyproject_name first_existing file_of kind_of_name p_yaml p_json p_pyproject String.eqb Ascii.eqb Bool.eqb].
  now destruct (has q _).
Qed.

Lemma dash_active_spec q c :
  (has q "global_config_option_ignored" = false \/ p_dash (c_proj c) = None) ->
  dash_active q c = p_dash (c_proj c).
Proof.
  intros H. unfold dash_active. destruct (p_dash (c_proj c)) as [d|]; [|reflexivity].
  destruct H as [H|H]; [|discriminate]. rewrite H. now destruct (d_pos d).
Qed.

Lemma eff_proj_spec q c : relevant_off q c -> eff_proj q c = c_proj c.
Proof.
  intros R. unfold eff_proj, root_found. destruct (r_root q c R) as [E|E]; rewrite E; [reflexivity|].
  cbn [negb orb]. now destruct (has q _).
Qed.

Lemma selected_spec q c : relevant_off q c -> selected q c = spec_selected c.
Proof.
  intros R. unfold selected, spec_selected, spec_dash, ignored_dash_error.
  rewrite (eff_proj_spec q c R), (discovered_spec q _), (dash_active_spec q c (r_global q c R)).
  destruct (p_dash (c_proj c)) as [d|]; [|now destruct (spec_discovered (c_proj c))].
  cbn iota. destruct (spec_discovered (c_proj c)); [reflexivity|].
  rewrite F_suffixes. destruct (d_file d); try reflexivity; now destruct (smem _ _).
Qed.

Lemma loaded_spec q c : relevant_off q c ->
  loaded q c = match spec_selected c with LErr => None | LDoc _ raw => Some (normalize_top raw) end.
Proof.
  intros R. unfold loaded.
  assert (D : dry_merge q c = false).
  { unfold dry_merge. destruct (r_dry q c R) as [H|H]; [now rewrite H|].
    rewrite H. now rewrite !andb_false_r. }
  rewrite D. rewrite ?(eff_proj_spec q c R). rewrite (selected_spec q c R). destruct (spec_selected c); [reflexivity|]. now rewrite norm_for_eq.
Qed.

Lemma spec_selected_yaml c raw k :
  spec_selected c = LDoc k raw -> (k = KYaml \/ k = KJson \/ k = KNone) ->
  p_dash (c_proj c) = None /\ code_patterns (c_proj c) = p_ignore_file (c_proj c) ++ pats raw.
Proof.
  destruct c as [[y j py ds ig sd] cmd u lang fn ovs ms].
  unfold spec_selected, spec_discovered, spec_dash, code_patterns.
  cbn [c_proj p_yaml p_json p_pyproject p_dash]. intros H K.
  destruct ds as [[pos suf f]|].
  - exfalso. cbn [d_file d_suffix] in H.
    destruct y, j, py; try discriminate; destruct f; try discriminate;
      destruct (smem suf doc_valid_suffixes); try discriminate;
      injection H as <- _; destruct K as [K|[K|K]]; discriminate.
  - split; [reflexivity|].
    destruct y, j, py; try discriminate; injection H as <- <-; try (destruct K as [K|[K|K]]; discriminate); reflexivity.
Qed.

Lemma spec_selected_kinds c raw k :
  spec_selected c = LDoc k raw ->
  (k = KJson -> p_json (c_proj c) <> Absent) /\ (k = KPy -> p_pyproject (c_proj c) <> Absent)
  /\ (k = KDash -> p_dash (c_proj c) <> None).
Proof.
  destruct c as [[y j py ds ig sd] cmd u lang fn ovs ms].
  unfold spec_selected, spec_discovered, spec_dash.
  cbn [c_proj p_yaml p_json p_pyproject p_dash]. intros H.
  destruct ds as [[pos suf f]|].
  - cbn [d_file d_suffix] in H.
    destruct y, j, py; try discriminate; destruct f; try discriminate;
      destruct (smem suf doc_valid_suffixes); try discriminate;
      injection H as <- _; repeat split; intros; discriminate.
  - destruct y, j, py; try discriminate; injection H as <- _; repeat split; intros; discriminate.
Qed.

Lemma repo_patterns_spec q c k raw : relevant_off q c ->
  spec_selected c = LDoc k raw -> repo_patterns q c = p_ignore_file (c_proj c) ++ str_list (get "ignore" raw).
Proof.
  intros R H. unfold repo_patterns. rewrite (selected_spec q c R), H, (eff_proj_spec q c R).
  change (str_list (get "ignore" raw)) with (pats raw).
  destruct (spec_selected_kinds c raw k H) as [Kj [Kp Kd]].
  destruct k.
  - now destruct (spec_selected_yaml c raw KYaml H (or_introl eq_refl)).
  - now destruct (spec_selected_yaml c raw KJson H (or_intror (or_introl eq_refl))).
  - destruct (r_ign_py q c R) as [E|E]; [now rewrite E|]. now destruct (Kp eq_refl).
  - destruct (r_ign_dash q c R) as [E|E]; [now rewrite E|]. now destruct (Kd eq_refl).
  - now destruct (spec_selected_yaml c raw KNone H (or_intror (or_intror eq_refl))).
Qed.

(* ------------------------------------------------------------------ CLI overrides *)
Definition row_ok (nk cmd : string) (r : orow) : Prop :=
  match r with (c, _, skey, opt, _) => c = cmd /\ skey = nk /\ ~ In opt all_languages end.

Lemma smem_false_notin s l : smem s l = false -> ~ In s l.
Proof. intros E I. apply smem_In in I. congruence. Qed.

Lemma rows_for_ok u cli : In u units -> Forall (row_ok (norm_key u) (cmd_of u)) (rows_for cli_overrides (cmd_of u) cli).
Proof.
  intros Hu. apply Forall_forall. intros r Hr. unfold rows_for in Hr. apply filter_In in Hr.
  destruct Hr as [Hin Hc].
  pose proof (proj1 (forallb_forall _ _) F_rows r Hin) as Hok.
  destruct r as [[[[c o] skey] opt] langs]. cbn [row_okb row_ok] in *.
  apply andb_true_iff in Hc. destruct Hc as [Hc _]. apply String.eqb_eq in Hc. subst c.
  apply andb_true_iff in Hok. destruct Hok as [Hopt Hall].
  split; [reflexivity|]. split.
  - pose proof (proj1 (forallb_forall _ _) Hall u Hu) as Hx. cbn beta in Hx.
    rewrite String.eqb_refl in Hx. cbn [negb orb] in Hx. now apply String.eqb_eq in Hx.
  - apply smem_false_notin. now destruct (smem opt all_languages).
Qed.

Lemma slist_eqb_eq a : forall b, slist_eqb a b = true -> a = b.
Proof.
  induction a as [|x xs IH]; intros [|y ys]; cbn [slist_eqb]; try discriminate; [reflexivity|].
  intros H. apply andb_true_iff in H. destruct H as [E H]. apply String.eqb_eq in E. subst. now rewrite (IH ys H).
Qed.

Lemma override_langs_off q cmd langs :
  has q (fl "cli_override_skips_language_sections" cmd) = false -> override_langs q cmd langs = all_languages.
Proof.
  intros H. unfold override_langs. rewrite H. destruct (slist_eqb langs all_languages) eqn:E; [|reflexivity].
  now apply slist_eqb_eq.
Qed.

Lemma apply_row_section q nk cmd z cfg r :
  has q (fl "cli_override_skips_language_sections" cmd) = false -> row_ok nk cmd r ->
  as_map (get nk (apply_row q z cfg r)) = overridden (row_opt r) z (as_map (get nk cfg)).
Proof.
  intros Hf. destruct r as [[[[c o] skey] opt] langs]. cbn [row_ok row_opt]. intros [-> [-> _]].
  unfold apply_row. rewrite (override_langs_off q cmd langs Hf). rewrite get_set_same. reflexivity.
Qed.

Lemma apply_rows_lookup q nk cmd z lopts lang opt rows :
  has q (fl "cli_override_skips_language_sections" cmd) = false ->
  Forall (row_ok nk cmd) rows -> In lang all_languages -> ~ In opt all_languages ->
  forall cfg,
  opt_lookup lopts (as_map (get nk (fold_left (apply_row q z) rows cfg))) lang opt
  = if existsb (fun r => String.eqb opt (row_opt r)) rows then Some (VInt z)
    else opt_lookup lopts (as_map (get nk cfg)) lang opt.
Proof.
  intros Hf Hrows Hl Ho. induction Hrows as [|r rs Hr _ IH]; intros cfg; cbn [fold_left existsb]; [reflexivity|].
  rewrite IH. destruct (existsb _ rs); [now rewrite orb_true_r|]. rewrite orb_false_r.
  rewrite (apply_row_section q nk cmd z cfg r Hf Hr).
  apply lookup_overridden; [exact Hl| |exact Ho].
  destruct r as [[[[c o] skey] op] langs]. cbn [row_ok row_opt] in *. tauto.
Qed.

Lemma smem_app s l1 l2 : smem s (l1 ++ l2) = smem s l1 || smem s l2.
Proof.
  induction l1 as [|x xs IH]; cbn [app smem]; [reflexivity|]. destruct (String.eqb s x); [reflexivity|exact IH].
Qed.

Lemma existsb_rows_targets tbl cmd cli opt :
  existsb (fun r => String.eqb opt (row_opt r)) (rows_for tbl cmd cli)
  = smem opt (flat_map (fun r => match r with (c, o, op) => if String.eqb c cmd && String.eqb o cli then [op] else [] end)
                       (map row_proj tbl)).
Proof.
  induction tbl as [|r rs IH]; cbn [rows_for filter map flat_map existsb smem]; [reflexivity|].
  destruct r as [[[[c o] skey] op] langs]. cbn [row_proj]. rewrite smem_app. fold (rows_for rs cmd cli).
  destruct (String.eqb c cmd && String.eqb o cli); cbn [existsb row_opt smem]; rewrite IH; [|reflexivity].
  now destruct (String.eqb opt op).
Qed.

Definition skey_of (r : orow) : string := match r with (_, _, skey, _, _) => skey end.
Fact F_skeys : forallb (fun r => String.eqb (norm_key (skey_of r)) (skey_of r)) cli_overrides = true.
Proof. vm_compute. reflexivity. Qed.

Lemma normal_apply_row q z cfg r : normal_dict cfg -> norm_key (skey_of r) = skey_of r -> normal_dict (apply_row q z cfg r).
Proof.
  intros Hn Hr. destruct r as [[[[c o] skey] opt] langs]. cbn [skey_of] in Hr. unfold apply_row. now apply normal_set.
Qed.

Lemma normal_apply_overrides q cmd ovs : forall cfg, normal_dict cfg -> normal_dict (apply_overrides q cli_overrides cmd ovs cfg).
Proof.
  unfold apply_overrides. induction ovs as [|ov r IH]; intros cfg Hn; cbn [fold_left]; [exact Hn|].
  apply IH. unfold apply_override.
  assert (Hrows : Forall (fun r => norm_key (skey_of r) = skey_of r) (rows_for cli_overrides cmd (fst ov))).
  { apply Forall_forall. intros x Hx. unfold rows_for in Hx. apply filter_In in Hx. destruct Hx as [Hx _].
    pose proof (proj1 (forallb_forall _ _) F_skeys x Hx) as E. now apply String.eqb_eq in E. }
  revert cfg Hn. induction Hrows as [|x xs Hx _ IHx]; intros cfg Hn; cbn [fold_left]; [exact Hn|].
  apply IHx. now apply normal_apply_row.
Qed.

Lemma override_lookup q u cli z lopts lang opt cfg :
  has q (fl "cli_override_skips_language_sections" (cmd_of u)) = false ->
  In u units -> In lang all_languages -> ~ In opt all_languages ->
  opt_lookup lopts (as_map (get (norm_key u) (apply_override q cli_overrides (cmd_of u) cfg (cli, z)))) lang opt
  = if smem opt (cli_targets (cmd_of u) cli) then Some (VInt z)
    else opt_lookup lopts (as_map (get (norm_key u) cfg)) lang opt.
Proof.
  intros Hf Hu Hl Ho. unfold apply_override. cbn [fst snd].
  rewrite (apply_rows_lookup q (norm_key u) (cmd_of u) z lopts lang opt _ Hf (rows_for_ok u cli Hu) Hl Ho).
  rewrite existsb_rows_targets, F_cli. reflexivity.
Qed.

Lemma overrides_lookup q u lopts lang opt ovs :
  has q (fl "cli_override_skips_language_sections" (cmd_of u)) = false ->
  In u units -> In lang all_languages -> ~ In opt all_languages ->
  forall cfg,
  opt_lookup lopts (as_map (get (norm_key u) (apply_overrides q cli_overrides (cmd_of u) ovs cfg))) lang opt
  = match spec_cli (cmd_of u) ovs opt with
    | Some z => Some (VInt z)
    | None => opt_lookup lopts (as_map (get (norm_key u) cfg)) lang opt
    end.
Proof.
  intros Hf Hu Hl Ho. unfold apply_overrides.
  induction ovs as [|[cli z] r IH]; intros cfg; cbn [fold_left spec_cli]; [reflexivity|].
  rewrite IH. destruct (spec_cli (cmd_of u) r opt); [reflexivity|].
  rewrite (override_lookup q u cli z lopts lang opt cfg Hf Hu Hl Ho).
  now destruct (smem opt (cli_targets (cmd_of u) cli)).
Qed.

(* ------------------------------------------------------------------ the rule on one file *)
Lemma check_guards_ext gs f g :
  (forall o, In o (map gopt gs) -> f o = g o) -> check_guards gs f = check_guards gs g.
Proof.
  induction gs as [|[[o c] b] r IH]; intros H; cbn [check_guards]; [reflexivity|].
  rewrite <- (H o) by (cbn [map gopt fst In]; now left).
  destruct (f o); [|reflexivity]. destruct (cmp_Z c z b); [reflexivity|].
  apply IH. intros o' Ho'. apply H. cbn [map In]. now right.
Qed.

Lemma fires_ext opts r1 r2 ms p :
  (forall o, In o (probe_opts p) -> r1 o = r2 o) -> fires opts r1 ms p = fires opts r2 ms p.
Proof.
  induction p as [m|m opt|m opt|m opt|m opt|m allowed mx|m opt|m opt|a IHa b IHb|a IHa b IHb];
    intros H; cbn [fires probe_opts] in *; try reflexivity;
    try (rewrite (H opt) by (cbn [In]; tauto); reflexivity).
  - rewrite (H allowed), (H mx) by (cbn [In]; tauto). reflexivity.
  - rewrite IHa, IHb; [reflexivity| |]; intros o Ho; apply H; apply in_or_app; tauto.
  - rewrite IHa, IHb; [reflexivity| |]; intros o Ho; apply H; apply in_or_app; tauto.
Qed.

Lemma filter_ext_in' {A} (f g : A -> bool) l : (forall a, In a l -> f a = g a) -> filter f l = filter g l.
Proof.
  induction l as [|x xs IH]; intros H; cbn [filter]; [reflexivity|].
  rewrite (H x) by now left. rewrite IH; [reflexivity|]. intros a Ha. apply H. now right.
Qed.

Lemma guard_status_ext opts gs probes r1 r2 :
  (forall o, In o (queried gs probes) -> r1 o = r2 o) -> guard_status opts gs r1 = guard_status opts gs r2.
Proof.
  intros H. unfold guard_status. apply check_guards_ext. intros o Ho.
  rewrite (H o); [reflexivity|]. unfold queried. apply in_or_app. now left.
Qed.

Lemma unit_body_ext opts gs probes r1 r2 fname ms :
  (forall o, In o (queried gs probes) -> r1 o = r2 o) -> unit_body opts probes r1 fname ms = unit_body opts probes r2 fname ms.
Proof.
  intros H. unfold unit_body, queried in *.
  assert (H' : forall o, In o (map gopt gs ++ ["enabled"; "ignore"] ++ flat_map probe_opts probes) ->
               (if has_opt opts o then r1 o else None) = (if has_opt opts o then r2 o else None)).
  { intros o Ho. now rewrite (H o Ho). }
  rewrite (H' "enabled") by (apply in_or_app; right; cbn [app In]; tauto).
  rewrite (H' "ignore") by (apply in_or_app; right; cbn [app In]; tauto).
  destruct (negb _); [reflexivity|]. destruct (existsb _ _); [reflexivity|].
  f_equal. apply filter_ext_in'. intros p Hp. apply fires_ext. intros o Ho.
  apply H'. apply in_or_app. right. apply in_or_app. right. apply in_flat_map. now exists p.
Qed.

Lemma unit_outcome_ext opts gs probes rv rt sw ct r1 r2 t1 t2 fname ms :
  (forall o, In o (queried gs probes) -> r1 o = r2 o) -> (forall o, In o (queried gs probes) -> t1 o = t2 o) ->
  unit_outcome opts gs probes rv rt sw ct r1 t1 fname ms = unit_outcome opts gs probes rv rt sw ct r2 t2 fname ms.
Proof.
  intros H T. unfold unit_outcome.
  rewrite (guard_status_ext opts gs probes r1 r2 H), (guard_status_ext opts gs probes t1 t2 T).
  rewrite (unit_body_ext opts gs probes r1 r2 fname ms H), (unit_body_ext opts gs probes t1 t2 fname ms T).
  reflexivity.
Qed.

(* the code-side parameters coincide with the demanded ones when they are off or cannot matter *)
Lemma unit_outcome_params opts gs probes rv rt sw ct res top fname ms :
  rv = false ->
  (rt = false \/ guard_status opts gs res <> StType) ->
  (sw = false \/ guard_status opts gs res <> StType) ->
  (ct = true \/ guard_status opts gs top = StOk) ->
  unit_outcome opts gs probes rv rt sw ct res top fname ms = unit_outcome opts gs probes false false false true res top fname ms.
Proof.
  intros -> B C D. unfold unit_outcome.
  destruct (guard_status opts gs res) eqn:E.
  - destruct D as [->|D]; [reflexivity|]. rewrite D. now destruct ct.
  - reflexivity.
  - destruct B as [->|B]; [|contradiction]. destruct C as [->|C]; [reflexivity|contradiction].
Qed.

(* ------------------------------------------------------------------ section lookup under the flags *)
Lemma lookup_row_section q u cfg :
  has q (fl "section_not_read" u) = false -> has q (fl "whole_config_fallback" u) = false ->
  normal_dict cfg ->
  match find_section (lookup_row q u) cfg with Some s => s | None => [] end = as_map (get (norm_key u) cfg).
Proof.
  intros H1 H2 Hn. unfold lookup_row. rewrite H1, H2.
  destruct (row_good (norm_key u) (gen_lookup u)) eqn:G.
  - destruct (gen_lookup u) as [[s ks] w] eqn:E. apply find_section_good; [exact Hn|].
    split; [|reflexivity]. destruct ks as [|k rest]; [destruct s; discriminate|exact G].
  - apply find_section_good; [exact Hn|]. split; [|reflexivity].
    cbn [row_good meta_src forallb]. now rewrite String.eqb_refl.
Qed.

Lemma existsb_false {A} (f : A -> bool) l : (forall a, f a = false) -> existsb f l = false.
Proof. intros H. induction l as [|x xs IH]; cbn [existsb]; [reflexivity|]. now rewrite H, IH. Qed.

(* ------------------------------------------------------------------ main theorem *)
Definition lang_good (c : case) : bool := smem (c_lang c) all_languages.

Theorem run_confined q c :
  relevant_off q c -> case_good c = true -> lang_good c = true -> run q c = spec c.
Proof.
  intros R G L. unfold run, spec.
  rewrite (loaded_spec q c R).
  destruct (spec_selected c) as [|k raw] eqn:S; [reflexivity|].
  rewrite (repo_patterns_spec q c k raw R S).
  destruct (existsb _ _); [reflexivity|].
  unfold section_crash, lang_unvalidated.
  rewrite (r_unval q c R), (r_nm_sect q c R). cbn [andb orb].
  assert (Esect : as_map (get (norm_key (c_unit c)) (normalize_top raw)) = section_of (c_unit c) raw).
  { unfold section_of. now rewrite get_normalize. }
  assert (Hsec := lookup_row_section q (c_unit c) _ (r_section q c R) (r_whole q c R)
             (normal_apply_overrides q (c_cmd c) (c_overrides c) _ (normalize_normal raw))).
  rewrite Hsec.
  assert (Hlc : lang_block_crash q (c_unit c)
                  (as_map (get (norm_key (c_unit c)) (apply_overrides q cli_overrides (c_cmd c) (c_overrides c) (normalize_top raw))))
                  (c_lang c) = false).
  { unfold lang_block_crash. destruct (r_nm_lang q c R) as [E|[Hov Hb]]; [now rewrite E|].
    rewrite Hov. cbn [apply_overrides fold_left]. rewrite Esect.
    rewrite (Hb k raw S (c_lang c)), andb_false_r. cbn [orb].
    rewrite existsb_false; [apply andb_false_r|]. intros l. apply (Hb k raw S). }
  rewrite Hlc.
  pose proof G as G'. unfold case_good in G'. apply andb_true_iff in G'. destruct G' as [Gu Gc].
  apply smem_In in Gu. apply smem_In in L.
  (* tables *)
  assert (Eopts : unit_opts q (c_unit c) = doc_opts (c_unit c)).
  { unfold unit_opts. rewrite (r_enabled q c R). apply (F_opts _ Gu). }
  rewrite Eopts, (F_guards _ Gu).
  transitivity (unit_outcome (doc_opts (c_unit c)) (doc_guards (c_unit c)) (unit_probes (c_unit c))
                             (retries q (c_unit c) "ValueError") (retries q (c_unit c) "TypeError") (swallow_types q) (checks_top q)
                             (spec_res c (section_of (c_unit c) raw)) (spec_res_top c (section_of (c_unit c) raw))
                             (c_fname c) (c_metrics c)).
  2:{ apply unit_outcome_params.
      - unfold retries. rewrite F_retry. cbn [smem String.eqb]. now rewrite andb_false_r; destruct (has q _).
      - destruct (r_retry q c R) as [E|T]; [left; unfold retries; now rewrite E|right; exact (T k raw S)].
      - destruct (r_types q c R) as [E|T]; [left; unfold swallow_types; now rewrite E|right; exact (T k raw S)].
      - destruct (r_shadow q c R) as [E|T]; [left; unfold checks_top; now rewrite E|right; exact (T k raw S)]. }
  assert (Elang : lang_opts q (c_unit c) = doc_lang_opts (c_unit c)).
  { unfold lang_opts. rewrite (r_lang q c R). apply (F_lang _ Gu). }
  rewrite Elang.
  assert (Hnl : forall o,
     In o (queried (doc_guards (c_unit c)) (unit_probes (c_unit c))) -> ~ In o all_languages).
  { intros o Ho. pose proof (proj1 (forallb_forall _ _) (F_queried _ Gu) o Ho) as E. cbn beta in E.
    apply smem_false_notin. now destruct (smem o all_languages). }
  assert (Hres : forall lopts o, In o (queried (doc_guards (c_unit c)) (unit_probes (c_unit c))) ->
     opt_lookup lopts (as_map (get (norm_key (c_unit c)) (apply_overrides q cli_overrides (c_cmd c) (c_overrides c) (normalize_top raw)))) (c_lang c) o
     = match spec_cli (c_cmd c) (c_overrides c) o with
       | Some z => Some (VInt z)
       | None => opt_lookup lopts (section_of (c_unit c) raw) (c_lang c) o
       end).
  { intros lopts o Ho. pose proof (Hnl o Ho) as Hol.
    apply orb_true_iff in Gc. destruct Gc as [Ec|Ec].
    - apply String.eqb_eq in Ec.
      destruct (r_cli q c R) as [Hf|Hnil].
      + rewrite Ec in *. rewrite (overrides_lookup q (c_unit c) _ _ o (c_overrides c) Hf Gu L Hol). now rewrite Esect.
      + rewrite Hnil. cbn [apply_overrides fold_left spec_cli]. now rewrite Esect.
    - apply andb_true_iff in Ec. destruct Ec as [_ Ec]. destruct (c_overrides c); [|discriminate].
      cbn [apply_overrides fold_left spec_cli]. now rewrite Esect. }
  apply unit_outcome_ext; intros o Ho.
  - unfold spec_res. apply Hres. exact Ho.
  - unfold spec_res_top. rewrite (Hres [] o Ho). reflexivity.
Qed.

Theorem run_exact q c :
  flags_off q -> case_good c = true -> lang_good c = true -> run q c = spec c.
Proof. intros H G L. apply run_confined; [now apply off_relevant|exact G|exact L]. Qed.
