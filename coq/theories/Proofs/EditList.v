(* Proofs/EditList.v — list surgery of Model/Edit.v: insertion, line shift, comparisons under the shift. *)
From TL Require Import Lib.Base Lib.GenTypes Model.PyStr Model.Edit.

Lemma ins_length {A} (x : A) : forall k l, List.length (ins k x l) = S (List.length l).
Proof.
  induction k as [|k IH]; intros [|y r]; cbn [ins List.length]; try reflexivity. now rewrite IH.
Qed.

Lemma map_ins {A B} (f : A -> B) (x : A) : forall k l, map f (ins k x l) = ins k (f x) (map f l).
Proof.
  induction k as [|k IH]; intros [|y r]; cbn [ins map]; try reflexivity. now rewrite IH.
Qed.

Lemma nth_error_ins_lt {A} (x : A) : forall k l i, i < k -> k <= List.length l -> nth_error (ins k x l) i = nth_error l i.
Proof.
  induction k as [|k IH]; intros l i Hi Hk; [lia|].
  destruct l as [|y r]; cbn [List.length] in Hk; [lia|]. cbn [ins].
  destruct i as [|i]; [reflexivity|]. cbn [nth_error]. apply IH; lia.
Qed.

Lemma nth_error_ins_eq {A} (x : A) : forall k l, k <= List.length l -> nth_error (ins k x l) k = Some x.
Proof.
  induction k as [|k IH]; intros l Hk; [destruct l; reflexivity|].
  destruct l as [|y r]; cbn [List.length] in Hk; [lia|]. cbn [ins nth_error]. apply IH; lia.
Qed.

Lemma nth_error_ins_gt {A} (x : A) : forall k l i, k <= i -> k <= List.length l -> nth_error (ins k x l) (S i) = nth_error l i.
Proof.
  induction k as [|k IH]; intros l i Hi Hk; [destruct l; reflexivity|].
  destruct l as [|y r]; cbn [List.length] in Hk; [lia|]. cbn [ins].
  destruct i as [|i]; [lia|]. cbn [nth_error]. apply IH; lia.
Qed.

Lemma filter_ins_false {A} (p : A -> bool) (x : A) : p x = false -> forall k l, filter p (ins k x l) = filter p l.
Proof.
  intros Hx. induction k as [|k IH]; intros [|y r]; cbn [ins filter]; rewrite ?Hx; try reflexivity. now rewrite IH.
Qed.

Lemma ins_app_end {A} (x : A) l : ins (List.length l) x l = l ++ [x].
Proof. induction l as [|y r IH]; [reflexivity|]. cbn [List.length ins app]. now rewrite IH. Qed.

(* ---------- the header window ---------- *)
Lemma filter_firstn_S {A} (p : A -> bool) : forall n l,
  match nth_error l n with Some y => p y = false | None => True end ->
  filter p (firstn (S n) l) = filter p (firstn n l).
Proof.
  induction n as [|n IH]; intros [|y r] H; try reflexivity.
  - cbn [nth_error] in H. cbn [firstn filter]. now rewrite H.
  - cbn [nth_error] in H. change (firstn (S (S n)) (y :: r)) with (y :: firstn (S n) r).
    change (firstn (S n) (y :: r)) with (y :: firstn n r). cbn [filter]. now rewrite (IH r H).
Qed.

(* inserting a line that fails p: the p-lines among the first S m lines do not change when the insertion is below
   the window or the line pushed out of the window (index m) fails p as well *)
Lemma filter_firstn_ins {A} (p : A -> bool) (x : A) : p x = false -> forall m k l,
  (S m <= k \/ match nth_error l m with Some y => p y = false | None => True end) ->
  filter p (firstn (S m) (ins k x l)) = filter p (firstn (S m) l).
Proof.
  intros Hx. induction m as [|m IH]; intros k l H.
  - destruct k as [|k].
    + destruct H as [H|H]; [lia|]. cbn [ins firstn filter]. rewrite Hx.
      destruct l as [|y r]; [reflexivity|]. cbn [nth_error] in H. cbn [firstn filter]. now rewrite H.
    + destruct l as [|y r]; cbn [ins firstn filter]; [now rewrite Hx|reflexivity].
  - destruct k as [|k].
    + destruct H as [H|H]; [lia|]. cbn [ins]. change (firstn (S (S m)) (x :: l)) with (x :: firstn (S m) l).
      cbn [filter]. rewrite Hx. symmetry. now apply filter_firstn_S.
    + destruct l as [|y r].
      * cbn [ins]. change (firstn (S (S m)) [x]) with (x :: firstn (S m) []). cbn [firstn filter]. now rewrite Hx.
      * cbn [ins]. change (firstn (S (S m)) (y :: ins k x r)) with (y :: firstn (S m) (ins k x r)).
        change (firstn (S (S m)) (y :: r)) with (y :: firstn (S m) r). cbn [filter].
        rewrite (IH k r); [reflexivity|]. destruct H as [H|H]; [left; lia|right; exact H].
Qed.

(* ---------- the shift ---------- *)
Lemma shift_ins_lt k a b : a < b <-> shift_ins k a < shift_ins k b.
Proof. unfold shift_ins. destruct (k <? a) eqn:Ea, (k <? b) eqn:Eb; rewrite ?Nat.ltb_lt, ?Nat.ltb_ge in *; lia. Qed.

Lemma shift_ins_inj k a b : shift_ins k a = shift_ins k b -> a = b.
Proof. unfold shift_ins. destruct (k <? a) eqn:Ea, (k <? b) eqn:Eb; rewrite ?Nat.ltb_lt, ?Nat.ltb_ge in *; lia. Qed.

Lemma shift_ins_not_new k v : shift_ins k v <> S k.
Proof. unfold shift_ins. destruct (k <? v) eqn:E; rewrite ?Nat.ltb_lt, ?Nat.ltb_ge in *; lia. Qed.

Lemma shift_ins_zero k : shift_ins k 0 = 0.
Proof. reflexivity. Qed.

(* every comparison operator gives the same answer on shifted line numbers *)
Lemma cmp_nat_shift c k a b : cmp_nat c (shift_ins k a) (shift_ins k b) = cmp_nat c a b.
Proof.
  unfold shift_ins. destruct (k <? a) eqn:Ea, (k <? b) eqn:Eb; rewrite ?Nat.ltb_lt, ?Nat.ltb_ge in *;
  destruct c; cbn [cmp_nat];
  repeat match goal with
         | |- context [?x <=? ?y] => destruct (Nat.leb_spec x y)
         | |- context [?x <? ?y] => destruct (Nat.ltb_spec x y)
         | |- context [?x =? ?y] => destruct (Nat.eqb_spec x y)
         end; try reflexivity; lia.
Qed.

Lemma cmp_nat_SS c a b : cmp_nat c (S a) (S b) = cmp_nat c a b.
Proof. destruct c; reflexivity. Qed.

(* a position strictly above the target: the target may move by one without changing any comparison *)
Lemma cmp_nat_far c i v : i < v -> cmp_nat c i (S v) = cmp_nat c i v.
Proof.
  intro H. destruct c; cbn [cmp_nat];
  repeat match goal with
         | |- context [?x <=? ?y] => destruct (Nat.leb_spec x y)
         | |- context [?x <? ?y] => destruct (Nat.ltb_spec x y)
         | |- context [?x =? ?y] => destruct (Nat.eqb_spec x y)
         end; try reflexivity; lia.
Qed.

(* a position strictly below the target: the position may move by one *)
Lemma cmp_nat_passed c i v : v < i -> cmp_nat c (S i) v = cmp_nat c i v.
Proof.
  intro H. destruct c; cbn [cmp_nat];
  repeat match goal with
         | |- context [?x <=? ?y] => destruct (Nat.leb_spec x y)
         | |- context [?x <? ?y] => destruct (Nat.ltb_spec x y)
         | |- context [?x =? ?y] => destruct (Nat.eqb_spec x y)
         end; try reflexivity; lia.
Qed.

(* ---------- sequences of edits ---------- *)
Lemma apply_all_app es1 es2 ls : apply_all (es1 ++ es2) ls = apply_all es2 (apply_all es1 ls).
Proof. unfold apply_all. now rewrite fold_left_app. Qed.

Lemma shift_all_app es1 es2 v : shift_all (es1 ++ es2) v = shift_all es2 (shift_all es1 v).
Proof. unfold shift_all. now rewrite fold_left_app. Qed.

(* an observation F of (file, line) that every single admissible edit preserves up to the shift is preserved by every
   sequence of edits each of which is admissible in the state it is applied to *)
Section Sequences.
  Context {R : Type} (F : list string -> nat -> R) (good : edit -> list string -> Prop).
  Hypothesis step : forall e ls v, good e ls -> F (apply e ls) (shift e v) = F ls v.

  Fixpoint good_seq (es : list edit) (ls : list string) : Prop :=
    match es with [] => True | e :: r => good e ls /\ good_seq r (apply e ls) end.

  Lemma invariant_seq : forall es ls v, good_seq es ls -> F (apply_all es ls) (shift_all es v) = F ls v.
  Proof.
    induction es as [|e r IH]; intros ls v H; [reflexivity|].
    destruct H as [H1 H2]. change (apply_all (e :: r) ls) with (apply_all r (apply e ls)).
    change (shift_all (e :: r) v) with (shift_all r (shift e v)). rewrite (IH _ _ H2). now apply step.
  Qed.
End Sequences.
