(* Proofs/SrpMain.v — report-level statements of C16: the model of `thailint srp` equals the
   specification on every admissible file and configuration, for every quirk vector each of whose
   flags is either off or irrelevant to the file (the file is outside that flag's defect class). *)
From TL Require Import Lib.Base Lib.GenTypes Model.SrpTypes Gen.SrpGen Model.SrpSpec Model.Srp
     Proofs.SrpBase Proofs.SrpEval Proofs.SrpCount.

(* every flag is off, or the file is outside the defect class of the flag *)
Definition quirks_ok (q : squirks) (f : sfile) : bool :=
  (negb (q_py_hash_in_string q) || free_py_hash f)
  && (negb (q_ts_nonpublic_counted q) || free_ts_nonpublic f)
  && (negb (q_ts_accessor_counted q) || free_ts_accessor f)
  && (negb (q_ts_block_comment_counted q) || free_ts_block f)
  && (negb (q_rs_name_collision q) || free_rs_collision f)
  && (negb (q_rs_block_comment_counted q) || free_rs_block f)
  && (negb (q_py_setter_counted q) || free_py_setter f)
  && (negb (q_py_cached_property_counted q) || free_py_cached f)
  && (negb (q_ts_class_expr_skipped q) || free_ts_class_expr f).

Definition flags_off (q : squirks) : Prop :=
  q_py_hash_in_string q = false /\ q_ts_nonpublic_counted q = false /\ q_ts_accessor_counted q = false
  /\ q_ts_block_comment_counted q = false /\ q_rs_name_collision q = false /\ q_rs_block_comment_counted q = false
  /\ q_py_setter_counted q = false /\ q_py_cached_property_counted q = false /\ q_ts_class_expr_skipped q = false.

Definition defect_free (f : sfile) : bool :=
  free_py_hash f && free_ts_nonpublic f && free_ts_accessor f && free_ts_block f && free_rs_collision f && free_rs_block f
  && free_py_setter f && free_py_cached f && free_ts_class_expr f.

Lemma flag_or a b : negb a || b = true -> a = false \/ b = true.
Proof. destruct a, b; cbn; intros H; try discriminate; tauto. Qed.

Lemma filter_id {A} (g : A -> bool) l : (forall x, In x l -> g x = true) -> filter g l = l.
Proof. intros H. apply filter_all. apply forallb_forall. exact H. Qed.

(* ------------------------------------------------------------------ Python *)
Lemma py_report_spec q s f :
  f_lang f = Py -> forallb (line_good Py) (f_lines f) = true ->
  forallb (cls_good Py (List.length (f_lines f))) (f_classes f) = true ->
  q_py_hash_in_string q = false \/ free_py_hash f = true ->
  q_py_setter_counted q = false \/ free_py_setter f = true ->
  q_py_cached_property_counted q = false \/ free_py_cached f = true ->
  py_report q (spec_conf s Py) f = flat_map (spec_class_rep s f) (f_classes f).
Proof.
  intros EL Hl Hc Hq Q5 Q6.
  assert (PL : is_lang Py f = true) by (unfold is_lang; now rewrite EL). unfold py_report. rewrite filter_const_true by reflexivity.
  apply flat_map_ext_in'. intros c Hin. pose proof (forallb_In _ _ _ Hc Hin) as Hg.
  unfold cls_good in Hg. apply andb_prop in Hg. destruct Hg as [Hg Hm]. apply andb_prop in Hg. destruct Hg as [Hg Hd].
  apply andb_prop in Hg. destruct Hg as [_ Hs]. apply Nat.eqb_eq in Hd. rewrite Hd, Nat.sub_0_r in Hs.
  unfold py_class_rep, spec_class_rep. rewrite class_rep_py, has_kw_py, EL, Hd, Nat.sub_0_r. cbn [cf_mm cf_ml cf_check cf_keywords spec_conf].
  assert (E1 : py_count_methods q c = spec_methods (c_members c)).
  { apply filter_length_ext. intros m Hm'. apply py_countable_spec; [exact (forallb_In _ _ _ Hm Hm') | |].
    - destruct Q5 as [Q5 | Q5]; [now left | right]. unfold free_py_setter in Q5. rewrite PL in Q5. cbn [negb orb] in Q5.
      pose proof (forallb_In _ _ _ (forallb_In _ _ _ Q5 Hin) Hm') as E. now apply negb_true_iff in E.
    - destruct Q6 as [Q6 | Q6]; [now left | right]. unfold free_py_cached in Q6. rewrite PL in Q6. cbn [negb orb] in Q6.
      pose proof (forallb_In _ _ _ (forallb_In _ _ _ Q6 Hin) Hm') as E. now apply negb_true_iff in E. }
  assert (E2 : py_count_loc q (f_lines f) c = spec_loc (f_lines f) (c_line c) (c_len c)).
  { apply (py_count_loc_spec (f_lines f) Py Hl q c eq_refl Hs).
    destruct Hq as [Hq | Hq]; [now left | right]. unfold free_py_hash, is_lang in Hq. rewrite EL in Hq. exact Hq. }
  now rewrite E1, E2.
Qed.

(* ------------------------------------------------------------------ TypeScript / JavaScript *)
Lemma ts_report_spec q s f l :
  l = Ts \/ l = Js -> f_lang f = l -> forallb (line_good l) (f_lines f) = true ->
  forallb (cls_good l (List.length (f_lines f))) (f_classes f) = true ->
  q_ts_nonpublic_counted q = false \/ free_ts_nonpublic f = true ->
  q_ts_accessor_counted q = false \/ free_ts_accessor f = true ->
  q_ts_block_comment_counted q = false \/ free_ts_block f = true ->
  q_ts_class_expr_skipped q = false \/ free_ts_class_expr f = true ->
  ts_report q (spec_conf s l) f = flat_map (spec_class_rep s f) (f_classes f).
Proof.
  intros Hts EL Hl Hc Q2 Q3 Q4 Q9.
  assert (TJ : is_tsjs f = true) by (unfold is_tsjs, is_lang; rewrite EL; destruct Hts as [-> | ->]; reflexivity).
  unfold ts_report. rewrite filter_id.
  2:{ intros c Hin. unfold ts_found, ts_walked_types, ts_class_node_types. destruct Q9 as [Q9 | Q9].
      - rewrite Q9. destruct (c_kind c); reflexivity.
      - unfold free_ts_class_expr in Q9. rewrite TJ in Q9. cbn [negb orb] in Q9. pose proof (forallb_In _ _ _ Q9 Hin) as E.
        revert E. destruct (q_ts_class_expr_skipped q); destruct (c_kind c); cbn; intros E; try discriminate E; reflexivity. }
  apply flat_map_ext_in'. intros c Hin. pose proof (forallb_In _ _ _ Hc Hin) as Hg.
  unfold cls_good in Hg. apply andb_prop in Hg. destruct Hg as [Hg Hm]. apply andb_prop in Hg. destruct Hg as [Hg _].
  apply andb_prop in Hg. destruct Hg as [_ Hs].
  unfold ts_class_rep, spec_class_rep. change (ts_class_name c) with (c_name c).
  rewrite class_rep_ts, has_kw_ts, EL. cbn [cf_mm cf_ml cf_check cf_keywords spec_conf].
  destruct (span_good_inv _ _ _ Hs) as (H1 & _ & _). replace (c_line c - 1 + 1) with (c_line c) by lia.
  assert (E1 : ts_count_methods q c = spec_methods (c_members c)).
  { apply filter_length_ext. intros m Hm'. apply (ts_countable_spec q l m Hts (forallb_In _ _ _ Hm Hm')).
    - destruct Q2 as [Q2 | Q2]; [now left | right]. unfold free_ts_nonpublic in Q2. rewrite TJ in Q2. cbn [negb orb] in Q2.
      pose proof (forallb_In _ _ _ (forallb_In _ _ _ Q2 Hin) Hm') as E. now apply negb_true_iff in E.
    - destruct Q3 as [Q3 | Q3]; [now left | right]. unfold free_ts_accessor in Q3. rewrite TJ in Q3. cbn [negb orb] in Q3.
      pose proof (forallb_In _ _ _ (forallb_In _ _ _ Q3 Hin) Hm') as E. now apply negb_true_iff in E. }
  assert (E2 : ts_count_loc q (f_lines f) c = spec_loc (f_lines f) (c_line c - c_deco c) (c_len c)).
  { apply (ts_count_loc_spec (f_lines f) l Hl q c Hts Hs).
    destruct Q4 as [Q4 | Q4]; [now left | right]. unfold free_ts_block in Q4. rewrite TJ in Q4. exact Q4. }
  now rewrite E1, E2.
Qed.

(* ------------------------------------------------------------------ Rust *)
Lemma rs_report_spec q s f :
  f_lang f = Rs -> forallb (line_good Rs) (f_lines f) = true ->
  forallb (struct_good (List.length (f_lines f))) (f_structs f) = true ->
  forallb (impl_good (List.length (f_lines f))) (f_impls f) = true ->
  q_rs_name_collision q = false \/ free_rs_collision f = true ->
  q_rs_block_comment_counted q = false \/ free_rs_block f = true ->
  rs_report q (spec_conf s Rs) f = flat_map (spec_struct_rep s f) (f_structs f).
Proof.
  intros EL Hl Hst Him Q3 Q4.
  assert (RL : is_lang Rs f = true) by (unfold is_lang; now rewrite EL).
  unfold rs_report. rewrite filter_const_true by reflexivity.
  apply flat_map_ext_in'. intros st Hin. pose proof (forallb_In _ _ _ Hst Hin) as Hg.
  unfold struct_good in Hg. apply andb_prop in Hg. destruct Hg as [_ Hs].
  unfold rs_struct_rep, spec_struct_rep. rewrite (filter_const_true _ (f_impls f)) by reflexivity.
  assert (EF : filter (rs_assoc q st) (f_impls f) = filter (own_impl st) (f_impls f)).
  { apply filter_ext_in. intros i Hi. apply (rs_assoc_spec q (List.length (f_lines f)) st i (forallb_In _ _ _ Him Hi)).
    destruct Q3 as [Q3 | Q3]; [now left | right]. unfold free_rs_collision in Q3. rewrite RL in Q3. cbn [negb orb] in Q3.
    exact (forallb_In _ _ _ (forallb_In _ _ _ Q3 Hin) Hi). }
  rewrite EF. change (rs_struct_name st) with (s_name st).
  rewrite class_rep_rs, has_kw_rs, EL. cbn [cf_mm cf_ml cf_check cf_keywords spec_conf].
  destruct (span_good_inv _ _ _ Hs) as (H1 & _ & _). replace (s_line st - 1 + 1) with (s_line st) by lia.
  assert (QB : q_rs_block_comment_counted q = false \/ forallb (fun x => negb (lkind_eqb (l_kind x) LBlockComment)) (f_lines f) = true).
  { destruct Q4 as [Q4 | Q4]; [now left | right]. unfold free_rs_block in Q4. rewrite RL in Q4. exact Q4. }
  assert (E1 : list_sum (map (fun i => List.length (filter rs_countable (i_members i))) (filter (own_impl st) (f_impls f)))
               = list_sum (map (fun i => spec_methods (i_members i)) (filter (own_impl st) (f_impls f)))).
  { apply list_sum_map_ext. intros i Hi. apply filter_In in Hi. destruct Hi as [Hi _].
    pose proof (forallb_In _ _ _ Him Hi) as Hgi. unfold impl_good in Hgi. apply andb_prop in Hgi. destruct Hgi as [_ Hm].
    apply filter_length_ext. intros m Hm'. apply rs_countable_spec. exact (forallb_In _ _ _ Hm Hm'). }
  assert (E2 : list_sum (map (fun i => rs_node_loc q (f_lines f) (i_line i) (i_len i)) (filter (own_impl st) (f_impls f)))
               = list_sum (map (fun i => spec_loc (f_lines f) (i_line i) (i_len i)) (filter (own_impl st) (f_impls f)))).
  { apply list_sum_map_ext. intros i Hi. apply filter_In in Hi. destruct Hi as [Hi _].
    pose proof (forallb_In _ _ _ Him Hi) as Hgi. unfold impl_good in Hgi. apply andb_prop in Hgi. destruct Hgi as [Hgi _].
    apply andb_prop in Hgi. destruct Hgi as [_ Hsp].
    exact (rs_node_loc_spec (f_lines f) Rs Hl q _ _ eq_refl Hsp QB). }
  rewrite E1, E2, (rs_node_loc_spec (f_lines f) Rs Hl q _ _ eq_refl Hs QB). reflexivity.
Qed.

(* ------------------------------------------------------------------ the report *)
Theorem report_exact q c f :
  file_good f = true -> quirks_ok q f = true -> report q c f = spec_report c f.
Proof.
  intros Hg Hq. unfold quirks_ok in Hq.
  repeat (apply andb_prop in Hq; let H := fresh "Q" in destruct Hq as [Hq H]; apply flag_or in H). apply flag_or in Hq.
  unfold file_good in Hg. apply andb_prop in Hg. destruct Hg as [Hg Hu]. apply andb_prop in Hg. destruct Hg as [He Hl].
  unfold report, report_sec. rewrite section_of_spec.
  destruct (ext_dispatch (f_lang f) (f_ext f) He) as [E1 E2]. rewrite E1, E2, from_dict_spec.
  unfold report_conf, spec_report. cbn [cf_enabled spec_conf].
  destruct (spec_enabled (spec_section c)); cbn [negb]; [|reflexivity].
  destruct (f_lang f) eqn:EL; cbn [handler_of].
  - change (String.eqb "python" "python") with true. cbn iota. now apply py_report_spec.
  - change (String.eqb "typescript" "python") with false. change (String.eqb "typescript" "typescript") with true. cbn iota.
    apply (ts_report_spec q _ f Ts); auto.
  - change (String.eqb "typescript" "python") with false. change (String.eqb "typescript" "typescript") with true. cbn iota.
    apply (ts_report_spec q _ f Js); auto.
  - change (String.eqb "rust" "python") with false. change (String.eqb "rust" "typescript") with false.
    change (String.eqb "rust" "rust") with true. cbn iota.
    apply andb_prop in Hu. destruct Hu as [Hs Hi]. now apply rs_report_spec.
Qed.

Lemma flags_off_ok q f : flags_off q -> quirks_ok q f = true.
Proof. intros (H1 & H2 & H3 & H4 & H5 & H6 & H7 & H8 & H9). unfold quirks_ok. now rewrite H1, H2, H3, H4, H5, H6, H7, H8, H9. Qed.

Lemma defect_free_ok q f : defect_free f = true -> quirks_ok q f = true.
Proof.
  unfold defect_free, quirks_ok. intros H.
  repeat (apply andb_prop in H; let E := fresh "E" in destruct H as [H E]; rewrite E). rewrite H.
  now rewrite !orb_true_r.
Qed.

(* main statement: flags off => exact on every admissible input *)
Theorem report_exact_ideal q c f : flags_off q -> file_good f = true -> report q c f = spec_report c f.
Proof. intros Hq Hg. apply report_exact; [exact Hg | now apply flags_off_ok]. Qed.

(* confinement: ANY quirk vector (the faithful one included) is exact outside the defect classes *)
Theorem report_exact_partial q c f : file_good f = true -> defect_free f = true -> report q c f = spec_report c f.
Proof. intros Hg Hd. apply report_exact; [exact Hg | now apply defect_free_ok]. Qed.
