(* Proofs/LocMagic.v — C12 for the magic-numbers model (Model/Magic.v): every violation the model emits, in
   any language, under any quirk vector and configuration, sits on the recorded line of a site of the file
   and names the value the analyzer reads from the source text of a literal of that site. *)
From Coq Require Import ZArith.
From TL Require Import Lib.Base Lib.GenTypes Gen.MagicGen Model.MagicNum Model.Magic.

(* the value v named in the message is a reading of literal `lit` in language l *)
Definition names_literal (l : mlang) (q : mquirks) (lit : lit) (v : rval) : Prop :=
  match l with
  | MPy => exists pv, py_const lit = Some pv /\ v = rval_of pv
  | MTs => exists raw, ts_extract (q_ts_hex_e_float q) (q_ts_bigint_dropped q) (lit_chars lit) = Some raw /\ v = RNum (norm raw)
  | MRs => exists raw, rs_extract (q_rs_hex_suffix_clash q) (rs_node_type lit) (lit_chars lit) = Some raw /\ v = RNum (norm raw)
  end.

Definition at_site (l : mlang) (q : mquirks) (f : file) (r : mrep) : Prop :=
  exists sc s lit, In sc (f_scopes f) /\ In s (sc_sites sc) /\ In lit (s_lits s) /\ fst r = s_line s /\ names_literal l q lit (snd r).

(* ---- Python *)
Lemma py_site_report_at q cfg t s r : In r (py_site_report q cfg t s) -> r = (p_line s, rval_of (p_val s)).
Proof.
  unfold py_site_report.
  destruct (negb _); [intros []|]. destruct (nmem _ _); [intros []|]. destruct (_ || _); [intros []|].
  intros [<-|[]]. reflexivity.
Qed.

Lemma to_py_site_in k s p : In p (to_py_site k s) -> exists lit, In lit (s_lits s) /\ py_const lit = Some (p_val p) /\ p_line p = s_line s.
Proof.
  unfold to_py_site. intros H. apply in_flat_map in H. destruct H as [lit [Hl Hp]].
  destruct (py_const lit) as [v|] eqn:E; [|destruct Hp]. destruct Hp as [<-|[]]. exists lit. cbn. auto.
Qed.

Lemma py_location q cfg f r : In r (py_report q cfg f) -> at_site MPy q f r.
Proof.
  unfold py_report. destruct (py_is_definition_file _ _ _); [intros []|]. intros H.
  apply in_flat_map in H. destruct H as [st [Hst H]]. apply in_flat_map in H. destruct H as [p [Hp Hr]].
  apply py_site_report_at in Hr. subst r.
  unfold to_py in Hst. apply in_flat_map in Hst. destruct Hst as [sc [Hsc Hst]].
  apply in_map_iff in Hst. destruct Hst as [s [<- Hs]].
  destruct (to_py_site_in _ _ _ Hp) as [lit [Hl [Hc Hline]]].
  exists sc, s, lit. cbn [fst snd]. repeat split; try assumption. exists (p_val p). auto.
Qed.

(* ---- TypeScript *)
Lemma ts_keyword_not_number a b : ts_extract a b (chars "number") = None.
Proof. destruct a, b; vm_compute; reflexivity. Qed.

Lemma ts_site_report_at q cfg t s r : In r (ts_site_report q cfg t s) ->
  exists raw, ts_extract (q_ts_hex_e_float q) (q_ts_bigint_dropped q) (t_text s) = Some raw /\ r = (t_line s, RNum (norm raw)).
Proof.
  unfold ts_site_report. destruct (negb _); [intros []|].
  destruct (ts_extract _ _ _) as [raw|] eqn:E; [|intros []].
  destruct (_ || _); [intros []|]. destruct (_ || _); [intros []|]. intros [<-|[]]. now exists raw.
Qed.

Lemma ts_location q cfg f r : In r (ts_report q cfg f) -> at_site MTs q f r.
Proof.
  unfold ts_report, to_ts. intros H. apply in_flat_map in H. destruct H as [p [Hp Hr]].
  apply ts_site_report_at in Hr. destruct Hr as [raw [Hx ->]].
  apply in_flat_map in Hp. destruct Hp as [sc [Hsc Hp]]. apply in_flat_map in Hp. destruct Hp as [s [Hs Hp]].
  unfold to_ts_site in Hp. apply in_app_or in Hp. destruct Hp as [Hp|Hp].
  - (* the `number` keyword of a type annotation is a node of type "number" whose text is no number *)
    unfold ts_keyword_nodes in Hp. destruct (s_ctx s); try (destruct Hp; fail).
    destruct Hp as [<-|[]]. cbn [t_text] in Hx. rewrite ts_keyword_not_number in Hx. discriminate.
  - apply in_map_iff in Hp. destruct Hp as [lit [<- Hl]]. cbn [t_text t_line] in *.
    exists sc, s, lit. cbn [fst snd]. repeat split; try assumption. now exists raw.
Qed.

(* ---- Rust *)
Lemma rs_site_report_at q cfg s r : In r (rs_site_report q cfg s) ->
  exists raw, rs_extract (q_rs_hex_suffix_clash q) (r_type s) (r_text s) = Some raw /\ r = (r_line s, RNum (norm raw)).
Proof.
  unfold rs_site_report. destruct (negb _); [intros []|].
  destruct (rs_extract _ _ _) as [raw|] eqn:E; [|intros []].
  destruct (nmem _ _); [intros []|]. destruct (rs_is_const _); [intros []|]. destruct (rs_is_test _); [intros []|].
  intros [<-|[]]. now exists raw.
Qed.

Lemma rs_location q cfg f r : In r (rs_report q cfg f) -> at_site MRs q f r.
Proof.
  unfold rs_report, to_rs. intros H. apply in_flat_map in H. destruct H as [p [Hp Hr]].
  apply rs_site_report_at in Hr. destruct Hr as [raw [Hx ->]].
  apply in_flat_map in Hp. destruct Hp as [sc [Hsc Hp]]. apply in_flat_map in Hp. destruct Hp as [s [Hs Hp]].
  unfold to_rs_site in Hp. apply in_map_iff in Hp. destruct Hp as [lit [<- Hl]]. cbn [r_type r_text r_line] in *.
  exists sc, s, lit. cbn [fst snd]. repeat split; try assumption. now exists raw.
Qed.

Theorem magic_location_recorded l q cfg f r : In r (report l q cfg f) -> at_site l q f r.
Proof. destruct l; cbn [report]; [apply py_location|apply ts_location|apply rs_location]. Qed.
