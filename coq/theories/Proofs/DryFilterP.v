(* Proofs/DryFilterP.v — the keyword-argument block filter (Model/DryFilter.v) drops a window only in the documented
   situation, and dropping windows - by this or any other filter - keeps the stored rows well formed, so every
   stored-rows theorem of Proofs/DryStageB.v / DrySupp.v applies to what is left. *)
From TL Require Import Lib.Base Lib.GenTypes Model.DryBase Model.DryPipe Gen.DryGen Model.DryFilter Model.Dry Model.DrySpec
     Proofs.DryGreedy Proofs.DryStageB.
From Coq Require Import Sorting.Sorted.

(* a line accepted by the matcher has the shape  ws* word+ ws* '=' rest  with rest non-empty *)
Fixpoint all_ws (s : string) : Prop := match s with EmptyString => True | String c s' => is_ws c = true /\ all_ws s' end.
Fixpoint all_word (s : string) : Prop := match s with EmptyString => True | String c s' => is_word c = true /\ all_word s' end.

Lemma skip_ws_split : forall s, exists w, all_ws w /\ s = (w ++ skip_ws s)%string.
Proof.
  induction s as [|c s [w [Hw E]]]; [exists EmptyString; split; [exact I|reflexivity]|].
  cbn [skip_ws]. destruct (is_ws c) eqn:Ec.
  - exists (String c w). split; [split; assumption|]. cbn [String.append]. f_equal. exact E.
  - exists EmptyString. split; [exact I|reflexivity].
Qed.

Lemma skip_word_split : forall s, exists w, all_word w /\ s = (w ++ skip_word s)%string.
Proof.
  induction s as [|c s [w [Hw E]]]; [exists EmptyString; split; [exact I|reflexivity]|].
  cbn [skip_word]. destruct (is_word c) eqn:Ec.
  - exists (String c w). split; [split; assumption|]. cbn [String.append]. f_equal. exact E.
  - exists EmptyString. split; [exact I|reflexivity].
Qed.

Theorem kwarg_line_shape s : kwarg_line s = true ->
  exists w1 name w2 rest, all_ws w1 /\ all_word name /\ name <> EmptyString /\ all_ws w2 /\ rest <> EmptyString /\
                          s = (w1 ++ name ++ w2 ++ String "=" rest)%string.
Proof.
  unfold kwarg_line. intros H.
  destruct (skip_ws_split s) as [w1 [Hw1 E1]]. set (s1 := skip_ws s) in *.
  destruct (starts_word s1) eqn:Es; [|discriminate].
  destruct (skip_word_split s1) as [name [Hn E2]].
  destruct (skip_ws_split (skip_word s1)) as [w2 [Hw2 E3]].
  destruct (skip_ws (skip_word s1)) as [|c rest] eqn:E4; [discriminate|].
  destruct (Ascii.eqb c "=") eqn:Ec; [|discriminate]. apply Ascii.eqb_eq in Ec. subst c.
  exists w1, name, w2, rest. repeat split; try assumption.
  - intros ->. cbn [String.append] in E2. destruct s1 as [|c s1']; [discriminate|]. cbn [starts_word] in Es.
    cbn [skip_word] in E2. rewrite Es in E2. clear -E2.
    assert (Hlen : forall a b : string, a = b -> String.length a = String.length b) by (intros; subst; reflexivity).
    apply Hlen in E2. cbn [String.length] in E2.
    assert (Hle : forall t, String.length (skip_word t) <= String.length t).
    { induction t as [|d t IH]; [cbn; lia|]. cbn [skip_word]. destruct (is_word d); cbn [String.length]; lia. }
    specialize (Hle s1'). lia.
  - destruct rest; [discriminate|]. discriminate.
  - rewrite E1 at 1. f_equal. rewrite E2 at 1. f_equal. rewrite E3 at 1. reflexivity.
Qed.

(* the filter fires only on a non-empty line range inside a multi-line call in which at least 80% of the lines are
   keyword-argument shaped *)
Theorem kwarg_filter_sound raw calls s e : kwarg_filter_ref raw calls s e = true ->
  slice_lines raw s e <> [] /\
  4 * List.length (slice_lines raw s e) <= 5 * List.length (filter kwarg_line (slice_lines raw s e)) /\
  exists a b, In (a, b) calls /\ a < b /\ a <= s /\ e <= b.
Proof.
  unfold kwarg_filter_ref, kwarg_filter_gen. destruct (slice_lines raw s e) as [|l ls] eqn:E; [discriminate|].
  destruct (cmp_nat CGe _ _) eqn:Ec; [|discriminate]. intros H. split; [discriminate|]. split.
  - cbn [cmp_nat] in Ec. apply Nat.leb_le in Ec. lia.
  - apply existsb_exists in H. destruct H as [[a b] [Hin Hc]]. unfold call_contains_ref in Hc.
    cbn [fst snd] in Hc. rewrite !andb_true_iff, Nat.ltb_lt, !Nat.leb_le in Hc. exists a, b. tauto.
Qed.

(* whatever a filter removes, the remaining stored rows are well formed *)
Theorem rows_ok_filter (p : row -> bool) rows : rows_ok rows -> rows_ok (filter p rows).
Proof.
  intros [Hs Hr Hm]. constructor.
  - apply ss_filter. exact Hs.
  - intros r Hr'. apply filter_In in Hr'. apply Hr. exact (proj1 Hr').
  - intros a b Ha Hb. apply filter_In in Ha, Hb. apply Hm; [exact (proj1 Ha)|exact (proj1 Hb)].
Qed.

(* the filter built from the literals of block_filter.py (threshold as a fraction, comparison, containment test) is
   the documented one *)
Lemma gen_kwarg_filter : dry_kwarg_cmp = CGe /\ dry_kwarg_num = 4 /\ dry_kwarg_den = 5
  /\ dry_kwarg_pattern = "^\s*\w+\s*=\s*.+,?\s*$"
  /\ (forall a b s e, dry_call_contains a b s e = call_contains_ref a b s e).
Proof. repeat split; reflexivity. Qed.

Theorem model_kwarg_filter_is_ref raw calls s e : model_kwarg_filter raw calls s e = kwarg_filter_ref raw calls s e.
Proof. reflexivity. Qed.
