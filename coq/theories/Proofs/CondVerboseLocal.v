(* Proofs/CondVerboseLocal.v — the conditional-verbose detector (Model/CondVerbose.v):
   * for EVERY quirk vector: n copies give n moved report lists; the embedding law holds for every context none of whose
     wrappers is an `if` with a verbose-like test; renamings that keep the two name tables and `get` apart commute;
   * with q_cv_per_enclosing_if = false: below a verbose `if` every logger call of its body is reported exactly once
     (nothing else is reported for the body), whatever verbose tests are nested inside;
   * confinement of the quirk: on files in which no verbose `if` lies in the body of another one, every quirk vector
     reports what the ideal one reports. *)
From Coq Require Import Permutation.
From TL Require Import Lib.Base Lib.GenTypes Gen.EmbedGen Gen.Embed2Gen Model.Embed Model.PrintStmt Model.PerfConcat Model.StatelessCls
     Model.CondVerbose Proofs.EmbedLocality Proofs.PrintStmtLocal Proofs.PerfConcatLocal Proofs.StatelessClsLocal.

(* ------------------------------------------------------------------ wrappers that are inert at ONE summary *)
Section InertAt.
  Context {S : Type} (step : S -> ast -> S) (emit : S -> ast -> list rep).
  Hypothesis step_shift : forall dl dc s t, step s (shift dl dc t) = step s t.
  Hypothesis emit_shift : forall dl dc s t, emit s (shift dl dc t) = shiftRs dl dc (emit s t).
  Variable s0 : S.

  Fixpoint inert_at (c : ctx) : Prop :=
    match c with
    | Hole => True
    | Wrap i pre post _ _ c' =>
      (forall mid, emit s0 (Node i (pre ++ mid ++ post)) = [] /\ step s0 (Node i (pre ++ mid ++ post)) = s0) /\ inert_at c'
    | Seq _ _ c' _ => inert_at c'
    end.

  Lemma inert_at_parts c frag : inert_at c ->
    hole_sum step c frag s0 = s0 /\ gen_pre step emit c frag s0 = ctx_pre step emit c s0
    /\ gen_post step emit c frag s0 = ctx_post step emit c s0.
  Proof.
    induction c as [|i pre post dl dc c' IH|pre dl c' IH post]; intros Hin.
    - repeat split.
    - destruct Hin as [Hi Hc'].
      cbn [hole_sum gen_pre gen_post ctx_pre ctx_post]. unfold wnode.
      destruct (Hi (shiftF dl dc (plug c' frag))) as [He Hs]. rewrite He, Hs.
      destruct (IH Hc') as (H1 & H2 & H3). now rewrite H1, H2, H3.
    - cbn [inert_at] in Hin. cbn [hole_sum gen_pre gen_post ctx_pre ctx_post].
      destruct (IH Hin) as (H1 & H2 & H3). now rewrite H1, H2, H3.
  Qed.

  Theorem plug_local_at c frag : inert_at c ->
    detectF step emit s0 (plug c frag) =
    ctx_pre step emit c s0 ++ shiftRs (off_l c) (off_c c) (detectF step emit s0 frag) ++ ctx_post step emit c s0.
  Proof.
    intro Hin. rewrite (plug_decompose step emit step_shift emit_shift).
    destruct (inert_at_parts c frag Hin) as (H1 & H2 & H3). now rewrite H1, H2, H3.
  Qed.

  Theorem plug_local_perm_at c frag : inert_at c ->
    Permutation (detectF step emit s0 (plug c frag))
                (shiftRs (off_l c) (off_c c) (detectF step emit s0 frag) ++ detectF step emit s0 (fillers c)).
  Proof.
    intro Hin. rewrite (plug_local_at c frag Hin), (fillers_reports step emit step_shift emit_shift).
    rewrite app_assoc. rewrite (app_assoc _ (ctx_pre step emit c s0)).
    apply Permutation_app_tail. apply Permutation_app_comm.
  Qed.
End InertAt.

Lemma flat_map_nil {A B} (f : A -> list B) l : Forall (fun x => f x = []) l -> flat_map f l = [].
Proof. induction 1 as [|x xs Hx _ IH]; cbn [flat_map]; [reflexivity|]. now rewrite Hx, IH. Qed.

(* ------------------------------------------------------------------ position independence *)
Lemma is_logger_call_shift dl dc t : is_logger_call (shift dl dc t) = is_logger_call t.
Proof.
  unfold is_logger_call. rewrite is_cls_shift, field_shift.
  destruct (field "func" t) as [|f [|g r]]; cbn [map]; try reflexivity. now rewrite is_cls_shift, nsval_shift.
Qed.

Lemma logger_method_shift dl dc t : logger_method (shift dl dc t) = logger_method t.
Proof.
  unfold logger_method. rewrite field_shift.
  destruct (field "func" t) as [|f [|g r]]; cbn [map]; try reflexivity. apply nsval_shift.
Qed.

Lemma calls_in_node i ks :
  calls_in (Node i ks) =
  (if is_logger_call (Node i ks) then [(line i, col i, "", logger_method (Node i ks))] else []) ++ flat_map calls_in ks.
Proof. reflexivity. Qed.

Lemma calls_in_shift dl dc t : calls_in (shift dl dc t) = shiftRs dl dc (calls_in t).
Proof.
  induction t as [i ks IH] using ast_ind'.
  rewrite shift_node, calls_in_node. rewrite <- shift_node.
  rewrite is_logger_call_shift, logger_method_shift, calls_in_node, shiftRs_app. f_equal.
  - destruct (is_logger_call (Node i ks)); reflexivity.
  - rewrite flat_map_map. apply (flat_map_mapped (shiftRs dl dc)); [apply shiftRs_app|reflexivity|exact IH].
Qed.

Lemma body_calls_shift dl dc t : body_calls (shift dl dc t) = shiftRs dl dc (body_calls t).
Proof.
  unfold body_calls. rewrite field_shift, flat_map_map.
  apply (flat_map_mapped (shiftRs dl dc)); [apply shiftRs_app|reflexivity|].
  apply Forall_forall. intros k _. apply calls_in_shift.
Qed.

Lemma cv_step_shift dl dc s t : cv_step s (shift dl dc t) = cv_step s t.
Proof. unfold cv_step, covered. now rewrite nrole_shift, erase_shift. Qed.

Lemma cv_emit_shift q dl dc s t : cv_emit q s (shift dl dc t) = shiftRs dl dc (cv_emit q s t).
Proof.
  unfold cv_emit, covered. rewrite erase_shift, nrole_shift, body_calls_shift.
  destruct (is_verbose_if (erase t) && (q_cv_per_enclosing_if q || negb (fst s || snd s && String.eqb (nrole t) cv_body_field)));
    reflexivity.
Qed.

Theorem cv_copies q n h frag :
  cv_reports q (copies n h frag) = flat_map (fun k => shiftRs (k * h) 0 (cv_reports q frag)) (seq 0 n).
Proof. unfold cv_reports. apply (copies_local cv_step (cv_emit q) cv_step_shift (cv_emit_shift q)). Qed.

(* ------------------------------------------------------------------ locality *)
Lemma wrap_not_verbose i pre mid post :
  cv_wrap_ok i pre = true -> is_verbose_if (erase (Node i (pre ++ mid ++ post))) = false.
Proof.
  unfold cv_wrap_ok. intro H. unfold is_verbose_if. rewrite is_cls_erase. unfold is_cls at 1. unfold ncls. cbn [ninfo].
  destruct (String.eqb (cls i) cv_if_cls) eqn:E; [|reflexivity]. cbn [negb orb andb] in H |- *.
  cbn [erase]. rewrite field_node, !map_app, !filter_app.
  rewrite (filter_role_map erase "test" pre nrole_erase).
  unfold nonverbose_test in H.
  destruct (filter (fun k => String.eqb (nrole k) "test") pre) as [|c rest]; [discriminate|].
  apply negb_true_iff in H. cbn [map app].
  destruct (map erase rest ++ filter (fun k => String.eqb (nrole k) "test") (map erase mid)
                ++ filter (fun k => String.eqb (nrole k) "test") (map erase post)); [exact H|reflexivity].
Qed.

Lemma cv_ctx_inert q c : cv_ctx_ok c = true -> inert_at cv_step (cv_emit q) (false, false) c.
Proof.
  induction c as [|i pre post dl dc c' IH|pre dl c' IH post]; cbn [cv_ctx_ok inert_at]; intro H.
  - exact I.
  - apply andb_true_iff in H. destruct H as [H1 H2]. split; [|now apply IH].
    intro mid. unfold cv_emit, cv_step. rewrite (wrap_not_verbose i pre mid post H1). split; reflexivity.
  - now apply IH.
Qed.

Theorem cv_embedding_local q c frag :
  cv_ctx_ok c = true ->
  cv_reports q (plug c frag) =
  ctx_pre cv_step (cv_emit q) c (false, false)
  ++ shiftRs (off_l c) (off_c c) (cv_reports q frag)
  ++ ctx_post cv_step (cv_emit q) c (false, false).
Proof.
  intro H. unfold cv_reports.
  apply (plug_local_at cv_step (cv_emit q) cv_step_shift (cv_emit_shift q)). now apply cv_ctx_inert.
Qed.

Theorem cv_embedding_fillers q c frag :
  cv_ctx_ok c = true ->
  Permutation (cv_reports q (plug c frag))
              (shiftRs (off_l c) (off_c c) (cv_reports q frag) ++ cv_reports q (fillers c)).
Proof.
  intro H. unfold cv_reports.
  apply (plug_local_perm_at cv_step (cv_emit q) cv_step_shift (cv_emit_shift q)). now apply cv_ctx_inert.
Qed.

(* ------------------------------------------------------------------ once per occurrence (flag off) *)
Section Ideal.
  Variable q : vquirks.
  Hypothesis Hq : q_cv_per_enclosing_if q = false.

  Lemma covered_silent t : forall b, detect cv_step (cv_emit q) (true, b) t = [].
  Proof.
    induction t as [i ks IH] using ast_ind'. intro b. rewrite detect_node.
    assert (E : cv_emit q (true, b) (Node i ks) = []).
    { unfold cv_emit, covered. rewrite Hq. cbn [fst orb negb]. now rewrite andb_false_r. }
    rewrite E. cbn [app].
    change (cv_step (true, b) (Node i ks)) with (covered (true, b) (Node i ks), is_verbose_if (erase (Node i ks))).
    unfold covered. cbn [fst orb].
    apply flat_map_nil. eapply Forall_impl; [|exact IH]. intros k Hk. apply Hk.
  Qed.

  Lemma body_kid_silent k : String.eqb (nrole k) cv_body_field = true -> detect cv_step (cv_emit q) (false, true) k = [].
  Proof.
    intro Hr. destruct k as [i ks]. rewrite detect_node.
    assert (C : covered (false, true) (Node i ks) = true) by (unfold covered; cbn [fst snd orb andb]; exact Hr).
    assert (E : cv_emit q (false, true) (Node i ks) = []).
    { unfold cv_emit. rewrite C, Hq. cbn [orb negb]. now rewrite andb_false_r. }
    rewrite E. cbn [app].
    change (cv_step (false, true) (Node i ks)) with (covered (false, true) (Node i ks), is_verbose_if (erase (Node i ks))). rewrite C.
    apply flat_map_nil. apply Forall_forall. intros k _. apply covered_silent.
  Qed.

  Lemma nonbody_kids ks :
    flat_map (detect cv_step (cv_emit q) (false, true)) ks =
    flat_map (detect cv_step (cv_emit q) (false, true)) (filter (fun k => negb (String.eqb (nrole k) cv_body_field)) ks).
  Proof.
    induction ks as [|k ks IH]; [reflexivity|]. cbn [flat_map filter].
    destruct (String.eqb (nrole k) cv_body_field) eqn:E; cbn [negb].
    - now rewrite (body_kid_silent k E), IH.
    - cbn [flat_map]. now rewrite IH.
  Qed.

  (* a verbose `if` that is not itself covered: every logger call below its body once, nothing else for the body;
     the test and the else branch are analysed on their own *)
  Theorem cv_once_per_call s t :
    is_verbose_if (erase t) = true -> covered s t = false ->
    detect cv_step (cv_emit q) s t =
    body_calls t ++ flat_map (detect cv_step (cv_emit q) (false, true))
                             (filter (fun k => negb (String.eqb (nrole k) cv_body_field)) (nkids t)).
  Proof.
    intros Hv Hc. destruct t as [i ks]. rewrite detect_node.
    unfold cv_emit, cv_step. rewrite Hv, Hc. cbn [negb andb nkids]. rewrite orb_true_r. f_equal. apply nonbody_kids.
  Qed.
End Ideal.

(* ------------------------------------------------------------------ confinement of q_cv_per_enclosing_if *)
Lemma nnv_node s i ks :
  no_nested_verbose s (Node i ks) =
  negb (is_verbose_if (erase (Node i ks)) && covered s (Node i ks)) && forallb (no_nested_verbose (cv_step s (Node i ks))) ks.
Proof. reflexivity. Qed.

Lemma cv_quirk_confined q t : forall s,
  no_nested_verbose s t = true -> detect cv_step (cv_emit q) s t = detect cv_step (cv_emit v_ideal) s t.
Proof.
  induction t as [i ks IH] using ast_ind'. intros s H. rewrite nnv_node in H.
  apply andb_true_iff in H. destruct H as [H1 H2]. apply negb_true_iff in H1.
  rewrite !detect_node. f_equal.
  - unfold cv_emit. cbn [v_ideal q_cv_per_enclosing_if].
    destruct (is_verbose_if (erase (Node i ks))); [|reflexivity]. cbn [andb] in H1 |- *. rewrite H1. cbn [negb orb].
    now rewrite orb_true_r.
  - apply flat_map_ext_F. rewrite forallb_forall in H2. rewrite Forall_forall in IH |- *.
    intros k Hk. apply (IH k Hk). now apply H2.
Qed.

Theorem cv_quirk_partial q file :
  forallb (no_nested_verbose (false, false)) file = true -> cv_reports q file = cv_reports v_ideal file.
Proof.
  intro H. unfold cv_reports, detectF. apply flat_map_ext_F. rewrite forallb_forall in H. apply Forall_forall.
  intros t Ht. apply cv_quirk_confined. now apply H.
Qed.

(* the documented condition names are among the recognised ones *)
Lemma cv_doc_names_recognised : forallb (fun x => smem x cv_verbose_names) cv_doc_verbose_names = true.
Proof. reflexivity. Qed.

(* ------------------------------------------------------------------ renaming *)
Definition cv_sigma_ok (sg : string -> string) : Prop :=
  (forall x, in_verbose (sg x) = in_verbose x)
  /\ (forall x, smem (sg x) cv_logger_methods = smem x cv_logger_methods)
  /\ keeps sg cv_get_name.

Lemma nsval_rename_cls sg c t : is_cls c t = true -> String.eqb c "Constant" = false -> nsval (rename sg t) = sg (nsval t).
Proof. intros H Hc. apply nsval_rename_nc. unfold is_cls in H. apply String.eqb_eq in H. now rewrite H. Qed.

Lemma nsval_rename_const sg t : is_cls "Constant" t = true -> nsval (rename sg t) = nsval t.
Proof. destruct t as [i ks]. unfold is_cls, ncls, nsval. cbn [rename ninfo rename_info cls sval]. intro H. now rewrite H. Qed.

Lemma str_const_in_rename sg k : str_const_in "Constant" (rename sg k) = str_const_in "Constant" k.
Proof.
  unfold str_const_in. rewrite is_cls_rename, nckind_rename.
  destruct (is_cls "Constant" k) eqn:E; [|reflexivity]. now rewrite (nsval_rename_const sg k E).
Qed.

Lemma name_in_verbose_rename sg c t : cv_sigma_ok sg -> String.eqb c "Constant" = false ->
  is_cls c (rename sg t) && in_verbose (nsval (rename sg t)) = is_cls c t && in_verbose (nsval t).
Proof.
  intros (H1 & _) Hc. rewrite is_cls_rename. destruct (is_cls c t) eqn:E; [|reflexivity]. cbn [andb].
  rewrite (nsval_rename_cls sg c t E Hc). apply H1.
Qed.

Lemma is_verbose_cond_rename sg t : cv_sigma_ok sg -> is_verbose_cond (rename sg t) = is_verbose_cond t.
Proof.
  intro H. unfold is_verbose_cond.
  rewrite (name_in_verbose_rename sg cv_name_cls t H eq_refl), (name_in_verbose_rename sg cv_attr_cls t H eq_refl).
  rewrite !is_cls_rename, !field_rename.
  assert (A1 : match map (rename sg) (field "slice" t) with [k] => str_const_in cv_slice_cls k | _ => false end
               = match field "slice" t with [k] => str_const_in cv_slice_cls k | _ => false end).
  { destruct (field "slice" t) as [|k [|k' r]]; cbn [map]; try reflexivity. change cv_slice_cls with "Constant". apply str_const_in_rename. }
  assert (A2 : match map (rename sg) (field "func" t) with [f] => named cv_get_attr_cls cv_get_name f | _ => false end
               = match field "func" t with [f] => named cv_get_attr_cls cv_get_name f | _ => false end).
  { destruct (field "func" t) as [|f [|g r]]; cbn [map]; try reflexivity. destruct H as (_ & _ & H3).
    apply (named_rename_ident sg cv_get_attr_cls cv_get_name f eq_refl H3). }
  assert (A3 : match map (rename sg) (field "args" t) with a :: _ => str_const_in cv_arg_cls a | [] => false end
               = match field "args" t with a :: _ => str_const_in cv_arg_cls a | [] => false end).
  { destruct (field "args" t) as [|a r]; cbn [map]; [reflexivity|]. change cv_arg_cls with "Constant". apply str_const_in_rename. }
  now rewrite A1, A2, A3.
Qed.

Lemma is_verbose_if_rename sg t : cv_sigma_ok sg -> is_verbose_if (rename sg t) = is_verbose_if t.
Proof.
  intro H. unfold is_verbose_if. rewrite is_cls_rename, field_rename.
  destruct (field "test" t) as [|c [|c' r]]; cbn [map]; try reflexivity. now rewrite is_verbose_cond_rename.
Qed.

Lemma is_logger_call_rename sg t : cv_sigma_ok sg -> is_logger_call (rename sg t) = is_logger_call t.
Proof.
  intros (_ & H2 & _). unfold is_logger_call. rewrite is_cls_rename, field_rename.
  destruct (field "func" t) as [|f [|g r]]; cbn [map]; try reflexivity. rewrite is_cls_rename.
  destruct (is_cls cv_logger_attr_cls f) eqn:E; [|reflexivity]. cbn [andb]. f_equal.
  rewrite (nsval_rename_cls sg _ f E eq_refl). apply H2.
Qed.

Lemma logger_method_rename sg t : is_logger_call t = true -> logger_method (rename sg t) = sg (logger_method t).
Proof.
  unfold is_logger_call, logger_method. rewrite field_rename.
  destruct (field "func" t) as [|f [|g r]]; cbn [map]; intro H; try (rewrite andb_false_r in H; discriminate).
  apply andb_true_iff in H. destruct H as [_ H]. apply andb_true_iff in H. destruct H as [E _].
  apply (nsval_rename_cls sg _ f E eq_refl).
Qed.

Lemma calls_in_rename sg t : cv_sigma_ok sg -> calls_in (rename sg t) = map (renameR sg) (calls_in t).
Proof.
  intro H. induction t as [i ks IH] using ast_ind'.
  rewrite rename_node, calls_in_node. rewrite <- rename_node.
  rewrite (is_logger_call_rename sg _ H), calls_in_node, map_app. f_equal.
  - destruct (is_logger_call (Node i ks)) eqn:E; [|reflexivity]. rewrite (logger_method_rename sg _ E). reflexivity.
  - rewrite flat_map_map. apply (flat_map_mapped (map (renameR sg))); [apply map_app|reflexivity|exact IH].
Qed.

Lemma body_calls_rename sg t : cv_sigma_ok sg -> body_calls (rename sg t) = map (renameR sg) (body_calls t).
Proof.
  intro H. unfold body_calls. rewrite field_rename, flat_map_map.
  apply (flat_map_mapped (map (renameR sg))); [apply map_app|reflexivity|].
  apply Forall_forall. intros k _. now apply calls_in_rename.
Qed.

Lemma cv_step_rename sg s t : cv_sigma_ok sg -> cv_step s (rename sg t) = cv_step s t.
Proof. intro H. unfold cv_step, covered. now rewrite nrole_rename, erase_rename, is_verbose_if_rename. Qed.

Lemma cv_emit_rename q sg s t : cv_sigma_ok sg -> cv_emit q s (rename sg t) = map (renameR sg) (cv_emit q s t).
Proof.
  intro H. unfold cv_emit, covered. rewrite nrole_rename, erase_rename, is_verbose_if_rename, body_calls_rename by exact H.
  destruct (is_verbose_if (erase t) && (q_cv_per_enclosing_if q || negb (fst s || snd s && String.eqb (nrole t) cv_body_field)));
    reflexivity.
Qed.

Theorem cv_rename q sg file :
  cv_sigma_ok sg -> cv_reports q (renameF sg file) = map (renameR sg) (cv_reports q file).
Proof.
  intro H. unfold cv_reports.
  apply (renameF_commutes cv_step (cv_emit q) sg (fun s => s) (renameR sg)
           (fun s t => cv_step_rename sg s t H) (fun s t => cv_emit_rename q sg s t H)).
Qed.

(* the finite renamings the harness uses *)
From TL Require Import Model.EmbedRun.

Lemma kept_sigma (P : string -> bool) sg :
  forallb (fun p => Bool.eqb (P (fst p)) (P (snd p))) sg = true -> forall x, P (sigma_of sg x) = P x.
Proof.
  induction sg as [|[a b] r IH]; cbn [forallb sigma_of fst snd]; intros H x; [reflexivity|].
  apply andb_true_iff in H. destruct H as [H Hr]. apply Bool.eqb_prop in H.
  destruct (String.eqb_spec x a) as [->|N]; [now symmetry|now apply IH].
Qed.

Theorem cv_rename_finite q sg file :
  cv_names_kept sg = true -> avoids [cv_get_name] sg = true ->
  cv_reports q (renameF (sigma_of sg) file) = map (renameR (sigma_of sg)) (cv_reports q file).
Proof.
  intros H Ha. apply cv_rename. unfold cv_names_kept in H. apply andb_true_iff in H. destruct H as [H1 H2].
  repeat split.
  - exact (kept_sigma in_verbose sg H1).
  - exact (kept_sigma (fun x => smem x cv_logger_methods) sg H2).
  - eapply avoids_keeps; [|exact Ha]. reflexivity.
Qed.
