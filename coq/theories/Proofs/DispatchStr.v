(* Proofs/DispatchStr.v - string-level lemmas for C15: lower-casing and pathlib's suffix. *)
From TL Require Import Lib.Base Model.DispatchTypes Gen.DispatchGen Model.Dispatch.

(* ---------- lower_ascii and the dot ---------- *)
Lemma lower_ascii_dot c : is_dot (lower_ascii c) = is_dot c.
Proof. destruct c as [[] [] [] [] [] [] [] []]; reflexivity. Qed.

Lemma lower_ascii_idem c : lower_ascii (lower_ascii c) = lower_ascii c.
Proof. destruct c as [[] [] [] [] [] [] [] []]; reflexivity. Qed.

Lemma lower_idem s : lower (lower s) = lower s.
Proof. induction s as [|c t IH]; cbn [lower]; [reflexivity|]. now rewrite lower_ascii_idem, IH. Qed.

Lemma lower_length s : String.length (lower s) = String.length s.
Proof. induction s as [|c t IH]; cbn [lower String.length]; [reflexivity|]. now rewrite IH. Qed.

Fixpoint nodot (s : string) : bool :=
  match s with EmptyString => true | String c t => negb (is_dot c) && nodot t end.

Lemma nodot_lower s : nodot (lower s) = nodot s.
Proof. induction s as [|c t IH]; cbn [lower nodot]; [reflexivity|]. now rewrite lower_ascii_dot, IH. Qed.

(* an extension as pathlib produces it: a dot followed by a non-empty dot-free tail *)
Definition ext_shape (e : string) : bool :=
  match e with
  | String c t => is_dot c && nodot t && negb (String.length t =? 0)
  | EmptyString => false
  end.

Lemma ext_shape_lower e : ext_shape (lower e) = ext_shape e.
Proof.
  destruct e as [|c t]; cbn [lower ext_shape]; [reflexivity|].
  now rewrite lower_ascii_dot, nodot_lower, lower_length.
Qed.

(* ---------- rsplit_dot / py_suffix ---------- *)
Lemma rsplit_dot_nodot s : nodot s = true -> rsplit_dot s = None.
Proof.
  induction s as [|c t IH]; cbn [nodot rsplit_dot]; [reflexivity|].
  intro H. apply andb_true_iff in H as [Hc Ht]. rewrite (IH Ht).
  destruct (is_dot c); [discriminate|reflexivity].
Qed.

Lemma rsplit_dot_app s c w :
  is_dot c = true -> nodot w = true -> rsplit_dot (s ++ String c w)%string = Some (String c w).
Proof.
  intros Hc Hw. induction s as [|d t IH].
  - change (("" ++ String c w)%string) with (String c w). cbn [rsplit_dot]. rewrite (rsplit_dot_nodot w Hw), Hc. reflexivity.
  - change ((String d t ++ String c w)%string) with (String d (t ++ String c w)%string). cbn [rsplit_dot]. now rewrite IH.
Qed.

(* the suffix of  stem ++ ext  is ext, for every non-empty stem and every extension-shaped ext *)
Lemma py_suffix_app stem e :
  stem <> EmptyString -> ext_shape e = true -> py_suffix (stem ++ e)%string = e.
Proof.
  intros Hs He. destruct stem as [|d t]; [congruence|].
  destruct e as [|c w]; [discriminate|]. cbn [ext_shape] in He.
  apply andb_true_iff in He as [He Hl]. apply andb_true_iff in He as [Hc Hw].
  change ((String d t ++ String c w)%string) with (String d (t ++ String c w)%string).
  cbn [py_suffix]. rewrite (rsplit_dot_app t c w Hc Hw).
  cbn [String.length]. destruct (String.length w) as [|n]; [discriminate|]. reflexivity.
Qed.

(* an extensionless name (no dot at all after the first character, or only a trailing dot) has suffix "" *)
Lemma py_suffix_nodot c t : nodot t = true -> py_suffix (String c t) = EmptyString.
Proof. intro H. cbn [py_suffix]. now rewrite (rsplit_dot_nodot t H). Qed.

(* ---------- lookup ---------- *)
Lemma lookup_In {A} k (m : list (string * A)) v : lookup k m = Some v -> In (k, v) m.
Proof.
  induction m as [|[k' v'] rest IH]; cbn [lookup]; [discriminate|].
  destruct (String.eqb_spec k k') as [->|Hne]; intro H.
  - injection H as ->. now left.
  - right. now apply IH.
Qed.

Lemma lookup_key_In {A} k (m : list (string * A)) v : lookup k m = Some v -> In k (map fst m).
Proof. intro H. apply lookup_In in H. now apply (in_map fst) in H. Qed.

Lemma lookup_first {A} (m : list (string * A)) k v :
  forallb (fun kv => match lookup (fst kv) m with Some _ => true | None => false end) m = true ->
  In (k, v) m -> exists v', lookup k m = Some v'.
Proof.
  intros H Hin. rewrite forallb_forall in H. specialize (H _ Hin). cbn [fst] in H.
  destruct (lookup k m) as [v'|]; [now exists v'|discriminate].
Qed.

(* ---------- list helpers ---------- *)
Lemma filter_flat_map {A B} (p : B -> bool) (f : A -> list B) l :
  filter p (flat_map f l) = flat_map (fun a => filter p (f a)) l.
Proof.
  induction l as [|a l IH]; cbn [flat_map filter]; [reflexivity|].
  now rewrite filter_app, IH.
Qed.

Lemma flat_map_ext_in {A B} (f g : A -> list B) l :
  (forall a, In a l -> f a = g a) -> flat_map f l = flat_map g l.
Proof.
  induction l as [|a l IH]; cbn [flat_map]; intro H; [reflexivity|].
  rewrite (H a (or_introl eq_refl)), IH; [reflexivity|]. intros b Hb. apply H. now right.
Qed.

Lemma filter_ext_in' {A} (p q : A -> bool) l :
  (forall a, In a l -> p a = q a) -> filter p l = filter q l.
Proof.
  induction l as [|a l IH]; cbn [filter]; intro H; [reflexivity|].
  rewrite (H a (or_introl eq_refl)), IH; [reflexivity|]. intros b Hb. apply H. now right.
Qed.

Lemma existsb_false_forall {A} (p : A -> bool) l :
  (forall a, In a l -> p a = false) -> existsb p l = false.
Proof.
  induction l as [|a l IH]; cbn [existsb]; intro H; [reflexivity|].
  rewrite (H a (or_introl eq_refl)), IH; [reflexivity|]. intros b Hb. apply H. now right.
Qed.

Lemma existsb_ext_in {A} (p q : A -> bool) l :
  (forall a, In a l -> p a = q a) -> existsb p l = existsb q l.
Proof.
  induction l as [|a l IH]; cbn [existsb]; intro H; [reflexivity|].
  rewrite (H a (or_introl eq_refl)), IH; [reflexivity|]. intros b Hb. apply H. now right.
Qed.

Lemma existsb_filter {A} (p g : A -> bool) l :
  existsb p (filter g l) = existsb (fun a => g a && p a) l.
Proof.
  induction l as [|a l IH]; cbn [existsb filter]; [reflexivity|].
  destruct (g a); cbn [existsb andb]; now rewrite IH.
Qed.
