(* Proofs/DispatchStr.v - string-level lemmas for C15: lower-casing and pathlib's suffix. *)
From TL Require Import Lib.Base Model.DispatchTypes Gen.DispatchGen Model.Dispatch.

(* ---------- lower_ascii and the dot ---------- *)
Lemma lower_ascii_dot c : is_dot (lower_ascii c) = is_dot c.
Proof. destruct c as [[] [] [] [] [] [] [] []]; reflexivity. Qed.

Fixpoint nodot (s : string) : bool :=
  match s with EmptyString => true | String c t => negb (is_dot c) && nodot t end.

(* an extension as pathlib produces it: a dot followed by a non-empty dot-free tail *)
Definition ext_shape (e : string) : bool :=
  match e with
  | String c t => is_dot c && nodot t && negb (String.length t =? 0)
  | EmptyString => false
  end.

(* a byte that does not start one of the two special sequences is lower-cased on its own *)
Lemma lower_cons_plain a t :
  is_byte a 196 = false -> is_byte a 226 = false -> lower (String a t) = String (lower_ascii a) (lower t).
Proof.
  intros H1 H2. destruct t as [|b [|c t3]]; cbn [lower]; rewrite ?H1, ?H2; reflexivity.
Qed.

Lemma is_byte_not_dot a n : is_byte a n = true -> n <> 46 -> is_dot a = false.
Proof.
  unfold is_byte, is_dot. intros H Hn. apply Nat.eqb_eq in H.
  destruct (Ascii.eqb_spec a ".") as [->|]; [|reflexivity]. vm_compute in H. subst n. congruence.
Qed.

Lemma dot_plain a : is_dot a = true -> is_byte a 196 = false /\ is_byte a 226 = false.
Proof. unfold is_dot. intro H. apply Ascii.eqb_eq in H. subst a. split; reflexivity. Qed.

(* what lower does to the first characters, by cases *)
Lemma lower_cases s :
  match s with
  | EmptyString => lower s = EmptyString
  | String a t =>
      (is_byte a 196 = false /\ is_byte a 226 = false /\ lower s = String (lower_ascii a) (lower t))
      \/ (exists b t2, t = String b t2 /\ is_byte a 196 = true /\ is_byte b 176 = true
                       /\ lower s = String "i" (String (ascii_of_nat 204) (String (ascii_of_nat 135) (lower t2))))
      \/ (exists b c t3, t = String b (String c t3) /\ is_byte a 226 = true /\ is_byte b 132 = true /\ is_byte c 170 = true
                         /\ lower s = String "k" (lower t3))
      \/ (is_dot a = false /\ lower s = String (lower_ascii a) (lower t))
  end.
Proof.
  destruct s as [|a t]; [reflexivity|].
  destruct (is_byte a 196) eqn:E1.
  - destruct t as [|b t2].
    + right. right. right. split; [exact (is_byte_not_dot a 196 E1 ltac:(discriminate))|reflexivity].
    + destruct (is_byte b 176) eqn:E2.
      * right. left. exists b, t2. cbn [lower]. rewrite E1, E2. auto.
      * right. right. right. split; [exact (is_byte_not_dot a 196 E1 ltac:(discriminate))|].
        assert (E3 : is_byte a 226 = false).
        { unfold is_byte in *. apply Nat.eqb_eq in E1. rewrite E1. reflexivity. }
        cbn [lower]. rewrite E1, E2, E3. cbn [andb]. destruct t2; reflexivity.
  - destruct (is_byte a 226) eqn:E3.
    + destruct t as [|b [|c t3]].
      * right. right. right. split; [exact (is_byte_not_dot a 226 E3 ltac:(discriminate))|reflexivity].
      * right. right. right. split; [exact (is_byte_not_dot a 226 E3 ltac:(discriminate))|]. cbn [lower]. rewrite E1. reflexivity.
      * destruct (is_byte b 132 && is_byte c 170) eqn:E4.
        -- apply andb_true_iff in E4 as [E4 E5]. right. right. left. exists b, c, t3. cbn [lower]. rewrite E1, E3, E4, E5. auto.
        -- right. right. right. split; [exact (is_byte_not_dot a 226 E3 ltac:(discriminate))|].
           cbn [lower]. rewrite E1, E3. cbn [andb]. rewrite E4. reflexivity.
    + left. split; [reflexivity|]. split; [reflexivity|]. now apply lower_cons_plain.
Qed.

(* lower neither creates nor removes dots, and maps non-empty strings to non-empty strings *)
Lemma lower_props n : forall s, String.length s <= n ->
  (nodot (lower s) = true -> nodot s = true) /\ (lower s = EmptyString -> s = EmptyString).
Proof.
  induction n as [|n IH]; intros s Hlen.
  - destruct s; [split; auto|cbn in Hlen; lia].
  - pose proof (lower_cases s) as C. destruct s as [|a t]; [split; auto|].
    cbn [String.length] in Hlen.
    destruct C as [(_ & _ & E)|[(b & t2 & -> & Ha & Hb & E)|[(b & c & t3 & -> & Ha & Hb & Hc & E)|(_ & E)]]]; rewrite E.
    + split; [|discriminate]. cbn [nodot]. rewrite lower_ascii_dot. intro H. apply andb_true_iff in H as [H1 H2].
      rewrite H1. cbn [andb]. apply (IH t); [lia|exact H2].
    + split; [|discriminate]. cbn [nodot String.length] in *. intro H.
      rewrite (is_byte_not_dot a 196 Ha ltac:(discriminate)), (is_byte_not_dot b 176 Hb ltac:(discriminate)). cbn [negb andb].
      apply (IH t2); [lia|]. cbn [is_dot] in H. repeat (apply andb_true_iff in H as [_ H]). exact H.
    + split; [|discriminate]. cbn [nodot String.length] in *. intro H.
      rewrite (is_byte_not_dot a 226 Ha ltac:(discriminate)), (is_byte_not_dot b 132 Hb ltac:(discriminate)),
              (is_byte_not_dot c 170 Hc ltac:(discriminate)). cbn [negb andb].
      apply (IH t3); [lia|]. apply andb_true_iff in H as [_ H]. exact H.
    + split; [|discriminate]. cbn [nodot]. rewrite lower_ascii_dot. intro H. apply andb_true_iff in H as [H1 H2].
      rewrite H1. cbn [andb]. apply (IH t); [lia|exact H2].
Qed.

(* every spelling whose lower-casing is an extension-shaped string is itself extension-shaped *)
Lemma ext_shape_of_lower e : ext_shape (lower e) = true -> ext_shape e = true.
Proof.
  pose proof (lower_cases e) as C. destruct e as [|a t]; [cbn; discriminate|].
  destruct C as [(_ & _ & E)|[(b & t2 & -> & Ha & Hb & E)|[(b & c & t3 & -> & Ha & Hb & Hc & E)|(_ & E)]]]; rewrite E.
  - cbn [ext_shape]. rewrite lower_ascii_dot. intro H. apply andb_true_iff in H as [H H3]. apply andb_true_iff in H as [H1 H2].
    rewrite H1. cbn [andb].
    destruct (lower_props (String.length t) t (le_n _)) as [P1 P2]. rewrite (P1 H2). cbn [andb].
    destruct t as [|x y]; [|reflexivity]. cbn in H3. discriminate.
  - cbn [ext_shape is_dot]. cbn. discriminate.
  - cbn [ext_shape is_dot]. cbn. discriminate.
  - cbn [ext_shape]. rewrite lower_ascii_dot. intro H. apply andb_true_iff in H as [H H3]. apply andb_true_iff in H as [H1 H2].
    rewrite H1. cbn [andb].
    destruct (lower_props (String.length t) t (le_n _)) as [P1 P2]. rewrite (P1 H2). cbn [andb].
    destruct t as [|x y]; [|reflexivity]. cbn in H3. discriminate.
Qed.

(* ---------- rsplit_dot / py_suffix ---------- *)
Lemma rsplit_dot_nodot s : nodot s = true -> rsplit_dot s = None.
Proof.
  induction s as [|c t IH]; cbn [nodot rsplit_dot]; [reflexivity|].
  intro H. apply andb_true_iff in H as [Hc Ht]. rewrite (IH Ht).
  destruct (is_dot c); [discriminate|reflexivity].
Qed.

Lemma rsplit_dot_app s c w :
  is_dot c = true -> nodot w = true -> rsplit_dot (s ++ String c w)%string = Some (String c w).
Proof.
  intros Hc Hw. induction s as [|d t IH].
  - change (("" ++ String c w)%string) with (String c w). cbn [rsplit_dot]. rewrite (rsplit_dot_nodot w Hw), Hc. reflexivity.
  - change ((String d t ++ String c w)%string) with (String d (t ++ String c w)%string). cbn [rsplit_dot]. now rewrite IH.
Qed.

(* the suffix of  stem ++ ext  is ext, for every non-empty stem and every extension-shaped ext *)
Lemma py_suffix_app stem e :
  stem <> EmptyString -> ext_shape e = true -> py_suffix (stem ++ e)%string = e.
Proof.
  intros Hs He. destruct stem as [|d t]; [congruence|].
  destruct e as [|c w]; [discriminate|]. cbn [ext_shape] in He.
  apply andb_true_iff in He as [He Hl]. apply andb_true_iff in He as [Hc Hw].
  change ((String d t ++ String c w)%string) with (String d (t ++ String c w)%string).
  cbn [py_suffix]. rewrite (rsplit_dot_app t c w Hc Hw).
  cbn [String.length]. destruct (String.length w) as [|n]; [discriminate|]. reflexivity.
Qed.

(* an extensionless name (no dot at all after the first character, or only a trailing dot) has suffix "" *)
Lemma py_suffix_nodot c t : nodot t = true -> py_suffix (String c t) = EmptyString.
Proof. intro H. cbn [py_suffix]. now rewrite (rsplit_dot_nodot t H). Qed.

(* ---------- lookup ---------- *)
Lemma lookup_In {A} k (m : list (string * A)) v : lookup k m = Some v -> In (k, v) m.
Proof.
  induction m as [|[k' v'] rest IH]; cbn [lookup]; [discriminate|].
  destruct (String.eqb_spec k k') as [->|Hne]; intro H.
  - injection H as ->. now left.
  - right. now apply IH.
Qed.

Lemma lookup_key_In {A} k (m : list (string * A)) v : lookup k m = Some v -> In k (map fst m).
Proof. intro H. apply lookup_In in H. now apply (in_map fst) in H. Qed.

Lemma lookup_first {A} (m : list (string * A)) k v :
  forallb (fun kv => match lookup (fst kv) m with Some _ => true | None => false end) m = true ->
  In (k, v) m -> exists v', lookup k m = Some v'.
Proof.
  intros H Hin. rewrite forallb_forall in H. specialize (H _ Hin). cbn [fst] in H.
  destruct (lookup k m) as [v'|]; [now exists v'|discriminate].
Qed.

(* ---------- list helpers ---------- *)
Lemma filter_flat_map {A B} (p : B -> bool) (f : A -> list B) l :
  filter p (flat_map f l) = flat_map (fun a => filter p (f a)) l.
Proof.
  induction l as [|a l IH]; cbn [flat_map filter]; [reflexivity|].
  now rewrite filter_app, IH.
Qed.

Lemma flat_map_ext_in {A B} (f g : A -> list B) l :
  (forall a, In a l -> f a = g a) -> flat_map f l = flat_map g l.
Proof.
  induction l as [|a l IH]; cbn [flat_map]; intro H; [reflexivity|].
  rewrite (H a (or_introl eq_refl)), IH; [reflexivity|]. intros b Hb. apply H. now right.
Qed.

Lemma filter_ext_in' {A} (p q : A -> bool) l :
  (forall a, In a l -> p a = q a) -> filter p l = filter q l.
Proof.
  induction l as [|a l IH]; cbn [filter]; intro H; [reflexivity|].
  rewrite (H a (or_introl eq_refl)), IH; [reflexivity|]. intros b Hb. apply H. now right.
Qed.

Lemma existsb_false_forall {A} (p : A -> bool) l :
  (forall a, In a l -> p a = false) -> existsb p l = false.
Proof.
  induction l as [|a l IH]; cbn [existsb]; intro H; [reflexivity|].
  rewrite (H a (or_introl eq_refl)), IH; [reflexivity|]. intros b Hb. apply H. now right.
Qed.

Lemma existsb_ext_in {A} (p q : A -> bool) l :
  (forall a, In a l -> p a = q a) -> existsb p l = existsb q l.
Proof.
  induction l as [|a l IH]; cbn [existsb]; intro H; [reflexivity|].
  rewrite (H a (or_introl eq_refl)), IH; [reflexivity|]. intros b Hb. apply H. now right.
Qed.

Lemma existsb_filter {A} (p g : A -> bool) l :
  existsb p (filter g l) = existsb (fun a => g a && p a) l.
Proof.
  induction l as [|a l IH]; cbn [existsb filter]; [reflexivity|].
  destruct (g a); cbn [existsb andb]; now rewrite IH.
Qed.
