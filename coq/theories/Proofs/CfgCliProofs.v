(* Proofs/CfgCliProofs.v — `config set / get / reset` (Model/CfgCli.v): a rejected value leaves the file
   unchanged, every written file validates (also when it is loaded again), and over every history an
   accepted value is what `config get` prints, as long as no later set / reset touches the key. *)
From TL Require Import Lib.Base Lib.GenTypes Model.CfgTypes Gen.CfgToolGen Model.CfgMerge Model.CfgCli Proofs.CfgLines.
From Coq Require Import ZArith NArith.

(* ------------------------------------------------------------------ literals of the source *)
Lemma exit_codes : load_error_exit <> 0 /\ set_reject_exit <> 0 /\ get_missing_exit <> 0.
Proof. repeat split; discriminate. Qed.
Lemma norm_chars : Ascii.eqb norm_to norm_from = false. Proof. reflexivity. Qed.
Lemma default_keys_nodup : NoDup (map fst default_config).
Proof. repeat constructor; cbn; intuition discriminate. Qed.
Lemma default_keys_norm : forall k, In k (map fst default_config) -> norm k = k.
Proof. intros k H. cbn in H. repeat (destruct H as [<-|H]; [reflexivity|]). contradiction. Qed.

Lemma norm_idem k : norm (norm k) = norm k.
Proof.
  induction k as [|c k IH]; [reflexivity|]. cbn [norm]. rewrite IH. f_equal.
  destruct (Ascii.eqb c norm_from) eqn:Hc; [now rewrite norm_chars|now rewrite Hc].
Qed.

(* ------------------------------------------------------------------ association lists *)
Lemma lookup_upd {A} k k' (v : A) d : lookup k (upd k' v d) = if String.eqb k' k then Some v else lookup k d.
Proof.
  induction d as [|[k0 v0] d IH]; cbn [upd lookup].
  - reflexivity.
  - destruct (String.eqb_spec k0 k') as [->|Hne]; cbn [lookup].
    + destruct (String.eqb k' k); reflexivity.
    + rewrite IH. destruct (String.eqb_spec k0 k) as [->|]; [|reflexivity].
      destruct (String.eqb_spec k' k); [congruence|reflexivity].
Qed.

Lemma lookup_None {A} k (d : list (string * A)) : lookup k d = None <-> ~ In k (map fst d).
Proof.
  induction d as [|[k0 v0] d IH]; cbn [lookup map fst In]; [tauto|].
  destruct (String.eqb_spec k0 k) as [->|Hne]; [split; [discriminate|tauto]|]. rewrite IH. tauto.
Qed.

Lemma keys_upd {A} k (v : A) d :
  map fst (upd k v d) = if smem k (map fst d) then map fst d else map fst d ++ [k].
Proof.
  induction d as [|[k0 v0] d IH]; cbn [upd map fst smem app]; [reflexivity|].
  destruct (String.eqb_spec k0 k) as [->|Hne].
  - rewrite String.eqb_refl. reflexivity.
  - destruct (String.eqb_spec k k0); [congruence|]. cbn [map fst]. rewrite IH. now destruct (smem k (map fst d)).
Qed.

Lemma keys_upd_in {A} k (v : A) d x : In x (map fst (upd k v d)) <-> In x (map fst d) \/ x = k.
Proof.
  rewrite keys_upd. destruct (smem k (map fst d)) eqn:H.
  - apply smem_In in H. split; [tauto|]. intros [H0| ->]; assumption.
  - rewrite in_app_iff. cbn [In]. intuition.
Qed.

Lemma NoDup_snoc {A} (l : list A) x : NoDup l -> ~ In x l -> NoDup (l ++ [x]).
Proof.
  induction l as [|y l IH]; intros H Hx; [repeat constructor; tauto|].
  inversion H as [|? ? Hy Hl]; subst. cbn [app]. constructor.
  - rewrite in_app_iff. cbn [In]. intros [?|[->|[]]]; [tauto|]. apply Hx. now left.
  - apply IH; [exact Hl|]. intro. apply Hx. now right.
Qed.

Lemma nodup_upd {A} k (v : A) d : NoDup (map fst d) -> NoDup (map fst (upd k v d)).
Proof.
  intro H. rewrite keys_upd. destruct (smem k (map fst d)) eqn:Hk; [exact H|].
  apply NoDup_snoc; [exact H|]. intro Hin. apply smem_In in Hin. congruence.
Qed.

Lemma upd_fresh {A} k (v : A) d : ~ In k (map fst d) -> upd k v d = d ++ [(k, v)].
Proof.
  induction d as [|[k0 v0] d IH]; cbn [upd map fst In app]; [reflexivity|]. intro H.
  destruct (String.eqb_spec k0 k) as [->|]; [tauto|]. f_equal. apply IH. tauto.
Qed.

(* merge_cfg = fold of upd *)
Lemma merge_keys_in base over x : In x (map fst (merge_cfg base over)) <-> In x (map fst base) \/ In x (map fst over).
Proof.
  unfold merge_cfg. revert base. induction over as [|[k v] over IH]; intro base; cbn [fold_left map fst In]; [tauto|].
  rewrite IH, keys_upd_in. intuition.
Qed.

Lemma merge_nodup base over : NoDup (map fst base) -> NoDup (map fst (merge_cfg base over)).
Proof.
  unfold merge_cfg. revert base. induction over as [|[k v] over IH]; intros base H; cbn [fold_left]; [exact H|].
  apply IH. now apply nodup_upd.
Qed.

Lemma lookup_merge k base over : NoDup (map fst over) ->
  lookup k (merge_cfg base over) = match lookup k over with Some v => Some v | None => lookup k base end.
Proof.
  unfold merge_cfg. revert base. induction over as [|[k0 v0] over IH]; intros base H; cbn [fold_left lookup map fst]; [reflexivity|].
  cbn [map fst] in H. inversion H as [|? ? Hk Hr]; subst. rewrite (IH _ Hr), lookup_upd. cbn [fst snd].
  destruct (String.eqb_spec k0 k) as [->|]; [|reflexivity].
  apply lookup_None in Hk. now rewrite Hk.
Qed.

Lemma normalize_as_merge c : normalize c = merge_cfg [] (map (fun kv => (norm (fst kv), snd kv)) c).
Proof.
  unfold normalize, merge_cfg. generalize (@nil (string * cval)) as acc.
  induction c as [|kv c IH]; intro acc; cbn [fold_left map]; [reflexivity|]. now rewrite IH.
Qed.

Lemma normalize_keys c x : In x (map fst (normalize c)) -> norm x = x.
Proof.
  rewrite normalize_as_merge, merge_keys_in. intros [[]|H]. rewrite map_map in H. cbn [fst] in H.
  apply in_map_iff in H as (kv & <- & _). apply norm_idem.
Qed.

Lemma normalize_nodup c : NoDup (map fst (normalize c)).
Proof. rewrite normalize_as_merge. apply merge_nodup. constructor. Qed.

(* a configuration whose keys are distinct and already normalised is its own normal form *)
Lemma fold_upd_fresh (c acc : cfg) :
  NoDup (map fst c) -> (forall k, In k (map fst c) -> ~ In k (map fst acc)) ->
  fold_left (fun a kv => upd (fst kv) (snd kv) a) c acc = acc ++ c.
Proof.
  revert acc. induction c as [|[k v] c IH]; intros acc Hn Hd; cbn [fold_left]; [now rewrite app_nil_r|].
  cbn [map fst] in Hn. inversion Hn as [|? ? Hk Hr]; subst. cbn [fst snd].
  rewrite upd_fresh by (apply Hd; now left). rewrite IH; [now rewrite <- app_assoc|exact Hr|].
  intros k0 Hk0. rewrite map_app, in_app_iff. cbn [map fst In]. intros [H|[->|[]]]; [|tauto].
  apply (Hd k0); [now right|exact H].
Qed.

Lemma normalize_fixed c : NoDup (map fst c) -> (forall k, In k (map fst c) -> norm k = k) -> normalize c = c.
Proof.
  intros Hn Hk. unfold normalize.
  assert (H : fold_left (fun acc kv => upd (norm (fst kv)) (snd kv) acc) c [] = fold_left (fun a kv => upd (fst kv) (snd kv) a) c []).
  { generalize (@nil (string * cval)) as acc. revert Hk. clear Hn. induction c as [|[k v] c IH]; intros Hk acc; [reflexivity|].
    cbn [fold_left fst snd]. rewrite (Hk k) by now left. apply IH. intros k0 H0. apply Hk. now right. }
  rewrite H, fold_upd_fresh; [reflexivity|exact Hn|]. intros k _ [].
Qed.

(* ------------------------------------------------------------------ validity depends on lookups only *)
Lemma forallb_ext' {A} (f g : A -> bool) l : (forall x, f x = g x) -> forallb f l = forallb g l.
Proof. intro H. induction l as [|x l IH]; [reflexivity|]. cbn [forallb]. now rewrite H, IH. Qed.

Lemma valid_with_ext req lv fm rc rb tc tb c1 c2 : (forall k, lookup k c1 = lookup k c2) ->
  valid_with req lv fm rc rb tc tb c1 = valid_with req lv fm rc rb tc tb c2.
Proof.
  intro H. unfold valid_with.
  assert (H1 : forallb (fun k => has_key k c1) req = forallb (fun k => has_key k c2) req)
    by (apply forallb_ext'; intro k; unfold has_key; now rewrite H).
  rewrite H1. unfold check_member, check_int_guard, check_num_guard, check_app_name. now rewrite !H.
Qed.

Lemma valid_ext c1 c2 : (forall k, lookup k c1 = lookup k c2) -> valid c1 = valid c2.
Proof. apply valid_with_ext. Qed.

(* the guards found in the source are the documented ones: required keys, level and format sets, max_retries
   rejected iff not an integer or < 0, timeout rejected iff not a number or <= 0 - and the messages say so.
   Changing an operator, a bound or a set in src/config.py breaks this proof. *)
Theorem valid_is_documented : forall c, valid c = valid_doc c.
Proof. reflexivity. Qed.

Lemma documented_messages :
  max_retries_msg = "max_retries must be a non-negative integer" /\ timeout_msg = "timeout must be a positive number"
  /\ app_name_msg = "app_name must be a non-empty string".
Proof. repeat split; reflexivity. Qed.

(* the documented boundaries, spelled out on values *)
Lemma documented_boundaries :
  check_num_guard "timeout" CLe 0 [("timeout", VInt 0)] = false /\
  check_num_guard "timeout" CLe 0 [("timeout", VFloat false "0" "0")] = false /\
  check_num_guard "timeout" CLe 0 [("timeout", VFloat true "0" "0")] = false /\
  check_num_guard "timeout" CLe 0 [("timeout", VFloat false "0" "001")] = true /\
  check_num_guard "timeout" CLe 0 [("timeout", VInt 1)] = true /\
  check_num_guard "timeout" CLe 0 [("timeout", VInt (-1))] = false /\
  check_int_guard "max_retries" CLt 0 [("max_retries", VInt 0)] = true /\
  check_int_guard "max_retries" CLt 0 [("max_retries", VInt (-1))] = false /\
  check_int_guard "max_retries" CLt 0 [("max_retries", VFloat false "1" "0")] = false.
Proof. vm_compute. repeat split; reflexivity. Qed.

(* ------------------------------------------------------------------ well-kept configurations *)
Definition kept (c : cfg) : Prop :=
  NoDup (map fst c) /\ (forall k, In k (map fst c) -> norm k = k) /\ incl (map fst default_config) (map fst c).

Lemma kept_loaded kv : kept (merge_cfg default_config (normalize kv)).
Proof.
  split; [apply merge_nodup, default_keys_nodup|]. split.
  - intros k H. apply merge_keys_in in H as [H|H]; [now apply default_keys_norm|now apply (normalize_keys kv)].
  - intros k H. apply merge_keys_in. now left.
Qed.

Lemma kept_default : kept default_config.
Proof. split; [exact default_keys_nodup|]. split; [exact default_keys_norm|apply incl_refl]. Qed.

Lemma kept_upd k v c : kept c -> norm k = k -> kept (upd k v c).
Proof.
  intros (H1 & H2 & H3) Hk. split; [now apply nodup_upd|]. split.
  - intros x Hx. apply keys_upd_in in Hx as [Hx| ->]; [now apply H2|exact Hk].
  - intros x Hx. apply keys_upd_in. left. now apply H3.
Qed.

(* loading a kept file gives a configuration with the same lookups *)
Lemma reload_lookup c k : kept c -> lookup k (merge_cfg default_config (normalize c)) = lookup k c.
Proof.
  intros (H1 & H2 & H3). rewrite (normalize_fixed c H1 H2), (lookup_merge _ _ _ H1).
  destruct (lookup k c) eqn:Hl; [reflexivity|]. apply lookup_None. apply lookup_None in Hl. intro Hin. apply Hl. now apply H3.
Qed.

Lemma load_kept ex c : kept c -> valid c = true ->
  exists c', load ex (Some c) = Some c' /\ kept c' /\ forall k, lookup k c' = lookup k c.
Proof.
  intros Hk Hv. unfold load. set (m := merge_cfg default_config (normalize c)).
  assert (Hm : valid m = true) by (rewrite (valid_ext m c); [exact Hv|intro k; now apply reload_lookup]).
  rewrite Hm. exists m. split; [reflexivity|]. split; [apply kept_loaded|]. intro k. now apply reload_lookup.
Qed.

Lemma load_is_kept ex f c : load ex f = Some c -> kept c.
Proof.
  unfold load. destruct f as [kv|]; [|intros [= <-]; exact kept_default].
  destruct (valid (merge_cfg default_config (normalize kv))); [intros [= <-]; apply kept_loaded|].
  destruct ex; [discriminate|intros [= <-]; exact kept_default].
Qed.

(* ------------------------------------------------------------------ single steps *)
Theorem rejected_set_leaves_file q ex f k t :
  o_rc (step q ex f (CSet k t)) <> 0 -> o_file (step q ex f (CSet k t)) = f.
Proof.
  unfold step. destruct (load ex f) as [conf|]; [|reflexivity].
  destruct (valid (upd (ckey_set q k) (convert t) conf)); [cbn [o_rc]; congruence|reflexivity].
Qed.

Theorem get_leaves_file q ex f k : o_file (step q ex f (CGet k)) = f.
Proof. unfold step. destruct (load ex f) as [conf|]; [|reflexivity]. now destruct (lookup (ckey_get q k) conf). Qed.

Theorem accepted_set_writes_valid q ex f k t :
  o_rc (step q ex f (CSet k t)) = 0 ->
  exists c, o_file (step q ex f (CSet k t)) = Some c /\ valid c = true /\ lookup (ckey_set q k) c = Some (convert t).
Proof.
  unfold step. destruct (load ex f) as [conf|]; [|cbn [o_rc]; intro H; now destruct exit_codes as (E & _)].
  destruct (valid (upd (ckey_set q k) (convert t) conf)) eqn:Hv; [|cbn [o_rc]; intro H; now destruct exit_codes as (_ & E & _)].
  intros _. eexists. split; [reflexivity|]. split; [exact Hv|]. now rewrite lookup_upd, String.eqb_refl.
Qed.

(* the repaired commands normalise the key like the loader does (read from the source): whatever the vector, the key used is
   the normalised one; the written file is again loadable and gives the value back *)
Lemma ckey_set_norm q k : ckey_set q k = norm k.
Proof. unfold ckey_set. now destruct (q_cli_raw_key q). Qed.
Lemma ckey_get_norm q k : ckey_get q k = norm k.
Proof. unfold ckey_get. now destruct (q_cli_raw_key q). Qed.

Theorem accepted_set_reloads q ex f k t :
  o_rc (step q ex f (CSet k t)) = 0 ->
  exists c c', o_file (step q ex f (CSet k t)) = Some c /\ load ex (Some c) = Some c' /\ valid c' = true
               /\ lookup (norm k) c' = Some (convert t).
Proof.
  unfold step. destruct (load ex f) as [conf|] eqn:Hl; [|cbn [o_rc]; intro H; now destruct exit_codes as (E & _)].
  rewrite (ckey_set_norm q k).
  destruct (valid (upd (norm k) (convert t) conf)) eqn:Hv; [|cbn [o_rc]; intro H; now destruct exit_codes as (_ & E & _)].
  intros _. cbn [o_file].
  assert (Hkept : kept (upd (norm k) (convert t) conf)) by (apply kept_upd; [now apply (load_is_kept ex f)|apply norm_idem]).
  destruct (load_kept ex _ Hkept Hv) as (c' & H1 & H2 & H3).
  exists (upd (norm k) (convert t) conf), c'. split; [reflexivity|]. split; [exact H1|]. split.
  - rewrite (valid_ext c' _ H3). exact Hv.
  - now rewrite H3, lookup_upd, String.eqb_refl.
Qed.

Theorem set_then_get q ex f k t :
  o_rc (step q ex f (CSet k t)) = 0 ->
  let f' := o_file (step q ex f (CSet k t)) in
  step q ex f' (CGet k) = Build_obs 0 (Some (show (convert t))) f'.
Proof.
  intros Hrc. destruct (accepted_set_reloads q ex f k t Hrc) as (c & c' & H1 & H2 & _ & H4).
  cbv zeta. rewrite H1. unfold step. rewrite H2, (ckey_get_norm q k), H4. reflexivity.
Qed.

(* ------------------------------------------------------------------ histories *)
(* the conversion found in the source is the documented one (bool words, int before float) *)
Lemma convert_is_documented t : convert t = convert_doc t.
Proof. reflexivity. Qed.

Lemma cval_eqb_refl v : cval_eqb v v = true.
Proof.
  destruct v as [b|z|n i f|s]; cbn [cval_eqb].
  - now destruct b.
  - apply Z.eqb_refl.
  - rewrite !String.eqb_refl. now destruct n.
  - apply String.eqb_refl.
Qed.

Lemma file_eqb_refl f : file_eqb f f = true.
Proof.
  destruct f as [c|]; [|reflexivity]. cbn [file_eqb]. induction c as [|[k v] c IH]; [reflexivity|].
  cbn [list_eqb fst snd]. now rewrite String.eqb_refl, cval_eqb_refl, IH.
Qed.

(* what the expectation list promises about the file *)
Definition promises (ex : bool) (exp : list (string * string)) (f : option cfg) : Prop :=
  forall nk s, lookup nk exp = Some s -> forall conf, load ex f = Some conf -> exists v, lookup nk conf = Some v /\ show v = s.

Lemma exit_code_tests :
  (0 =? load_error_exit) = false /\ (set_reject_exit =? load_error_exit) = false /\ (set_reject_exit =? 0) = false /\
  (get_missing_exit =? load_error_exit) = false /\ (get_missing_exit =? 0) = false /\ (load_error_exit =? load_error_exit) = true.
Proof. repeat split; reflexivity. Qed.

Theorem history_spec q ex : forall cs f exp,
  promises ex exp f ->
  forallb (fun b => b) (spec_trace exp f cs (run q ex f cs)) = true.
Proof.
  destruct exit_code_tests as (T1 & T2 & T3 & T4 & T5 & T6).
  induction cs as [|c cr IH]; intros f exp Hp; [reflexivity|].
  cbn [run spec_trace].
  destruct (load ex f) as [conf|] eqn:Hl.
  2:{ (* the file cannot be loaded: every command stops with the load error and touches nothing *)
      assert (Ho : step q ex f c = Build_obs load_error_exit None f) by (unfold step; now rewrite Hl).
      rewrite Ho. cbn [o_rc o_file]. rewrite T6. cbn [forallb]. rewrite file_eqb_refl. now apply IH. }
  pose proof (load_is_kept ex f conf Hl) as Hkept.
  destruct c as [k t|k|].
  - (* set *)
    unfold step. rewrite Hl, (ckey_set_norm q k).
    remember (upd (norm k) (convert t) conf) as conf' eqn:Hconf'.
    destruct (valid conf') eqn:Hv.
    + cbn [o_rc o_file]. rewrite T1. cbn [Nat.eqb forallb].
      assert (Hk' : kept conf') by (rewrite Hconf'; apply kept_upd; [exact Hkept|apply norm_idem]).
      rewrite <- (convert_is_documented t).
      assert (Hst : stored_ok k (convert t) (Some conf') = true).
      { unfold stored_ok. rewrite <- valid_is_documented. rewrite (valid_ext _ conf') by (intro x; now apply reload_lookup).
        rewrite Hv. destruct Hk' as (N1 & N2 & N3). rewrite (normalize_fixed conf' N1 N2).
        rewrite Hconf', lookup_upd, String.eqb_refl. apply cval_eqb_refl. }
      rewrite Hst. apply IH.
      intros nk s Hs conf'' Hl''. destruct (load_kept ex conf' Hk' Hv) as (c2 & L1 & _ & L3).
      pose proof (eq_trans (eq_sym L1) Hl'') as Hc2. injection Hc2 as <-. rewrite L3, Hconf'. revert Hs. rewrite !lookup_upd.
      destruct (String.eqb (norm k) nk); intro Hs; [exists (convert t); split; [reflexivity|congruence]|].
      exact (Hp nk s Hs conf Hl).
    + cbn [o_rc o_file]. rewrite T2, T3. cbn [forallb]. rewrite file_eqb_refl. now apply IH.
  - (* get *)
    unfold step. rewrite Hl, (ckey_get_norm q k).
    destruct (lookup (norm k) conf) as [v|] eqn:Hlk.
    + cbn [o_rc o_file o_out]. rewrite T1. cbn [forallb]. rewrite file_eqb_refl. cbn [andb].
      destruct (lookup (norm k) exp) as [s|] eqn:Hexp.
      * destruct (Hp _ _ Hexp conf Hl) as (v' & Hv' & Hs). rewrite Hlk in Hv'. injection Hv' as <-.
        cbn [Nat.eqb opt_str_eqb]. rewrite Hs, String.eqb_refl. cbn [andb]. now apply IH.
      * cbn [andb]. now apply IH.
    + cbn [o_rc o_file o_out]. rewrite T4. cbn [forallb]. rewrite file_eqb_refl. cbn [andb].
      destruct (lookup (norm k) exp) as [s|] eqn:Hexp.
      * destruct (Hp _ _ Hexp conf Hl) as (v' & Hv' & _). congruence.
      * cbn [andb]. now apply IH.
  - (* reset *)
    unfold step. rewrite Hl. cbn [o_rc o_file]. rewrite T1. cbn [forallb]. apply IH.
    intros nk s Hs. discriminate Hs.
Qed.

Corollary history_spec_fresh q ex cs f :
  forallb (fun b => b) (spec_trace [] f cs (run q ex f cs)) = true.
Proof. apply history_spec. intros nk s Hs. discriminate Hs. Qed.
