(* Proofs/OutputText.v — the text renderer of C06: parse_text . text_output = the violations,
   for the ideal layout on every input, for the layout of the code on the inputs where it is decodable. *)
From TL Require Import Lib.Base Model.OutputTypes Gen.OutputGen Model.Output Proofs.OutputStr.
From Coq Require Import ZArith Lia.
Local Open Scope Z_scope.
Local Open Scope string_scope.

(* ---------- the echoed lines, written out (Gen facts, by computation) ---------- *)
Definition F (q : oquirks) (v : viol) : string := tesc q (sanitize (v_file v)).
Definition M (q : oquirks) (v : viol) : string := tesc q (sanitize (v_msg v)).
Definition wl (q : oquirks) (v : viol) : bool := if q_text_omit_zero q then negb (v_line v =? 0)%Z else true.
Definition wc (q : oquirks) (v : viol) : bool := if q_text_omit_zero q then negb (v_col v =? 0)%Z else true.
Definition line1 (q : oquirks) (v : viol) : string := "  " ++ text_location q v.
Definition line2 (q : oquirks) (v : viol) : string := "    [ERROR] " ++ (v_rule v ++ (": " ++ M q v)).

Lemma location_shape q v :
  text_location q v =
  (if wl q v then F q v ++ (":" ++ show_Z (v_line v)) else F q v) ++ (if wc q v then ":" ++ show_Z (v_col v) else "").
Proof.
  assert (H : text_location q v =
              (if wl q v then F q v ++ (":" ++ (show_Z (v_line v) ++ "")) else F q v ++ "")
              ++ (if wc q v then ":" ++ (show_Z (v_col v) ++ "") else "")) by reflexivity.
  rewrite H. now rewrite !app_nil_r.
Qed.

Lemma viol_echoes_shape q v : viol_echoes q v = [line1 q v; line2 q v; ""].
Proof.
  assert (H : viol_echoes q v = ["  " ++ (text_location q v ++ ""); "    [ERROR] " ++ (v_rule v ++ (": " ++ (M q v ++ ""))); ""]) by reflexivity.
  rewrite H. now rewrite !app_nil_r.
Qed.

Lemma header_echo n : fmt text_header dummy [] n = expected_header n ++ nls.
Proof.
  assert (H : fmt text_header dummy [] n = "Found " ++ (show_Z (Z.of_nat n) ++ (" violation(s):" ++ nls))) by reflexivity.
  rewrite H. unfold expected_header. now rewrite !app_assoc.
Qed.

Lemma none_message : text_none_message = expected_none.
Proof. reflexivity. Qed.

(* ---------- the location line ---------- *)
Lemma read_digits_not s : all_digits s = false -> read_digits s = None.
Proof. unfold read_digits. now intros ->. Qed.

Lemma parse_loc_tail_ok q p l : q_text_omit_zero q = true -> path_tail_ok p = true -> 0 <= l ->
  parse_loc q (p ++ String ":"%char (show_Z l)) = Some (p, l, 0).
Proof.
  intros Hq Hp Hl. unfold parse_loc. rewrite Hq.
  rewrite rsplit_app by apply show_Z_no_colon. rewrite read_digits_show by exact Hl.
  unfold path_tail_ok in Hp. destruct (rsplit ":"%char p) as [[a d]|]; [|reflexivity].
  apply negb_true_iff in Hp. now rewrite (read_digits_not _ Hp).
Qed.

Lemma parse_loc_bare q p : q_text_omit_zero q = true -> path_tail_ok p = true -> parse_loc q p = Some (p, 0, 0).
Proof.
  intros Hq Hp. unfold parse_loc. rewrite Hq. unfold path_tail_ok in Hp.
  destruct (rsplit ":"%char p) as [[a d]|]; [|reflexivity].
  apply negb_true_iff in Hp. now rewrite (read_digits_not _ Hp).
Qed.

Lemma parse_loc_both q p l c : q_text_omit_zero q = true -> 0 <= l -> 0 <= c ->
  parse_loc q ((p ++ String ":"%char (show_Z l)) ++ String ":"%char (show_Z c)) = Some (p, l, c).
Proof.
  intros Hq Hl Hc. unfold parse_loc. rewrite Hq.
  rewrite rsplit_app by apply show_Z_no_colon. rewrite read_digits_show by exact Hc.
  rewrite rsplit_app by apply show_Z_no_colon. now rewrite read_digits_show by exact Hl.
Qed.

Lemma parse_loc_ideal q p l c : q_text_omit_zero q = false ->
  parse_loc q ((p ++ String ":"%char (show_Z l)) ++ String ":"%char (show_Z c)) = Some (p, l, c).
Proof.
  intros Hq. unfold parse_loc. rewrite Hq.
  rewrite rsplit_app by apply show_Z_no_colon. cbn [bind snd fst]. rewrite read_int_show. cbn [bind].
  rewrite rsplit_app by apply show_Z_no_colon. cbn [bind snd fst]. now rewrite read_int_show.
Qed.

(* the inputs on which the location of the code's layout is decodable *)
Definition loc_ok (q : oquirks) (v : viol) : bool :=
  if q_text_omit_zero q
  then ((0 <=? v_line v) && (0 <=? v_col v) && ((1 <=? v_line v) || (v_col v =? 0)))%Z
       && (((1 <=? v_line v) && (1 <=? v_col v))%Z || path_tail_ok (F q v))
  else true.

Lemma parse_location q v : loc_ok q v = true -> parse_loc q (text_location q v) = Some (F q v, v_line v, v_col v).
Proof.
  unfold loc_ok. rewrite location_shape. unfold wl, wc. destruct (q_text_omit_zero q) eqn:Hq.
  - intros H. apply andb_true_iff in H as [H Ht]. apply andb_true_iff in H as [H Hz].
    apply andb_true_iff in H as [Hl Hc]. apply Z.leb_le in Hl, Hc.
    destruct (Z.eqb_spec (v_line v) 0) as [El|El]; destruct (Z.eqb_spec (v_col v) 0) as [Ec|Ec]; cbn [negb].
    + rewrite El, Ec in *. rewrite app_nil_r. apply parse_loc_bare; [exact Hq|].
      apply orb_true_iff in Ht as [Ht|Ht]; [discriminate|exact Ht].
    + apply orb_true_iff in Hz as [Hz|Hz]; [apply Z.leb_le in Hz; lia|discriminate].
    + rewrite Ec in *. rewrite app_nil_r. apply parse_loc_tail_ok; [exact Hq| |exact Hl].
      apply orb_true_iff in Ht as [Ht|Ht]; [|exact Ht]. apply andb_true_iff in Ht as [_ Ht]. discriminate.
    + apply parse_loc_both; assumption.
  - intros _. apply parse_loc_ideal. exact Hq.
Qed.

(* ---------- the rule / message line ---------- *)
Lemma parse_line2 v m : rule_ok (v_rule v) = true ->
  bind (strip_prefix "    [" ("    [ERROR] " ++ (v_rule v ++ (": " ++ m))))
       (fun r1 => bind (split2 "]"%char " "%char r1) (fun sr => split2 ":"%char " "%char (snd sr))) = Some (v_rule v, m).
Proof.
  intros H. unfold rule_ok in H. apply andb_true_iff in H as [_ H].
  change ("    [ERROR] " ++ (v_rule v ++ (": " ++ m))) with ("    [" ++ ("ERROR" ++ String "]"%char (String " "%char (v_rule v ++ String ":"%char (String " "%char m))))).
  rewrite strip_prefix_app. cbn [bind].
  rewrite split2_app; [|discriminate|reflexivity]. cbn [bind snd].
  apply split2_app; [discriminate|]. unfold no2. destruct (split2 ":"%char " "%char (v_rule v)); [discriminate|reflexivity].
Qed.

Definition esc_ok (q : oquirks) (v : viol) : bool :=
  if q_text_raw_newline q then no_nl (sanitize (v_file v)) && no_nl (sanitize (v_msg v)) else true.

Lemma tunesc_tesc q s : tunesc q (tesc q s) = s.
Proof. unfold tunesc, tesc. destruct (q_text_raw_newline q); [reflexivity|apply unescape_escape]. Qed.

Lemma parse_viol q v :
  rule_ok (v_rule v) = true -> loc_ok q v = true -> parse_viol_lines q (line1 q v) (line2 q v) = Some (san_core v).
Proof.
  intros Hr Hl. unfold parse_viol_lines, line1, line2.
  rewrite (strip_prefix_app "  "). cbn [bind]. rewrite (parse_location q v Hl). cbn [bind].
  pose proof (parse_line2 v (M q v) Hr) as P.
  destruct (strip_prefix "    [" ("    [ERROR] " ++ (v_rule v ++ (": " ++ M q v)))) as [r1|]; [|discriminate]. cbn [bind] in P |- *.
  destruct (split2 "]"%char " "%char r1) as [sr|]; [|discriminate]. cbn [bind] in P |- *.
  rewrite P. cbn [bind fst snd]. unfold F, M, san_core. now rewrite !tunesc_tesc.
Qed.

(* ---------- lines ---------- *)
Lemma no_nl_F q v : esc_ok q v = true -> no_nl (F q v) = true.
Proof.
  unfold esc_ok, F, tesc. destruct (q_text_raw_newline q); [|intros _; apply escape_no_nl].
  intros H. now apply andb_true_iff in H as [H _].
Qed.
Lemma no_nl_M q v : esc_ok q v = true -> no_nl (M q v) = true.
Proof.
  unfold esc_ok, M, tesc. destruct (q_text_raw_newline q); [|intros _; apply escape_no_nl].
  intros H. now apply andb_true_iff in H as [_ H].
Qed.

Lemma no_nl_line1 q v : esc_ok q v = true -> no_nl (line1 q v) = true.
Proof.
  intros H. unfold line1. rewrite location_shape. rewrite !no_nl_app.
  change (no_nl "  ") with true. cbn [andb].
  destruct (wl q v), (wc q v); rewrite ?no_nl_app, ?(no_nl_F q v H), ?show_Z_no_nl; reflexivity.
Qed.

Lemma no_nl_line2 q v : esc_ok q v = true -> rule_ok (v_rule v) = true -> no_nl (line2 q v) = true.
Proof.
  intros H Hr. unfold line2. rewrite !no_nl_app. rewrite (no_nl_M q v H).
  unfold rule_ok in Hr. apply andb_true_iff in Hr as [Hr _]. now rewrite Hr.
Qed.

Definition viol_text_ok (q : oquirks) (v : viol) : bool := rule_ok (v_rule v) && esc_ok q v && loc_ok q v.

Definition groups_str (q : oquirks) (vs : list viol) : string :=
  sconcat (map (fun e => e ++ nls) (flat_map (viol_echoes q) vs)).

Lemma split_nl_nl s : split_nl (String nl s) = "" :: split_nl s.
Proof. reflexivity. Qed.

Lemma groups_str_cons q v vs :
  groups_str q (v :: vs) = line1 q v ++ String nl (line2 q v ++ String nl (String nl (groups_str q vs))).
Proof.
  unfold groups_str. cbn [flat_map]. rewrite viol_echoes_shape. cbn [List.app map sconcat fold_right].
  unfold nls. rewrite !app_assoc. reflexivity.
Qed.

Lemma parse_groups_render q vs :
  forallb (viol_text_ok q) vs = true -> parse_groups q (split_nl (groups_str q vs)) = Some (map san_core vs).
Proof.
  induction vs as [|v vs IH]; [reflexivity|]. cbn [forallb]. intros H.
  apply andb_true_iff in H as [Hv Hvs]. unfold viol_text_ok in Hv.
  apply andb_true_iff in Hv as [Hv Hl]. apply andb_true_iff in Hv as [Hr He].
  rewrite groups_str_cons.
  rewrite split_nl_app by (apply no_nl_line1; exact He).
  rewrite split_nl_app by (apply no_nl_line2; assumption).
  rewrite split_nl_nl.
  assert (P : parse_groups q (line1 q v :: line2 q v :: "" :: split_nl (groups_str q vs)) =
              match parse_viol_lines q (line1 q v) (line2 q v), parse_groups q (split_nl (groups_str q vs)) with
              | Some c, Some cs => Some (c :: cs) | _, _ => None end) by reflexivity.
  rewrite P, (parse_viol q v Hr Hl), (IH Hvs). reflexivity.
Qed.

Lemma expected_header_not_none n : String.eqb (expected_header n) expected_none = false.
Proof. reflexivity. Qed.

Lemma no_nl_header n : no_nl (expected_header n) = true.
Proof. unfold expected_header. rewrite !no_nl_app, show_Z_no_nl. reflexivity. Qed.

Theorem text_roundtrip q vs :
  forallb (viol_text_ok q) vs = true -> parse_text q (text_output q vs) = Some (map san_core vs).
Proof.
  intros H. destruct vs as [|v vs]; [reflexivity|].
  assert (E : text_output q (v :: vs) =
              expected_header (List.length (v :: vs)) ++ String nl (String nl (groups_str q (v :: vs)))).
  { unfold text_output, text_echoes. cbn [map sconcat fold_right]. rewrite header_echo. unfold nls, groups_str.
    rewrite !app_assoc. reflexivity. }
  unfold parse_text. rewrite E. rewrite split_nl_app by apply no_nl_header. rewrite split_nl_nl.
  cbn [list_str_eqb]. rewrite expected_header_not_none. cbn [andb].
  rewrite (parse_groups_render q (v :: vs) H). rewrite map_length, String.eqb_refl. reflexivity.
Qed.

(* ---------- the two layouts ---------- *)
(* ideal layout: every list of violations whose rule ids are identifiers (no newline, no ": ") *)
Theorem text_roundtrip_ideal q vs :
  q_text_omit_zero q = false -> q_text_raw_newline q = false ->
  forallb (fun v => rule_ok (v_rule v)) vs = true ->
  parse_text q (text_output q vs) = Some (map san_core vs).
Proof.
  intros H1 H2 H. apply text_roundtrip. rewrite forallb_forall in *. intros v Hv.
  unfold viol_text_ok, esc_ok, loc_ok. rewrite H1, H2, (H v Hv). reflexivity.
Qed.

(* layout of the code: decodable where text_ok holds *)
Lemma text_ok_viol_text_ok q v :
  q_text_omit_zero q = true -> q_text_raw_newline q = true -> text_ok q v = true -> viol_text_ok q v = true.
Proof.
  intros H1 H2. unfold text_ok, viol_text_ok, esc_ok, loc_ok, F, tesc. rewrite H1, H2. intros H.
  apply andb_true_iff in H as [H Hl]. apply andb_true_iff in H as [Hr He]. rewrite Hr, He. cbn [andb].
  apply andb_true_iff in Hl as [Ha Hb]. now rewrite Ha, Hb.
Qed.

Theorem text_roundtrip_actual_partial q vs :
  q_text_omit_zero q = true -> q_text_raw_newline q = true ->
  forallb (text_ok q) vs = true ->
  parse_text q (text_output q vs) = Some (map san_core vs).
Proof.
  intros H1 H2 H. apply text_roundtrip. rewrite forallb_forall in *. intros v Hv.
  apply text_ok_viol_text_ok; auto.
Qed.

(* ---------- every vector (mixed text flags included) ---------- *)
Lemma rsplit_cons c x s :
  rsplit c (String x s) =
  match rsplit c s with
  | Some (u, w) => Some (String x u, w)
  | None => if Ascii.eqb x c then Some (EmptyString, s) else None
  end.
Proof. reflexivity. Qed.

Lemma rsplit_escape p :
  rsplit ":"%char (escape p) =
  match rsplit ":"%char p with Some (a, d) => Some (escape a, escape d) | None => None end.
Proof.
  induction p as [|a r IH]; [reflexivity|]. cbn [escape]. rewrite (rsplit_cons ":"%char a r).
  destruct (Ascii.eqb_spec a nl) as [->|Hn].
  - rewrite !rsplit_cons, IH. destruct (rsplit ":"%char r) as [[u w]|]; reflexivity.
  - destruct (Ascii.eqb_spec a "\"%char) as [->|Hb].
    + rewrite !rsplit_cons, IH. destruct (rsplit ":"%char r) as [[u w]|]; reflexivity.
    + rewrite rsplit_cons, IH. destruct (rsplit ":"%char r) as [[u w]|].
      * cbn [escape]. destruct (Ascii.eqb_spec a nl); [contradiction|]. destruct (Ascii.eqb_spec a "\"%char); [contradiction|reflexivity].
      * destruct (Ascii.eqb a ":"%char); reflexivity.
Qed.

Lemma only_digits_escape d : only_digits (escape d) = only_digits d.
Proof.
  induction d as [|a r IH]; [reflexivity|]. cbn [escape].
  destruct (Ascii.eqb_spec a nl) as [->|Hn]; [reflexivity|].
  destruct (Ascii.eqb_spec a "\"%char) as [->|Hb]; [reflexivity|].
  cbn [only_digits]. now rewrite IH.
Qed.

Lemma all_digits_escape d : all_digits (escape d) = all_digits d.
Proof.
  destruct d as [|a r]; [reflexivity|]. unfold all_digits at 2. rewrite <- only_digits_escape.
  cbn [escape]. destruct (Ascii.eqb a nl); [reflexivity|]. destruct (Ascii.eqb a "\"%char); reflexivity.
Qed.

Lemma path_tail_ok_escape p : path_tail_ok (escape p) = path_tail_ok p.
Proof.
  unfold path_tail_ok. rewrite rsplit_escape. destruct (rsplit ":"%char p) as [[a d]|]; [|reflexivity].
  now rewrite all_digits_escape.
Qed.

Lemma path_tail_ok_tesc q p : path_tail_ok (tesc q p) = path_tail_ok p.
Proof. unfold tesc. destruct (q_text_raw_newline q); [reflexivity|apply path_tail_ok_escape]. Qed.

Lemma text_ok_any q v : text_ok q v = true -> viol_text_ok q v = true.
Proof.
  unfold text_ok, viol_text_ok, esc_ok, loc_ok, F. rewrite path_tail_ok_tesc. intros H.
  apply andb_true_iff in H as [H Hl]. apply andb_true_iff in H as [Hr He]. rewrite Hr, He. cbn [andb].
  destruct (q_text_omit_zero q); [|reflexivity].
  apply andb_true_iff in Hl as [Ha Hb]. now rewrite Ha, Hb.
Qed.

(* the text round trip for EVERY quirk vector: whatever combination of the two layout choices the renderer makes, stdout
   decodes to the violations on the inputs text_ok admits for that combination (all inputs with identifier-like rule ids
   when both flags are off) *)
Theorem text_roundtrip_any q vs :
  forallb (text_ok q) vs = true -> parse_text q (text_output q vs) = Some (map san_core vs).
Proof.
  intros H. apply text_roundtrip. rewrite forallb_forall in *. intros v Hv. now apply text_ok_any, H.
Qed.
