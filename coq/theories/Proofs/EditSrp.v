(* Proofs/EditSrp.v — C13, the lines-of-code metric of the SRP linter (Model/Srp.v: heuristics.count_loc,
   RustSRPAnalyzer._node_loc, typescript_metrics_calculator.count_loc) under insertion of blank / comment lines.
   Python and Rust filter the source lines of the node: invariant for every quirk vector.  TypeScript / JavaScript
   report end_row - start_row + 1: NOT invariant (refuted); with that flag off it is. *)
From TL Require Import Lib.Base Lib.GenTypes Model.SrpTypes Gen.SrpGen Model.SrpSpec Model.Srp Actual.SrpActual Model.Edit Proofs.EditList.

(* ---------- slices under insertion ---------- *)
Lemma skipn_ins_le {A} (x : A) : forall lo k l, k <= lo -> k <= List.length l -> skipn (S lo) (ins k x l) = skipn lo l.
Proof.
  induction lo as [|lo IH]; intros k l Hk Hl.
  - assert (k = 0) by lia. subst k. destruct l; reflexivity.
  - destruct k as [|k]; [destruct l; reflexivity|].
    destruct l as [|y r]; cbn [List.length] in Hl; [lia|]. cbn [ins]. change (skipn (S (S lo)) (y :: ins k x r)) with (skipn (S lo) (ins k x r)).
    change (skipn (S lo) (y :: r)) with (skipn lo r). apply IH; lia.
Qed.

Lemma skipn_ins_gt {A} (x : A) : forall lo k l, lo <= k -> k <= List.length l -> skipn lo (ins k x l) = ins (k - lo) x (skipn lo l).
Proof.
  induction lo as [|lo IH]; intros k l Hk Hl; [now rewrite Nat.sub_0_r|].
  destruct k as [|k]; [lia|]. destruct l as [|y r]; cbn [List.length] in Hl; [lia|].
  cbn [ins]. change (skipn (S lo) (y :: ins k x r)) with (skipn lo (ins k x r)). change (skipn (S lo) (y :: r)) with (skipn lo r).
  replace (S k - S lo) with (k - lo) by lia. apply IH; lia.
Qed.

Lemma firstn_ins_lt {A} (x : A) : forall n j m, j <= n -> firstn (S n) (ins j x m) = ins j x (firstn n m).
Proof.
  induction n as [|n IH]; intros j m Hj.
  - assert (j = 0) by lia. subst j. destruct m; reflexivity.
  - destruct j as [|j]; [destruct m; reflexivity|]. destruct m as [|y r].
    + cbn [ins firstn]. reflexivity.
    + cbn [ins]. change (firstn (S (S n)) (y :: ins j x r)) with (y :: firstn (S n) (ins j x r)).
      change (firstn (S n) (y :: r)) with (y :: firstn n r). cbn [ins]. rewrite IH by lia. reflexivity.
Qed.

Lemma firstn_ins_ge {A} (x : A) : forall n j m, n <= j -> j <= List.length m -> firstn n (ins j x m) = firstn n m.
Proof.
  induction n as [|n IH]; intros j m Hj Hm; [reflexivity|].
  destruct j as [|j]; [lia|]. destruct m as [|y r]; cbn [List.length] in Hm; [lia|].
  cbn [ins firstn]. rewrite IH by lia. reflexivity.
Qed.

Lemma skipn_length' {A} : forall n (l : list A), List.length (skipn n l) = List.length l - n.
Proof. induction n as [|n IH]; intros [|y r]; cbn [skipn List.length]; try reflexivity. apply IH. Qed.

(* bounds as positions between lines: a bound at or below the insertion point moves down (whether the new line itself
   falls inside is irrelevant: it is not counted) *)
Lemma count_slice_ins {A} (p : A -> bool) (x : A) lo hi k l : p x = false -> k <= List.length l ->
  filter p (slice (if k <=? lo then S lo else lo) (if k <? hi then S hi else hi) (ins k x l)) = filter p (slice lo hi l).
Proof.
  intros Hx Hl. unfold slice. destruct (Nat.leb_spec k lo) as [A1|A1].
  - rewrite (skipn_ins_le x lo k l A1 Hl). destruct (Nat.ltb_spec k hi) as [B|B].
    + reflexivity.
    + replace (hi - S lo) with 0 by lia. replace (hi - lo) with 0 by lia. reflexivity.
  - rewrite (skipn_ins_gt x lo k l) by lia. destruct (Nat.ltb_spec k hi) as [B|B].
    + replace (S hi - lo) with (S (hi - lo)) by lia. rewrite firstn_ins_lt by lia. now apply filter_ins_false.
    + rewrite firstn_ins_ge; [reflexivity|lia|]. rewrite skipn_length'. lia.
Qed.

(* ---------- a syntax node under the line shift ---------- *)
(* node = (first line, number of lines); the lines first .. first + len - 1 *)
Definition len_shift (k start len : nat) : nat := shift_ins k (start + len - 1) - shift_ins k start + 1.

Lemma node_bounds k start len : 1 <= start -> 1 <= len ->
  shift_ins k start - 1 = (if k <=? start - 1 then S (start - 1) else start - 1) /\
  shift_ins k start + len_shift k start len - 1 = (if k <? start + len - 1 then S (start + len - 1) else start + len - 1).
Proof.
  intros Hs Hn. unfold len_shift, shift_ins.
  destruct (Nat.ltb_spec k start), (Nat.leb_spec k (start - 1)), (Nat.ltb_spec k (start + len - 1)); lia.
Qed.

(* the class node starts c_deco lines above its keyword line (TypeScript decorators; 0 elsewhere): node start, keyword line and node
   end all move with the shift *)
Definition node_start (c : cls) : nat := c_line c - c_deco c.
Definition shift_cls (k : nat) (c : cls) : cls :=
  {| c_name := c_name c; c_kind := c_kind c; c_line := shift_ins k (c_line c); c_col := c_col c;
     c_deco := shift_ins k (c_line c) - shift_ins k (node_start c);
     c_len := len_shift k (node_start c) (c_len c); c_members := c_members c |}.

Lemma gen_loc : py_loc_lo_sub = 1 /\ py_loc_hi_add = 0 /\ rs_loc_lo_sub = 0 /\ rs_loc_hi_add = 1 /\ ts_loc_mode = LocFilter 0 1 "//".
Proof. repeat split; reflexivity. Qed.

Lemma sapp_assoc' a b c : ((a ++ b) ++ c)%string = (a ++ (b ++ c))%string.
Proof. induction a as [|x r IH]; [reflexivity|]. cbn [append]. now rewrite IH. Qed.

(* ---------- the text the metric looks at: str.strip() of the raw line (Model/SrpTypes.v) ---------- *)
Definition ws_all (w : string) : bool := all_of SrpTypes.is_ws w.

Lemma lstrip_ws_app : forall w s, ws_all w = true -> SrpTypes.lstrip (w ++ s) = SrpTypes.lstrip s.
Proof.
  induction w as [|c r IH]; intros s H; [reflexivity|]. unfold ws_all in H. cbn [all_of] in H. apply andb_true_iff in H as [Hc H].
  cbn [append SrpTypes.lstrip]. rewrite Hc. now apply IH.
Qed.

Lemma rstrip_ws : forall w, ws_all w = true -> SrpTypes.rstrip w = EmptyString.
Proof.
  induction w as [|c r IH]; intro H; [reflexivity|]. unfold ws_all in H. cbn [all_of] in H. apply andb_true_iff in H as [Hc H].
  cbn [SrpTypes.rstrip]. rewrite (IH H). now rewrite Hc.
Qed.

Lemma rstrip_app_ws : forall s w, ws_all w = true -> SrpTypes.rstrip (s ++ w) = SrpTypes.rstrip s.
Proof.
  induction s as [|c r IH]; intros w H; [cbn [append]; now rewrite rstrip_ws|]. cbn [append SrpTypes.rstrip]. now rewrite IH.
Qed.

Lemma rstrip_solid c r : SrpTypes.is_ws c = false -> SrpTypes.rstrip (String c r) = String c (SrpTypes.rstrip r).
Proof. intro H. cbn [SrpTypes.rstrip]. destruct (SrpTypes.rstrip r); [now rewrite H|reflexivity]. Qed.

Lemma lstrip_is_suffix : forall s, exists w, ws_all w = true /\ s = (w ++ SrpTypes.lstrip s)%string.
Proof.
  induction s as [|c r IH]; [exists EmptyString; split; reflexivity|]. cbn [SrpTypes.lstrip]. destruct (SrpTypes.is_ws c) eqn:E.
  - destruct IH as (w & Hw & Er). exists (String c w). split; [unfold ws_all in *; cbn [all_of]; now rewrite E, Hw|]. cbn [append]. now rewrite <- Er.
  - exists EmptyString. split; reflexivity.
Qed.

(* trailing white space (a CR included) and any change of the indentation leave the stripped text unchanged *)
Theorem strip_trailing_ws s w : ws_all w = true -> SrpTypes.strip (s ++ w) = SrpTypes.strip s.
Proof.
  intro H. unfold SrpTypes.strip. destruct (lstrip_is_suffix s) as (w0 & H0 & E).
  rewrite E at 1. rewrite sapp_assoc'. rewrite lstrip_ws_app by assumption.
  destruct (SrpTypes.lstrip s) as [|c r] eqn:L.
  - cbn [append]. destruct (lstrip_is_suffix w) as (w1 & H1 & E1). rewrite rstrip_ws; [reflexivity|].
    clear - H. revert H. induction w as [|c r IH]; intro H; [reflexivity|]. unfold ws_all in *. cbn [all_of] in H.
    apply andb_true_iff in H as [Hc H]. cbn [SrpTypes.lstrip]. rewrite Hc. now apply IH.
  - assert (Hc : SrpTypes.is_ws c = false).
    { clear - L. revert L. induction s as [|d s IH]; cbn [SrpTypes.lstrip]; [discriminate|]. destruct (SrpTypes.is_ws d) eqn:E; [exact IH|].
      intro L. injection L as -> _. exact E. }
    cbn [append SrpTypes.lstrip]. rewrite Hc. change (String c (r ++ w)) with (String c r ++ w)%string. now apply rstrip_app_ws.
Qed.

Theorem strip_leading_ws w s : ws_all w = true -> SrpTypes.strip (w ++ s) = SrpTypes.strip s.
Proof. intro H. unfold SrpTypes.strip. now rewrite lstrip_ws_app. Qed.

Lemma strip_ws w : ws_all w = true -> SrpTypes.strip w = EmptyString.
Proof.
  intro H. unfold SrpTypes.strip. replace (SrpTypes.lstrip w) with EmptyString; [reflexivity|].
  symmetry. revert H. induction w as [|c r IH]; intro H; [reflexivity|]. unfold ws_all in *. cbn [all_of] in H.
  apply andb_true_iff in H as [Hc H]. cbn [SrpTypes.lstrip]. rewrite Hc. now apply IH.
Qed.

(* a blank line (white space only) and a comment line (white space, the marker, anything) are not counted *)
Lemma text_counts_blank pfx k w : ws_all w = true -> text_counts pfx {| l_kind := k; l_raw := w |} = false.
Proof. intro H. unfold text_counts, l_text. cbn [l_raw]. now rewrite (strip_ws w H). Qed.

Lemma text_counts_hash_comment k w t : ws_all w = true -> text_counts "#" {| l_kind := k; l_raw := (w ++ "#" ++ t)%string |} = false.
Proof.
  intro H. unfold text_counts, l_text. cbn [l_raw]. rewrite (strip_leading_ws w _ H). unfold SrpTypes.strip.
  change (SrpTypes.lstrip ("#" ++ t)) with ("#" ++ t)%string. change ("#" ++ t)%string with (String "#" t).
  rewrite (rstrip_solid "#" t eq_refl). cbn [starts_with Ascii.eqb Bool.eqb andb negb]. now rewrite andb_false_r.
Qed.

Lemma text_counts_slash_comment k w t : ws_all w = true -> text_counts "//" {| l_kind := k; l_raw := (w ++ "//" ++ t)%string |} = false.
Proof.
  intro H. unfold text_counts, l_text. cbn [l_raw]. rewrite (strip_leading_ws w _ H). unfold SrpTypes.strip.
  change (SrpTypes.lstrip ("//" ++ t)) with ("//" ++ t)%string. change ("//" ++ t)%string with (String "/" (String "/" t)).
  rewrite (rstrip_solid "/" _ eq_refl), (rstrip_solid "/" t eq_refl). cbn [starts_with Ascii.eqb Bool.eqb andb negb]. now rewrite andb_false_r.
Qed.

(* ---------- Python: heuristics.count_loc ---------- *)
Theorem py_loc_insert q lines c k x : py_line_counts q x = false -> k <= List.length lines -> 1 <= c_line c -> 1 <= c_len c ->
  c_deco c = 0 ->
  py_count_loc q (ins k x lines) (shift_cls k c) = py_count_loc q lines c.
Proof.
  intros Hx Hk Hs Hn Hd. unfold py_count_loc. destruct gen_loc as (-> & -> & _). cbn [shift_cls c_line c_len].
  unfold node_start. rewrite Hd, Nat.sub_0_r.
  destruct (node_bounds k (c_line c) (c_len c) Hs Hn) as [B1 B2].
  rewrite !Nat.add_0_r, B1, B2. replace (c_line c + c_len c - 1) with (c_line c + c_len c - 1) by lia.
  now rewrite (count_slice_ins (py_line_counts q) x (c_line c - 1) (c_line c + c_len c - 1) k lines Hx Hk).
Qed.

(* a blank line and a comment line are not counted, whatever the flags *)
Lemma py_blank_not_counted q w : ws_all w = true -> py_line_counts q {| l_kind := LBlank; l_raw := w |} = false.
Proof. intro H. unfold py_line_counts. rewrite (text_counts_blank _ _ w H). cbn [l_kind lkind_eqb]. now rewrite andb_false_r. Qed.

Lemma py_comment_not_counted q w t : ws_all w = true -> py_line_counts q {| l_kind := LComment; l_raw := (w ++ "#" ++ t)%string |} = false.
Proof. intro H. unfold py_line_counts. rewrite (text_counts_hash_comment _ w t H). cbn [l_kind lkind_eqb]. now rewrite andb_false_r. Qed.

(* ---------- Rust: _node_loc ---------- *)
Theorem rs_loc_insert q lines start len k x : rs_line_counts q x = false -> k <= List.length lines -> 1 <= start -> 1 <= len ->
  rs_node_loc q (ins k x lines) (shift_ins k start) (len_shift k start len) = rs_node_loc q lines start len.
Proof.
  intros Hx Hk Hs Hn. unfold rs_node_loc. destruct gen_loc as (_ & _ & -> & -> & _).
  destruct (node_bounds k start len Hs Hn) as [B1 B2].
  replace (shift_ins k start - 1 - 0) with (shift_ins k start - 1) by lia.
  replace (shift_ins k start + len_shift k start len - 2 + 1) with (shift_ins k start + len_shift k start len - 1)
    by (unfold len_shift, shift_ins; destruct (k <? start), (k <? start + len - 1); lia).
  replace (start - 1 - 0) with (start - 1) by lia. replace (start + len - 2 + 1) with (start + len - 1) by lia.
  rewrite B1, B2. f_equal. now apply count_slice_ins.
Qed.

Lemma rs_blank_not_counted q k w : ws_all w = true -> rs_line_counts q {| l_kind := k; l_raw := w |} = false.
Proof. intro H. unfold rs_line_counts. destruct gen_loc as (_ & _ & _ & _ & _). change rs_comment_prefix with "//". now rewrite (text_counts_blank _ _ w H). Qed.

Lemma rs_comment_not_counted q k w t : ws_all w = true -> rs_line_counts q {| l_kind := k; l_raw := (w ++ "//" ++ t)%string |} = false.
Proof. intro H. unfold rs_line_counts. change rs_comment_prefix with "//". now rewrite (text_counts_slash_comment _ w t H). Qed.

(* ---------- TypeScript / JavaScript: count_loc ---------- *)
(* the rule is read from the source (Gen.SrpGen.ts_loc_mode); since fix c90fc92 it filters the lines of the node like the other
   two, so the metric is invariant for every quirk vector.  (Reverting the fix changes ts_loc_mode and this proof fails.) *)
Theorem ts_loc_insert q lines c k x : ts_line_counts q "//" x = false -> k <= List.length lines ->
  1 <= node_start c -> c_deco c <= c_line c -> 1 <= c_len c ->
  ts_count_loc q (ins k x lines) (shift_cls k c) = ts_count_loc q lines c.
Proof.
  intros Hx Hk Hs Hd Hn. unfold ts_count_loc. destruct gen_loc as (_ & _ & _ & _ & ->).
  cbn [shift_cls c_line c_len c_deco].
  assert (M : shift_ins k (node_start c) <= shift_ins k (c_line c)).
  { unfold node_start, shift_ins. destruct (k <? c_line c - c_deco c) eqn:E1, (k <? c_line c) eqn:E2;
    rewrite ?Nat.ltb_lt, ?Nat.ltb_ge in *; lia. }
  replace (shift_ins k (c_line c) - (shift_ins k (c_line c) - shift_ins k (node_start c))) with (shift_ins k (node_start c)) by lia.
  destruct (node_bounds k (node_start c) (c_len c) Hs Hn) as [B1 B2].
  replace (shift_ins k (node_start c) - 1 - 0) with (shift_ins k (node_start c) - 1) by lia.
  replace (shift_ins k (node_start c) + len_shift k (node_start c) (c_len c) - 2 + 1)
    with (shift_ins k (node_start c) + len_shift k (node_start c) (c_len c) - 1)
    by (unfold len_shift, shift_ins; destruct (k <? node_start c), (k <? node_start c + c_len c - 1); lia).
  change (c_line c - c_deco c) with (node_start c).
  replace (node_start c - 1 - 0) with (node_start c - 1) by lia.
  replace (node_start c + c_len c - 2 + 1) with (node_start c + c_len c - 1) by lia.
  rewrite B1, B2. f_equal. now apply count_slice_ins.
Qed.

Lemma ts_blank_not_counted q k w : ws_all w = true -> ts_line_counts q "//" {| l_kind := k; l_raw := w |} = false.
Proof. intro H. unfold ts_line_counts. now rewrite (text_counts_blank _ _ w H). Qed.

Lemma ts_comment_not_counted q k w t : ws_all w = true -> ts_line_counts q "//" {| l_kind := k; l_raw := (w ++ "//" ++ t)%string |} = false.
Proof. intro H. unfold ts_line_counts. now rewrite (text_counts_slash_comment _ w t H). Qed.

(* regression (finding q_ts_loc_raw_span, fixed by c90fc92): the old witness - a blank line inside a three-line class - now keeps
   its line count under the claimed vector *)
Example ts_loc_old_witness_invariant :
  let lines := [{| l_kind := LCode; l_raw := "class A {" |}; {| l_kind := LCode; l_raw := "  x = 1;" |}; {| l_kind := LCode; l_raw := "}" |}] in
  let c := {| c_name := "A"; c_kind := CPlain; c_line := 1; c_col := 0; c_deco := 0; c_len := 3; c_members := [] |} in
  ts_count_loc srp_actual (ins 1 {| l_kind := LBlank; l_raw := "   " |} lines) (shift_cls 1 c) = ts_count_loc srp_actual lines c.
Proof. vm_compute. reflexivity. Qed.

(* ---------- trailing white space, CR, re-indentation of any lines: the same counts (no shift) ---------- *)
Definition same_text (a b : line) : Prop := l_kind a = l_kind b /\ l_text a = l_text b.

Lemma same_text_trailing k s w : ws_all w = true -> same_text {| l_kind := k; l_raw := s |} {| l_kind := k; l_raw := (s ++ w)%string |}.
Proof. intro H. split; [reflexivity|]. unfold l_text. cbn [l_raw]. symmetry. now apply strip_trailing_ws. Qed.

Lemma same_text_indent k w w' body : ws_all w = true -> ws_all w' = true ->
  same_text {| l_kind := k; l_raw := (w ++ body)%string |} {| l_kind := k; l_raw := (w' ++ body)%string |}.
Proof. intros H H'. split; [reflexivity|]. unfold l_text. cbn [l_raw]. now rewrite !strip_leading_ws. Qed.

Lemma Forall2_skipn {A} (R : A -> A -> Prop) : forall n l l', Forall2 R l l' -> Forall2 R (skipn n l) (skipn n l').
Proof. induction n as [|n IH]; intros l l' H; [exact H|]. destruct H; [constructor|]. cbn [skipn]. now apply IH. Qed.

Lemma Forall2_firstn {A} (R : A -> A -> Prop) : forall n l l', Forall2 R l l' -> Forall2 R (firstn n l) (firstn n l').
Proof. induction n as [|n IH]; intros l l' H; [constructor|]. destruct H; [constructor|]. cbn [firstn]. constructor; [assumption|now apply IH]. Qed.

Lemma filter_length_same {A} (p : A -> bool) (R : A -> A -> Prop) : (forall a b, R a b -> p a = p b) ->
  forall l l', Forall2 R l l' -> List.length (filter p l) = List.length (filter p l').
Proof.
  intros H l l' F. induction F as [|a b l l' Hab _ IH]; [reflexivity|]. cbn [filter]. rewrite (H a b Hab).
  destruct (p b); cbn [List.length]; now rewrite IH.
Qed.

Lemma count_slice_same (p : line -> bool) lo hi : (forall a b, same_text a b -> p a = p b) ->
  forall l l', Forall2 same_text l l' -> List.length (filter p (slice lo hi l)) = List.length (filter p (slice lo hi l')).
Proof. intros H l l' F. unfold slice. apply (filter_length_same p same_text H). now apply Forall2_firstn, Forall2_skipn. Qed.

Lemma text_counts_same pfx a b : same_text a b -> text_counts pfx a = text_counts pfx b.
Proof. intros [_ E]. unfold text_counts. now rewrite E. Qed.

Theorem py_loc_same_text q ls ls' c : Forall2 same_text ls ls' -> py_count_loc q ls c = py_count_loc q ls' c.
Proof.
  intro F. unfold py_count_loc. apply count_slice_same; [|exact F].
  intros a b H. unfold py_line_counts. rewrite (text_counts_same _ a b H). destruct H as [K _]. now rewrite K.
Qed.

Theorem rs_loc_same_text q ls ls' start len : Forall2 same_text ls ls' -> rs_node_loc q ls start len = rs_node_loc q ls' start len.
Proof.
  intro F. unfold rs_node_loc. apply count_slice_same; [|exact F].
  intros a b H. unfold rs_line_counts. rewrite (text_counts_same _ a b H). destruct H as [K _]. now rewrite K.
Qed.

Theorem ts_loc_same_text q ls ls' c : Forall2 same_text ls ls' -> ts_count_loc q ls c = ts_count_loc q ls' c.
Proof.
  intro F. unfold ts_count_loc. destruct gen_loc as (_ & _ & _ & _ & ->). apply count_slice_same; [|exact F].
  intros a b H. unfold ts_line_counts. rewrite (text_counts_same _ a b H). destruct H as [K _]. now rewrite K.
Qed.

(* appended code lies outside every node *)
Lemma slice_app {A} lo hi (l extra : list A) : hi <= List.length l -> slice lo hi (l ++ extra) = slice lo hi l.
Proof.
  intro H. unfold slice. rewrite skipn_app. rewrite firstn_app.
  replace (hi - lo - List.length (skipn lo l)) with 0 by (rewrite skipn_length'; lia).
  cbn [firstn]. now rewrite app_nil_r.
Qed.

Theorem py_loc_append q lines extra c : c_line c + c_len c - 1 <= List.length lines ->
  py_count_loc q (lines ++ extra) c = py_count_loc q lines c.
Proof.
  intro H. unfold py_count_loc. destruct gen_loc as (-> & -> & _). rewrite Nat.add_0_r. now rewrite slice_app.
Qed.

Theorem rs_loc_append q lines extra start len : 1 <= start -> 1 <= len -> start + len - 1 <= List.length lines ->
  rs_node_loc q (lines ++ extra) start len = rs_node_loc q lines start len.
Proof.
  intros Hs Hn H. unfold rs_node_loc. destruct gen_loc as (_ & _ & -> & -> & _). rewrite slice_app; [reflexivity|lia].
Qed.
