(* Proofs/EditSrp.v — C13, the lines-of-code metric of the SRP linter (Model/Srp.v: heuristics.count_loc,
   RustSRPAnalyzer._node_loc, typescript_metrics_calculator.count_loc) under insertion of blank / comment lines.
   Python and Rust filter the source lines of the node: invariant for every quirk vector.  TypeScript / JavaScript
   report end_row - start_row + 1: NOT invariant (refuted); with that flag off it is. *)
From TL Require Import Lib.Base Lib.GenTypes Model.SrpTypes Gen.SrpGen Model.SrpSpec Model.Srp Actual.SrpActual Model.Edit Proofs.EditList.

(* ---------- slices under insertion ---------- *)
Lemma skipn_ins_le {A} (x : A) : forall lo k l, k <= lo -> k <= List.length l -> skipn (S lo) (ins k x l) = skipn lo l.
Proof.
  induction lo as [|lo IH]; intros k l Hk Hl.
  - assert (k = 0) by lia. subst k. destruct l; reflexivity.
  - destruct k as [|k]; [destruct l; reflexivity|].
    destruct l as [|y r]; cbn [List.length] in Hl; [lia|]. cbn [ins]. change (skipn (S (S lo)) (y :: ins k x r)) with (skipn (S lo) (ins k x r)).
    change (skipn (S lo) (y :: r)) with (skipn lo r). apply IH; lia.
Qed.

Lemma skipn_ins_gt {A} (x : A) : forall lo k l, lo <= k -> k <= List.length l -> skipn lo (ins k x l) = ins (k - lo) x (skipn lo l).
Proof.
  induction lo as [|lo IH]; intros k l Hk Hl; [now rewrite Nat.sub_0_r|].
  destruct k as [|k]; [lia|]. destruct l as [|y r]; cbn [List.length] in Hl; [lia|].
  cbn [ins]. change (skipn (S lo) (y :: ins k x r)) with (skipn lo (ins k x r)). change (skipn (S lo) (y :: r)) with (skipn lo r).
  replace (S k - S lo) with (k - lo) by lia. apply IH; lia.
Qed.

Lemma firstn_ins_lt {A} (x : A) : forall n j m, j <= n -> firstn (S n) (ins j x m) = ins j x (firstn n m).
Proof.
  induction n as [|n IH]; intros j m Hj.
  - assert (j = 0) by lia. subst j. destruct m; reflexivity.
  - destruct j as [|j]; [destruct m; reflexivity|]. destruct m as [|y r].
    + cbn [ins firstn]. reflexivity.
    + cbn [ins]. change (firstn (S (S n)) (y :: ins j x r)) with (y :: firstn (S n) (ins j x r)).
      change (firstn (S n) (y :: r)) with (y :: firstn n r). cbn [ins]. rewrite IH by lia. reflexivity.
Qed.

Lemma firstn_ins_ge {A} (x : A) : forall n j m, n <= j -> j <= List.length m -> firstn n (ins j x m) = firstn n m.
Proof.
  induction n as [|n IH]; intros j m Hj Hm; [reflexivity|].
  destruct j as [|j]; [lia|]. destruct m as [|y r]; cbn [List.length] in Hm; [lia|].
  cbn [ins firstn]. rewrite IH by lia. reflexivity.
Qed.

Lemma skipn_length' {A} : forall n (l : list A), List.length (skipn n l) = List.length l - n.
Proof. induction n as [|n IH]; intros [|y r]; cbn [skipn List.length]; try reflexivity. apply IH. Qed.

(* bounds as positions between lines: a bound at or below the insertion point moves down (whether the new line itself
   falls inside is irrelevant: it is not counted) *)
Lemma count_slice_ins {A} (p : A -> bool) (x : A) lo hi k l : p x = false -> k <= List.length l ->
  filter p (slice (if k <=? lo then S lo else lo) (if k <? hi then S hi else hi) (ins k x l)) = filter p (slice lo hi l).
Proof.
  intros Hx Hl. unfold slice. destruct (Nat.leb_spec k lo) as [A1|A1].
  - rewrite (skipn_ins_le x lo k l A1 Hl). destruct (Nat.ltb_spec k hi) as [B|B].
    + reflexivity.
    + replace (hi - S lo) with 0 by lia. replace (hi - lo) with 0 by lia. reflexivity.
  - rewrite (skipn_ins_gt x lo k l) by lia. destruct (Nat.ltb_spec k hi) as [B|B].
    + replace (S hi - lo) with (S (hi - lo)) by lia. rewrite firstn_ins_lt by lia. now apply filter_ins_false.
    + rewrite firstn_ins_ge; [reflexivity|lia|]. rewrite skipn_length'. lia.
Qed.

(* ---------- a syntax node under the line shift ---------- *)
(* node = (first line, number of lines); the lines first .. first + len - 1 *)
Definition len_shift (k start len : nat) : nat := shift_ins k (start + len - 1) - shift_ins k start + 1.

Lemma node_bounds k start len : 1 <= start -> 1 <= len ->
  shift_ins k start - 1 = (if k <=? start - 1 then S (start - 1) else start - 1) /\
  shift_ins k start + len_shift k start len - 1 = (if k <? start + len - 1 then S (start + len - 1) else start + len - 1).
Proof.
  intros Hs Hn. unfold len_shift, shift_ins.
  destruct (Nat.ltb_spec k start), (Nat.leb_spec k (start - 1)), (Nat.ltb_spec k (start + len - 1)); lia.
Qed.

(* the class node starts c_deco lines above its keyword line (TypeScript decorators; 0 elsewhere): node start, keyword line and node
   end all move with the shift *)
Definition node_start (c : cls) : nat := c_line c - c_deco c.
Definition shift_cls (k : nat) (c : cls) : cls :=
  {| c_name := c_name c; c_kind := c_kind c; c_line := shift_ins k (c_line c); c_col := c_col c;
     c_deco := shift_ins k (c_line c) - shift_ins k (node_start c);
     c_len := len_shift k (node_start c) (c_len c); c_members := c_members c |}.

Lemma gen_loc : py_loc_lo_sub = 1 /\ py_loc_hi_add = 0 /\ rs_loc_lo_sub = 0 /\ rs_loc_hi_add = 1 /\ ts_loc_mode = LocFilter 0 1 "//".
Proof. repeat split; reflexivity. Qed.

(* ---------- Python: heuristics.count_loc ---------- *)
Theorem py_loc_insert q lines c k x : py_line_counts q x = false -> k <= List.length lines -> 1 <= c_line c -> 1 <= c_len c ->
  c_deco c = 0 ->
  py_count_loc q (ins k x lines) (shift_cls k c) = py_count_loc q lines c.
Proof.
  intros Hx Hk Hs Hn Hd. unfold py_count_loc. destruct gen_loc as (-> & -> & _). cbn [shift_cls c_line c_len].
  unfold node_start. rewrite Hd, Nat.sub_0_r.
  destruct (node_bounds k (c_line c) (c_len c) Hs Hn) as [B1 B2].
  rewrite !Nat.add_0_r, B1, B2. replace (c_line c + c_len c - 1) with (c_line c + c_len c - 1) by lia.
  now rewrite (count_slice_ins (py_line_counts q) x (c_line c - 1) (c_line c + c_len c - 1) k lines Hx Hk).
Qed.

(* a blank line and a comment line are not counted, whatever the flags *)
Lemma py_blank_not_counted q : py_line_counts q {| l_kind := LBlank; l_text := "" |} = false.
Proof. destruct (q_py_hash_in_string q) eqn:E; unfold py_line_counts; rewrite E; reflexivity. Qed.

Lemma py_comment_not_counted q t : py_line_counts q {| l_kind := LComment; l_text := ("#" ++ t)%string |} = false.
Proof. destruct (q_py_hash_in_string q) eqn:E; unfold py_line_counts; rewrite E; reflexivity. Qed.

(* ---------- Rust: _node_loc ---------- *)
Theorem rs_loc_insert q lines start len k x : rs_line_counts q x = false -> k <= List.length lines -> 1 <= start -> 1 <= len ->
  rs_node_loc q (ins k x lines) (shift_ins k start) (len_shift k start len) = rs_node_loc q lines start len.
Proof.
  intros Hx Hk Hs Hn. unfold rs_node_loc. destruct gen_loc as (_ & _ & -> & -> & _).
  destruct (node_bounds k start len Hs Hn) as [B1 B2].
  replace (shift_ins k start - 1 - 0) with (shift_ins k start - 1) by lia.
  replace (shift_ins k start + len_shift k start len - 2 + 1) with (shift_ins k start + len_shift k start len - 1)
    by (unfold len_shift, shift_ins; destruct (k <? start), (k <? start + len - 1); lia).
  replace (start - 1 - 0) with (start - 1) by lia. replace (start + len - 2 + 1) with (start + len - 1) by lia.
  rewrite B1, B2. f_equal. now apply count_slice_ins.
Qed.

Lemma rs_blank_not_counted q : rs_line_counts q {| l_kind := LBlank; l_text := "" |} = false.
Proof. reflexivity. Qed.

Lemma rs_comment_not_counted q t : rs_line_counts q {| l_kind := LComment; l_text := ("//" ++ t)%string |} = false.
Proof. reflexivity. Qed.

(* ---------- TypeScript / JavaScript: count_loc ---------- *)
(* the rule is read from the source (Gen.SrpGen.ts_loc_mode); since fix c90fc92 it filters the lines of the node like the other
   two, so the metric is invariant for every quirk vector.  (Reverting the fix changes ts_loc_mode and this proof fails.) *)
Theorem ts_loc_insert q lines c k x : ts_line_counts q "//" x = false -> k <= List.length lines ->
  1 <= node_start c -> c_deco c <= c_line c -> 1 <= c_len c ->
  ts_count_loc q (ins k x lines) (shift_cls k c) = ts_count_loc q lines c.
Proof.
  intros Hx Hk Hs Hd Hn. unfold ts_count_loc. destruct gen_loc as (_ & _ & _ & _ & ->).
  cbn [shift_cls c_line c_len c_deco].
  assert (M : shift_ins k (node_start c) <= shift_ins k (c_line c)).
  { unfold node_start, shift_ins. destruct (k <? c_line c - c_deco c) eqn:E1, (k <? c_line c) eqn:E2;
    rewrite ?Nat.ltb_lt, ?Nat.ltb_ge in *; lia. }
  replace (shift_ins k (c_line c) - (shift_ins k (c_line c) - shift_ins k (node_start c))) with (shift_ins k (node_start c)) by lia.
  destruct (node_bounds k (node_start c) (c_len c) Hs Hn) as [B1 B2].
  replace (shift_ins k (node_start c) - 1 - 0) with (shift_ins k (node_start c) - 1) by lia.
  replace (shift_ins k (node_start c) + len_shift k (node_start c) (c_len c) - 2 + 1)
    with (shift_ins k (node_start c) + len_shift k (node_start c) (c_len c) - 1)
    by (unfold len_shift, shift_ins; destruct (k <? node_start c), (k <? node_start c + c_len c - 1); lia).
  change (c_line c - c_deco c) with (node_start c).
  replace (node_start c - 1 - 0) with (node_start c - 1) by lia.
  replace (node_start c + c_len c - 2 + 1) with (node_start c + c_len c - 1) by lia.
  rewrite B1, B2. f_equal. now apply count_slice_ins.
Qed.

Lemma ts_blank_not_counted q : ts_line_counts q "//" {| l_kind := LBlank; l_text := "" |} = false.
Proof. reflexivity. Qed.

Lemma ts_comment_not_counted q t : ts_line_counts q "//" {| l_kind := LComment; l_text := ("//" ++ t)%string |} = false.
Proof. reflexivity. Qed.

(* regression (finding q_ts_loc_raw_span, fixed by c90fc92): the old witness - a blank line inside a three-line class - now keeps
   its line count under the claimed vector *)
Example ts_loc_old_witness_invariant :
  let lines := [{| l_kind := LCode; l_text := "class A {" |}; {| l_kind := LCode; l_text := "x = 1;" |}; {| l_kind := LCode; l_text := "}" |}] in
  let c := {| c_name := "A"; c_kind := CPlain; c_line := 1; c_col := 0; c_deco := 0; c_len := 3; c_members := [] |} in
  ts_count_loc srp_actual (ins 1 {| l_kind := LBlank; l_text := "" |} lines) (shift_cls 1 c) = ts_count_loc srp_actual lines c.
Proof. vm_compute. reflexivity. Qed.

(* appended code lies outside every node *)
Lemma slice_app {A} lo hi (l extra : list A) : hi <= List.length l -> slice lo hi (l ++ extra) = slice lo hi l.
Proof.
  intro H. unfold slice. rewrite skipn_app. rewrite firstn_app.
  replace (hi - lo - List.length (skipn lo l)) with 0 by (rewrite skipn_length'; lia).
  cbn [firstn]. now rewrite app_nil_r.
Qed.

Theorem py_loc_append q lines extra c : c_line c + c_len c - 1 <= List.length lines ->
  py_count_loc q (lines ++ extra) c = py_count_loc q lines c.
Proof.
  intro H. unfold py_count_loc. destruct gen_loc as (-> & -> & _). rewrite Nat.add_0_r. now rewrite slice_app.
Qed.

Theorem rs_loc_append q lines extra start len : 1 <= start -> 1 <= len -> start + len - 1 <= List.length lines ->
  rs_node_loc q (lines ++ extra) start len = rs_node_loc q lines start len.
Proof.
  intros Hs Hn H. unfold rs_node_loc. destruct gen_loc as (_ & _ & -> & -> & _). rewrite slice_app; [reflexivity|lia].
Qed.
