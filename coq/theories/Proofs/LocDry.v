(* Proofs/LocDry.v — C12 for the DRY model (Model/DryPipe.v / Model/Dry.v): every violation the model emits,
   for any quirk vector, window size W >= 1, occurrence threshold and project, is located in a file of the
   project, at the original line number of a code line of that file (not part of a docstring, non-empty after
   comment removal and normalisation, not an import line): the first line of a stored window.  The original
   line number survives the removal of docstring / blank / comment / import lines because the tokenizer
   numbers lines before it filters them (enumerate(..., start=1), generated). *)
From TL Require Import Lib.Base Lib.GenTypes Model.DryBase Model.DryPipe Gen.DryGen Model.Dry
     Proofs.DryGreedy Proofs.DryStageA Proofs.DryMain.

(* ------------------------------------------------------------------ stage A: tokens keep their original line *)
Lemma tokenize_from_line P : forall ls n st p, In p (tokenize_from P n st ls) ->
  n <= fst p /\ exists l, nth_error ls (fst p - n) = Some l /\ a_doc l = false /\ snd p = p_norm P l /\ str_empty (snd p) = false.
Proof.
  induction ls as [|l rest IH]; intros n st p Hp; cbn [tokenize_from] in Hp; [contradiction|].
  assert (Hskip : forall st', In p (tokenize_from P (S n) st' rest) ->
            n <= fst p /\ exists l0, nth_error (l :: rest) (fst p - n) = Some l0 /\ a_doc l0 = false /\ snd p = p_norm P l0 /\ str_empty (snd p) = false).
  { intros st' H. destruct (IH _ _ _ H) as [Hle [l0 [Hn Hrest]]]. split; [lia|]. exists l0. split; [|exact Hrest].
    replace (fst p - n) with (S (fst p - S n)) by lia. exact Hn. }
  destruct (a_doc l) eqn:Ed; [exact (Hskip _ Hp)|]. destruct (str_empty (p_norm P l)) eqn:Ee; [exact (Hskip _ Hp)|].
  destruct (snd (p_skip P (p_norm P l) st)); [exact (Hskip _ Hp)|].
  destruct Hp as [<-|Hp]; [|exact (Hskip _ Hp)].
  cbn [fst snd]. split; [lia|]. exists l. rewrite Nat.sub_diag. cbn [nth_error]. auto.
Qed.

(* a token of the stream is a code line of the file at its own (1-based when first_line = 1) number *)
Definition code_line_at (P : aparams) (ls : list aline) (line : nat) : Prop :=
  p_first_line P <= line /\ exists l, nth_error ls (line - p_first_line P) = Some l /\ a_doc l = false /\ str_empty (p_norm P l) = false.

Lemma tokenize_code_line P ls p : In p (tokenize P ls) -> code_line_at P ls (fst p).
Proof.
  unfold tokenize. intros H. destruct (tokenize_from_line P ls _ _ p H) as [Hle [l [Hn [Hd [Hs He]]]]].
  split; [exact Hle|]. exists l. rewrite <- Hs. auto.
Qed.

(* windows: every stored window is non-empty and its elements are tokens of the stream *)
Lemma win_In W i s x : In x (win W i s) -> In x s.
Proof. unfold win. intros H. apply firstn_In' in H. now apply skipn_In' in H. Qed.

Lemma window_list_in P W s w : p_guard P = CLt -> p_off P = 1 -> 1 <= W -> In w (window_list P W s) ->
  exists i, i + W <= List.length s /\ w = win W i s.
Proof.
  intros Hg Ho HW. unfold window_list. rewrite Hg, Ho. cbn [cmp_nat].
  destruct (List.length s <? W) eqn:E; [intros []|]. apply Nat.ltb_ge in E.
  rewrite windows_from_seq. intros H. apply in_map_iff in H. destruct H as [i [<- Hi]]. apply in_seq in Hi.
  exists i. split; [lia|reflexivity].
Qed.

Lemma row_start_is_token P W fi ls b : p_guard P = CLt -> p_off P = 1 -> p_wstart P = WIdx 0 -> 1 <= W ->
  In b (file_rows P W fi ls) -> r_file b = fi /\ exists p, In p (tokenize P ls) /\ r_start b = fst p.
Proof.
  intros Hg Ho Hs HW H. unfold file_rows in H. apply in_map_iff in H. destruct H as [w [<- Hw]].
  destruct (window_list_in P W _ w Hg Ho HW Hw) as [i [Hi ->]].
  cbn [mk_row r_file r_start]. split; [reflexivity|]. rewrite Hs. cbn [win_pick].
  exists (nth 0 (win W i (tokenize P ls)) (0, "")). split; [|reflexivity].
  apply (win_In W i). apply nth_In. rewrite win_length by exact Hi. lia.
Qed.

Definition analyzer_ok (P : aparams) : Prop := p_guard P = CLt /\ p_off P = 1 /\ p_wstart P = WIdx 0 /\ p_first_line P = 1.

Lemma rows_from_origin PA W : (forall l, analyzer_ok (PA l)) -> 1 <= W -> forall files i0 b, In b (rows_from PA W i0 files) ->
  exists f, nth_error files (r_file b - i0) = Some f /\ i0 <= r_file b /\ code_line_at (PA (f_lang f)) (f_lines f) (r_start b).
Proof.
  intros HA HW. induction files as [|f fs IH]; intros i0 b H; cbn [rows_from] in H; [contradiction|].
  apply in_app_or in H. destruct H as [H|H].
  - destruct (HA (f_lang f)) as [Hg [Ho [Hs _]]].
    destruct (row_start_is_token _ W i0 _ b Hg Ho Hs HW H) as [-> [p [Hp ->]]].
    exists f. rewrite Nat.sub_diag. split; [reflexivity|]. split; [lia|]. now apply tokenize_code_line.
  - destruct (IH (S i0) b H) as [g [Hn [Hle Hc]]]. exists g. split; [|split; [lia|exact Hc]].
    replace (r_file b - i0) with (S (r_file b - S i0)) by lia. exact Hn.
Qed.

(* ------------------------------------------------------------------ stage B: a violation sits at the start of a stored row *)
Section AnyB.
  Variable B : bparams.

  Lemma places_sub s rows p : In p (places B s rows) -> In p rows.
  Proof. unfold places. intros H. apply greedy_incl in H. unfold blocks_of in H. apply filter_In in H. exact (proj1 H). Qed.

  Lemma raw_origin k rows v : In v (raw_viols B k rows) -> exists b, In b rows /\ v_file v = r_file b /\ v_line v = r_start b /\ v_col v = p_column B.
  Proof.
    unfold raw_viols. intros H. apply in_flat_map in H. destruct H as [s [_ H]].
    unfold viols_of_snip in H. destruct (p_meets B _ k); [|destruct H].
    apply in_map_iff in H. destruct H as [b [<- Hb]]. exists b. split; [exact (places_sub _ _ _ Hb)|]. cbn. auto.
  Qed.

  Lemma dedup_sub raw v : In v (dedup_viols B raw) -> In v raw.
  Proof.
    unfold dedup_viols. rewrite in_flat_map. intros [f [_ Hv]]. unfold dedup_file in Hv.
    apply greedy_incl in Hv. apply isort_In in Hv. apply filter_In in Hv. exact (proj1 Hv).
  Qed.

  Lemma report_origin_any k rows v : In v (report B k rows) ->
    exists b, In b rows /\ v_file v = r_file b /\ v_line v = r_start b /\ v_col v = p_column B.
  Proof. unfold report. intros H. apply dedup_sub in H. now apply raw_origin in H. Qed.
End AnyB.

(* ------------------------------------------------------------------ the model *)
Lemma model_analyzers_ok q l : analyzer_ok (model_aparams q l).
Proof.
  destruct gen_py_analyzer as [P1 [P2 [P3 [_ [P5 _]]]]]. destruct gen_ts_analyzer as [T1 [T2 [T3 [_ [T5 _]]]]].
  destruct l; unfold analyzer_ok; cbn [model_aparams p_guard p_off p_wstart p_first_line]; auto.
Qed.

(* line `line` (1-based) of file f is a code line in the sense of the model under q *)
Definition is_code_line (q : dquirks) (f : afile) (line : nat) : Prop :=
  1 <= line <= List.length (f_lines f) /\
  exists l, nth_error (f_lines f) (line - 1) = Some l /\ a_doc l = false /\ str_empty (norm q (f_lang f) l) = false.

Theorem dry_location_recorded q W k files v : 1 <= W -> In v (dry_model q W k files) ->
  exists f, nth_error files (v_file v) = Some f /\ is_code_line q f (v_line v) /\ v_col v = 1.
Proof.
  intros HW H. unfold dry_model, pipeline in H.
  destruct (report_origin_any _ _ _ _ H) as [b [Hb [Hf [Hl Hc]]]].
  unfold all_rows in Hb. destruct (rows_from_origin _ W (model_analyzers_ok q) HW files 0 b Hb) as [f [Hn [_ Hcode]]].
  rewrite Nat.sub_0_r in Hn. exists f. rewrite Hf, Hl. split; [exact Hn|]. split.
  - destruct Hcode as [Hle [l [Hnth [Hd He]]]].
    assert (F1 : p_first_line (model_aparams q (f_lang f)) = 1) by (destruct (model_analyzers_ok q (f_lang f)) as [_ [_ [_ F]]]; exact F).
    rewrite F1 in *. split.
    + split; [exact Hle|]. assert (r_start b - 1 < List.length (f_lines f)) by (apply nth_error_Some; congruence). lia.
    + exists l. split; [exact Hnth|]. split; [exact Hd|]. destruct (f_lang f); exact He.
  - rewrite Hc. cbn [model_bparams p_column]. exact gen_column.
Qed.
