(* Proofs/IgnoreFeat.v — the value of every marker test / regex of the model on every kind of rendered line
   (the "features" the main theorem is assembled from). *)
From TL Require Import Lib.Base Lib.GenTypes Gen.IgnoreGen Model.PyStr Model.Ignore Model.IgnoreSpec
     Proofs.IgnoreStr Proofs.IgnoreStr2 Proofs.IgnoreLines.

(* ---------- explicit lowered forms ---------- *)
Lemma lower_cm st : lower (cm st) = cm st.
Proof. destruct st; reflexivity. Qed.

Lemma lower_names_br n : lower (names_br n) = match n with Bare => "" | Names t => ("[" ++ lower t ++ "]")%string end.
Proof. destruct n as [|t]; [reflexivity|]. cbn [names_br]. now rewrite !lower_app. Qed.

Lemma lower_start_tail br n :
  lower (start_tail br n) = match n with Bare => "" | Names t => if br then ("[" ++ lower t ++ "]")%string else (" " ++ lower t)%string end.
Proof. destruct n as [|t]; [reflexivity|]. destruct br; cbn [start_tail]; now rewrite !lower_app. Qed.

Lemma lower_post l :
  lower (post_of l) =
  match l with
  | LPlain _ => ""
  | LSame _ _ n => lower (names_br n)
  | LNext _ _ n => ("-next-line" ++ lower (names_br n))%string
  | LStart _ _ br n => ("-start" ++ lower (start_tail br n))%string
  | LEnd _ _ => "-end"
  | LFile _ n => ("-file" ++ lower (names_br n))%string
  end.
Proof. destruct l; cbn [post_of]; rewrite ?lower_app; reflexivity. Qed.

Definition tagged (st : style) : string := (cm st ++ " thailint: ")%string.

Lemma lower_pre l : line_ok l = true ->
  lower (pre_of l) =
  match l with
  | LPlain c => lower c
  | LSame c st _ => ((lower c ++ "  ") ++ tagged st)%string
  | LNext ind st _ | LStart ind st _ _ | LEnd ind st => (ind ++ tagged st)%string
  | LFile st _ => tagged st
  end.
Proof.
  destruct l as [c|c st n|ind st n|ind st br n|ind st|st n]; cbn [pre_of line_ok]; intro H; unfold tagged.
  - reflexivity.
  - rewrite !lower_app, lower_cm, sapp_assoc. reflexivity.
  - apply andb_true_iff in H as [Hi _]. now rewrite !lower_app, lower_cm, (lower_indent ind Hi).
  - apply andb_true_iff in H as [Hi _]. now rewrite !lower_app, lower_cm, (lower_indent ind Hi).
  - now rewrite !lower_app, lower_cm, (lower_indent ind H).
  - now rewrite !lower_app, lower_cm.
Qed.

Lemma suffixb_app a x : suffixb x (a ++ x) = true.
Proof. unfold suffixb. rewrite srev_app_distr. apply prefixb_app. Qed.

(* ---------- lists of needles that share the text after the key word ---------- *)
Definition needles_of (xs : list string) (y : string) : list string := map (fun x => (x ++ K ++ y)%string) xs.

Lemma any_absent l xs y : line_ok l = true -> directive l = true -> prefixb y (lower (post_of l)) = false ->
  any_contains (needles_of xs y) (lower (render_line l)) = false.
Proof.
  intros H D Hy. unfold any_contains, needles_of. induction xs as [|x xs IH]; [reflexivity|].
  cbn [map existsb]. now rewrite (needle_absent l x y H D Hy), IH.
Qed.

Lemma any_plain c xs y : kfree c = true -> any_contains (needles_of xs y) (lower c) = false.
Proof.
  intro H. unfold any_contains, needles_of. induction xs as [|x xs IH]; [reflexivity|].
  cbn [map existsb]. now rewrite (plain_no_needle c x y H), IH.
Qed.

Lemma any_present l xs y x : directive l = true -> In x xs ->
  suffixb x (lower (pre_of l)) = true -> prefixb y (lower (post_of l)) = true ->
  any_contains (needles_of xs y) (lower (render_line l)) = true.
Proof.
  intros D Hin Hx Hy. unfold any_contains, needles_of. apply existsb_exists.
  exists (x ++ K ++ y)%string. split; [exact (in_map (fun x0 => (x0 ++ K ++ y)%string) xs x Hin)|now apply needle_present].
Qed.

(* raw (not lowered) needles: present in the raw line only if present in the lowered line *)
Lemma any_raw_absent needles s : map lower needles = needles ->
  any_contains needles (lower s) = false -> any_contains needles s = false.
Proof.
  unfold any_contains. intros Hl H. destruct (existsb (fun n => containsb n s) needles) eqn:E; [|reflexivity].
  apply existsb_exists in E as (n & Hin & Hn). apply containsb_lower in Hn.
  assert (Hn' : In (lower n) needles) by (rewrite <- Hl; now apply in_map).
  assert (T : existsb (fun n => containsb n (lower s)) needles = true) by (apply existsb_exists; now exists (lower n)).
  congruence.
Qed.

Definition hash_slash_tags : list string := ["# thailint: "; "# design-lint: "; "// thailint: "; "// design-lint: "].
(* both_styles of the source's (now complete) needle list: the // entries twice more *)
Definition hash_slash_tags8 : list string := hash_slash_tags ++ ["// thailint: "; "// design-lint: "; "// thailint: "; "// design-lint: "].

Lemma tagged_in st : In (tagged st) hash_slash_tags.
Proof. destruct st; cbn; auto. Qed.
Lemma tagged_in8 st : In (tagged st) hash_slash_tags8.
Proof. apply in_or_app. left. apply tagged_in. Qed.

(* the line-kind specific facts about what follows the key word *)
Ltac post_head := rewrite lower_post, ?lower_names_br, ?lower_start_tail;
  repeat match goal with |- context [match ?n with Bare => _ | Names _ => _ end] => destruct n end;
  repeat match goal with |- context [if ?b then _ else _] => destruct b end; reflexivity.

(* ---------- file-level marker ---------- *)
Lemma file_marker_feature q l : line_ok l = true ->
  has_ignore_directive_marker q (render_line l) = match l with LFile _ _ => true | _ => false end.
Proof.
  intros H. unfold has_ignore_directive_marker, marker.
  change file_marker_lowered with true.
  change (both_styles file_marker_needles) with (needles_of hash_slash_tags8 "-file").
  change file_marker_needles with (needles_of hash_slash_tags "-file").
  destruct l as [c|c st n|ind st n|ind st br n|ind st|st n].
  - cbn [line_ok] in H. unfold code_ok in H. apply andb_true_iff in H as [Hk _]. cbn [render_line].
    destruct (q_file_hash_only q); now apply any_plain.
  - destruct (q_file_hash_only q); apply any_absent; try assumption; try reflexivity; post_head.
  - destruct (q_file_hash_only q); apply any_absent; try assumption; try reflexivity; post_head.
  - destruct (q_file_hash_only q); apply any_absent; try assumption; try reflexivity; post_head.
  - destruct (q_file_hash_only q); apply any_absent; try assumption; try reflexivity; post_head.
  - destruct (q_file_hash_only q).
    + apply (any_present _ _ _ (tagged st)); [reflexivity|apply tagged_in| |].
      * rewrite (lower_pre _ H). exact (suffixb_app "" (tagged st)).
      * rewrite lower_post. apply prefixb_app.
    + apply (any_present _ _ _ (tagged st)); [reflexivity|apply tagged_in8| |].
      * rewrite (lower_pre _ H). exact (suffixb_app "" (tagged st)).
      * rewrite lower_post. apply prefixb_app.
Qed.

(* ---------- regexes located at the key word ---------- *)
Lemma lowerB l : lower ("ignore" ++ post_of l) = (K ++ lower (post_of l))%string.
Proof. now rewrite lower_app. Qed.

Lemma bracket_at l ci lit : line_ok l = true -> directive l = true -> prefixb K (lower lit) = true ->
  re_bracket ci lit (render_line l) = re_bracket ci lit ("ignore" ++ post_of l).
Proof.
  intros H D HK. rewrite (render_split l D).
  apply (re_bracket_locate ci lit (pre_of l) ("ignore" ++ post_of l) (lower (post_of l)) HK (lowerB l)). now apply once.
Qed.

Lemma space_at l ci lit : line_ok l = true -> directive l = true -> prefixb K (lower lit) = true ->
  re_space ci lit (render_line l) = re_space ci lit ("ignore" ++ post_of l).
Proof.
  intros H D HK. rewrite (render_split l D).
  apply (re_space_locate ci lit (pre_of l) ("ignore" ++ post_of l) (lower (post_of l)) HK (lowerB l)). now apply once.
Qed.

(* a bracketed list right after the literal *)
Lemma bracket_hit ci lit t : prefix_lit ci (lit ++ "[") (lit ++ "[" ++ t ++ "]") = true ->
  nonempty t = true -> all_chars (fun c => negb (is c93 c)) t = true ->
  re_bracket ci lit (lit ++ "[" ++ t ++ "]") = Some t.
Proof.
  intros P Hn Hb. rewrite re_bracket_unfold, P.
  assert (E : sdrop (S (String.length lit)) (lit ++ "[" ++ t ++ "]") = (t ++ String c93 "")%string).
  { change (S (String.length lit)) with (String.length (String "[" lit)).
    clear. induction lit as [|c lit IH]; [reflexivity|]. cbn [append String.length sdrop] in *. exact IH. }
  rewrite E, (until_rbracket_ok t "" "" Hb) by (now rewrite Hn). reflexivity.
Qed.

Lemma names_parts t : names_ok (Names t) = true ->
  nonempty t = true /\ kfree t = true /\ all_chars (fun c => negb (is c93 c)) t = true.
Proof.
  cbn [names_ok]. intro H. apply andb_true_iff in H as [H Hb]. apply andb_true_iff in H as [H _].
  apply andb_true_iff in H as [Hn Hk]. auto.
Qed.

Lemma check_bracket_named t r : check_bracket_rules t r = named (bracket_rules (Names t)) r.
Proof. unfold check_bracket_rules, named, bracket_rules. change rm_bracket_sep with ",". now rewrite existsb_map. Qed.

(* ---------- file-level rule list ---------- *)
Lemma file_rules_feature q st n r : names_ok n = true ->
  check_specific_rule_ignore q (render_line (LFile st n)) r = named (bracket_rules n) r.
Proof.
  intros Hn. unfold check_specific_rule_ignore.
  change re_file_bracket with ("ignore-file", true). change re_file_space with ("ignore-file", true). cbn [fst snd].
  rewrite (bracket_at (LFile st n) true "ignore-file" Hn eq_refl eq_refl).
  destruct n as [|t].
  - change (re_bracket true "ignore-file" ("ignore" ++ post_of (LFile st Bare))) with (@None string).
    rewrite (space_at (LFile st Bare) true "ignore-file" Hn eq_refl eq_refl).
    change (re_space true "ignore-file" ("ignore" ++ post_of (LFile st Bare))) with (@None string).
    change file_bare_general with true.
    destruct (q_bare_file_unsupported q); destruct st; reflexivity.
  - destruct (names_parts t Hn) as (Hne & Hk & Hb).
    change ("ignore" ++ post_of (LFile st (Names t)))%string with ("ignore-file" ++ "[" ++ t ++ "]")%string.
    rewrite (bracket_hit true "ignore-file" t eq_refl Hne Hb). apply check_bracket_named.
Qed.

(* ---------- same-line marker and rule list ---------- *)
Lemma line_marker_plain c : code_ok c = true -> has_line_ignore_marker c = false.
Proof.
  unfold code_ok. intro H. apply andb_true_iff in H as [Hk _]. unfold has_line_ignore_marker, marker.
  change line_marker_lowered with true. change line_marker_needles with (needles_of hash_slash_tags "").
  now apply any_plain.
Qed.

Lemma line_marker_same c st n : line_ok (LSame c st n) = true -> has_line_ignore_marker (render_line (LSame c st n)) = true.
Proof.
  intro H. unfold has_line_ignore_marker, marker.
  change line_marker_lowered with true. change line_marker_needles with (needles_of hash_slash_tags "").
  apply (any_present _ _ _ (tagged st)); [reflexivity|apply tagged_in| |reflexivity].
  rewrite (lower_pre _ H). apply suffixb_app.
Qed.

Lemma same_rules_feature q c st n r : line_ok (LSame c st n) = true ->
  check_specific_rule_in_line q (render_line (LSame c st n)) r = named (bracket_rules n) r.
Proof.
  intros H. unfold check_specific_rule_in_line.
  change re_line_bracket with ("ignore", true). change re_line_space with ("ignore", true). cbn [fst snd].
  rewrite (bracket_at (LSame c st n) true "ignore" H eq_refl eq_refl).
  destruct n as [|t].
  - change (re_bracket true "ignore" ("ignore" ++ post_of (LSame c st Bare))) with (@None string).
    rewrite (space_at (LSame c st Bare) true "ignore" H eq_refl eq_refl).
    change (re_space true "ignore" ("ignore" ++ post_of (LSame c st Bare))) with (@None string).
    (* the fallback (repaired source and ideal alike): the right-stripped lowered line ends with "thailint: ignore" *)
    change line_bare_suffixes with ["thailint: ignore"; "design-lint: ignore"]. change ignore_all_needle with "ignore-all".
    cbv zeta. cbn [existsb named bracket_rules].
    assert (R : rstrip (render_line (LSame c st Bare)) = render_line (LSame c st Bare)).
    { cbn [render_line names_br]. rewrite sapp_nil_r.
      assert (E : (c ++ "  " ++ cm st ++ " thailint: ignore")%string = ((c ++ "  " ++ cm st ++ " thailint: ignor") ++ String "e" "")%string)
        by (rewrite !sapp_assoc; reflexivity).
      rewrite E. now apply rstrip_last. }
    rewrite R.
    assert (Sx : suffixb "thailint: ignore" (lower (render_line (LSame c st Bare))) = true).
    { cbn [render_line names_br]. rewrite sapp_nil_r, !lower_app, lower_cm.
      assert (E : (lower c ++ lower "  " ++ cm st ++ lower " thailint: ignore")%string = ((lower c ++ "  " ++ cm st ++ " ") ++ "thailint: ignore")%string)
        by (rewrite !sapp_assoc; reflexivity).
      rewrite E. apply suffixb_app. }
    rewrite Sx. destruct (q_bare_line_unsupported q); now rewrite orb_true_r.
  - cbn [line_ok] in H. apply andb_true_iff in H as [_ Hn]. destruct (names_parts t Hn) as (Hne & Hk & Hb).
    change ("ignore" ++ post_of (LSame c st (Names t)))%string with ("ignore" ++ "[" ++ t ++ "]")%string.
    rewrite (bracket_hit true "ignore" t eq_refl Hne Hb). apply check_bracket_named.
Qed.

(* ---------- next-line marker and rule list ---------- *)
Lemma next_marker_feature q l : line_ok l = true ->
  has_ignore_next_line_marker q (render_line l) = match l with LNext _ _ _ => true | _ => false end.
Proof.
  intros H. unfold has_ignore_next_line_marker, marker.
  change next_marker_lowered with true.
  change (both_styles next_marker_needles) with (needles_of hash_slash_tags8 "-next-line").
  change next_marker_needles with (needles_of hash_slash_tags "-next-line").
  destruct l as [c|c st n|ind st n|ind st br n|ind st|st n].
  - cbn [line_ok] in H. unfold code_ok in H. apply andb_true_iff in H as [Hk _]. cbn [render_line].
    destruct (q_next_line_hash_only q); now apply any_plain.
  - destruct (q_next_line_hash_only q); apply any_absent; try assumption; try reflexivity; post_head.
  - destruct (q_next_line_hash_only q).
    + apply (any_present _ _ _ (tagged st)); [reflexivity|apply tagged_in| |].
      * rewrite (lower_pre _ H). apply suffixb_app.
      * rewrite lower_post. apply prefixb_app.
    + apply (any_present _ _ _ (tagged st)); [reflexivity|apply tagged_in8| |].
      * rewrite (lower_pre _ H). apply suffixb_app.
      * rewrite lower_post. apply prefixb_app.
  - destruct (q_next_line_hash_only q); apply any_absent; try assumption; try reflexivity; post_head.
  - destruct (q_next_line_hash_only q); apply any_absent; try assumption; try reflexivity; post_head.
  - destruct (q_next_line_hash_only q); apply any_absent; try assumption; try reflexivity; post_head.
Qed.

Lemma next_rules_feature q ind st n r : line_ok (LNext ind st n) = true ->
  matches_ignore_next_line_rules q (render_line (LNext ind st n)) r = named (bracket_rules n) r.
Proof.
  intros H. unfold matches_ignore_next_line_rules.
  change re_next_bracket with ("ignore-next-line", true). cbn [fst snd].
  set (ci := if q_next_line_hash_only q then true else true).
  rewrite (bracket_at (LNext ind st n) ci "ignore-next-line" H eq_refl eq_refl).
  destruct n as [|t].
  - assert (E : re_bracket ci "ignore-next-line" ("ignore" ++ post_of (LNext ind st Bare)) = None) by (destruct ci; reflexivity).
    now rewrite E.
  - cbn [line_ok] in H. apply andb_true_iff in H as [_ Hn]. destruct (names_parts t Hn) as (Hne & Hk & Hb).
    change ("ignore" ++ post_of (LNext ind st (Names t)))%string with ("ignore-next-line" ++ "[" ++ t ++ "]")%string.
    rewrite (bracket_hit ci "ignore-next-line" t) by (try assumption; destruct ci; reflexivity). apply check_bracket_named.
Qed.
