(* Proofs/CfgPathProofs.v — `--config FILE` with any suffix (Model/CfgPath.v): a suffix the writer accepts is one the loader
   accepts (computed on the extension lists read from the source) and then the machine IS the single-file machine of
   Model/CfgCli.v; with any other suffix no command ever changes the file and no `config set` is ever accepted; in both cases
   every history meets the trace specification. *)
From TL Require Import Lib.Base Lib.GenTypes Model.CfgTypes Gen.CfgToolGen Model.CfgMerge Model.CfgCli Model.CfgPath
     Proofs.CfgLines Proofs.CfgCliProofs.
From Coq Require Import ZArith NArith.

(* ------------------------------------------------------------------ literals of the source *)
Lemma gen_extensions : config_extensions = [".yaml"; ".yml"] /\ json_extension = ".json". Proof. split; reflexivity. Qed.
Lemma gen_writable_are_loadable : forallb suffix_loadable (config_extensions ++ [json_extension]) = true. Proof. reflexivity. Qed.
Lemma save_exit_tests :
  (save_error_exit =? load_error_exit) = false /\ (save_error_exit =? 0) = false /\
  (reset_error_exit =? load_error_exit) = false /\ save_error_exit <> 0 /\ reset_error_exit <> 0.
Proof. repeat split; try reflexivity; discriminate. Qed.

Lemma writable_loadable suf : suffix_writable suf = true -> suffix_loadable suf = true.
Proof.
  unfold suffix_writable. intro H. pose proof gen_writable_are_loadable as G. rewrite forallb_forall in G. apply G.
  apply in_or_app. apply orb_true_iff in H as [H|H].
  - left. now apply smem_In.
  - right. left. symmetry. now apply String.eqb_eq.
Qed.

(* ------------------------------------------------------------------ writable suffix: the single-file machine *)
Theorem pstep_is_step q suf f c : suffix_writable suf = true -> pstep q suf f c = step q true f c.
Proof.
  intro Hw. unfold pstep, step. rewrite Hw, (writable_loadable suf Hw).
  assert (Hl : match f with Some _ => load true f | None => load true None end = load true f) by now destruct f.
  rewrite Hl. destruct (load true f) as [conf|]; [|reflexivity]. destruct c as [k t|k|]; reflexivity.
Qed.

Lemma prun_is_run q suf cs : suffix_writable suf = true -> forall f, prun q suf f cs = run q true f cs.
Proof. intro Hw. induction cs as [|c r IH]; intro f; [reflexivity|]. cbn [prun run]. now rewrite (pstep_is_step q suf f c Hw), IH. Qed.

(* ------------------------------------------------------------------ any other suffix: nothing is ever written *)
Theorem pstep_unwritable_keeps_file q suf f c : suffix_writable suf = false -> o_file (pstep q suf f c) = f.
Proof.
  intro Hw. unfold pstep. rewrite Hw.
  destruct (match f with Some _ => if suffix_loadable suf then load true f else None | None => load true None end) as [conf|]; [|reflexivity].
  destruct c as [k t|k|]; [|now destruct (lookup (ckey_get q k) conf)|reflexivity].
  now destruct (valid (upd (ckey_set q k) (convert t) conf)).
Qed.

(* for every suffix: a `config set` that does not exit 0 leaves the file as it was, and exit 0 needs a writable suffix *)
Theorem pstep_rejected_set_leaves_file q suf f k t :
  o_rc (pstep q suf f (CSet k t)) <> 0 -> o_file (pstep q suf f (CSet k t)) = f.
Proof.
  unfold pstep.
  destruct (match f with Some _ => if suffix_loadable suf then load true f else None | None => load true None end) as [conf|]; [|reflexivity].
  destruct (valid (upd (ckey_set q k) (convert t) conf)); [|reflexivity].
  destruct (suffix_writable suf); [cbn [o_rc]; congruence|reflexivity].
Qed.

Theorem pstep_accepted_set_needs_writable q suf f k t :
  o_rc (pstep q suf f (CSet k t)) = 0 -> suffix_writable suf = true.
Proof.
  destruct save_exit_tests as (_ & _ & _ & S1 & _). destruct exit_codes as (E1 & E2 & _). unfold pstep.
  destruct (match f with Some _ => if suffix_loadable suf then load true f else None | None => load true None end) as [conf|]; [|cbn [o_rc]; congruence].
  destruct (valid (upd (ckey_set q k) (convert t) conf)); [|cbn [o_rc]; congruence].
  destruct (suffix_writable suf); [reflexivity|cbn [o_rc]; congruence].
Qed.

(* ------------------------------------------------------------------ histories *)
Lemma unwritable_history q suf : suffix_writable suf = false ->
  forall cs f, forallb (fun b => b) (spec_trace [] f cs (prun q suf f cs)) = true.
Proof.
  intro Hw. destruct save_exit_tests as (S1 & S2 & S3 & _ & _). destruct exit_code_tests as (T1 & T2 & T3 & T4 & T5 & T6).
  induction cs as [|c cr IH]; intro f; [reflexivity|]. cbn [prun spec_trace].
  pose proof (pstep_unwritable_keeps_file q suf f c Hw) as Hf. revert Hf. unfold pstep. rewrite Hw.
  destruct (match f with Some _ => if suffix_loadable suf then load true f else None | None => load true None end) as [conf|].
  2:{ intros _. cbn [o_rc o_file]. rewrite T6. cbn [forallb]. rewrite file_eqb_refl. apply IH. }
  destruct c as [k t|k|].
  - destruct (valid (upd (ckey_set q k) (convert t) conf)); intros _; cbn [o_rc o_file].
    + rewrite S1, S2. cbn [forallb]. rewrite file_eqb_refl. apply IH.
    + rewrite T2, T3. cbn [forallb]. rewrite file_eqb_refl. apply IH.
  - destruct (lookup (ckey_get q k) conf); intros _; cbn [o_rc o_file lookup forallb].
    + rewrite T1, file_eqb_refl. cbn [andb]. apply IH.
    + rewrite T4, file_eqb_refl. cbn [andb]. apply IH.
  - intros _. cbn [o_rc o_file]. rewrite S3. cbn [forallb]. apply IH.
Qed.

Theorem phistory q suf f cs : forallb (fun b => b) (spec_trace [] f cs (prun q suf f cs)) = true.
Proof.
  destruct (suffix_writable suf) eqn:Hw.
  - rewrite (prun_is_run q suf cs Hw f). apply history_spec_fresh.
  - now apply unwritable_history.
Qed.
