(* Proofs/CfgMergeSpec.v — init-config meets its specification (Model/CfgMerge.v: spec_bits) on every
   existing file of the YAML subset, for every quirk vector whose flags are off or whose defect class the
   file avoids. *)
From TL Require Import Lib.Base Lib.GenTypes Model.CfgTypes Gen.CfgToolGen Model.CfgMerge
     Proofs.CfgLines Proofs.CfgMergeMain Proofs.CfgMergeText.
From Coq Require Import NArith.

(* ------------------------------------------------------------------ small list facts *)
Lemma smem_false s l : smem s l = false <-> ~ In s l.
Proof. rewrite <- smem_In. destruct (smem s l); split; intro H; try discriminate; try reflexivity. now elim H. Qed.

Lemma nodupb_NoDup l : nodupb l = true -> NoDup l.
Proof.
  induction l as [|x l IH]; [constructor|]. cbn [nodupb]. intro H. apply andb_true_iff in H as [H1 H2].
  constructor; [|now apply IH]. apply negb_true_iff in H1. now apply smem_false.
Qed.
Lemma NoDup_nodupb l : NoDup l -> nodupb l = true.
Proof.
  induction 1 as [|x l Hx _ IH]; [reflexivity|]. cbn [nodupb]. rewrite IH, andb_true_r. apply negb_true_iff. now apply smem_false.
Qed.

Lemma NoDup_map_inj {A B} (f : A -> B) l x y : NoDup (map f l) -> In x l -> In y l -> f x = f y -> x = y.
Proof.
  induction l as [|z l IH]; [contradiction|]. cbn [map]. intro H. inversion H as [|? ? Hz Hl]; subst.
  intros [->|Hx] [->|Hy] E; try reflexivity.
  - elim Hz. rewrite E. now apply in_map.
  - elim Hz. rewrite <- E. now apply in_map.
  - now apply IH.
Qed.

Lemma NoDup_map_filter {A B} (f : A -> B) g l : NoDup (map f l) -> NoDup (map f (filter g l)).
Proof.
  induction l as [|x l IH]; [trivial|]. cbn [map filter]. intro H. inversion H as [|? ? Hx Hl]; subst.
  destruct (g x); [|now apply IH]. cbn [map]. constructor; [|now apply IH].
  intro Hin. apply Hx. apply in_map_iff in Hin as (y & Hy & Hin). apply filter_In in Hin as [Hin _].
  rewrite <- Hy. now apply in_map.
Qed.

Lemma existsb_entry_in e pool : In e pool -> existsb (entry_eqb e) pool = true.
Proof. intro H. apply existsb_exists. exists e. split; [exact H|apply entry_eqb_refl]. Qed.

Lemma val_eqb_eq a b : val_eqb a b = true -> a = b.
Proof.
  destruct a as [[r1 b1]|], b as [[r2 b2]|]; cbn [val_eqb]; try discriminate; [|reflexivity].
  intro H. apply andb_true_iff in H as [H1 H2]. apply String.eqb_eq in H1. apply lines_eqb_eq in H2. now subst.
Qed.

(* ------------------------------------------------------------------ the value in effect *)
Lemma eff_app nk a b : eff nk (a ++ b) = match eff nk b with Some x => Some x | None => eff nk a end.
Proof.
  induction a as [|e a IH]; cbn [app eff].
  - now destruct (eff nk b).
  - rewrite IH. now destruct (eff nk b).
Qed.

Lemma eff_none nk l : smem nk (map norm (map ekey l)) = false -> eff nk l = None.
Proof.
  induction l as [|e l IH]; [reflexivity|]. cbn [map smem eff].
  destruct (String.eqb_spec nk (norm (ekey e))) as [->|Hne]; [discriminate|]. intro H. rewrite (IH H).
  destruct (String.eqb_spec (norm (ekey e)) nk); [congruence|reflexivity].
Qed.

Lemma sec_entry_key s : ekey (sec_entry s) = fst s. Proof. reflexivity. Qed.
Lemma sec_entries_keys ms : map ekey (map sec_entry ms) = map fst ms.
Proof. rewrite map_map. reflexivity. Qed.

Lemma eff_sections ms s : NoDup (map norm (map fst ms)) -> In s ms ->
  eff (norm (fst s)) (map sec_entry ms) = Some (EmptyString, sec_body s).
Proof.
  induction ms as [|s0 ms IH]; [contradiction|]. cbn [map]. intro H. inversion H as [|? ? Hs0 Hms]; subst.
  intros [->|Hin]; cbn [eff].
  - rewrite eff_none.
    + rewrite sec_entry_key, String.eqb_refl. reflexivity.
    + rewrite sec_entries_keys. now apply smem_false.
  - now rewrite (IH Hms Hin).
Qed.

(* ------------------------------------------------------------------ presence of a section *)
Lemma present_in q keys n : In n keys -> present q keys n = true.
Proof.
  intro H. unfold present. destruct (raw_missing_test q); apply smem_In; [exact H|]. now apply in_map.
Qed.

Lemma present_incl q k1 k2 n : incl k1 k2 -> present q k1 n = true -> present q k2 n = true.
Proof.
  intros Hi. unfold present. destruct (raw_missing_test q); rewrite !smem_In; intro H.
  - now apply Hi.
  - apply in_map_iff in H as (k & <- & Hk). apply in_map. now apply Hi.
Qed.

(* the raw-key test agrees with the normalised one when no key of the file is a re-spelled linter section *)
Definition spelling_ok_keys (ke : list string) : bool :=
  forallb (fun k => negb (smem (norm k) (map norm linter_sections)) || smem k linter_sections) ke.
Definition spelling_ok (E : list string) : bool := spelling_ok_keys (root_keys (analyse E)).
Definition sections_distinct : bool := nodupb (map norm linter_sections).
(* the test found in the repaired source is the normalised one: no vector tests literal keys any more *)
Lemma raw_missing_test_off q : raw_missing_test q = false.
Proof. unfold raw_missing_test. now destruct (q_missing_by_raw_key q). Qed.

Definition agree (q : cquirks) (ke : list string) : Prop :=
  forall n, In n linter_sections -> present q ke n = smem (norm n) (map norm ke).

Lemma agree_intro q ke : sections_distinct = true ->
  raw_missing_test q = false \/ spelling_ok_keys ke = true -> agree q ke.
Proof.
  intros Hd [Hq|Hs] n Hn; unfold present.
  - now rewrite Hq.
  - destruct (raw_missing_test q); [|reflexivity].
    destruct (smem n ke) eqn:H1.
    + symmetry. apply smem_In. apply in_map. now apply smem_In.
    + destruct (smem (norm n) (map norm ke)) eqn:H2; [|reflexivity]. exfalso.
      apply smem_In, in_map_iff in H2 as (k & Hk & Hin).
      unfold spelling_ok_keys in Hs. rewrite forallb_forall in Hs. specialize (Hs k Hin).
      assert (Hkn : smem (norm k) (map norm linter_sections) = true) by (apply smem_In; rewrite Hk; now apply in_map).
      rewrite Hkn in Hs. cbn [negb orb] in Hs. apply smem_In in Hs.
      assert (k = n) by (eapply (NoDup_map_inj norm linter_sections); eauto; now apply nodupb_NoDup).
      subst k. apply smem_false in H1. now elim H1.
Qed.

(* ------------------------------------------------------------------ facts about one preset, established by computation *)
Definition tmpl_entries (reps : list (string * string)) : list entry := block_entries (analyse (gen_content reps)).
Definition preset_ok (reps : list (string * string)) : bool :=
  let secs := preset_sections reps in let tm := tmpl_entries reps in
  lines_eqb (map fst secs) linter_sections
  && forallb sec_wf secs
  && forallb (fun s => existsb (entry_eqb (sec_entry s)) tm) secs
  && forallb (fun s => val_eqb (eff (norm (fst s)) tm) (Some (EmptyString, sec_body s))) secs
  && match analyse (gen_content reps) with RBlock _ => true | _ => false end.

Lemma preset_ok_facts reps : preset_ok reps = true ->
  map fst (preset_sections reps) = linter_sections /\
  forallb sec_wf (preset_sections reps) = true /\
  (forall s, In s (preset_sections reps) -> existsb (entry_eqb (sec_entry s)) (tmpl_entries reps) = true) /\
  (forall s, In s (preset_sections reps) -> eff (norm (fst s)) (tmpl_entries reps) = Some (EmptyString, sec_body s)) /\
  analyse (gen_content reps) = RBlock (tmpl_entries reps).
Proof.
  unfold preset_ok. intro H.
  apply andb_true_iff in H as [H H5]. apply andb_true_iff in H as [H H4].
  apply andb_true_iff in H as [H H3]. apply andb_true_iff in H as [H1 H2].
  split; [now apply lines_eqb_eq|]. split; [exact H2|]. rewrite forallb_forall in H3, H4.
  split; [exact H3|]. split; [intros s Hs; now apply val_eqb_eq, H4|].
  unfold tmpl_entries. now destruct (analyse (gen_content reps)).
Qed.

(* ------------------------------------------------------------------ the merged file *)
Section Merged.
  Variables (q : cquirks) (reps : list (string * string)) (E : list string) (es : list entry).
  Let secs := preset_sections reps.
  Let ke := map ekey es.
  Let ms := filter (fun s => negb (present q ke (fst s))) secs.
  Let R := merge_lines q E (join_texts section_join_newlines (map snd ms)).
  Hypothesis Hok : preset_ok reps = true.
  Hypothesis Hdist : sections_distinct = true.
  Hypothesis HE : analyse E = RBlock es.
  Hypothesis Hagree : agree q ke.
  Hypothesis Hmark : q_insert_mid_entry q = false \/ marker_ok E = true.
  Hypothesis Hne : ms <> [].

  Let Hwf_ms : forallb sec_wf ms = true.
  Proof.
    destruct (preset_ok_facts reps Hok) as (_ & Hwf & _). rewrite forallb_forall in *. intros s Hs.
    apply Hwf. now apply filter_In in Hs as [Hs _].
  Qed.

  Lemma merged_analyse : exists es1 es2, es = es1 ++ es2 /\ analyse R = RBlock (es1 ++ map sec_entry ms ++ es2).
  Proof.
    destruct (merge_spliced q E ms Hmark Hne Hwf_ms) as [S1 S2 N1 N2 X H1 H2 H3 _ _].
    destruct (analyse_block_inv _ _ HE) as (Hc & _).
    exact (analyse_splice E es S1 S2 ms R HE H1 H2 Hne Hwf_ms (merge_clean q E ms Hc Hne Hwf_ms) H3).
  Qed.

  Lemma merged_preserved : preserved_b E R = true.
  Proof.
    destruct (merge_spliced q E ms Hmark Hne Hwf_ms) as [S1 S2 N1 N2 X _ _ _ H4 H5].
    unfold preserved_b. fold R in H5. rewrite H4, H5. apply subseqb_insert.
  Qed.

  (* the names of the missing sections: none of them is a key of E under either spelling *)
  Lemma ms_in s : In s ms -> In s secs /\ In (fst s) linter_sections /\ smem (norm (fst s)) (map norm ke) = false.
  Proof.
    intro Hs. apply filter_In in Hs as [Hs Hp]. destruct (preset_ok_facts reps Hok) as (Hn & _).
    assert (Hl : In (fst s) linter_sections) by (rewrite <- Hn; now apply in_map).
    split; [exact Hs|]. split; [exact Hl|]. rewrite <- (Hagree _ Hl). now apply negb_true_iff.
  Qed.

  Lemma not_ms_present s : In s secs -> ~ In s ms -> present q ke (fst s) = true.
  Proof.
    intros Hs Hn. destruct (present q ke (fst s)) eqn:Hp; [reflexivity|]. elim Hn. apply filter_In. now rewrite Hp.
  Qed.

  Lemma ms_names_nodup : NoDup (map norm (map fst ms)).
  Proof.
    destruct (preset_ok_facts reps Hok) as (Hn & _). rewrite map_map. apply NoDup_map_filter.
    rewrite <- map_map. fold secs in Hn. rewrite Hn. now apply nodupb_NoDup.
  Qed.

  Lemma filter_none {A} (f : A -> bool) l : (forall x, In x l -> f x = false) -> filter f l = [].
  Proof. induction l as [|x l IH]; [reflexivity|]. intro H. cbn [filter]. rewrite (H x (or_introl eq_refl)). apply IH. intros y Hy. apply H. now right. Qed.
  Lemma filter_all {A} (f : A -> bool) l : (forall x, In x l -> f x = true) -> filter f l = l.
  Proof. induction l as [|x l IH]; [reflexivity|]. intro H. cbn [filter]. rewrite (H x (or_introl eq_refl)). f_equal. apply IH. intros y Hy. apply H. now right. Qed.

  Section Split.
    Variables (es1 es2 : list entry).
    Hypothesis Hes : es = es1 ++ es2.
    Let esR := es1 ++ map sec_entry ms ++ es2.
    Let kr := map ekey esR.

    Lemma kr_eq : kr = map ekey es1 ++ map fst ms ++ map ekey es2.
    Proof. unfold kr, esR. now rewrite !map_app, sec_entries_keys. Qed.
    Lemma ke_eq : ke = map ekey es1 ++ map ekey es2.
    Proof. unfold ke. now rewrite Hes, map_app. Qed.
    Lemma ke_incl_kr : incl ke kr.
    Proof. rewrite kr_eq, ke_eq. intros k Hk. apply in_app_or in Hk as [Hk|Hk]; apply in_or_app; [now left|right; apply in_or_app; now right]. Qed.
    Lemma names_incl_kr : incl (map fst ms) kr.
    Proof. rewrite kr_eq. intros k Hk. apply in_or_app. right. apply in_or_app. now left. Qed.

    Lemma name_not_key s : In s ms -> ~ In (norm (fst s)) (map norm ke).
    Proof. intro Hs. destruct (ms_in s Hs) as (_ & _ & H). now apply smem_false. Qed.

    Lemma eff_old e : In e es -> eff (norm (ekey e)) esR = eff (norm (ekey e)) es.
    Proof.
      intro He. unfold esR. rewrite Hes, !eff_app.
      rewrite (eff_none (norm (ekey e)) (map sec_entry ms)); [now destruct (eff (norm (ekey e)) es2)|].
      apply smem_false. rewrite sec_entries_keys. intro Hin. apply in_map_iff in Hin as (n & Hn & Hin).
      apply in_map_iff in Hin as (s & <- & Hs). apply (name_not_key s Hs). rewrite Hn. apply in_map. now apply in_map.
    Qed.

    Lemma eff_new s : In s ms -> eff (norm (fst s)) esR = Some (EmptyString, sec_body s).
    Proof.
      intro Hs. unfold esR. rewrite !eff_app.
      rewrite (eff_none _ es2).
      - now rewrite (eff_sections ms s ms_names_nodup Hs).
      - apply smem_false. intro Hin. apply (name_not_key s Hs). rewrite ke_eq, map_app. apply in_or_app. now right.
    Qed.

    Lemma bit_valid tm : (forall s, In s secs -> existsb (entry_eqb (sec_entry s)) tm = true) ->
      valid_r (RBlock es) (RBlock esR) (RBlock tm) = true.
    Proof.
      intro Htm. unfold valid_r, struct_r, known_entries_r, block_entries. cbn [andb].
      apply forallb_forall. intros e He. rewrite existsb_app. apply orb_true_iff.
      unfold esR in He. apply in_app_or in He as [He|He]; [left; apply existsb_entry_in; rewrite Hes; apply in_or_app; now left|].
      apply in_app_or in He as [He|He]; [|left; apply existsb_entry_in; rewrite Hes; apply in_or_app; now right].
      right. apply in_map_iff in He as (s & <- & Hs). apply Htm. now apply ms_in.
    Qed.

    Lemma bit_in_effect : in_effect_r E R (RBlock es) (RBlock esR) = true.
    Proof.
      unfold in_effect_r. apply orb_true_iff. right. apply forallb_forall. intros e He.
      rewrite (eff_old e He). apply val_eqb_refl.
    Qed.

    Lemma added_eq : added_keys_r (RBlock es) (RBlock esR) = map fst ms.
    Proof.
      unfold added_keys_r, root_keys. fold ke. fold kr. rewrite kr_eq, !filter_app.
      rewrite (filter_none _ (map ekey es1)), (filter_none _ (map ekey es2)), filter_all; [now rewrite app_nil_r| | |].
      - intros n Hn. apply negb_true_iff, smem_false. intro Hin. apply in_map_iff in Hn as (s & <- & Hs).
        apply (name_not_key s Hs). now apply in_map.
      - intros k Hk. apply negb_false_iff, smem_In. rewrite ke_eq. apply in_or_app. now right.
      - intros k Hk. apply negb_false_iff, smem_In. rewrite ke_eq. apply in_or_app. now left.
    Qed.

    Lemma bit_only_missing : only_missing_r (RBlock es) (RBlock esR) = true.
    Proof.
      unfold only_missing_r. rewrite added_eq. unfold root_keys. fold ke. fold kr.
      apply andb_true_iff. split; [apply andb_true_iff; split|].
      - apply Nat.eqb_eq. rewrite kr_eq, ke_eq, !app_length. lia.
      - apply NoDup_nodupb. apply (NoDup_map_inv norm). exact ms_names_nodup.
      - apply forallb_forall. intros n Hn. apply in_map_iff in Hn as (s & <- & Hs).
        destruct (ms_in s Hs) as (_ & Hl & Hm). rewrite Hm. apply andb_true_iff. split; [now apply smem_In|reflexivity].
    Qed.

    Lemma all_present s : In s secs -> present q kr (fst s) = true.
    Proof.
      intro Hs. destruct (present q ke (fst s)) eqn:Hp.
      - now apply (present_incl q ke kr _ ke_incl_kr).
      - apply present_in, names_incl_kr, in_map. apply filter_In. now rewrite Hp.
    Qed.

    Lemma bit_complete : complete_r (RBlock esR) = true.
    Proof.
      unfold complete_r, root_keys. fold kr. apply forallb_forall. intros n Hn.
      destruct (preset_ok_facts reps Hok) as (Hnames & _). fold secs in Hnames. rewrite <- Hnames in Hn.
      apply in_map_iff in Hn as (s & <- & Hs).
      assert (Hl : In (fst s) linter_sections) by (rewrite <- Hnames; now apply in_map).
      destruct (present q ke (fst s)) eqn:Hp.
      - rewrite (Hagree _ Hl) in Hp. apply smem_In in Hp. apply smem_In.
        apply in_map_iff in Hp as (k & Hk & Hin). rewrite <- Hk. apply in_map. now apply ke_incl_kr.
      - apply smem_In, in_map, names_incl_kr, in_map. apply filter_In. now rewrite Hp.
    Qed.

    Lemma bit_added_content tm : (forall s, In s secs -> eff (norm (fst s)) tm = Some (EmptyString, sec_body s)) ->
      added_content_r (RBlock es) (RBlock esR) (RBlock tm) = true.
    Proof.
      intro Htm. unfold added_content_r. rewrite added_eq. apply forallb_forall. intros n Hn.
      apply in_map_iff in Hn as (s & <- & Hs). rewrite (eff_new s Hs), (Htm s); [apply val_eqb_refl|now apply ms_in].
    Qed.

    Lemma second_run : init_from q secs R (RBlock esR) = AlreadyComplete.
    Proof.
      unfold init_from. fold kr. rewrite filter_none; [reflexivity|].
      intros s Hs. now rewrite (all_present s Hs).
    Qed.
  End Split.

  Theorem merged_spec : spec_ok reps E R (result_file R (init_from q secs R (analyse R))) = true.
  Proof.
    destruct merged_analyse as (es1 & es2 & Hes & HR).
    destruct (preset_ok_facts reps Hok) as (_ & _ & Hex & Heff & Htm).
    unfold spec_ok, spec_bits. rewrite HE, HR, Htm, (second_run es1 es2 Hes). cbn [result_file].
    unfold spec_bits_r. cbn [forallb].
    rewrite (bit_valid es1 es2 Hes _ Hex), merged_preserved, (bit_in_effect es1 es2 Hes), (bit_only_missing es1 es2 Hes),
            (bit_complete es1 es2 Hes), (bit_added_content es1 es2 Hes _ Heff), lines_eqb_refl.
    reflexivity.
  Qed.
End Merged.
