(* Proofs/SrpEval.v — the parts of the SRP model that are driven by the generated layer alone:
   configuration resolution (SRPConfig.from_dict), language dispatch, evaluate_metrics and the message
   builder, instantiated with Gen/SrpGen.v and shown equal to the documented behaviour (Model/SrpSpec.v).
   A changed operator, key, default, clause order or message text in the source breaks these proofs. *)
From TL Require Import Lib.Base Lib.GenTypes Model.SrpTypes Gen.SrpGen Model.SrpSpec Model.Srp Proofs.SrpBase.

Lemma section_of_spec c : section_of c = spec_section c.
Proof. reflexivity. Qed.

Definition spec_conf (s : section) (l : lang) : conf :=
  {| cf_mm := spec_mm s l; cf_ml := spec_ml s l; cf_enabled := spec_enabled s; cf_check := spec_check s; cf_keywords := spec_keywords s |}.

Lemma from_dict_spec s l : from_dict s (lang_key l) = spec_conf s l.
Proof.
  unfold from_dict, spec_conf, spec_mm, spec_ml, spec_threshold, spec_enabled, spec_check, spec_keywords.
  unfold srp_fd_lang_mm, srp_fd_lang_ml, srp_fd_top_mm, srp_fd_top_ml, srp_fd_wire_mm, srp_fd_wire_ml,
         srp_fd_enabled, srp_fd_check_keywords, srp_fd_keywords, or_default.
  cbn [fst snd].
  destruct (sec_sub (lang_key l) s) as [ls|].
  - cbn. destruct (lookup "max_methods" ls), (lookup "max_loc" ls), (sec_nat "max_methods" s), (sec_nat "max_loc" s); reflexivity.
  - cbn. destruct (sec_nat "max_methods" s), (sec_nat "max_loc" s); reflexivity.
Qed.

Definition handler_of (l : lang) : string := match l with Py => "python" | Ts | Js => "typescript" | Rs => "rust" end.

Lemma ext_dispatch l e :
  ext_ok l e = true -> lookup e srp_ext_lang = Some (lang_key l) /\ lookup (lang_key l) srp_dispatch = Some (handler_of l).
Proof.
  destruct l; cbn [ext_ok]; intros H; try apply orb_prop in H; try destruct H as [H | H]; apply String.eqb_eq in H; subst e; split; reflexivity.
Qed.

(* ------------------------------------------------------------------ evaluate_metrics + build_violation *)
Lemma class_rep_py name mc loc kw line col hl hc cfg :
  class_rep py_metrics_dict name mc loc kw line col hl hc cfg
  = spec_unit_rep name line col (cf_mm cfg) (cf_ml cfg) (cf_check cfg) mc loc kw.
Proof.
  unfold class_rep, spec_unit_rep, spec_issues, evaluate, srp_clauses, py_metrics_dict, srp_position_keys, render_message, srp_message,
         spec_message, methods_text, lines_text, keyword_text.
  cbn -[show_nat Nat.ltb join]. rewrite Nat.add_0_r.
  destruct (cf_mm cfg <? mc), (cf_ml cfg <? loc), (cf_check cfg), kw; reflexivity.
Qed.

Lemma class_rep_ts name mc loc kw line0 col hline0 hcol cfg :
  class_rep ts_metrics_dict name mc loc kw line0 col hline0 hcol cfg
  = spec_unit_rep name (hline0 + 1) hcol (cf_mm cfg) (cf_ml cfg) (cf_check cfg) mc loc kw.
Proof.
  unfold class_rep, spec_unit_rep, spec_issues, evaluate, srp_clauses, ts_metrics_dict, srp_position_keys, render_message, srp_message,
         spec_message, methods_text, lines_text, keyword_text.
  cbn -[show_nat Nat.ltb join Nat.add].
  destruct (cf_mm cfg <? mc), (cf_ml cfg <? loc), (cf_check cfg), kw; reflexivity.
Qed.

Lemma class_rep_rs name mc loc kw line0 col hl hc cfg :
  class_rep rs_metrics_dict name mc loc kw line0 col hl hc cfg
  = spec_unit_rep name (line0 + 1) col (cf_mm cfg) (cf_ml cfg) (cf_check cfg) mc loc kw.
Proof.
  unfold class_rep, spec_unit_rep, spec_issues, evaluate, srp_clauses, rs_metrics_dict, srp_position_keys, render_message, srp_message,
         spec_message, methods_text, lines_text, keyword_text.
  cbn -[show_nat Nat.ltb join Nat.add].
  destruct (cf_mm cfg <? mc), (cf_ml cfg <? loc), (cf_check cfg), kw; reflexivity.
Qed.

Lemma has_kw_py kws name : has_kw py_kw_mode kws name = spec_keyword kws name.
Proof. reflexivity. Qed.
Lemma has_kw_ts kws name : has_kw ts_kw_mode kws name = spec_keyword kws name.
Proof. reflexivity. Qed.
Lemma has_kw_rs kws name : has_kw rs_kw_mode kws name = spec_keyword kws name.
Proof. reflexivity. Qed.

(* the dataclass defaults and the from_dict fallbacks found in config.py agree with one another and with the
   documented built-in defaults (7 methods, 200 lines, the five keywords, keyword checking on, enabled) *)
Lemma defaults_agree :
  srp_dc_max_methods = 7 /\ srp_dc_max_loc = 200 /\ srp_dc_check_keywords = true /\ srp_dc_enabled = true
  /\ srp_dc_keywords = ["Manager"; "Handler"; "Processor"; "Utility"; "Helper"]
  /\ snd srp_fd_top_mm = srp_dc_max_methods /\ snd srp_fd_top_ml = srp_dc_max_loc
  /\ snd srp_fd_lang_mm = srp_dc_max_methods /\ snd srp_fd_lang_ml = srp_dc_max_loc
  /\ snd srp_fd_check_keywords = srp_dc_check_keywords /\ snd srp_fd_enabled = srp_dc_enabled
  /\ snd srp_fd_keywords = srp_dc_keywords /\ srp_rule_id = "srp.violation".
Proof. repeat split; reflexivity. Qed.
