(* Proofs/PrintStmtLocal.v — the print-statement detector (Model/PrintStmt.v) is local:
   it satisfies the hypotheses of Proofs/EmbedLocality.v, every context whose `if` wrappers do not
   test `__name__ == "__main__"` is inert for it, and renamings that keep `print`, `builtins`
   and `__name__` apart commute with it. *)
From Coq Require Import Permutation.
From TL Require Import Lib.Base Lib.GenTypes Gen.EmbedGen Model.Embed Model.PrintStmt Proofs.EmbedLocality.

(* ------------------------------------------------------------------ erase / shift / rename *)
Lemma map_ext_F {A B} (f g : A -> B) l : Forall (fun x => f x = g x) l -> map f l = map g l.
Proof. induction 1 as [|x xs Hx _ IH]; cbn [map]; [reflexivity|]. now rewrite Hx, IH. Qed.

Lemma erase_shift dl dc t : erase (shift dl dc t) = erase t.
Proof.
  induction t as [i ks IH] using ast_ind'. cbn [shift erase]. f_equal.
  rewrite map_map. apply map_ext_F. exact IH.
Qed.

Lemma erase_rename sg t : erase (rename sg t) = rename sg (erase t).
Proof.
  induction t as [i ks IH] using ast_ind'. cbn [rename erase]. f_equal.
  rewrite !map_map. apply map_ext_F. exact IH.
Qed.

Lemma is_cls_shift c dl dc t : is_cls c (shift dl dc t) = is_cls c t.
Proof. destruct t. reflexivity. Qed.
Lemma is_cls_rename c sg t : is_cls c (rename sg t) = is_cls c t.
Proof. destruct t. reflexivity. Qed.
Lemma is_cls_erase c t : is_cls c (erase t) = is_cls c t.
Proof. destruct t. reflexivity. Qed.
Lemma nrole_erase t : nrole (erase t) = nrole t.
Proof. destruct t. reflexivity. Qed.
Lemma nrole_rename sg t : nrole (rename sg t) = nrole t.
Proof. destruct t. reflexivity. Qed.
Lemma nckind_rename sg t : nckind (rename sg t) = nckind t.
Proof. destruct t. reflexivity. Qed.

Lemma filter_role_map (g : ast -> ast) f l :
  (forall k, nrole (g k) = nrole k) ->
  filter (fun k => String.eqb (nrole k) f) (map g l) = map g (filter (fun k => String.eqb (nrole k) f) l).
Proof.
  intro Hg. induction l as [|x xs IH]; cbn [map filter]; [reflexivity|].
  rewrite Hg. destruct (String.eqb (nrole x) f); cbn [map]; now rewrite IH.
Qed.

Lemma field_rename f sg t : field f (rename sg t) = map (rename sg) (field f t).
Proof. destruct t as [i ks]. unfold field. cbn [rename nkids]. apply filter_role_map. apply nrole_rename. Qed.

Lemma field_node f i ks : field f (Node i ks) = filter (fun k => String.eqb (nrole k) f) ks.
Proof. reflexivity. Qed.

(* ------------------------------------------------------------------ position independence *)
Lemma pr_step_shift dl dc s t : pr_step s (shift dl dc t) = pr_step s t.
Proof. unfold pr_step. now rewrite is_cls_shift, erase_shift. Qed.

Lemma pr_emit_shift a dl dc s t : pr_emit a s (shift dl dc t) = shiftRs dl dc (pr_emit a s t).
Proof.
  unfold pr_emit. rewrite is_cls_shift, erase_shift.
  destruct (is_cls pr_call_cls t && is_print_call (erase t) && negb (a && s)); destruct t as [i ks]; reflexivity.
Qed.

(* ------------------------------------------------------------------ inert contexts *)
Lemma pr_wrap_inert a i pre post :
  pr_wrap_ok i pre = true -> inert_wrap pr_step (pr_emit a) i pre post.
Proof.
  unfold pr_wrap_ok. intros H s mid. apply andb_true_iff in H. destruct H as [Hcall Hif].
  apply negb_true_iff in Hcall. split.
  - unfold pr_emit, is_cls, ncls. cbn [ninfo]. now rewrite Hcall.
  - unfold pr_step. replace (is_cls main_if_cls (Node i (pre ++ mid ++ post)) && is_main_if (erase (Node i (pre ++ mid ++ post)))) with false; [apply orb_false_r|].
    symmetry. unfold is_cls at 1. unfold ncls. cbn [ninfo].
    destruct (String.eqb (cls i) main_if_cls) eqn:E; [|reflexivity]. cbn [negb orb andb] in Hif.
    unfold is_main_if. apply andb_false_intro2. apply andb_false_intro2.
    cbn [erase]. rewrite field_node, !map_app, !filter_app.
    rewrite (filter_role_map erase "test" pre nrole_erase).
    unfold nonmain_test in Hif.
    destruct (filter (fun k => String.eqb (nrole k) "test") pre) as [|c rest]; [discriminate|].
    apply negb_true_iff in Hif. cbn [map app].
    destruct (map erase rest ++ filter (fun k => String.eqb (nrole k) "test") (map erase mid)
                  ++ filter (fun k => String.eqb (nrole k) "test") (map erase post)); [exact Hif|reflexivity].
Qed.

Lemma pr_ctx_inert a c : pr_ctx_ok c = true -> inert pr_step (pr_emit a) c.
Proof.
  induction c as [|i pre post dl dc c' IH|pre dl c' IH post]; cbn [pr_ctx_ok inert]; intro H.
  - exact I.
  - apply andb_true_iff in H. destruct H as [H1 H2]. split; [now apply pr_wrap_inert|now apply IH].
  - now apply IH.
Qed.

(* ------------------------------------------------------------------ the embedding laws *)
Theorem print_embedding_local a c frag :
  pr_ctx_ok c = true ->
  print_reports a (plug c frag) =
  ctx_pre pr_step (pr_emit a) c false
  ++ shiftRs (off_l c) (off_c c) (print_reports a frag)
  ++ ctx_post pr_step (pr_emit a) c false.
Proof.
  intro H. unfold print_reports.
  apply (plug_local pr_step (pr_emit a) pr_step_shift (pr_emit_shift a)). now apply pr_ctx_inert.
Qed.

Theorem print_embedding_fillers a c frag :
  pr_ctx_ok c = true ->
  Permutation (print_reports a (plug c frag))
              (shiftRs (off_l c) (off_c c) (print_reports a frag) ++ print_reports a (fillers c)).
Proof.
  intro H. unfold print_reports.
  apply (plug_local_perm pr_step (pr_emit a) pr_step_shift (pr_emit_shift a)). now apply pr_ctx_inert.
Qed.

Theorem print_copies a n h frag :
  print_reports a (copies n h frag) = flat_map (fun k => shiftRs (k * h) 0 (print_reports a frag)) (seq 0 n).
Proof. unfold print_reports. apply (copies_local pr_step (pr_emit a) pr_step_shift (pr_emit_shift a)). Qed.

Theorem print_copies_count a n h frag :
  List.length (print_reports a (copies n h frag)) = n * List.length (print_reports a frag).
Proof. unfold print_reports. apply (copies_count pr_step (pr_emit a) pr_step_shift (pr_emit_shift a)). Qed.

(* ------------------------------------------------------------------ renaming *)
Definition keeps (sg : string -> string) (k : string) : Prop := forall x, String.eqb (sg x) k = String.eqb x k.
Definition pr_sigma_ok (sg : string -> string) : Prop :=
  keeps sg pr_simple_id /\ keeps sg pr_attr_name /\ keeps sg pr_base_id /\ keeps sg main_left_id.

Lemma named_rename_ident sg c s t :
  String.eqb c "Constant" = false -> keeps sg s -> named c s (rename sg t) = named c s t.
Proof.
  intros Hc Hk. destruct t as [i ks]. unfold named, ncls, nsval. cbn [rename ninfo rename_info cls sval].
  destruct (String.eqb (cls i) c) eqn:E; [|reflexivity]. apply String.eqb_eq in E. subst c.
  rewrite Hc. cbn [andb]. apply Hk.
Qed.

Lemma named_rename_const sg s t : named "Constant" s (rename sg t) = named "Constant" s t.
Proof.
  destruct t as [i ks]. unfold named, ncls, nsval. cbn [rename ninfo rename_info cls sval].
  destruct (String.eqb (cls i) "Constant") eqn:E; reflexivity.
Qed.

Lemma is_print_call_rename sg t : pr_sigma_ok sg -> is_print_call (rename sg t) = is_print_call t.
Proof.
  intros (H1 & H2 & H3 & _). unfold is_print_call, is_simple_print, is_builtins_print.
  rewrite field_rename. destruct (field "func" t) as [|f [|g rest]]; cbn [map]; try reflexivity.
  rewrite (named_rename_ident sg pr_simple_cls pr_simple_id f eq_refl H1).
  rewrite (named_rename_ident sg pr_attr_cls pr_attr_name f eq_refl H2).
  rewrite field_rename. destruct (field "value" f) as [|b [|b' rest]]; cbn [map]; try reflexivity.
  now rewrite (named_rename_ident sg pr_base_cls pr_base_id b eq_refl H3).
Qed.

Lemma is_main_comparison_rename sg c : pr_sigma_ok sg -> is_main_comparison (rename sg c) = is_main_comparison c.
Proof.
  intros (_ & _ & _ & H4). unfold is_main_comparison. rewrite !field_rename, !map_length.
  assert (A1 : match map (rename sg) (field "left" c) with [l] => named main_left_cls main_left_id l | _ => false end
               = match field "left" c with [l] => named main_left_cls main_left_id l | _ => false end).
  { destruct (field "left" c) as [|l [|l' rest]]; cbn [map]; try reflexivity.
    apply (named_rename_ident sg main_left_cls main_left_id l eq_refl H4). }
  assert (A2 : match map (rename sg) (field "ops" c) with o :: _ => is_cls main_op_cls o | [] => false end
               = match field "ops" c with o :: _ => is_cls main_op_cls o | [] => false end).
  { destruct (field "ops" c) as [|o rest]; cbn [map]; [reflexivity|]. apply is_cls_rename. }
  assert (A3 : match map (rename sg) (field "comparators" c) with
               | k :: _ => named main_cmp_cls main_cmp_value k && String.eqb (nckind k) "str" | [] => false end
               = match field "comparators" c with
                 | k :: _ => named main_cmp_cls main_cmp_value k && String.eqb (nckind k) "str" | [] => false end).
  { destruct (field "comparators" c) as [|k rest]; cbn [map]; [reflexivity|].
    change main_cmp_cls with "Constant". now rewrite named_rename_const, nckind_rename. }
  now rewrite A1, A2, A3.
Qed.

Lemma is_main_if_rename sg t : pr_sigma_ok sg -> is_main_if (rename sg t) = is_main_if t.
Proof.
  intro H. unfold is_main_if. rewrite is_cls_rename, field_rename.
  destruct (field "test" t) as [|c [|c' rest]]; cbn [map]; try reflexivity.
  now rewrite is_cls_rename, is_main_comparison_rename.
Qed.

Lemma pr_step_rename sg s t : pr_sigma_ok sg -> pr_step s (rename sg t) = pr_step s t.
Proof. intro H. unfold pr_step. now rewrite is_cls_rename, erase_rename, is_main_if_rename. Qed.

Lemma pr_emit_rename a sg s t : pr_sigma_ok sg -> pr_emit a s (rename sg t) = map (fun r => r) (pr_emit a s t).
Proof.
  intro H. rewrite map_id. unfold pr_emit. rewrite is_cls_rename, erase_rename, is_print_call_rename by exact H.
  destruct t as [i ks]. reflexivity.
Qed.

Theorem print_rename a sg file :
  pr_sigma_ok sg -> print_reports a (renameF sg file) = print_reports a file.
Proof.
  intro H. unfold print_reports.
  rewrite (renameF_commutes pr_step (pr_emit a) sg (fun s => s) (fun r => r)
             (fun s t => pr_step_rename sg s t H) (fun s t => pr_emit_rename a sg s t H)).
  apply map_id.
Qed.

(* ------------------------------------------------------------------ what the detector reports *)
(* a print call directly in a function body is reported, the same call under a main block is not
   (with the default allow_in_scripts): the documented behaviour on the smallest instances *)
Definition mk (r c : string) (l k : nat) (s : string) (ks : list ast) : ast := Node (mkI r c l k s "") ks.
Definition ex_print (l k : nat) : ast :=
  mk "body" "Expr" l k "" [mk "value" "Call" l k "" [mk "func" "Name" l k "print" []]].
Definition ex_main (l : nat) (body : list ast) : ast :=
  mk "body" "If" l 0 ""
     (mk "test" "Compare" l 3 "" [mk "left" "Name" l 3 "__name__" []; mk "ops" "Eq" l 3 "" [];
                                  Node (mkI "comparators" "Constant" l 15 "__main__" "str") []] :: body).

Example print_nonvacuous :
  print_default [ex_print 1 0; ex_main 2 [ex_print 3 4]] = [(1, 0, "", "")]
  /\ print_reports false [ex_print 1 0; ex_main 2 [ex_print 3 4]] = [(1, 0, "", ""); (3, 4, "", "")].
Proof. split; reflexivity. Qed.

(* ------------------------------------------------------------------ the finite renamings the harness uses *)
From TL Require Import Model.EmbedRun.

Lemma avoids_keeps names sg k : smem k names = true -> avoids names sg = true -> keeps (sigma_of sg) k.
Proof.
  intros Hk. induction sg as [|[a b] r IH]; cbn [avoids forallb sigma_of fst snd]; intros H x.
  - reflexivity.
  - apply andb_true_iff in H. destruct H as [H Hr]. apply andb_true_iff in H. destruct H as [Ha Hb].
    apply negb_true_iff in Ha. apply negb_true_iff in Hb.
    destruct (String.eqb_spec x a) as [->|N].
    + assert (Ea : String.eqb a k = false).
      { destruct (String.eqb_spec a k) as [->|]; [congruence|reflexivity]. }
      assert (Eb : String.eqb b k = false).
      { destruct (String.eqb_spec b k) as [->|]; [congruence|reflexivity]. }
      now rewrite Ea, Eb.
    + apply (IH Hr).
Qed.

Theorem print_rename_finite a sg file :
  avoids [pr_simple_id; pr_attr_name; pr_base_id; main_left_id] sg = true ->
  print_reports a (renameF (sigma_of sg) file) = print_reports a file.
Proof.
  intro H. apply print_rename. repeat split; eapply avoids_keeps; try exact H; reflexivity.
Qed.
