(* Proofs/CollectCacheFacts.v — the memo of is_ignored is transparent: whatever calls were made before on the same parser, a run
   lints exactly the files the memo-free model (Model/Collect.v: filter linted) lints, provided the key determines the decision
   (it does: check_path is computed from the very path object whose string is the key).  Keyed by the file name instead, it is not. *)
From TL Require Import Lib.Base Lib.GenTypes Model.CollectStr Gen.CollectGen Model.CollectCache.
Import ListNotations.

Section Memo.
  Variable key : list string -> string.
  Variable hard ign : list string -> bool.
  (* the paths that are ever handed to this parser *)
  Variable dom : list string -> Prop.
  Hypothesis key_decides : forall p1 p2, dom p1 -> dom p2 -> key p1 = key p2 -> ign p1 = ign p2.

  Definition sound (c : cache) : Prop := forall p b, dom p -> lookup (key p) c = Some b -> ign p = b.

  Lemma sound_nil : sound [].
  Proof. intros p b _ H. discriminate. Qed.

  Lemma memo_step p c : dom p -> sound c -> fst (is_ignored_memo (ign p) (key p) c) = ign p /\ sound (snd (is_ignored_memo (ign p) (key p) c)).
  Proof.
    intros Hp Hs. unfold is_ignored_memo. destruct (lookup (key p) c) as [b|] eqn:E; cbn [fst snd].
    - split; [symmetry; now apply Hs|exact Hs].
    - split; [reflexivity|]. intros p' b' Hp' H. cbn [lookup] in H. destruct (String.eqb (key p') (key p)) eqn:Ek.
      + apply String.eqb_eq in Ek. injection H as <-. now apply key_decides.
      + now apply Hs.
  Qed.

  Lemma lint_seq_spec ps : forall c,
    Forall dom ps -> sound c ->
    fst (lint_seq key hard ign c ps) = filter (fun p => negb (hard p) && negb (ign p)) ps /\ sound (snd (lint_seq key hard ign c ps)).
  Proof.
    induction ps as [|p r IH]; intros c Hd Hs; [split; [reflexivity|exact Hs]|].
    inversion Hd as [|? ? Hp Hr]; subst. cbn [lint_seq filter]. destruct (hard p); cbn [negb andb].
    - now apply IH.
    - destruct (memo_step p c Hp Hs) as [E Hs']. destruct (is_ignored_memo (ign p) (key p) c) as [b c'] eqn:Em. cbn [fst snd] in E, Hs'.
      destruct (IH c' Hr Hs') as [E2 Hs2]. destruct (lint_seq key hard ign c' r) as [out c''] eqn:El. cbn [fst snd] in *.
      subst b. split; [|exact Hs2]. destruct (ign p); cbn [negb]; now rewrite E2.
  Qed.

  Lemma lint_calls_spec calls : forall c,
    Forall (Forall dom) calls -> sound c ->
    fst (lint_calls key hard ign c calls) = map (filter (fun p => negb (hard p) && negb (ign p))) calls.
  Proof.
    induction calls as [|ps r IH]; intros c Hd Hs; [reflexivity|].
    inversion Hd as [|? ? Hp Hr]; subst. cbn [lint_calls map].
    destruct (lint_seq_spec ps c Hp Hs) as [E Hs']. destruct (lint_seq key hard ign c ps) as [out c'] eqn:El. cbn [fst snd] in *.
    specialize (IH c' Hr Hs'). destruct (lint_calls key hard ign c' r) as [outs c''] eqn:Ec. cbn [fst] in *. now rewrite E, IH.
  Qed.
End Memo.

(* ------------------------------------------------------------------ tied to the model of Model/Collect.v *)
From TL Require Import Model.Glob Model.Collect Model.CollectSpec Proofs.CollectStrFacts Proofs.CollectIgnoreStr Proofs.CollectTables Proofs.CollectMain.

(* the shape found in the source: one memo per parser instance, looked up and filled under str(file_path) *)
Lemma ignore_cache_shape : ignore_cache_per_instance = true /\ ignore_cache_keyed_by_path_str = true.
Proof. split; reflexivity. Qed.

Definition hard_gate (q : cquirks) (abs : list string) : list string -> bool := gate_hard q (q_excl_above_root q) abs.
Definition ign_gate (q : cquirks) (pats : list string) (cp : list string -> list string) (p : list string) : bool := is_ignored q pats (cp p).

(* the lint_file loop of lint_files / lint_directory on a parser whose memo is c *)
Definition run_seq_memo (key : list string -> string) (q : cquirks) (abs pats : list string) (cp : list string -> list string)
           (c : cache) (ps : list (list string)) : list (list string) * cache :=
  lint_seq key (hard_gate q abs) (ign_gate q pats cp) c ps.

Lemma filter_linted q abs pats cp ps :
  filter (fun p => negb (hard_gate q abs p) && negb (ign_gate q pats cp p)) ps = filter (linted q abs pats cp) ps.
Proof. apply filter_ext. intro p. now rewrite linted_unfold. Qed.

(* distinct path objects have distinct strings (key injective on the paths handed to this parser): the memo never changes what is linted,
   whatever was asked before *)
Theorem memo_transparent key q abs pats cp (dom : list string -> Prop) c ps :
  (forall p1 p2, dom p1 -> dom p2 -> key p1 = key p2 -> p1 = p2) ->
  sound key (ign_gate q pats cp) dom c -> Forall dom ps ->
  fst (run_seq_memo key q abs pats cp c ps) = filter (linted q abs pats cp) ps
  /\ sound key (ign_gate q pats cp) dom (snd (run_seq_memo key q abs pats cp c ps)).
Proof.
  intros Hinj Hs Hd. unfold run_seq_memo. rewrite <- filter_linted. apply lint_seq_spec; try assumption.
  intros p1 p2 H1 H2 E. now rewrite (Hinj p1 p2 H1 H2 E).
Qed.

Theorem memo_transparent_calls key q abs pats cp (dom : list string -> Prop) calls :
  (forall p1 p2, dom p1 -> dom p2 -> key p1 = key p2 -> p1 = p2) -> Forall (Forall dom) calls ->
  fst (lint_calls key (hard_gate q abs) (ign_gate q pats cp) [] calls) = map (filter (linted q abs pats cp)) calls.
Proof.
  intros Hinj Hd. rewrite (lint_calls_spec key (hard_gate q abs) (ign_gate q pats cp) dom).
  - apply map_ext. intro ps. apply filter_linted.
  - intros p1 p2 H1 H2 E. now rewrite (Hinj p1 p2 H1 H2 E).
  - exact Hd.
  - apply sound_nil.
Qed.

(* the runs of Model/Collect.v are the runs with a fresh memo *)
Corollary run_files_with_memo key q abs sp s ps :
  (forall p1 p2, key p1 = key p2 -> p1 = p2) ->
  fst (run_seq_memo key q abs (load_patterns q s) (chk_file q sp) [] ps) = run_files q abs sp s ps.
Proof.
  intro Hinj. unfold run_files. apply (memo_transparent key q abs _ _ (fun _ => True)).
  - intros p1 p2 _ _. apply Hinj.
  - apply sound_nil.
  - apply Forall_forall. trivial.
Qed.

Corollary run_dir_with_memo key q recursive abs sp rel t s :
  (forall p1 p2, key p1 = key p2 -> p1 = p2) ->
  fst (run_seq_memo key q abs (load_patterns q s) (chk_dir q sp rel) [] (walk (seq_collect_recursive recursive) rel t)) = run_dir q recursive abs sp rel t s.
Proof.
  intro Hinj. unfold run_dir. apply (memo_transparent key q abs _ _ (fun _ => True)).
  - intros p1 p2 _ _. apply Hinj.
  - apply sound_nil.
  - apply Forall_forall. trivial.
Qed.

(* ------------------------------------------------------------------ cross-file evidence in the parallel path *)
Lemma par_evidence_gates_spec : par_evidence_gates = lint_gates.
Proof. reflexivity. Qed.

(* the cross-file rules see exactly the files that reach the rules in lint_file: an excluded or ignored file contributes nothing *)
Theorem evidence_exact q abs pats cp ps : evidence_files q abs pats cp ps = filter (linted q abs pats cp) ps.
Proof. unfold evidence_files, linted. now rewrite par_evidence_gates_spec. Qed.

Corollary evidence_of_parallel_dir_run q recursive abs sp rel t s :
  evidence_files q abs (load_patterns q s) (chk_dir q sp rel) (walk (par_collect_recursive recursive) rel t) = run_dir_par q recursive abs sp rel t s.
Proof. apply evidence_exact. Qed.

(* an absolute path string: "/" dirs "/" p -- injective on well-formed project-relative paths *)
Definition abs_key (dirs : list string) (p : list string) : string := ("/" ++ pjoin (dirs ++ p))%string.

Lemma map_la_inj a b : map la a = map la b -> a = b.
Proof.
  revert b. induction a as [|x a IH]; intros [|y b] H; try discriminate; [reflexivity|].
  cbn in H. injection H as Hx Hr. apply la_inj in Hx. subst y. f_equal. now apply IH.
Qed.

Lemma abs_key_injective dirs p1 p2 :
  forallb comp_ok dirs = true -> path_ok p1 = true -> path_ok p2 = true -> abs_key dirs p1 = abs_key dirs p2 -> p1 = p2.
Proof.
  intros Hd H1 H2 E. unfold abs_key in E. apply (f_equal la) in E. rewrite !la_app in E. apply app_inv_head in E.
  rewrite !la_pjoin in E. unfold path_ok in H1, H2. apply andb_true_iff in H1. destruct H1 as [N1 C1]. apply andb_true_iff in H2. destruct H2 as [N2 C2].
  assert (O1 : forallb comp_ok (dirs ++ p1) = true) by (rewrite forallb_app; now rewrite Hd, C1).
  assert (O2 : forallb comp_ok (dirs ++ p2) = true) by (rewrite forallb_app; now rewrite Hd, C2).
  apply ljoin_inj in E.
  - apply map_la_inj in E. now apply app_inv_head in E.
  - destruct p1; [discriminate|]. destruct dirs; discriminate.
  - destruct p2; [discriminate|]. destruct dirs; discriminate.
  - now apply comps_ok_plain.
  - now apply comps_ok_plain.
Qed.

(* ------------------------------------------------------------------ the string of a path spelled relative to a working directory *)
Definition dd : string := "..".
Definition no_dotdot (p : list string) : Prop := ~ In dd p.

Fixpoint lead_dd (p : list string) : nat :=
  match p with
  | x :: r => if String.eqb x dd then S (lead_dd r) else 0
  | [] => 0
  end.

Lemma lead_dd_repeat k s : no_dotdot s -> lead_dd (repeat dd k ++ s) = k.
Proof.
  intro H. induction k as [|k IH]; cbn [repeat app lead_dd].
  - destruct s as [|x s]; [reflexivity|]. cbn [lead_dd]. destruct (String.eqb x dd) eqn:E; [|reflexivity].
    apply String.eqb_eq in E. subst x. exfalso. apply H. now left.
  - now rewrite String.eqb_refl, IH.
Qed.

Lemma relpath_shape c : forall p, no_dotdot p -> exists k s, relpath c p = repeat dd k ++ s /\ k <= List.length c /\ no_dotdot s.
Proof.
  induction c as [|x c IH]; intros p Hp.
  - exists 0, p. destruct p; cbn; repeat split; try lia; exact Hp.
  - destruct p as [|y p].
    + exists (List.length (x :: c)), []. cbn [relpath]. rewrite app_nil_r. repeat split; [lia|intros []].
    + cbn [relpath]. destruct (String.eqb x y) eqn:E.
      * assert (Hp' : no_dotdot p) by (intro X; apply Hp; now right).
        destruct (IH p Hp') as [k [s [-> [Hk Hs]]]]. exists k, s. repeat split; [cbn [List.length]; lia|exact Hs].
      * exists (List.length (x :: c)), (y :: p). repeat split; [lia|exact Hp].
Qed.

Lemma relpath_injective c : forall p1 p2, no_dotdot p1 -> no_dotdot p2 -> relpath c p1 = relpath c p2 -> p1 = p2.
Proof.
  induction c as [|x c IH]; intros p1 p2 H1 H2 E.
  - destruct p1, p2; cbn in E; congruence.
  - assert (Hmis : forall y p q, no_dotdot (y :: p) -> no_dotdot q -> String.eqb x y = false ->
                     relpath c q = repeat dd (List.length (x :: c)) ++ y :: p -> False).
    { intros y p q Hyp Hq _ Eq. destruct (relpath_shape c q Hq) as [k [s [Es [Hk Hs]]]]. rewrite Es in Eq.
      apply (f_equal lead_dd) in Eq. rewrite !lead_dd_repeat in Eq by assumption. cbn [List.length] in Eq. lia. }
    assert (Hnil : forall q, no_dotdot q -> relpath c q = repeat dd (List.length (x :: c)) -> False).
    { intros q Hq Eq. destruct (relpath_shape c q Hq) as [k [s [Es [Hk Hs]]]]. rewrite Es in Eq.
      rewrite <- (app_nil_r (repeat dd (List.length (x :: c)))) in Eq.
      apply (f_equal lead_dd) in Eq. rewrite !lead_dd_repeat in Eq; [cbn [List.length] in Eq; lia|intros []|exact Hs]. }
    destruct p1 as [|y1 p1], p2 as [|y2 p2]; [reflexivity| | |].
    + cbn [relpath] in E. destruct (String.eqb x y2) eqn:E2.
      * exfalso. apply (Hnil p2); [intro X; apply H2; now right|now symmetry].
      * apply (f_equal (@List.length string)) in E. rewrite app_length, !repeat_length in E. cbn [List.length] in E. lia.
    + cbn [relpath] in E. destruct (String.eqb x y1) eqn:E1.
      * exfalso. apply (Hnil p1); [intro X; apply H1; now right|exact E].
      * apply (f_equal (@List.length string)) in E. rewrite app_length, !repeat_length in E. cbn [List.length] in E. lia.
    + assert (H1' : no_dotdot p1) by (intro X; apply H1; now right). assert (H2' : no_dotdot p2) by (intro X; apply H2; now right).
      cbn [relpath] in E. destruct (String.eqb x y1) eqn:E1, (String.eqb x y2) eqn:E2.
      * apply String.eqb_eq in E1, E2. subst y1 y2. f_equal. now apply IH.
      * exfalso. now apply (Hmis y2 p2 p1 H2 H1' E2).
      * exfalso. apply (Hmis y1 p1 p2 H1 H2' E1). now symmetry.
      * now apply app_inv_head in E.
Qed.

(* the components of the path object handed to lint_file, as the user spelled the target *)
Theorem spelled_injective sp p1 p2 : no_dotdot p1 -> no_dotdot p2 -> spelled sp p1 = spelled sp p2 -> p1 = p2.
Proof.
  intros H1 H2. destruct sp as [|c|d]; cbn [spelled].
  - trivial.
  - now apply relpath_injective.
  - apply app_inv_head.
Qed.

(* ... and its string: distinct files of the project have distinct path strings under every spelling of the target *)
Theorem spelled_key_injective sp p1 p2 :
  comps_ok (spelled sp p1) -> comps_ok (spelled sp p2) -> no_dotdot p1 -> no_dotdot p2 ->
  pjoin (spelled sp p1) = pjoin (spelled sp p2) -> p1 = p2.
Proof.
  intros [N1 C1] [N2 C2] H1 H2 E. apply (f_equal la) in E. rewrite !la_pjoin in E. apply ljoin_inj in E.
  - apply map_la_inj in E. now apply (spelled_injective sp).
  - destruct (spelled sp p1); [congruence|discriminate].
  - destruct (spelled sp p2); [congruence|discriminate].
  - now apply comps_ok_plain.
  - now apply comps_ok_plain.
Qed.

(* the memo is transparent for the runs of the model under every spelling: named files *)
Corollary run_files_with_memo_spelled q abs sp s ps :
  Forall (fun p => comps_ok (spelled sp p) /\ no_dotdot p) ps ->
  fst (run_seq_memo (fun p => pjoin (spelled sp p)) q abs (load_patterns q s) (chk_file q sp) [] ps) = run_files q abs sp s ps.
Proof.
  intro Hd. unfold run_files.
  apply (memo_transparent (fun p => pjoin (spelled sp p)) q abs _ _ (fun p => comps_ok (spelled sp p) /\ no_dotdot p)).
  - intros p1 p2 [C1 D1] [C2 D2]. now apply spelled_key_injective.
  - apply sound_nil.
  - exact Hd.
Qed.

(* keyed by the file name instead (one memo entry for src/x.py and gen/x.py), the memo changes what is linted *)
Example memo_keyed_by_name_refuted :
  let key := fun p : list string => last p "" in
  let ign := fun p : list string => String.eqb (hd "" p) "gen" in
  fst (lint_seq key (fun _ => false) ign [] [["gen"; "x.py"]; ["src"; "x.py"]]) = []
  /\ filter (fun p => negb (ign p)) [["gen"; "x.py"]; ["src"; "x.py"]] = [["src"; "x.py"]].
Proof. vm_compute. split; reflexivity. Qed.
