(* Proofs/DryTextFilters.v — the three text-only block filters of block_filter.py and the registry (Model/DryFilter.v):
   (1) the filters built from the literals of the source are the documented ones;
   (2) each filter fires only in the documented situation (soundness, for every text and every line range);
   (3) every stored window of W code lines spans at least W non-blank source lines, hence LoggerCallFilter (exactly one
       non-blank line) can never drop a window when W >= 2 and ExceptionReraiseFilter (exactly two) never when W >= 3;
       ImportGroupFilter drops no window holding a non-blank line that does not start with `import ` / `from `. *)
From TL Require Import Lib.Base Lib.GenTypes Model.DryBase Model.DryPipe Gen.DryGen Model.DryFilter Model.Dry Model.DrySpec
     Proofs.DryGreedy Proofs.DryStageB Proofs.DryStageA Proofs.DryMain Proofs.DryFilterP.
From Coq Require Import Sorting.Sorted.

(* ------------------------------------------------------------------ (1) literals *)
Lemma gen_text_filters :
  (forall t, dry_import_line_rejected t = negb (import_shaped t))
  /\ (forall n, dry_logger_single n = (n =? 1))
  /\ dry_logger_pattern = "^\s*(self\.)?(logger|logging|log)\.(debug|info|warning|error|critical|exception|log)\s*\("
  /\ dry_logger_self = "self." /\ dry_logger_objs = logger_objs_ref /\ dry_logger_meths = logger_meths_ref
  /\ (forall n, dry_reraise_len_bad n = negb (n =? 2))
  /\ (forall a b, dry_is_except_raise a b = except_raise_ref a b)
  /\ dry_registry = registry_names_ref /\ dry_filter_defaults = filter_defaults_ref.
Proof. repeat split; reflexivity. Qed.

Theorem model_text_filters_are_ref : forall raw s e,
  model_import_filter raw s e = import_filter_ref raw s e /\ model_logger_filter raw s e = logger_filter_ref raw s e
  /\ model_reraise_filter raw s e = reraise_filter_ref raw s e.
Proof. intros. repeat split; reflexivity. Qed.

Theorem model_registry_is_ref : forall configured custom calls raw s e,
  model_registry configured custom calls raw s e = registry_ref configured custom calls raw s e.
Proof. intros. reflexivity. Qed.

(* the registry answers true exactly when an enabled registered filter does *)
Theorem registry_ref_spec (configured : bool) (custom : list (string * bool)) (calls : list (nat * nat)) (raw : list string) (s e : nat) :
  let on := if configured then filter_on filter_defaults_ref custom else fun _ => true in
  registry_ref configured custom calls raw s e =
    (on "keyword_argument_filter" && kwarg_filter_ref raw calls s e) || ((on "import_group_filter" && import_filter_ref raw s e)
    || ((on "logger_call_filter" && logger_filter_ref raw s e) || ((on "exception_reraise_filter" && reraise_filter_ref raw s e) || false))).
Proof.
  cbn zeta. unfold registry_ref, registry_gen, registry_names_ref. cbn [existsb String.eqb Ascii.eqb Bool.eqb].
  repeat match goal with |- context [if ?c then ?a else false] => change (if c then a else false) with (c && a) end.
  reflexivity.
Qed.

(* ------------------------------------------------------------------ (2) soundness of each filter *)
Theorem import_filter_sound raw s e : import_filter_ref raw s e = true ->
  forall l, In l (slice_lines raw s e) ->
    py_strip l = EmptyString \/ str_prefix "import " (py_strip l) = true \/ str_prefix "from " (py_strip l) = true.
Proof.
  unfold import_filter_ref, import_filter_gen. intros H l Hl. rewrite forallb_forall in H. specialize (H l Hl). cbn zeta in H.
  destruct (py_strip l) as [|c t] eqn:E; [left; reflexivity|right]. cbn [str_empty] in H. rewrite negb_involutive in H.
  unfold import_shaped in H. apply orb_true_iff in H. exact H.
Qed.

Theorem logger_filter_sound raw s e : logger_filter_ref raw s e = true ->
  exists t, stripped_nonempty (slice_lines raw s e) = [t] /\ logger_line_ref t = true.
Proof.
  unfold logger_filter_ref, logger_filter_gen. cbn zeta. destruct (stripped_nonempty (slice_lines raw s e)) as [|t r]; [discriminate|].
  destruct r as [|t2 r]; [|cbn [List.length Nat.eqb]; discriminate]. cbn [List.length Nat.eqb]. intros H. exists t. split; [reflexivity|exact H].
Qed.

Theorem reraise_filter_sound raw s e : reraise_filter_ref raw s e = true ->
  exists a b, stripped_nonempty (slice_lines raw s e) = [a; b] /\
              str_prefix "except " a = true /\ str_ends a ":" = true /\ str_prefix "raise " b = true /\ str_contains " from " b = true.
Proof.
  unfold reraise_filter_ref, reraise_filter_gen. cbn zeta. destruct (stripped_nonempty (slice_lines raw s e)) as [|a [|b [|c r]]];
    cbn [List.length Nat.eqb negb]; try discriminate.
  cbn [nth]. unfold except_raise_ref. rewrite !andb_true_iff. intros [[H1 H2] [H3 H4]]. exists a, b. repeat split; assumption.
Qed.

(* a line accepted by the logger matcher is  ws* [self.] obj . method ws* ( ...  *)
Lemma prefix_split : forall p u, str_prefix p u = true -> u = (p ++ sdrop (String.length p) u)%string.
Proof.
  induction p as [|a p IH]; intros u H; [reflexivity|]. destruct u as [|b u]; [discriminate|]. cbn [str_prefix] in H.
  apply andb_true_iff in H. destruct H as [Hab Hp]. apply Ascii.eqb_eq in Hab. subst b.
  cbn [String.length sdrop String.append]. f_equal. exact (IH u Hp).
Qed.

Lemma sapp_assoc : forall a b c : string, ((a ++ b) ++ c)%string = (a ++ (b ++ c))%string.
Proof. induction a as [|x a IH]; intros b c; [reflexivity|]. cbn [String.append]. f_equal. apply IH. Qed.

Lemma logger_call_at_shape u : logger_call_at logger_objs_ref logger_meths_ref u = true ->
  exists o m w rest, In o logger_objs_ref /\ In m logger_meths_ref /\ all_ws w /\ u = (o ++ "." ++ m ++ w ++ String "(" rest)%string.
Proof.
  unfold logger_call_at. intros H. apply existsb_exists in H. destruct H as [o [Ho H]]. apply existsb_exists in H. destruct H as [m [Hm H]].
  cbn zeta in H. destruct (str_prefix (o ++ "." ++ m) u) eqn:Ep; [|discriminate].
  pose proof (prefix_split _ _ Ep) as Eu. set (r := sdrop (String.length (o ++ "." ++ m)) u) in *.
  destruct (skip_ws_split r) as [w [Hw Er]]. destruct (skip_ws r) as [|c rest]; [discriminate|].
  cbn [str_prefix] in H. apply andb_true_iff in H. destruct H as [Hc _]. apply Ascii.eqb_eq in Hc. subst c.
  exists o, m, w, rest. repeat split; try assumption. rewrite Eu at 1. rewrite Er at 1.
  rewrite !sapp_assoc. cbn [String.append]. rewrite ?sapp_assoc. reflexivity.
Qed.

Theorem logger_line_shape t : logger_line_ref t = true ->
  exists w0 pre o m w rest, all_ws w0 /\ (pre = EmptyString \/ pre = "self.") /\ In o logger_objs_ref /\ In m logger_meths_ref /\ all_ws w /\
    t = (w0 ++ pre ++ o ++ "." ++ m ++ w ++ String "(" rest)%string.
Proof.
  unfold logger_line_ref, logger_line_gen. cbn zeta. destruct (skip_ws_split t) as [w0 [Hw0 Et]]. set (t1 := skip_ws t) in *.
  destruct (logger_call_at logger_objs_ref logger_meths_ref t1) eqn:E1.
  - intros _. destruct (logger_call_at_shape _ E1) as [o [m [w [rest [Ho [Hm [Hw Eu]]]]]]].
    exists w0, EmptyString, o, m, w, rest. repeat split; try assumption; [left; reflexivity|]. cbn [String.append]. rewrite Et at 1. f_equal. exact Eu.
  - destruct (str_prefix "self." t1) eqn:Es; [|discriminate]. intros E2.
    destruct (logger_call_at_shape _ E2) as [o [m [w [rest [Ho [Hm [Hw Eu]]]]]]].
    exists w0, "self."%string, o, m, w, rest. repeat split; try assumption; [right; reflexivity|].
    rewrite Et at 1. f_equal. rewrite (prefix_split _ _ Es) at 1. f_equal. exact Eu.
Qed.

(* ------------------------------------------------------------------ (3) windows span at least W non-blank source lines *)
Fixpoint has_nonws (s : string) : bool := match s with EmptyString => false | String c s' => negb (is_ws c) || has_nonws s' end.

Lemma has_nonws_app : forall a b, has_nonws (a ++ b) = has_nonws a || has_nonws b.
Proof. induction a as [|c a IH]; intros b; [reflexivity|]. cbn [String.append has_nonws]. rewrite IH, orb_assoc. reflexivity. Qed.

Lemma has_nonws_srev_app : forall a b, has_nonws (srev_app a b) = has_nonws a || has_nonws b.
Proof.
  induction a as [|c a IH]; intros b; [reflexivity|]. cbn [srev_app has_nonws]. rewrite IH. cbn [has_nonws].
  destruct (negb (is_ws c)), (has_nonws a), (has_nonws b); reflexivity.
Qed.

Lemma has_nonws_srev a : has_nonws (srev a) = has_nonws a.
Proof. unfold srev. rewrite has_nonws_srev_app. cbn [has_nonws]. apply orb_false_r. Qed.

Lemma has_nonws_skip_ws : forall s, has_nonws (skip_ws s) = has_nonws s.
Proof. induction s as [|c s IH]; [reflexivity|]. cbn [skip_ws has_nonws]. destruct (is_ws c) eqn:E; [rewrite IH; reflexivity|cbn [has_nonws]; rewrite E; reflexivity]. Qed.

Lemma has_nonws_nonempty s : has_nonws s = true -> str_empty s = false.
Proof. destruct s; [discriminate|reflexivity]. Qed.

Lemma nonblank_of_nonws s : has_nonws s = true -> nonblank s = true.
Proof.
  intros H. unfold nonblank, py_strip, rstrip. apply negb_true_iff. apply has_nonws_nonempty.
  rewrite has_nonws_srev, has_nonws_skip_ws, has_nonws_srev, has_nonws_skip_ws. exact H.
Qed.

Lemma words_acc_all_ws : forall s, has_nonws s = false -> words_acc EmptyString s = [].
Proof.
  induction s as [|c s IH]; intros H; [reflexivity|]. cbn [has_nonws] in H. apply orb_false_iff in H. destruct H as [Hc Hs].
  apply negb_false_iff in Hc. cbn [words_acc]. rewrite Hc. cbn [flush]. exact (IH Hs).
Qed.

Lemma ref_norm_nonempty a : str_empty (ref_norm a) = false -> has_nonws (a_code a) = true.
Proof.
  intros H. destruct (has_nonws (a_code a)) eqn:E; [reflexivity|]. unfold ref_norm, words in H. rewrite (words_acc_all_ws _ E) in H. discriminate.
Qed.

(* a tokenised line is a non-blank source line *)
Definition line_nonblank (l : dlang) (a : aline) : bool := nonblank (render_line l a).

Lemma token_line_nonblank l a : str_empty (ref_norm a) = false -> line_nonblank l a = true.
Proof.
  intros H. apply nonblank_of_nonws. unfold render_line. rewrite !has_nonws_app, (ref_norm_nonempty a H). apply orb_true_iff. right. reflexivity.
Qed.

Lemma tokenize_from_len P (nb : aline -> bool) : (forall a, str_empty (p_norm P a) = false -> nb a = true) ->
  forall ls n st, List.length (tokenize_from P n st ls) <= List.length (filter nb ls).
Proof.
  intros Hnb. induction ls as [|a rest IH]; intros n st; cbn [tokenize_from filter]; [cbn [List.length]; lia|].
  assert (Hskip : forall st', List.length (tokenize_from P (S n) st' rest) <= List.length (if nb a then a :: filter nb rest else filter nb rest)).
  { intros st'. specialize (IH (S n) st'). destruct (nb a); cbn [List.length]; lia. }
  destruct (a_doc a); [apply Hskip|]. destruct (str_empty (p_norm P a)) eqn:E; [apply Hskip|].
  destruct (snd (p_skip P (p_norm P a) st)); [apply Hskip|]. rewrite (Hnb a E). cbn [List.length]. specialize (IH (S n) (fst (p_skip P (p_norm P a) st))). lia.
Qed.

Lemma filter_none {A} (f : A -> bool) l : (forall x, In x l -> f x = false) -> filter f l = [].
Proof. induction l as [|x l IH]; intros H; [reflexivity|]. cbn [filter]. rewrite (H x (or_introl eq_refl)). apply IH. intros y Hy. apply H. right. exact Hy. Qed.

(* the tokens below line n + m are the tokens of the first m lines *)
Lemma tokenize_take P : forall ls n st m,
  filter (fun p => fst p <? n + m) (tokenize_from P n st ls) = tokenize_from P n st (firstn m ls).
Proof.
  induction ls as [|a rest IH]; intros n st m; [destruct m; reflexivity|]. destruct m as [|m].
  - cbn [firstn tokenize_from]. apply filter_none. intros p Hp.
    pose proof (proj2 (tokenize_from_sorted P (a :: rest) n st) p Hp). apply Nat.ltb_ge. lia.
  - cbn [firstn tokenize_from]. replace (n + S m) with (S n + m) by lia.
    destruct (a_doc a); [apply IH|]. destruct (str_empty (p_norm P a)); [apply IH|].
    destruct (snd (p_skip P (p_norm P a) st)); [apply IH|]. cbn [filter fst].
    assert (E : (n <? S n + m) = true) by (apply Nat.ltb_lt; lia). rewrite E. f_equal. apply IH.
Qed.

(* the tokens from line n + k on are the tokens of the lines after the first k (in some import state) *)
Lemma tokenize_skip P : forall k ls n st, exists st',
  filter (fun p => n + k <=? fst p) (tokenize_from P n st ls) = tokenize_from P (n + k) st' (skipn k ls).
Proof.
  induction k as [|k IH]; intros ls n st.
  - exists st. rewrite Nat.add_0_r. cbn [skipn]. apply filter_all. intros p Hp.
    pose proof (proj2 (tokenize_from_sorted P ls n st) p Hp). apply Nat.leb_le. lia.
  - destruct ls as [|a rest]; [exists st; reflexivity|]. cbn [skipn tokenize_from]. replace (n + S k) with (S n + k) by lia.
    destruct (a_doc a); [apply IH|]. destruct (str_empty (p_norm P a)); [apply IH|].
    destruct (snd (p_skip P (p_norm P a) st)); [apply IH|]. cbn [filter fst].
    assert (E : (S n + k <=? n) = false) by (apply Nat.leb_gt; lia). rewrite E. apply IH.
Qed.

Lemma filter_filter {A} (f g : A -> bool) l : filter f (filter g l) = filter (fun x => g x && f x) l.
Proof. induction l as [|x l IH]; [reflexivity|]. cbn [filter]. destruct (g x); cbn [filter andb]; [destruct (f x); rewrite IH; reflexivity|exact IH]. Qed.

Lemma filter_ext' {A} (f g : A -> bool) l : (forall x, f x = g x) -> filter f l = filter g l.
Proof. intros H. induction l as [|x l IH]; [reflexivity|]. cbn [filter]. rewrite H, IH. reflexivity. Qed.

Lemma skipn_map' {A B} (f : A -> B) : forall n l, skipn n (map f l) = map f (skipn n l).
Proof. induction n as [|n IH]; intros l; [reflexivity|]. destruct l; [reflexivity|]. cbn [skipn map]. apply IH. Qed.
Lemma firstn_map' {A B} (f : A -> B) : forall n l, firstn n (map f l) = map f (firstn n l).
Proof. induction n as [|n IH]; intros l; [reflexivity|]. destruct l; [reflexivity|]. cbn [firstn map]. f_equal. apply IH. Qed.

Lemma stripped_nonempty_length (g : aline -> string) ls :
  List.length (stripped_nonempty (map g ls)) = List.length (filter (fun a => nonblank (g a)) ls).
Proof.
  unfold stripped_nonempty, nonblank. induction ls as [|a ls IH]; [reflexivity|]. cbn [map filter].
  destruct (negb (str_empty (py_strip (g a)))); cbn [List.length]; rewrite IH; reflexivity.
Qed.

Definition raw_lines (f : afile) : list string := map (render_line (f_lang f)) (f_lines f).

(* code lines of a line range are non-blank source lines of that range *)
Lemma range_tokens_le f s e : 1 <= s ->
  List.length (filter (in_range s e) (ref_stream f)) <= List.length (stripped_nonempty (slice_lines (raw_lines f) s e)).
Proof.
  intros Hs. unfold ref_stream, tokenize. cbn [p_first_line ref_aparams].
  rewrite (filter_ext' (in_range s e) (fun p => (1 + (s - 1) <=? fst p) && (fst p <? 1 + (s - 1) + (e - (s - 1))))).
  2:{ intros p. unfold in_range. replace (1 + (s - 1)) with s by lia.
      destruct (s <=? fst p) eqn:E3; [|reflexivity]. cbn [andb]. apply Nat.leb_le in E3.
      destruct (fst p <=? e) eqn:E1, (fst p <? s + (e - (s - 1))) eqn:E2; try reflexivity;
        [apply Nat.leb_le in E1; apply Nat.ltb_ge in E2; lia|apply Nat.leb_gt in E1; apply Nat.ltb_lt in E2; lia]. }
  rewrite <- filter_filter.
  destruct (tokenize_skip ref_aparams (s - 1) (f_lines f) 1 false) as [st' E]. rewrite E. rewrite tokenize_take.
  unfold slice_lines, raw_lines. rewrite skipn_map', firstn_map', stripped_nonempty_length.
  apply tokenize_from_len. intros a Ha. exact (token_line_nonblank (f_lang f) a Ha).
Qed.

Theorem window_spans_W_nonblank W files b : 1 <= W -> In b (ref_rows W files) ->
  W <= List.length (stripped_nonempty (slice_lines (raw_lines (nth_file files (r_file b))) (r_start b) (r_end b))).
Proof.
  intros HW Hb. destruct (ref_row_text W files b HW Hb) as [Hlen _]. unfold canon_range in Hlen. rewrite map_length in Hlen.
  assert (Hs : 1 <= r_start b).
  { apply ref_rows_in in Hb. destruct Hb as [j [f [i [Hn [Hi ->]]]]].
    destruct (ref_row_fields W j i (ref_stream f) HW Hi) as [_ [S _]]. cbn zeta in S. rewrite S.
    assert (Hin : In (nth i (ref_stream f) (0, EmptyString)) (ref_stream f)) by (apply nth_In; lia).
    exact (proj2 (tokenize_from_sorted ref_aparams (f_lines f) 1 false) _ Hin). }
  rewrite <- Hlen. apply range_tokens_le. exact Hs.
Qed.

(* LoggerCallFilter never drops a window of two or more code lines, ExceptionReraiseFilter never one of three or more *)
Theorem logger_filter_spares_windows W files b : 2 <= W -> In b (ref_rows W files) ->
  logger_filter_ref (raw_lines (nth_file files (r_file b))) (r_start b) (r_end b) = false.
Proof.
  intros HW Hb. destruct (logger_filter_ref _ _ _) eqn:E; [|reflexivity]. exfalso.
  destruct (logger_filter_sound _ _ _ E) as [t [Ht _]]. pose proof (window_spans_W_nonblank W files b ltac:(lia) Hb) as H.
  rewrite Ht in H. cbn [List.length] in H. lia.
Qed.

Theorem reraise_filter_spares_windows W files b : 3 <= W -> In b (ref_rows W files) ->
  reraise_filter_ref (raw_lines (nth_file files (r_file b))) (r_start b) (r_end b) = false.
Proof.
  intros HW Hb. destruct (reraise_filter_ref _ _ _) eqn:E; [|reflexivity]. exfalso.
  destruct (reraise_filter_sound _ _ _ E) as [x [y [Ht _]]]. pose proof (window_spans_W_nonblank W files b ltac:(lia) Hb) as H.
  rewrite Ht in H. cbn [List.length] in H. lia.
Qed.

(* ImportGroupFilter drops no range that holds a non-blank line which does not start with `import ` / `from ` *)
Theorem import_filter_spares raw s e l : In l (slice_lines raw s e) -> nonblank l = true -> import_shaped (py_strip l) = false ->
  import_filter_ref raw s e = false.
Proof.
  intros Hl Hn Hi. destruct (import_filter_ref raw s e) eqn:E; [|reflexivity]. exfalso.
  destruct (import_filter_sound raw s e E l Hl) as [H|[H|H]].
  - unfold nonblank in Hn. rewrite H in Hn. discriminate.
  - unfold import_shaped in Hi. rewrite H in Hi. discriminate.
  - unfold import_shaped in Hi. rewrite H, orb_true_r in Hi. discriminate.
Qed.

(* the registry: a window of three or more code lines that no multi-line call contains as keyword arguments and that
   holds an ordinary (non-import) line is kept, whatever dry.filters says *)
Theorem registry_spares_windows W files b configured custom calls : 3 <= W -> In b (ref_rows W files) ->
  let raw := raw_lines (nth_file files (r_file b)) in
  kwarg_filter_ref raw calls (r_start b) (r_end b) = false ->
  (exists l, In l (slice_lines raw (r_start b) (r_end b)) /\ nonblank l = true /\ import_shaped (py_strip l) = false) ->
  registry_ref configured custom calls raw (r_start b) (r_end b) = false.
Proof.
  cbn zeta. intros HW Hb Hk [l [Hl [Hn Hi]]]. rewrite registry_ref_spec. cbn zeta.
  rewrite Hk, (import_filter_spares _ _ _ l Hl Hn Hi), (logger_filter_spares_windows W files b ltac:(lia) Hb),
    (reraise_filter_spares_windows W files b HW Hb). rewrite !andb_false_r. reflexivity.
Qed.

(* the same for the windows of the faithful model - whatever the quirk vector - outside the defect classes of the text flags *)
Theorem short_filters_spare_model_windows q W files b : lines_ok q files -> In b (dry_rows q W files) ->
  let raw := raw_lines (nth_file files (r_file b)) in
  (2 <= W -> model_logger_filter raw (r_start b) (r_end b) = false) /\ (3 <= W -> model_reraise_filter raw (r_start b) (r_end b) = false).
Proof.
  cbn zeta. intros Hok Hb. rewrite (model_rows_eq q W files Hok) in Hb. split; intros HW.
  - exact (logger_filter_spares_windows W files b HW Hb).
  - exact (reraise_filter_spares_windows W files b HW Hb).
Qed.
