(* Proofs/GlobFacts.v — what the fnmatch model of Model/Glob.v decides, for the shapes that the
   documented ignore patterns are made of: literal text, "*" and "**".
   (fnmatch itself is a library oracle; these are theorems about its validated model.) *)
From TL Require Import Lib.Base Model.CollectStr Model.Glob Proofs.CollectStrFacts.

(* ------------------------------------------------------------------ gmatch, token by token *)
Lemma gmatch_nil s : gmatch [] s = true <-> s = [].
Proof. destruct s; cbn; split; congruence. Qed.

Lemma gmatch_lit c p s : gmatch (TLit c :: p) s = true <-> exists b, s = c :: b /\ gmatch p b = true.
Proof.
  cbn [gmatch]. destruct s as [|d s]; [split; [discriminate|intros [b [H _]]; discriminate]|].
  rewrite andb_true_iff, aeqb_eq. split.
  - intros [-> H]. now exists s.
  - intros [b [E H]]. injection E as -> ->. now split.
Qed.

Lemma gmatch_lits x p s : gmatch (map TLit x ++ p) s = true <-> exists b, s = x ++ b /\ gmatch p b = true.
Proof.
  revert s. induction x as [|c x IH]; intro s.
  - cbn [map app]. split; [intro H; now exists s|intros [b [-> H]]; exact H].
  - cbn [map app]. rewrite gmatch_lit. split.
    + intros [b [-> H]]. apply IH in H. destruct H as [b' [-> H]]. now exists b'.
    + intros [b [-> H]]. exists (x ++ b). split; [reflexivity|]. apply IH. now exists b.
Qed.

Definition star_loop (p : list tok) : list ascii -> bool :=
  fix star (s : list ascii) : bool := gmatch p s || match s with [] => false | _ :: s' => star s' end.

Lemma gmatch_star_unfold p s : gmatch (TStar :: p) s = star_loop p s.
Proof. reflexivity. Qed.

Lemma star_loop_spec p s : star_loop p s = true <-> exists a b, s = a ++ b /\ gmatch p b = true.
Proof.
  induction s as [|c s IH].
  - cbn [star_loop]. rewrite orb_false_r. split.
    + intro H. now exists [], [].
    + intros [a [b [E H]]]. symmetry in E. apply app_eq_nil in E. destruct E as [_ ->]. exact H.
  - change (star_loop p (c :: s)) with (gmatch p (c :: s) || star_loop p s). rewrite orb_true_iff, IH. split.
    + intros [H|[a [b [-> H]]]]; [now exists [], (c :: s)|now exists (c :: a), b].
    + intros [a [b [E H]]]. destruct a as [|d a].
      * cbn in E. subst b. now left.
      * cbn in E. injection E as -> ->. right. now exists a, b.
Qed.

Lemma gmatch_star p s : gmatch (TStar :: p) s = true <-> exists a b, s = a ++ b /\ gmatch p b = true.
Proof. rewrite gmatch_star_unfold. apply star_loop_spec. Qed.

Lemma gmatch_star_only s : gmatch [TStar] s = true.
Proof. apply gmatch_star. exists s, []. rewrite app_nil_r. split; [reflexivity|]. now apply gmatch_nil. Qed.

(* matching depends on the rest of the pattern only through what it accepts *)
Lemma gmatch_ext_tail t p p' : (forall s, gmatch p s = gmatch p' s) -> forall s, gmatch (t :: p) s = gmatch (t :: p') s.
Proof.
  intros H s. destruct t.
  - apply bool_ext. rewrite !gmatch_star. split; intros [a [b [E M]]]; exists a, b; (split; [exact E|]); [rewrite <- H|rewrite H]; exact M.
  - cbn [gmatch]. destruct s; [reflexivity|apply H].
  - cbn [gmatch]. destruct s; [reflexivity|]. now rewrite H.
  - cbn [gmatch]. destruct s; [reflexivity|]. now rewrite H.
Qed.

Lemma gmatch_star_star p s : gmatch (TStar :: TStar :: p) s = gmatch (TStar :: p) s.
Proof.
  apply bool_ext. rewrite gmatch_star. split.
  - intros [a [b [-> M]]]. apply gmatch_star in M. destruct M as [a' [b' [-> M]]].
    apply gmatch_star. exists (a ++ a'), b'. split; [now rewrite app_assoc|exact M].
  - intro M. exists [], s. split; [reflexivity|exact M].
Qed.

(* compressing runs of stars does not change what is matched *)
Lemma compress_cons_nonstar t r : (forall r', r = TStar :: r' -> t <> TStar) -> compress (t :: r) = t :: compress r.
Proof.
  intro H. destruct t; try reflexivity. destruct r as [|u r]; [reflexivity|].
  destruct u; try reflexivity. exfalso. now apply (H r).
Qed.

Lemma gmatch_compress p : forall s, gmatch (compress p) s = gmatch p s.
Proof.
  induction p as [|t p IH]; intro s; [reflexivity|].
  destruct t.
  - destruct p as [|u p]; [reflexivity|]. destruct u.
    + change (compress (TStar :: TStar :: p)) with (compress (TStar :: p)). rewrite IH. now rewrite gmatch_star_star.
    + change (compress (TStar :: TAny :: p)) with (TStar :: compress (TAny :: p)). now apply gmatch_ext_tail.
    + change (compress (TStar :: TLit c :: p)) with (TStar :: compress (TLit c :: p)). now apply gmatch_ext_tail.
    + change (compress (TStar :: TSet neg items :: p)) with (TStar :: compress (TSet neg items :: p)). now apply gmatch_ext_tail.
  - change (compress (TAny :: p)) with (TAny :: compress p). now apply gmatch_ext_tail.
  - change (compress (TLit c :: p)) with (TLit c :: compress p). now apply gmatch_ext_tail.
  - change (compress (TSet neg items :: p)) with (TSet neg items :: compress p). now apply gmatch_ext_tail.
Qed.

Lemma fnm_unfold name pat : fnm name pat = gmatch (parse_st None (la pat)) (la name).
Proof. unfold fnm, parse_pat. apply gmatch_compress. Qed.

(* ------------------------------------------------------------------ parsing literal text and stars *)
Definition plain (l : list ascii) : Prop := Forall (fun c => special c = false) l.

Lemma tok1_plain c : special c = false -> tok1 c = TLit c /\ aeqb c c_lbr = false.
Proof.
  unfold special, tok1. intro H. apply orb_false_iff in H. destruct H as [H H3].
  apply orb_false_iff in H. destruct H as [H1 H2]. now rewrite H1, H2.
Qed.

Lemma parse_plain x r : plain x -> parse_st None (x ++ r) = map TLit x ++ parse_st None r.
Proof.
  induction 1 as [|c x Hc _ IH]; [reflexivity|].
  cbn [app parse_st map]. destruct (tok1_plain c Hc) as [-> ->]. now rewrite IH.
Qed.

Lemma parse_plain_all x : plain x -> parse_st None x = map TLit x.
Proof. intro H. rewrite <- (app_nil_r x) at 1. rewrite parse_plain by exact H. cbn. now rewrite app_nil_r. Qed.

Lemma parse_star r : parse_st None (c_star :: r) = TStar :: parse_st None r.
Proof. reflexivity. Qed.

(* ------------------------------------------------------------------ the shapes of the documented forms *)
(* literal text: equality *)
Lemma fnm_literal name pat : plain (la pat) -> fnm name pat = String.eqb name pat.
Proof.
  intro H. apply bool_ext. rewrite fnm_unfold, parse_plain_all by exact H.
  rewrite <- (app_nil_r (map TLit (la pat))), gmatch_lits, String.eqb_eq. split.
  - intros [b [E M]]. apply gmatch_nil in M. subst b. rewrite app_nil_r in E. now apply la_inj.
  - intros ->. exists []. split; [now rewrite app_nil_r|reflexivity].
Qed.

(* "*" ++ lit : the name ends with lit *)
Lemma fnm_star_lit name lit : plain (la lit) -> fnm name ("*" ++ lit) = ends_with name lit.
Proof.
  intro H. apply bool_ext. rewrite fnm_unfold, ends_with_spec.
  change (la ("*" ++ lit)) with (c_star :: la lit). rewrite parse_star, parse_plain_all by exact H.
  rewrite gmatch_star. split.
  - intros [a [b [E M]]]. rewrite <- (app_nil_r (map TLit (la lit))) in M. apply gmatch_lits in M.
    destruct M as [b' [-> M]]. apply gmatch_nil in M. subst b'. rewrite app_nil_r in E. now exists a.
  - intros [r E]. exists r, (la lit). split; [exact E|].
    rewrite <- (app_nil_r (map TLit (la lit))). apply gmatch_lits. exists []. split; [now rewrite app_nil_r|reflexivity].
Qed.

(* lit ++ stars : the name starts with lit *)
Lemma fnm_lit_stars name lit stars :
  plain (la lit) -> (stars = "*" \/ stars = "**")%string -> fnm name (lit ++ stars) = starts_with name lit.
Proof.
  intros H Hs. apply bool_ext. rewrite fnm_unfold, starts_with_spec, la_app, parse_plain by exact H.
  rewrite gmatch_lits. split.
  - intros [b [E _]]. now exists b.
  - intros [r E]. exists r. split; [exact E|].
    destruct Hs as [-> | ->].
    + apply gmatch_star_only.
    + change (parse_st None (la "**")) with [TStar; TStar]. rewrite gmatch_star_star. apply gmatch_star_only.
Qed.

(* "**/" ++ rest : whatever rest demands must hold of a part of the name that follows a "/" *)
Lemma fnm_dstar_slash name rest :
  fnm name ("**/" ++ rest) = true ->
  exists a b, la name = a ++ slash :: b /\ gmatch (parse_st None (la rest)) b = true.
Proof.
  rewrite fnm_unfold. change (la ("**/" ++ rest)) with (c_star :: c_star :: slash :: la rest).
  rewrite !parse_star. change (parse_st None (slash :: la rest)) with (TLit slash :: parse_st None (la rest)).
  rewrite gmatch_star_star, gmatch_star. intros [a [b [E M]]]. apply gmatch_lit in M. destruct M as [b' [-> M]].
  now exists a, b'.
Qed.

(* the same shapes, with the pattern given by its characters *)
Lemma fnm_prefix name pat lit :
  plain lit -> (la pat = lit ++ [c_star] \/ la pat = lit ++ [c_star; c_star]) -> fnm name pat = lprefix lit (la name).
Proof.
  intros H Hs. apply bool_ext. rewrite fnm_unfold, lprefix_spec.
  assert (E : parse_st None (la pat) = map TLit lit ++ [TStar] \/ parse_st None (la pat) = map TLit lit ++ [TStar; TStar]).
  { destruct Hs as [-> | ->]; rewrite parse_plain by exact H; [now left|now right]. }
  destruct E as [-> | ->]; rewrite gmatch_lits; (split; [intros [b [E _]]; now exists b|]); intros [r E]; exists r; (split; [exact E|]).
  - apply gmatch_star_only.
  - rewrite gmatch_star_star. apply gmatch_star_only.
Qed.

Lemma fnm_suffix name pat lit : plain lit -> la pat = c_star :: lit -> fnm name pat = true <-> exists a, la name = a ++ lit.
Proof.
  intros H E. rewrite fnm_unfold, E, parse_star, parse_plain_all by exact H. rewrite gmatch_star. split.
  - intros [a [b [En M]]]. rewrite <- (app_nil_r (map TLit lit)) in M. apply gmatch_lits in M.
    destruct M as [b' [-> M]]. apply gmatch_nil in M. subst b'. rewrite app_nil_r in En. now exists a.
  - intros [r En]. exists r, lit. split; [exact En|].
    rewrite <- (app_nil_r (map TLit lit)). apply gmatch_lits. exists []. split; [now rewrite app_nil_r|reflexivity].
Qed.

Lemma fnm_dstar_slash_la name pat rest :
  la pat = c_star :: c_star :: slash :: rest -> fnm name pat = true ->
  exists a b, la name = a ++ slash :: b /\ gmatch (parse_st None rest) b = true.
Proof.
  intro E. rewrite fnm_unfold, E, !parse_star.
  change (parse_st None (slash :: rest)) with (TLit slash :: parse_st None rest).
  rewrite gmatch_star_star, gmatch_star. intros [a [b [En M]]]. apply gmatch_lit in M. destruct M as [b' [-> M]].
  now exists a, b'.
Qed.

Lemma fnm_literal_la name pat : plain (la pat) -> fnm name pat = true <-> la name = la pat.
Proof.
  intro H. rewrite fnm_literal by exact H. rewrite String.eqb_eq. split; [now intros ->|apply la_inj].
Qed.

(* "*" matches every name, "/" included *)
Lemma fnm_star_all name : fnm name "*" = true.
Proof. rewrite fnm_unfold. apply gmatch_star_only. Qed.

(* ------------------------------------------------------------------ "?" and bracket expressions *)
Lemma gmatch_any p s : gmatch (TAny :: p) s = true <-> exists c b, s = c :: b /\ gmatch p b = true.
Proof.
  cbn [gmatch]. destruct s as [|d s]; [split; [discriminate|intros [c [b [H _]]]; discriminate]|].
  split; [intro H; now exists d, s|intros [c [b [E H]]]; injection E as -> ->; exact H].
Qed.

Lemma gmatch_set neg items p s :
  gmatch (TSet neg items :: p) s = true <-> exists c b, s = c :: b /\ xorb neg (existsb (item_matches c) items) = true /\ gmatch p b = true.
Proof.
  cbn [gmatch]. destruct s as [|d s]; [split; [discriminate|intros [c [b [H _]]]; discriminate]|].
  rewrite andb_true_iff. split; [intros [H1 H2]; now exists d, s|intros [c [b [E [H1 H2]]]]; injection E as -> ->; now split].
Qed.

(* a range written backwards matches nothing (fnmatch.translate removes it) *)
Lemma reversed_range_empty lo hi c : nat_of_ascii hi < nat_of_ascii lo -> item_matches c (IRange lo hi) = false.
Proof.
  intro H. cbn [item_matches]. destruct (nat_of_ascii lo <=? nat_of_ascii c) eqn:E1; [|reflexivity].
  apply Nat.leb_le in E1. cbn [andb]. apply Nat.leb_gt. lia.
Qed.

(* the parser finds the "]" that closes a bracket expression ... *)
Lemma parse_in_bracket body : forall acc rest,
  ~ In c_rbr body -> closable (rev body ++ acc) = true ->
  parse_st (Some acc) (body ++ c_rbr :: rest) = mk_set (rev acc ++ body) :: parse_st None rest.
Proof.
  induction body as [|c b IH]; intros acc rest Hn Hc.
  - cbn [app rev] in *. cbn [parse_st]. rewrite aeqb_refl, Hc. cbn [andb]. now rewrite app_nil_r.
  - cbn [app parse_st]. assert (E : aeqb c c_rbr = false).
    { apply aeqb_neq. intros ->. apply Hn. now left. }
    rewrite E. cbn [andb]. rewrite IH.
    + cbn [rev]. now rewrite <- app_assoc.
    + intro H. apply Hn. now right.
    + cbn [rev] in Hc. now rewrite <- app_assoc in Hc.
Qed.

Lemma parse_bracket body rest :
  ~ In c_rbr body -> closable (rev body) = true ->
  parse_st None (c_lbr :: body ++ c_rbr :: rest) = mk_set body :: parse_st None rest.
Proof.
  intros Hn Hc. change (parse_st None (c_lbr :: body ++ c_rbr :: rest)) with (parse_st (Some []) (body ++ c_rbr :: rest)).
  rewrite parse_in_bracket; [reflexivity|exact Hn|now rewrite app_nil_r].
Qed.

(* ... and a "[" that is never closed is an ordinary character *)
Lemma parse_unclosed_acc s : forall acc, ~ In c_rbr s -> parse_st (Some acc) s = TLit c_lbr :: map tok1 (rev acc ++ s).
Proof.
  induction s as [|c s IH]; intros acc Hn.
  - cbn [parse_st]. now rewrite app_nil_r.
  - cbn [parse_st]. assert (E : aeqb c c_rbr = false).
    { apply aeqb_neq. intros ->. apply Hn. now left. }
    rewrite E. cbn [andb]. rewrite IH by (intro H; apply Hn; now right). cbn [rev]. now rewrite <- app_assoc.
Qed.

Lemma parse_unclosed s : ~ In c_rbr s -> parse_st None (c_lbr :: s) = TLit c_lbr :: map tok1 s.
Proof. intro H. change (parse_st None (c_lbr :: s)) with (parse_st (Some []) s). now rewrite parse_unclosed_acc. Qed.

(* the documented forms of the pattern table: pre ? post  and  pre [chars] post *)
Theorem fnm_question name pre post :
  plain (la pre) -> plain (la post) ->
  fnm name (pre ++ "?" ++ post) = true <-> exists c, la name = la pre ++ c :: la post.
Proof.
  intros Hp Hq. rewrite fnm_unfold, !la_app. change (la "?") with [c_qm].
  rewrite parse_plain by exact Hp. cbn [app]. change (parse_st None (c_qm :: la post)) with (TAny :: parse_st None (la post)).
  rewrite parse_plain_all by exact Hq. rewrite gmatch_lits. split.
  - intros [b [E M]]. apply gmatch_any in M. destruct M as [c [b' [-> M]]].
    rewrite <- (app_nil_r (map TLit (la post))) in M. apply gmatch_lits in M. destruct M as [b'' [-> M]].
    apply gmatch_nil in M. subst b''. rewrite app_nil_r in E. now exists c.
  - intros [c E]. exists (c :: la post). split; [exact E|]. apply gmatch_any. exists c, (la post). split; [reflexivity|].
    rewrite <- (app_nil_r (map TLit (la post))). apply gmatch_lits. exists []. split; [now rewrite app_nil_r|reflexivity].
Qed.

(* single characters only: no "-" (ranges), no "]", not starting with "!" *)
Definition simple_set (chars : list ascii) : Prop :=
  chars <> [] /\ ~ In c_rbr chars /\ ~ In c_dash chars /\ (forall c r, chars = c :: r -> c <> c_bang).

Lemma items_of_singles chars : ~ In c_dash chars -> items_of chars = map ISingle chars.
Proof.
  induction chars as [|c tl IH]; [reflexivity|]. intro H.
  assert (Htl : ~ In c_dash tl) by (intro X; apply H; now right).
  cbn [items_of map]. destruct tl as [|d [|e r]]; try (now rewrite <- IH).
  assert (E : aeqb d c_dash = false) by (apply aeqb_neq; intros ->; apply H; right; now left).
  rewrite E. now rewrite <- IH.
Qed.

(* a bracket expression without "-" and not starting with "!": its characters *)
Lemma mk_set_no_dash chars :
  ~ In c_dash chars -> match chars with c :: _ => aeqb c c_bang = false | [] => True end ->
  mk_set chars = TSet false (map ISingle chars).
Proof.
  intros Hd Hb. unfold mk_set, set_chunks.
  assert (E : amem c_dash chars = false).
  { destruct (amem c_dash chars) eqn:X; [|reflexivity]. apply amem_In in X. contradiction. }
  rewrite E. destruct chars as [|c r]; [reflexivity|]. rewrite Hb. reflexivity.
Qed.

Lemma existsb_singles c chars : existsb (item_matches c) (map ISingle chars) = amem c chars.
Proof. induction chars as [|d r IH]; [reflexivity|]. cbn. now rewrite IH. Qed.

Theorem fnm_charset name pre chars post :
  plain (la pre) -> plain (la post) -> simple_set chars ->
  fnm name (pre ++ "[" ++ sa chars ++ "]" ++ post) = true <-> exists c, In c chars /\ la name = la pre ++ c :: la post.
Proof.
  intros Hp Hq [Hne [Hr [Hd Hb]]]. rewrite fnm_unfold, !la_app, la_sa. change (la "[") with [c_lbr]. change (la "]") with [c_rbr].
  rewrite parse_plain by exact Hp. cbn [app].
  assert (Hc : closable (rev chars) = true).
  { destruct chars as [|c r]; [congruence|]. destruct r as [|d r].
    - cbn. apply negb_true_iff, aeqb_neq. now apply (Hb c []).
    - cbn [rev]. destruct (rev r) as [|x [|y l]]; reflexivity. }
  rewrite parse_bracket by assumption. rewrite parse_plain_all by exact Hq.
  assert (Em : mk_set chars = TSet false (map ISingle chars)).
  { apply mk_set_no_dash; [exact Hd|]. destruct chars as [|c r]; [congruence|]. apply aeqb_neq. now apply (Hb c r). }
  rewrite Em, gmatch_lits. split.
  - intros [b [E M]]. apply gmatch_set in M. destruct M as [c [b' [-> [Hx M]]]].
    rewrite <- (app_nil_r (map TLit (la post))) in M. apply gmatch_lits in M. destruct M as [b'' [-> M]].
    apply gmatch_nil in M. subst b''. rewrite app_nil_r in E. rewrite xorb_false_l, existsb_singles in Hx.
    exists c. split; [now apply amem_In|exact E].
  - intros [c [Hin E]]. exists (c :: la post). split; [exact E|]. apply gmatch_set. exists c, (la post). repeat split.
    + rewrite xorb_false_l, existsb_singles. now apply amem_In.
    + rewrite <- (app_nil_r (map TLit (la post))). apply gmatch_lits. exists []. split; [now rewrite app_nil_r|reflexivity].
Qed.
