(* Proofs/CfgLines.v — elementary facts about lines, significant lines, grouping and the
   subsequence test used by the C20 development (Model/CfgMerge.v). *)
From TL Require Import Lib.Base Lib.GenTypes Model.CfgTypes Gen.CfgToolGen Model.CfgMerge.
From Coq Require Import NArith.

(* ------------------------------------------------------------------ characters *)
Lemma hash_not_ws : is_ws "#" = false. Proof. reflexivity. Qed.
Lemma space_is_ws : is_ws " " = true. Proof. reflexivity. Qed.

Lemma ws_not_hash c : is_ws c = true -> Ascii.eqb c "#" = false.
Proof. destruct (Ascii.eqb_spec c "#") as [->|]; [discriminate|reflexivity]. Qed.

Lemma not_ws_not_space c : is_ws c = false -> Ascii.eqb c " " = false.
Proof. destruct (Ascii.eqb_spec c " ") as [->|]; [discriminate|reflexivity]. Qed.

Lemma letter_facts c : is_letter c = true ->
  Ascii.eqb c " " = false /\ Ascii.eqb c "-" = false /\ Ascii.eqb c "{" = false /\ is_key_char c = true.
Proof.
  destruct c as [[|] [|] [|] [|] [|] [|] [|] [|]]; vm_compute; intro H; try discriminate H; repeat split; reflexivity.
Qed.

(* ------------------------------------------------------------------ rstrip *)
Lemma rstrip_cons c r :
  rstrip (String c r) = match rstrip r with
                        | EmptyString => if is_ws c then EmptyString else String c EmptyString
                        | String d r' => String c (String d r')
                        end.
Proof. reflexivity. Qed.

Lemma rstrip_idem s : rstrip (rstrip s) = rstrip s.
Proof.
  induction s as [|c r IH]; [reflexivity|].
  rewrite rstrip_cons. destruct (rstrip r) as [|d r'] eqn:Hr.
  - destruct (is_ws c) eqn:Hc; [reflexivity|]. rewrite rstrip_cons. cbn [rstrip]. now rewrite Hc.
  - rewrite rstrip_cons, IH. reflexivity.
Qed.

Lemma rstrip_empty_not_comment r : rstrip r = EmptyString -> is_comment r = false.
Proof.
  induction r as [|c r IH]; [reflexivity|].
  cbn [rstrip is_comment]. destruct (rstrip r) as [|d r'] eqn:Hr.
  - destruct (is_ws c) eqn:Hc; [|discriminate]. intros _.
    destruct (Ascii.eqb c " "); [now apply IH|]. now apply ws_not_hash.
  - discriminate.
Qed.

Lemma is_comment_cons c r :
  is_comment (String c r) = if Ascii.eqb c " " then is_comment r else Ascii.eqb c "#".
Proof. reflexivity. Qed.

Lemma is_comment_rstrip l : is_comment (rstrip l) = is_comment l.
Proof.
  induction l as [|c r IH]; [reflexivity|].
  cbn [rstrip]. destruct (rstrip r) as [|d r'] eqn:Hr.
  - destruct (is_ws c) eqn:Hc.
    + cbn [is_comment]. rewrite (rstrip_empty_not_comment r Hr).
      destruct (Ascii.eqb c " "); [reflexivity|]. symmetry. now apply ws_not_hash.
    + cbn [is_comment]. now rewrite (not_ws_not_space c Hc).
  - rewrite (is_comment_cons c (String d r')), (is_comment_cons c r), IH. reflexivity.
Qed.

Lemma is_blank_rstrip l : is_blank (rstrip l) = is_blank l.
Proof. unfold is_blank. now rewrite rstrip_idem. Qed.

Lemma insignificant_rstrip l : insignificant (rstrip l) = insignificant l.
Proof. unfold insignificant. now rewrite is_blank_rstrip, is_comment_rstrip. Qed.

Lemma line_clean_rstrip l : line_clean l = true -> line_clean (rstrip l) = true.
Proof.
  induction l as [|c r IH]; [reflexivity|].
  cbn [line_clean rstrip]. intro H. apply andb_true_iff in H as [Hc Hr].
  destruct (rstrip r) as [|d r'] eqn:E.
  - destruct (is_ws c); [reflexivity|]. cbn [line_clean]. now rewrite Hc.
  - change (clean_char c && line_clean (String d r') = true). rewrite Hc. now apply IH.
Qed.

Lemma is_blank_empty : is_blank EmptyString = true. Proof. reflexivity. Qed.

(* ------------------------------------------------------------------ significant lines *)
Lemma sig_lines_app a b : sig_lines (a ++ b) = sig_lines a ++ sig_lines b.
Proof. unfold sig_lines. now rewrite filter_app, map_app. Qed.

Lemma sig_lines_cons l r :
  sig_lines (l :: r) = (if insignificant l then [] else [rstrip l]) ++ sig_lines r.
Proof. unfold sig_lines. cbn [filter]. destruct (insignificant l); reflexivity. Qed.

Lemma sig_lines_concat ts : sig_lines (List.concat ts) = List.concat (map sig_lines ts).
Proof. induction ts as [|t r IH]; [reflexivity|]. cbn [List.concat map]. now rewrite sig_lines_app, IH. Qed.

Lemma sig_rstrip_lines ls : sig_lines (rstrip_lines ls) = sig_lines ls.
Proof.
  induction ls as [|l r IH]; [reflexivity|].
  cbn [rstrip_lines]. destruct (rstrip_lines r) as [|x r'] eqn:Hr.
  - change (sig_lines []) with (@nil string) in IH. rewrite sig_lines_cons, <- IH, app_nil_r.
    destruct (is_blank l) eqn:Hb.
    + unfold insignificant. now rewrite Hb.
    + rewrite sig_lines_cons, insignificant_rstrip, rstrip_idem. change (sig_lines []) with (@nil string). now rewrite app_nil_r.
  - rewrite sig_lines_cons, IH. now rewrite sig_lines_cons.
Qed.

Lemma sig_rstrip_doc ls : sig_lines (rstrip_doc ls) = sig_lines ls.
Proof.
  unfold rstrip_doc. pose proof (sig_rstrip_lines ls) as H.
  destruct (rstrip_lines ls) as [|x r]; [|exact H]. now rewrite <- H.
Qed.

(* ------------------------------------------------------------------ non-blank lines *)
Lemma nonblank_app a b : nonblank (a ++ b) = nonblank a ++ nonblank b.
Proof. unfold nonblank. now rewrite map_app, filter_app. Qed.

Lemma nonblank_cons l r :
  nonblank (l :: r) = (if String.eqb (rstrip l) EmptyString then [] else [rstrip l]) ++ nonblank r.
Proof. unfold nonblank. cbn [map filter]. destruct (String.eqb (rstrip l) EmptyString); reflexivity. Qed.

Lemma is_blank_eqb l : is_blank l = String.eqb (rstrip l) EmptyString.
Proof. unfold is_blank. destruct (rstrip l); reflexivity. Qed.

Lemma nonblank_rstrip_lines ls : nonblank (rstrip_lines ls) = nonblank ls.
Proof.
  induction ls as [|l r IH]; [reflexivity|].
  cbn [rstrip_lines]. destruct (rstrip_lines r) as [|x r'] eqn:Hr.
  - change (nonblank []) with (@nil string) in IH. rewrite nonblank_cons, <- IH, app_nil_r.
    rewrite is_blank_eqb. destruct (String.eqb (rstrip l) EmptyString) eqn:Hb; [reflexivity|].
    rewrite nonblank_cons, rstrip_idem, Hb. reflexivity.
  - rewrite nonblank_cons, IH. now rewrite nonblank_cons.
Qed.

Lemma nonblank_rstrip_doc ls : nonblank (rstrip_doc ls) = nonblank ls.
Proof.
  unfold rstrip_doc. pose proof (nonblank_rstrip_lines ls) as H.
  destruct (rstrip_lines ls) as [|x r]; [|exact H]. now rewrite <- H.
Qed.

Lemma line_clean_rstrip_lines ls : forallb line_clean ls = true -> forallb line_clean (rstrip_lines ls) = true.
Proof.
  induction ls as [|l r IH]; [reflexivity|].
  cbn [forallb rstrip_lines]. intro H. apply andb_true_iff in H as [Hl Hr]. specialize (IH Hr).
  destruct (rstrip_lines r) as [|x r'].
  - destruct (is_blank l); [reflexivity|]. cbn [forallb]. now rewrite line_clean_rstrip.
  - change (line_clean l && forallb line_clean (x :: r') = true). now rewrite Hl.
Qed.

Lemma line_clean_rstrip_doc ls : forallb line_clean ls = true -> forallb line_clean (rstrip_doc ls) = true.
Proof.
  intro H. unfold rstrip_doc. pose proof (line_clean_rstrip_lines ls H) as H'.
  destruct (rstrip_lines ls); [reflexivity|exact H'].
Qed.

(* ------------------------------------------------------------------ grouping *)
Lemma group_app X Y : snd (group Y) = [] ->
  group (X ++ Y) = (fst (group X) ++ fst (group Y), snd (group X)).
Proof.
  intro HY. induction X as [|l X IH].
  - cbn [app group fst snd]. destruct (group Y) as [g o]. cbn [snd] in HY. now subst.
  - change ((l :: X) ++ Y) with (l :: (X ++ Y)). cbn [group]. rewrite IH.
    destruct (group X) as [g o]. cbn [fst snd]. destruct (toplevel l); reflexivity.
Qed.

Lemma group_cont b Z : forallb is_cont b = true ->
  group (b ++ Z) = (fst (group Z), b ++ snd (group Z)).
Proof.
  induction b as [|l b IH]; intro H.
  - cbn [app]. now destruct (group Z).
  - cbn [forallb] in H. apply andb_true_iff in H as [Hl Hb].
    change ((l :: b) ++ Z) with (l :: (b ++ Z)). cbn [group]. rewrite (IH Hb).
    unfold toplevel. rewrite Hl. reflexivity.
Qed.

Lemma group_head_top l r : toplevel l = true -> snd (group (l :: r)) = [].
Proof. intro H. cbn [group]. destruct (group r). now rewrite H. Qed.

Lemma group_head_fst l r : toplevel l = true ->
  exists o, fst (group (l :: r)) = (l, o) :: fst (group r).
Proof. intro H. cbn [group]. destruct (group r) as [g o]. rewrite H. now exists o. Qed.

(* ------------------------------------------------------------------ suffix / marker *)
Lemma strip_suffix_spec suf l p : strip_suffix suf l = Some p -> l = (p ++ suf)%string.
Proof.
  revert p. induction l as [|c r IH]; intro p; cbn [strip_suffix].
  - destruct (String.eqb_spec EmptyString suf) as [<-|]; [|discriminate]. intros [= <-]. reflexivity.
  - destruct (String.eqb_spec (String c r) suf) as [<-|].
    + intros [= <-]. reflexivity.
    + destruct (strip_suffix suf r) as [p'|]; [|discriminate]. cbn [option_map]. intros [= <-].
      cbn [String.append]. now rewrite (IH p' eq_refl).
Qed.

Lemma find_marker_spec E : forall off i pos p,
  find_marker E off = Some (i, pos, p) -> nth_error E i = Some (p ++ marker_line1)%string.
Proof.
  induction E as [|l r IH]; intros off i pos p; cbn [find_marker]; [discriminate|].
  set (next := match find_marker r (off + String.length l + 1) with Some (i0, pos0, p0) => Some (S i0, pos0, p0) | None => None end).
  assert (Hnext : next = Some (i, pos, p) -> nth_error (l :: r) i = Some (p ++ marker_line1)%string).
  { unfold next. destruct (find_marker r (off + String.length l + 1)) as [[[i0 pos0] p0]|] eqn:Hf; [|discriminate].
    intros [= <- <- <-]. cbn [nth_error]. now apply (IH _ _ _ _ Hf). }
  destruct (strip_suffix marker_line1 l) as [p'|] eqn:Hs; [|exact Hnext].
  destruct r as [|l2 r']; [exact Hnext|].
  destruct (prefix marker_line2_prefix l2); [|exact Hnext].
  intros [= <- <- <-]. cbn [nth_error]. now rewrite (strip_suffix_spec _ _ _ Hs).
Qed.

Lemma nth_error_split {A} (l : list A) i x : nth_error l i = Some x ->
  firstn (S i) l = firstn i l ++ [x] /\ l = firstn (S i) l ++ skipn (S i) l.
Proof.
  intro H. split; [|now rewrite firstn_skipn].
  revert l H. induction i as [|i IH]; intros [|y l] H; try discriminate.
  - cbn in H. injection H as ->. reflexivity.
  - cbn [nth_error] in H. cbn [firstn app]. f_equal. now apply IH.
Qed.

(* ------------------------------------------------------------------ subsequence test *)
Lemma subseqb_mono d :
  (forall y c, subseqb (y :: c) d = true -> subseqb c d = true) /\
  (forall c z, subseqb c d = true -> subseqb c (z :: d) = true).
Proof.
  induction d as [|z d [IH1 IH2]].
  - split; [intros y c H; discriminate H|].
    intros [|y c] z H; [reflexivity|discriminate H].
  - assert (H1 : forall y c, subseqb (y :: c) (z :: d) = true -> subseqb c (z :: d) = true).
    { intros y c H. cbn [subseqb] in H. destruct (String.eqb y z).
      - now apply IH2.
      - apply IH2. now apply (IH1 y). }
    split; [exact H1|].
    intros [|y c] w H; [reflexivity|].
    cbn [subseqb]. destruct (String.eqb y w); [|exact H].
    now apply (H1 y).
Qed.

Lemma subseqb_skip c z d : subseqb c d = true -> subseqb c (z :: d) = true.
Proof. apply (subseqb_mono d). Qed.

Lemma subseqb_nil_r a : subseqb a [] = true -> a = [].
Proof. destruct a; [reflexivity|discriminate]. Qed.

Lemma subseqb_app_l a c d : subseqb c d = true -> subseqb (a ++ c) (a ++ d) = true.
Proof. intro H. induction a as [|x a IH]; [exact H|]. cbn [app subseqb]. now rewrite String.eqb_refl. Qed.

Lemma subseqb_prepend b c : subseqb c (b ++ c) = true.
Proof.
  induction b as [|x b IH].
  - cbn [app]. induction c as [|y c IHc]; [reflexivity|]. cbn [subseqb]. now rewrite String.eqb_refl.
  - cbn [app]. now apply subseqb_skip.
Qed.

Lemma subseqb_refl a : subseqb a a = true.
Proof. exact (subseqb_prepend [] a). Qed.

Lemma subseqb_insert a b c : subseqb (a ++ c) (a ++ b ++ c) = true.
Proof. apply subseqb_app_l, subseqb_prepend. Qed.

Lemma subseqb_append a b : subseqb a (a ++ b) = true.
Proof. rewrite <- (app_nil_r a) at 1. apply subseqb_app_l. now destruct b. Qed.

(* ------------------------------------------------------------------ boolean list equalities *)
Lemma lines_eqb_refl a : lines_eqb a a = true.
Proof. induction a as [|x a IH]; [reflexivity|]. cbn [lines_eqb list_eqb]. rewrite String.eqb_refl. exact IH. Qed.

Lemma lines_eqb_eq a b : lines_eqb a b = true -> a = b.
Proof.
  revert b. induction a as [|x a IH]; intros [|y b] H; try discriminate; [reflexivity|].
  cbn [lines_eqb list_eqb] in H. apply andb_true_iff in H as [H1 H2].
  apply String.eqb_eq in H1. subst. f_equal. now apply IH.
Qed.

Lemma val_eqb_refl v : val_eqb v v = true.
Proof. destruct v as [[r b]|]; [|reflexivity]. cbn [val_eqb]. now rewrite String.eqb_refl, lines_eqb_refl. Qed.

Lemma entry_eqb_refl e : entry_eqb e e = true.
Proof. unfold entry_eqb. now rewrite !String.eqb_refl, lines_eqb_refl. Qed.
