(* Proofs/LocPat.v — C12 for the pattern-linter location models (Model/LocPat.v). *)
From TL Require Import Lib.Base Lib.GenTypes Model.LocTypes Gen.LocGen Gen.LocPatGen Model.Loc Model.Embed Model.LocPat
     Proofs.LocBase Proofs.LocPrint.

(* ------------------------------------------------------------------ (1) Python pattern linters *)
Lemma pat_walk_origin s sel : forall t r, In r (pat_walk s sel t) ->
  exists n, subtree n t /\ smem (ncls n) (ps_classes s) = true /\ sel n = true
            /\ r = (eval_line (ps_line s) (line (ninfo n) - 1), eval_col (ps_col s) (col (ninfo n)), nsval n).
Proof.
  induction t as [i ks IH] using ast_ind'. intros r H. cbn [pat_walk] in H. apply in_app_or in H. destruct H as [H|H].
  - unfold pat_emit in H. destruct (smem _ _) eqn:E1; cbn [andb] in H; [|destruct H].
    destruct (sel (Node i ks)) eqn:E2; [|destruct H]. destruct H as [<-|[]].
    exists (Node i ks). split; [apply subtree_refl|]. auto.
  - apply in_flat_map in H. destruct H as [x [Hx H]]. rewrite Forall_forall in IH.
    destruct (IH x Hx r H) as [n [Hs Hrest]]. exists n. split; [|exact Hrest].
    cbn [subtree]. right. clear - Hx Hs. induction ks as [|y ys IHys]; [destruct Hx|].
    destruct Hx as [->|Hx]; [now left|right; now apply IHys].
Qed.

(* every violation the model emits - whatever the detector selects - carries the position computed from a node of
   the file that is of the class read from the source, and quotes that node's name *)
Theorem pat_location_recorded s sel file r : In r (pat_reports s sel file) ->
  exists t n, In t file /\ subtree n t /\ smem (ncls n) (ps_classes s) = true /\ sel n = true
              /\ r = (eval_line (ps_line s) (line (ninfo n) - 1), eval_col (ps_col s) (col (ninfo n)), nsval n).
Proof.
  unfold pat_reports. intros H. apply in_flat_map in H. destruct H as [t [Ht H]].
  destruct (pat_walk_origin s sel t r H) as [n Hn]. exists t, n. tauto.
Qed.

(* generated facts: the four linters, their node classes, and that each passes lineno on and reports col_offset or 0 *)
Lemma pat_sites_fact :
  map (fun k => option_map (fun s => (ps_classes s, ps_line s, ps_col s)) (site_of k)) ["lbyl"; "method-property"; "stateless-class"; "collection-pipeline"]
  = [Some (["If"], LBase1 0, CNode 0); Some (["FunctionDef"], LBase1 0, CNode 0); Some (["ClassDef"], LBase1 0, CNode 0);
     Some (["For"], LBase1 0, CConst 0)].
Proof. reflexivity. Qed.

Lemma pat_sites_fact2 :
  map (fun k => option_map (fun s => (ps_classes s, ps_line s, ps_col s)) (site_of k)) ["cqs"; "perf-concat"; "perf-regex"]
  = [Some (["FunctionDef"; "AsyncFunctionDef"], LBase1 0, CNode 0); Some (["AugAssign"], LBase1 0, CNode 0); Some (["Call"], LBase1 0, CNode 0)].
Proof. reflexivity. Qed.

Lemma pat_sites_convert : forallb (fun r => let '(_, _, le, ce) := r in conv_ok le && col_plain ce) pat_sites = true.
Proof. vm_compute. reflexivity. Qed.

Lemma lookup_site_in k l s : lookup_site k l = Some s -> In (k, ps_classes s, ps_line s, ps_col s) l.
Proof.
  induction l as [|[[[k' cl] le] ce] r IH]; cbn [lookup_site]; [discriminate|].
  destruct (String.eqb_spec k k') as [->|_]; [intros [= <-]; now left|intros H; right; now apply IH].
Qed.

(* the reported line IS the lineno of the node (a 1-based parser line), the column its col_offset or a constant *)
Theorem pat_reports_node_line linter s sel file l c name : site_of linter = Some s -> In (l, c, name) (pat_reports s sel file) ->
  exists t n, In t file /\ subtree n t /\ smem (ncls n) (ps_classes s) = true /\ name = nsval n
              /\ (1 <= line (ninfo n) -> l = line (ninfo n))
              /\ (c = col (ninfo n) \/ exists k, ps_col s = CConst k /\ c = k).
Proof.
  intros Hs H. destruct (pat_location_recorded _ _ _ _ H) as [t [n [Ht [Hsub [Hc [_ E]]]]]].
  injection E as -> -> ->. exists t, n. split; [exact Ht|]. split; [exact Hsub|]. split; [exact Hc|]. split; [reflexivity|].
  apply lookup_site_in in Hs. pose proof (proj1 (forallb_forall _ _) pat_sites_convert _ Hs) as F. cbn beta iota in F.
  apply Bool.andb_true_iff in F. destruct F as [F1 F2]. split.
  - intros Hpos. destruct (ps_line s) as [o|o|k]; cbn [conv_ok eval_line] in *; try discriminate; apply Nat.eqb_eq in F1; lia.
  - destruct (ps_col s) as [o|k]; cbn [col_plain eval_col] in *.
    + left. apply Nat.eqb_eq in F2. lia.
    + right. now exists k.
Qed.

(* the judge: an accepted implementation report sits at the position of a node of the right class (name matching) *)
Theorem pat_hit_sound s file l c name : pat_hit s file (l, c, name) = true ->
  exists t n, In t file /\ subtree n t /\ smem (ncls n) (ps_classes s) = true
              /\ l = eval_line (ps_line s) (line (ninfo n) - 1) /\ c = eval_col (ps_col s) (col (ninfo n)) /\ (name = "" \/ name = nsval n).
Proof.
  unfold pat_hit. intros H. apply existsb_exists in H. destruct H as [[[l' c'] n'] [Hin Hm]].
  apply Bool.andb_true_iff in Hm. destruct Hm as [Hm Hn]. apply Bool.andb_true_iff in Hm. destruct Hm as [Hl Hc].
  apply Nat.eqb_eq in Hl. apply Nat.eqb_eq in Hc. subst l' c'.
  destruct (pat_location_recorded _ _ _ _ Hin) as [t [n [Ht [Hs [Hcl [_ E]]]]]]. injection E as -> -> ->.
  exists t, n. repeat (split; [assumption || reflexivity|]).
  apply Bool.orb_true_iff in Hn. destruct Hn as [Hn|Hn]; apply String.eqb_eq in Hn; auto.
Qed.

(* ------------------------------------------------------------------ (2) the TypeScript console detector *)
Section TnodeInd.
  Variable P : tnode -> Prop.
  Hypothesis H : forall ty row col text ks, Forall P ks -> P (TN ty row col text ks).
  Fixpoint tnode_ind' (n : tnode) : P n :=
    match n with
    | TN ty row col text ks =>
      H ty row col text ks ((fix go (l : list tnode) : Forall P l :=
                               match l with [] => Forall_nil P | x :: xs => Forall_cons x (tnode_ind' x) (go xs) end) ks)
    end.
End TnodeInd.

Fixpoint tsub (n : tnode) (t : tnode) : Prop :=
  n = t \/ match t with TN _ _ _ _ ks => (fix any (l : list tnode) : Prop := match l with [] => False | x :: xs => tsub n x \/ any xs end) ks end.
Lemma tsub_refl n : tsub n n.
Proof. destruct n. cbn [tsub]. now left. Qed.
Lemma tsub_kid n x ty row col text ks : In x ks -> tsub n x -> tsub n (TN ty row col text ks).
Proof.
  intros Hx Hs. cbn [tsub]. right. induction ks as [|y ys IH]; [destruct Hx|]. destruct Hx as [->|Hx]; [now left|right; now apply IH].
Qed.
Lemma tsub_inv n ty row col text ks : tsub n (TN ty row col text ks) -> n = TN ty row col text ks \/ exists x, In x ks /\ tsub n x.
Proof.
  cbn [tsub]. intros [H|H]; [now left|right]. induction ks as [|y ys IH]; [destruct H|].
  destruct H as [H|H]; [exists y; split; [now left|exact H]|]. destruct (IH H) as [x [Hx Hs]]. exists x. split; [now right|exact Hs].
Qed.

(* a call node is a console call with method m: `console` `.` `m` under a member_expression that is the first one *)
Definition is_console_call (methods : list string) (n : tnode) (m : string) : Prop :=
  tty n = console_call_type /\ console_method methods n = Some m.

Lemma console_method_spec methods n m : console_method methods n = Some m <->
  exists f o p, first_child console_member_type n = Some f /\ first_child console_object_type f = Some o
                /\ ttext o = console_object_name /\ first_child console_property_type f = Some p /\ ttext p = m /\ smem m methods = true.
Proof.
  unfold console_method. split.
  - destruct (first_child console_member_type n) as [f|] eqn:E1; [|discriminate].
    destruct (first_child console_object_type f) as [o|] eqn:E2; [|discriminate].
    destruct (String.eqb_spec (ttext o) console_object_name) as [Eo|]; [|discriminate].
    destruct (first_child console_property_type f) as [p|] eqn:E3; [|discriminate].
    destruct (smem (ttext p) methods) eqn:Em; [|discriminate]. intros [= <-]. exists f, o, p. repeat split; auto.
  - intros [f [o [p [-> [-> [Eo [-> [<- Em]]]]]]]]. rewrite Eo, String.eqb_refl, Em. reflexivity.
Qed.

(* EXACT: the detector reports precisely the console calls of the tree, each at (row + 1, 0) with its method name *)
Theorem console_reports_exact methods root r : In r (console_collect methods root) <->
  exists n m, tsub n root /\ is_console_call methods n m /\ r = (eval_line console_line (trow n), eval_col console_col (tcol n), m).
Proof.
  revert r. induction root as [ty row col text ks IH] using tnode_ind'. intros r. cbn [console_collect]. rewrite in_app_iff. split.
  - intros [H|H].
    + revert H. destruct (String.eqb_spec ty console_call_type) as [Ety|]; [|intros []].
      destruct (console_method methods _) as [m|] eqn:Em; [|intros []]. intros [<-|[]].
      exists (TN ty row col text ks), m. split; [apply tsub_refl|]. split; [split; [exact Ety|exact Em]|reflexivity].
    + apply in_flat_map in H. destruct H as [x [Hx H]]. rewrite Forall_forall in IH.
      destruct (proj1 (IH x Hx r) H) as [n [m [Hs Hrest]]]. exists n, m. split; [eapply tsub_kid; eassumption|exact Hrest].
  - intros [n [m [Hs [[Ety Em] ->]]]]. apply tsub_inv in Hs. destruct Hs as [->|[x [Hx Hs]]].
    + left. cbn [tty] in Ety. subst ty. rewrite String.eqb_refl, Em. now left.
    + right. apply in_flat_map. exists x. split; [exact Hx|]. rewrite Forall_forall in IH. apply (IH x Hx). exists n, m. repeat split; assumption.
Qed.

(* generated facts: row + 1, column 0, the node types of the TypeScript grammar, the default methods *)
Lemma console_facts :
  console_line = LBase0 1 /\ console_col = CConst 0 /\ console_call_type = "call_expression" /\ console_member_type = "member_expression"
  /\ console_object_type = "identifier" /\ console_object_name = "console" /\ console_property_type = "property_identifier"
  /\ console_default_methods = ["debug"; "error"; "info"; "log"; "warn"].
Proof. repeat split; reflexivity. Qed.

Corollary console_report_position methods root l c m : In (l, c, m) (console_collect methods root) ->
  exists n, tsub n root /\ tty n = "call_expression" /\ l = trow n + 1 /\ c = 0 /\ smem m methods = true.
Proof.
  intros H. apply console_reports_exact in H. destruct H as [n [m' [Hs [[Ety Em] E]]]].
  destruct console_facts as [Fl [Fc [Ft _]]]. rewrite Fl, Fc in E. cbn [eval_line eval_col] in E. injection E as -> -> ->.
  exists n. rewrite <- Ft. split; [exact Hs|]. split; [exact Ety|]. split; [reflexivity|]. split; [reflexivity|].
  apply console_method_spec in Em. destruct Em as [f [o [p [_ [_ [_ [_ [_ Hm]]]]]]]]. exact Hm.
Qed.
