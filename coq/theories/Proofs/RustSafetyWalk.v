(* Proofs/RustSafetyWalk.v — simulation between two instances of the context-passing traversal
   (Model/RustSafetyTypes.v::walk): if a relation R between the two contexts is established by every
   descent and makes the node-local reports equal, the two walks report the same list.  A guard
   (a boolean predicate evaluated top-down with its own small context) restricts the trees; below a
   point where the first walk stops descending (`cut`) the second one must be silent. *)
From TL Require Import Lib.Base Model.RustSafetyTypes.

Section Sim.
  Context {C1 C2 G : Type}.
  Variable push1 : C1 -> kind -> nat -> list node -> option C1.
  Variable emit1 : C1 -> kind -> list node -> list rep.
  Variable push2 : C2 -> kind -> nat -> list node -> option C2.
  Variable emit2 : C2 -> kind -> list node -> list rep.
  Variable gpush : G -> kind -> nat -> G.
  Variable gok : G -> kind -> list node -> bool.
  Variable R : G -> C1 -> C2 -> Prop.
  Variable cut : G -> bool.

  Fixpoint guard (g : G) (n : node) : bool :=
    match n with
    | N k cs =>
      gok g k cs &&
      (fix go (i : nat) (l : list node) : bool :=
         match l with [] => true | x :: r => guard (gpush g k i) x && go (S i) r end) 0 cs
    end.
  Definition guard_kids (g : G) (k : kind) : nat -> list node -> bool :=
    fix go (i : nat) (l : list node) : bool :=
      match l with [] => true | x :: r => guard (gpush g k i) x && go (S i) r end.

  Lemma guard_eq g k cs : guard g (N k cs) = gok g k cs && guard_kids g k 0 cs.
  Proof. reflexivity. Qed.
  Lemma walk_eq {C} (push : C -> kind -> nat -> list node -> option C) emit c k cs :
    walk push emit c (N k cs) = emit c k cs ++ walk_kids push emit c k 0 cs.
  Proof. reflexivity. Qed.

  Hypothesis Hemit : forall g c1 c2 k cs, R g c1 c2 -> gok g k cs = true -> emit1 c1 k cs = emit2 c2 k cs.
  Hypothesis Hpush : forall g c1 c2 k cs i rest, R g c1 c2 -> gok g k cs = true ->
    match push2 c2 k i rest with
    | None => False
    | Some c2' => match push1 c1 k i rest with
                  | Some c1' => R (gpush g k i) c1' c2'
                  | None => cut (gpush g k i) = true
                  end
    end.
  Hypothesis Hcut_emit : forall g c2 k cs, cut g = true -> gok g k cs = true -> emit2 c2 k cs = [].
  Hypothesis Hcut_push : forall g k i, cut g = true -> cut (gpush g k i) = true.

  Lemma silent : forall n g c2, cut g = true -> guard g n = true -> walk push2 emit2 c2 n = [].
  Proof.
    induction n as [k cs IH] using node_ind'. intros g c2 Hc Hg.
    rewrite guard_eq in Hg. apply andb_true_iff in Hg as [Hk Hkids].
    rewrite walk_eq, (Hcut_emit g c2 k cs Hc Hk). cbn [app].
    clear Hk. revert Hkids. generalize 0 as i.
    induction IH as [|x xs Hx _ IHxs]; intros i Hkids; [reflexivity|].
    cbn [walk_kids guard_kids] in *. apply andb_true_iff in Hkids as [Gx Gxs].
    fold (walk_kids push2 emit2 c2 k). fold (guard_kids g k) in Gxs.
    rewrite (IHxs (S i) Gxs), app_nil_r.
    destruct (push2 c2 k i xs) as [c2'|]; [|reflexivity].
    apply (Hx (gpush g k i) c2'); [apply Hcut_push; exact Hc|exact Gx].
  Qed.

  Theorem walk_sim : forall n g c1 c2, R g c1 c2 -> guard g n = true ->
    walk push1 emit1 c1 n = walk push2 emit2 c2 n.
  Proof.
    induction n as [k cs IH] using node_ind'. intros g c1 c2 HR Hg.
    rewrite guard_eq in Hg. apply andb_true_iff in Hg as [Hk Hkids].
    rewrite !walk_eq, (Hemit g c1 c2 k cs HR Hk). f_equal.
    assert (P : forall i rest, match push2 c2 k i rest with
                               | None => False
                               | Some c2' => match push1 c1 k i rest with
                                             | Some c1' => R (gpush g k i) c1' c2'
                                             | None => cut (gpush g k i) = true
                                             end
                               end) by (intros i rest; exact (Hpush g c1 c2 k cs i rest HR Hk)).
    clear Hk. revert Hkids. generalize 0 as i.
    induction IH as [|x xs Hx _ IHxs]; intros i Hkids; [reflexivity|].
    cbn [walk_kids guard_kids] in *. apply andb_true_iff in Hkids as [Gx Gxs].
    fold (walk_kids push1 emit1 c1 k). fold (walk_kids push2 emit2 c2 k). fold (guard_kids g k) in Gxs.
    rewrite (IHxs (S i) Gxs). f_equal.
    specialize (P i xs).
    destruct (push2 c2 k i xs) as [c2'|]; [|contradiction].
    destruct (push1 c1 k i xs) as [c1'|].
    - exact (Hx (gpush g k i) c1' c2' P Gx).
    - symmetry. exact (silent x (gpush g k i) c2' P Gx).
  Qed.

  Corollary walk_file_sim : forall file g c1 c2, R g c1 c2 -> forallb (guard g) file = true ->
    walk_file push1 emit1 c1 file = walk_file push2 emit2 c2 file.
  Proof.
    induction file as [|n ns IH]; intros g c1 c2 HR Hg; [reflexivity|].
    cbn [forallb] in Hg. apply andb_true_iff in Hg as [Hn Hns].
    unfold walk_file. cbn [flat_map]. fold (walk_file push1 emit1 c1 ns). fold (walk_file push2 emit2 c2 ns).
    now rewrite (walk_sim n g c1 c2 HR Hn), (IH g c1 c2 HR Hns).
  Qed.
End Sim.
