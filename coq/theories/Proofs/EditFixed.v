(* Proofs/EditFixed.v — C13: the byte-order mark after fix bbc2cf4 (the codec of FileLintContext.file_content is read from the
   source; the claimed vector follows it).  With the flag off a mark in front of the file is invisible to every text-level step
   of the model, and the old witnesses of the finding q_bom_kept now meet the specification under the claimed vector. *)
From TL Require Import Lib.Base Lib.GenTypes Model.PyStr Model.Edit Gen.EditGen Model.EditRun Actual.EditActual.

Lemma strip_bom_add l : strip_bom (bom ++ l) = l.
Proof. reflexivity. Qed.

(* the text the rules receive does not depend on a byte-order mark in front of the file *)
Theorem bom_invisible q l r : e_bom_kept q = false -> prefixb bom l = false ->
  seen q (apply AddBOM (l :: r)) = seen q (l :: r).
Proof.
  intros Hq Hl. unfold seen. rewrite Hq. cbn [apply]. rewrite strip_bom_add. unfold strip_bom. now rewrite Hl.
Qed.

(* hence tokens, lines of code and suppression decisions of the model, which all start from `seen` *)
Corollary bom_invisible_tokens q lang docs l r : e_bom_kept q = false -> prefixb bom l = false ->
  tokens_model q lang docs (apply AddBOM (l :: r)) = tokens_model q lang docs (l :: r).
Proof. intros Hq Hl. unfold tokens_model. now rewrite (bom_invisible q l r Hq Hl). Qed.

Corollary bom_invisible_loc q kind l r start len : e_bom_kept q = false -> prefixb bom l = false ->
  loc_model q kind (apply AddBOM (l :: r)) start len = loc_model q kind (l :: r) start len.
Proof. intros Hq Hl. unfold loc_model. now rewrite (bom_invisible q l r Hq Hl). Qed.

Corollary bom_invisible_ignore q l r qs : e_bom_kept q = false -> prefixb bom l = false ->
  ignore_model q (apply AddBOM (l :: r)) qs = ignore_model q (l :: r) qs.
Proof. intros Hq Hl. unfold ignore_model. now rewrite (bom_invisible q l r Hq Hl). Qed.

(* the claimed vector has the flag off because the source says so *)
Lemma actual_bom_off : e_bom_kept edit_actual = false.
Proof. reflexivity. Qed.

(* regressions: the old witnesses of q_bom_kept under the claimed vector *)
Example bom_tokens_old_witness :
  let f := ["import os"; "x = 1"; "y = 2"] in
  tokens_model edit_actual 0 [] (apply AddBOM f) = tokens_model edit_actual 0 [] f.
Proof. exact (bom_invisible_tokens edit_actual 0 [] "import os" ["x = 1"; "y = 2"] actual_bom_off eq_refl). Qed.

Example bom_first_line_directive_old_witness :
  let f := ["// thailint: ignore-start nesting"; "function g(x) {"; "// thailint: ignore-end"] in
  ignore_model edit_actual (apply AddBOM f) [(2, "nesting.excessive-depth")] = [true] /\
  ignore_model edit_actual f [(2, "nesting.excessive-depth")] = [true].
Proof. vm_compute. split; reflexivity. Qed.
