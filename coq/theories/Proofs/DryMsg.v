(* Proofs/DryMsg.v — the line count that ViolationFilter._extract_line_count / ViolationGenerator._extract_line_count
   parse back out of a violation message is the count the message was built from, for every violation.
   (The model passes v_count directly where the code re-parses the message; this theorem justifies it.
   It uses the message format, the `(` / ` lines` delimiters and the +1 offset found in the source.) *)
From TL Require Import Lib.Base Lib.GenTypes Model.DryBase Model.DryPipe Gen.DryGen Model.Dry.
From Coq Require Import DecimalString Decimal DecimalNat.

Fixpoint all_digits (s : string) : Prop :=
  match s with
  | EmptyString => True
  | String c s' => Ascii.eqb " " c = false /\ Ascii.eqb "(" c = false /\ all_digits s'
  end.

Lemma string_of_uint_digits d : all_digits (NilEmpty.string_of_uint d).
Proof. induction d; cbn [NilEmpty.string_of_uint all_digits]; auto. Qed.

Lemma show_nat_digits n : all_digits (show_nat n).
Proof. apply string_of_uint_digits. Qed.

Lemma parse_show n : parse_nat (show_nat n) = Some n.
Proof. unfold parse_nat, show_nat. rewrite NilEmpty.usu. cbn [option_map]. rewrite Unsigned.of_to. reflexivity. Qed.

Lemma index_close_after_digits : forall d X, all_digits d -> index_of " lines" X = Some 0 ->
  index_of " lines" (d ++ X) = Some (String.length d).
Proof.
  induction d as [|c d IH]; intros X H HX; [exact HX|].
  cbn [all_digits] in H. destruct H as [Hs [_ Hd]].
  cbn [String.append String.length]. cbn [index_of]. cbn [str_prefix]. rewrite Hs. cbn [andb]. rewrite (IH X Hd HX). reflexivity.
Qed.

Lemma substring_prefix : forall d r, substring 0 (String.length d) (d ++ r) = d.
Proof. induction d as [|c d IH]; intros r; [destruct r; reflexivity|]. cbn [String.append String.length substring]. f_equal. apply IH. Qed.

Lemma sappend_assoc : forall a b c : string, ((a ++ b) ++ c)%string = (a ++ (b ++ c))%string.
Proof. induction a as [|x a IH]; intros b c; [reflexivity|]. cbn [String.append]. f_equal. apply IH. Qed.

Lemma idx_open Y : index_of "(" ("Duplicate code (" ++ Y) = Some 15.
Proof. reflexivity. Qed.

Lemma idx_close_prefix Y : index_of " lines" ("Duplicate code (" ++ Y) = option_map (Nat.add 16) (index_of " lines" Y).
Proof.
  cbn [String.append index_of str_prefix Ascii.eqb Bool.eqb andb]. destruct (index_of " lines" Y); reflexivity.
Qed.

Lemma substring_skip16 n Y : substring 16 n ("Duplicate code (" ++ Y) = substring 0 n Y.
Proof. reflexivity. Qed.

Lemma sconcat_cons x l : sconcat (x :: l) = (x ++ sconcat l)%string.
Proof. reflexivity. Qed.

Theorem extract_roundtrip paths v : extract_line_count (v_message paths v) = Some (v_count v).
Proof.
  unfold v_message, extract_line_count.
  set (locs := map (ref_text paths) (v_refs v)).
  set (tail := match locs with [] => ""%string | _ :: _ => render_dmsg dry_msg_locs (v_count v) (v_occ v) locs end).
  (* the head of the message, spelled out from the format found in the source *)
  assert (Hhead : render_dmsg dry_msg_head (v_count v) (v_occ v) locs
                  = ("Duplicate code (" ++ show_nat (v_count v) ++ " lines" ++ ", " ++ show_nat (v_occ v) ++ " occurrences)")%string).
  { unfold render_dmsg. cbn [dry_msg_head map]. rewrite !sconcat_cons. cbn [sconcat fold_right]. cbn [String.append]. reflexivity. }
  rewrite Hhead. set (d := show_nat (v_count v)). set (rest := (", " ++ show_nat (v_occ v) ++ " occurrences)")%string).
  assert (Hd : all_digits d) by apply show_nat_digits.
  replace (("Duplicate code (" ++ d ++ " lines" ++ rest) ++ tail)%string
    with ("Duplicate code (" ++ (d ++ " lines" ++ (rest ++ tail)))%string.
  2:{ rewrite !sappend_assoc. reflexivity. }
  unfold dry_count_open, dry_count_close, dry_count_open_off.
  rewrite idx_open, idx_close_prefix.
  rewrite (index_close_after_digits d (" lines" ++ (rest ++ tail)) Hd eq_refl). cbn [option_map].
  replace (16 + String.length d - (15 + 1)) with (String.length d) by lia.
  change (15 + 1) with 16. rewrite substring_skip16. rewrite substring_prefix. apply parse_show.
Qed.
