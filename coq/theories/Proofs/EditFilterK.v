(* Proofs/EditFilterK.v — witnesses of the three defects of the DRY block filters under the edits of property C13 (the flags of
   Model/EditFilter.v that are on in the claimed vector).  Used by Props/C13Known.v only. *)
From TL Require Import Lib.Base Lib.GenTypes Model.PyStr Model.DryBase Model.DryFilter Gen.DryGen Model.DryPipe Model.Dry Gen.EditGen
     Model.Edit Model.EditFilter Proofs.EditFilterP.

(* f_kwarg_raw_lines: a blank line (or a comment line) inside a block of keyword arguments lowers the share below 80% *)
Theorem kwarg_blank_refuted :
  decisions fq_actual "#" logger_match kw_file [(1, 6)] 2 4 = [true; false; false; false] /\
  decisions fq_actual "#" logger_match (ins 2 "" kw_file) (calls_ins 2 [(1, 6)]) (shift_ins 2 2) (shift_ins 2 4) = [false; false; false; false] /\
  decisions fq_actual "#" logger_match (ins 2 "    # the defaults" kw_file) (calls_ins 2 [(1, 6)]) (shift_ins 2 2) (shift_ins 2 4)
  = [false; false; false; false] /\
  decisions fq_ideal "#" logger_match (ins 2 "    # the defaults" kw_file) (calls_ins 2 [(1, 6)]) (shift_ins 2 2) (shift_ins 2 4)
  = [true; false; false; false].
Proof. vm_compute. repeat split; reflexivity. Qed.

(* f_reraise_counts_comments: a comment between `except ..:` and `raise .. from ..` makes three lines of the pair *)
Definition rr_file : list string := ["try:"; "    step()"; "except ValueError as exc:"; "    raise StepError(name) from exc"].
Theorem reraise_comment_refuted :
  decisions fq_actual "#" logger_match rr_file [] 3 4 = [false; false; false; true] /\
  decisions fq_actual "#" logger_match (ins 3 "    # keep the cause" rr_file) [] (shift_ins 3 3) (shift_ins 3 4) = [false; false; false; false] /\
  decisions fq_ideal "#" logger_match (ins 3 "    # keep the cause" rr_file) [] (shift_ins 3 3) (shift_ins 3 4) = [false; false; false; true].
Proof. vm_compute. repeat split; reflexivity. Qed.

(* f_kwarg_trailing_ws: `gamma =` (value on the next line) is not a keyword-argument line, `gamma =  ` is: 3 of 5 becomes 4 of 5 *)
Definition kw_file2 : list string :=
  ["r = make("; "    alpha=1,"; "    beta=2,"; "    gamma ="; "        3,"; "    delta=4,"; ")"].
Theorem kwarg_trailing_ws_refuted :
  decisions fq_actual "#" logger_match kw_file2 [(1, 7)] 2 6 = [false; false; false; false] /\
  decisions fq_actual "#" logger_match (upd 3 (fun l => (l ++ "  ")%string) kw_file2) [(1, 7)] 2 6 = [true; false; false; false] /\
  Forall2 ws_var kw_file2 (upd 3 (fun l => (l ++ "  ")%string) kw_file2).
Proof. split; [vm_compute; reflexivity|]. split; [vm_compute; reflexivity|]. repeat constructor. Qed.
