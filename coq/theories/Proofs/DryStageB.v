(* Proofs/DryStageB.v — rows -> report, for the reference parameters (Model/DrySpec.v ref_bparams):
   soundness of the reported blocks, mutuality (domination), completeness, the occurrence count is the
   largest number of pairwise non-overlapping places, no shared snippet => empty report.
   Everything is stated for an arbitrary well-formed list of stored rows (rows_ok), so it also covers
   the rows that survive the block filters. *)
From TL Require Import Lib.Base Lib.GenTypes Model.DryBase Model.DryPipe Model.DrySpec Proofs.DryGreedy.
From Coq Require Import Sorting.Sorted.

Definition row_lt (a b : row) : Prop := r_file a < r_file b \/ (r_file a = r_file b /\ r_start a < r_start b).

(* what `ORDER BY file_path, start_line` and the rolling windows guarantee *)
Record rows_ok (rows : list row) : Prop := {
  ro_sorted : StronglySorted row_lt rows;
  ro_range : forall r, In r rows -> r_start r <= r_end r;
  ro_mono : forall a b, In a rows -> In b rows -> r_file a = r_file b -> r_start a < r_start b -> r_end a < r_end b }.

Notation RB := ref_bparams.
Notation rplaces := (places ref_bparams).

Lemma row_lt_irrefl a : ~ row_lt a a.
Proof. unfold row_lt. lia. Qed.

Lemma rows_key_unique rows a b : rows_ok rows -> In a rows -> In b rows ->
  r_file a = r_file b -> r_start a = r_start b -> a = b.
Proof.
  intros Hok Ha Hb Hf Hs. destruct (ss_total row_lt rows (ro_sorted _ Hok) a b Ha Hb) as [E|[H|H]]; [exact E| |]; unfold row_lt in H; lia.
Qed.

Lemma rows_nodup rows : rows_ok rows -> NoDup rows.
Proof. intros Hok. exact (ss_nodup row_lt row_lt_irrefl rows (ro_sorted _ Hok)). Qed.

(* ------------------------------------------------------------------ blocks *)
Lemma blk_ovl_spec a b : blk_ovl RB a b = true <-> r_file a = r_file b /\ r_start a <= r_end b /\ r_start b <= r_end a.
Proof.
  unfold blk_ovl. cbn [p_blocks_overlap ref_bparams]. rewrite !andb_true_iff, Nat.eqb_eq, !Nat.leb_le. tauto.
Qed.

Lemma blk_ovl_false a b : blk_ovl RB a b = false -> row_disjoint a b.
Proof.
  intros H. unfold row_disjoint. destruct (Nat.eq_dec (r_file a) (r_file b)) as [E|E]; [|left; exact E].
  destruct (le_lt_dec (r_start a) (r_end b)) as [L1|L1]; [|right; right; exact L1].
  destruct (le_lt_dec (r_start b) (r_end a)) as [L2|L2]; [|right; left; exact L2].
  assert (blk_ovl RB a b = true) by (apply blk_ovl_spec; auto). congruence.
Qed.

Lemma blocks_of_in s rows r : In r (blocks_of s rows) <-> In r rows /\ r_snip r = s.
Proof. unfold blocks_of, same_snip. rewrite filter_In, String.eqb_eq. reflexivity. Qed.

Lemma places_incl s rows p : In p (rplaces s rows) -> In p rows /\ r_snip p = s.
Proof. intros H. apply greedy_incl in H. apply blocks_of_in. exact H. Qed.

Lemma blocks_sorted s rows : rows_ok rows -> StronglySorted row_lt (blocks_of s rows).
Proof. intros Hok. apply ss_filter. exact (ro_sorted _ Hok). Qed.

(* every occurrence is a place or overlaps an earlier place of the same file *)
Lemma places_dom s rows r : rows_ok rows -> In r rows -> r_snip r = s ->
  exists p, In p (rplaces s rows) /\ r_file p = r_file r /\ r_start p <= r_start r /\ r_start r <= r_end p.
Proof.
  intros Hok Hr Hs.
  assert (Hb : In r (blocks_of s rows)) by (apply blocks_of_in; auto).
  destruct (greedy_dom (blk_ovl RB) row_lt (blocks_of s rows) [] (blocks_sorted s rows Hok) (fun k y (H : In k []) _ => match H with end) r Hb)
    as [H|[k [[[]|Hk] [Ho Hlt]]]].
  - exists r. split; [exact H|]. split; [reflexivity|]. split; [lia|]. exact (ro_range _ Hok r Hr).
  - exists k. split; [exact Hk|]. apply blk_ovl_spec in Ho. destruct Ho as [Hf [H1 H2]].
    unfold row_lt in Hlt. split; [lia|]. split; lia.
Qed.

Lemma places_disjoint s rows : rows_ok rows -> disjoint_occurrences rows s (rplaces s rows).
Proof.
  intros Hok.
  destruct (greedy_indep (blk_ovl RB) (blocks_of s rows) []) as [_ Hfop].
  assert (Hnd : NoDup (rplaces s rows)).
  { assert (Hin : forall a, In a (rplaces s rows) -> blk_ovl RB a a = true).
    { intros a Ha. apply blk_ovl_spec. pose proof (ro_range _ Hok a (proj1 (places_incl s rows a Ha))). lia. }
    unfold places in *. revert Hin. induction Hfop as [|x l Hx Hl IH]; intros Hin; constructor.
    - intros Hxl. rewrite Forall_forall in Hx. specialize (Hx x Hxl). rewrite (Hin x (or_introl eq_refl)) in Hx. discriminate.
    - apply IH. intros a Ha. apply Hin. right. exact Ha. }
  split; [exact Hnd|]. split; [intros p Hp; exact (places_incl s rows p Hp)|].
  intros a b Ha Hb Hne.
  destruct (fop_in (fun a b => blk_ovl RB b a = false) _ Hfop Hnd a b Ha Hb Hne) as [H|H]; apply blk_ovl_false in H; [|exact H].
  unfold row_disjoint in *. destruct H as [H|[H|H]]; [left; congruence|right; right; exact H|right; left; exact H].
Qed.

(* the left-to-right choice is a largest set of pairwise non-overlapping occurrences *)
Definition stays_ahead (p g : row) : bool :=
  (r_file g =? r_file p) && (r_start g <=? r_start p) && (r_start p <=? r_end g).

Lemma places_optimal s rows ps : rows_ok rows -> disjoint_occurrences rows s ps ->
  List.length ps <= List.length (rplaces s rows).
Proof.
  intros Hok [Hnd [Hocc Hdis]].
  set (G := rplaces s rows).
  set (f := fun p => match find (stays_ahead p) G with Some g => g | None => p end).
  assert (Hf : forall p, In p ps -> In (f p) G /\ stays_ahead p (f p) = true).
  { intros p Hp. destruct (Hocc p Hp) as [Hpr Hps].
    destruct (places_dom s rows p Hok Hpr Hps) as [g [Hg [Hgf [H1 H2]]]].
    unfold f. destruct (find (stays_ahead p) G) as [g'|] eqn:E.
    - apply find_some in E. exact E.
    - exfalso. pose proof (find_none _ _ E g Hg) as Hn. unfold stays_ahead in Hn.
      rewrite (proj2 (Nat.eqb_eq _ _) Hgf), (proj2 (Nat.leb_le _ _) H1), (proj2 (Nat.leb_le _ _) H2) in Hn. discriminate. }
  apply (inj_map_length f ps G Hnd); [|intros a Ha; exact (proj1 (Hf a Ha))].
  intros a b Ha Hb Hfab.
  destruct (Hf a Ha) as [Hga Hsa]. destruct (Hf b Hb) as [Hgb Hsb]. rewrite <- Hfab in Hsb.
  set (g := f a) in *.
  unfold stays_ahead in Hsa, Hsb. rewrite !andb_true_iff, Nat.eqb_eq, !Nat.leb_le in Hsa, Hsb.
  destruct Hsa as [[Fa Sa] Ea]. destruct Hsb as [[Fb Sb] Eb].
  destruct (Hocc a Ha) as [Hra _]. destruct (Hocc b Hb) as [Hrb _].
  destruct (places_incl s rows g Hga) as [Hrg _].
  (* g starts no later than a and b, and both start inside g: a and b overlap unless equal *)
  assert (Hend : forall x, In x rows -> r_file g = r_file x -> r_start g <= r_start x -> r_end g <= r_end x).
  { intros x Hx Hfx Hsx. destruct (Nat.eq_dec (r_start g) (r_start x)) as [E|E].
    - rewrite (rows_key_unique rows g x Hok Hrg Hx Hfx E). lia.
    - pose proof (ro_mono _ Hok g x Hrg Hx Hfx ltac:(lia)). lia. }
  pose proof (Hend a Hra Fa Sa) as Ega. pose proof (Hend b Hrb Fb Sb) as Egb.
  pose proof (ro_range _ Hok a Hra). pose proof (ro_range _ Hok b Hrb).
  destruct (Nat.eq_dec (r_start a) (r_start b)) as [E|E].
  - apply (rows_key_unique rows a b Hok Hra Hrb); [congruence|exact E].
  - exfalso. assert (Hne : a <> b) by (intros ->; apply E; reflexivity).
    specialize (Hdis a b Ha Hb Hne). unfold row_disjoint in Hdis. destruct Hdis as [H1|[H1|H1]]; [congruence|lia|lia].
Qed.

(* ------------------------------------------------------------------ raw violations *)
Lemma dup_snips_in rows s : In s (dup_snips RB rows) <-> (exists r, In r rows /\ r_snip r = s) /\ 2 <= snip_count s rows.
Proof.
  unfold dup_snips. rewrite nodup_In, in_map_iff. split.
  - intros [r [Hs Hr]]. apply filter_In in Hr. destruct Hr as [Hr Hd]. unfold is_dup in Hd. cbn [p_dup_cmp p_dup_min ref_bparams cmp_nat] in Hd.
    apply Nat.leb_le in Hd. subst s. split; [exists r; auto|exact Hd].
  - intros [[r [Hr Hs]] Hc]. exists r. split; [exact Hs|]. apply filter_In. split; [exact Hr|].
    unfold is_dup. cbn [p_dup_cmp p_dup_min ref_bparams cmp_nat]. apply Nat.leb_le. rewrite Hs. exact Hc.
Qed.

Lemma raw_in k rows v : In v (raw_viols RB k rows) <->
  exists s b, In s (dup_snips RB rows) /\ p_meets RB (List.length (rplaces s rows)) k = true /\
              In b (rplaces s rows) /\ v = mk_viol RB (rplaces s rows) b.
Proof.
  unfold raw_viols. rewrite in_flat_map. split.
  - intros [s [Hs Hv]]. unfold viols_of_snip in Hv. destruct (p_meets RB (List.length (rplaces s rows)) k) eqn:E; [|contradiction].
    apply in_map_iff in Hv. destruct Hv as [b [Hb Hin]]. exists s, b. auto.
  - intros [s [b [Hs [Hm [Hb Hv]]]]]. exists s. split; [exact Hs|]. unfold viols_of_snip. rewrite Hm. apply in_map_iff. exists b. auto.
Qed.

Lemma meets_spec n k : p_meets RB n k = true <-> n <> 0 /\ k <= n.
Proof.
  cbn [p_meets ref_bparams]. rewrite andb_true_iff, negb_true_iff, Nat.eqb_neq, Nat.leb_le. tauto.
Qed.

(* ------------------------------------------------------------------ de-duplication of violations *)
Lemma dedup_incl raw v : In v (dedup_viols RB raw) -> In v raw.
Proof.
  unfold dedup_viols. rewrite in_flat_map. intros [f [_ Hv]]. unfold dedup_file in Hv.
  apply greedy_incl in Hv. apply isort_In in Hv. apply filter_In in Hv. exact (proj1 Hv).
Qed.

Lemma dedup_dom raw vd : In vd raw ->
  exists v', In v' (dedup_viols RB raw) /\ v_file v' = v_file vd /\
             (v' = vd \/ (v_line v' <= v_line vd /\ v_line vd < v_line v' + v_count v')).
Proof.
  intros Hvd. set (f := v_file vd).
  assert (Hf : In f (viol_files raw)) by (unfold viol_files; apply nodup_In, in_map; exact Hvd).
  set (L := isort v_line (filter (in_file f) raw)).
  assert (HL : In vd L).
  { apply isort_In. apply filter_In. split; [exact Hvd|]. unfold in_file. apply Nat.eqb_refl. }
  assert (HLf : forall x, In x L -> v_file x = f).
  { intros x Hx. apply isort_In in Hx. apply filter_In in Hx. apply Nat.eqb_eq. exact (proj2 Hx). }
  destruct (greedy_dom (v_ovl RB) (key_le v_line) L [] (isort_sorted v_line _) (fun k y (H : In k []) _ => match H with end) vd HL)
    as [H|[k [[[]|Hk] [Ho Hle]]]].
  - exists vd. split; [|split; [reflexivity|left; reflexivity]].
    unfold dedup_viols. apply in_flat_map. exists f. split; [exact Hf|exact H].
  - exists k. split; [unfold dedup_viols; apply in_flat_map; exists f; split; [exact Hf|exact Hk]|].
    split; [rewrite (HLf k (greedy_incl _ _ _ _ Hk)); reflexivity|]. right.
    unfold v_ovl in Ho. cbn [p_viol_overlap ref_bparams] in Ho. apply Nat.ltb_lt in Ho. unfold key_le in Hle. lia.
Qed.

(* ------------------------------------------------------------------ the reported list *)
Section Report.
  Variables (k : nat) (rows : list row).
  Hypothesis Hok : rows_ok rows.
  Hypothesis Hk : 2 <= k.
  Let R := report RB k rows.

  Lemma report_origin v : In v R ->
    exists b, In b rows /\ In b (rplaces (r_snip b) rows) /\ v = mk_viol RB (rplaces (r_snip b) rows) b /\
              k <= List.length (rplaces (r_snip b) rows).
  Proof.
    intros Hv. apply dedup_incl in Hv. apply raw_in in Hv. destruct Hv as [s [b [_ [Hm [Hb Hv]]]]].
    destruct (places_incl s rows b Hb) as [Hbr Hbs]. exists b. rewrite Hbs.
    apply meets_spec in Hm. repeat split; [exact Hbr|exact Hb|exact Hv|exact (proj2 Hm)].
  Qed.

  (* a place of a snippet that has enough places is covered *)
  Lemma place_covered s d : In d (rplaces s rows) -> k <= List.length (rplaces s rows) ->
    covered R (r_file d) (r_start d) (r_end d).
  Proof.
    intros Hd Hlen. destruct (places_incl s rows d Hd) as [Hdr Hds].
    pose proof (ro_range _ Hok d Hdr) as Hrange.
    assert (Hdup : In s (dup_snips RB rows)).
    { apply dup_snips_in. split; [exists d; auto|].
      destruct (places_disjoint s rows Hok) as [Hnd [Hocc _]].
      unfold snip_count. apply (Nat.le_trans _ (List.length (rplaces s rows))); [lia|].
      apply NoDup_incl_length; [exact Hnd|]. intros x Hx. apply blocks_of_in. exact (Hocc x Hx). }
    assert (Hraw : In (mk_viol RB (rplaces s rows) d) (raw_viols RB k rows)).
    { apply raw_in. exists s, d. repeat split; [exact Hdup|apply meets_spec; lia|exact Hd]. }
    destruct (dedup_dom _ _ Hraw) as [v' [Hv' [Hf Hc]]].
    exists v'. split; [exact Hv'|]. unfold touches, v_end.
    cbn [mk_viol v_file v_line v_count p_line_count ref_bparams] in Hf, Hc.
    rewrite Hf, Nat.eqb_refl. cbn [andb]. apply andb_true_iff. rewrite !Nat.leb_le.
    destruct Hc as [->|[H1 H2]]; cbn [mk_viol v_line v_count p_line_count ref_bparams]; lia.
  Qed.

  Theorem report_refs v : In v R ->
    v_refs v <> [] /\
    forall f s e, In (f, s, e) (v_refs v) ->
      (f, s) <> (v_file v, v_line v) /\
      exists b d, In b rows /\ In d rows /\ r_snip d = r_snip b /\
                  (r_file b, r_start b, r_end b) = (v_file v, v_line v, v_end v) /\ (r_file d, r_start d, r_end d) = (f, s, e).
  Proof.
    intros Hv. destruct (report_origin v Hv) as [b [Hbr [Hb [-> Hlen]]]].
    set (ps := rplaces (r_snip b) rows) in *.
    destruct (places_disjoint (r_snip b) rows Hok) as [Hnd [Hocc _]]. fold ps in Hnd, Hocc.
    pose proof (ro_range _ Hok b Hbr) as Hrange.
    cbn [mk_viol v_refs v_file v_line p_is_other ref_bparams].
    set (other := fun d : row => negb (r_file d =? r_file b) || negb (r_start d =? r_start b)).
    assert (Hother : forall d, In d ps -> other d = false -> d = b).
    { intros d Hd Ho. unfold other in Ho. apply orb_false_iff in Ho. rewrite !negb_false_iff, !Nat.eqb_eq in Ho.
      apply (rows_key_unique rows d b Hok); [exact (proj1 (Hocc d Hd))|exact Hbr|tauto|tauto]. }
    split.
    - (* at least one other place *)
      assert (Hex : exists d, In d ps /\ other d = true).
      { destruct ps as [|x [|y t]] eqn:Eps; cbn [List.length] in Hlen; [lia|lia|].
        destruct (other x) eqn:Ex; [exists x; split; [left; reflexivity|exact Ex]|].
        destruct (other y) eqn:Ey; [exists y; split; [right; left; reflexivity|exact Ey]|].
        exfalso. assert (x = b) by (apply Hother; [left; reflexivity|exact Ex]).
        assert (y = b) by (apply Hother; [right; left; reflexivity|exact Ey]).
        inversion Hnd as [|? ? Hn _]; subst. apply Hn. left. reflexivity. }
      destruct Hex as [d [Hd Ho]]. intros Hnil.
      assert (Hin : In (loc_of d) (map loc_of (filter other ps))) by (apply in_map, filter_In; auto).
      rewrite Hnil in Hin. exact Hin.
    - intros f s e Hin. apply in_map_iff in Hin. destruct Hin as [d [Hloc Hd]]. apply filter_In in Hd. destruct Hd as [Hd Ho].
      unfold loc_of in Hloc. inversion Hloc; subst f s e. split.
      + intros E. inversion E as [[E1 E2]]. unfold other in Ho. rewrite E1, E2, !Nat.eqb_refl in Ho. discriminate.
      + exists b, d. destruct (Hocc d Hd) as [Hdr Hds]. repeat split; [exact Hbr|exact Hdr|exact Hds|].
        unfold v_end. cbn [mk_viol v_file v_line v_count p_line_count ref_bparams]. repeat f_equal. lia.
  Qed.

  Theorem report_mutual : mutual R.
  Proof.
    intros v Hv f s e Hin. destruct (report_origin v Hv) as [b [Hbr [Hb [-> Hlen]]]].
    cbn [mk_viol v_refs] in Hin. apply in_map_iff in Hin. destruct Hin as [d [Hloc Hd]]. apply filter_In in Hd.
    unfold loc_of in Hloc. inversion Hloc; subst f s e.
    exact (place_covered (r_snip b) d (proj1 Hd) Hlen).
  Qed.

  Theorem report_count v : In v R -> count_ok rows v.
  Proof.
    intros Hv. destruct (report_origin v Hv) as [b [Hbr [Hb [-> Hlen]]]].
    pose proof (ro_range _ Hok b Hbr) as Hrange.
    exists b. split; [exact Hbr|]. unfold v_end. cbn [mk_viol v_file v_line v_count v_occ p_line_count ref_bparams].
    split; [reflexivity|]. split; [reflexivity|]. split; [lia|]. split.
    - exists (rplaces (r_snip b) rows). split; [exact (places_disjoint _ rows Hok)|reflexivity].
    - intros ps Hps. exact (places_optimal _ rows ps Hok Hps).
  Qed.

  Theorem report_complete : complete rows k R.
  Proof.
    intros s ps Hps Hlen r Hr Hs.
    pose proof (places_optimal s rows ps Hok Hps) as Hopt.
    destruct (places_dom s rows r Hok Hr Hs) as [p [Hp [Hf [H1 H2]]]].
    destruct (places_incl s rows p Hp) as [Hpr Hpss].
    exists p. repeat split; [exact Hpr|exact Hpss|exact Hf| | |].
    - pose proof (ro_range _ Hok r Hr). lia.
    - exact H2.
    - apply (place_covered s p Hp). lia.
  Qed.
End Report.

(* no two stored windows with the same text => nothing is reported *)
Lemma filter_nil {A} (f : A -> bool) l : (forall x, In x l -> f x = false) -> filter f l = [].
Proof.
  induction l as [|x xs IH]; intros H; [reflexivity|]. cbn [filter]. rewrite (H x (or_introl eq_refl)). apply IH. intros y Hy. apply H. right. exact Hy.
Qed.

Theorem report_none k rows : NoDup rows ->
  (forall a b, In a rows -> In b rows -> r_snip a = r_snip b -> a = b) -> report RB k rows = [].
Proof.
  intros Hnd Huniq.
  assert (Hcnt : forall r, In r rows -> is_dup RB rows r = false).
  { intros r Hr. unfold is_dup. cbn [p_dup_cmp p_dup_min ref_bparams cmp_nat]. apply Nat.leb_gt.
    unfold snip_count. assert (Hn : NoDup (blocks_of (r_snip r) rows)) by (apply NoDup_filter; exact Hnd).
    destruct (blocks_of (r_snip r) rows) as [|x [|y t]] eqn:E; cbn [List.length]; [lia|lia|]. exfalso.
    assert (Hx : In x (blocks_of (r_snip r) rows)) by (rewrite E; left; reflexivity).
    assert (Hy : In y (blocks_of (r_snip r) rows)) by (rewrite E; right; left; reflexivity).
    apply blocks_of_in in Hx, Hy. assert (x = y) by (apply Huniq; [tauto|tauto|]; destruct Hx, Hy; congruence).
    inversion Hn as [|? ? Hni _]; subst. apply Hni. left. reflexivity. }
  unfold report, raw_viols, dup_snips. rewrite (filter_nil _ _ Hcnt). reflexivity.
Qed.
