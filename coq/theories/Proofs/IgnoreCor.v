(* Proofs/IgnoreCor.v — consequences of the main theorem: comment styles are interchangeable, the scope of a single
   directive in an otherwise plain file, directives naming other rules change nothing; and the equivalence of the
   fast evaluation path used by the correspondence check with the model. *)
From TL Require Import Lib.Base Lib.GenTypes Gen.IgnoreGen Model.PyStr Model.Ignore Model.IgnoreSpec Model.IgnoreRun
     Proofs.IgnoreStr Proofs.IgnoreStr2 Proofs.IgnoreLines Proofs.IgnoreFeat Proofs.IgnoreFeat2 Proofs.IgnoreMain.

(* ---------- comment styles ---------- *)
Definition restyle (f : style -> style) (l : aline) : aline :=
  match l with
  | LPlain c => LPlain c
  | LSame c st n => LSame c (f st) n
  | LNext ind st n => LNext ind (f st) n
  | LStart ind st br n => LStart ind (f st) br n
  | LEnd ind st => LEnd ind (f st)
  | LFile st n => LFile (f st) n
  end.

Lemma nth_error_map' {A B} (f : A -> B) l k : nth_error (map f l) k = option_map f (nth_error l k).
Proof. revert k. induction l as [|x l IH]; intros [|k]; cbn [map nth_error option_map]; try reflexivity. apply IH. Qed.

Lemma open_block_restyle f : forall a i v cur, open_block (map (restyle f) a) i v cur = open_block a i v cur.
Proof. induction a as [|l a IH]; intros i v cur; [reflexivity|]. destruct l; cbn [map restyle open_block]; rewrite ?IH; reflexivity. Qed.

Lemma spec_same_restyle f a v r : spec_same (map (restyle f) a) v r = spec_same a v r.
Proof. unfold spec_same. destruct v as [|k]; [reflexivity|]. rewrite nth_error_map'. destruct (nth_error a k) as [[]|]; reflexivity. Qed.

Lemma spec_next_restyle f a v r : spec_next (map (restyle f) a) v r = spec_next a v r.
Proof. unfold spec_next. destruct v as [|[|k]]; try reflexivity. rewrite nth_error_map'. destruct (nth_error a k) as [[]|]; reflexivity. Qed.

Lemma spec_file_restyle f a r : spec_file (map (restyle f) a) r = spec_file a r.
Proof.
  unfold spec_file. rewrite firstn_map, existsb_map.
  induction (firstn documented_header_lines a) as [|l ls IH]; [reflexivity|]. cbn [existsb]. rewrite IH. destruct l; reflexivity.
Qed.

Lemma spec_restyle f repo a v r : spec repo (map (restyle f) a) v r = spec repo a v r.
Proof.
  unfold spec, spec_block. now rewrite open_block_restyle, spec_file_restyle, spec_next_restyle, spec_same_restyle.
Qed.

Lemma file_ok_restyle f a : file_ok (map (restyle f) a) = file_ok a.
Proof. unfold file_ok. rewrite forallb_map. induction a as [|l a IH]; [reflexivity|]. cbn [forallb]. rewrite IH. destruct l; reflexivity. Qed.

Lemma target_ok_restyle f a v : target_ok (map (restyle f) a) v = target_ok a v.
Proof. unfold target_ok. destruct v as [|k]; [reflexivity|]. rewrite nth_error_map'. destruct (nth_error a k) as [l|]; [destruct l|]; reflexivity. Qed.

Theorem style_interchangeable q f repo a v r :
  q_splitlines_unicode q = false -> q_start_rules_from_code q = false ->
  file_ok a = true -> target_ok a v = true -> nonempty r = true ->
  should_ignore q repo (render (map (restyle f) a)) v r = should_ignore q repo (render a) v r.
Proof.
  intros Q0 Q6 H T Hr.
  rewrite (should_ignore_exact_ideal q repo a v r Q0 Q6 H T Hr).
  rewrite (should_ignore_exact_ideal q repo (map (restyle f) a) v r Q0 Q6);
    [apply spec_restyle|now rewrite file_ok_restyle|now rewrite target_ok_restyle|exact Hr].
Qed.

(* ---------- scope of one directive in an otherwise plain file ---------- *)
Definition is_plain (l : aline) : bool := match l with LPlain _ => true | _ => false end.

Lemma existsb_firstn_one {A} (f : A -> bool) (d : A) : forall pre post n,
  forallb (fun x => negb (f x)) pre = true -> forallb (fun x => negb (f x)) post = true ->
  existsb f (firstn n (pre ++ d :: post)) = (List.length pre <? n) && f d.
Proof.
  induction pre as [|x pre IH]; intros post n Hp Hq.
  - destruct n as [|n]; [reflexivity|]. cbn [app firstn existsb List.length]. change (0 <? S n) with true. cbn [andb].
    assert (E : existsb f (firstn n post) = false).
    { clear -Hq. revert n. induction post as [|y post IH]; intros [|n]; cbn [firstn existsb]; try reflexivity.
      cbn [forallb] in Hq. apply andb_true_iff in Hq as [Hy Hq]. apply negb_true_iff in Hy. now rewrite Hy, (IH Hq). }
    now rewrite E, orb_false_r.
  - cbn [forallb] in Hp. apply andb_true_iff in Hp as [Hx Hp]. apply negb_true_iff in Hx.
    destruct n as [|n]; [reflexivity|]. cbn [app firstn existsb List.length]. rewrite Hx. cbn [orb].
    now rewrite (IH post n Hp Hq).
Qed.

Lemma plain_not (g : aline -> bool) (l : list aline) :
  (forall c, g (LPlain c) = false) -> forallb is_plain l = true -> forallb (fun x => negb (g x)) l = true.
Proof.
  intros G H. apply forallb_forall. intros x Hx. rewrite forallb_forall in H. specialize (H x Hx).
  destruct x; try discriminate. now rewrite G.
Qed.

Lemma open_block_plain : forall pre rest i v cur, forallb is_plain pre = true ->
  open_block (pre ++ rest) i v cur =
  if (i <=? v) && (v <? i + List.length pre) then cur else open_block rest (i + List.length pre) v cur.
Proof.
  induction pre as [|l pre IH]; intros rest i v cur H.
  - cbn [app List.length]. rewrite Nat.add_0_r.
    assert (E : (i <=? v) && (v <? i) = false).
    { destruct (i <=? v) eqn:E1; [|reflexivity]. apply Nat.leb_le in E1. cbn [andb]. apply Nat.ltb_ge. lia. }
    now rewrite E.
  - cbn [forallb] in H. apply andb_true_iff in H as [Hl H]. destruct l; try discriminate.
    cbn [app open_block List.length]. rewrite (IH rest (S i) v cur H).
    destruct (i =? v) eqn:E.
    + apply Nat.eqb_eq in E. subst v. rewrite Nat.leb_refl.
      assert (E2 : (i <? i + S (List.length pre)) = true) by (apply Nat.ltb_lt; lia). now rewrite E2.
    + apply Nat.eqb_neq in E. rewrite Nat.add_succ_r. cbn [plus].
      destruct (S i <=? v) eqn:E1; destruct (i <=? v) eqn:E2; try reflexivity.
      * apply Nat.leb_le in E1. apply Nat.leb_gt in E2. lia.
      * apply Nat.leb_gt in E1. apply Nat.leb_le in E2. lia.
Qed.

Lemma open_block_plain_end : forall post i v cur, forallb is_plain post = true ->
  open_block post i v cur = if (i <=? v) && (v <? i + List.length post) then cur else None.
Proof.
  intros post i v cur H. rewrite <- (app_nil_r post) at 1. rewrite (open_block_plain post [] i v cur H). reflexivity.
Qed.

(* the four forms, each alone in a file whose other lines are plain code; v is a code line *)
Theorem scope_same repo pre c st n post v r : forallb is_plain pre = true -> forallb is_plain post = true ->
  spec repo (pre ++ LSame c st n :: post) v r = repo || ((v =? S (List.length pre)) && named (bracket_rules n) r).
Proof.
  intros Hp Hq. unfold spec.
  assert (F : spec_file (pre ++ LSame c st n :: post) r = false).
  { unfold spec_file. rewrite existsb_firstn_one; [now rewrite andb_false_r| |]; now apply plain_not. }
  assert (B : spec_block (pre ++ LSame c st n :: post) v r = false).
  { unfold spec_block. rewrite (open_block_plain pre _ 1 v None Hp).
    destruct ((1 <=? v) && (v <? 1 + List.length pre)); [reflexivity|]. cbn [open_block].
    destruct (1 + List.length pre =? v); [reflexivity|]. rewrite (open_block_plain_end post _ v None Hq).
    now destruct ((S (1 + List.length pre) <=? v) && (v <? S (1 + List.length pre) + List.length post)). }
  assert (N : spec_next (pre ++ LSame c st n :: post) v r = false).
  { unfold spec_next. destruct v as [|[|k]]; try reflexivity.
    destruct (nth_error (pre ++ LSame c st n :: post) k) as [l|] eqn:E; [|reflexivity].
    destruct l; try reflexivity. apply nth_error_In in E. apply in_app_or in E as [E|[E|E]]; try discriminate.
    - rewrite forallb_forall in Hp. now specialize (Hp _ E).
    - rewrite forallb_forall in Hq. now specialize (Hq _ E). }
  rewrite F, B, N, !orb_false_r. f_equal. unfold spec_same. destruct v as [|k]; [reflexivity|]. cbn [Nat.eqb].
  destruct (k =? List.length pre) eqn:E.
  - apply Nat.eqb_eq in E. subst k. rewrite nth_error_app2 by lia. rewrite Nat.sub_diag. reflexivity.
  - apply Nat.eqb_neq in E. destruct (nth_error (pre ++ LSame c st n :: post) k) as [l|] eqn:E2; [|reflexivity].
    destruct l; try reflexivity. exfalso.
    destruct (Nat.lt_ge_cases k (List.length pre)) as [L|L].
    + rewrite nth_error_app1 in E2 by exact L. apply nth_error_In in E2. rewrite forallb_forall in Hp. now specialize (Hp _ E2).
    + rewrite nth_error_app2 in E2 by exact L. destruct (k - List.length pre) as [|j] eqn:E3; [lia|]. cbn [nth_error] in E2.
      apply nth_error_In in E2. rewrite forallb_forall in Hq. now specialize (Hq _ E2).
Qed.

Theorem scope_next repo pre ind st n post v r : forallb is_plain pre = true -> forallb is_plain post = true ->
  spec repo (pre ++ LNext ind st n :: post) v r = repo || ((v =? S (S (List.length pre))) && named (bracket_rules n) r).
Proof.
  intros Hp Hq. unfold spec.
  assert (F : spec_file (pre ++ LNext ind st n :: post) r = false).
  { unfold spec_file. rewrite existsb_firstn_one; [now rewrite andb_false_r| |]; now apply plain_not. }
  assert (B : spec_block (pre ++ LNext ind st n :: post) v r = false).
  { unfold spec_block. rewrite (open_block_plain pre _ 1 v None Hp).
    destruct ((1 <=? v) && (v <? 1 + List.length pre)); [reflexivity|]. cbn [open_block].
    destruct (1 + List.length pre =? v); [reflexivity|]. rewrite (open_block_plain_end post _ v None Hq).
    now destruct ((S (1 + List.length pre) <=? v) && (v <? S (1 + List.length pre) + List.length post)). }
  assert (Sm : spec_same (pre ++ LNext ind st n :: post) v r = false).
  { unfold spec_same. destruct v as [|k]; [reflexivity|].
    destruct (nth_error (pre ++ LNext ind st n :: post) k) as [l|] eqn:E; [|reflexivity].
    destruct l; try reflexivity. apply nth_error_In in E. apply in_app_or in E as [E|[E|E]]; try discriminate.
    - rewrite forallb_forall in Hp. now specialize (Hp _ E).
    - rewrite forallb_forall in Hq. now specialize (Hq _ E). }
  rewrite F, B, Sm, !orb_false_r. f_equal. unfold spec_next. destruct v as [|[|k]]; try reflexivity. cbn [Nat.eqb].
  destruct (k =? List.length pre) eqn:E.
  - apply Nat.eqb_eq in E. subst k. rewrite nth_error_app2 by lia. rewrite Nat.sub_diag. reflexivity.
  - apply Nat.eqb_neq in E. destruct (nth_error (pre ++ LNext ind st n :: post) k) as [l|] eqn:E2; [|reflexivity].
    destruct l; try reflexivity. exfalso.
    destruct (Nat.lt_ge_cases k (List.length pre)) as [L|L].
    + rewrite nth_error_app1 in E2 by exact L. apply nth_error_In in E2. rewrite forallb_forall in Hp. now specialize (Hp _ E2).
    + rewrite nth_error_app2 in E2 by exact L. destruct (k - List.length pre) as [|j] eqn:E3; [lia|]. cbn [nth_error] in E2.
      apply nth_error_In in E2. rewrite forallb_forall in Hq. now specialize (Hq _ E2).
Qed.

Lemma plain_same_next_false a v r : forallb (fun l => is_plain l || match l with LStart _ _ _ _ | LEnd _ _ | LFile _ _ => true | _ => false end) a = true ->
  spec_same a v r = false /\ spec_next a v r = false.
Proof.
  intro H. rewrite forallb_forall in H. split.
  - unfold spec_same. destruct v as [|k]; [reflexivity|]. destruct (nth_error a k) as [l|] eqn:E; [|reflexivity].
    apply nth_error_In in E. specialize (H _ E). destruct l; try reflexivity; discriminate.
  - unfold spec_next. destruct v as [|[|k]]; try reflexivity. destruct (nth_error a k) as [l|] eqn:E; [|reflexivity].
    apply nth_error_In in E. specialize (H _ E). destruct l; try reflexivity; discriminate.
Qed.

Theorem scope_file repo pre st n post v r : forallb is_plain pre = true -> forallb is_plain post = true ->
  spec repo (pre ++ LFile st n :: post) v r = repo || ((List.length pre <? 10) && named (bracket_rules n) r).
Proof.
  intros Hp Hq. unfold spec.
  assert (B : spec_block (pre ++ LFile st n :: post) v r = false).
  { unfold spec_block. rewrite (open_block_plain pre _ 1 v None Hp).
    destruct ((1 <=? v) && (v <? 1 + List.length pre)); [reflexivity|]. cbn [open_block].
    destruct (1 + List.length pre =? v); [reflexivity|]. rewrite (open_block_plain_end post _ v None Hq).
    now destruct ((S (1 + List.length pre) <=? v) && (v <? S (1 + List.length pre) + List.length post)). }
  destruct (plain_same_next_false (pre ++ LFile st n :: post) v r) as [Sm N].
  { rewrite forallb_app. cbn [forallb is_plain orb]. apply andb_true_iff. split.
    - apply (forallb_impl is_plain); [|exact Hp]. intros x Hx. now rewrite Hx.
    - apply (forallb_impl is_plain); [|exact Hq]. intros x Hx. now rewrite Hx. }
  rewrite B, Sm, N, !orb_false_r. f_equal. unfold spec_file. change documented_header_lines with 10.
  rewrite existsb_firstn_one; [reflexivity| |]; now apply plain_not.
Qed.

Theorem scope_block repo pre ind st br n mid ind' st' post v r :
  forallb is_plain pre = true -> forallb is_plain mid = true -> forallb is_plain post = true ->
  spec repo (pre ++ LStart ind st br n :: mid ++ LEnd ind' st' :: post) v r =
  repo || ((S (List.length pre) <? v) && (v <=? S (List.length pre) + List.length mid) && named (start_rules br n) r).
Proof.
  intros Hp Hm Hq. unfold spec.
  set (a := (pre ++ LStart ind st br n :: mid ++ LEnd ind' st' :: post)).
  assert (F : spec_file a r = false).
  { unfold spec_file, a. rewrite existsb_firstn_one; [now rewrite andb_false_r|now apply plain_not|].
    rewrite forallb_app. cbn [forallb negb andb]. rewrite (plain_not (fun l => match l with LFile _ n0 => named (bracket_rules n0) r | _ => false end) mid), (plain_not _ post); auto. }
  destruct (plain_same_next_false a v r) as [Sm N].
  { unfold a. rewrite forallb_app. cbn [forallb is_plain orb andb]. rewrite forallb_app. cbn [forallb is_plain orb andb].
    rewrite !(forallb_impl is_plain (fun l => is_plain l || match l with LStart _ _ _ _ | LEnd _ _ | LFile _ _ => true | _ => false end)); auto;
      intros x Hx; now rewrite Hx. }
  rewrite F, Sm, N, !orb_false_r. f_equal. unfold spec_block, a.
  rewrite (open_block_plain pre _ 1 v None Hp).
  destruct ((1 <=? v) && (v <? 1 + List.length pre)) eqn:E1.
  - apply andb_true_iff in E1 as [_ E1]. apply Nat.ltb_lt in E1.
    assert (E : (S (List.length pre) <? v) = false) by (apply Nat.ltb_ge; lia). now rewrite E.
  - cbn [open_block]. rewrite (open_block_plain mid _ (S (1 + List.length pre)) v (Some (start_rules br n)) Hm).
    destruct ((S (1 + List.length pre) <=? v) && (v <? S (1 + List.length pre) + List.length mid)) eqn:E2.
    + apply andb_true_iff in E2 as [E2 E3]. apply Nat.leb_le in E2. apply Nat.ltb_lt in E3.
      assert (G1 : (S (List.length pre) <? v) = true) by (apply Nat.ltb_lt; lia).
      assert (G2 : (v <=? S (List.length pre) + List.length mid) = true) by (apply Nat.leb_le; lia).
      now rewrite G1, G2.
    + cbn [open_block]. rewrite (open_block_plain_end post _ v None Hq).
      assert (G : (S (List.length pre) <? v) && (v <=? S (List.length pre) + List.length mid) = false).
      { destruct (S (List.length pre) <? v) eqn:G1; [|reflexivity]. cbn [andb]. apply Nat.ltb_lt in G1. apply Nat.leb_gt.
        apply andb_false_iff in E2 as [E2|E2]; [apply Nat.leb_gt in E2; lia|apply Nat.ltb_ge in E2; lia]. }
      rewrite G. now destruct ((S (S (1 + List.length pre) + List.length mid) <=? v) && (v <? S (S (1 + List.length pre) + List.length mid) + List.length post)).
Qed.

(* directives that do not name the rule suppress nothing *)
Definition line_names (l : aline) (r : string) : bool :=
  match l with
  | LPlain _ | LEnd _ _ => false
  | LSame _ _ n | LNext _ _ n | LFile _ n => named (bracket_rules n) r
  | LStart _ _ br n => named (start_rules br n) r
  end.

Lemma open_block_unnamed r : forall a i v cur, forallb (fun l => negb (line_names l r)) a = true ->
  match cur with Some rs => named rs r = false | None => True end ->
  match open_block a i v cur with Some rs => named rs r | None => false end = false.
Proof.
  induction a as [|l a IH]; intros i v cur H C; [reflexivity|].
  cbn [forallb] in H. apply andb_true_iff in H as [Hl H]. apply negb_true_iff in Hl.
  destruct l; cbn [open_block line_names] in *;
    try (destruct (i =? v); [destruct cur as [rs|]; [exact C|reflexivity]|now apply IH]).
  - apply IH; [exact H|exact Hl].
  - now apply IH.
Qed.

Theorem other_rule_noop a v r : forallb (fun l => negb (line_names l r)) a = true -> spec false a v r = false.
Proof.
  intro H. unfold spec. cbn [orb].
  assert (F : spec_file a r = false).
  { unfold spec_file. pose proof (forallb_firstn _ documented_header_lines a H) as H'.
    induction (firstn documented_header_lines a) as [|l ls IH]; [reflexivity|].
    cbn [forallb] in H'. apply andb_true_iff in H' as [Hl H']. apply negb_true_iff in Hl. cbn [existsb]. rewrite (IH H').
    destruct l; cbn [line_names] in Hl; rewrite ?Hl; reflexivity. }
  assert (B : spec_block a v r = false) by (unfold spec_block; now apply open_block_unnamed).
  rewrite forallb_forall in H.
  assert (N : spec_next a v r = false).
  { unfold spec_next. destruct v as [|[|k]]; try reflexivity. destruct (nth_error a k) as [l|] eqn:E; [|reflexivity].
    apply nth_error_In in E. specialize (H _ E). apply negb_true_iff in H. destruct l; try reflexivity. exact H. }
  assert (Sm : spec_same a v r = false).
  { unfold spec_same. destruct v as [|k]; try reflexivity. destruct (nth_error a k) as [l|] eqn:E; [|reflexivity].
    apply nth_error_In in E. specialize (H _ E). apply negb_true_iff in H. destruct l; try reflexivity. exact H. }
  now rewrite F, B, N, Sm.
Qed.

(* ---------- the fast evaluation path of Model/IgnoreRun.v ---------- *)
Lemma prefixb_split n s : prefixb n s = true -> exists b, s = (n ++ b)%string.
Proof.
  revert s. induction n as [|c n IH]; intros s H; [now exists s|].
  destruct s as [|d s]; cbn [prefixb] in H; [discriminate|]. apply andb_true_iff in H as [E H]. apply Ascii.eqb_eq in E. subst d.
  destruct (IH s H) as [b ->]. now exists b.
Qed.

Lemma containsb_split n s : containsb n s = true -> exists a b, s = (a ++ n ++ b)%string.
Proof.
  induction s as [|c s IH]; intro H; rewrite containsb_unfold in H.
  - rewrite orb_false_r in H. destruct (prefixb_split n "" H) as [b E]. now exists "", b.
  - apply orb_true_iff in H as [H|H].
    + destruct (prefixb_split n _ H) as [b E]. now exists "", b.
    + destruct (IH H) as (a & b & ->). now exists (String c a), b.
Qed.

Lemma containsb_trans k n s : containsb k n = true -> containsb n s = true -> containsb k s = true.
Proof. intros H1 H2. destruct (containsb_split n s H2) as (a & b & ->). now apply containsb_app_r, containsb_app_l. Qed.

Lemma marker_needs_key needles lowered l : kf needles = true -> containsb K (lower l) = false -> marker needles lowered l = false.
Proof.
  intros Hk Hl. unfold marker, any_contains. destruct (existsb _ needles) eqn:E; [|reflexivity].
  apply existsb_exists in E as (n & Hin & Hn). unfold kf in Hk. rewrite forallb_forall in Hk. specialize (Hk n Hin).
  apply andb_true_iff in Hk as [K1 K2]. destruct lowered.
  - rewrite (containsb_trans K n (lower l) K1 Hn) in Hl. discriminate.
  - apply containsb_lower in Hn. rewrite (containsb_trans K (lower n) (lower l) K2 Hn) in Hl. discriminate.
Qed.

Lemma block_marker_needs_key prefixes kw tags l : containsb K kw = true -> containsb K (lower l) = false -> block_marker prefixes kw tags l = false.
Proof.
  intros Hk Hl. unfold block_marker. destruct (containsb kw (lower (strip l))) eqn:E; [|now rewrite andb_false_r].
  apply contains_lower_strip in E. rewrite (containsb_trans K kw (lower l) Hk E) in Hl. discriminate.
Qed.

Lemma keyed_parts : keyed = true ->
  kf file_marker_needles = true /\ kf (both_styles file_marker_needles) = true /\ kf line_marker_needles = true /\
  kf next_marker_needles = true /\ kf (both_styles next_marker_needles) = true /\
  containsb K start_marker_keyword = true /\ containsb K end_marker_keyword = true.
Proof.
  unfold keyed. intro H. repeat (apply andb_true_iff in H as [H ?]).
  match goal with X : kf [_; _] = true |- _ => unfold kf in X; cbn [forallb] in X; apply andb_true_iff in X as [X1 X2];
    apply andb_true_iff in X1 as [X1 _]; apply andb_true_iff in X2 as [X2 _]; apply andb_true_iff in X2 as [X2 _] end.
  repeat split; assumption.
Qed.

Lemma prepare_fast_eq q l : prepare_fast q l = prepare q l.
Proof.
  unfold prepare_fast, maybe_directive. destruct keyed eqn:Ky; [|reflexivity]. cbn [negb orb].
  destruct (containsb K (lower l)) eqn:E; [reflexivity|].
  destruct (keyed_parts Ky) as (K1 & K2 & K3 & K4 & K5 & K6 & K7).
  unfold prepare, classify, has_ignore_start_marker, has_ignore_end_marker, has_ignore_next_line_marker, has_line_ignore_marker.
  rewrite (block_marker_needs_key _ _ _ l K6 E), (block_marker_needs_key _ _ _ l K7 E).
  rewrite (marker_needs_key _ _ l K3 E).
  destruct (q_next_line_hash_only q); [rewrite (marker_needs_key _ _ l K4 E)|rewrite (marker_needs_key _ _ l K5 E)]; reflexivity.
Qed.

Lemma header_candidates_fast_eq q lines : header_candidates_fast q lines = header_candidates q lines.
Proof.
  unfold header_candidates_fast, header_candidates. induction (firstn header_scan_lines lines) as [|l ls IH]; [reflexivity|].
  cbn [filter]. rewrite IH. unfold maybe_directive. destruct keyed eqn:Ky; [|reflexivity]. cbn [negb orb].
  destruct (containsb K (lower l)) eqn:E; [reflexivity|]. cbn [andb].
  destruct (keyed_parts Ky) as (K1 & K2 & _).
  unfold has_ignore_directive_marker. destruct (q_file_hash_only q); [now rewrite (marker_needs_key _ _ l K1 E)|now rewrite (marker_needs_key _ _ l K2 E)].
Qed.

(* what the correspondence check evaluates is the model *)
Theorem results_is_model c content qs :
  results c content qs = map (fun x : query => let '(v, r, p) := x in suppressed (fst c) (if snd c then p else PShared) content v r) qs.
Proof.
  unfold results, suppressed. rewrite header_candidates_fast_eq.
  rewrite (map_ext (prepare_fast (fst c)) (prepare (fst c)) (prepare_fast_eq (fst c))).
  apply map_ext. intros [[v r] p]. reflexivity.
Qed.

(* ---------- the four directive forms, model side (main theorem + scope) ---------- *)
(* the flags whose source variant still deviates from the property; flags 1-5 (next-line and file markers, block end, bare
   directives) may have either value: since the fix: commits the source's own tables / fallbacks meet the specification *)
Definition flags_off (q : iquirks) : Prop :=
  q_splitlines_unicode q = false /\ q_start_rules_from_code q = false.

Lemma exact_off q repo a v r : flags_off q -> file_ok a = true -> target_ok a v = true -> nonempty r = true ->
  should_ignore q repo (render a) v r = spec repo a v r.
Proof. intros (Q0 & Q6). now apply should_ignore_exact_ideal. Qed.

Theorem same_line_exact q pre c st n post v r : flags_off q ->
  forallb is_plain pre = true -> forallb is_plain post = true ->
  file_ok (pre ++ LSame c st n :: post) = true -> target_ok (pre ++ LSame c st n :: post) v = true -> nonempty r = true ->
  should_ignore q false (render (pre ++ LSame c st n :: post)) v r = (v =? S (List.length pre)) && named (bracket_rules n) r.
Proof. intros Q Hp Hq H T Hr. rewrite (exact_off q false _ v r Q H T Hr). now rewrite scope_same. Qed.

Theorem next_line_exact q pre ind st n post v r : flags_off q ->
  forallb is_plain pre = true -> forallb is_plain post = true ->
  file_ok (pre ++ LNext ind st n :: post) = true -> target_ok (pre ++ LNext ind st n :: post) v = true -> nonempty r = true ->
  should_ignore q false (render (pre ++ LNext ind st n :: post)) v r = (v =? S (S (List.length pre))) && named (bracket_rules n) r.
Proof. intros Q Hp Hq H T Hr. rewrite (exact_off q false _ v r Q H T Hr). now rewrite scope_next. Qed.

Theorem file_level_directive_exact q pre st n post v r : flags_off q ->
  forallb is_plain pre = true -> forallb is_plain post = true ->
  file_ok (pre ++ LFile st n :: post) = true -> target_ok (pre ++ LFile st n :: post) v = true -> nonempty r = true ->
  should_ignore q false (render (pre ++ LFile st n :: post)) v r = (List.length pre <? 10) && named (bracket_rules n) r.
Proof. intros Q Hp Hq H T Hr. rewrite (exact_off q false _ v r Q H T Hr). now rewrite scope_file. Qed.

Theorem block_exact_scope q pre ind st br n mid ind' st' post v r : flags_off q ->
  forallb is_plain pre = true -> forallb is_plain mid = true -> forallb is_plain post = true ->
  file_ok (pre ++ LStart ind st br n :: mid ++ LEnd ind' st' :: post) = true ->
  target_ok (pre ++ LStart ind st br n :: mid ++ LEnd ind' st' :: post) v = true -> nonempty r = true ->
  should_ignore q false (render (pre ++ LStart ind st br n :: mid ++ LEnd ind' st' :: post)) v r =
  (S (List.length pre) <? v) && (v <=? S (List.length pre) + List.length mid) && named (start_rules br n) r.
Proof. intros Q Hp Hm Hq H T Hr. rewrite (exact_off q false _ v r Q H T Hr). now rewrite scope_block. Qed.

Theorem unnamed_rule_untouched q a v r : flags_off q -> file_ok a = true -> target_ok a v = true -> nonempty r = true ->
  forallb (fun l => negb (line_names l r)) a = true -> should_ignore q false (render a) v r = false.
Proof. intros Q H T Hr Hn. rewrite (exact_off q false a v r Q H T Hr). now apply other_rule_noop. Qed.
