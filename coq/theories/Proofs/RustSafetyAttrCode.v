(* Proofs/RustSafetyAttrCode.v — the code's substring test against the attribute semantics of the specification:
   `"test" in attribute text` (has_test_attribute) holds for every attribute the specification reads as marking a test
   function or as test-only configuration, so the faithful model never misses a test function; the converse fails
   (finding q_test_attr_substring). *)
From TL Require Import Lib.Base Lib.GenTypes Model.RustSafetyTypes Model.RustSafetySpec Gen.RustSafetyGen
     Model.RustSafety Proofs.RustSafetyWalk Proofs.RustSafetyCtx Proofs.RustSafetyEmit Proofs.RustSafetyMain Proofs.RustSafetyAttr.

Lemma sib_walk_over run needle sem l :
  smem "attribute_item" run = true -> smem "line_comment" run = true ->
  (forall t, sem t = true -> contains needle t = true) ->
  has_attr sem l = true -> sib_walk run "attribute_item" (attr_hit needle sem true) l = true.
Proof.
  intros HA HC HS. unfold has_attr. induction l as [|[t|] r IH]; cbn [existsb sib_walk sib_type attr_hit]; [discriminate| |].
  - rewrite HA. cbn [String.eqb Ascii.eqb Bool.eqb andb]. intros H. apply orb_true_iff in H as [H|H].
    + now rewrite (HS t H).
    + destruct (contains needle t); [reflexivity|exact (IH H)].
  - rewrite HC. cbn [String.eqb Ascii.eqb Bool.eqb andb orb]. exact IH.
Qed.

Lemma needle_is_test : test_attr_needle = "test" /\ test_attr_sibling_type = "attribute_item". Proof. split; reflexivity. Qed.

Theorem test_fn_never_missed q pre a nm :
  q_test_attr_substring q = true -> fn_is_test pre = true -> is_test_context q (own_frame (KFn pre a nm)) = true.
Proof.
  intros HQ HT. unfold is_test_context. cbn [own_frame f_type f_pre node_type].
  replace (String.eqb "function_item" ctx_fn_type) with true by reflexivity. rewrite HQ.
  destruct needle_is_test as [-> ->]. destruct (run_types_ok q) as (A1 & C1 & _ & _).
  apply (sib_walk_over _ _ _ _ A1 C1 marks_test_fn_mentions_test).
  unfold fn_is_test, has_attr in *. now rewrite existsb_rev.
Qed.

(* ------------------------------------------------------------------ grammar names the model takes for granted *)
(* The model's parser-oracle side (idents, f_callee, f_mname, method_name, context_of) fixes which tree-sitter node types
   the helpers of the source look at: identifier leaves for `used afterwards` and for a bare wrapper name, scoped_identifier
   for a call path / a qualified wrapper name, field_expression / field_identifier for a method name, the
   function_modifiers / async tokens, and the stripped source line.  The names the source actually uses are read by the
   translator; this fact ties them to the ones the model was written for. *)
Lemma grammar_names :
  use_ident_type = node_type (KId "") /\ clone_receiver_ident_type = node_type (KId "") /\
  wrapper_ident_type = "identifier" /\ wrapper_scoped_type = "scoped_identifier" /\ call_path_type = "scoped_identifier" /\
  async_modifiers_type = "function_modifiers" /\ async_token_type = "async" /\
  unwrap_field_expr_type = "field_expression" /\ unwrap_field_ident_type = "field_identifier" /\
  clone_field_expr_type = "field_expression" /\ clone_field_ident_type = "field_identifier" /\
  line_context_strips = true.
Proof. repeat split. Qed.
