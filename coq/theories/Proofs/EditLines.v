(* Proofs/EditLines.v — C13, line terminators: what `content.split("\n")` (FileLintContext.file_lines, the DRY
   tokenizer, count_loc) and `content.splitlines()` (the suppression parser) make of a text whose "\n" were all
   turned into "\r\n".  split keeps the CR at the end of every line (same number of lines, each with trailing white
   space); splitlines and the analysers' numbering (\n, \r\n, \r) give exactly the lines of the LF text. *)
From TL Require Import Lib.Base Model.PyStr Proofs.IgnoreStr Model.Edit.

Definition no_cr (s : string) : bool := all_of (fun c => negb (is c13 c)) s.

Lemma split_char_aux_nonempty sep : forall s cur, split_char_aux sep s cur <> [].
Proof. induction s as [|c r IH]; intro cur; cbn [split_char_aux]; [discriminate|]. destruct (Ascii.eqb c sep); [discriminate|apply IH]. Qed.

Lemma map_init_cons {A} (f : A -> A) x l : l <> [] -> map_init f (x :: l) = f x :: map_init f l.
Proof. destruct l; [congruence|reflexivity]. Qed.

(* file_lines of the CRLF text = file_lines of the LF text with a CR appended to every line but the last piece *)
Lemma pieces_aux_crlf : forall s cur,
  split_char_aux c10 (to_crlf s) cur = map_init (fun l => (l ++ cr)%string) (split_char_aux c10 s cur).
Proof.
  induction s as [|c r IH]; intro cur; [reflexivity|].
  cbn [to_crlf]. unfold is. destruct (Ascii.eqb c c10) eqn:E.
  - cbn [split_char_aux]. change (Ascii.eqb c13 c10) with false. rewrite Ascii.eqb_refl.
    change (Ascii.eqb c c10) with (Ascii.eqb c c10). rewrite E.
    rewrite map_init_cons by apply split_char_aux_nonempty. rewrite IH. f_equal.
    rewrite srev_cons. reflexivity.
  - cbn [split_char_aux]. rewrite E. apply IH.
Qed.

Theorem file_lines_crlf content :
  pieces (to_crlf content) = map_init (fun l => (l ++ cr)%string) (pieces content).
Proof. apply pieces_aux_crlf. Qed.

Lemma map_init_length {A} (f : A -> A) : forall l, List.length (map_init f l) = List.length l.
Proof. induction l as [|x [|y r] IH]; try reflexivity. change (map_init f (x :: y :: r)) with (f x :: map_init f (y :: r)). cbn [List.length] in *. now rewrite IH. Qed.

Corollary file_lines_crlf_count content : List.length (pieces (to_crlf content)) = List.length (pieces content).
Proof. rewrite file_lines_crlf. apply map_init_length. Qed.

(* the CRLF edit of the algebra is the CRLF conversion of the text *)
Corollary apply_to_crlf content : pieces (to_crlf content) = apply ToCRLF (pieces content).
Proof. apply file_lines_crlf. Qed.

(* ---------- the analysers' numbering and str.splitlines ---------- *)
Lemma to_crlf_cons c r : to_crlf (String c r) = if is c10 c then String c13 (String c10 (to_crlf r)) else String c (to_crlf r).
Proof. reflexivity. Qed.

Lemma is_eq k c : is k c = true -> c = k.
Proof. unfold is. intro H. now apply Ascii.eqb_eq in H. Qed.

Lemma split_newlines_crlf : forall s cur, no_cr s = true ->
  split_newlines_aux (to_crlf s) cur = split_newlines_aux s cur.
Proof.
  induction s as [|c r IH]; intros cur H; [reflexivity|].
  cbn [no_cr all_of] in H. apply andb_true_iff in H as [Hc H]. apply negb_true_iff in Hc.
  rewrite to_crlf_cons. destruct (is c10 c) eqn:E.
  - cbn [split_newlines_aux]. change (is c10 c13) with false. change (is c13 c13) with true. change (is c10 c10) with true.
    rewrite E. now rewrite (IH _ H).
  - cbn [split_newlines_aux]. rewrite E, Hc. now apply IH.
Qed.

Theorem split_newlines_to_crlf content : no_cr content = true -> split_newlines (to_crlf content) = split_newlines content.
Proof. intro H. now apply split_newlines_crlf. Qed.

(* splitlines looks up to two bytes ahead (U+0085, U+2028, U+2029): induction on the length *)
Lemma no_cr_tail c r : no_cr (String c r) = true -> is c13 c = false /\ no_cr r = true.
Proof. cbn [no_cr all_of]. intro H. apply andb_true_iff in H as [Hc H]. now apply negb_true_iff in Hc. Qed.

Lemma splitlines_crlf : forall n s cur, String.length s <= n -> no_cr s = true ->
  splitlines_aux (to_crlf s) cur = splitlines_aux s cur.
Proof.
  induction n as [|n IH]; intros s cur L H.
  - destruct s; [reflexivity|cbn [String.length] in L; lia].
  - destruct s as [|c r]; [reflexivity|]. cbn [String.length] in L.
    destruct (no_cr_tail c r H) as [Hc Hr].
    rewrite to_crlf_cons. destruct (is c10 c) eqn:E10.
    + apply is_eq in E10. subst c. cbn [splitlines_aux]. change (brk1 c13) with false. change (is c13 c13) with true.
      change (is c10 c10) with true. change (brk1 c10) with true. rewrite (IH r EmptyString) by (try lia; assumption). reflexivity.
    + assert (B : brk1 c = true -> splitlines_aux (String c (to_crlf r)) cur = splitlines_aux (String c r) cur).
      { intro Hb. cbn [splitlines_aux]. rewrite Hb. now rewrite (IH r EmptyString) by (try lia; assumption). }
      destruct (brk1 c) eqn:Eb; [now apply B|]. clear B.
      cbn [splitlines_aux]. rewrite Eb, Hc.
      destruct (is c194 c) eqn:E194.
      { assert (Else : splitlines_aux (to_crlf r) (String c cur) = splitlines_aux r (String c cur))
          by (apply IH; [lia|assumption]).
        destruct r as [|d r2]; [reflexivity|].
        destruct (no_cr_tail d r2 Hr) as [Hd Hr2]. cbn [String.length] in L.
        rewrite to_crlf_cons in *. destruct (is c10 d) eqn:D10.
        - apply is_eq in D10. subst d. change (is c133 c13) with false. change (is c133 c10) with false. exact Else.
        - destruct (is c133 d); [|exact Else].
          now rewrite (IH r2 EmptyString) by (try lia; assumption). }
      destruct (is c226 c) eqn:E226.
      { assert (Else : splitlines_aux (to_crlf r) (String c cur) = splitlines_aux r (String c cur))
          by (apply IH; [lia|assumption]).
        destruct r as [|d r2]; [reflexivity|].
        destruct (no_cr_tail d r2 Hr) as [Hd Hr2]. cbn [String.length] in L.
        rewrite to_crlf_cons in *. destruct (is c10 d) eqn:D10.
        - apply is_eq in D10. subst d. change (is c128 c13) with false. change (is c128 c10) with false. cbn [andb].
          destruct r2 as [|e r3]; exact Else.
        - destruct r2 as [|e r3]; [exact Else|].
          destruct (no_cr_tail e r3 Hr2) as [He Hr3]. cbn [String.length] in L.
          rewrite to_crlf_cons in *. destruct (is c10 e) eqn:E10e.
          + apply is_eq in E10e. subst e. change (is c168 c13) with false. change (is c169 c13) with false.
            change (is c168 c10) with false. change (is c169 c10) with false. cbn [orb]. rewrite andb_false_r. exact Else.
          + destruct (is c128 d && (is c168 e || is c169 e)); [|exact Else].
            now rewrite (IH r3 EmptyString) by (try lia; assumption). }
      apply IH; [lia|assumption].
Qed.

Theorem splitlines_to_crlf content : no_cr content = true -> splitlines (to_crlf content) = splitlines content.
Proof. intro H. now apply (splitlines_crlf (String.length content)). Qed.
