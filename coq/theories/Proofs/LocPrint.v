(* Proofs/LocPrint.v — C12 for the print-statement model (Model/PrintStmt.v, Python side): every violation
   the model emits, with scripts allowed or not, carries the recorded position (ast lineno / col_offset) of a
   Call node of the file whose callee is `print` / `builtins.print`: the call itself. *)
From TL Require Import Lib.Base Lib.GenTypes Gen.EmbedGen Model.Embed Model.PrintStmt.

(* n occurs in the tree t *)
Fixpoint subtree (n : ast) (t : ast) : Prop :=
  n = t \/ match t with Node _ ks => (fix any (l : list ast) : Prop := match l with [] => False | x :: xs => subtree n x \/ any xs end) ks end.

Lemma subtree_refl n : subtree n n.
Proof. destruct n. cbn [subtree]. now left. Qed.

Section Origin.
  Context {S : Type}.
  Variable step : S -> ast -> S.
  Variable emit : S -> ast -> list rep.

  Lemma detect_origin : forall t s r, In r (detect step emit s t) -> exists s' n, subtree n t /\ In r (emit s' n).
  Proof.
    induction t as [i ks IH] using ast_ind'. intros s r H. cbn [detect] in H. apply in_app_or in H. destruct H as [H|H].
    - exists s, (Node i ks). split; [apply subtree_refl|exact H].
    - apply in_flat_map in H. destruct H as [x [Hx H]].
      rewrite Forall_forall in IH. destruct (IH x Hx _ _ H) as [s' [n [Hs He]]].
      exists s', n. split; [|exact He]. cbn [subtree]. right. clear - Hx Hs.
      induction ks as [|y ys IHys]; [destruct Hx|]. destruct Hx as [->|Hx]; [now left|right; now apply IHys].
  Qed.
End Origin.

Theorem print_location_recorded allow file r : In r (print_reports allow file) ->
  exists t n, In t file /\ subtree n t /\ ncls n = pr_call_cls /\ is_print_call (erase n) = true
              /\ r = (line (ninfo n), col (ninfo n), "", "").
Proof.
  unfold print_reports, detectF. intros H. apply in_flat_map in H. destruct H as [t [Ht H]].
  destruct (detect_origin _ _ _ _ _ H) as [s' [n [Hs He]]]. exists t, n. split; [exact Ht|]. split; [exact Hs|].
  unfold pr_emit in He. destruct (is_cls pr_call_cls n) eqn:E1; cbn [andb] in He; [|destruct He].
  destruct (is_print_call (erase n)) eqn:E2; cbn [andb] in He; [|destruct He].
  destruct (negb _); [|destruct He]. destruct He as [<-|[]].
  unfold is_cls in E1. apply String.eqb_eq in E1. auto.
Qed.

Lemma print_call_class : pr_call_cls = "Call".
Proof. reflexivity. Qed.
