(* Proofs/IgnoreStr2.v — facts about the literal-driven searches of Model/PyStr.v: counting across a literal,
   the two regex templates located at the single occurrence of their key word, strip on directive lines,
   and the line splitters on "\n"-joined texts. *)
From TL Require Import Lib.Base Model.PyStr Model.Ignore Model.IgnoreSpec Proofs.IgnoreStr.

(* ---------- misc ---------- *)
Lemma all_chars_app p a b : all_chars p (a ++ b) = all_chars p a && all_chars p b.
Proof. induction a as [|c a IH]; cbn [append all_chars]; [reflexivity|]. now rewrite IH, andb_assoc. Qed.

Lemma prefixb_trans a b s : prefixb a b = true -> prefixb b s = true -> prefixb a s = true.
Proof.
  revert b s. induction a as [|x a IH]; intros b s H1 H2; [apply prefixb_nil|].
  destruct b as [|y b]; cbn [prefixb] in H1; [discriminate|].
  destruct s as [|z s]; cbn [prefixb] in H2; [discriminate|].
  apply andb_true_iff in H1 as [E1 H1]. apply andb_true_iff in H2 as [E2 H2].
  apply Ascii.eqb_eq in E1, E2. subst. cbn [prefixb]. rewrite Ascii.eqb_refl. cbn [andb]. now apply (IH b s).
Qed.

Lemma existsb_map {A B} (f : A -> B) (p : B -> bool) l : existsb p (map f l) = existsb (fun x => p (f x)) l.
Proof. induction l as [|x l IH]; cbn [map existsb]; [reflexivity|now rewrite IH]. Qed.

(* ---------- counting across a literal ---------- *)
(* no proper prefix of k is a suffix of lit: occurrences of k cannot straddle the end of lit *)
Fixpoint sfree (k lit : string) : bool :=
  match lit with
  | EmptyString => true
  | String c r => ((String.length k <=? String.length lit) || negb (prefixb lit k)) && sfree k r
  end.

Lemma prefixb_lit_ext : forall k u X, u <> EmptyString ->
  (String.length k <=? String.length u) || negb (prefixb u k) = true -> prefixb k (u ++ X) = prefixb k u.
Proof.
  induction k as [|x k IH]; intros u X Hu H; [now rewrite !prefixb_nil|].
  destruct u as [|y u]; [congruence|]. cbn [append prefixb].
  destruct (Ascii.eqb x y) eqn:E; cbn [andb]; [|reflexivity].
  apply Ascii.eqb_eq in E. subst y.
  destruct u as [|z u].
  - cbn [String.length prefixb] in H. rewrite Ascii.eqb_refl in H. cbn [andb] in H.
    destruct k as [|w k]; [reflexivity|]. cbn [String.length Nat.leb prefixb negb orb] in H. discriminate.
  - apply IH; [congruence|]. cbn [String.length prefixb] in H. rewrite Ascii.eqb_refl in H. cbn [andb] in H.
    exact H.
Qed.

Lemma count_app_lit k lit X : k <> EmptyString -> sfree k lit = true ->
  count_occ k (lit ++ X) = count_occ k lit + count_occ k X.
Proof.
  intros Hk. induction lit as [|c r IH]; intro H.
  - cbn [append]. rewrite (count_occ_unfold k ""). destruct k; [congruence|]. reflexivity.
  - cbn [sfree] in H. apply andb_true_iff in H as [H1 H2].
    change (String c r ++ X)%string with (String c (r ++ X)).
    rewrite (count_occ_unfold k (String c (r ++ X))), (count_occ_unfold k (String c r)).
    change (String c (r ++ X)) with (String c r ++ X)%string.
    rewrite (prefixb_lit_ext k (String c r) X); [|congruence|exact H1].
    rewrite (IH H2). lia.
Qed.

(* leading characters that differ from the first letter of k do not count *)
Lemma count_skip k x c s : k = String x (match k with String _ r => r | _ => EmptyString end) ->
  Ascii.eqb x c = false -> count_occ k (String c s) = count_occ k s.
Proof. intros -> E. rewrite count_occ_unfold. cbn [prefixb]. rewrite E. reflexivity. Qed.

Lemma count_indent ind X : indent_ok ind = true -> count_occ K (ind ++ X) = count_occ K X.
Proof.
  induction ind as [|c ind IH]; intro H; [reflexivity|].
  cbn [indent_ok all_chars] in H. apply andb_true_iff in H as [Hc H]. cbn [append].
  rewrite count_occ_unfold. unfold K at 1. cbn [prefixb].
  assert (E : Ascii.eqb "i" c = false).
  { unfold is in Hc. apply orb_true_iff in Hc as [Hc|Hc]; apply Ascii.eqb_eq in Hc; subst c; reflexivity. }
  rewrite E. cbn [andb plus]. now apply IH.
Qed.

Lemma kfree_count s : kfree s = true -> count_occ K (lower s) = 0.
Proof. unfold kfree. intro H. apply negb_true_iff in H. now apply contains_false_count. Qed.

(* ---------- the regex templates ---------- *)
Lemma prefix_lit_lower ci lit s : prefix_lit ci lit s = true -> prefixb (lower lit) (lower s) = true.
Proof.
  unfold prefix_lit. destruct ci; intro H.
  - rewrite lower_stake in H. rewrite <- (lower_length lit) in H. now rewrite prefixb_stake in H.
  - now apply prefixb_lower.
Qed.

Lemma re_bracket_unfold ci lit s :
  re_bracket ci lit s =
  match (if prefix_lit ci (lit ++ "[") s then until_rbracket (sdrop (S (String.length lit)) s) EmptyString else None) with
  | Some g => Some g
  | None => match s with EmptyString => None | String _ r => re_bracket ci lit r end
  end.
Proof. destruct s; reflexivity. Qed.

Lemma re_space_unfold ci lit s :
  re_space ci lit s =
  match (if prefix_lit ci lit s then space_group (sdrop (String.length lit) s) else None) with
  | Some g => Some g
  | None => match s with EmptyString => None | String _ r => re_space ci lit r end
  end.
Proof. destruct s; reflexivity. Qed.

Lemma re_bracket_skip ci lit : forall A B,
  (forall a b, A = (a ++ b)%string -> b <> EmptyString -> prefix_lit ci (lit ++ "[") (b ++ B) = false) ->
  re_bracket ci lit (A ++ B) = re_bracket ci lit B.
Proof.
  induction A as [|c A IH]; intros B H; [reflexivity|].
  cbn [append]. rewrite re_bracket_unfold.
  change (String c (A ++ B)) with (String c A ++ B)%string.
  rewrite (H "" (String c A) eq_refl) by congruence.
  apply IH. intros a b E Hb. apply (H (String c a) b); [cbn [append]; now rewrite E|exact Hb].
Qed.

Lemma re_space_skip ci lit : forall A B,
  (forall a b, A = (a ++ b)%string -> b <> EmptyString -> prefix_lit ci lit (b ++ B) = false) ->
  re_space ci lit (A ++ B) = re_space ci lit B.
Proof.
  induction A as [|c A IH]; intros B H; [reflexivity|].
  cbn [append]. rewrite re_space_unfold.
  change (String c (A ++ B)) with (String c A ++ B)%string.
  rewrite (H "" (String c A) eq_refl) by congruence.
  apply IH. intros a b E Hb. apply (H (String c a) b); [cbn [append]; now rewrite E|exact Hb].
Qed.

Lemma lower_nonempty b : b <> EmptyString -> lower b <> EmptyString.
Proof. destruct b; cbn [lower]; congruence. Qed.

(* a literal that starts with K can only match where K occurs in the lowered text *)
Lemma lit_needs_K ci lit A B Q a b :
  prefixb K (lower lit) = true -> lower B = (K ++ Q)%string -> count_occ K (lower A ++ K ++ Q) = 1 ->
  A = (a ++ b)%string -> b <> EmptyString -> prefix_lit ci lit (b ++ B) = false.
Proof.
  intros HK HB Hc E Hb. destruct (prefix_lit ci lit (b ++ B)) eqn:P; [|reflexivity].
  apply prefix_lit_lower in P. rewrite lower_app, HB in P.
  pose proof (prefixb_trans _ _ _ HK P) as P2.
  rewrite (unique_occ_before K Q (lower A) (lower a) (lower b)) in P2;
    [discriminate| now rewrite E, lower_app | now apply lower_nonempty | exact Hc].
Qed.

Lemma lower_lit_bracket lit : lower (lit ++ "[") = (lower lit ++ "[")%string.
Proof. now rewrite lower_app. Qed.

Lemma re_bracket_locate ci lit A B Q :
  prefixb K (lower lit) = true -> lower B = (K ++ Q)%string -> count_occ K (lower A ++ K ++ Q) = 1 ->
  re_bracket ci lit (A ++ B) = re_bracket ci lit B.
Proof.
  intros HK HB Hc. apply re_bracket_skip. intros a b E Hb.
  apply (lit_needs_K ci (lit ++ "[") A B Q a b); try assumption.
  rewrite lower_lit_bracket. now apply prefixb_ext.
Qed.

Lemma re_space_locate ci lit A B Q :
  prefixb K (lower lit) = true -> lower B = (K ++ Q)%string -> count_occ K (lower A ++ K ++ Q) = 1 ->
  re_space ci lit (A ++ B) = re_space ci lit B.
Proof.
  intros HK HB Hc. apply re_space_skip. intros a b E Hb.
  now apply (lit_needs_K ci lit A B Q a b).
Qed.

(* where K does not occur there is no match at all *)
Lemma re_bracket_none ci lit : prefixb K (lower lit) = true ->
  forall u, count_occ K (lower u) = 0 -> re_bracket ci lit u = None.
Proof.
  intros HK. induction u as [|c u IH]; intro Hc; rewrite re_bracket_unfold.
  - destruct (prefix_lit ci (lit ++ "[") "") eqn:P; [|reflexivity].
    apply prefix_lit_lower in P. rewrite lower_lit_bracket in P. apply (prefixb_app_inv (lower lit) "[") in P.
    pose proof (prefixb_trans _ _ _ HK P) as P2. rewrite count_occ_unfold in Hc. rewrite P2 in Hc. discriminate.
  - cbn [lower] in Hc. rewrite count_occ_unfold in Hc.
    destruct (prefix_lit ci (lit ++ "[") (String c u)) eqn:P.
    + apply prefix_lit_lower in P. rewrite lower_lit_bracket in P. apply (prefixb_app_inv (lower lit) "[") in P.
      pose proof (prefixb_trans _ _ _ HK P) as P2. cbn [lower] in P2. rewrite P2 in Hc. discriminate.
    + apply IH. destruct (prefixb K (String (lower_ascii c) (lower u))); cbn [plus] in Hc; [discriminate|exact Hc].
Qed.

Lemma re_space_none ci lit : prefixb K (lower lit) = true ->
  forall u, count_occ K (lower u) = 0 -> re_space ci lit u = None.
Proof.
  intros HK. induction u as [|c u IH]; intro Hc; rewrite re_space_unfold.
  - destruct (prefix_lit ci lit "") eqn:P; [|reflexivity].
    apply prefix_lit_lower in P.
    pose proof (prefixb_trans _ _ _ HK P) as P2. rewrite count_occ_unfold in Hc. rewrite P2 in Hc. discriminate.
  - cbn [lower] in Hc. rewrite count_occ_unfold in Hc.
    destruct (prefix_lit ci lit (String c u)) eqn:P.
    + apply prefix_lit_lower in P.
      pose proof (prefixb_trans _ _ _ HK P) as P2. cbn [lower] in P2. rewrite P2 in Hc. discriminate.
    + apply IH. destruct (prefixb K (String (lower_ascii c) (lower u))); cbn [plus] in Hc; [discriminate|exact Hc].
Qed.

(* the bracket group: the text up to the closing bracket *)
Lemma until_rbracket_ok : forall t acc rest,
  all_chars (fun c => negb (is c93 c)) t = true -> (nonempty t || nonempty acc = true) ->
  until_rbracket (t ++ String c93 rest) acc = Some (srev acc ++ t)%string.
Proof.
  induction t as [|c t IH]; intros acc rest H Hne.
  - cbn [append until_rbracket]. unfold is. rewrite Ascii.eqb_refl.
    destruct acc; [discriminate|]. now rewrite sapp_nil_r.
  - cbn [all_chars] in H. apply andb_true_iff in H as [Hc H]. apply negb_true_iff in Hc.
    cbn [append until_rbracket]. rewrite Hc. rewrite (IH (String c acc) rest H) by (cbn [nonempty]; apply orb_true_r).
    rewrite srev_cons, sapp_assoc. reflexivity.
Qed.

(* ---------- words ---------- *)
(* a visible ASCII character: below 128 and not white space *)
Definition vchar (c : ascii) : bool := match c with Ascii _ _ _ _ _ _ _ b7 => negb b7 end && negb (ws1 c).

Lemma wchar_vchar c : wchar c = true -> vchar c = true.
Proof. unfold wchar, vchar. intro H. now apply andb_true_iff in H as [H _]. Qed.

Lemma vchar_ws_len c r : vchar c = true -> ws_len (String c r) = 0.
Proof.
  unfold vchar. intro H. apply andb_true_iff in H as [H7 Hws].
  apply negb_true_iff in Hws. unfold ws_len. rewrite Hws.
  destruct c as [b0 b1 b2 b3 b4 b5 b6 b7]. apply negb_true_iff in H7. subst b7.
  destruct b0, b1, b2, b3, b4, b5, b6; reflexivity.
Qed.

Lemma wchar_ws_len c r : wchar c = true -> ws_len (String c r) = 0.
Proof. intro H. apply vchar_ws_len. now apply wchar_vchar. Qed.

Lemma wchar_not_hash c : wchar c = true -> is c35 c = false.
Proof. unfold wchar. intro H. apply andb_true_iff in H as [_ H]. now apply negb_true_iff in H. Qed.

Lemma word_fuel_word : forall w fuel acc, word_ok w = true -> String.length w <= fuel ->
  word_fuel fuel w acc = (srev_app w acc, EmptyString).
Proof.
  induction w as [|c w IH]; intros fuel acc H L.
  - destruct fuel; reflexivity.
  - cbn [word_ok all_chars] in H. apply andb_true_iff in H as [Hc H]. cbn [String.length] in L.
    destruct fuel as [|fuel]; [lia|]. cbn [word_fuel]. rewrite (wchar_not_hash c Hc), (wchar_ws_len c w Hc).
    cbn [srev_app]. apply IH; [exact H|lia].
Qed.

Lemma skip_ws_fuel_word w fuel : (w = EmptyString \/ exists c r, w = String c r /\ wchar c = true) -> skip_ws_fuel fuel w = w.
Proof.
  intros [->|(c & r & -> & Hc)]; destruct fuel; try reflexivity; cbn [skip_ws_fuel].
  now rewrite (wchar_ws_len c r Hc).
Qed.

Lemma skip_ws_space_word c w : wchar c = true -> skip_ws (String " " (String c w)) = String c w.
Proof.
  intro Hc. unfold skip_ws. cbn [String.length]. cbn [skip_ws_fuel].
  change (ws_len (String " " (String c w))) with 1. cbn [sdrop].
  now rewrite (wchar_ws_len c w Hc).
Qed.

Lemma space_group_word c w : wchar c = true -> word_ok w = true ->
  space_group (String " " (String c w)) = Some (String c w).
Proof.
  intros Hc Hw. unfold space_group. rewrite (skip_ws_space_word c w Hc). cbv zeta.
  assert (E : (String.length (String c w) =? String.length (String " " (String c w))) = false).
  { cbn [String.length]. apply Nat.eqb_neq. lia. }
  rewrite E.
  rewrite (word_fuel_word (String c w) (String.length (String c w)) EmptyString); [|cbn [word_ok all_chars]; now rewrite Hc|lia].
  cbn [String.length Nat.eqb more_words_fuel].
  change (srev_app (String c w) "") with (srev (String c w)). now rewrite srev_involutive.
Qed.

(* ---------- strip ---------- *)
Lemma lstrip_fuel_drop : forall fuel s, exists k, lstrip_fuel fuel s = sdrop k s.
Proof.
  induction fuel as [|f IH]; intro s; [now exists 0|]. cbn [lstrip_fuel].
  destruct (ws_len s) as [|k]; [now exists 0|].
  destruct (IH (sdrop (S k) s)) as [j E]. exists (j + S k). rewrite E.
  clear. revert s. generalize (S k) as m. intros m. revert j. induction m as [|m IH]; intros j s.
  - now rewrite Nat.add_0_r.
  - destruct s as [|c s]; cbn [sdrop].
    + destruct j; reflexivity.
    + rewrite Nat.add_succ_r. cbn [sdrop]. apply IH.
Qed.

Lemma lstrip_rev_fuel_drop : forall fuel s, exists k, lstrip_rev_fuel fuel s = sdrop k s.
Proof.
  induction fuel as [|f IH]; intro s; [now exists 0|]. cbn [lstrip_rev_fuel].
  destruct (ws_len_rev s) as [|k]; [now exists 0|].
  destruct (IH (sdrop (S k) s)) as [j E]. exists (j + S k). rewrite E.
  clear. revert s. generalize (S k) as m. intros m. revert j. induction m as [|m IH]; intros j s.
  - now rewrite Nat.add_0_r.
  - destruct s as [|c s]; cbn [sdrop].
    + destruct j; reflexivity.
    + rewrite Nat.add_succ_r. cbn [sdrop]. apply IH.
Qed.

(* strip keeps a contiguous piece of the text *)
Lemma strip_substring s : exists a b, s = (a ++ strip s ++ b)%string.
Proof.
  unfold strip, rstrip, lstrip.
  destruct (lstrip_fuel_drop (String.length s) s) as [k Ek]. rewrite Ek.
  set (m := sdrop k s).
  destruct (lstrip_rev_fuel_drop (String.length m) (srev m)) as [j Ej]. rewrite Ej.
  exists (stake k s), (srev (stake j (srev m))).
  rewrite <- srev_app_distr, stake_sdrop, srev_involutive. unfold m. now rewrite stake_sdrop.
Qed.

Lemma contains_lower_strip n s : containsb n (lower (strip s)) = true -> containsb n (lower s) = true.
Proof.
  intro H. destruct (strip_substring s) as (a & b & E). rewrite E at 1. rewrite !lower_app.
  apply containsb_app_r, containsb_app_l, H.
Qed.

Lemma lstrip_fuel_indent : forall ind fuel body, indent_ok ind = true -> String.length ind <= fuel -> ws_len body = 0 ->
  lstrip_fuel fuel (ind ++ body) = body.
Proof.
  induction ind as [|c ind IH]; intros fuel body H L Hb.
  - cbn [append]. destruct fuel; [reflexivity|]. cbn [lstrip_fuel]. now rewrite Hb.
  - cbn [indent_ok all_chars] in H. apply andb_true_iff in H as [Hc H]. cbn [String.length] in L.
    destruct fuel as [|fuel]; [lia|]. cbn [append lstrip_fuel].
    assert (E : ws_len (String c (ind ++ body)) = 1).
    { unfold is in Hc. apply orb_true_iff in Hc as [Hc|Hc]; apply Ascii.eqb_eq in Hc; subst c; reflexivity. }
    rewrite E. cbn [sdrop]. apply IH; [exact H|lia|exact Hb].
Qed.

Lemma ws_len_rev_wchar c r : vchar c = true -> ws_len_rev (String c r) = 0.
Proof.
  unfold vchar. intro H. apply andb_true_iff in H as [H7 Hws].
  apply negb_true_iff in Hws. unfold ws_len_rev. rewrite Hws.
  destruct c as [b0 b1 b2 b3 b4 b5 b6 b7]. apply negb_true_iff in H7. subst b7.
  destruct r as [|d [|e r2]]; [reflexivity| |].
  - destruct b0, b1, b2, b3, b4, b5, b6; cbn; rewrite ?andb_false_r; reflexivity.
  - destruct b0, b1, b2, b3, b4, b5, b6; cbn; rewrite ?andb_false_r; reflexivity.
Qed.

Lemma rstrip_last body c : vchar c = true -> rstrip (body ++ String c "") = (body ++ String c "")%string.
Proof.
  intro Hc. unfold rstrip. rewrite srev_app_distr. change (srev (String c "")) with (String c "").
  cbn [append]. set (n := String.length (body ++ String c "")).
  destruct n; cbn [lstrip_rev_fuel].
  - change (String c (srev body)) with (String c "" ++ srev body)%string.
    rewrite <- (srev_involutive (String c "")) at 1. rewrite <- srev_app_distr. now rewrite srev_involutive.
  - rewrite (ws_len_rev_wchar c (srev body) Hc).
    change (String c (srev body)) with (String c "" ++ srev body)%string.
    rewrite <- (srev_involutive (String c "")) at 1. rewrite <- srev_app_distr. now rewrite srev_involutive.
Qed.

(* a directive comment line: indentation, then a body that starts and ends with a visible ASCII character *)
Lemma strip_indent_body ind h body c :
  indent_ok ind = true -> vchar h = true -> vchar c = true ->
  strip (ind ++ String h (body ++ String c "")) = String h (body ++ String c "").
Proof.
  intros Hi Hh Hc. unfold strip, lstrip.
  rewrite (lstrip_fuel_indent ind _ (String h (body ++ String c "")) Hi); [| rewrite slen_app; lia | now apply vchar_ws_len].
  change (String h (body ++ String c "")) with ((String h body) ++ String c "")%string.
  now apply rstrip_last.
Qed.

(* ---------- line splitting ---------- *)
Lemma split_newlines_aux_line : forall l cur rest, no_newline l = true ->
  split_newlines_aux (l ++ String c10 rest) cur = (srev cur ++ l)%string :: split_newlines_aux rest EmptyString.
Proof.
  induction l as [|c l IH]; intros cur rest H.
  - cbn [append split_newlines_aux]. unfold is. rewrite Ascii.eqb_refl. now rewrite sapp_nil_r.
  - cbn [no_newline all_chars] in H. apply andb_true_iff in H as [Hc H]. apply andb_true_iff in Hc as [H10 H13].
    apply negb_true_iff in H10, H13. cbn [append split_newlines_aux]. rewrite H10, H13.
    rewrite (IH (String c cur) rest H). rewrite srev_cons, sapp_assoc. reflexivity.
Qed.

Lemma split_newlines_join ls : forallb no_newline ls = true -> split_newlines (join_lines ls) = ls.
Proof.
  unfold split_newlines. induction ls as [|l ls IH]; intro H; [reflexivity|].
  cbn [forallb] in H. apply andb_true_iff in H as [Hl H]. cbn [join_lines]. unfold nl. cbn [append].
  rewrite (split_newlines_aux_line l EmptyString (join_lines ls) Hl). cbn [srev srev_app append].
  now rewrite (IH H).
Qed.

Lemma splitlines_aux_line : forall l cur rest, no_newline l = true -> no_ubreak l = true ->
  splitlines_aux (l ++ String c10 rest) cur = (srev cur ++ l)%string :: splitlines_aux rest EmptyString.
Proof.
  induction l as [|c l IH]; intros cur rest H U.
  - cbn [append splitlines_aux]. change (brk1 c10) with true. now rewrite sapp_nil_r.
  - cbn [no_newline all_chars] in H. apply andb_true_iff in H as [Hc H]. apply andb_true_iff in Hc as [H10 H13].
    apply negb_true_iff in H13.
    cbn [no_ubreak] in U. apply andb_true_iff in U as [U U4]. apply andb_true_iff in U as [U U3].
    apply andb_true_iff in U as [U1 U2]. apply negb_true_iff in U1.
    assert (Step : splitlines_aux (String c l ++ String c10 rest) cur = splitlines_aux (l ++ String c10 rest) (String c cur)).
    { cbn [append splitlines_aux]. rewrite U1, H13.
      destruct (is c194 c) eqn:E194.
      - destruct l as [|d l]; cbn [append].
        + change (is c133 c10) with false. reflexivity.
        + apply negb_true_iff in U2. now rewrite U2.
      - destruct (is c226 c) eqn:E226; [|reflexivity].
        destruct l as [|d [|e l]]; cbn [append].
        + destruct rest as [|r1 rest]; [reflexivity|]. change (is c128 c10) with false. reflexivity.
        + change (is c168 c10) with false. change (is c169 c10) with false. now rewrite andb_false_r.
        + apply negb_true_iff in U3. now rewrite U3. }
    rewrite Step. rewrite (IH (String c cur) rest H U4). rewrite srev_cons, sapp_assoc. reflexivity.
Qed.

Lemma splitlines_join ls : forallb no_newline ls = true -> forallb no_ubreak ls = true -> splitlines (join_lines ls) = ls.
Proof.
  unfold splitlines. induction ls as [|l ls IH]; intros H U; [reflexivity|].
  cbn [forallb] in H, U. apply andb_true_iff in H as [Hl H]. apply andb_true_iff in U as [Ul U]. cbn [join_lines]. unfold nl. cbn [append].
  rewrite (splitlines_aux_line l EmptyString (join_lines ls) Hl Ul). cbn [srev srev_app append].
  now rewrite (IH H U).
Qed.
