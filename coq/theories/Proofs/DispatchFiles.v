(* Proofs/DispatchFiles.v - C15: several paths in one invocation and symbolic links.  The language a file is analysed
   as is a function of that file's own name and first line: not of the files linted before or after it, not of the
   name of the file a symbolic link points to. *)
From Coq Require Import Permutation.
From TL Require Import Lib.Base Model.DispatchTypes Gen.DispatchGen Model.Dispatch Proofs.DispatchStr Proofs.DispatchMain.

(* the two facts read from the source (translator item detect_locality), re-proved by computation on every run *)
Lemma detect_arg_not_resolved : detect_arg_resolved = false.
Proof. reflexivity. Qed.
Lemma detect_stateless_true : detect_stateless = true.
Proof. reflexivity. Qed.

Lemma seen_file_own e : seen_file e = e_file e.
Proof. unfold seen_file. rewrite detect_arg_not_resolved. reflexivity. Qed.

Lemma entry_lang_own q e : entry_lang q e = detect q (e_file e).
Proof. unfold entry_lang. now rewrite seen_file_own. Qed.

Lemma run_with_lang_detect q cmd c t f : run_with_lang q cmd c t f (detect q f) = run_cmd q cmd c t f.
Proof. reflexivity. Qed.

Lemma run_entry_own q cmd c e : run_entry q cmd c e = run_cmd q cmd c (e_tab e) (e_file e).
Proof. unfold run_entry. rewrite entry_lang_own. apply run_with_lang_detect. Qed.

(* every path of a run gets the language of its own name and first line *)
Theorem run_langs_local q es : run_langs q es = map (fun e => detect q (e_file e)) es.
Proof. unfold run_langs. apply map_ext. intros e. apply entry_lang_own. Qed.

Theorem language_is_local q pre e post :
  nth_error (run_langs q (pre ++ e :: post)) (List.length pre) = Some (detect q (e_file e)).
Proof.
  rewrite run_langs_local, map_app. cbn [map].
  rewrite nth_error_app2 by (rewrite map_length; lia).
  rewrite map_length, Nat.sub_diag. reflexivity.
Qed.

(* ... in particular whatever the name is a symbolic link to, and whatever oracle comes with it *)
Theorem link_target_irrelevant q cmd c f tg1 tg2 t :
  entry_lang q (mk_entry f tg1 t) = entry_lang q (mk_entry f tg2 t)
  /\ run_entry q cmd c (mk_entry f tg1 t) = run_entry q cmd c (mk_entry f tg2 t).
Proof. split; [now rewrite !entry_lang_own | now rewrite !run_entry_own]. Qed.

(* a run over several paths prints exactly the per-file specification, file by file *)
Theorem run_files_exact q cmd c es :
  q_name_exemption_ext_case q = false ->
  is_command cmd = true -> cfg_clean c = true ->
  forallb (fun e => atab_good (e_tab e)) es = true ->
  run_files q cmd c es = Ok (spec_files cmd es).
Proof.
  intros Hq Hc Ho. induction es as [|e r IH]; intros G; [reflexivity|].
  cbn [forallb] in G. apply andb_true_iff in G. destruct G as [Ge Gr].
  cbn [run_files]. rewrite run_entry_own, (run_cmd_exact_flag_off q cmd c _ _ Hq Hc Ge Ho), (IH Gr).
  reflexivity.
Qed.

Definition out_list (o : outcome) : list viol := match o with Ok a => a | Aborted => [] end.

Lemma run_files_ok q cmd c es vs :
  run_files q cmd c es = Ok vs -> vs = flat_map (fun e => out_list (run_entry q cmd c e)) es.
Proof.
  revert vs. induction es as [|e r IH]; intros vs H; cbn [run_files] in H.
  - now inversion H.
  - destruct (run_entry q cmd c e) as [a|] eqn:Ea; [|discriminate].
    destruct (run_files q cmd c r) as [b|] eqn:Eb; [|discriminate].
    inversion H; subst vs. cbn [flat_map]. rewrite Ea. cbn [out_list]. f_equal. now apply IH.
Qed.

(* the order of the paths does not matter, under every quirk vector: the same findings, possibly in another order *)
Theorem run_files_order q cmd c es es' vs vs' :
  Permutation es es' -> run_files q cmd c es = Ok vs -> run_files q cmd c es' = Ok vs' -> Permutation vs vs'.
Proof.
  intros P H H'. rewrite (run_files_ok _ _ _ _ _ H), (run_files_ok _ _ _ _ _ H').
  now apply Permutation_flat_map.
Qed.
