(* Proofs/NestingDisc.v — the discovery layer (Model/NestingDisc.v) finds every function-like node of a file
   exactly once, the trees it walks are the trees whose depth Model/Nesting.v computes (erasure), hence the
   report computed from ONE whole-file parse tree is (a permutation of) the per-function report of
   Model/Nesting.v; and the limit-resolution chain has the documented precedence. *)
From TL Require Import Lib.Base Lib.GenTypes Gen.NestingGen Model.Skel Model.Nesting Model.NestingDisc
     Proofs.NestingTs Proofs.NestingPy Proofs.NestingMain.
Require Import Permutation.

(* ------------------------------------------------------------------ lists *)
Lemma flat_map_flat_map {A B C} (f : A -> list B) (g : B -> list C) l :
  flat_map g (flat_map f l) = flat_map (fun x => flat_map g (f x)) l.
Proof. induction l as [|x xs IH]; cbn [flat_map]; [reflexivity|]. rewrite flat_map_app, IH. reflexivity. Qed.

Lemma flat_map_map_c {A B C} (f : A -> B) (g : B -> list C) l : flat_map g (map f l) = flat_map (fun x => g (f x)) l.
Proof. induction l as [|x xs IH]; cbn [map flat_map]; [reflexivity|]. now rewrite IH. Qed.

Lemma flat_map_perm {A B} (f g : A -> list B) l :
  Forall (fun x => Permutation (f x) (g x)) l -> Permutation (flat_map f l) (flat_map g l).
Proof. induction 1 as [|x xs Hx _ IH]; cbn [flat_map]; [constructor|]. now apply Permutation_app. Qed.

Lemma flat_map_filter {A B} (p : A -> bool) (g : A -> list B) l :
  flat_map g (filter p l) = flat_map (fun x => if p x then g x else []) l.
Proof. induction l as [|x xs IH]; cbn [filter flat_map]; [reflexivity|]. destruct (p x); cbn [flat_map app]; now rewrite IH. Qed.

Lemma flat_map_nil_all {A B} (f : A -> list B) l : (forall x, f x = []) -> flat_map f l = [].
Proof. intros H. induction l as [|x xs IH]; cbn [flat_map]; [reflexivity|]. now rewrite H, IH. Qed.

(* ------------------------------------------------------------------ skeleton side *)
Fixpoint ifs_ok (t : tree) : bool :=
  match t with T k cs => (match k with KIf => else_last cs | _ => true end) && forallb ifs_ok cs end.

Lemma wf_ifs_ok t : (if is_branch (tkind t) then forallb wf (tkids t) else wf t) = true -> ifs_ok t = true.
Proof.
  induction t as [k cs IH] using tree_ind'. cbn [tkind tkids]. intros Hw.
  assert (Hkids : forallb (fun c => if is_branch (tkind c) then forallb wf (tkids c) else wf c) cs = true
                  /\ (match k with KIf => else_last cs | _ => true end) = true).
  { destruct (is_branch k) eqn:Hb.
    - split.
      + rewrite forallb_forall in Hw |- *. intros c Hc. specialize (Hw _ Hc).
        pose proof (wf_not_branch _ Hw) as Hb2. rewrite Hb2. exact Hw.
      + destruct k; try discriminate; reflexivity.
    - cbn [wf] in Hw. rewrite Hb in Hw. cbn [negb andb] in Hw. apply andb_prop in Hw. destruct Hw as [He Hw]. split; [|exact He].
      rewrite forallb_forall in Hw |- *. intros [ck ccs] Hin. specialize (Hw _ Hin). cbn beta iota in Hw. cbn [tkind tkids].
      destruct (is_branch ck); [apply andb_prop in Hw; tauto | exact Hw]. }
  destruct Hkids as [Hkids He]. cbn [ifs_ok]. rewrite He. cbn [andb].
  rewrite forallb_forall in Hkids |- *. rewrite Forall_forall in IH. intros c Hc. apply IH; [exact Hc|]. apply Hkids, Hc.
Qed.

Lemma tree_good_ifs_ok l t : tree_good l t = true -> ifs_ok t = true.
Proof.
  unfold tree_good. intros H. apply andb_prop in H. destruct H as [H _]. apply andb_prop in H. destruct H as [Hw _].
  apply wf_ifs_ok. pose proof (wf_not_branch _ Hw) as Hb. rewrite Hb. exact Hw.
Qed.

Definition mkfn (fk : fkind) (name : string) (line col : nat) (cs : list tree) : fninfo :=
  {| fn_kind := fk; fn_name := name; fn_line := line; fn_col := col; fn_body := cs |}.
Definition fn_tree (f : fninfo) : tree := T (KFn (fn_kind f) (fn_name f) (fn_line f) (fn_col f)) (fn_body f).

Definition thens {D} (tr : tree -> D) (cs : list tree) : list D :=
  flat_map (fun c => if is_branch (tkind c) then [] else [tr c]) cs.

Lemma else_last_nonbranch r : forallb (fun x => negb (is_branch (tkind x))) r = true -> else_last r = true.
Proof.
  induction r as [|[k b] r IH]; [reflexivity|]. cbn [forallb tkind]. intros H. apply andb_prop in H. destruct H as [Hk Hr].
  destruct k; cbn [else_last]; try (apply IH, Hr); discriminate.
Qed.

(* ------------------------------------------------------------------ every function-like node exactly once *)
Section Generic.
  Context {D X : Type}.
  Variables (tr : tree -> D) (co : D -> list X) (head : kind -> list tree -> list X)
            (chain : list tree -> list D) (h : fninfo -> list X).
  Hypothesis H1 : forall k cs, k <> KIf -> co (tr (T k cs)) = head k cs ++ flat_map co (map tr cs).
  Hypothesis H2 : forall k cs, fn_tag k = None -> head k cs = [].
  Hypothesis H3 : forall fk name line col cs, head (KFn fk name line col) cs = h (mkfn fk name line col cs).
  Hypothesis HIf : forall cs, co (tr (T KIf cs)) = flat_map co (thens tr cs) ++ flat_map co (chain cs).
  Hypothesis Hc0 : chain [] = [].
  Hypothesis Hc1 : forall c r, is_branch (tkind c) = false -> chain (c :: r) = chain r.
  Hypothesis Hc2 : forall b r, flat_map co (chain (T KElif b :: r)) = flat_map co (map tr b) ++ flat_map co (chain r).
  Hypothesis Hc3 : forall b r, flat_map co (chain (T KElse b :: r)) = flat_map co (map tr b).

  Definition R (t : tree) : list X := flat_map h (functions_of t).

  Lemma R_unfold k cs :
    R (T k cs) = (match k with KFn fk name line col => h (mkfn fk name line col cs) | _ => [] end) ++ flat_map R cs.
  Proof.
    unfold R. cbn [functions_of]. rewrite flat_map_app, flat_map_flat_map.
    destruct k; cbn [flat_map app]; try reflexivity. unfold mkfn. now rewrite app_nil_r.
  Qed.

  Lemma head_R k cs : head k cs = match k with KFn fk name line col => h (mkfn fk name line col cs) | _ => [] end.
  Proof. destruct k; try (apply H2; reflexivity). apply H3. Qed.

  Lemma chain_nonbranch r : forallb (fun x => negb (is_branch (tkind x))) r = true -> chain r = [].
  Proof.
    induction r as [|c r IH]; [intros _; exact Hc0|]. cbn [forallb]. intros H. apply andb_prop in H. destruct H as [Hk Hr].
    rewrite Hc1; [apply IH, Hr|]. destruct (is_branch (tkind c)); [discriminate|reflexivity].
  Qed.

  Lemma if_case cs :
    else_last cs = true -> Forall (fun c => Permutation (co (tr c)) (R c)) cs ->
    Permutation (flat_map co (thens tr cs) ++ flat_map co (chain cs)) (flat_map R cs).
  Proof.
    induction cs as [|[ck cb] r IH]; intros He HF.
    - unfold thens. cbn [flat_map]. rewrite Hc0. constructor.
    - inversion HF as [|? ? Hc Hr]; subst.
      assert (Hplain : is_branch ck = false -> else_last r = true ->
                       Permutation (flat_map co (thens tr (T ck cb :: r)) ++ flat_map co (chain (T ck cb :: r)))
                                   (flat_map R (T ck cb :: r))).
      { intros Hb He'. unfold thens. cbn [flat_map tkind]. rewrite Hb. cbn [app flat_map]. rewrite (Hc1 (T ck cb) r Hb).
        rewrite <- app_assoc. apply Permutation_app; [exact Hc|]. apply IH; assumption. }
      destruct ck; try (apply Hplain; [reflexivity|exact He]).
      + (* elif *)
        unfold thens. cbn [flat_map tkind is_branch app]. rewrite Hc2. fold (thens tr r).
        rewrite H1 in Hc by discriminate. rewrite (H2 KElif cb eq_refl), R_unfold in Hc. cbn [app] in Hc.
        cbn [else_last] in He. specialize (IH He Hr).
        change (flat_map R (T KElif cb :: r)) with (R (T KElif cb) ++ flat_map R r). rewrite R_unfold. cbn [app].
        rewrite Permutation_app_swap_app. apply Permutation_app; [exact Hc|exact IH].
      + (* else: the last branch *)
        unfold thens. cbn [flat_map tkind is_branch app]. rewrite Hc3. fold (thens tr r).
        rewrite H1 in Hc by discriminate. rewrite (H2 KElse cb eq_refl), R_unfold in Hc. cbn [app] in Hc.
        cbn [else_last] in He. specialize (IH (else_last_nonbranch r He) Hr). rewrite (chain_nonbranch r He), app_nil_r in IH.
        change (flat_map R (T KElse cb :: r)) with (R (T KElse cb) ++ flat_map R r). rewrite R_unfold. cbn [app].
        rewrite Permutation_app_comm. apply Permutation_app; [exact Hc|exact IH].
  Qed.

  Theorem discovered_once t : ifs_ok t = true -> Permutation (co (tr t)) (R t).
  Proof.
    induction t as [k cs IH] using tree_ind'. intros Hok. cbn [ifs_ok] in Hok. apply andb_prop in Hok. destruct Hok as [He Hkids].
    assert (HF : Forall (fun c => Permutation (co (tr c)) (R c)) cs).
    { rewrite Forall_forall in IH |- *. rewrite forallb_forall in Hkids. intros c Hc. apply IH; [exact Hc|apply Hkids, Hc]. }
    assert (Hcommon : k <> KIf -> Permutation (co (tr (T k cs))) (R (T k cs))).
    { intros Hk. rewrite (H1 k cs Hk), R_unfold, head_R. apply Permutation_app_head.
      rewrite flat_map_map_c. apply flat_map_perm, HF. }
    destruct k; try (apply Hcommon; discriminate).
    rewrite HIf, R_unfold. cbn [app]. apply if_case; assumption.
  Qed.

  Lemma discovered_once_list ts :
    forallb ifs_ok ts = true -> Permutation (flat_map co (map tr ts)) (flat_map h (flat_map functions_of ts)).
  Proof.
    intros H. rewrite flat_map_map_c, flat_map_flat_map. apply flat_map_perm.
    rewrite forallb_forall in H. apply Forall_forall. intros t Ht. apply discovered_once, H, Ht.
  Qed.
End Generic.

(* ------------------------------------------------------------------ tree-sitter: erasure *)
Section TsErase.
  Variable nm : tsnames.

  Lemma erase_blkd ty l : ts_erase (blkd ty l) = blk ty (map ts_erase l).
  Proof. unfold blkd, blk. cbn [ts_erase map]. rewrite map_app. reflexivity. Qed.

  Lemma erase_wrap ws l : map ts_erase (wrap_ind ws l) = wrap_in ws (map ts_erase l).
  Proof. induction ws as [|w ws IH]; cbn [wrap_ind wrap_in map ts_erase]; [reflexivity|]. now rewrite IH. Qed.

  Lemma erase_body k l : map ts_erase (body_ofd nm k l) = body_of nm k (map ts_erase l).
  Proof. unfold body_ofd, body_of. rewrite erase_wrap. destruct (n_blocked nm k); cbn [map]; [rewrite erase_blkd|]; reflexivity. Qed.

  Definition PE (t : tree) : Prop :=
    ts_erase (to_tsd nm t) = to_ts nm t /\ map ts_erase (map (to_tsd nm) (tkids t)) = map (to_ts nm) (tkids t).

  Lemma erase_kids cs : Forall PE cs -> map ts_erase (map (to_tsd nm) cs) = map (to_ts nm) cs.
  Proof. induction 1 as [|c cs [Hc _] _ IH]; cbn [map]; [reflexivity|]. now rewrite Hc, IH. Qed.

  Lemma erase_thens cs :
    Forall PE cs ->
    map ts_erase (flat_map (fun c => if is_branch (tkind c) then [] else [to_tsd nm c]) cs)
    = flat_map (fun c => if is_branch (tkind c) then [] else [to_ts nm c]) cs.
  Proof.
    induction 1 as [|c cs [Hc _] _ IH]; cbn [flat_map map]; [reflexivity|]. rewrite map_app, IH.
    destruct (is_branch (tkind c)); cbn [map app]; [reflexivity|now rewrite Hc].
  Qed.

  Definition chain_tsd (cs : list tree) : list tsd :=
    fold_right (fun c acc =>
                  match c with
                  | T KElif b => [ND (n_else nm) None [ND (n_if nm) None (blkd (n_block nm) (map (to_tsd nm) b) :: acc)]]
                  | T KElse b => [ND (n_else nm) None [blkd (n_block nm) (map (to_tsd nm) b)]]
                  | _ => acc
                  end) [] cs.

  Lemma erase_chain cs :
    Forall PE cs ->
    map ts_erase (chain_tsd cs)
    = fold_right (fun c acc =>
                    match c with
                    | T KElif b => [N (n_else nm) [N (n_if nm) (blk (n_block nm) (map (to_ts nm) b) :: acc)]]
                    | T KElse b => [N (n_else nm) [blk (n_block nm) (map (to_ts nm) b)]]
                    | _ => acc
                    end) [] cs.
  Proof.
    induction 1 as [|[ck cb] cs [_ Hc] _ IH]; [reflexivity|]. cbn [tkids] in Hc. unfold chain_tsd in *. cbn [fold_right].
    destruct ck; try exact IH; cbn [map ts_erase]; rewrite erase_blkd, Hc; [rewrite IH|]; reflexivity.
  Qed.

  Lemma erase_to_tsd t : PE t.
  Proof.
    induction t as [k cs IH] using tree_ind'. unfold PE. cbn [tkids]. split; [|apply erase_kids, IH].
    destruct k; try (cbn [to_tsd to_ts ts_erase]; rewrite erase_body, (erase_kids cs IH); reflexivity).
    cbn [to_tsd to_ts ts_erase map]. rewrite erase_blkd, (erase_thens cs IH). f_equal. f_equal. exact (erase_chain cs IH).
  Qed.
End TsErase.

(* ------------------------------------------------------------------ tree-sitter: collection *)
Section TsCollect.
  Variables (nm : tsnames) (ftypes : list string).
  Context {X : Type}.
  Variable g : tsd -> list X.
  Hypothesis Hg : forall ty cs, g (ND ty None cs) = [].

  Definition tco (n : tsd) : list X := flat_map g (ts_collect ftypes n).

  Lemma tco_node ty tag cs : tco (ND ty tag cs) = (if smem ty ftypes then g (ND ty tag cs) else []) ++ flat_map tco cs.
  Proof.
    unfold tco. cbn [ts_collect]. rewrite flat_map_app, flat_map_flat_map.
    destruct (smem ty ftypes); cbn [flat_map app]; [rewrite app_nil_r|]; reflexivity.
  Qed.

  Lemma tco_untagged ty cs : tco (ND ty None cs) = flat_map tco cs.
  Proof. rewrite tco_node. destruct (smem ty ftypes); [rewrite Hg|]; reflexivity. Qed.

  Lemma tco_blkd ty l : tco (blkd ty l) = flat_map tco l.
  Proof.
    unfold blkd. rewrite tco_untagged. cbn [flat_map]. rewrite flat_map_app. cbn [flat_map].
    rewrite !tco_untagged. cbn [flat_map app]. now rewrite !app_nil_r.
  Qed.

  Lemma tco_wrap ws l : flat_map tco (wrap_ind ws l) = flat_map tco l.
  Proof. induction ws as [|w ws IH]; cbn [wrap_ind]; [reflexivity|]. cbn [flat_map]. now rewrite tco_untagged, app_nil_r. Qed.

  Lemma tco_body k l : flat_map tco (body_ofd nm k l) = flat_map tco l.
  Proof. unfold body_ofd. rewrite tco_wrap. destruct (n_blocked nm k); [|reflexivity]. cbn [flat_map]. now rewrite tco_blkd, app_nil_r. Qed.

  Definition thead (k : kind) (cs : list tree) : list X :=
    if smem (n_of nm k) ftypes then g (ND (n_of nm k) (fn_tag k) (body_ofd nm k (map (to_tsd nm) cs))) else [].

  Definition th_fn (f : fninfo) : list X :=
    if smem (n_of nm (KFn (fn_kind f) (fn_name f) (fn_line f) (fn_col f))) ftypes then g (to_tsd nm (fn_tree f)) else [].

  Theorem ts_discovered_once ts :
    forallb ifs_ok ts = true ->
    Permutation (flat_map tco (map (to_tsd nm) ts)) (flat_map th_fn (flat_map functions_of ts)).
  Proof.
    apply (discovered_once_list (to_tsd nm) tco thead (chain_tsd nm) th_fn).
    - intros k cs Hk. destruct k; try congruence; cbn [to_tsd]; rewrite tco_node, tco_body; reflexivity.
    - intros k cs Hk. unfold thead. rewrite Hk. destruct (smem (n_of nm k) ftypes); [apply Hg|reflexivity].
    - intros fk name line col cs. reflexivity.
    - intros cs. cbn [to_tsd]. rewrite tco_untagged. cbn [flat_map]. rewrite tco_blkd. reflexivity.
    - reflexivity.
    - intros [ck cb] r Hb. unfold chain_tsd. cbn [fold_right]. cbn [tkind] in Hb. destruct ck; try reflexivity; discriminate.
    - intros b r. unfold chain_tsd. cbn [fold_right flat_map]. fold (chain_tsd nm r).
      rewrite tco_untagged. cbn [flat_map]. rewrite tco_untagged. cbn [flat_map]. rewrite tco_blkd, !app_nil_r. reflexivity.
    - intros b r. unfold chain_tsd. cbn [fold_right flat_map].
      rewrite tco_untagged. cbn [flat_map]. rewrite tco_blkd, !app_nil_r. reflexivity.
  Qed.
End TsCollect.

Lemma emit_report_fn skip depth limit f :
  emit skip depth limit (Some (fn_name f, fn_line f, fn_col f)) = report_fn true skip depth limit f.
Proof. reflexivity. Qed.

Theorem ts_report_d_perm q limit file :
  forallb ifs_ok file = true -> Permutation (ts_report_d q limit file) (ts_report q limit file).
Proof.
  intros Hok. unfold ts_report_d, ts_root, ts_report, file_functions.
  set (g := fun n => emit ts_skip_cmp (ts_calc_d q n) limit (dtag n)).
  assert (Hg : forall ty cs, g (ND ty None cs) = []) by reflexivity.
  change (flat_map g (ts_collect (ts_fn_types q) (ND "program" None (map (to_tsd ts_names) file))))
    with (tco (ts_fn_types q) g (ND "program" None (map (to_tsd ts_names) file))).
  rewrite (tco_untagged (ts_fn_types q) g Hg).
  rewrite (ts_discovered_once ts_names (ts_fn_types q) g Hg file Hok).
  apply Permutation_refl'. apply flat_map_ext. intros f. unfold th_fn, report_fn.
  change (n_of ts_names (KFn (fn_kind f) (fn_name f) (fn_line f) (fn_col f))) with (ts_ftype (fn_kind f)).
  destruct (smem (ts_ftype (fn_kind f)) (ts_fn_types q)); [|reflexivity].
  unfold g, ts_calc_d. cbn [fn_tree to_tsd dtag fn_tag].
  change (ND (n_of ts_names (KFn (fn_kind f) (fn_name f) (fn_line f) (fn_col f))) (Some (fn_name f, fn_line f, fn_col f))
             (body_ofd ts_names (KFn (fn_kind f) (fn_name f) (fn_line f) (fn_col f)) (map (to_tsd ts_names) (fn_body f))))
    with (to_tsd ts_names (fn_tree f)).
  rewrite (proj1 (erase_to_tsd ts_names (fn_tree f))). reflexivity.
Qed.

Theorem rs_report_d_perm q limit file :
  forallb ifs_ok file = true -> Permutation (rs_report_d q limit file) (rs_report q limit file).
Proof.
  intros Hok. unfold rs_report_d, rs_root, rs_report, file_functions.
  set (g := fun n => emit rs_skip_cmp (rs_calc_d q n) limit (dtag n)).
  assert (Hg : forall ty cs, g (ND ty None cs) = []) by reflexivity.
  change (flat_map g (ts_collect rs_function_types (ND "source_file" None (map (to_tsd rs_names) file))))
    with (tco rs_function_types g (ND "source_file" None (map (to_tsd rs_names) file))).
  rewrite (tco_untagged rs_function_types g Hg).
  rewrite (ts_discovered_once rs_names rs_function_types g Hg file Hok).
  apply Permutation_refl'. apply flat_map_ext. intros f. unfold th_fn, report_fn.
  change (n_of rs_names (KFn (fn_kind f) (fn_name f) (fn_line f) (fn_col f))) with "function_item".
  destruct (smem "function_item" rs_function_types); [|reflexivity].
  unfold g, rs_calc_d. cbn [fn_tree to_tsd dtag fn_tag].
  change (ND (n_of rs_names (KFn (fn_kind f) (fn_name f) (fn_line f) (fn_col f))) (Some (fn_name f, fn_line f, fn_col f))
             (body_ofd rs_names (KFn (fn_kind f) (fn_name f) (fn_line f) (fn_col f)) (map (to_tsd rs_names) (fn_body f))))
    with (to_tsd rs_names (fn_tree f)).
  rewrite (proj1 (erase_to_tsd rs_names (fn_tree f))). reflexivity.
Qed.

(* ------------------------------------------------------------------ Python: ast.walk is a permutation of pre-order *)
Fixpoint py_pre (n : pyd) : list pyd :=
  n :: match n with
       | PDIf b o => flat_map py_pre b ++ flat_map py_pre o
       | PDNode _ _ cs => flat_map py_pre cs
       end.

Lemma py_pre_kids n : py_pre n = n :: flat_map py_pre (py_kids n).
Proof. destruct n as [b o|cls tag cs]; cbn [py_pre py_kids]; [rewrite flat_map_app|]; reflexivity. Qed.

Lemma pyd_size_kids n : pyd_size n = S (list_sum (map pyd_size (py_kids n))).
Proof. destruct n as [b o|cls tag cs]; cbn [pyd_size py_kids]; [rewrite map_app, list_sum_app|]; reflexivity. Qed.

Lemma py_walk_perm fuel : forall todo,
  list_sum (map pyd_size todo) <= fuel -> Permutation (py_walk fuel todo) (flat_map py_pre todo).
Proof.
  induction fuel as [|fuel IH]; intros todo Hsz.
  - destruct todo as [|n r]; [constructor|].
    change (list_sum (map pyd_size (n :: r))) with (pyd_size n + list_sum (map pyd_size r)) in Hsz.
    rewrite pyd_size_kids in Hsz. lia.
  - destruct todo as [|n r]; [constructor|]. cbn [py_walk flat_map]. rewrite py_pre_kids. cbn [app]. constructor.
    rewrite IH.
    + rewrite flat_map_app. apply Permutation_app_comm.
    + change (list_sum (map pyd_size (n :: r))) with (pyd_size n + list_sum (map pyd_size r)) in Hsz.
      rewrite pyd_size_kids in Hsz. rewrite map_app, list_sum_app. lia.
Qed.

(* ------------------------------------------------------------------ Python: erasure *)
Definition PEp (t : tree) : Prop :=
  py_erase (to_pyd t) = to_py t /\ map py_erase (map to_pyd (tkids t)) = map to_py (tkids t).

Lemma perase_kids cs : Forall PEp cs -> map py_erase (map to_pyd cs) = map to_py cs.
Proof. induction 1 as [|c cs [Hc _] _ IH]; cbn [map]; [reflexivity|]. now rewrite Hc, IH. Qed.

Lemma perase_thens cs :
  Forall PEp cs ->
  map py_erase (flat_map (fun c => if is_branch (tkind c) then [] else [to_pyd c]) cs)
  = flat_map (fun c => if is_branch (tkind c) then [] else [to_py c]) cs.
Proof.
  induction 1 as [|c cs [Hc _] _ IH]; cbn [flat_map map]; [reflexivity|]. rewrite map_app, IH.
  destruct (is_branch (tkind c)); cbn [map app]; [reflexivity|now rewrite Hc].
Qed.

Definition chain_pyd (cs : list tree) : list pyd :=
  fold_right (fun c acc =>
                match c with
                | T KElif b => [PDIf (map to_pyd b) acc]
                | T KElse b => map to_pyd b
                | _ => acc
                end) [] cs.

Lemma perase_chain cs : Forall PEp cs -> map py_erase (chain_pyd cs) = fold_right py_chainF [] cs.
Proof.
  induction 1 as [|[ck cb] cs [_ Hc] _ IH]; [reflexivity|]. cbn [tkids] in Hc. unfold chain_pyd in *. cbn [fold_right py_chainF].
  destruct ck; try exact IH; cbn [map py_erase]; [rewrite Hc, IH|rewrite Hc]; reflexivity.
Qed.

Lemma erase_to_pyd t : PEp t.
Proof.
  induction t as [k cs IH] using tree_ind'. unfold PEp. cbn [tkids]. split; [|apply perase_kids, IH].
  destruct k; try (cbn [to_pyd to_py py_erase]; rewrite (perase_kids cs IH); reflexivity).
  rewrite to_py_if. cbn [to_pyd py_erase]. rewrite (perase_thens cs IH). f_equal. exact (perase_chain cs IH).
Qed.

(* ------------------------------------------------------------------ Python: collection *)
Section PyCollect.
  Context {X : Type}.
  Variable g : pyd -> list X.
  Hypothesis HgIf : forall b o, g (PDIf b o) = [].
  Hypothesis HgNone : forall cls cs, g (PDNode cls None cs) = [].

  Definition pco (n : pyd) : list X := flat_map g (py_pre n).

  Lemma pco_if b o : pco (PDIf b o) = flat_map pco b ++ flat_map pco o.
  Proof. unfold pco. cbn [py_pre flat_map]. rewrite HgIf, flat_map_app, !flat_map_flat_map. reflexivity. Qed.

  Lemma pco_node cls tag cs : pco (PDNode cls tag cs) = g (PDNode cls tag cs) ++ flat_map pco cs.
  Proof. unfold pco. cbn [py_pre flat_map]. rewrite flat_map_flat_map. reflexivity. Qed.

  Definition phead (k : kind) (cs : list tree) : list X := g (PDNode (py_cls k) (fn_tag k) (map to_pyd cs)).
  Definition ph_fn (f : fninfo) : list X := g (to_pyd (fn_tree f)).

  Theorem py_discovered_once ts :
    forallb ifs_ok ts = true ->
    Permutation (flat_map pco (map to_pyd ts)) (flat_map ph_fn (flat_map functions_of ts)).
  Proof.
    apply (discovered_once_list to_pyd pco phead chain_pyd ph_fn).
    - intros k cs Hk. destruct k; try congruence; cbn [to_pyd]; rewrite pco_node; reflexivity.
    - intros k cs Hk. unfold phead. rewrite Hk. apply HgNone.
    - intros fk name line col cs. reflexivity.
    - intros cs. cbn [to_pyd]. rewrite pco_if. reflexivity.
    - reflexivity.
    - intros [ck cb] r Hb. unfold chain_pyd. cbn [fold_right]. cbn [tkind] in Hb. destruct ck; try reflexivity; discriminate.
    - intros b r. unfold chain_pyd. cbn [fold_right flat_map]. fold (chain_pyd r). rewrite pco_if, app_nil_r. reflexivity.
    - intros b r. unfold chain_pyd. cbn [fold_right]. reflexivity.
  Qed.
End PyCollect.

Theorem py_report_d_perm q limit file :
  forallb ifs_ok file = true -> Permutation (py_report_d q limit file) (py_report q limit file).
Proof.
  intros Hok. unfold py_report_d, py_find_all, py_report, file_functions.
  rewrite flat_map_filter.
  set (g := fun n => if smem (py_dcls n) py_function_types then emit py_skip_cmp (py_calc_node q n) limit (py_dtag n) else []).
  rewrite (Permutation_flat_map g (py_walk_perm (pyd_size (py_module file)) [py_module file]
                                                ltac:(change (list_sum (map pyd_size [py_module file])) with (pyd_size (py_module file) + 0); lia))).
  cbn [flat_map]. rewrite app_nil_r.
  assert (HgIf : forall b o, g (PDIf b o) = []) by (intros; unfold g; cbn [py_dtag]; destruct (smem _ _); reflexivity).
  assert (HgNone : forall cls cs, g (PDNode cls None cs) = []) by (intros; unfold g; cbn [py_dtag]; destruct (smem _ _); reflexivity).
  change (flat_map g (py_pre (py_module file))) with (pco g (py_module file)).
  unfold py_module. rewrite (pco_node g), HgNone. cbn [app].
  rewrite (py_discovered_once g HgIf HgNone file Hok).
  apply Permutation_refl'. apply flat_map_ext. intros f. unfold ph_fn, g, report_fn. cbn [fn_tree to_pyd py_dcls py_dtag fn_tag].
  change (py_cls (KFn (fn_kind f) (fn_name f) (fn_line f) (fn_col f))) with (py_fn_cls (fn_kind f)).
  destruct (smem (py_fn_cls (fn_kind f)) py_function_types); [|reflexivity].
  unfold py_calc_node, py_calc. cbn [py_kids]. rewrite map_map.
  rewrite (map_ext (fun x => py_visit_src (py_controls q) (py_erase (to_pyd x)) (py_start q) false)
                   (fun s => py_visit_src (py_controls q) (to_py s) (py_start q) false))
    by (intros a; rewrite (proj1 (erase_to_pyd a)); reflexivity).
  reflexivity.
Qed.

(* ------------------------------------------------------------------ whole-file statements *)
Lemma file_good_ifs_ok l file : file_good l file = true -> forallb ifs_ok file = true.
Proof.
  unfold file_good. rewrite !forallb_forall. intros H t Ht. apply (tree_good_ifs_ok l), H, Ht.
Qed.

Theorem report_d_perm l q limit file :
  file_good l file = true -> Permutation (report_d l q limit file) (report l q limit file).
Proof.
  intros Hg. pose proof (file_good_ifs_ok l file Hg) as Hok.
  destruct l; cbn [report_d report]; [apply py_report_d_perm|apply ts_report_d_perm|apply rs_report_d_perm]; exact Hok.
Qed.

(* every function-like node of the file is found exactly once, by each of the three searches *)
Definition tagged_ids (l : list (option ident)) : list ident := flat_map (fun o => match o with Some i => [i] | None => [] end) l.
Definition fn_ident (f : fninfo) : ident := (fn_name f, fn_line f, fn_col f).

Theorem py_every_function_once file :
  forallb ifs_ok file = true ->
  Permutation (tagged_ids (map py_dtag (py_find_all (py_module file))))
              (map fn_ident (filter (fun f => smem (py_fn_cls (fn_kind f)) py_function_types) (file_functions file))).
Proof.
  intros Hok. unfold tagged_ids, py_find_all, file_functions. rewrite flat_map_map_c, flat_map_filter.
  set (g := fun n => if smem (py_dcls n) py_function_types then match py_dtag n with Some i => [i] | None => [] end else []).
  rewrite (Permutation_flat_map g (py_walk_perm (pyd_size (py_module file)) [py_module file]
                                                ltac:(change (list_sum (map pyd_size [py_module file])) with (pyd_size (py_module file) + 0); lia))).
  cbn [flat_map]. rewrite app_nil_r.
  assert (HgIf : forall b o, g (PDIf b o) = []) by (intros; unfold g; cbn [py_dtag]; destruct (smem _ _); reflexivity).
  assert (HgNone : forall cls cs, g (PDNode cls None cs) = []) by (intros; unfold g; cbn [py_dtag]; destruct (smem _ _); reflexivity).
  change (flat_map g (py_pre (py_module file))) with (pco g (py_module file)).
  unfold py_module. rewrite (pco_node g), HgNone. cbn [app].
  rewrite (py_discovered_once g HgIf HgNone file Hok).
  apply Permutation_refl'.
  induction (flat_map functions_of file) as [|f fs IH]; [reflexivity|]. cbn [flat_map filter]. rewrite IH.
  unfold ph_fn, g. cbn [fn_tree to_pyd py_dcls py_dtag fn_tag].
  change (py_cls (KFn (fn_kind f) (fn_name f) (fn_line f) (fn_col f))) with (py_fn_cls (fn_kind f)).
  destruct (smem (py_fn_cls (fn_kind f)) py_function_types); reflexivity.
Qed.

Theorem ts_every_function_once nm ftypes file :
  forallb ifs_ok file = true ->
  Permutation (tagged_ids (map dtag (flat_map (ts_collect ftypes) (map (to_tsd nm) file))))
              (map fn_ident (filter (fun f => smem (n_of nm (KFn (fn_kind f) (fn_name f) (fn_line f) (fn_col f))) ftypes)
                                    (file_functions file))).
Proof.
  intros Hok. unfold tagged_ids, file_functions. rewrite flat_map_map_c, flat_map_flat_map.
  set (g := fun n : tsd => match dtag n with Some i => [i] | None => [] end).
  assert (Hg : forall ty cs, g (ND ty None cs) = []) by reflexivity.
  change (flat_map (fun x => flat_map (fun x0 => match dtag x0 with Some i => [i] | None => [] end) (ts_collect ftypes x))
                   (map (to_tsd nm) file))
    with (flat_map (tco ftypes g) (map (to_tsd nm) file)).
  rewrite (ts_discovered_once nm ftypes g Hg file Hok).
  apply Permutation_refl'.
  induction (flat_map functions_of file) as [|f fs IH]; [reflexivity|]. cbn [flat_map filter]. rewrite IH.
  unfold th_fn. destruct (smem _ ftypes); reflexivity.
Qed.

(* ------------------------------------------------------------------ the limit that applies *)
Lemma lang_block_map name v langs bl :
  lang_block name (map (fun b => if smem (fst b) langs then (fst b, Some v) else b) bl)
  = match lang_block name bl with
    | Some old => Some (if smem name langs then Some v else old)
    | None => None
    end.
Proof.
  induction bl as [|[n o] r IH]; [reflexivity|]. cbn [map fst lang_block].
  destruct (smem n langs) eqn:Hm; cbn [lang_block]; destruct (String.eqb n name) eqn:He.
  - apply String.eqb_eq in He. subst. rewrite Hm. reflexivity.
  - exact IH.
  - apply String.eqb_eq in He. subst. rewrite Hm. reflexivity.
  - exact IH.
Qed.

(* the languages the nesting documentation names *)
Definition nesting_languages : list string := ["python"; "typescript"; "javascript"; "rust"].

Theorem limit_precedence s cli language :
  In language nesting_languages -> effective_limit s cli language = spec_limit s cli language.
Proof.
  intros Hl. unfold effective_limit, spec_limit, from_dict, apply_override.
  change lang_block_fallback_top with true. cbn iota.
  destruct cli as [v|]; cbn [s_top s_langs].
  - rewrite lang_block_map.
    assert (Hm : smem language cli_override_languages = true).
    { cbn [nesting_languages In] in Hl. destruct Hl as [<-|[<-|[<-|[<-|[]]]]]; reflexivity. }
    rewrite Hm. destruct (lang_block language (s_langs s)); reflexivity.
  - destruct (lang_block language (s_langs s)) as [[v|]|]; reflexivity.
Qed.

(* ------------------------------------------------------------------ one parse tree in, exactly the documented report out *)
Theorem ts_report_d_exact q limit file :
  q_ts_elseif_nests q = false -> q_ts_fn_types_from_code q = false -> file_good Ts file = true ->
  Permutation (report_d Ts q limit file) (spec_report limit file).
Proof. intros H1 H2 G. rewrite (report_d_perm Ts q limit file G). cbn [report]. rewrite (ts_report_exact q H1 limit file H2 G). reflexivity. Qed.

Theorem ts_report_d_exact_listed q limit file :
  q_ts_elseif_nests q = false -> file_good Ts file = true -> forallb ts_listed (file_functions file) = true ->
  Permutation (report_d Ts q limit file) (spec_report limit file).
Proof. intros H1 G L. rewrite (report_d_perm Ts q limit file G). cbn [report]. rewrite (ts_report_exact_listed q H1 limit file G L). reflexivity. Qed.

Theorem rs_report_d_exact q limit file :
  q_rs_elseif_nests q = false -> file_good Rs file = true ->
  Permutation (report_d Rs q limit file) (spec_report limit file).
Proof. intros H1 G. rewrite (report_d_perm Rs q limit file G). cbn [report]. rewrite (rs_report_exact q H1 limit file G). reflexivity. Qed.

Theorem py_report_d_exact q limit file :
  q_py_start_from_code q = false -> 1 <= limit -> file_good Py file = true ->
  Permutation (report_d Py q limit file) (spec_report limit file).
Proof. intros H1 L G. rewrite (report_d_perm Py q limit file G). cbn [report]. rewrite (py_report_exact q H1 limit file L G). reflexivity. Qed.

(* the whole chain: configuration section + command line + language -> limit -> report *)
Theorem configured_report_exact l lname q s cli file :
  In lname nesting_languages ->
  q_py_start_from_code q = false -> q_ts_elseif_nests q = false -> q_ts_fn_types_from_code q = false -> q_rs_elseif_nests q = false ->
  1 <= spec_limit s cli lname -> file_good l file = true ->
  Permutation (report_d l q (effective_limit s cli lname) file) (spec_report (spec_limit s cli lname) file).
Proof.
  intros Hn Q1 Q2 Q3 Q4 L G. rewrite (limit_precedence s cli lname Hn).
  destruct l; [apply py_report_d_exact|apply ts_report_d_exact|apply rs_report_d_exact]; assumption.
Qed.
