(* Proofs/SrpCliP.v — the command-line threshold override of `thailint srp` (Model/SrpCli.v, generated from
   structure_quality.py / shared.py) equals its documented meaning (Model/SrpCliSpec.v), and what that meaning
   implies for the limits in force.  A changed key, section name, guard or swapped option in the source breaks
   cli_override_spec (closed by computation over Gen/SrpCliGen.v). *)
From TL Require Import Lib.Base Lib.GenTypes Model.SrpTypes Gen.SrpGen Gen.SrpCliGen Model.SrpSpec Model.Srp Model.SrpCliSpec Model.SrpCli
     Proofs.SrpBase Proofs.SrpMain.

Lemma lookup_set_key_eq {A : Type} k (v : A) l : lookup k (set_key k v l) = Some v.
Proof.
  induction l as [|[k' v'] r IH]; cbn [set_key lookup].
  - now rewrite String.eqb_refl.
  - destruct (String.eqb k k') eqn:E; cbn [lookup]; [now rewrite String.eqb_refl | now rewrite E].
Qed.

Lemma lookup_set_key_neq {A : Type} k k2 (v : A) l : k2 <> k -> lookup k2 (set_key k v l) = lookup k2 l.
Proof.
  intros Hn. assert (En : String.eqb k2 k = false) by now apply String.eqb_neq.
  induction l as [|[k' v'] r IH]; cbn [set_key lookup].
  - now rewrite En.
  - destruct (String.eqb k k') eqn:E; cbn [lookup].
    + apply String.eqb_eq in E. subst k'. now rewrite En.
    + now rewrite IH.
Qed.

(* the generated override is the documented one: for every configuration and every combination of options *)
Theorem cli_override_spec omm oml c : cli_override omm oml c = spec_cli omm oml c.
Proof.
  unfold cli_override, spec_cli, cli_sets, spec_section, srp_cli_guard, srp_cli_sets, srp_cli_section, cli_value.
  destruct omm, oml; reflexivity.
Qed.

Theorem cli_report_exact q omm oml c f :
  flags_off q -> file_good f = true -> report q (cli_override omm oml c) f = spec_report (spec_cli omm oml c) f.
Proof. intros Hq Hg. rewrite cli_override_spec. now apply report_exact_ideal. Qed.

Theorem cli_report_exact_per_flag q omm oml c f :
  file_good f = true -> quirks_ok q f = true -> report q (cli_override omm oml c) f = spec_report (spec_cli omm oml c) f.
Proof. intros Hg Hq. rewrite cli_override_spec. now apply report_exact. Qed.

(* ------------------------------------------------------------------ what the documented override means for the limits *)
Lemma spec_section_set s c : spec_section (set_key "srp" s c) = s.
Proof. unfold spec_section. now rewrite lookup_set_key_eq. Qed.

Lemma lang_key_not_threshold l : lang_key l <> "max_methods" /\ lang_key l <> "max_loc".
Proof. destruct l; split; discriminate. Qed.

Lemma sec_sub_set k k2 n s : k2 <> k -> sec_sub k2 (set_key k (VNat n) s) = sec_sub k2 s.
Proof. intros H. unfold sec_sub. now rewrite lookup_set_key_neq. Qed.
Lemma sec_nat_set_eq k n s : sec_nat k (set_key k (VNat n) s) = Some n.
Proof. unfold sec_nat. now rewrite lookup_set_key_eq. Qed.
Lemma sec_nat_set_neq k k2 n s : k2 <> k -> sec_nat k2 (set_key k (VNat n) s) = sec_nat k2 s.
Proof. intros H. unfold sec_nat. now rewrite lookup_set_key_neq. Qed.
Lemma sec_bool_set k k2 n s : k2 <> k -> sec_bool k2 (set_key k (VNat n) s) = sec_bool k2 s.
Proof. intros H. unfold sec_bool. now rewrite lookup_set_key_neq. Qed.
Lemma sec_strs_set k k2 n s : k2 <> k -> sec_strs k2 (set_key k (VNat n) s) = sec_strs k2 s.
Proof. intros H. unfold sec_strs. now rewrite lookup_set_key_neq. Qed.

(* the section in force after the override, in closed form *)
Definition cli_section (omm oml : option nat) (s : section) : section :=
  let s := match omm with Some n => set_key "max_methods" (VNat n) s | None => s end in
  match oml with Some n => set_key "max_loc" (VNat n) s | None => s end.

Lemma spec_cli_section omm oml c : spec_section (spec_cli omm oml c) = cli_section omm oml (spec_section c).
Proof. unfold spec_cli, cli_section. destruct omm, oml; try reflexivity; now rewrite spec_section_set. Qed.

Lemma sec_sub_cli omm oml l s : sec_sub (lang_key l) (cli_section omm oml s) = sec_sub (lang_key l) s.
Proof.
  destruct (lang_key_not_threshold l) as [H1 H2]. unfold cli_section.
  destruct omm, oml; repeat (rewrite sec_sub_set by assumption); reflexivity.
Qed.

(* a given option IS the limit in force for every file whose language has no section of its own; an option
   that is not given leaves the limit alone (whatever the other option does) *)
Theorem cli_limit_mm c l oml n :
  sec_sub (lang_key l) (spec_section c) = None -> spec_mm (spec_section (spec_cli (Some n) oml c)) l = n.
Proof.
  intros H. rewrite spec_cli_section. unfold spec_mm, spec_threshold. rewrite sec_sub_cli, H.
  unfold cli_section. destruct oml.
  - rewrite sec_nat_set_neq by discriminate. now rewrite sec_nat_set_eq.
  - now rewrite sec_nat_set_eq.
Qed.

Theorem cli_limit_ml c l omm n :
  sec_sub (lang_key l) (spec_section c) = None -> spec_ml (spec_section (spec_cli omm (Some n) c)) l = n.
Proof.
  intros H. rewrite spec_cli_section. unfold spec_ml, spec_threshold. rewrite sec_sub_cli, H.
  unfold cli_section. destruct omm; now rewrite sec_nat_set_eq.
Qed.

Theorem cli_absent_mm c l oml : spec_mm (spec_section (spec_cli None oml c)) l = spec_mm (spec_section c) l.
Proof.
  rewrite spec_cli_section. unfold spec_mm, spec_threshold. rewrite sec_sub_cli.
  unfold cli_section. destruct oml; [rewrite sec_nat_set_neq by discriminate|]; reflexivity.
Qed.

Theorem cli_absent_ml c l omm : spec_ml (spec_section (spec_cli omm None c)) l = spec_ml (spec_section c) l.
Proof.
  rewrite spec_cli_section. unfold spec_ml, spec_threshold. rewrite sec_sub_cli.
  unfold cli_section. destruct omm; [rewrite sec_nat_set_neq by discriminate|]; reflexivity.
Qed.

(* the options never touch the keyword settings or the enabled switch *)
Theorem cli_other_settings omm oml c :
  spec_check (spec_section (spec_cli omm oml c)) = spec_check (spec_section c)
  /\ spec_enabled (spec_section (spec_cli omm oml c)) = spec_enabled (spec_section c)
  /\ spec_keywords (spec_section (spec_cli omm oml c)) = spec_keywords (spec_section c).
Proof.
  rewrite spec_cli_section. unfold spec_check, spec_enabled, spec_keywords, cli_section.
  destruct omm, oml; repeat split; repeat (rewrite sec_bool_set by discriminate); repeat (rewrite sec_strs_set by discriminate); reflexivity.
Qed.

(* admissible options keep an admissible configuration admissible (so the CLI stream stays inside the validated domain) *)
Lemma forallb_set_key {A : Type} (p : string * A -> bool) k v l : p (k, v) = true -> forallb p l = true -> forallb p (set_key k v l) = true.
Proof.
  intros Hp. induction l as [|[k' v'] r IH]; cbn [set_key forallb]; intros H.
  - now rewrite Hp.
  - apply andb_prop in H. destruct H as [H1 H2]. destruct (String.eqb k k'); cbn [forallb].
    + now rewrite Hp, H2.
    + now rewrite H1, IH.
Qed.

Lemma config_good_section c : config_good c = true -> forallb (fun kv => cval_good (fst kv) (snd kv)) (spec_section c) = true.
Proof.
  unfold config_good, spec_section. induction c as [|[k s] r IH]; cbn [forallb lookup]; intros H; [reflexivity|].
  apply andb_prop in H. destruct H as [H1 H2]. destruct (String.eqb "srp" k); [exact H1 | now apply IH].
Qed.

Theorem cli_config_good omm oml c : config_good c = true -> cli_good omm oml = true -> config_good (spec_cli omm oml c) = true.
Proof.
  intros Hc Hg. pose proof (config_good_section c Hc) as Hs. unfold cli_good in Hg. apply andb_prop in Hg. destruct Hg as [G1 G2].
  unfold spec_cli. destruct omm as [n|], oml as [m|]; try exact Hc;
    (apply (forallb_set_key (fun e => forallb (fun kv => cval_good (fst kv) (snd kv)) (snd e))); [cbn [snd]|exact Hc]);
    repeat (apply forallb_set_key; [cbn [fst snd cval_good]; first [now rewrite G1 | now rewrite G2]|]); exact Hs.
Qed.
