(* Proofs/PathLocStr.v — string and list facts behind property C09:
   substring search across the boundary between "the path leading to the project" and "the path inside it". *)
From TL Require Import Lib.Base Model.PathLocTypes Model.PathLoc.

Local Open Scope string_scope.

(* ---------- append ---------- *)
Lemma sapp_assoc (a b c : string) : (a ++ b) ++ c = a ++ (b ++ c).
Proof. induction a as [|x a IH]; cbn [String.append]; [reflexivity|now rewrite IH]. Qed.

Lemma sapp_nil_r (a : string) : a ++ "" = a.
Proof. induction a as [|x a IH]; cbn [String.append]; [reflexivity|now rewrite IH]. Qed.

(* two ways of cutting the same string *)
Lemma sapp_split (x y a z : string) :
  x ++ y = a ++ z ->
  (exists t, a = x ++ t /\ y = t ++ z) \/ (exists c t, x = a ++ String c t /\ z = String c t ++ y).
Proof.
  revert a. induction x as [|cx x IH]; intros a H.
  - left. exists a. split; [reflexivity|exact H].
  - destruct a as [|ca a].
    + right. exists cx, x. split; [reflexivity|]. cbn [String.append] in H |- *. now rewrite H.
    + cbn [String.append] in H. injection H as Hc Ht. subst ca.
      destruct (IH a Ht) as [[t [Ha Hy]]|[c [t [Hx Hz]]]].
      * left. exists t. split; [cbn [String.append]; now rewrite Ha|exact Hy].
      * right. exists c, t. split; [cbn [String.append]; now rewrite Hx|exact Hz].
Qed.

(* ---------- prefix / substring, boolean versus propositional ---------- *)
Lemma prefixb_spec m s : prefixb m s = true <-> exists b, s = m ++ b.
Proof.
  revert s. induction m as [|c m IH]; intros s; cbn [prefixb].
  - split; [intros _; exists s; reflexivity|reflexivity].
  - destruct s as [|d s].
    + split; [discriminate|]. intros [b Hb]. cbn [String.append] in Hb. discriminate.
    + rewrite andb_true_iff, IH. split.
      * intros [Hcd [b Hb]]. apply Ascii.eqb_eq in Hcd. subst d s. exists b. reflexivity.
      * intros [b Hb]. cbn [String.append] in Hb. injection Hb as Hd Hs. subst d. split; [apply Ascii.eqb_refl|exists b; exact Hs].
Qed.

Definition substr (m s : string) : Prop := exists a b, s = a ++ m ++ b.

Lemma substrb_spec m s : substrb m s = true <-> substr m s.
Proof.
  induction s as [|d s IH].
  - cbn [substrb]. rewrite orb_false_r, prefixb_spec. split.
    + intros [b Hb]. exists "", b. exact Hb.
    + intros [a [b Hab]]. destruct a; [exists b; exact Hab|discriminate].
  - cbn [substrb]. rewrite orb_true_iff, prefixb_spec, IH. split.
    + intros [[b Hb]|[a [b Hab]]].
      * exists "", b. exact Hb.
      * exists (String d a), b. cbn [String.append]. now rewrite Hab.
    + intros [a [b Hab]]. destruct a as [|ca a].
      * left. exists b. exact Hab.
      * right. cbn [String.append] in Hab. injection Hab as _ Hs. exists a, b. exact Hs.
Qed.

Lemma substr_app_r m l r : substr m r -> substr m (l ++ r).
Proof. intros [a [b H]]. exists (l ++ a), b. now rewrite H, sapp_assoc. Qed.

Lemma substr_app_l m l r : substr m l -> substr m (l ++ r).
Proof. intros [a [b H]]. exists a, (b ++ r). now rewrite H, !sapp_assoc. Qed.

Lemma bool_eq_iff (a b : bool) : (a = true <-> b = true) -> a = b.
Proof. destruct a, b; intros [H1 H2]; try reflexivity; [symmetry; now apply H1|now apply H2]. Qed.

(* ---------- patterns that cannot straddle two path components ---------- *)
(* no "/" except possibly as the very last character *)
Fixpoint simple_tail (s : string) : bool :=
  match s with
  | EmptyString => true
  | String c s' => match s' with
                   | EmptyString => true
                   | String _ _ => negb (Ascii.eqb c slash) && simple_tail s'
                   end
  end.

(* non-empty, and "/" occurs at most as the first and as the last character: ".test." "test_" "/tests/" "examples/" ... *)
Definition slash_simple (m : string) : bool :=
  match m with EmptyString => false | String _ rest => simple_tail rest end.

Lemma simple_tail_prefix rest : simple_tail rest = true ->
  forall b t r, rest ++ b = t ++ String slash r -> exists u, t ++ String slash "" = rest ++ u.
Proof.
  induction rest as [|d rest IH]; intros Hs b t r H.
  - exists (t ++ String slash ""). reflexivity.
  - destruct t as [|e t].
    + cbn [String.append] in H. injection H as Hd Hr. subst d.
      destruct rest as [|d2 rest2].
      * exists "". reflexivity.
      * cbn [simple_tail] in Hs. rewrite Ascii.eqb_refl in Hs. discriminate.
    + cbn [String.append] in H. injection H as Hd Hr. subst e.
      assert (Hs' : simple_tail rest = true).
      { destruct rest as [|d2 rest2]; [reflexivity|]. cbn [simple_tail] in Hs. apply andb_true_iff in Hs. exact (proj2 Hs). }
      destruct (IH Hs' b t r Hr) as [u Hu]. exists u. cbn [String.append]. now rewrite Hu.
Qed.

(* the boundary lemma: in  L ++ "/" ++ R  a slash-simple pattern occurs either inside "/" ++ R or inside L ++ "/" *)
Lemma substr_boundary m L R : slash_simple m = true ->
  substrb m (L ++ String slash R) = substrb m (String slash R) || substrb m (L ++ String slash "").
Proof.
  intros Hm. apply bool_eq_iff. rewrite orb_true_iff, !substrb_spec. split.
  - intros [a [b H]].
    destruct (sapp_split _ _ _ _ H) as [[t [Ha Hy]]|[c [t [HL Hz]]]].
    + left. exists t, b. exact Hy.
    + right. destruct m as [|cm rest]; [discriminate|]. cbn [slash_simple] in Hm.
      cbn [String.append] in Hz. injection Hz as Hc Hrest. subst cm.
      destruct (simple_tail_prefix rest Hm b t R Hrest) as [u Hu].
      exists a, u. rewrite HL, sapp_assoc. cbn [String.append]. now rewrite Hu.
  - intros [H|H].
    + now apply substr_app_r.
    + replace (L ++ String slash R) with ((L ++ String slash "") ++ R).
      * now apply substr_app_l.
      * rewrite sapp_assoc. reflexivity.
Qed.

(* a pattern that does not begin with "/" cannot tell "/x" from "x" *)
Lemma substrb_drop_slash m x : prefixb (String slash "") m = false -> substrb m (String slash x) = substrb m x.
Proof.
  intros H. destruct m as [|c m]; [destruct x; reflexivity|].
  cbn [prefixb] in H. rewrite andb_true_r in H.
  change (substrb (String c m) (String slash x)) with (prefixb (String c m) (String slash x) || substrb (String c m) x).
  cbn [prefixb]. rewrite Ascii.eqb_sym, H. reflexivity.
Qed.

(* ---------- existsb ---------- *)
Lemma existsb_orb {A} (f g : A -> bool) l : existsb (fun x => f x || g x) l = existsb f l || existsb g l.
Proof. induction l as [|x l IH]; cbn [existsb]; [reflexivity|]. rewrite IH. destruct (f x), (g x), (existsb f l), (existsb g l); reflexivity. Qed.

Lemma existsb_ext_in {A} (f g : A -> bool) l : (forall x, In x l -> f x = g x) -> existsb f l = existsb g l.
Proof. induction l as [|x l IH]; intros H; cbn [existsb]; [reflexivity|]. rewrite (H x (or_introl eq_refl)), IH; [reflexivity|]. intros y Hy. apply H. now right. Qed.

Lemma existsb_false_in {A} (f : A -> bool) l : existsb f l = false -> forall x, In x l -> f x = false.
Proof. induction l as [|y l IH]; cbn [existsb In]; [tauto|]. intros H x [->|Hx]; apply orb_false_iff in H; [tauto|apply IH; tauto]. Qed.

Lemma forallb_in {A} (f : A -> bool) l : forallb f l = true -> forall x, In x l -> f x = true.
Proof. intros H x Hx. rewrite forallb_forall in H. now apply H. Qed.

(* ---------- rendering of component lists ---------- *)
Lemma rooted_app l1 l2 : rooted (l1 ++ l2) = rooted l1 ++ rooted l2.
Proof.
  induction l1 as [|c l1 IH]; [reflexivity|].
  change ((c :: l1) ++ l2)%list with (c :: (l1 ++ l2))%list. cbn [rooted]. rewrite IH. cbn [String.append]. now rewrite sapp_assoc.
Qed.

Lemma rooted_cons_shape c cs : rooted (c :: cs) = String slash (c ++ rooted cs).
Proof. reflexivity. Qed.

Lemma unrooted_app_nonempty c l1 l2 : unrooted ((c :: l1) ++ l2) = unrooted (c :: l1) ++ rooted l2.
Proof. unfold unrooted. rewrite rooted_app. reflexivity. Qed.

(* ---------- components ---------- *)
Lemma name_of_app lead rel : rel <> [] -> name_of (lead ++ rel) = name_of rel.
Proof.
  intros H. unfold name_of. induction lead as [|c lead IH]; [reflexivity|].
  change ((c :: lead) ++ rel)%list with (c :: (lead ++ rel))%list.
  destruct (lead ++ rel)%list eqn:E.
  - apply app_eq_nil in E. destruct E as [_ E]. contradiction.
  - cbn [last]. cbn [last] in IH. exact IH.
Qed.

Lemma strip_prefix_app p l : strip_prefix p (p ++ l) = Some l.
Proof. induction p as [|x p IH]; [reflexivity|]. cbn [strip_prefix app]. now rewrite String.eqb_refl. Qed.

Lemma list_eqb_eq a b : list_eqb a b = true -> a = b.
Proof.
  revert b. induction a as [|x a IH]; intros [|y b] H; cbn [list_eqb] in H; try discriminate; [reflexivity|].
  apply andb_true_iff in H. destruct H as [H1 H2]. apply String.eqb_eq in H1. subst y. now rewrite (IH b H2).
Qed.

(* Path.match looks at the last components only *)
Lemma match_rev_app ps xs ys : List.length ps <= List.length xs -> match_rev ps (xs ++ ys) = match_rev ps xs.
Proof.
  revert xs. induction ps as [|p ps IH]; intros xs H; [reflexivity|].
  destruct xs as [|x xs]; [cbn [List.length] in H; lia|].
  cbn [match_rev app]. rewrite IH; [reflexivity|]. cbn [List.length] in H. lia.
Qed.

Lemma path_match_app pat lead rel :
  List.length (pattern_parts pat) <= List.length rel -> path_match pat (lead ++ rel) = path_match pat rel.
Proof.
  intros H. unfold path_match. destruct (pattern_parts pat) as [|p pp] eqn:E; [reflexivity|].
  rewrite rev_app_distr. apply match_rev_app. now rewrite !rev_length.
Qed.
