(* Proofs/IgnorePatFacts.v — small general facts about the linter-level matchers of Model/IgnorePat.v. *)
From TL Require Import Lib.Base Model.CollectStr Model.Glob Model.Collect Model.CollectSpec Model.IgnorePat.

(* a linter of the `never` kind honours no pattern at all *)
Lemma never_ignores_nothing path pats : linter_file_ignored MNever path pats = false.
Proof. unfold linter_file_ignored. induction pats as [|p ps IH]; [reflexivity|]. cbn [existsb lmatch]. exact IH. Qed.

(* the substring test is part of every other matcher: whatever `sub` silences, `path_or_sub` and `fnm_or_sub` silence too *)
Lemma sub_below_others path pat : lmatch MSub path pat = true -> path_norm path = path ->
  lmatch MPathOrSub path pat = true /\ lmatch MFnmOrSub path pat = true.
Proof. cbn [lmatch]. intros H E. rewrite E, H. split; apply orb_true_r. Qed.

(* a substring matcher cannot tell a directory from a longer name that ends the same way: whenever the pattern text occurs in
   the path it matches, whatever the component boundaries are *)
Lemma sub_ignores_boundaries a pat b : lmatch MSub (a ++ pat ++ b) pat = true.
Proof.
  cbn [lmatch]. unfold substring. induction a as [|c a IH]; cbn [append].
  - destruct (pat ++ b)%string eqn:E; cbn [PyStr.containsb].
    + destruct pat; [reflexivity|discriminate].
    + assert (P : PyStr.prefixb pat (pat ++ b) = true).
      { clear. induction pat as [|x p IH]; [destruct b; reflexivity|]. cbn [append PyStr.prefixb]. now rewrite Ascii.eqb_refl, IH. }
      rewrite E in P. now rewrite P.
  - cbn [PyStr.containsb]. rewrite IH. apply orb_true_r.
Qed.
