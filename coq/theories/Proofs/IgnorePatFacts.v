(* Proofs/IgnorePatFacts.v — small general facts about the linter-level matchers of Model/IgnorePat.v. *)
From TL Require Import Lib.Base Model.CollectStr Model.Glob Model.Collect Model.CollectSpec Model.IgnorePat
     Proofs.CollectStrFacts Proofs.GlobFacts Proofs.CollectIgnoreStr.
From TL Require Model.PyStr.

(* a linter of the `never` kind honours no pattern at all *)
Lemma never_ignores_nothing path pats : linter_file_ignored MNever path pats = false.
Proof. unfold linter_file_ignored. induction pats as [|p ps IH]; [reflexivity|]. cbn [existsb lmatch]. exact IH. Qed.

(* the substring test is part of every other matcher: whatever `sub` silences, `path_or_sub` and `fnm_or_sub` silence too *)
Lemma sub_below_others path pat : lmatch MSub path pat = true -> path_norm path = path ->
  lmatch MPathOrSub path pat = true /\ lmatch MFnmOrSub path pat = true.
Proof. cbn [lmatch]. intros H E. rewrite E, H. split; apply orb_true_r. Qed.

(* a substring matcher cannot tell a directory from a longer name that ends the same way: whenever the pattern text occurs in
   the path it matches, whatever the component boundaries are *)
Lemma sub_ignores_boundaries a pat b : lmatch MSub (a ++ pat ++ b) pat = true.
Proof.
  cbn [lmatch]. unfold substring. induction a as [|c a IH]; cbn [append].
  - destruct (pat ++ b)%string eqn:E; cbn [PyStr.containsb].
    + destruct pat; [reflexivity|discriminate].
    + assert (P : PyStr.prefixb pat (pat ++ b) = true).
      { clear. induction pat as [|x p IH]; [destruct b; reflexivity|]. cbn [append PyStr.prefixb]. now rewrite Ascii.eqb_refl, IH. }
      rewrite E in P. now rewrite P.
  - cbn [PyStr.containsb]. rewrite IH. apply orb_true_r.
Qed.

(* ---------- `*suffix` patterns in a linter-level ignore list ---------- *)
(* Path(p).parts of an absolute normalised path *)
Lemma path_parts_abs comps : comps_ok comps -> path_parts (String slash (pjoin comps)) = "/"%string :: comps.
Proof.
  intros [Hne Hok]. unfold path_parts. rewrite la_cons, la_pjoin. rewrite aeqb_refl.
  cbn [lsplit]. rewrite aeqb_refl. cbn [rev filter lnil negb andb app]. f_equal.
  assert (P := comps_ok_plain _ Hok).
  rewrite lsplit_ljoin; [|destruct comps; [congruence|discriminate]|exact P].
  rewrite filter_id; [apply map_sa_la|].
  intros y Hy. apply in_map_iff in Hy. destruct Hy as [n [<- Hn]]. rewrite forallb_forall in Hok.
  destruct (comp_ok_props n (Hok n Hn)) as [H1 [_ H3]]. rewrite H3. destruct (la n); [congruence|reflexivity].
Qed.

Lemma path_norm_abs comps : comps_ok comps -> path_norm (String slash (pjoin comps)) = String slash (pjoin comps).
Proof. intro H. unfold path_norm. rewrite (path_parts_abs comps H). reflexivity. Qed.

Lemma pjoin_one x : pjoin [x] = x.
Proof. unfold pjoin. cbn [map ljoin]. apply sa_la. Qed.

Lemma skipn_last {A} (x : A) l d : skipn (List.length l) (x :: l) = [last (x :: l) d].
Proof.
  revert x. induction l as [|y l IH]; intro x; [reflexivity|].
  cbn [List.length skipn]. rewrite (IH y). reflexivity.
Qed.

(* a needle occurs in a text only if its first character does *)
Lemma containsb_head c n t : PyStr.containsb (String c n) t = true -> In c (la t).
Proof.
  induction t as [|d t IH]; cbn [PyStr.containsb PyStr.prefixb]; intro H.
  - discriminate.
  - apply orb_true_iff in H as [H|H].
    + apply andb_true_iff in H as [E _]. apply Ascii.eqb_eq in E. subst d. rewrite la_cons. now left.
    + rewrite la_cons. right. now apply IH.
Qed.

Lemma in_ljoin c cs : In c (ljoin cs) -> c = slash \/ exists x, In x cs /\ In c x.
Proof.
  induction cs as [|x r IH]; [intros []|].
  destruct r as [|y r'].
  - cbn [ljoin]. intro H. right. exists x. split; [now left|exact H].
  - rewrite ljoin_cons by discriminate. rewrite in_app_iff. intros [H|[H|H]].
    + right. exists x. split; [now left|exact H].
    + now left.
    + destruct (IH H) as [E|[z [Hz Hc]]]; [now left|]. right. exists z. split; [now right|exact Hc].
Qed.

Definition star_free (comps : list string) : bool := forallb (fun n => negb (has_char c_star n)) comps.

Lemma no_star_in_path comps n : star_free comps = true -> PyStr.containsb (String c_star n) (String slash (pjoin comps)) = false.
Proof.
  intro F. destruct (PyStr.containsb (String c_star n) (String slash (pjoin comps))) eqn:E; [|reflexivity]. exfalso.
  apply containsb_head in E. rewrite la_cons, la_pjoin in E. destruct E as [E|E]; [discriminate|].
  apply in_ljoin in E as [E|[x [Hx Hc]]]; [discriminate|].
  apply in_map_iff in Hx as [m [<- Hm]]. unfold star_free in F. rewrite forallb_forall in F. specialize (F m Hm).
  apply negb_true_iff in F. unfold has_char in F. apply amem_In in Hc. congruence.
Qed.

(* the suffix text of a `*suffix` pattern: a component text of literal characters *)
Definition suffix_ok (s : string) : Prop := plain (la s) /\ ~ In slash (la s).

Lemma star_comp_ok s : suffix_ok s -> comps_ok [("*" ++ s)%string].
Proof.
  intros [_ Hs]. split; [discriminate|]. cbn [forallb]. rewrite andb_true_r. unfold comp_ok.
  assert (H1 : nonempty ("*" ++ s) = true) by reflexivity. rewrite H1. cbn [andb].
  assert (H2 : has_char slash ("*" ++ s) = false).
  { unfold has_char. destruct (amem slash (la ("*" ++ s))) eqn:E; [|reflexivity]. apply amem_In in E.
    change ("*" ++ s)%string with (String c_star s) in E. rewrite la_cons in E. destruct E as [E|E]; [discriminate|contradiction]. }
  rewrite H2. reflexivity.
Qed.

Theorem path_match_suffix comps s : comps_ok comps -> suffix_ok s ->
  path_match (String slash (pjoin comps)) ("*" ++ s) = ends_with (last comps "") s.
Proof.
  intros Hc Hs. unfold path_match.
  assert (E : path_parts ("*" ++ s) = [("*" ++ s)%string]).
  { rewrite <- (pjoin_one ("*" ++ s)) at 1. apply path_parts_pjoin. now apply star_comp_ok. }
  rewrite E, (path_parts_abs comps Hc).
  assert (N : ("*" ++ s =? "/")%string = false) by reflexivity. rewrite N.
  cbn [List.length Nat.sub]. rewrite Nat.sub_0_r. change (1 <=? S (List.length comps)) with true. cbn [andb].
  rewrite (skipn_last "/"%string comps ""%string). cbn [parts_match]. rewrite andb_true_r.
  destruct Hc as [Hne _]. destruct comps as [|x r]; [congruence|].
  change (last ("/"%string :: x :: r) ""%string) with (last (x :: r) ""%string).
  apply fnm_star_lit. exact (proj1 Hs).
Qed.

(* the linters whose matcher is `Path.match(pattern) or pattern in str(path)`: a `*suffix` pattern silences exactly the files whose
   name ends with the suffix (the documented meaning), at any depth, provided no directory or file name contains a `*` *)
Theorem path_or_sub_suffix_exact comps s : comps_ok comps -> suffix_ok s -> star_free comps = true ->
  lmatch MPathOrSub (String slash (pjoin comps)) (render (PSuffix s)) = spec_match (PSuffix s) comps.
Proof.
  intros Hc Hs F. cbn [lmatch render spec_match]. rewrite (path_match_suffix comps s Hc Hs), (path_norm_abs comps Hc).
  unfold substring. change ("*" ++ s)%string with (String c_star s). rewrite (no_star_in_path comps s F). apply orb_false_r.
Qed.

(* ... while the substring matchers never honour it *)
Theorem sub_suffix_never comps s : star_free comps = true ->
  lmatch MSub (String slash (pjoin comps)) (render (PSuffix s)) = false.
Proof. intro F. cbn [lmatch render]. unfold substring. change ("*" ++ s)%string with (String c_star s). now apply no_star_in_path. Qed.
