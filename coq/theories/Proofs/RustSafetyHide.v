(* Proofs/RustSafetyHide.v — confinement of the finding q_test_attr_substring at the level of the reported lists:
   for EVERY quirk vector, every configuration and every file, switching the flag on (the code's `"test" in text`)
   only removes reports - the list reported with the flag on is a subsequence of the list reported with it off -
   for each of the three linters.  With the other flags off this says: what the code's substring test reports is a
   subsequence of what the specification demands (production code may go unreported, test code is never reported). *)
From TL Require Import Lib.Base Lib.GenTypes Model.RustSafetyTypes Model.RustSafetySpec Gen.RustSafetyGen
     Model.RustSafety Model.RustSafetyRun Proofs.RustSafetyWalk Proofs.RustSafetyCtx Proofs.RustSafetyEmit Proofs.RustSafetyMain
     Proofs.RustSafetyAttr Proofs.RustSafetyAttrCode.

Inductive subseq {A : Type} : list A -> list A -> Prop :=
| ss_nil : subseq [] []
| ss_skip x l1 l2 : subseq l1 l2 -> subseq l1 (x :: l2)
| ss_take x l1 l2 : subseq l1 l2 -> subseq (x :: l1) (x :: l2).

Lemma subseq_refl {A} (l : list A) : subseq l l.
Proof. induction l; constructor; assumption. Qed.
Lemma subseq_nil {A} (l : list A) : subseq [] l.
Proof. induction l; constructor; assumption. Qed.
Lemma subseq_app {A} (a b c d : list A) : subseq a b -> subseq c d -> subseq (a ++ c) (b ++ d).
Proof. intros H1 H2. induction H1; cbn [app]; [exact H2| |]; constructor; assumption. Qed.

Section WalkSub.
  Context {C : Type}.
  Variable push : C -> kind -> nat -> list node -> option C.
  Lemma walk_subseq (e1 e2 : C -> kind -> list node -> list rep) :
    (forall c k cs, subseq (e1 c k cs) (e2 c k cs)) -> forall n c, subseq (walk push e1 c n) (walk push e2 c n).
  Proof.
    intros HE. induction n as [k cs IH] using node_ind'. intros c. rewrite !walk_eq. apply subseq_app; [apply HE|].
    generalize 0 as i. induction IH as [|x xs Hx _ IHxs]; intros i; [constructor|].
    cbn [walk_kids]. fold (walk_kids push e1 c k). fold (walk_kids push e2 c k).
    apply subseq_app; [|apply IHxs]. destruct (push c k i xs); [apply Hx|constructor].
  Qed.
  Lemma walk_file_subseq e1 e2 : (forall c k cs, subseq (e1 c k cs) (e2 c k cs)) ->
    forall file c, subseq (walk_file push e1 c file) (walk_file push e2 c file).
  Proof.
    intros HE. induction file as [|n ns IH]; intros c; [constructor|].
    unfold walk_file. cbn [flat_map]. apply subseq_app; [now apply walk_subseq|apply IH].
  Qed.
End WalkSub.

(* ------------------------------------------------------------------ the test context only grows *)
Definition sub_on (q : rquirks) : rquirks := set_flag 1 true q.
Definition sub_off (q : rquirks) : rquirks := set_flag 1 false q.

Lemma sib_walk_semantic_over run needle sem l :
  smem "attribute_item" run = true -> smem "line_comment" run = true ->
  (forall t, sem t = true -> contains needle t = true) ->
  sib_walk run "attribute_item" (attr_hit needle sem false) l = true ->
  sib_walk run "attribute_item" (attr_hit needle sem true) l = true.
Proof.
  intros HA HC HS H. rewrite (sib_walk_semantic run needle sem l HA HC) in H. now apply sib_walk_over.
Qed.

Lemma is_test_context_mono q f : is_test_context (sub_off q) f = true -> is_test_context (sub_on q) f = true.
Proof.
  destruct q as [a b c d e f0 g h i j]. unfold sub_off, sub_on, set_flag, is_test_context.
  cbn [q_test_attr_substring q_cfg_test_literal q_attr_stop_at_comment].
  destruct (String.eqb (f_type f) ctx_fn_type); [|exact (fun H => H)].
  destruct needle_is_test as [-> ->].
  destruct (run_types_ok (Build_rquirks a true c d e f0 g h i j)) as (A1 & C1 & _ & _).
  unfold run_types in *. cbn [q_attr_stop_at_comment] in *.
  apply (sib_walk_semantic_over _ _ _ _ A1 C1 marks_test_fn_mentions_test).
Qed.

Lemma inside_test_mono q anc : inside_test (sub_off q) anc = true -> inside_test (sub_on q) anc = true.
Proof.
  unfold inside_test. induction anc as [|f r IH]; cbn [existsb]; [discriminate|].
  intros H. apply orb_true_iff in H as [H|H]; apply orb_true_iff; [left; now apply is_test_context_mono|right; now apply IH].
Qed.

(* _should_skip_call is monotone in is_in_test *)
Lemma skipped_mono rules tbl o t1 t2 m p : (t1 = true -> t2 = true) ->
  skipped rules tbl o t1 m p = true -> skipped rules tbl o t2 m p = true.
Proof.
  intros HT. unfold skipped. induction rules as [|r rs IH]; cbn [existsb]; [discriminate|].
  intros H. apply orb_true_iff in H as [H|H]; apply orb_true_iff; [left|right; now apply IH].
  clear IH. induction r as [|a r IH]; cbn [forallb] in *; [reflexivity|].
  apply andb_true_iff in H as [H1 H2]. apply andb_true_iff. split; [|now apply IH].
  destruct a; cbn [atom_holds] in *; try exact H1. now apply HT.
Qed.

Lemma skip_subseq rules tbl o t1 t2 m p (r : rep) : (t1 = true -> t2 = true) ->
  subseq (if skipped rules tbl o t2 m p then [] else [r]) (if skipped rules tbl o t1 m p then [] else [r]).
Proof.
  intros HT. destruct (skipped rules tbl o t1 m p) eqn:E1.
  - now rewrite (skipped_mono rules tbl o t1 t2 m p HT E1); constructor.
  - destruct (skipped rules tbl o t2 m p); [apply subseq_nil|apply subseq_refl].
Qed.

(* ------------------------------------------------------------------ node-local reports *)
Lemma emit_unwrap_hide q ls o anc k cs : subseq (emit_unwrap (sub_on q) ls o anc k cs) (emit_unwrap (sub_off q) ls o anc k cs).
Proof.
  destruct k; try apply subseq_refl. unfold emit_unwrap.
  destruct (_ && smem name unwrap_methods); [|constructor].
  replace (report_line (sub_on q)) with (report_line (sub_off q)) by (destruct q; reflexivity).
  replace (report_row (sub_on q)) with (report_row (sub_off q)) by (destruct q; reflexivity).
  apply skip_subseq. apply inside_test_mono.
Qed.

Lemma classify_clone_same q o anc cs order : classify_clone (sub_on q) o anc cs order = classify_clone (sub_off q) o anc cs order.
Proof.
  induction order as [|[pred pattern] r IH]; [reflexivity|]. cbn [classify_clone]. rewrite IH.
  replace (q_clone_first_pattern (sub_on q)) with (q_clone_first_pattern (sub_off q)) by (destruct q; reflexivity). reflexivity.
Qed.

Lemma emit_clone_hide q ls o anc k cs : subseq (emit_clone (sub_on q) ls o anc k cs) (emit_clone (sub_off q) ls o anc k cs).
Proof.
  destruct k; try apply subseq_refl. unfold emit_clone.
  destruct (_ && String.eqb name clone_method); [|constructor].
  rewrite classify_clone_same.
  destruct (classify_clone (sub_off q) o anc cs clone_classify_order) as [pattern|]; [|constructor].
  replace (report_line (sub_on q)) with (report_line (sub_off q)) by (destruct q; reflexivity).
  replace (report_row (sub_on q)) with (report_row (sub_off q)) by (destruct q; reflexivity).
  apply skip_subseq. apply inside_test_mono.
Qed.

Lemma emit_blocking_hide q ls o anc k cs : subseq (emit_blocking (sub_on q) ls o anc k cs) (emit_blocking (sub_off q) ls o anc k cs).
Proof.
  destruct k; try apply subseq_refl. unfold emit_blocking.
  destruct (_ && in_async_context anc); [|constructor].
  destruct (List.length path <? 2); [constructor|].
  replace (blocking_classes_of (sub_on q)) with (blocking_classes_of (sub_off q)) by (destruct q; reflexivity).
  destruct (classify_path (blocking_classes_of (sub_off q)) path) as [pattern|]; [|constructor].
  replace (inside_wrapper (sub_on q)) with (inside_wrapper (sub_off q)) by (destruct q; reflexivity).
  destruct (inside_wrapper (sub_off q) anc); [constructor|].
  replace (q_blocking_msg_line (sub_on q)) with (q_blocking_msg_line (sub_off q)) by (destruct q; reflexivity).
  apply skip_subseq. apply inside_test_mono.
Qed.

(* ------------------------------------------------------------------ the reported lists *)
Lemma push_same q : push_m (sub_on q) = push_m (sub_off q).
Proof. destruct q; reflexivity. Qed.

Theorem test_attr_flag_only_hides q ls c file :
  subseq (unwrap_report (sub_on q) ls c file) (unwrap_report (sub_off q) ls c file) /\
  subseq (clone_report (sub_on q) ls c file) (clone_report (sub_off q) ls c file) /\
  subseq (blocking_report (sub_on q) ls c file) (blocking_report (sub_off q) ls c file).
Proof.
  unfold unwrap_report, clone_report, blocking_report, unwrap_scan, clone_scan, blocking_scan. rewrite push_same.
  repeat split.
  - destruct (enabled_of unwrap_cfg (c_unwrap c)); [|constructor]. apply walk_file_subseq. intros anc k cs. apply emit_unwrap_hide.
  - destruct (enabled_of clone_cfg (c_clone c)); [|constructor]. apply walk_file_subseq. intros anc k cs. apply emit_clone_hide.
  - destruct (enabled_of blocking_cfg (c_blocking c)); [|constructor]. apply walk_file_subseq. intros anc k cs. apply emit_blocking_hide.
Qed.

(* with every other flag off: what the substring test lets through is a subsequence of what the specification demands *)
Corollary substring_test_reports_within_spec ls c file :
  subseq (report (sub_on ideal) ls c file) (spec_report ls c file).
Proof.
  assert (E : sub_off ideal = ideal) by reflexivity.
  destruct (test_attr_flag_only_hides ideal ls c file) as (U & Cl & B). rewrite E in *.
  rewrite <- (report_exact ideal ls c file); try reflexivity; [|repeat split].
  unfold report. apply subseq_app; [exact U|]. apply subseq_app; [exact Cl|exact B].
Qed.
