(* Proofs/PathLocMain.v — property C09 for the path-filter pipeline of Model/PathLoc.v:
   1. with the quirk flags off the result is the specification (decide on the path inside the project) for
      every location, working directory and spelling;
   2. exact characterisation of each quirk (what the faithful predicate adds to the ideal one);
   3. confinement: for EVERY quirk vector (in particular the faithful one) the result is the specification
      when the leading components are clean;
   4. project-root detection does not depend on marker-free directories above the project. *)
From TL Require Import Lib.Base Lib.GenTypes Model.PathLocTypes Gen.PathLocGen Model.PathLoc Proofs.PathLocStr.

Local Open Scope string_scope.

(* ---------- facts about the generated tables, by computation ---------- *)
Lemma root_part_not_excluded : excl_comp "/" = false.
Proof. vm_compute. reflexivity. Qed.

Definition no_lead_slash (m : string) : bool := negb (prefixb (String slash "") m).

Definition tspec_simple (t : tspec) : bool :=
  forallb slash_simple (t_str_contains t) && forallb no_lead_slash (t_str_starts t).

Definition sig_simple (sg : cmdsig) : bool :=
  tspec_simple (cs_test_py sg) && tspec_simple (cs_test_ts sg) && tspec_simple (cs_test_rs sg)
  && match cs_ikind sg with
     | ISubstr | IMatchOrSubstr => forallb slash_simple (cs_default_ignore sg)   (* substring-type lists only *)
     | _ => true
     end.

(* every marker / default ignore entry found in the source is a pattern that cannot straddle two components *)
Lemma gen_sigs_simple : forallb sig_simple command_sigs = true.
Proof. vm_compute. reflexivity. Qed.

Lemma gen_tspec_simple sg l : In sg command_sigs -> tspec_simple (tspec_of sg l) = true.
Proof.
  intros Hin. pose proof (forallb_in _ _ gen_sigs_simple sg Hin) as H. unfold sig_simple in H.
  apply andb_true_iff in H. destruct H as [H Hd]. apply andb_true_iff in H. destruct H as [H Hrs].
  apply andb_true_iff in H. destruct H as [Hpy Hts].
  destruct l; cbn [tspec_of]; try assumption. reflexivity.
Qed.

(* the repaired source (fix b20520c, fix 12368d4) as read by the translator: the built-in exclusion is applied to the path
   re-rooted at the project root, file-placement re-roots relative paths.  Proved by computation on the generated constants:
   if the source falls back to the old shapes these two facts - and every theorem below that no longer guards the
   corresponding quirk flag - stop checking. *)
Lemma exclusion_scope_now : scope_given hard_exclusion_scope = false.
Proof. reflexivity. Qed.
Lemma fp_rerooted_now : fp_relative_paths_rerooted = true.
Proof. reflexivity. Qed.

(* ---------- 1. flags off: location independence ---------- *)
(* q_excl_all_parts and q_fp_relative_unchanged are NOT guarded any more: with the repaired source they have no effect *)
Definition flags_off (q : quirks) : Prop :=
  q_ignore_no_reroot q = false /\ q_linter_ignore_full_path q = false
  /\ q_test_marker_full_path q = false /\ q_rule_parser_cwd q = false.

Lemma true_rel_ok e ab lead rel :
  resolve (e_cwd e) (GP ab (lead ++ rel)) = (e_root e ++ rel)%list -> true_rel e (GP ab (lead ++ rel)) = rel.
Proof. intros H. unfold true_rel. rewrite H, strip_prefix_app. reflexivity. Qed.

(* general form: ANY spelling of the file (also `mod.py` or `../mod.py` from a sub-directory of the project, where the given
   path is shorter than the path inside the project) that resolves to root ++ rel and keeps the file name *)
Theorem file_location_independent_gen q e sg cfg g rel lg raw :
  flags_off q -> name_of (g_parts g) = name_of rel ->
  resolve (e_cwd e) g = (e_root e ++ rel)%list ->
  file_result q e sg cfg {| f_given := g; f_lang := lg; f_raw := raw |}
  = spec_file (e_root_pats e) sg cfg {| s_rel := rel; s_lang := lg; s_raw := raw |}.
Proof.
  intros (H2 & H3 & H4 & H5) Hname Hres.
  unfold file_result, spec_file. cbn [f_given f_lang f_raw s_rel s_lang s_raw].
  assert (Hrel : true_rel e g = rel) by (unfold true_rel; rewrite Hres, strip_prefix_app; reflexivity).
  rewrite Hrel, Hname.
  unfold rule_ignored, orch_ignored, fp_path. rewrite exclusion_scope_now, fp_rerooted_now, H2, H3, H4, H5. cbn [andb negb].
  rewrite !andb_false_r.
  destruct (hard_excluded rel (name_of rel)); [reflexivity|].
  destruct (repo_ignored (e_root_pats e) (unrooted rel) rel); [reflexivity|].
  rewrite andb_false_r. destruct (cs_ikind sg); reflexivity.
Qed.

Theorem file_location_independent q e sg cfg ab lead rel lg raw :
  flags_off q -> rel <> [] ->
  resolve (e_cwd e) (GP ab (lead ++ rel)) = (e_root e ++ rel)%list ->
  file_result q e sg cfg {| f_given := GP ab (lead ++ rel); f_lang := lg; f_raw := raw |}
  = spec_file (e_root_pats e) sg cfg {| s_rel := rel; s_lang := lg; s_raw := raw |}.
Proof.
  intros Hq Hne Hres. apply file_location_independent_gen; [exact Hq| |exact Hres].
  cbn [g_parts]. now apply name_of_app.
Qed.

(* a model file and a specification file talk about the same file of the project *)
Definition denotes (e : env) (f : file) (s : sfile) : Prop :=
  name_of (g_parts (f_given f)) = name_of (s_rel s)
  /\ resolve (e_cwd e) (f_given f) = (e_root e ++ s_rel s)%list
  /\ f_lang f = s_lang s /\ f_raw f = s_raw s.

Theorem run_location_independent q e sg cfg files sfiles :
  flags_off q -> Forall2 (denotes e) files sfiles ->
  run_result q e sg cfg files = spec_result (e_root_pats e) sg cfg sfiles.
Proof.
  intros Hq HF. unfold run_result, spec_result. induction HF as [|f s fs ss Hd _ IH]; [reflexivity|].
  cbn [map]. rewrite IH. f_equal.
  destruct Hd as (Hn & Hres & Hl & Hr). destruct f as [g l r]. destruct s as [rel sl sr].
  cbn [f_given f_lang f_raw s_rel s_lang s_raw] in *. subst l r.
  now apply file_location_independent_gen.
Qed.

(* ---------- the cross-file rules (dry, stringly-typed): the same, for the whole run ---------- *)
Lemma denotes_true_rel e f s : denotes e f s -> true_rel e (f_given f) = s_rel s.
Proof. intros (_ & Hres & _). unfold true_rel. rewrite Hres, strip_prefix_app. reflexivity. Qed.

Lemma xf_ignored_off q e k pats f s : flags_off q -> denotes e f s -> xf_ignored q e k pats f = s_ignored k pats s.
Proof.
  intros (_ & H3 & _) Hd. unfold xf_ignored, s_ignored. rewrite (denotes_true_rel _ _ _ Hd), H3. reflexivity.
Qed.

Lemma participates_off gate q e k pats f s : flags_off q -> denotes e f s ->
  participates gate q e k pats f = s_participates gate (e_root_pats e) k pats s.
Proof.
  intros Hq Hd. unfold participates, s_participates, orch_pass, orch_ignored.
  rewrite (xf_ignored_off _ _ _ _ _ _ Hq Hd), (denotes_true_rel _ _ _ Hd), exclusion_scope_now, andb_false_r.
  destruct Hq as (H2 & _). rewrite H2. destruct Hd as (Hn & _). rewrite Hn. reflexivity.
Qed.

Lemma partners_off gate q e k pats files sfiles l : flags_off q -> Forall2 (denotes e) files sfiles ->
  partners gate q e k pats files l = s_partners gate (e_root_pats e) k pats sfiles l.
Proof.
  intros Hq HF. unfold partners, s_partners. induction HF as [|f s fs ss Hd _ IH]; [reflexivity|].
  cbn [filter]. rewrite (participates_off _ _ _ _ _ _ _ Hq Hd). destruct Hd as (_ & _ & Hl & _). rewrite Hl.
  destruct (s_participates gate (e_root_pats e) k pats s && lang_eqb (s_lang s) l); cbn [List.length]; now rewrite IH.
Qed.

Theorem xfile_location_independent gate q e sg cfg files sfiles :
  flags_off q -> Forall2 (denotes e) files sfiles ->
  xfile_result gate q e sg cfg files = xfile_spec gate (e_root_pats e) sg cfg sfiles.
Proof.
  intros Hq HF. unfold xfile_result, xfile_spec.
  set (k := cs_ikind sg). set (pats := ignore_pats sg cfg).
  assert (HP : forall l, partners gate q e k pats files l = s_partners gate (e_root_pats e) k pats sfiles l) by (intros l; now apply partners_off).
  revert HP. generalize (partners gate q e k pats files) (s_partners gate (e_root_pats e) k pats sfiles). intros pa pb HP.
  induction HF as [|f s fs ss Hd _ IH]; [reflexivity|].
  cbn [map]. rewrite IH. f_equal.
  rewrite (participates_off _ _ _ _ _ _ _ Hq Hd), HP, (xf_ignored_off _ _ _ _ _ _ Hq Hd), (denotes_true_rel _ _ _ Hd).
  assert (HR : s_participates gate (e_root_pats e) k pats s = true ->
               cs_cwd_parser sg && rule_ignored q e (f_given f) (s_rel s) = false).
  { intros Hp. unfold s_participates in Hp. apply andb_true_iff in Hp. destruct Hp as [Hp _]. apply andb_true_iff in Hp. destruct Hp as [_ Hp].
    apply negb_true_iff in Hp. unfold rule_ignored, orch_ignored. destruct Hq as (H2 & _ & _ & H5). rewrite H5, H2. cbn [andb].
    rewrite Hp. apply andb_false_r. }
  destruct Hd as (_ & _ & Hl & Hr). rewrite Hl, Hr.
  destruct (s_participates gate (e_root_pats e) k pats s) eqn:EP; [|reflexivity].
  rewrite (HR eq_refl). cbn [negb]. rewrite andb_true_r. reflexivity.
Qed.

(* the judge evaluates a version that computes the per-file decisions once: it is the same function *)
Lemma filter_map_length {A B} (g : A -> B) (P : B -> bool) l :
  List.length (filter P (map g l)) = List.length (filter (fun x => P (g x)) l).
Proof. induction l as [|x l IH]; [reflexivity|]. cbn [map filter]. destruct (P (g x)); cbn [List.length]; now rewrite IH. Qed.

Theorem xfile_result_fast_eq gate q e sg cfg files :
  xfile_result_fast gate q e sg cfg files = xfile_result gate q e sg cfg files.
Proof.
  unfold xfile_result_fast, xfile_result. rewrite map_map. apply map_ext. intros f. cbn [fst snd].
  unfold partners, participates. rewrite filter_map_length. reflexivity.
Qed.

Theorem dry_location_independent q e sg cfg files sfiles :
  flags_off q -> Forall2 (denotes e) files sfiles ->
  dry_result q e sg cfg files = dry_spec (e_root_pats e) sg cfg sfiles.
Proof. apply xfile_location_independent. Qed.

(* the headline: the same project at two locations / from two working directories / in two spellings *)
Theorem two_locations_agree q sg cfg e1 e2 files1 files2 sfiles :
  flags_off q -> e_root_pats e1 = e_root_pats e2 ->
  Forall2 (denotes e1) files1 sfiles -> Forall2 (denotes e2) files2 sfiles ->
  run_result q e1 sg cfg files1 = run_result q e2 sg cfg files2.
Proof.
  intros Hq Hp H1 H2. rewrite (run_location_independent q e1 sg cfg files1 sfiles Hq H1),
    (run_location_independent q e2 sg cfg files2 sfiles Hq H2), Hp. reflexivity.
Qed.

(* ---------- 2. what each faithful predicate adds ---------- *)
(* built-in exclusion over all parts of the given path = exclusion by the path inside the project
   OR some leading component is an excluded name *)
Theorem hard_excluded_given ab lead rel name : rel <> [] ->
  hard_excluded (all_parts (GP ab (lead ++ rel))) name = hard_excluded rel name || existsb excl_comp lead.
Proof.
  intros Hne. unfold hard_excluded, all_parts, dir_parts. cbn [g_abs g_parts].
  assert (E : existsb excl_comp (if ab then ["/"] else []) = false).
  { destruct ab; cbn [existsb]; [rewrite root_part_not_excluded|]; reflexivity. }
  assert (G : forall f : list string -> list string, (forall a b, b <> [] -> f (a ++ b)%list = (a ++ f b)%list) ->
              existsb excl_comp (f ((if ab then ["/"] else []) ++ lead ++ rel)%list)
              = existsb excl_comp lead || existsb excl_comp (f rel)).
  { intros f Hf. rewrite app_assoc, (Hf _ _ Hne), !existsb_app, E. reflexivity. }
  destruct hard_exclusion_skips_file_name.
  - rewrite (G (@removelast string) (fun a b Hb => removelast_app a Hb)).
    destruct (smem (py_suffix name) excluded_exts), (existsb excl_comp lead), (existsb excl_comp (removelast rel)); reflexivity.
  - rewrite (G (fun l => l) (fun a b _ => eq_refl)).
    destruct (smem (py_suffix name) excluded_exts), (existsb excl_comp lead), (existsb excl_comp rel); reflexivity.
Qed.

(* the string in front of the path inside the project *)
Definition lead_str (ab : bool) (lead : list string) : string := if ab then rooted lead else unrooted lead.

Lemma pstr_split ab lead rel : ab = true \/ lead <> [] ->
  pstr (GP ab (lead ++ rel)) = lead_str ab lead ++ rooted rel.
Proof.
  intros H. unfold pstr, lead_str. cbn [g_abs g_parts]. destruct ab.
  - apply rooted_app.
  - destruct lead as [|c lead]; [destruct H; [discriminate|contradiction]|]. apply unrooted_app_nonempty.
Qed.

(* substring tests on str(path as given): marker found inside the project path, OR in the leading string *)
Theorem any_sub_given ms ab lead rel :
  forallb slash_simple ms = true -> rel <> [] -> ab = true \/ lead <> [] ->
  any_sub ms (pstr (GP ab (lead ++ rel)))
  = any_sub ms (rooted rel) || any_sub ms (lead_str ab lead ++ String slash "").
Proof.
  intros Hs Hne Hl. rewrite (pstr_split _ _ _ Hl). unfold any_sub. rewrite <- existsb_orb.
  apply existsb_ext_in. intros m Hm. destruct rel as [|c cs]; [contradiction|].
  rewrite rooted_cons_shape. apply substr_boundary. exact (forallb_in _ _ Hs m Hm).
Qed.

(* project-relative spelling (`.`, or `src/a.py` from the project directory): only a leading "/" of the marker is lost *)
Theorem any_sub_project_relative ms rel :
  forallb no_lead_slash ms = true -> any_sub ms (unrooted rel) = any_sub ms (rooted rel).
Proof.
  intros Hs. unfold any_sub. apply existsb_ext_in. intros m Hm.
  destruct rel as [|c cs]; [reflexivity|]. unfold unrooted. rewrite rooted_cons_shape. cbn [drop1]. symmetry.
  apply substrb_drop_slash. pose proof (forallb_in _ _ Hs m Hm) as H. unfold no_lead_slash in H.
  now apply negb_true_iff in H.
Qed.

(* Path.match sees leading components only when the pattern is longer than the path inside the project *)
Theorem path_match_given pat lead rel :
  List.length (pattern_parts pat) <= List.length rel -> path_match pat (lead ++ rel) = path_match pat rel.
Proof. apply path_match_app. Qed.

(* IgnoreDirectiveParser.is_ignored re-roots exactly the absolute paths under its root *)
Theorem parser_view_abs_under_root root rel : parser_view root (GP true (root ++ rel)) = (unrooted rel, rel).
Proof. unfold parser_view. cbn [g_abs g_parts]. now rewrite strip_prefix_app. Qed.

Theorem parser_view_project_relative root rel : parser_view root (GP false rel) = (unrooted rel, rel).
Proof. reflexivity. Qed.

(* ---------- 3. confinement: every quirk vector agrees with the specification on clean leading components ---------- *)
Definition pats_clean (k : ikind) (pats : list string) (lead_s : string) (rel : list string) : bool :=
  match k with
  | INone => true
  | ISubstr => forallb slash_simple pats && negb (any_sub pats lead_s)
  | IMatchOrSubstr => forallb slash_simple pats && negb (any_sub pats lead_s)
                      && forallb (fun p => Nat.leb (List.length (pattern_parts p)) (List.length rel)) pats
  | IFnmatchOrSubstr | IFileHeader => match pats with [] => true | _ => false end
  | IFpDirPrefix => true
  end.

Lemma prefixb_no_lead_slash m x y : no_lead_slash m = true -> prefixb m (String slash x) = prefixb m (String slash y).
Proof.
  unfold no_lead_slash. intros H. apply negb_true_iff in H. destruct m as [|c m]; [reflexivity|].
  cbn [prefixb] in H |- *. rewrite andb_true_r in H. rewrite Ascii.eqb_sym, H. reflexivity.
Qed.

Lemma rooted_nonempty_shape l : l <> [] -> exists x, rooted l = String slash x.
Proof. destruct l as [|c cs]; [contradiction|]. intros _. eexists. apply rooted_cons_shape. Qed.

Lemma test_exempt_abs t lead rel name :
  tspec_simple t = true -> rel <> [] ->
  any_sub (t_str_contains t) (rooted lead ++ String slash "") = false ->
  test_exempt t (pstr (GP true (lead ++ rel))) name = test_exempt t (rooted rel) name.
Proof.
  intros Ht Hne Hc. unfold tspec_simple in Ht. apply andb_true_iff in Ht. destruct Ht as [Ht1 Ht2].
  unfold test_exempt. rewrite (any_sub_given _ true lead rel Ht1 Hne (or_introl eq_refl)). cbn [lead_str]. rewrite Hc, orb_false_r.
  assert (E : existsb (fun m => prefixb m (pstr (GP true (lead ++ rel)))) (t_str_starts t)
              = existsb (fun m => prefixb m (rooted rel)) (t_str_starts t)).
  { apply existsb_ext_in. intros m Hm.
    assert (Hne2 : (lead ++ rel)%list <> []) by (intros E; apply app_eq_nil in E; destruct E; contradiction).
    destruct (rooted_nonempty_shape _ Hne2) as [x Hx]. destruct (rooted_nonempty_shape _ Hne) as [y Hy].
    unfold pstr. cbn [g_abs g_parts]. rewrite Hx, Hy. apply prefixb_no_lead_slash. exact (forallb_in _ _ Ht2 m Hm). }
  rewrite E. reflexivity.
Qed.

Lemma linter_ignored_abs k pats lead rel :
  rel <> [] -> pats_clean k pats (rooted lead ++ String slash "") rel = true -> k <> IFpDirPrefix ->
  linter_ignored k pats (pstr (GP true (lead ++ rel))) (pstr (GP true (lead ++ rel))) (lead ++ rel)
  = linter_ignored k pats (rooted rel) (unrooted rel) rel.
Proof.
  intros Hne Hc Hk. destruct k; cbn [pats_clean linter_ignored] in *.
  - reflexivity.
  - apply andb_true_iff in Hc. destruct Hc as [Hs Hn]. apply negb_true_iff in Hn.
    pose proof (any_sub_given pats true lead rel Hs Hne (or_introl eq_refl)) as E. cbn [lead_str] in E.
    rewrite Hn, orb_false_r in E. exact E.
  - apply andb_true_iff in Hc. destruct Hc as [Hc Hlen]. apply andb_true_iff in Hc. destruct Hc as [Hs Hn].
    apply negb_true_iff in Hn. rewrite !existsb_orb.
    pose proof (any_sub_given pats true lead rel Hs Hne (or_introl eq_refl)) as E. cbn [lead_str] in E.
    rewrite Hn, orb_false_r in E. unfold any_sub in E. rewrite E. f_equal.
    apply existsb_ext_in. intros p Hp. apply path_match_app. apply Nat.leb_le. exact (forallb_in _ _ Hlen p Hp).
  - destruct pats; [reflexivity|discriminate].
  - destruct pats; [reflexivity|discriminate].
  - contradiction.
Qed.

(* whichever of the two source shapes of is_ignored is present: a spelling that resolves to root ++ rel and that the literal re-rooting
   already sees by its path inside the root is seen that way by the parser *)
Lemma parser_view_at_resolved cwd root g rel :
  resolve cwd g = (root ++ rel)%list -> parser_view root g = (unrooted rel, rel) -> parser_view_at cwd root g = (unrooted rel, rel).
Proof.
  intros Hr Hv. unfold parser_view_at. destruct repo_ignore_resolves_before_reroot; [|exact Hv].
  rewrite Hr, strip_prefix_app. reflexivity.
Qed.

Theorem confinement_absolute q e sg cfg lead rel lg raw :
  rel <> [] -> e_root e = lead ->
  resolve (e_cwd e) (GP true (lead ++ rel)) = (lead ++ rel)%list ->
  pats_clean (cs_ikind sg) (ignore_pats sg cfg) (rooted lead ++ String slash "") rel = true ->
  tspec_simple (tspec_of sg lg) = true ->
  any_sub (t_str_contains (tspec_of sg lg)) (rooted lead ++ String slash "") = false ->
  (cs_cwd_parser sg = false \/ list_eqb (e_cwd e) (e_root e) = true \/ e_cwd_pats e = []) ->
  file_result q e sg cfg {| f_given := GP true (lead ++ rel); f_lang := lg; f_raw := raw |}
  = spec_file (e_root_pats e) sg cfg {| s_rel := rel; s_lang := lg; s_raw := raw |}.
Proof.
  intros Hne Hroot Hres Hpc Hts Htc Hcwd.
  unfold file_result, spec_file. cbn [f_given f_lang f_raw s_rel s_lang s_raw g_parts].
  assert (Hrel : true_rel e (GP true (lead ++ rel)) = rel) by (apply true_rel_ok; now rewrite Hroot).
  rewrite Hrel, (name_of_app _ _ Hne).
  assert (HX : hard_excluded (if q_excl_all_parts q && scope_given hard_exclusion_scope then all_parts (GP true (lead ++ rel)) else rel) (name_of rel)
               = hard_excluded rel (name_of rel)).
  { rewrite exclusion_scope_now, andb_false_r. reflexivity. }
  rewrite HX. destruct (hard_excluded rel (name_of rel)); [reflexivity|].
  assert (HV : parser_view (e_root e) (GP true (lead ++ rel)) = (unrooted rel, rel))
    by (rewrite Hroot; apply parser_view_abs_under_root).
  assert (HVA : parser_view_at (e_cwd e) (e_root e) (GP true (lead ++ rel)) = (unrooted rel, rel))
    by (apply parser_view_at_resolved; [rewrite Hroot; exact Hres|exact HV]).
  assert (HO : orch_ignored q e (GP true (lead ++ rel)) rel = repo_ignored (e_root_pats e) (unrooted rel) rel).
  { unfold orch_ignored. destruct (q_ignore_no_reroot q); [rewrite HVA|]; reflexivity. }
  rewrite HO. destruct (repo_ignored (e_root_pats e) (unrooted rel) rel) eqn:ER; [reflexivity|].
  assert (HR : cs_cwd_parser sg && rule_ignored q e (GP true (lead ++ rel)) rel = false).
  { unfold rule_ignored. destruct (q_rule_parser_cwd q && ignore_parser_default_root_is_cwd); [|rewrite HO; apply andb_false_r].
    destruct Hcwd as [Hc|[Hc|Hc]].
    - rewrite Hc. reflexivity.
    - rewrite Hc, HVA. cbn [fst snd]. rewrite ER. apply andb_false_r.
    - destruct (list_eqb (e_cwd e) (e_root e)).
      + rewrite HVA. cbn [fst snd]. rewrite ER. apply andb_false_r.
      + rewrite Hc. unfold repo_ignored. cbn [existsb]. apply andb_false_r. }
  assert (HF : fp_path q e (GP true (lead ++ rel)) rel = unrooted rel).
  { unfold fp_path. destruct (q_fp_relative_unchanged q && negb fp_relative_paths_rerooted); [rewrite HV|]; reflexivity. }
  assert (HT : test_exempt (tspec_of sg lg) (if q_test_marker_full_path q then pstr (GP true (lead ++ rel)) else rooted rel) (name_of rel)
               = test_exempt (tspec_of sg lg) (rooted rel) (name_of rel)).
  { destruct (q_test_marker_full_path q); [|reflexivity]. now apply test_exempt_abs. }
  destruct (cs_ikind sg) eqn:EK.
  - rewrite HT, HR. destruct (q_linter_ignore_full_path q); reflexivity.
  - rewrite HT, HR. destruct (q_linter_ignore_full_path q); [|reflexivity].
    rewrite (linter_ignored_abs ISubstr _ _ _ Hne Hpc); [reflexivity|discriminate].
  - rewrite HT, HR. destruct (q_linter_ignore_full_path q); [|reflexivity].
    rewrite (linter_ignored_abs IMatchOrSubstr _ _ _ Hne Hpc); [reflexivity|discriminate].
  - rewrite HT, HR. destruct (q_linter_ignore_full_path q); [|reflexivity].
    rewrite (linter_ignored_abs IFnmatchOrSubstr _ _ _ Hne Hpc); [reflexivity|discriminate].
  - rewrite HT, HR. destruct (q_linter_ignore_full_path q); [|reflexivity].
    rewrite (linter_ignored_abs IFileHeader _ _ _ Hne Hpc); [reflexivity|discriminate].
  - rewrite HF. reflexivity.
Qed.

Lemma find_sig_in n sg : find_sig n = Some sg -> In sg command_sigs.
Proof. unfold find_sig. intros H. apply find_some in H. exact (proj1 H). Qed.

(* for the commands found in the source the marker lists need no hypothesis: they are slash-simple by computation *)
Corollary confinement_absolute_cmd q e n sg cfg lead rel lg raw :
  find_sig n = Some sg ->
  rel <> [] -> e_root e = lead ->
  resolve (e_cwd e) (GP true (lead ++ rel)) = (lead ++ rel)%list ->
  pats_clean (cs_ikind sg) (ignore_pats sg cfg) (rooted lead ++ String slash "") rel = true ->
  any_sub (t_str_contains (tspec_of sg lg)) (rooted lead ++ String slash "") = false ->
  (cs_cwd_parser sg = false \/ list_eqb (e_cwd e) (e_root e) = true \/ e_cwd_pats e = []) ->
  file_result q e sg cfg {| f_given := GP true (lead ++ rel); f_lang := lg; f_raw := raw |}
  = spec_file (e_root_pats e) sg cfg {| s_rel := rel; s_lang := lg; s_raw := raw |}.
Proof.
  intros Hf Hne Hroot Hres Hpc Htc Hcwd.
  apply confinement_absolute; try assumption. apply gen_tspec_simple. exact (find_sig_in _ _ Hf).
Qed.

(* the same for the project-relative spelling from the project directory (`.`, `src/a.py`): nothing leads the path,
   only markers that begin with "/" can tell the difference *)
Definition lead_slash_absent (ms : list string) (rel : list string) : bool :=
  forallb (fun m => no_lead_slash m || negb (substrb m (rooted rel))) ms.

Lemma substrb_unrooted_rooted m rel : substrb m (unrooted rel) = true -> substrb m (rooted rel) = true.
Proof.
  destruct rel as [|c cs]; [exact (fun H => H)|]. unfold unrooted. rewrite rooted_cons_shape. cbn [drop1].
  rewrite !substrb_spec. intros H. change (String slash (c ++ rooted cs)) with (String slash "" ++ (c ++ rooted cs)).
  now apply substr_app_r.
Qed.

Lemma any_sub_dot ms rel : lead_slash_absent ms rel = true -> any_sub ms (unrooted rel) = any_sub ms (rooted rel).
Proof.
  intros H. unfold any_sub. apply existsb_ext_in. intros m Hm.
  pose proof (forallb_in _ _ H m Hm) as Hm'. cbn beta in Hm'. apply orb_true_iff in Hm'. destruct Hm' as [Hn|Hn].
  - destruct rel as [|c cs]; [reflexivity|]. unfold unrooted. rewrite rooted_cons_shape. cbn [drop1]. symmetry.
    apply substrb_drop_slash. unfold no_lead_slash in Hn. now apply negb_true_iff in Hn.
  - apply negb_true_iff in Hn. rewrite Hn. destruct (substrb m (unrooted rel)) eqn:E; [|reflexivity].
    apply substrb_unrooted_rooted in E. congruence.
Qed.

Definition pats_clean_dot (k : ikind) (pats : list string) (rel : list string) : bool :=
  match k with
  | INone | IFpDirPrefix => true
  | ISubstr | IMatchOrSubstr => lead_slash_absent pats rel
  | IFnmatchOrSubstr | IFileHeader => match pats with [] => true | _ => false end
  end.

Theorem confinement_project_relative q e sg cfg rel lg raw :
  rel <> [] ->
  resolve (e_cwd e) (GP false rel) = (e_root e ++ rel)%list ->
  pats_clean_dot (cs_ikind sg) (ignore_pats sg cfg) rel = true ->
  lead_slash_absent (t_str_contains (tspec_of sg lg)) rel = true ->
  forallb (fun m => negb (prefixb m (unrooted rel))) (t_str_starts (tspec_of sg lg)) = true ->
  forallb no_lead_slash (t_str_starts (tspec_of sg lg)) = true ->
  (cs_cwd_parser sg = false \/ list_eqb (e_cwd e) (e_root e) = true \/ e_cwd_pats e = []) ->
  file_result q e sg cfg {| f_given := GP false rel; f_lang := lg; f_raw := raw |}
  = spec_file (e_root_pats e) sg cfg {| s_rel := rel; s_lang := lg; s_raw := raw |}.
Proof.
  intros Hne Hres Hpc Htc Hst Hst2 Hcwd.
  unfold file_result, spec_file. cbn [f_given f_lang f_raw s_rel s_lang s_raw g_parts].
  assert (Hrel : true_rel e (GP false rel) = rel).
  { unfold true_rel. rewrite Hres, strip_prefix_app. reflexivity. }
  rewrite Hrel.
  assert (HX : (if q_excl_all_parts q && scope_given hard_exclusion_scope then all_parts (GP false rel) else rel) = rel)
    by (destruct (q_excl_all_parts q && scope_given hard_exclusion_scope); reflexivity).
  rewrite HX. destruct (hard_excluded rel (name_of rel)); [reflexivity|].
  assert (HVA : parser_view_at (e_cwd e) (e_root e) (GP false rel) = (unrooted rel, rel))
    by (apply parser_view_at_resolved; [exact Hres|apply parser_view_project_relative]).
  assert (HO : orch_ignored q e (GP false rel) rel = repo_ignored (e_root_pats e) (unrooted rel) rel).
  { unfold orch_ignored. destruct (q_ignore_no_reroot q); [rewrite HVA|]; reflexivity. }
  rewrite HO. destruct (repo_ignored (e_root_pats e) (unrooted rel) rel) eqn:ER; [reflexivity|].
  assert (HR : cs_cwd_parser sg && rule_ignored q e (GP false rel) rel = false).
  { unfold rule_ignored. destruct (q_rule_parser_cwd q && ignore_parser_default_root_is_cwd); [|rewrite HO; apply andb_false_r].
    destruct Hcwd as [Hc|[Hc|Hc]].
    - rewrite Hc. reflexivity.
    - rewrite Hc, HVA. cbn [fst snd]. rewrite ER. apply andb_false_r.
    - destruct (list_eqb (e_cwd e) (e_root e)).
      + rewrite HVA. cbn [fst snd]. rewrite ER. apply andb_false_r.
      + rewrite Hc. unfold repo_ignored. cbn [existsb]. apply andb_false_r. }
  assert (HF : fp_path q e (GP false rel) rel = unrooted rel).
  { unfold fp_path. destruct (q_fp_relative_unchanged q && negb fp_relative_paths_rerooted); reflexivity. }
  assert (HT : test_exempt (tspec_of sg lg) (if q_test_marker_full_path q then pstr (GP false rel) else rooted rel) (name_of rel)
               = test_exempt (tspec_of sg lg) (rooted rel) (name_of rel)).
  { destruct (q_test_marker_full_path q); [|reflexivity]. unfold test_exempt, pstr. cbn [g_abs g_parts].
    rewrite (any_sub_dot _ _ Htc).
    assert (E1 : existsb (fun m => prefixb m (unrooted rel)) (t_str_starts (tspec_of sg lg)) = false).
    { apply not_true_is_false. intros E. apply existsb_exists in E. destruct E as [m [Hm Hp]].
      pose proof (forallb_in _ _ Hst m Hm) as Hn. cbn beta in Hn. rewrite Hp in Hn. discriminate. }
    assert (E2 : existsb (fun m => prefixb m (rooted rel)) (t_str_starts (tspec_of sg lg)) = false).
    { apply not_true_is_false. intros E. apply existsb_exists in E. destruct E as [m [Hm Hp]].
      pose proof (forallb_in _ _ Hst2 m Hm) as Hn. pose proof (forallb_in _ _ Hst m Hm) as Hn2. cbn beta in Hn2.
      destruct (rooted_nonempty_shape _ Hne) as [y Hy]. rewrite Hy in Hp.
      unfold no_lead_slash in Hn. apply negb_true_iff in Hn. destruct m as [|c m].
      - destruct (unrooted rel); discriminate.
      - cbn [prefixb] in Hn, Hp. rewrite andb_true_r in Hn. rewrite Ascii.eqb_sym, Hn in Hp. discriminate. }
    rewrite E1, E2. reflexivity. }
  assert (HL : forall k, k = cs_ikind sg -> k = ISubstr \/ k = IMatchOrSubstr ->
               linter_ignored k (ignore_pats sg cfg) (pstr (GP false rel)) (pstr (GP false rel)) rel
               = linter_ignored k (ignore_pats sg cfg) (rooted rel) (unrooted rel) rel).
  { intros k Hk Hk2. rewrite <- Hk in Hpc. unfold pstr. cbn [g_abs g_parts].
    destruct Hk2 as [->| ->]; cbn [pats_clean_dot linter_ignored] in *.
    - exact (any_sub_dot _ _ Hpc).
    - rewrite !existsb_orb. pose proof (any_sub_dot _ _ Hpc) as E. unfold any_sub in E. rewrite E. reflexivity. }
  destruct (cs_ikind sg) eqn:EK.
  - rewrite HT, HR. destruct (q_linter_ignore_full_path q); reflexivity.
  - rewrite HT, HR. destruct (q_linter_ignore_full_path q); [|reflexivity]. rewrite (HL ISubstr eq_refl (or_introl eq_refl)). reflexivity.
  - rewrite HT, HR. destruct (q_linter_ignore_full_path q); [|reflexivity]. rewrite (HL IMatchOrSubstr eq_refl (or_intror eq_refl)). reflexivity.
  - rewrite HT, HR. cbn [pats_clean_dot] in Hpc. destruct (ignore_pats sg cfg); [|discriminate].
    destruct (q_linter_ignore_full_path q); reflexivity.
  - rewrite HT, HR. cbn [pats_clean_dot] in Hpc. destruct (ignore_pats sg cfg); [|discriminate].
    destruct (q_linter_ignore_full_path q); reflexivity.
  - rewrite HF. reflexivity.
Qed.

(* ---------- 4. project-root detection ---------- *)
Definition marker_free (ms : list marker) (lv : level) : bool := forallb (fun mk => negb (smem (fst mk) (lv_has lv))) ms.

Lemma deepest_above m above chain :
  forallb (fun lv => negb (smem m (lv_has lv))) above = true ->
  deepest m (above ++ chain) = option_map (fun n => List.length above + n) (deepest m chain).
Proof.
  induction above as [|lv above IH]; intros H.
  - cbn [app List.length option_map]. destruct (deepest m chain); reflexivity.
  - cbn [forallb] in H. apply andb_true_iff in H. destruct H as [H1 H2]. apply negb_true_iff in H1.
    cbn [app deepest]. rewrite (IH H2). destruct (deepest m chain) as [n|]; cbn [option_map List.length].
    + reflexivity.
    + rewrite H1. reflexivity.
Qed.

Theorem find_root_len_above ms above chain :
  forallb (marker_free ms) above = true ->
  find_root_len ms (above ++ chain) = List.length above + find_root_len ms chain.
Proof.
  induction ms as [|[m d] ms IH]; intros H.
  - cbn [find_root_len]. apply app_length.
  - cbn [find_root_len].
    assert (Hm : forallb (fun lv => negb (smem m (lv_has lv))) above = true).
    { apply forallb_forall. intros lv Hlv. pose proof (forallb_in _ _ H lv Hlv) as E. unfold marker_free in E.
      cbn [forallb fst] in E. apply andb_true_iff in E. exact (proj1 E). }
    assert (Hms : forallb (marker_free ms) above = true).
    { apply forallb_forall. intros lv Hlv. pose proof (forallb_in _ _ H lv Hlv) as E. unfold marker_free in E |- *.
      cbn [forallb] in E. apply andb_true_iff in E. exact (proj2 E). }
    rewrite (deepest_above m above chain Hm). destruct (deepest m chain) as [n|]; cbn [option_map]; [reflexivity|].
    exact (IH Hms).
Qed.

(* marker-free directories above the project shift the detected root by their own path and nothing else *)
Theorem find_root_above above chain :
  forallb (marker_free root_markers) above = true ->
  find_root (above ++ chain) = (map lv_name above ++ find_root chain)%list.
Proof.
  intros H. unfold find_root. rewrite (find_root_len_above _ _ _ H), map_app.
  rewrite <- (map_length lv_name above) at 1. apply firstn_app_2.
Qed.

(* ---------- directive stores: the key under which DRY stores the ignore ranges / the content of a file is the key it looks them up
   with, for every working directory and every spelling of the target (both key scopes are read from the source: a change of one
   side alone breaks this proof) ---------- *)
Theorem directive_stores_agree cwd g : dry_directives_honoured cwd g = true.
Proof.
  unfold dry_directives_honoured, store_hit. apply andb_true_intro. split; apply String.eqb_refl.
Qed.

(* the statement is not vacuous in the scopes: storing under the resolved path and asking with the path as given loses the entry of a
   relatively spelled file (and keeps it for the absolute spelling) *)
Theorem mixed_key_scopes_refuted :
  store_hit ScResolvedStr ScGivenStr ["s"; "ok"] (GP false ["proj"; "src"; "mod.py"]) = false
  /\ store_hit ScResolvedStr ScGivenStr ["s"; "home"] (GP true ["s"; "ok"; "proj"; "src"; "mod.py"]) = true.
Proof. split; vm_compute; reflexivity. Qed.
