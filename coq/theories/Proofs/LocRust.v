(* Proofs/LocRust.v — C12 for the Rust safety model (Model/RustSafety.v: unwrap-abuse, clone-abuse,
   blocking-async): every violation the model emits, for any quirk vector, configuration and file, comes from
   a call node of the file and carries that call's recorded position: the row of the method name (flag
   q_chain_start_line off) or the row where the receiver chain starts (flag on: what the code does), plus
   the 0-based -> 1-based offset read from the source; the column is the call's recorded start column. *)
From TL Require Import Lib.Base Lib.GenTypes Model.RustSafetyTypes Model.RustSafetySpec Gen.RustSafetyGen Model.RustSafety.

(* n occurs in the tree t (t itself included) *)
Fixpoint subnode (n : node) (t : node) : Prop :=
  n = t \/ match t with N _ cs => (fix any (l : list node) : Prop := match l with [] => False | x :: xs => subnode n x \/ any xs end) cs end.

Lemma subnode_refl n : subnode n n.
Proof. destruct n. cbn [subnode]. now left. Qed.

Section Origin.
  Context {C : Type}.
  Variable push : C -> kind -> nat -> list node -> option C.
  Variable emit : C -> kind -> list node -> list rep.

  Lemma walk_origin : forall t c r, In r (walk push emit c t) ->
    exists c' k cs, subnode (N k cs) t /\ In r (emit c' k cs).
  Proof.
    induction t as [k cs IH] using node_ind'. intros c r H.
    change (walk push emit c (N k cs)) with (emit c k cs ++ walk_kids push emit c k 0 cs) in H.
    apply in_app_or in H. destruct H as [H|H].
    - exists c, k, cs. split; [apply subnode_refl|exact H].
    - assert (G : exists x, In x cs /\ exists c' k' cs', subnode (N k' cs') x /\ In r (emit c' k' cs')).
      { revert H. generalize 0 as i. induction IH as [|x xs Hx _ IHxs]; intros i H; [destruct H|].
        cbn [walk_kids] in H. fold (walk_kids push emit c k) in H. apply in_app_or in H. destruct H as [H|H].
        - destruct (push c k i xs) as [c1|]; [|destruct H]. exists x. split; [now left|]. exact (Hx c1 r H).
        - destruct (IHxs (S i) H) as [y [Hy Hrest]]. exists y. split; [now right|exact Hrest]. }
      destruct G as [x [Hx [c' [k' [cs' [Hs He]]]]]]. exists c', k', cs'. split; [|exact He].
      cbn [subnode]. right. clear - Hx Hs. induction cs as [|y ys IHys]; [destruct Hx|].
      destruct Hx as [->|Hx]; [now left|right; now apply IHys].
  Qed.

  Lemma walk_file_origin file c r : In r (walk_file push emit c file) ->
    exists t c' k cs, In t file /\ subnode (N k cs) t /\ In r (emit c' k cs).
  Proof.
    unfold walk_file. intros H. apply in_flat_map in H. destruct H as [t [Ht H]].
    destruct (walk_origin t c r H) as [c' [k [cs [Hs He]]]]. exists t, c', k, cs. auto.
  Qed.
End Origin.

(* generated facts: the row -> line offsets and column offsets of the three analyzers *)
Lemma rust_offsets :
  unwrap_line_offset = 1 /\ unwrap_col_offset = 0 /\ clone_line_offset = 1 /\ clone_col_offset = 0
  /\ blocking_line_offset = 1 /\ blocking_col_offset = 0.
Proof. repeat split; reflexivity. Qed.

(* the position a report carries, relative to the call node it comes from; for unwrap / clone the message ends with the
   stripped source line of the REPORTED row (get_line_context): the quoted snippet is the text of the reported line *)
Definition at_call (q : rquirks) (ls : srclines) (k : kind) (r : rep) : Prop :=
  match k, r with
  | KMethod sl sc ml name, (_, line, col, msg) =>
    line = (if q_chain_start_line q then sl else ml) + 1 /\ col = sc /\ exists prefix, msg = (prefix ++ context_of ls (line - 1))%string
  | KCall sl sc path, (_, line, col, _) => line = sl + 1 /\ col = sc
  | _, _ => False
  end.

Lemma emit_unwrap_at q ls o anc k cs r : In r (emit_unwrap q ls o anc k cs) -> at_call q ls k r.
Proof.
  unfold emit_unwrap. destruct k; try (intros []; fail).
  destruct (_ && _); [|intros []]. destruct (skipped _ _ _ _ _ _); [intros []|].
  intros [<-|[]]. cbn [at_call]. unfold report_line, report_row. destruct rust_offsets as [-> [-> _]].
  split; [reflexivity|]. split; [lia|]. eexists. f_equal. f_equal. lia.
Qed.

Lemma emit_clone_at q ls o anc k cs r : In r (emit_clone q ls o anc k cs) -> at_call q ls k r.
Proof.
  unfold emit_clone. destruct k; try (intros []; fail).
  destruct (_ && _); [|intros []]. destruct (classify_clone _ _ _ _ _) as [p|]; [|intros []].
  destruct (skipped _ _ _ _ _ _); [intros []|].
  intros [<-|[]]. cbn [at_call]. unfold report_line, report_row. destruct rust_offsets as [_ [_ [-> [-> _]]]].
  split; [reflexivity|]. split; [lia|]. eexists. f_equal. f_equal. lia.
Qed.

Lemma emit_blocking_at q ls o anc k cs r : In r (emit_blocking q ls o anc k cs) -> at_call q ls k r.
Proof.
  unfold emit_blocking. destruct k; try (intros []; fail).
  destruct (_ && _); [|intros []]. destruct (_ <? 2); [intros []|].
  destruct (classify_path _ _) as [p|]; [|intros []]. destruct (inside_wrapper _ _); [intros []|].
  destruct (skipped _ _ _ _ _ _); [intros []|].
  intros [<-|[]]. cbn [at_call]. destruct rust_offsets as [_ [_ [_ [_ [-> ->]]]]]. split; lia.
Qed.

Theorem rust_location_recorded q ls c file r : In r (report q ls c file) ->
  exists t k cs, In t file /\ subnode (N k cs) t /\ at_call q ls k r.
Proof.
  unfold report, unwrap_report, clone_report, blocking_report, unwrap_scan, clone_scan, blocking_scan. intros H.
  apply in_app_or in H. destruct H as [H|H]; [|apply in_app_or in H; destruct H as [H|H]];
    (destruct (enabled_of _ _); [|destruct H]);
    destruct (walk_file_origin _ _ _ _ _ H) as [t [c' [k [cs [Ht [Hs He]]]]]]; exists t, k, cs; (split; [exact Ht|]); (split; [exact Hs|]).
  - eapply emit_unwrap_at; exact He.
  - eapply emit_clone_at; exact He.
  - eapply emit_blocking_at; exact He.
Qed.

(* with the flag off (what the property demands) the reported line is the line of the method name: the call *)
Corollary rust_location_is_the_call q ls c file rule line col msg : q_chain_start_line q = false ->
  In (rule, line, col, msg) (report q ls c file) ->
  exists t k cs, In t file /\ subnode (N k cs) t /\
    match k with KMethod _ sc ml _ => line = ml + 1 /\ col = sc | KCall sl sc _ => line = sl + 1 /\ col = sc | _ => False end.
Proof.
  intros Hq H. destruct (rust_location_recorded _ _ _ _ _ H) as [t [k [cs [Ht [Hs Hat]]]]].
  exists t, k, cs. split; [exact Ht|]. split; [exact Hs|]. destruct k; cbn [at_call] in Hat; try contradiction.
  - rewrite Hq in Hat. tauto.
  - exact Hat.
Qed.
