(* Proofs/DispatchMain.v - C15: finite facts about the generated tables (re-proved by computation on
   every run) and the theorems built on them for ALL file names, first lines, oracle tables and
   configurations. *)
From TL Require Import Lib.Base Model.DispatchTypes Gen.DispatchGen Model.Dispatch Proofs.DispatchStr.

(* ================================================================== 1. finite facts over Gen tables *)

(* 1a. every command's predicate accepts a registered rule id iff the id belongs to the command's linter *)
Definition filters_exact_b : bool :=
  forallb (fun cf => forallb (fun pr => Bool.eqb (passes (snd cf) (snd pr)) (owns (fst cf) (fst pr) (snd pr)))
                             registry_rule_ids)
          cli_filters.
Lemma filters_exact_true : filters_exact_b = true.
Proof. vm_compute. reflexivity. Qed.

Lemma filter_exact cmd atoms pkg rid :
  In (cmd, atoms) cli_filters -> In (pkg, rid) registry_rule_ids ->
  passes atoms rid = owns cmd pkg rid.
Proof.
  intros Hc Hr. pose proof filters_exact_true as H. unfold filters_exact_b in H.
  rewrite forallb_forall in H. specialize (H _ Hc). rewrite forallb_forall in H. specialize (H _ Hr).
  cbn [fst snd] in H. now apply Bool.eqb_prop in H.
Qed.

(* 1b. the documented commands and the commands with a filter in the source are the same set *)
Definition commands_covered_b : bool :=
  forallb (fun co => match lookup (fst co) cli_filters with Some _ => true | None => false end) cmd_owner
  && forallb (fun cf => is_command (fst cf)) cli_filters.
Lemma commands_covered_true : commands_covered_b = true.
Proof. vm_compute. reflexivity. Qed.

Lemma command_has_filter cmd : is_command cmd = true -> exists atoms, lookup cmd cli_filters = Some atoms.
Proof.
  unfold is_command. intro H. destruct (lookup cmd cmd_owner) as [o|] eqn:E; [|discriminate].
  apply lookup_In in E.
  pose proof commands_covered_true as C. unfold commands_covered_b in C. apply andb_true_iff in C as [C _].
  rewrite forallb_forall in C. specialize (C _ E). cbn [fst] in C.
  destruct (lookup cmd cli_filters) as [a|]; [now exists a|discriminate].
Qed.

(* 1c. the extension map: the suffix is lower-cased; keys are extension-shaped, lower-case, distinct *)
Lemma ext_lowered_true : ext_lowered = true.
Proof. reflexivity. Qed.

Definition ext_map_wf_b : bool :=
  forallb (fun kv => ext_shape (fst kv) && String.eqb (lower (fst kv)) (fst kv)
                     && match lookup (fst kv) extension_map with Some v => String.eqb v (snd kv) | None => false end)
          extension_map.
Lemma ext_map_wf_true : ext_map_wf_b = true.
Proof. vm_compute. reflexivity. Qed.

Lemma ext_map_entry ext lang :
  In (ext, lang) extension_map ->
  ext_shape ext = true /\ lower ext = ext /\ lookup ext extension_map = Some lang.
Proof.
  intro Hin. pose proof ext_map_wf_true as H. unfold ext_map_wf_b in H. rewrite forallb_forall in H.
  specialize (H _ Hin). cbn [fst snd] in H.
  apply andb_true_iff in H as [H H3]. apply andb_true_iff in H as [H1 H2].
  apply String.eqb_eq in H2. destruct (lookup ext extension_map) as [v|]; [|discriminate].
  apply String.eqb_eq in H3. subst v. auto.
Qed.

(* 1d. the languages detection can produce, and their classes *)
Definition det_langs : list string := map snd extension_map ++ [shebang_lang; unknown_lang].

Definition lang_class (l : string) : lclass :=
  if String.eqb l "python" then LPy else if String.eqb l "typescript" then LTs
  else if String.eqb l "javascript" then LJs else if String.eqb l "rust" then LRs else LOther.

Lemma lang_class_name cl : cl <> LOther -> lang_class (class_name cl) = cl.
Proof. destruct cl; intros; reflexivity. Qed.

(* the implementation's extension table and the property's table agree on every key of either *)
Definition all_keys : list string := map fst extension_map ++ map fst spec_ext_table.
Definition table_agree (e : string) : bool :=
  match lookup e spec_ext_table, lookup e extension_map with
  | Some c, Some l => String.eqb l (class_name c)
  | Some _, None => false
  | None, Some l => match lang_class l with LOther => true | _ => false end
  | None, None => true
  end.
Definition tables_agree_b : bool :=
  forallb table_agree all_keys
  && match lookup "" extension_map with None => true | Some _ => false end
  && match lookup "" spec_ext_table with None => true | Some _ => false end.
Lemma tables_agree_true : tables_agree_b = true.
Proof. vm_compute. reflexivity. Qed.

Lemma shebang_consts :
  (forall line, is_shebang line = spec_python_shebang line)
  /\ shebang_lang = class_name LPy /\ lang_class unknown_lang = LOther.
Proof. repeat split. Qed.

(* 1e. per rule and detectable language: the guard found in the source implies the documented language
   set of the rule's linter, agnostic rules are exactly the non-source-analysis linters, and the oracle
   key used by the model is the one used by the specification *)
Definition rule_lang_ok (r : rule) (l : string) : bool :=
  implb (guard r l) (allowed (r_pkg r) (lang_class l))
  && implb (allowed (r_pkg r) (lang_class l))
           (String.eqb (an_key r l) (spec_key (r_pkg r) (lang_class l))
            && match lang_class l with LOther => true | _ => String.eqb (class_name (lang_class l)) l end).
Definition dispatch_ok_b : bool :=
  forallb (fun r => forallb (rule_lang_ok r) det_langs) rule_table.
Lemma dispatch_ok_true : dispatch_ok_b = true.
Proof. vm_compute. reflexivity. Qed.

Lemma rule_lang_fact r l :
  In r rule_table -> In l det_langs -> rule_lang_ok r l = true.
Proof.
  intros Hr Hl. pose proof dispatch_ok_true as H. unfold dispatch_ok_b in H.
  rewrite forallb_forall in H. specialize (H _ Hr). rewrite forallb_forall in H. exact (H _ Hl).
Qed.

(* 1f. conversely every documented language of a linter is let through by at least one of its rules
   (dropping a language from a dispatch table or a guard breaks this) *)
Definition docs_covered_b : bool :=
  forallb (fun d => match snd d with
                    | None => existsb (fun r => String.eqb (r_pkg r) (fst d) && match r_langs r with None => true | Some _ => false end) rule_table
                    | Some ls => forallb (fun l => existsb (fun r => String.eqb (r_pkg r) (fst d) && guard r l) rule_table)
                                         (must_langs (fst d) ls)
                    end) doc_langs.
Lemma docs_covered_true : docs_covered_b = true.
Proof. vm_compute. reflexivity. Qed.

Theorem documented_languages_dispatched pkg ls l :
  In (pkg, Some ls) doc_langs -> In l (must_langs pkg ls) ->
  exists r, In r rule_table /\ r_pkg r = pkg /\ guard r l = true.
Proof.
  intros Hd Hl. pose proof docs_covered_true as H. unfold docs_covered_b in H. rewrite forallb_forall in H.
  specialize (H _ Hd). cbn [fst snd] in H. rewrite forallb_forall in H. specialize (H _ Hl).
  apply existsb_exists in H as (r & Hr & H). apply andb_true_iff in H as [H1 H2].
  apply String.eqb_eq in H1. exists r. auto.
Qed.

(* ================================================================== 2. language detection *)

Lemma detect_in_det_langs q f : In (detect q f) det_langs.
Proof.
  unfold detect, det_langs. destruct (lookup (ext_of (f_name f)) extension_map) as [l|] eqn:E.
  - apply in_or_app. left. apply lookup_In in E. now apply (in_map snd) in E.
  - apply in_or_app. right.
    destruct (((q_shebang_any_ext q && shebang_guard_any_ext) || String.eqb (py_suffix (f_name f)) "") && f_nonempty f && f_readable f
              && is_shebang (first_line (f_head f))); cbn [In]; auto.
Qed.

(* every mapped extension, every stem, every case variant of the extension *)
Theorem detect_by_extension q ext lang stem variant head ne rd :
  In (ext, lang) extension_map -> lower variant = ext -> stem <> EmptyString ->
  detect q (mk_file (stem ++ variant) head ne rd) = lang.
Proof.
  intros Hin Hl Hs. destruct (ext_map_entry ext lang Hin) as (Hshape & _ & Hlk).
  assert (Hv : ext_shape variant = true) by (apply ext_shape_of_lower; rewrite Hl; exact Hshape).
  unfold detect, ext_of. cbn [f_name]. rewrite ext_lowered_true.
  rewrite (py_suffix_app stem variant Hs Hv), Hl, Hlk. reflexivity.
Qed.

(* a name whose (lower-cased) suffix is not in the map: unknown, unless the shebang fallback applies *)
Theorem detect_unmapped q f :
  lookup (lower (py_suffix (f_name f))) extension_map = None ->
  detect q f = if ((q_shebang_any_ext q && shebang_guard_any_ext) || String.eqb (py_suffix (f_name f)) "")
                  && f_nonempty f && f_readable f && is_shebang (first_line (f_head f))
               then shebang_lang else unknown_lang.
Proof. intro H. unfold detect, ext_of. rewrite ext_lowered_true, H. reflexivity. Qed.

(* detection = the property's classification, for every file (shebang fallback confined to extensionless names) *)
Lemma detect_spec q f :
  q_shebang_any_ext q = false -> spec_class f = lang_class (detect q f).
Proof.
  intro Hq. unfold detect, spec_class, ext_of. rewrite ext_lowered_true, Hq. cbn [andb orb].
  set (e := lower (py_suffix (f_name f))).
  pose proof tables_agree_true as T. unfold tables_agree_b in T.
  apply andb_true_iff in T as [T T3]. apply andb_true_iff in T as [T T2].
  rewrite forallb_forall in T.
  destruct (lookup e spec_ext_table) as [c|] eqn:E1; destruct (lookup e extension_map) as [l|] eqn:E2.
  - assert (Hk : In e all_keys) by (apply in_or_app; left; eapply lookup_key_In; exact E2).
    specialize (T _ Hk). unfold table_agree in T. rewrite E1, E2 in T. apply String.eqb_eq in T. subst l.
    symmetry. apply lang_class_name. intro Hc. subst c. apply lookup_In in E1.
    cbn in E1. repeat (destruct E1 as [E1|E1]; [discriminate|]). exact E1.
  - assert (Hk : In e all_keys) by (apply in_or_app; right; eapply lookup_key_In; exact E1).
    specialize (T _ Hk). unfold table_agree in T. rewrite E1, E2 in T. discriminate.
  - assert (Hk : In e all_keys) by (apply in_or_app; left; eapply lookup_key_In; exact E2).
    specialize (T _ Hk). unfold table_agree in T. rewrite E1, E2 in T.
    assert (Hne : String.eqb (py_suffix (f_name f)) "" = false).
    { destruct (String.eqb_spec (py_suffix (f_name f)) "") as [Hs|]; [|reflexivity].
      exfalso. unfold e in E2. rewrite Hs in E2. cbn [lower] in E2.
      destruct (lookup "" extension_map); [discriminate E2 || (now inversion E2)|discriminate]. }
    rewrite Hne. cbn [andb]. destruct (lang_class l); try discriminate. reflexivity.
  - destruct (shebang_consts) as (S1 & S2 & S3).
    change (is_shebang (first_line (f_head f))) with (spec_python_shebang (first_line (f_head f))).
    destruct (String.eqb (py_suffix (f_name f)) "" && f_nonempty f && f_readable f
              && spec_python_shebang (first_line (f_head f))).
    + rewrite S2. reflexivity.
    + symmetry. exact S3.
Qed.

(* ================================================================== 3. the oracle table *)

Lemma an_entry t rid k : an t rid k <> [] -> In ((rid, k), an t rid k) t.
Proof.
  induction t as [|[[r l] vs] rest IH]; cbn [an]; [congruence|].
  destruct (String.eqb_spec r rid) as [->|Hr]; cbn [andb].
  - destruct (String.eqb_spec l k) as [->|Hl]; [intros _; now left|]. intro H. right. now apply IH.
  - intro H. right. now apply IH.
Qed.

Definition ids_not_raw_b : bool := forallb (fun r => String.eqb (base_id (r_id r)) (r_id r)) rule_table.
Lemma ids_not_raw_true : ids_not_raw_b = true.
Proof. vm_compute. reflexivity. Qed.
Lemma base_id_rule r : In r rule_table -> base_id (r_id r) = r_id r.
Proof.
  intro Hr. pose proof ids_not_raw_true as H. unfold ids_not_raw_b in H. rewrite forallb_forall in H.
  now apply String.eqb_eq, H.
Qed.

Lemma atab_entry_fact t r k :
  atab_good t = true -> In r rule_table -> an t (r_id r) k <> [] ->
  key_ok r k = true /\ forall v, In v (an t (r_id r) k) -> in_registry (r_pkg r) (fst v) = true.
Proof.
  intros G Hr Hne. apply an_entry in Hne. unfold atab_good in G. rewrite forallb_forall in G.
  specialize (G _ Hne). unfold entry_good in G. cbn [fst snd] in G. rewrite (base_id_rule r Hr) in G.
  apply andb_true_iff in G as [_ G]. rewrite forallb_forall in G. specialize (G _ Hr).
  rewrite String.eqb_refl in G. cbn [negb orb] in G. apply andb_true_iff in G as [G1 G2].
  split; [exact G1|]. intros v Hv. rewrite forallb_forall in G2. exact (G2 _ Hv).
Qed.

Lemma in_registry_In pkg rid : in_registry pkg rid = true -> In (pkg, rid) registry_rule_ids.
Proof.
  unfold in_registry. intro H. apply existsb_exists in H as ([p i] & Hin & H). cbn [fst snd] in H.
  apply andb_true_iff in H as [H1 H2]. apply String.eqb_eq in H1, H2. now subst.
Qed.

(* a rule's analysis yields nothing for a language its guard rejects *)
Lemma an_nil_outside_guard t r k :
  atab_good t = true -> In r rule_table -> key_ok r k = false -> an t (r_id r) k = [].
Proof.
  intros G Hr Hk. destruct (an t (r_id r) k) as [|v vs] eqn:E; [reflexivity|].
  assert (Hne : an t (r_id r) k <> []) by (rewrite E; discriminate).
  destruct (atab_entry_fact t r k G Hr Hne) as [Hk' _]. congruence.
Qed.

(* ================================================================== 4. the main theorem *)

Lemma clean_not_rejected c r lang : cfg_clean c = true -> rejected r c lang = false.
Proof.
  intro H. unfold cfg_clean in H. rewrite forallb_forall in H. unfold rejected.
  apply existsb_false_forall. intros s Hs. specialize (H _ Hs).
  destruct (s_rej s); [|discriminate]. cbn [smem]. now rewrite andb_false_r.
Qed.

Lemma no_abort_clean c f lang : cfg_clean c = true -> aborts c f lang = false.
Proof.
  intro H. unfold aborts. apply existsb_false_forall. intros r _.
  rewrite (clean_not_rejected c r lang H). now rewrite andb_false_r.
Qed.

(* rule level: what the command's filter keeps of a rule's result is what the specification asks for *)
Lemma inert_rule q f r l :
  exemption_inert q f = true ->
  q_name_exemption_ext_case q && negb (Bool.eqb (exempt r l (f_name f)) (exempt r l (canon_name (f_name f)))) = false.
Proof.
  unfold exemption_inert. intro H. apply orb_true_iff in H as [H|H].
  - apply negb_true_iff in H. now rewrite H.
  - apply String.eqb_eq in H. rewrite H, Bool.eqb_reflx. now rewrite andb_false_r.
Qed.

Lemma rule_level q cmd atoms t r l name :
  In (cmd, atoms) cli_filters -> atab_good t = true -> In r rule_table -> In l det_langs ->
  q_name_exemption_ext_case q && negb (Bool.eqb (exempt r l name) (exempt r l (canon_name name))) = false ->
  filter (fun v => passes atoms (fst v)) (rule_result q t r l name)
  = if allowed (r_pkg r) (lang_class l)
    then filter (fun v => owns cmd (r_pkg r) (fst v)) (an t (r_id r) (spec_key (r_pkg r) (lang_class l)))
    else [].
Proof.
  intros Hc G Hr Hl Hx. pose proof (rule_lang_fact r l Hr Hl) as F. unfold rule_lang_ok in F.
  apply andb_true_iff in F as [F1 F2]. unfold rule_result. rewrite Hx.
  destruct (allowed (r_pkg r) (lang_class l)) eqn:A.
  - cbn [implb] in F2. apply andb_true_iff in F2 as [F2 _]. apply String.eqb_eq in F2. rewrite <- F2.
    destruct (guard r l) eqn:Gd.
    + apply filter_ext_in'. intros v Hv.
      assert (Hne : an t (r_id r) (an_key r l) <> []) by (intro E; rewrite E in Hv; exact Hv).
      destruct (atab_entry_fact t r _ G Hr Hne) as [_ Hreg].
      apply (filter_exact cmd atoms (r_pkg r) (fst v) Hc). apply in_registry_In. exact (Hreg v Hv).
    + cbn [filter]. rewrite (an_nil_outside_guard t r (an_key r l) G Hr); [reflexivity|].
      unfold key_ok, an_key. unfold guard in Gd. destruct (r_langs r); [exact Gd|discriminate].
  - destruct (guard r l); [discriminate|reflexivity].
Qed.

Theorem run_cmd_spec q cmd c t f :
  q_shebang_any_ext q = false -> exemption_inert q f = true ->
  is_command cmd = true -> atab_good t = true ->
  aborts c f (detect q f) = false ->
  run_cmd q cmd c t f = Ok (spec_out cmd t f).
Proof.
  intros Hq1 Hin Hcmd G Hab. unfold run_cmd. rewrite Hab.
  destruct (command_has_filter cmd Hcmd) as [atoms Ha]. rewrite Ha. f_equal.
  unfold run_all, spec_out. rewrite filter_flat_map. apply flat_map_ext_in. intros r Hr.
  rewrite (detect_spec q f Hq1).
  apply (rule_level q cmd atoms t r (detect q f) (f_name f) (lookup_In _ _ _ Ha) G Hr (detect_in_det_langs q f)).
  now apply inert_rule.
Qed.

(* full strength: every quirk vector with the flag off, every command, file, oracle table and every
   configuration of the domain (all sections valid) *)
Theorem run_cmd_exact q cmd c t f :
  q_shebang_any_ext q = false -> exemption_inert q f = true ->
  is_command cmd = true -> atab_good t = true -> cfg_clean c = true ->
  run_cmd q cmd c t f = Ok (spec_out cmd t f).
Proof.
  intros Hq1 Hin Hcmd G Ho. apply run_cmd_spec; try assumption. now apply no_abort_clean.
Qed.

(* ---- the faithful variant: the guard of the shebang fallback as found in the source (fix 2639201: `not ext and ...`)
   confines it to extensionless names, so the quirk flag is moot and the theorems need no hypothesis on it *)
Lemma shebang_guard_confined : shebang_guard_any_ext = false.
Proof. reflexivity. Qed.

Lemma detect_flag_irrelevant q f : detect q f = detect ideal f.
Proof. unfold detect, ideal. cbn [q_shebang_any_ext]. rewrite shebang_guard_confined, andb_false_r. reflexivity. Qed.

Definition unshebang (q : quirks) : quirks := mk_quirks false (q_name_exemption_ext_case q).

Lemma run_cmd_flag_irrelevant q cmd c t f : run_cmd q cmd c t f = run_cmd (unshebang q) cmd c t f.
Proof. unfold run_cmd. rewrite (detect_flag_irrelevant q f), (detect_flag_irrelevant (unshebang q) f). reflexivity. Qed.

Lemma detect_spec_faithful q f : spec_class f = lang_class (detect q f).
Proof. rewrite detect_flag_irrelevant. now apply detect_spec. Qed.

(* main theorem for the faithful model: no hypothesis on the shebang flag (the source confines the fallback);
   the name-exemption flag must be inert (off, or a lower-case extension) *)
Theorem run_cmd_exact_faithful q cmd c t f :
  exemption_inert q f = true ->
  is_command cmd = true -> atab_good t = true -> cfg_clean c = true ->
  run_cmd q cmd c t f = Ok (spec_out cmd t f).
Proof. intros Hin Hc G Ho. rewrite run_cmd_flag_irrelevant. apply run_cmd_exact; try assumption; try reflexivity; exact Hin. Qed.

Theorem run_cmd_exact_flag_off q cmd c t f :
  q_name_exemption_ext_case q = false ->
  is_command cmd = true -> atab_good t = true -> cfg_clean c = true ->
  run_cmd q cmd c t f = Ok (spec_out cmd t f).
Proof. intros Hq. apply run_cmd_exact_faithful. unfold exemption_inert. now rewrite Hq. Qed.

(* confinement of the listed defect: under ANY quirk vector the faithful model meets the specification on every
   file whose extension is spelled in lower case *)
Theorem run_cmd_partial_lowercase q cmd c t f :
  String.eqb (canon_name (f_name f)) (f_name f) = true ->
  is_command cmd = true -> atab_good t = true -> cfg_clean c = true ->
  run_cmd q cmd c t f = Ok (spec_out cmd t f).
Proof. intros Hl. apply run_cmd_exact_faithful. unfold exemption_inert. now rewrite Hl, orb_true_r. Qed.

(* ================================================================== 5. corollaries named by the property *)

(* only ids of the command's own linter are printed *)
Theorem only_own_rules q cmd c t f vs v :
  q_shebang_any_ext q = false -> exemption_inert q f = true -> is_command cmd = true -> atab_good t = true ->
  run_cmd q cmd c t f = Ok vs -> In v vs ->
  exists r, In r rule_table /\ owns cmd (r_pkg r) (fst v) = true.
Proof.
  intros Hq Hin Hcmd G Hrun Hv.
  assert (Hab : aborts c f (detect q f) = false).
  { unfold run_cmd in Hrun. destruct (aborts c f (detect q f)); [discriminate|reflexivity]. }
  rewrite (run_cmd_spec q cmd c t f Hq Hin Hcmd G Hab) in Hrun. injection Hrun as <-.
  unfold spec_out in Hv. apply in_flat_map in Hv as (r & Hr & Hv). exists r. split; [exact Hr|].
  destruct (allowed (r_pkg r) (spec_class f)); [|destruct Hv].
  apply filter_In in Hv as [_ Hv]. exact Hv.
Qed.

(* a rule is let through only on the languages its linter is documented for; an unrecognised file
   type reaches no source-analysis rule *)
Theorem guard_within_docs q f r :
  In r rule_table -> guard r (detect q f) = true -> allowed (r_pkg r) (lang_class (detect q f)) = true.
Proof.
  intros Hr Hg. pose proof (rule_lang_fact r _ Hr (detect_in_det_langs q f)) as F. unfold rule_lang_ok in F.
  apply andb_true_iff in F as [F _]. rewrite Hg in F. exact F.
Qed.

Theorem unrecognised_yields_nothing q cmd c t f vs :
  q_shebang_any_ext q = false -> exemption_inert q f = true -> is_command cmd = true -> atab_good t = true ->
  spec_class f = LOther -> run_cmd q cmd c t f = Ok vs ->
  forall v, In v vs -> exists r, In r rule_table /\ lookup (r_pkg r) doc_langs = Some None.
Proof.
  intros Hq Hin Hcmd G Hcl Hrun v Hv.
  assert (Hab : aborts c f (detect q f) = false).
  { unfold run_cmd in Hrun. destruct (aborts c f (detect q f)); [discriminate|reflexivity]. }
  rewrite (run_cmd_spec q cmd c t f Hq Hin Hcmd G Hab) in Hrun. injection Hrun as <-.
  unfold spec_out in Hv. rewrite Hcl in Hv. apply in_flat_map in Hv as (r & Hr & Hv). exists r. split; [exact Hr|].
  unfold allowed in Hv. destruct (lookup (r_pkg r) doc_langs) as [[ls|]|]; [destruct Hv|reflexivity|destruct Hv].
Qed.

Theorem only_own_rules_faithful q cmd c t f vs v :
  exemption_inert q f = true -> is_command cmd = true -> atab_good t = true ->
  run_cmd q cmd c t f = Ok vs -> In v vs ->
  exists r, In r rule_table /\ owns cmd (r_pkg r) (fst v) = true.
Proof.
  intros Hin Hc G Hrun Hv. rewrite run_cmd_flag_irrelevant in Hrun.
  now apply (only_own_rules (unshebang q) cmd c t f vs v).
Qed.

Theorem unrecognised_yields_nothing_faithful q cmd c t f vs :
  exemption_inert q f = true -> is_command cmd = true -> atab_good t = true ->
  spec_class f = LOther -> run_cmd q cmd c t f = Ok vs ->
  forall v, In v vs -> exists r, In r rule_table /\ lookup (r_pkg r) doc_langs = Some None.
Proof.
  intros Hin Hc G Hcl Hrun. rewrite run_cmd_flag_irrelevant in Hrun.
  now apply (unrecognised_yields_nothing (unshebang q) cmd c t f vs).
Qed.

(* configuring other linters never changes a command's result: within the domain the configuration does not
   enter the result at all (a linter's own settings act through its analysis, i.e. through the oracle table) *)
Theorem other_sections_irrelevant q cmd c1 c2 t f :
  cfg_clean c1 = true -> cfg_clean c2 = true ->
  run_cmd q cmd c1 t f = run_cmd q cmd c2 t f.
Proof.
  intros H1 H2. unfold run_cmd. now rewrite (no_abort_clean c1 f _ H1), (no_abort_clean c2 f _ H2).
Qed.

(* outside the domain (C05's territory): a rejected section that some rule loads on this file ends the run,
   whichever command runs *)
Theorem rejected_section_aborts q cmd c t f r :
  In r rule_table -> loads r f (detect q f) = true -> rejected r c (detect q f) = true ->
  run_cmd q cmd c t f = Aborted.
Proof.
  intros Hr Hl Hj. unfold run_cmd.
  replace (aborts c f (detect q f)) with true; [reflexivity|].
  symmetry. unfold aborts. apply existsb_exists. exists r. split; [exact Hr|]. now rewrite Hl, Hj.
Qed.

(* ================================================================== 6. name-based exemptions are language-independent facts *)

Lemma length_app a b : String.length (a ++ b)%string = String.length a + String.length b.
Proof. induction a as [|c t IH]; [reflexivity|]. change ((String c t ++ b)%string) with (String c (t ++ b)%string). cbn [String.length]. now rewrite IH. Qed.

Lemma take_app a b : take (String.length a) (a ++ b)%string = a.
Proof. induction a as [|c t IH]; [destruct b; reflexivity|]. change ((String c t ++ b)%string) with (String c (t ++ b)%string). cbn [String.length take]. now rewrite IH. Qed.

(* the canonical name of  stem ++ variant  is  stem ++ lower variant *)
Lemma canon_name_app stem v :
  stem <> EmptyString -> ext_shape v = true -> canon_name (stem ++ v)%string = (stem ++ lower v)%string.
Proof.
  intros Hs Hv. unfold canon_name. rewrite (py_suffix_app stem v Hs Hv), length_app.
  replace (String.length stem + String.length v - String.length v) with (String.length stem) by lia.
  now rewrite take_app.
Qed.

(* with the flag off every exemption predicate is evaluated on the canonical name, hence gives the same answer for
   every case variant of the extension: `test_x.PY` is a test file exactly when `test_x.py` is *)
Theorem exempt_case_independent r l stem v1 v2 :
  stem <> EmptyString -> ext_shape v1 = true -> ext_shape v2 = true -> lower v1 = lower v2 ->
  exempt r l (canon_name (stem ++ v1)) = exempt r l (canon_name (stem ++ v2)).
Proof. intros Hs H1 H2 E. now rewrite (canon_name_app stem v1 Hs H1), (canon_name_app stem v2 Hs H2), E. Qed.

Theorem rule_result_case_independent q t r l stem v1 v2 :
  q_name_exemption_ext_case q = false ->
  rule_result q t r l (stem ++ v1) = rule_result q t r l (stem ++ v2).
Proof. intro Hq. unfold rule_result. now rewrite Hq. Qed.
