(* Proofs/ContainDetect.v — language detection on arbitrary names and contents (C11, proved part).
   The point for C11: which analyzers run on a file is decided by its extension alone whenever the
   extension is in the table, so no damage to the content can re-route a file or its siblings. *)
From TL Require Import Lib.Base Lib.GenTypes Model.ContainTypes Gen.ContainGen Model.Contain.

Lemma assoc_In k l v : assoc k l = Some v -> In v (map snd l).
Proof.
  induction l as [|[a b] t IH]; cbn [assoc map snd]; [discriminate|].
  destruct (String.eqb k a); [intros H; injection H as ->; left; reflexivity|]. intros H. right. exact (IH H).
Qed.

Lemma shebang_lang_In line l : shebang_lang line = Some l -> In l (map snd shebang_langs).
Proof.
  unfold shebang_lang. destruct (prefixb shebang_prefix line); [|discriminate].
  destruct (find (fun nl => containsb (fst nl) line) shebang_langs) as [nl|] eqn:F; [|discriminate].
  intros H. injection H as <-. apply find_some in F. destruct F as [I _]. apply in_map. exact I.
Qed.

(* totality is by construction (Gallina); the result is always one of the table's languages, a shebang language or "unknown" *)
Theorem detect_in_range name present decodes content : In (detect name present decodes content) detect_range.
Proof.
  unfold detect, detect_range.
  destruct (assoc (ext_of name) extension_map) as [l|] eqn:A.
  - apply in_or_app. left. exact (assoc_In _ _ _ A).
  - assert (In unknown_language (map snd extension_map ++ map snd shebang_langs ++ [unknown_language])) as U
      by (apply in_or_app; right; apply in_or_app; right; left; reflexivity).
    destruct ((negb shebang_requires_no_ext || String.eqb (ext_of name) "") && present
              && cmp_nat shebang_size_cmp (String.length content) shebang_size_bound); [|exact U].
    destruct decodes; [|exact U].
    destruct (shebang_lang (first_line content)) as [l|] eqn:S; [|exact U].
    apply in_or_app. right. apply in_or_app. left. exact (shebang_lang_In _ _ S).
Qed.

(* a mapped extension decides, whatever the file contains and whether or not it can be read *)
Theorem detect_known_ext name l :
  assoc (ext_of name) extension_map = Some l ->
  forall present decodes content, detect name present decodes content = l.
Proof. intros A present decodes content. unfold detect. rewrite A. reflexivity. Qed.

Theorem detect_depends_on_ext_only n1 n2 :
  ext_of n1 = ext_of n2 ->
  forall present decodes content, detect n1 present decodes content = detect n2 present decodes content.
Proof. intros E present decodes content. unfold detect. rewrite E. reflexivity. Qed.

(* without a mapped extension only a decodable "#!" first line can give a language *)
Theorem detect_unknown name present decodes content :
  assoc (ext_of name) extension_map = None ->
  present = false \/ decodes = false \/ prefixb shebang_prefix (first_line content) = false ->
  detect name present decodes content = unknown_language.
Proof.
  intros A H. unfold detect. rewrite A.
  destruct H as [->|[->|P]].
  - rewrite andb_false_r. reflexivity.
  - destruct (_ && _ && _); reflexivity.
  - unfold shebang_lang. rewrite P. destruct (_ && _ && _); [destruct decodes|]; reflexivity.
Qed.

(* an empty file is never read *)
Theorem detect_empty name present decodes :
  assoc (ext_of name) extension_map = None -> detect name present decodes "" = unknown_language.
Proof. intros A. unfold detect. rewrite A. rewrite andb_comm. reflexivity. Qed.

(* with the guard `not ext` found in the source, a shebang is consulted for extensionless names only *)
Theorem detect_unmapped_ext_is_unknown name present decodes content :
  shebang_requires_no_ext = true ->
  assoc (ext_of name) extension_map = None -> ext_of name <> "" ->
  detect name present decodes content = unknown_language.
Proof.
  intros G A N. unfold detect. rewrite A, G. cbn [negb orb].
  destruct (String.eqb_spec (ext_of name) ""); [contradiction|]. reflexivity.
Qed.

(* ---------- the suffix of  stem ++ ".ext" ---------- *)
Lemma is_dot_lower c : is_dot (lower_ascii c) = is_dot c.
Proof. destruct c as [[] [] [] [] [] [] [] []]; reflexivity. Qed.

Lemma suffix_aux_nodot l : forallb (fun c => negb (is_dot c)) l = true -> suffix_aux l = None.
Proof.
  induction l as [|c t IH]; [reflexivity|]. cbn [forallb suffix_aux]. intros H. apply andb_prop in H. destruct H as [Hc Ht].
  rewrite (IH Ht). destruct (is_dot c); [discriminate|reflexivity].
Qed.

Lemma suffix_aux_app stem d r :
  is_dot d = true -> forallb (fun c => negb (is_dot c)) r = true -> suffix_aux (stem ++ d :: r) = Some (d :: r).
Proof.
  intros Hd Hr. induction stem as [|c t IH].
  - cbn [app suffix_aux]. rewrite (suffix_aux_nodot r Hr), Hd. reflexivity.
  - change ((c :: t) ++ d :: r) with (c :: (t ++ d :: r)). cbn [suffix_aux]. rewrite IH. reflexivity.
Qed.

Lemma suffix_chars_app stem d r :
  stem <> [] -> r <> [] -> is_dot d = true -> forallb (fun c => negb (is_dot c)) r = true ->
  suffix_chars (stem ++ d :: r) = d :: r.
Proof.
  intros Hs Hne Hd Hr. destruct stem as [|c t]; [contradiction|].
  change ((c :: t) ++ d :: r) with (c :: (t ++ d :: r)). cbn [suffix_chars].
  rewrite (suffix_aux_app t d r Hd Hr). destruct r; [contradiction|reflexivity].
Qed.

(* every key of the table is a lower-case ".xyz" with no further dot, and looks itself up *)
Definition ext_ok (kv : string * string) : bool :=
  match list_ascii_of_string (fst kv) with
  | d :: (_ :: _) as r =>
      is_dot d && forallb (fun c => negb (is_dot c)) r
      && match assoc (fst kv) extension_map with Some l => String.eqb l (snd kv) | None => false end
  | _ => false
  end.

Lemma table_ok : forallb ext_ok extension_map = true /\ detect_ext_lowered = true.
Proof. vm_compute. split; reflexivity. Qed.

Lemma forallb_map_lower r :
  forallb (fun c => negb (is_dot c)) (map lower_ascii r) = forallb (fun c => negb (is_dot c)) r.
Proof. induction r as [|c t IH]; [reflexivity|]. cbn [map forallb]. rewrite is_dot_lower, IH. reflexivity. Qed.

(* Agreement: a non-empty stem followed by any upper/lower-case spelling of a mapped extension is detected
   as that extension's language, whatever the content *)
Theorem detect_by_extension stem e' ext lang present decodes content :
  In (ext, lang) extension_map -> stem <> [] ->
  map lower_ascii e' = list_ascii_of_string ext ->
  detect (string_of_list_ascii (stem ++ e')) present decodes content = lang.
Proof.
  intros I Hs Hl. destruct table_ok as [T Lw].
  rewrite forallb_forall in T. specialize (T _ I). unfold ext_ok in T. cbn [fst snd] in T.
  rewrite <- Hl in T.
  destruct e' as [|d r]; [discriminate|]. cbn [map] in T.
  destruct r as [|c r']; [discriminate|].
  change (map lower_ascii (c :: r')) with (lower_ascii c :: map lower_ascii r') in T.
  apply andb_prop in T. destruct T as [T A]. apply andb_prop in T. destruct T as [Td Tr].
  rewrite is_dot_lower in Td.
  change (lower_ascii c :: map lower_ascii r') with (map lower_ascii (c :: r')) in Tr.
  rewrite forallb_map_lower in Tr.
  apply detect_known_ext.
  unfold ext_of. rewrite list_ascii_of_string_of_list_ascii, Lw.
  assert (suffix_chars (stem ++ d :: c :: r') = d :: c :: r') as S
    by (apply suffix_chars_app; [exact Hs|discriminate|exact Td|exact Tr]).
  rewrite S. rewrite Hl, string_of_list_ascii_of_string.
  destruct (assoc ext extension_map) as [l|]; [|discriminate].
  apply String.eqb_eq in A. subst l. reflexivity.
Qed.

(* non-vacuity / concrete agreement: spelled-out instances *)
Example detect_examples :
  detect "a.py" true true "" = "python" /\ detect "A.PY" true false "garbage" = "python"
  /\ detect "x.d.ts" true true "#!/usr/bin/python" = "typescript" /\ detect "lib.RS" false false "" = "rust"
  /\ detect "tool" true true "#!/usr/bin/env python3" = "python" /\ detect "tool" true false "#!/usr/bin/env python3" = "unknown"
  /\ detect ".py" true true "x" = "unknown" /\ detect "a.py." true true "x" = "unknown" /\ detect "a.xyz" true true "x = 1" = "unknown".
Proof. vm_compute. repeat split; reflexivity. Qed.
