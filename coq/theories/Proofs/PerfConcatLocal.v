(* Proofs/PerfConcatLocal.v — the string-concat-in-loop detector of Model/PerfConcat.v is local once its two
   file-global ingredients are switched off (q_concat_global_names = q_concat_dedup_by_name = false):
   for every context whose wrappers are neither loops nor assignments and carry no loops / scope-level
   assignments of their own, and whose filler statements are closed (defs / classes),
       concat_reports q (plug c frag) = <filler reports> ++ moved (concat_reports q frag) ++ <filler reports>.
   The name sets in force at the hole are those of the fragment alone (scoped classification), which is the one
   place where this detector needs more than the inert-wrapper argument of Proofs/EmbedLocality.v. *)
From Coq Require Import Permutation.
From TL Require Import Lib.Base Lib.GenTypes Gen.EmbedGen Model.Embed Model.PrintStmt Model.PerfConcat
     Proofs.EmbedLocality Proofs.PrintStmtLocal.

(* ------------------------------------------------------------------ position independence of the leaf functions *)
Lemma ncls_shift dl dc t : ncls (shift dl dc t) = ncls t.
Proof. destruct t. reflexivity. Qed.
Lemma nrole_shift dl dc t : nrole (shift dl dc t) = nrole t.
Proof. destruct t. reflexivity. Qed.
Lemma nkids_shift dl dc t : nkids (shift dl dc t) = map (shift dl dc) (nkids t).
Proof. destruct t. reflexivity. Qed.
Lemma loop_type_shift dl dc t : loop_type (shift dl dc t) = loop_type t.
Proof. unfold loop_type. now rewrite ncls_shift. Qed.
Lemma is_scope_shift dl dc t : is_scope (shift dl dc t) = is_scope t.
Proof. unfold is_scope. now rewrite ncls_shift. Qed.
Lemma field_shift f dl dc t : field f (shift dl dc t) = map (shift dl dc) (field f t).
Proof. destruct t as [i ks]. unfold field. cbn [shift nkids]. apply filter_role_map. apply nrole_shift. Qed.

Lemma cl_node_shift dl dc t : cl_node (shift dl dc t) = cl_node t.
Proof. unfold cl_node. now rewrite !is_cls_shift, erase_shift. Qed.
Lemma own_resets_shift dl dc t : own_resets (shift dl dc t) = own_resets t.
Proof. unfold own_resets. now rewrite !is_cls_shift, erase_shift. Qed.

Lemma flat_map_ext_F {A B} (f g : A -> list B) l : Forall (fun x => f x = g x) l -> flat_map f l = flat_map g l.
Proof. induction 1 as [|x xs Hx _ IH]; cbn [flat_map]; [reflexivity|]. now rewrite Hx, IH. Qed.

Lemma classify_sc_node i ks :
  classify_sc (Node i ks) = if is_scope (Node i ks) then [] else cl_node (Node i ks) ++ flat_map classify_sc ks.
Proof. reflexivity. Qed.

Lemma classify_sc_shift dl dc t : classify_sc (shift dl dc t) = classify_sc t.
Proof.
  induction t as [i ks IH] using ast_ind'.
  rewrite shift_node, classify_sc_node. rewrite <- shift_node.
  rewrite is_scope_shift, cl_node_shift, classify_sc_node.
  destruct (is_scope (Node i ks)); [reflexivity|]. f_equal.
  rewrite flat_map_map. apply flat_map_ext_F. exact IH.
Qed.

Lemma classify_scF_shift dl dc ts : classify_scF (shiftF dl dc ts) = classify_scF ts.
Proof.
  unfold classify_scF, shiftF. rewrite flat_map_map. apply flat_map_ext_F.
  apply Forall_forall. intros k _. apply classify_sc_shift.
Qed.

Lemma classify_scF_app a b : classify_scF (a ++ b) = classify_scF a ++ classify_scF b.
Proof. apply flat_map_app. Qed.

Lemma enter_shift q s dl dc t : enter q s (shift dl dc t) = enter q s t.
Proof.
  unfold enter. destruct (q_concat_global_names q); [reflexivity|].
  rewrite is_scope_shift, nkids_shift. destruct (is_scope t); [|reflexivity]. apply classify_scF_shift.
Qed.

(* csa reaches two levels down (try -> handler -> body): carry the invariant for the children as well *)
Lemma csa_node i ks :
  csa (Node i ks) =
  own_resets (Node i ks)
  ++ (if is_cls sc_if_cls (Node i ks) then
        flat_map (fun k => if smem (nrole k) sc_if_fields then csa k else []) ks
      else if is_cls sc_try_cls (Node i ks) then
        flat_map (fun k => if smem (nrole k) sc_try_fields then csa k
                           else if String.eqb (nrole k) sc_try_handlers_field then
                             flat_map (fun h => if String.eqb (nrole h) sc_handler_body_field then csa h else []) (nkids k)
                           else []) ks
      else []).
Proof.
  cbn [csa]. f_equal. destruct (is_cls sc_if_cls (Node i ks)); [reflexivity|].
  destruct (is_cls sc_try_cls (Node i ks)); [|reflexivity].
  apply flat_map_ext. intros [j hks]. reflexivity.
Qed.

Lemma csa_shift_strong dl dc t :
  csa (shift dl dc t) = csa t /\ Forall (fun h => csa (shift dl dc h) = csa h) (nkids t).
Proof.
  induction t as [i ks IH] using ast_ind'.
  assert (Hk : Forall (fun h => csa (shift dl dc h) = csa h) ks).
  { eapply Forall_impl; [|exact IH]. intros k [H _]. exact H. }
  split; [|exact Hk].
  rewrite shift_node, csa_node. rewrite <- shift_node.
  rewrite own_resets_shift, !is_cls_shift, csa_node. f_equal.
  destruct (is_cls sc_if_cls (Node i ks)).
  - rewrite flat_map_map. apply flat_map_ext_F.
    eapply Forall_impl; [|exact Hk]. intros k H. cbn beta. rewrite nrole_shift.
    destruct (smem (nrole k) sc_if_fields); [exact H|reflexivity].
  - destruct (is_cls sc_try_cls (Node i ks)); [|reflexivity].
    rewrite flat_map_map. apply flat_map_ext_F.
    eapply Forall_impl; [|exact IH]. intros k [H1 H2]. cbn beta. rewrite nrole_shift.
    destruct (smem (nrole k) sc_try_fields); [exact H1|].
    destruct (String.eqb (nrole k) sc_try_handlers_field); [|reflexivity].
    rewrite nkids_shift, flat_map_map. apply flat_map_ext_F.
    eapply Forall_impl; [|exact H2]. intros h Hh. cbn beta. rewrite nrole_shift.
    destruct (String.eqb (nrole h) sc_handler_body_field); [exact Hh|reflexivity].
Qed.

Lemma csa_shift dl dc t : csa (shift dl dc t) = csa t.
Proof. apply csa_shift_strong. Qed.

Lemma resets_shift dl dc t : resets (shift dl dc t) = resets t.
Proof.
  unfold resets. rewrite ncls_shift, field_shift.
  destruct (smem (ncls t) sc_reset_loop_classes); [|reflexivity].
  rewrite flat_map_map. apply flat_map_ext. intros k. apply csa_shift.
Qed.

Lemma cand_here_shift q s l r dl dc t :
  cand_here q s l r (shift dl dc t) = shiftRs dl dc (cand_here q s l r t).
Proof.
  unfold cand_here. rewrite is_cls_shift, erase_shift.
  destruct (is_cls sc_aug_cls t); [|reflexivity].
  destruct (aug_parts (erase t)) as [[x v]|]; [|reflexivity].
  destruct (negb (smem x r) && likely q s x v); destruct t as [i ks]; reflexivity.
Qed.

Lemma cw_node q s l r i ks :
  cw q s l r (Node i ks) =
  match loop_type (Node i ks) with
  | Some _ => []
  | None => cand_here q (enter q s (Node i ks)) l r (Node i ks) ++ flat_map (cw q (enter q s (Node i ks)) l r) ks
  end.
Proof. reflexivity. Qed.

Lemma cw_shift q l r dl dc t : forall s, cw q s l r (shift dl dc t) = shiftRs dl dc (cw q s l r t).
Proof.
  induction t as [i ks IH] using ast_ind'. intro s.
  rewrite shift_node, cw_node. rewrite <- shift_node.
  rewrite loop_type_shift, enter_shift, cand_here_shift, cw_node.
  destruct (loop_type (Node i ks)); [reflexivity|].
  rewrite shiftRs_app. f_equal. rewrite flat_map_map.
  apply (flat_map_mapped (shiftRs dl dc)); [apply shiftRs_app|reflexivity|].
  eapply Forall_impl; [|exact IH]. intros k Hk. apply Hk.
Qed.

Lemma nodup_name_shift dl dc l : forall seen,
  nodup_name seen (shiftRs dl dc l) = shiftRs dl dc (nodup_name seen l).
Proof.
  induction l as [|r rs IH]; intro seen; [reflexivity|].
  cbn [shiftRs map nodup_name].
  assert (E : snd (shiftR dl dc r) = snd r) by (destruct r as [[[a b] p] x]; reflexivity).
  rewrite E. destruct (smem (snd r) seen).
  - apply IH.
  - cbn [map]. f_equal. apply IH.
Qed.

Lemma cl_step_shift q dl dc s t : cl_step q s (shift dl dc t) = cl_step q s t.
Proof. apply enter_shift. Qed.

Lemma cl_emit_shift q dl dc s t : cl_emit q s (shift dl dc t) = shiftRs dl dc (cl_emit q s t).
Proof.
  unfold cl_emit. rewrite loop_type_shift, resets_shift, nkids_shift.
  destruct (loop_type t) as [l|]; [|reflexivity].
  rewrite <- nodup_name_shift. f_equal. rewrite flat_map_map.
  apply (flat_map_mapped (shiftRs dl dc)); [apply shiftRs_app|reflexivity|].
  apply Forall_forall. intros k _. apply cw_shift.
Qed.

(* ------------------------------------------------------------------ closed and loop-free code *)
Lemma scope_not_loop t : is_scope t = true -> loop_type t = None.
Proof.
  unfold is_scope, loop_type. intro H. apply smem_In in H. unfold scope_classes in H. cbn [In] in H.
  destruct H as [H|[H|[H|[H|[]]]]]; rewrite <- H; reflexivity.
Qed.

Section Ideal.
  Variable q : cquirks.
  Hypothesis Hg : q_concat_global_names q = false.
  Notation D := (detectF (cl_step q) (cl_emit q)).
  Notation D1 := (detect (cl_step q) (cl_emit q)).

  Lemma enter_scope s t : is_scope t = true -> enter q s t = classify_scF (nkids t).
  Proof. unfold enter. rewrite Hg. now intros ->. Qed.
  Lemma enter_plain s t : is_scope t = false -> enter q s t = s.
  Proof. unfold enter. rewrite Hg. now intros ->. Qed.

  Lemma detect_scope_indep s1 s2 t : is_scope t = true -> D1 s1 t = D1 s2 t.
  Proof.
    intro H. destruct t as [i ks]. rewrite !detect_node.
    unfold cl_emit, cl_step. rewrite (scope_not_loop _ H), !(enter_scope _ _ H). reflexivity.
  Qed.

  Lemma closed_indep s1 s2 l : forallb is_scope l = true -> D s1 l = D s2 l.
  Proof.
    intro H. unfold detectF. apply flat_map_ext_F. apply Forall_forall. intros k Hk.
    apply detect_scope_indep. rewrite forallb_forall in H. now apply H.
  Qed.

  Lemma closed_no_names l : forallb is_scope l = true -> classify_scF l = [].
  Proof.
    induction l as [|k ks IH]; cbn [forallb]; intro H; [reflexivity|].
    apply andb_true_iff in H. destruct H as [H1 H2].
    unfold classify_scF. cbn [flat_map]. fold (classify_scF ks). rewrite (IH H2), app_nil_r.
    destruct k as [i ks']. rewrite classify_sc_node, H1. reflexivity.
  Qed.

  Lemma loop_free_node i ks :
    loop_free (Node i ks) = match loop_type (Node i ks) with Some _ => false | None => forallb loop_free ks end.
  Proof. reflexivity. Qed.

  Lemma loop_free_silent t : loop_free t = true -> forall s, D1 s t = [].
  Proof.
    induction t as [i ks IH] using ast_ind'. intros H s. rewrite loop_free_node in H.
    rewrite detect_node. unfold cl_emit at 1. destruct (loop_type (Node i ks)); [discriminate|].
    cbn [app]. rewrite forallb_forall in H.
    generalize (cl_step q s (Node i ks)). intro s'.
    induction ks as [|k ks' IHk]; [reflexivity|]. cbn [flat_map].
    inversion IH as [|? ? Hk Hks]; subst.
    rewrite (Hk (H k (or_introl eq_refl)) s'). cbn [app]. apply IHk; [exact Hks|].
    intros x Hx. apply H. now right.
  Qed.

  Lemma loop_free_all_silent ks s : forallb loop_free ks = true -> D s ks = [].
  Proof.
    unfold detectF. induction ks as [|k ks' IH]; cbn [forallb flat_map]; intro H; [reflexivity|].
    apply andb_true_iff in H. destruct H as [H1 H2].
    rewrite (loop_free_silent k H1 s). cbn [app]. now apply IH.
  Qed.

  Lemma quiet_silent ks s : quiet ks = true -> D s ks = [] /\ classify_scF ks = [].
  Proof.
    unfold quiet. intro H. apply andb_true_iff in H. destruct H as [H1 H2]. split.
    - now apply loop_free_all_silent.
    - destruct (classify_scF ks); [reflexivity|discriminate].
  Qed.

  (* ---------------------------------------------------------------- the name sets at the hole are the fragment's *)
  Lemma wrap_names i pre post mid :
    cc_wrap_ok i pre post = true ->
    classify_sc (Node i (pre ++ mid ++ post)) = if is_scope (Node i (pre ++ mid ++ post)) then [] else classify_scF mid.
  Proof.
    unfold cc_wrap_ok. intro H. repeat (apply andb_true_iff in H; destruct H as [H ?]).
    rewrite classify_sc_node. destruct (is_scope (Node i (pre ++ mid ++ post))); [reflexivity|].
    match goal with Hq : quiet pre = true |- _ => destruct (quiet_silent pre [] Hq) as [_ Ep] end.
    match goal with Hq : quiet post = true |- _ => destruct (quiet_silent post [] Hq) as [_ Eq] end.
    fold (classify_scF (pre ++ mid ++ post)). rewrite !classify_scF_app, Ep, Eq, app_nil_r. cbn [app].
    unfold cl_node, is_cls, ncls. cbn [ninfo].
    match goal with Hn : negb _ = true |- _ => apply negb_true_iff in Hn; rewrite Hn end. reflexivity.
  Qed.

  Lemma wrap_silent i pre post mid s :
    cc_wrap_ok i pre post = true -> cl_emit q s (Node i (pre ++ mid ++ post)) = [].
  Proof.
    unfold cc_wrap_ok. intro H. repeat (apply andb_true_iff in H; destruct H as [H ?]).
    unfold cl_emit, loop_type, ncls. cbn [ninfo].
    destruct (assoc (cls i) sc_loop_types); [discriminate|reflexivity].
  Qed.

  (* the main induction: starting from the name sets of the whole forest, the fragment is analysed with its own *)
  Lemma concat_plug c frag : cc_ctx_ok c = true ->
    D (classify_scF (plug c frag)) (plug c frag) =
    ctx_pre (cl_step q) (cl_emit q) c []
    ++ shiftRs (off_l c) (off_c c) (D (classify_scF frag) frag)
    ++ ctx_post (cl_step q) (cl_emit q) c [].
  Proof.
    induction c as [|i pre post dl dc c' IH|pre dl c' IH post]; cbn [cc_ctx_ok]; intro H.
    - cbn [plug ctx_pre ctx_post off_l off_c]. now rewrite shiftRs_0, app_nil_r.
    - apply andb_true_iff in H. destruct H as [Hw Hc]. specialize (IH Hc).
      cbn [plug ctx_pre ctx_post off_l off_c].
      set (mid := shiftF dl dc (plug c' frag)).
      set (W := Node i (pre ++ mid ++ post)).
      assert (Hq : quiet pre = true /\ quiet post = true).
      { unfold cc_wrap_ok in Hw. repeat (apply andb_true_iff in Hw; destruct Hw as [Hw ?]). now split. }
      destruct Hq as [Hqpre Hqpost].
      (* the summary below the wrapper is the name set of the plugged inner part *)
      assert (Hs : cl_step q (classify_scF [W]) W = classify_scF (plug c' frag)).
      { unfold cl_step. destruct (is_scope W) eqn:Esc.
        - rewrite (enter_scope _ _ Esc). unfold W. cbn [nkids]. rewrite !classify_scF_app.
          destruct (quiet_silent pre [] Hqpre) as [_ ->]. destruct (quiet_silent post [] Hqpost) as [_ ->].
          rewrite app_nil_r. cbn [app]. unfold mid. apply classify_scF_shift.
        - rewrite (enter_plain _ _ Esc). unfold classify_scF at 1. cbn [flat_map]. rewrite app_nil_r.
          unfold W. rewrite (wrap_names i pre post mid Hw). fold W. rewrite Esc. unfold mid. apply classify_scF_shift. }
      rewrite detectF_one. unfold W at 2. rewrite detect_node. fold W.
      rewrite (wrap_silent i pre post mid _ Hw). cbn [app].
      rewrite Hs. change (flat_map (D1 (classify_scF (plug c' frag)))) with (D (classify_scF (plug c' frag))).
      rewrite !detectF_app.
      destruct (quiet_silent pre (classify_scF (plug c' frag)) Hqpre) as [-> _].
      destruct (quiet_silent post (classify_scF (plug c' frag)) Hqpost) as [-> _].
      destruct (quiet_silent pre [] Hqpre) as [-> _]. destruct (quiet_silent post [] Hqpost) as [-> _].
      unfold mid. rewrite (detectF_shift (cl_step q) (cl_emit q) (cl_step_shift q) (cl_emit_shift q)).
      rewrite IH, !shiftRs_app, shiftRs_shiftRs, !app_nil_r. cbn [app]. reflexivity.
    - apply andb_true_iff in H. destruct H as [H Hc]. apply andb_true_iff in H. destruct H as [Hpre Hpost].
      specialize (IH Hc). cbn [plug ctx_pre ctx_post off_l off_c].
      rewrite !classify_scF_app, (closed_no_names pre Hpre), (closed_no_names post Hpost), app_nil_r. cbn [app].
      rewrite classify_scF_shift, !detectF_app.
      rewrite (detectF_shift (cl_step q) (cl_emit q) (cl_step_shift q) (cl_emit_shift q)).
      rewrite IH, !shiftRs_app, shiftRs_shiftRs, Nat.add_0_l.
      rewrite (closed_indep (classify_scF (plug c' frag)) [] pre Hpre).
      rewrite (closed_indep (classify_scF (plug c' frag)) [] post Hpost).
      now rewrite <- !app_assoc.
  Qed.

  (* what the context parts contribute does not depend on the name sets they are analysed with *)
  Lemma ctx_parts_indep c : cc_ctx_ok c = true -> forall s,
    ctx_pre (cl_step q) (cl_emit q) c s = ctx_pre (cl_step q) (cl_emit q) c []
    /\ ctx_post (cl_step q) (cl_emit q) c s = ctx_post (cl_step q) (cl_emit q) c [].
  Proof.
    induction c as [|i pre post dl dc c' IH|pre dl c' IH post]; cbn [cc_ctx_ok]; intros H s.
    - split; reflexivity.
    - apply andb_true_iff in H. destruct H as [Hw Hc]. destruct (IH Hc s) as [E1 E2].
      unfold cc_wrap_ok in Hw. repeat (apply andb_true_iff in Hw; destruct Hw as [Hw ?]).
      cbn [ctx_pre ctx_post]. rewrite E1, E2.
      match goal with Hq : quiet pre = true |- _ =>
        destruct (quiet_silent pre s Hq) as [-> _]; destruct (quiet_silent pre [] Hq) as [-> _] end.
      match goal with Hq : quiet post = true |- _ =>
        destruct (quiet_silent post s Hq) as [-> _]; destruct (quiet_silent post [] Hq) as [-> _] end.
      split; reflexivity.
    - apply andb_true_iff in H. destruct H as [H Hc]. apply andb_true_iff in H. destruct H as [Hpre Hpost].
      destruct (IH Hc s) as [E1 E2]. cbn [ctx_pre ctx_post]. rewrite E1, E2.
      rewrite (closed_indep s [] pre Hpre), (closed_indep s [] post Hpost). split; reflexivity.
  Qed.
End Ideal.

(* ------------------------------------------------------------------ the embedding laws of the rule *)
Lemma concat_reports_ideal q file :
  q_concat_global_names q = false -> q_concat_dedup_by_name q = false ->
  concat_reports q file = detectF (cl_step q) (cl_emit q) (classify_scF file) file.
Proof. intros Hg Hd. unfold concat_reports, sets0. now rewrite Hg, Hd. Qed.

Theorem concat_embedding_local q c frag :
  q_concat_global_names q = false -> q_concat_dedup_by_name q = false -> cc_ctx_ok c = true ->
  concat_reports q (plug c frag) =
  ctx_pre (cl_step q) (cl_emit q) c []
  ++ shiftRs (off_l c) (off_c c) (concat_reports q frag)
  ++ ctx_post (cl_step q) (cl_emit q) c [].
Proof.
  intros Hg Hd Hc. rewrite !(concat_reports_ideal q _ Hg Hd). now apply concat_plug.
Qed.

Theorem concat_embedding_fillers q c frag :
  q_concat_global_names q = false -> q_concat_dedup_by_name q = false -> cc_ctx_ok c = true ->
  Permutation (concat_reports q (plug c frag))
              (shiftRs (off_l c) (off_c c) (concat_reports q frag) ++ concat_reports q (fillers c)).
Proof.
  intros Hg Hd Hc. rewrite (concat_embedding_local q c frag Hg Hd Hc).
  rewrite (concat_reports_ideal q (fillers c) Hg Hd).
  rewrite (fillers_reports (cl_step q) (cl_emit q) (cl_step_shift q) (cl_emit_shift q)).
  destruct (ctx_parts_indep q Hg c Hc (classify_scF (fillers c))) as [-> ->].
  rewrite app_assoc. rewrite (app_assoc _ (ctx_pre (cl_step q) (cl_emit q) c [])).
  apply Permutation_app_tail. apply Permutation_app_comm.
Qed.

(* ------------------------------------------------------------------ n copies: one report per occurrence *)
(* the detector looks at its name sets only through membership *)
Definition eqs (s1 s2 : list entry) : Prop := forall x, in_strs x s1 = in_strs x s2 /\ in_nons x s1 = in_nons x s2.

Lemma eqs_refl s : eqs s s.
Proof. intro x. split; reflexivity. Qed.

Lemma likely_ext q s1 s2 x v : eqs s1 s2 -> likely q s1 x v = likely q s2 x v.
Proof. intro H. unfold likely. destruct (H x) as [-> ->]. reflexivity. Qed.

Lemma cand_here_ext q s1 s2 l r t : eqs s1 s2 -> cand_here q s1 l r t = cand_here q s2 l r t.
Proof.
  intro H. unfold cand_here. destruct (is_cls sc_aug_cls t); [|reflexivity].
  destruct (aug_parts (erase t)) as [[x v]|]; [|reflexivity]. now rewrite (likely_ext q s1 s2 x v H).
Qed.

Lemma enter_ext q s1 s2 t : eqs s1 s2 -> eqs (enter q s1 t) (enter q s2 t).
Proof.
  intro H. unfold enter. destruct (q_concat_global_names q); [exact H|].
  destruct (is_scope t); [apply eqs_refl|exact H].
Qed.

Lemma cw_ext q l r t : forall s1 s2, eqs s1 s2 -> cw q s1 l r t = cw q s2 l r t.
Proof.
  induction t as [i ks IH] using ast_ind'. intros s1 s2 H. rewrite !cw_node.
  destruct (loop_type (Node i ks)); [reflexivity|].
  rewrite (cand_here_ext q _ _ l r (Node i ks) (enter_ext q s1 s2 (Node i ks) H)). f_equal.
  apply flat_map_ext_F. eapply Forall_impl; [|exact IH]. intros k Hk. apply Hk. now apply enter_ext.
Qed.

Lemma cl_emit_ext q s1 s2 t : eqs s1 s2 -> cl_emit q s1 t = cl_emit q s2 t.
Proof.
  intro H. unfold cl_emit. destruct (loop_type t); [|reflexivity]. f_equal.
  apply flat_map_ext. intro k. now apply cw_ext.
Qed.

Lemma detect_ext q t : forall s1 s2, eqs s1 s2 ->
  detect (cl_step q) (cl_emit q) s1 t = detect (cl_step q) (cl_emit q) s2 t.
Proof.
  induction t as [i ks IH] using ast_ind'. intros s1 s2 H. rewrite !detect_node.
  rewrite (cl_emit_ext q s1 s2 (Node i ks) H). f_equal.
  apply flat_map_ext_F. eapply Forall_impl; [|exact IH]. intros k Hk. apply Hk.
  unfold cl_step. now apply enter_ext.
Qed.

Lemma detectF_ext q ts s1 s2 : eqs s1 s2 ->
  detectF (cl_step q) (cl_emit q) s1 ts = detectF (cl_step q) (cl_emit q) s2 ts.
Proof. intro H. unfold detectF. apply flat_map_ext. intro k. now apply detect_ext. Qed.

Lemma in_strs_app x a b : in_strs x (a ++ b) = in_strs x a || in_strs x b.
Proof. apply existsb_app. Qed.
Lemma in_nons_app x a b : in_nons x (a ++ b) = in_nons x a || in_nons x b.
Proof. apply existsb_app. Qed.

Lemma copies_names h frag : forall ks, ks <> [] ->
  eqs (classify_scF (flat_map (fun k => shiftF (k * h) 0 frag) ks)) (classify_scF frag).
Proof.
  induction ks as [|k ks IH]; [congruence|]. intros _ x. cbn [flat_map].
  rewrite classify_scF_app, classify_scF_shift, in_strs_app, in_nons_app.
  destruct ks as [|k' ks'].
  - cbn [flat_map]. unfold classify_scF at 2 4. cbn [flat_map existsb in_strs in_nons]. now rewrite !orb_false_r.
  - destruct (IH ltac:(discriminate) x) as [-> ->]. now rewrite !orb_diag.
Qed.

Theorem concat_copies q n h frag :
  q_concat_global_names q = false -> q_concat_dedup_by_name q = false ->
  concat_reports q (copies n h frag) = flat_map (fun k => shiftRs (k * h) 0 (concat_reports q frag)) (seq 0 n).
Proof.
  intros Hg Hd. rewrite !(concat_reports_ideal q _ Hg Hd).
  destruct n as [|n]; [reflexivity|].
  rewrite (detectF_ext q (copies (S n) h frag) _ (classify_scF frag)).
  - apply (copies_local (cl_step q) (cl_emit q) (cl_step_shift q) (cl_emit_shift q)).
  - unfold copies. apply copies_names. cbn [seq]. discriminate.
Qed.

Corollary concat_copies_count q n h frag :
  q_concat_global_names q = false -> q_concat_dedup_by_name q = false ->
  List.length (concat_reports q (copies n h frag)) = n * List.length (concat_reports q frag).
Proof.
  intros Hg Hd. rewrite (concat_copies q n h frag Hg Hd).
  generalize (seq 0 n) (seq_length n 0). intros l. revert n.
  induction l as [|k l IH]; intros n Hn; cbn [flat_map List.length] in *.
  - now subst.
  - destruct n as [|n]; [discriminate|]. rewrite app_length, shiftRs_length, (IH n); [reflexivity|]. now injection Hn.
Qed.

(* ------------------------------------------------------------------ confinement of the global-name-set quirk *)
(* with q_concat_global_names on (name sets from the whole file) the law still holds for every context that assigns
   no variable anywhere and wraps in no loop: the quirk matters only when the surrounding code assigns variables *)
Definition is_nil {A} (l : list A) : bool := match l with [] => true | _ :: _ => false end.
Definition classify_allF (ts : list ast) : list entry := flat_map classify_all ts.
Fixpoint ctx_assigns_nothing (c : ctx) : bool :=
  match c with
  | Hole => true
  | Wrap i pre post _ _ c' =>
    negb (String.eqb (cls i) sc_assign_cls || String.eqb (cls i) sc_annassign_cls)
    && match assoc (cls i) sc_loop_types with Some _ => false | None => true end
    && is_nil (classify_allF pre) && is_nil (classify_allF post) && ctx_assigns_nothing c'
  | Seq pre _ c' post => is_nil (classify_allF pre) && is_nil (classify_allF post) && ctx_assigns_nothing c'
  end.

Lemma is_nil_eq {A} (l : list A) : is_nil l = true -> l = [].
Proof. destruct l; [reflexivity|discriminate]. Qed.

Lemma classify_all_node i ks : classify_all (Node i ks) = cl_node (Node i ks) ++ flat_map classify_all ks.
Proof. reflexivity. Qed.

Lemma classify_all_shift dl dc t : classify_all (shift dl dc t) = classify_all t.
Proof.
  induction t as [i ks IH] using ast_ind'.
  rewrite shift_node, classify_all_node. rewrite <- shift_node. rewrite cl_node_shift, classify_all_node. f_equal.
  rewrite flat_map_map. apply flat_map_ext_F. exact IH.
Qed.

Lemma classify_allF_shift dl dc ts : classify_allF (shiftF dl dc ts) = classify_allF ts.
Proof.
  unfold classify_allF, shiftF. rewrite flat_map_map. apply flat_map_ext. intro k. apply classify_all_shift.
Qed.

Lemma classify_allF_plug c frag : ctx_assigns_nothing c = true -> classify_allF (plug c frag) = classify_allF frag.
Proof.
  induction c as [|i pre post dl dc c' IH|pre dl c' IH post]; cbn [ctx_assigns_nothing plug]; intro H.
  - reflexivity.
  - repeat (apply andb_true_iff in H; destruct H as [H ?]).
    unfold classify_allF at 1. cbn [flat_map]. rewrite app_nil_r, classify_all_node.
    fold (classify_allF (pre ++ shiftF dl dc (plug c' frag) ++ post)).
    unfold classify_allF at 1. rewrite !flat_map_app. fold (classify_allF pre) (classify_allF post) (classify_allF (shiftF dl dc (plug c' frag))).
    match goal with Hp : is_nil (classify_allF pre) = true |- _ => rewrite (is_nil_eq _ Hp) end.
    match goal with Hp : is_nil (classify_allF post) = true |- _ => rewrite (is_nil_eq _ Hp) end.
    rewrite app_nil_r, classify_allF_shift. cbn [app].
    unfold cl_node, is_cls, ncls. cbn [ninfo]. apply negb_true_iff in H. rewrite H. cbn [app]. now apply IH.
  - repeat (apply andb_true_iff in H; destruct H as [H ?]).
    unfold classify_allF at 1. rewrite !flat_map_app. fold (classify_allF pre) (classify_allF post) (classify_allF (shiftF dl 0 (plug c' frag))).
    rewrite (is_nil_eq _ H).
    match goal with Hp : is_nil (classify_allF post) = true |- _ => rewrite (is_nil_eq _ Hp) end.
    rewrite app_nil_r, classify_allF_shift. cbn [app]. now apply IH.
Qed.

Lemma global_ctx_inert q c :
  q_concat_global_names q = true -> ctx_assigns_nothing c = true -> inert (cl_step q) (cl_emit q) c.
Proof.
  intro Hg. induction c as [|i pre post dl dc c' IH|pre dl c' IH post]; cbn [ctx_assigns_nothing inert]; intro H.
  - exact I.
  - repeat (apply andb_true_iff in H; destruct H as [H ?]). split; [|now apply IH].
    intros s mid. split.
    + unfold cl_emit, loop_type, ncls. cbn [ninfo].
      match goal with Hl : match assoc (cls i) sc_loop_types with _ => _ end = true |- _ =>
        destruct (assoc (cls i) sc_loop_types); [discriminate|reflexivity] end.
    + unfold cl_step, enter. now rewrite Hg.
  - repeat (apply andb_true_iff in H; destruct H as [H ?]). now apply IH.
Qed.

Theorem concat_global_names_partial q c frag :
  q_concat_global_names q = true -> q_concat_dedup_by_name q = false -> ctx_assigns_nothing c = true ->
  concat_reports q (plug c frag) =
  ctx_pre (cl_step q) (cl_emit q) c (classify_allF frag)
  ++ shiftRs (off_l c) (off_c c) (concat_reports q frag)
  ++ ctx_post (cl_step q) (cl_emit q) c (classify_allF frag).
Proof.
  intros Hg Hd Hc. unfold concat_reports, sets0. rewrite Hg, Hd.
  fold (classify_allF (plug c frag)) (classify_allF frag). rewrite (classify_allF_plug c frag Hc).
  apply (plug_local (cl_step q) (cl_emit q) (cl_step_shift q) (cl_emit_shift q)). now apply global_ctx_inert.
Qed.

(* ------------------------------------------------------------------ confinement of the de-duplication quirk *)
(* with q_concat_dedup_by_name on, the rule reports the candidate list of the code's own traversal (walkc) with
   later candidates of an already seen variable name removed: it removes nothing, i.e. the quirk is invisible, on
   every file in which no two candidates share a variable name *)
Definition raw_candidates (q : cquirks) (file : list ast) : list rep :=
  flat_map (walkc q (sets0 q file) None []) file.

Lemma nodup_name_id l : forall seen,
  NoDup (map snd l) -> (forall r, In r l -> smem (snd r) seen = false) -> nodup_name seen l = l.
Proof.
  induction l as [|r rs IH]; intros seen Hn Hs; [reflexivity|].
  cbn [nodup_name]. rewrite (Hs r (or_introl eq_refl)). f_equal.
  cbn [map] in Hn. inversion Hn as [|x xs Hx Hxs]; subst.
  apply IH; [exact Hxs|]. intros r' Hr'. cbn [smem].
  destruct (String.eqb_spec (snd r') (snd r)) as [E|N].
  - exfalso. apply Hx. rewrite <- E. now apply in_map.
  - apply Hs. now right.
Qed.

Theorem concat_dedup_partial q file :
  q_concat_dedup_by_name q = true -> NoDup (map snd (raw_candidates q file)) ->
  concat_reports q file = raw_candidates q file.
Proof.
  intros Hd Hn. unfold concat_reports. rewrite Hd. fold (raw_candidates q file).
  apply nodup_name_id; [exact Hn|]. intros r _. reflexivity.
Qed.
