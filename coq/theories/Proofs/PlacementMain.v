(* Proofs/PlacementMain.v — the file-placement model computes the allow/deny specification (C18).
   Everything is proved for an arbitrary regex engine (Section variables valid / matches).

   The central statement is proved once, in a form that covers both uses:
     for every quirk vector q, configuration c and file f such that each remaining quirk (global lists on
     covered files, depth of trailing-slash keys) is either switched off or cannot bear on (c, f), the
     model's outcome is the specification's outcome.
   Switching both off gives the main theorem; leaving them on gives the confinement theorem for the
   faithful model.  The three quirks repaired in /repo (bare prefix, cwd-relative paths, dict allow items)
   now read their form from the generated layer, and need no hypothesis: the form found in the source is
   proved to be the property's (prefix_test_ideal, eff_path_relpath, v_aitem_pattern). *)
From Coq Require Import ZArith.
From TL Require Import Lib.Base Lib.GenTypes Model.PlacementTypes Gen.PlacementGen Model.Placement
     Proofs.PlacementStrings.

(* ---------------------------------------------------------------- facts read off the generated layer *)
(* the literals the proofs below rely on, as found in the source on this run *)
Lemma gen_facts_matcher :
  fp_root_key = "/" /\ fp_root_key2 = "/" /\ fp_root_notin = "/" /\ fp_root_depth = 0%Z /\
  fp_best_init = (-1)%Z /\ fp_best_cmp = CGt /\ fp_split_sep = "/"%char /\ fp_prefix_method = "startswith" /\ fp_path_sep = "/" /\
  fp_prefix_form = PfRstripSep "/"%char "/" /\ fp_relative_resolved = true /\
  forallb is_sep_replace fp_normalize_ops = true.     (* nothing but the backslash replacement (or nothing at all) *)
Proof. repeat split; reflexivity. Qed.

Lemma gen_facts_checker :
  fp_checker_keys = ["directories"; "global_deny"; "global_patterns"] /\
  fp_checker_callees = ["_check_directory_rules"; "_check_global_deny"; "_check_global_patterns"] /\
  fp_dir_check_order = ["deny"; "allow"] /\ fp_dir_keys = ["deny"; "allow"] /\
  fp_gpat_check_order = ["deny"; "allow"] /\ fp_gpat_keys = ["deny"; "allow"].
Proof. repeat split; reflexivity. Qed.

Lemma gen_facts_validator :
  fp_validate_order = ["directories"; "global_patterns"; "global_deny"] /\
  fp_vdir_order = ["allow"; "deny"] /\ fp_vgpat_order = ["allow"; "deny"] /\ fp_invalid_exc = "ValueError" /\
  fp_invalid_msg = [FLit "Invalid regex pattern '"; FPattern; FLit "': "; FErr].
Proof. repeat split; reflexivity. Qed.

Lemma gen_facts_regex :
  fp_match_flags = ["IGNORECASE"] /\ fp_match_methods = ["search"; "search"] /\ fp_pattern_key = "pattern" /\
  fp_reason_keys = ["reason"; "message"] /\ fp_rule_id = "file-placement" /\ fp_line = 1 /\ fp_column = 0 /\
  fp_allow_dict_supported = true.
Proof. repeat split; reflexivity. Qed.

(* ---------------------------------------------------------------- where a quirk cannot bear on the input *)
(* the key is written without a trailing slash *)
Definition key_plain (d : string) : bool := String.eqb (rstrip_slash d) d.
Definition no_trailing_slash (c : config) : bool := forallb (fun dr => key_plain (fst dr)) (dirs_of c).

Definition is_none {A} (o : option A) : bool := match o with None => true | Some _ => false end.

Definition depth_ok (q : pquirks) (c : config) : bool := negb (q_trailing_slash_depth q) || no_trailing_slash c.

(* no component of the root-relative path has a backslash in its name *)
Fixpoint no_backslash (s : string) : bool :=
  match s with EmptyString => true | String c s' => negb (Ascii.eqb "\"%char c) && no_backslash s' end.

Definition norm_ok (q : pquirks) (f : fileq) : bool := negb (q_backslash_separator q) || no_backslash (relpath f).

(* normalize_path_string as found in the source - str(path).replace("\", "/"), or no string method at all once the
   replacement is dropped - leaves a path without backslashes alone; with the flag off the replacement is dropped by
   the model and nothing else is done to the path *)
Lemma replace_backslash_id s : no_backslash s = true -> replace_go "\" "/" 0 s = s.
Proof.
  induction s as [|c s IH]; intros H; [reflexivity|].
  cbn [no_backslash] in H. apply andb_true_iff in H. destruct H as [Hc Hs].
  cbn [replace_go starts_with]. destruct (Ascii.eqb "\"%char c); [discriminate|].
  cbn [andb]. rewrite (IH Hs). reflexivity.
Qed.

(* what the faithful normalisation does to any path: every backslash becomes the separator, nothing else changes *)
Definition backslash_to_slash (c : ascii) : ascii := if Ascii.eqb "\"%char c then "/"%char else c.

Lemma replace_backslash_map s : replace_go "\" "/" 0 s = str_map backslash_to_slash s.
Proof.
  induction s as [|c s IH]; [reflexivity|].
  cbn [replace_go starts_with str_map]. unfold backslash_to_slash at 1.
  destruct (Ascii.eqb "\"%char c); cbn [andb String.length Nat.sub append]; rewrite IH; reflexivity.
Qed.

(* stated for the form the source has today; it says nothing once the replacement has been removed from the source *)
Lemma path_str_faithful q s :
  q_backslash_separator q = true -> fp_normalize_ops = [NReplace "\" "/"] -> path_str q s = str_map backslash_to_slash s.
Proof.
  intros H E. unfold path_str, norm_ops. rewrite H, E.
  cbn [normalize fold_left norm_step]. apply replace_backslash_map.
Qed.

Lemma sep_replace_id o s : is_sep_replace o = true -> no_backslash s = true -> norm_step o s = s.
Proof.
  destruct o as [a b| | | | |]; cbn [is_sep_replace]; try discriminate. intros H Hs.
  apply andb_true_iff in H. destruct H as [Ha Hb]. apply String.eqb_eq in Ha. apply String.eqb_eq in Hb. subst a b.
  change fp_path_sep with "/". cbn [norm_step]. apply replace_backslash_id. exact Hs.
Qed.

Lemma sep_replaces_id ops : forall s, forallb is_sep_replace ops = true -> no_backslash s = true -> normalize ops s = s.
Proof.
  unfold normalize. induction ops as [|o ops IH]; intros s H Hs; [reflexivity|].
  cbn [forallb] in H. apply andb_true_iff in H. destruct H as [Ho Hr].
  cbn [fold_left]. rewrite (sep_replace_id o s Ho Hs). apply IH; assumption.
Qed.

Lemma filter_sep_replaces_nil ops : forallb is_sep_replace ops = true -> filter (fun o => negb (is_sep_replace o)) ops = [].
Proof.
  induction ops as [|o ops IH]; intros H; [reflexivity|].
  cbn [forallb] in H. apply andb_true_iff in H. destruct H as [Ho Hr]. cbn [filter]. rewrite Ho. cbn [negb]. apply IH. exact Hr.
Qed.

Lemma path_str_id q s : negb (q_backslash_separator q) || no_backslash s = true -> path_str q s = s.
Proof.
  intros H. assert (G : forallb is_sep_replace fp_normalize_ops = true) by reflexivity.
  unfold path_str, norm_ops. destruct (q_backslash_separator q); cbn [negb orb] in H.
  - apply sep_replaces_id; assumption.
  - rewrite (filter_sep_replaces_nil _ G). reflexivity.
Qed.

Section Engine.
  Variable valid : string -> bool.
  Variable matches : string -> string -> bool.

  Notation contains := Placement.contains.

  (* a covered file is out of reach of the global lists, or there are none *)
  Definition globals_ok (q : pquirks) (c : config) (p : string) : bool :=
    negb (q_global_on_covered q) ||
    match spec_rule p (dirs_of c) with None => true | Some _ => is_none (c_gdeny c) && is_none (c_gpat c) end.

  (* ================================================================ 1. the directory search *)
  Definition depthZ (d : string) : Z :=
    if String.eqb d "/" then 0%Z else Z.of_nat (S (count_char "/" (rstrip_slash d))).

  (* the prefix test found in the source is the property's containment test (fix a23cd20) *)
  Lemma prefix_test_ideal q d p : prefix_test q d p = starts_with (rstrip_slash d ++ "/") p.
  Proof.
    unfold prefix_test, code_prefix_test. change fp_prefix_form with (PfRstripSep "/"%char "/").
    destruct (q_prefix_without_separator q); reflexivity.
  Qed.

  Lemma check_path_match_contains q d p :
    negb (q_trailing_slash_depth q) || key_plain d = true ->
    check_path_match q d p = if contains d p then Some (depthZ d) else None.
  Proof.
    intros Ht.
    assert (Hd : (if q_trailing_slash_depth q then d else rstrip_slash d) = rstrip_slash d).
    { destruct (q_trailing_slash_depth q); [|reflexivity]. cbn [negb orb] in Ht. unfold key_plain in Ht.
      apply String.eqb_eq in Ht. congruence. }
    unfold check_path_match, contains, depthZ. rewrite prefix_test_ideal.
    change fp_root_key with "/". change fp_root_key2 with "/". change fp_root_notin with "/".
    change fp_root_depth with 0%Z. change fp_split_sep with "/"%char.
    destruct (String.eqb d "/") eqn:Ed.
    - cbn [andb]. destruct (str_contains "/" p); reflexivity.
    - rewrite Hd, split_on_length. reflexivity.
  Qed.

  Lemma depthZ_nonneg d : (0 <= depthZ d)%Z.
  Proof. unfold depthZ. destruct (String.eqb d "/"); lia. Qed.

  (* among the keys containing one path, deeper = longer *)
  Lemma depth_vs_length b d p :
    contains b p = true -> contains d p = true ->
    (depthZ b <? depthZ d)%Z = (String.length (rstrip_slash b) <? String.length (rstrip_slash d)).
  Proof.
    unfold contains, depthZ. intros Hb Hd.
    destruct (String.eqb b "/") eqn:Eb; destruct (String.eqb d "/") eqn:Ed.
    - apply String.eqb_eq in Eb. apply String.eqb_eq in Ed. subst. reflexivity.
    - apply starts_with_sep_contains in Hd. rewrite Hd in Hb. discriminate.
    - apply starts_with_sep_contains in Hb. rewrite Hb in Hd. discriminate.
    - rewrite <- (separators_vs_length (rstrip_slash b) (rstrip_slash d) p Hb Hd).
      destruct (count_char "/" (rstrip_slash b) <? count_char "/" (rstrip_slash d)) eqn:E.
      + apply Nat.ltb_lt in E. apply Z.ltb_lt. lia.
      + apply Nat.ltb_ge in E. apply Z.ltb_ge. lia.
  Qed.

  Definition loop_inv (p : string) (best : option (string * drule)) (bd : Z) : Prop :=
    match best with
    | None => bd = (-1)%Z
    | Some (b, _) => bd = depthZ b /\ contains b p = true
    end.

  Lemma find_loop_spec q p dirs : forall best bd,
    forallb (fun dr => negb (q_trailing_slash_depth q) || key_plain (fst dr)) dirs = true ->
    loop_inv p best bd ->
    find_loop q p dirs best bd = spec_rule_loop p dirs best.
  Proof.
    induction dirs as [|[d r] rest IH]; intros best bd Ht Hinv; [reflexivity|].
    cbn [forallb fst] in Ht. apply andb_true_iff in Ht. destruct Ht as [Ht1 Ht2].
    cbn [find_loop spec_rule_loop]. rewrite (check_path_match_contains q d p Ht1).
    destruct (contains d p) eqn:Ec; [|apply IH; assumption].
    change fp_best_cmp with CGt. cbn [cmp_Z].
    destruct best as [[b rb]|]; cbn [loop_inv] in Hinv.
    - destruct Hinv as [-> Hb]. rewrite (depth_vs_length b d p Hb Ec).
      destruct (String.length (rstrip_slash b) <? String.length (rstrip_slash d)).
      + apply IH; [exact Ht2|]. cbn [loop_inv]. split; [reflexivity|exact Ec].
      + apply IH; [exact Ht2|]. cbn [loop_inv]. split; [reflexivity|exact Hb].
    - subst bd. pose proof (depthZ_nonneg d) as Hn.
      assert (E : (-1 <? depthZ d)%Z = true) by (apply Z.ltb_lt; lia). rewrite E.
      apply IH; [exact Ht2|]. cbn [loop_inv]. split; [reflexivity|exact Ec].
  Qed.

  Lemma find_matching_rule_spec q c p :
    depth_ok q c = true ->
    find_matching_rule q p (dirs_of c) = spec_rule p (dirs_of c).
  Proof.
    intros Ht. unfold find_matching_rule, spec_rule. apply find_loop_spec.
    - unfold depth_ok, no_trailing_slash in Ht. destruct (q_trailing_slash_depth q); cbn [negb orb] in *.
      + exact Ht.
      + clear Ht. induction (dirs_of c) as [|x l IHl]; [reflexivity|]. cbn [forallb]. exact IHl.
    - reflexivity.
  Qed.

  (* ---------------------------------------------------------------- what spec_rule selects *)
  Lemma spec_rule_loop_sound p dirs : forall best d r,
    spec_rule_loop p dirs best = Some (d, r) ->
    (best = Some (d, r)) \/ (In (d, r) dirs /\ contains d p = true).
  Proof.
    induction dirs as [|[d0 r0] rest IH]; intros best d r H; cbn [spec_rule_loop] in H.
    - left. exact H.
    - destruct (contains d0 p) eqn:Ec.
      + destruct best as [[b rb]|].
        * destruct (String.length (rstrip_slash b) <? String.length (rstrip_slash d0)).
          -- destruct (IH _ _ _ H) as [E|[Hin Hc]].
             ++ inversion E; subst. right. split; [left; reflexivity|exact Ec].
             ++ right. split; [right; exact Hin|exact Hc].
          -- destruct (IH _ _ _ H) as [E|[Hin Hc]]; [left; exact E|right; split; [right; exact Hin|exact Hc]].
        * destruct (IH _ _ _ H) as [E|[Hin Hc]].
          -- inversion E; subst. right. split; [left; reflexivity|exact Ec].
          -- right. split; [right; exact Hin|exact Hc].
      + destruct (IH _ _ _ H) as [E|[Hin Hc]]; [left; exact E|right; split; [right; exact Hin|exact Hc]].
  Qed.

  Lemma spec_rule_In p dirs d r : spec_rule p dirs = Some (d, r) -> In (d, r) dirs /\ contains d p = true.
  Proof. intros H. destruct (spec_rule_loop_sound p dirs None d r H) as [E|H']; [discriminate|exact H']. Qed.

  Lemma spec_rule_loop_longest p dirs : forall best d r,
    spec_rule_loop p dirs best = Some (d, r) ->
    (forall b rb, best = Some (b, rb) -> String.length (rstrip_slash b) <= String.length (rstrip_slash d)) /\
    (forall d' r', In (d', r') dirs -> contains d' p = true ->
                   String.length (rstrip_slash d') <= String.length (rstrip_slash d)).
  Proof.
    induction dirs as [|[d0 r0] rest IH]; intros best d r H; cbn [spec_rule_loop] in H.
    - subst best. split; [intros b rb E; inversion E; lia|intros d' r' []].
    - destruct (contains d0 p) eqn:Ec.
      + destruct best as [[b rb]|].
        * destruct (String.length (rstrip_slash b) <? String.length (rstrip_slash d0)) eqn:El.
          -- destruct (IH _ _ _ H) as [Hb Hr]. specialize (Hb d0 r0 eq_refl). apply Nat.ltb_lt in El. split.
             ++ intros b' rb' E. inversion E; subst. lia.
             ++ intros d' r' [E|Hin] Hc; [inversion E; subst; exact Hb|exact (Hr d' r' Hin Hc)].
          -- destruct (IH _ _ _ H) as [Hb Hr]. specialize (Hb b rb eq_refl). apply Nat.ltb_ge in El. split.
             ++ intros b' rb' E. inversion E; subst. exact Hb.
             ++ intros d' r' [E|Hin] Hc; [inversion E; subst; lia|exact (Hr d' r' Hin Hc)].
        * destruct (IH _ _ _ H) as [Hb Hr]. specialize (Hb d0 r0 eq_refl). split.
          -- intros b rb E. discriminate.
          -- intros d' r' [E|Hin] Hc; [inversion E; subst; exact Hb|exact (Hr d' r' Hin Hc)].
      + destruct (IH _ _ _ H) as [Hb Hr]. split; [exact Hb|].
        intros d' r' [E|Hin] Hc; [inversion E; subst; congruence|exact (Hr d' r' Hin Hc)].
  Qed.

  Lemma spec_rule_loop_none p dirs : forall best,
    spec_rule_loop p dirs best = None <-> (best = None /\ forall d r, In (d, r) dirs -> contains d p = false).
  Proof.
    induction dirs as [|[d0 r0] rest IH]; intros best; cbn [spec_rule_loop].
    - split; [intros ->; split; [reflexivity|intros d r []]|intros [E _]; exact E].
    - destruct (contains d0 p) eqn:Ec.
      + split.
        * intros H. exfalso. destruct best as [[b rb]|]; [destruct (String.length (rstrip_slash b) <? String.length (rstrip_slash d0))|];
            apply IH in H; destruct H as [E _]; discriminate.
        * intros [-> H]. specialize (H d0 r0 (or_introl eq_refl)). congruence.
      + rewrite IH. split; intros [E H]; (split; [exact E|]).
        * intros d r [E'|Hin]; [inversion E'; subst; exact Ec|exact (H d r Hin)].
        * intros d r Hin. apply (H d r). right. exact Hin.
  Qed.

  (* the selected key contains the path, and every other containing key is the same directory or an
     ancestor directory of it: "the most specific directory rule containing the file" *)
  Theorem spec_rule_most_specific p dirs d r :
    spec_rule p dirs = Some (d, r) ->
    In (d, r) dirs /\ contains d p = true /\
    forall d' r', In (d', r') dirs -> contains d' p = true ->
                  rstrip_slash d' = rstrip_slash d \/ starts_with (rstrip_slash d' ++ "/") (rstrip_slash d) = true.
  Proof.
    intros H. destruct (spec_rule_In p dirs d r H) as [Hin Hc]. split; [exact Hin|]. split; [exact Hc|].
    intros d' r' Hin' Hc'.
    destruct (spec_rule_loop_longest p dirs None d r H) as [_ Hlen]. specialize (Hlen d' r' Hin' Hc').
    unfold contains in Hc, Hc'.
    destruct (String.eqb d "/") eqn:Ed; destruct (String.eqb d' "/") eqn:Ed'.
    - apply String.eqb_eq in Ed. apply String.eqb_eq in Ed'. left. congruence.
    - apply starts_with_sep_contains in Hc'. rewrite Hc' in Hc. discriminate.
    - apply starts_with_sep_contains in Hc. rewrite Hc in Hc'. discriminate.
    - apply Nat.le_lteq in Hlen. destruct Hlen as [Hlt|Heq].
      + right. exact (shorter_key_is_ancestor _ _ p Hc' Hc Hlt).
      + left. exact (same_length_same_key _ _ p Hc' Hc Heq).
  Qed.

  (* containment is directory containment: the path's components are the key's components followed by at
     least one more (the root key "/" contains exactly the one-component paths) *)
  Theorem contains_components d p :
    contains d p = true ->
    if String.eqb d "/" then List.length (split_on "/" p) = 1
    else exists rest, rest <> [] /\ split_on "/" p = split_on "/" (rstrip_slash d) ++ rest.
  Proof.
    unfold contains. destruct (String.eqb d "/"); intros H.
    - rewrite split_on_length. f_equal. apply negb_true_iff in H.
      clear -H. induction p as [|a p IH]; [reflexivity|].
      cbn [str_contains starts_with] in H. apply orb_false_iff in H. destruct H as [H1 H2].
      cbn [count_char]. rewrite (IH H2). rewrite andb_true_r in H1.
      rewrite Ascii.eqb_sym. rewrite H1. reflexivity.
    - apply below_components. exact H.
  Qed.

  Theorem spec_rule_none p dirs :
    spec_rule p dirs = None <-> forall d r, In (d, r) dirs -> contains d p = false.
  Proof.
    unfold spec_rule. rewrite spec_rule_loop_none. split; [intros [_ H]; exact H|intros H; split; [reflexivity|exact H]].
  Qed.

  (* ================================================================ 2. one {allow, deny} rule *)
  Lemma ditem_reason_spec i : ditem_reason i = spec_reason i.
  Proof. destruct i as [p|p [r|] [m|]]; reflexivity. Qed.

  Lemma match_deny_find p l :
    match_deny matches p l = option_map ditem_reason (find (fun i => matches (ditem_pattern i) p) l).
  Proof.
    induction l as [|i l IH]; cbn [match_deny find option_map]; [reflexivity|].
    destruct (matches (ditem_pattern i) p); [reflexivity|exact IH].
  Qed.

  Lemma match_allow_not p l :
    match_allow matches p l = negb (forallb (fun a => negb (matches (aitem_pattern a) p)) l).
  Proof.
    unfold match_allow. induction l as [|a l IH]; cbn [existsb forallb]; [reflexivity|].
    rewrite IH. destruct (matches (aitem_pattern a) p); reflexivity.
  Qed.

  Lemma rule_checks_judge p r dmsg amsg dmsg' amsg' :
    (forall reason, dmsg reason = dmsg' reason) -> amsg = amsg' ->
    opt_list (first_some (map (fun k => rule_check matches k p p r dmsg amsg) ["deny"; "allow"]))
    = spec_judge matches p r dmsg' amsg'.
  Proof.
    intros Hd Ha. subst amsg'. cbn [map]. unfold rule_check. cbn [String.eqb Ascii.eqb Bool.eqb andb].
    unfold spec_judge, spec_denied, spec_not_allowed, deny_check, allow_check, mk.
    change fp_line with 1. change fp_column with 0.
    destruct (r_deny r) as [dl|].
    - rewrite match_deny_find. destruct (find (fun i => matches (ditem_pattern i) p) dl) as [i|]; cbn [option_map first_some opt_list].
      + rewrite Hd, ditem_reason_spec. reflexivity.
      + destruct (r_allow r) as [al|]; [|reflexivity].
        rewrite match_allow_not. destruct (forallb (fun a => negb (matches (aitem_pattern a) p)) al); reflexivity.
    - cbn [first_some]. destruct (r_allow r) as [al|]; [|reflexivity].
      rewrite match_allow_not. destruct (forallb (fun a => negb (matches (aitem_pattern a) p)) al); reflexivity.
  Qed.

  Lemma dir_deny_msg_spec p d reason : dir_deny_msg p d reason = spec_dir_deny_msg p d reason.
  Proof.
    unfold dir_deny_msg, spec_dir_deny_msg, render, or_str. change fp_dir_deny_msg with
      [FLit "File '"; FRel; FLit "' not allowed in "; FMatched; FLit ": "; FReason].
    change fp_dir_deny_fallback with "Pattern denied".
    cbn [map sconcat fold_right]. rewrite append_empty_r. reflexivity.
  Qed.

  Lemma dir_allow_msg_spec p d : dir_allow_msg p d = spec_dir_allow_msg p d.
  Proof.
    unfold dir_allow_msg, spec_dir_allow_msg, render.
    change fp_dir_allow_msg with [FLit "File '"; FRel; FLit "' does not match allowed patterns for "; FMatched].
    cbn [map sconcat fold_right]. rewrite append_empty_r. reflexivity.
  Qed.

  Lemma gdeny_msg_spec p reason : gdeny_msg p reason = spec_gdeny_msg p reason.
  Proof.
    unfold gdeny_msg, spec_gdeny_msg, render, or_str.
    change fp_gdeny_fallback_msg with [FLit "File '"; FRel; FLit "' matches denied pattern"].
    cbn [map sconcat fold_right]. destruct (String.eqb reason ""); reflexivity.
  Qed.

  Lemma gallow_msg_spec p : gallow_msg p = spec_gallow_msg p.
  Proof.
    unfold gallow_msg, spec_gallow_msg, render.
    change fp_gallow_msg with [FLit "File '"; FRel; FLit "' does not match any allowed patterns"].
    cbn [map sconcat fold_right]. reflexivity.
  Qed.

  (* ================================================================ 3. check_all_rules *)
  Lemma check_all_spec q c p :
    cfg_ok c = true -> depth_ok q c = true -> globals_ok q c p = true ->
    check_all matches q p c = spec_report matches c p.
  Proof.
    intros Hok Ht Hg. unfold check_all, check_all_n. change fp_checker_keys with ["directories"; "global_deny"; "global_patterns"].
    cbn [flat_map]. unfold part_by. cbn [String.eqb Ascii.eqb Bool.eqb andb]. rewrite app_nil_r.
    unfold covered, dir_part. rewrite (find_matching_rule_spec q c p Ht). unfold spec_report.
    destruct (spec_rule p (dirs_of c)) as [[d r]|] eqn:Es.
    - destruct (spec_rule_In p (dirs_of c) d r Es) as [Hin _].
      assert (Hd : String.eqb d "" = false).
      { unfold cfg_ok in Hok. rewrite forallb_forall in Hok. specialize (Hok (d, r) Hin). cbn [fst] in Hok.
        destruct (String.eqb d ""); [discriminate|reflexivity]. }
      rewrite Hd. change fp_dir_check_order with ["deny"; "allow"].
      rewrite (rule_checks_judge p r _ _ (spec_dir_deny_msg p d) (spec_dir_allow_msg p d)
                 (dir_deny_msg_spec p d) (dir_allow_msg_spec p d)).
      cbn [negb orb]. unfold globals_ok in Hg. rewrite Es in Hg.
      destruct (q_global_on_covered q); cbn [negb orb] in *.
      + apply andb_true_iff in Hg. destruct Hg as [G1 G2].
        destruct (c_gdeny c); [discriminate|]. destruct (c_gpat c); [discriminate|]. now rewrite app_nil_r.
      + destruct (c_gdeny c); destruct (c_gpat c); now rewrite app_nil_r.
    - cbn [negb]. rewrite orb_true_r. cbn [app]. f_equal.
      + destruct (c_gdeny c) as [l|]; [|reflexivity]. unfold gdeny_part.
        unfold spec_judge, spec_denied, spec_not_allowed, deny_check, mk. cbn [r_deny r_allow].
        change fp_line with 1. change fp_column with 0.
        rewrite match_deny_find. destruct (find (fun i => matches (ditem_pattern i) p) l) as [i|]; cbn [option_map opt_list]; [|reflexivity].
        rewrite gdeny_msg_spec, ditem_reason_spec. reflexivity.
      + destruct (c_gpat c) as [g|]; [|reflexivity]. unfold gpat_part. change fp_gpat_check_order with ["deny"; "allow"].
        apply rule_checks_judge; [apply gdeny_msg_spec|apply gallow_msg_spec].
  Qed.

  (* ================================================================ 4. pattern validation *)
  Definition first_invalid (l : list string) : vres := fold_right (fun p acc => vseq (vpat valid p) acc) VOk l.

  Lemma vseq_ok_r v : vseq v VOk = v.
  Proof. destruct v; reflexivity. Qed.

  Lemma vseq_assoc a b c : vseq (vseq a b) c = vseq a (vseq b c).
  Proof. destruct a; reflexivity. Qed.

  Lemma first_invalid_app a b : first_invalid (a ++ b) = vseq (first_invalid a) (first_invalid b).
  Proof.
    induction a as [|x a IH]; [reflexivity|]. change ((x :: a) ++ b) with (x :: (a ++ b)).
    unfold first_invalid in *. cbn [fold_right]. rewrite IH, vseq_assoc. reflexivity.
  Qed.

  Lemma v_list_patterns {A} (f : A -> vres) (pat : A -> string) (l : option (list A)) :
    (forall x, match l with Some xs => In x xs | None => False end -> f x = vpat valid (pat x)) ->
    v_list f l = first_invalid (match l with Some xs => map pat xs | None => [] end).
  Proof.
    destruct l as [xs|]; [|reflexivity]. intros H. unfold v_list, first_invalid.
    induction xs as [|x xs IH]; [reflexivity|]. cbn [fold_right map].
    rewrite (H x (or_introl eq_refl)). f_equal. apply IH. intros y Hy. apply H. right. exact Hy.
  Qed.

  (* allow items written as dicts are unwrapped by validator and matcher (fix 423132c) *)
  Lemma v_aitem_pattern q a : v_aitem valid q a = vpat valid (aitem_pattern a).
  Proof.
    destruct a as [p|p]; [reflexivity|]. cbn [v_aitem aitem_pattern]. change fp_allow_dict_supported with true.
    cbn [negb]. rewrite andb_false_r. reflexivity.
  Qed.

  Lemma v_rule_patterns q r :
    v_rule valid q ["allow"; "deny"] r = first_invalid (rule_patterns r).
  Proof.
    unfold v_rule, rule_patterns. cbn [fold_right String.eqb Ascii.eqb Bool.eqb andb].
    rewrite vseq_ok_r, first_invalid_app. f_equal.
    - apply (v_list_patterns (v_aitem valid q) aitem_pattern). intros a _. apply v_aitem_pattern.
    - apply (v_list_patterns (fun i => vpat valid (ditem_pattern i)) ditem_pattern). reflexivity.
  Qed.

  (* the patterns in the order in which the validator visits them *)
  Definition patterns_in_validation_order (c : config) : list string :=
    flat_map (fun dr => rule_patterns (snd dr)) (dirs_of c)
    ++ (match c_gpat c with Some g => rule_patterns g | None => [] end)
    ++ (match c_gdeny c with Some l => map ditem_pattern l | None => [] end).

  Lemma validate_first_invalid q c :
    validate valid q c = first_invalid (patterns_in_validation_order c).
  Proof.
    unfold validate. change fp_validate_order with ["directories"; "global_patterns"; "global_deny"].
    cbn [fold_right]. unfold v_block. cbn [String.eqb Ascii.eqb Bool.eqb andb]. rewrite vseq_ok_r.
    change fp_vdir_order with ["allow"; "deny"]. change fp_vgpat_order with ["allow"; "deny"].
    unfold patterns_in_validation_order. rewrite !first_invalid_app.
    f_equal; [|f_equal].
    - induction (dirs_of c) as [|dr l IH]; [reflexivity|]. cbn [fold_right flat_map].
      rewrite first_invalid_app, (v_rule_patterns q (snd dr)), IH. reflexivity.
    - destruct (c_gpat c) as [g|]; [|reflexivity]. apply v_rule_patterns.
    - apply (v_list_patterns (fun i => vpat valid (ditem_pattern i)) ditem_pattern). reflexivity.
  Qed.

  Lemma first_invalid_cases l :
    (first_invalid l = VOk /\ forallb valid l = true) \/
    (exists p, first_invalid l = VInvalid p /\ In p l /\ valid p = false /\ forallb valid l = false).
  Proof.
    induction l as [|x l IH]; [left; split; reflexivity|].
    change (first_invalid (x :: l)) with (vseq (vpat valid x) (first_invalid l)). cbn [forallb]. unfold vpat.
    destruct (valid x) eqn:Ex; cbn [vseq andb].
    - destruct IH as [[E1 E2]|[p [E1 [E2 [E3 E4]]]]]; [left; split; assumption|].
      right. exists p. repeat split; [exact E1|right; exact E2|exact E3|exact E4].
    - right. exists x. repeat split; [left; reflexivity|exact Ex].
  Qed.

  Lemma forallb_validation_order c :
    forallb valid (patterns_in_validation_order c) = forallb valid (all_patterns c).
  Proof.
    unfold patterns_in_validation_order, all_patterns. rewrite !forallb_app.
    destruct (forallb valid (flat_map (fun dr => rule_patterns (snd dr)) (dirs_of c)));
      destruct (forallb valid match c_gpat c with Some g => rule_patterns g | None => [] end);
      destruct (forallb valid match c_gdeny c with Some l => map ditem_pattern l | None => [] end); reflexivity.
  Qed.

  Lemma in_validation_order c p : In p (patterns_in_validation_order c) -> In p (all_patterns c).
  Proof.
    unfold patterns_in_validation_order, all_patterns. rewrite !in_app_iff. tauto.
  Qed.

  (* ================================================================ 5. the whole run *)
  (* relative paths are resolved and re-expressed relative to the project root (fix 12368d4) *)
  Lemma eff_path_relpath q f : eff_path q f = relpath f.
  Proof.
    unfold eff_path. change fp_relative_resolved with true. cbn [negb]. rewrite andb_false_r. reflexivity.
  Qed.

  (* the general statement: each remaining quirk is either off or cannot bear on the input *)
  Theorem run_spec_general q c f :
    cfg_ok c = true ->
    depth_ok q c = true -> globals_ok q c (relpath f) = true -> norm_ok q f = true ->
    forget (run valid matches q c f) = spec valid matches c f.
  Proof.
    intros Hok Ht Hg Hn. unfold run, spec. rewrite (validate_first_invalid q c), <- forallb_validation_order.
    destruct (first_invalid_cases (patterns_in_validation_order c)) as [[E1 E2]|[p [E1 [_ [_ E4]]]]].
    - rewrite E1, E2. cbn [forget]. rewrite (eff_path_relpath q f), (path_str_id q (relpath f) Hn). f_equal.
      change (check_all_n matches q (relpath f) (relpath f) c) with (check_all matches q (relpath f) c).
      apply check_all_spec; assumption.
    - rewrite E1, E4. reflexivity.
  Qed.

  (* main theorem: with the two remaining quirks off the model - whose prefix test, allow-item handling and
     path resolution are the ones found in the source - is the specification, for every configuration with
     non-empty directory keys, every file and every regex engine *)
  Theorem run_exact q c f :
    q_global_on_covered q = false -> q_trailing_slash_depth q = false -> q_backslash_separator q = false ->
    cfg_ok c = true ->
    forget (run valid matches q c f) = spec valid matches c f.
  Proof.
    intros H1 H5 H6 Hok. apply run_spec_general; [exact Hok| | |].
    - unfold depth_ok. now rewrite H5.
    - unfold globals_ok. now rewrite H1.
    - unfold norm_ok. now rewrite H6.
  Qed.

  Theorem report_exact q c p :
    q_global_on_covered q = false -> q_trailing_slash_depth q = false ->
    cfg_ok c = true ->
    check_all matches q p c = spec_report matches c p.
  Proof.
    intros H1 H5 Hok. apply check_all_spec; [exact Hok| |].
    - unfold depth_ok. now rewrite H5.
    - unfold globals_ok. now rewrite H1.
  Qed.

  (* confinement: the faithful model (both remaining flags on) is exact outside the two defect classes *)
  Theorem run_exact_outside_defects q c f :
    cfg_ok c = true ->
    no_trailing_slash c = true ->
    (spec_rule (relpath f) (dirs_of c) = None \/ (c_gdeny c = None /\ c_gpat c = None)) ->
    no_backslash (relpath f) = true ->
    forget (run valid matches q c f) = spec valid matches c f.
  Proof.
    intros Hok Ht Hg Hb. apply run_spec_general; [exact Hok| | |unfold norm_ok; rewrite Hb; apply orb_true_r].
    - unfold depth_ok. rewrite Ht. apply orb_true_r.
    - unfold globals_ok. destruct Hg as [E|[E1 E2]].
      + rewrite E. apply orb_true_r.
      + rewrite E1, E2. destruct (spec_rule (relpath f) (dirs_of c)); apply orb_true_r.
  Qed.

  (* ================================================================ 6. the property's clauses, on the specification *)
  Definition violates (p : string) (r : drule) : bool :=
    negb (is_none (spec_denied matches p (r_deny r))) || spec_not_allowed matches p (r_allow r).

  Definition is_nil {A} (l : list A) : bool := match l with [] => true | _ => false end.

  Lemma spec_judge_nil p r dm am : is_nil (spec_judge matches p r dm am) = negb (violates p r).
  Proof.
    unfold spec_judge, violates. destruct (spec_denied matches p (r_deny r)); [reflexivity|].
    cbn [is_none negb orb]. destruct (spec_not_allowed matches p (r_allow r)); reflexivity.
  Qed.

  (* reported iff: covered -> the most specific rule denies it or has an allow list that misses it;
     not covered -> the same judgement by global_deny and by global_patterns *)
  Theorem verdict_iff c p :
    negb (is_nil (spec_report matches c p)) =
    match spec_rule p (dirs_of c) with
    | Some (_, r) => violates p r
    | None =>
      (match c_gdeny c with Some l => violates p (Build_drule None (Some l)) | None => false end)
      || (match c_gpat c with Some g => violates p g | None => false end)
    end.
  Proof.
    unfold spec_report. destruct (spec_rule p (dirs_of c)) as [[d r]|].
    - rewrite spec_judge_nil. apply negb_involutive.
    - destruct (c_gdeny c) as [l|]; destruct (c_gpat c) as [g|]; cbn [app is_nil negb orb].
      + pose proof (spec_judge_nil p (Build_drule None (Some l)) (spec_gdeny_msg p) "") as A.
        pose proof (spec_judge_nil p g (spec_gdeny_msg p) (spec_gallow_msg p)) as B.
        destruct (spec_judge matches p (Build_drule None (Some l)) (spec_gdeny_msg p) "") as [|x xs]; cbn [is_nil app] in *.
        * rewrite <- (negb_involutive (violates p _)), <- A. cbn [negb orb]. rewrite B. apply negb_involutive.
        * rewrite <- (negb_involutive (violates p {| r_allow := None; r_deny := Some l |})), <- A. reflexivity.
      + rewrite app_nil_r, spec_judge_nil, orb_false_r. apply negb_involutive.
      + rewrite spec_judge_nil. apply negb_involutive.
      + reflexivity.
  Qed.

  (* deny takes precedence over allow: a matching deny pattern decides, whatever the allow list says *)
  Theorem deny_precedence q c p d r i :
    q_global_on_covered q = false -> q_trailing_slash_depth q = false ->
    cfg_ok c = true ->
    spec_rule p (dirs_of c) = Some (d, r) -> spec_denied matches p (r_deny r) = Some i ->
    check_all matches q p c = [(p, 1, 0, spec_dir_deny_msg p d (spec_reason i))].
  Proof.
    intros H1 H5 Hok Hs Hd. rewrite (report_exact q c p H1 H5 Hok). unfold spec_report. rewrite Hs.
    unfold spec_judge. rewrite Hd. reflexivity.
  Qed.

  (* files satisfying all applicable rules are never reported *)
  Theorem satisfying_not_reported q c p :
    q_global_on_covered q = false -> q_trailing_slash_depth q = false ->
    cfg_ok c = true ->
    match spec_rule p (dirs_of c) with
    | Some (_, r) => violates p r
    | None => (match c_gdeny c with Some l => violates p (Build_drule None (Some l)) | None => false end)
              || (match c_gpat c with Some g => violates p g | None => false end)
    end = false ->
    check_all matches q p c = [].
  Proof.
    intros H1 H5 Hok Hv. rewrite (report_exact q c p H1 H5 Hok). rewrite <- verdict_iff in Hv.
    destruct (spec_report matches c p); [reflexivity|discriminate].
  Qed.

  (* no rules configured: nothing is reported, for every quirk vector (in particular the current tree) *)
  Theorem no_rules_no_report q c p :
    dirs_of c = [] -> c_gdeny c = None -> c_gpat c = None -> check_all matches q p c = [].
  Proof.
    intros Hd Hg Hp. unfold check_all, check_all_n. change fp_checker_keys with ["directories"; "global_deny"; "global_patterns"].
    cbn [flat_map]. unfold part_by. cbn [String.eqb Ascii.eqb Bool.eqb andb].
    unfold dir_part, find_matching_rule. rewrite Hd, Hg, Hp. reflexivity.
  Qed.

  (* the verdict depends only on the path relative to the project root *)
  Theorem verdict_depends_on_relpath_only q c f1 f2 :
    q_global_on_covered q = false -> q_trailing_slash_depth q = false -> q_backslash_separator q = false ->
    cfg_ok c = true ->
    relpath f1 = relpath f2 ->
    forget (run valid matches q c f1) = forget (run valid matches q c f2).
  Proof.
    intros H1 H5 H6 Hok E. rewrite !run_exact by assumption. unfold spec. rewrite E. reflexivity.
  Qed.

  (* a syntactically invalid pattern anywhere in the configuration is rejected, naming an invalid pattern;
     a configuration of valid patterns is accepted *)
  Theorem invalid_pattern_rejected q c f :
    (forallb valid (all_patterns c) = true -> exists l, run valid matches q c f = Reports l) /\
    (forallb valid (all_patterns c) = false ->
     exists p, run valid matches q c f = Rejected p /\ In p (all_patterns c) /\ valid p = false).
  Proof.
    unfold run. rewrite (validate_first_invalid q c), <- forallb_validation_order.
    destruct (first_invalid_cases (patterns_in_validation_order c)) as [[E1 E2]|[p [E1 [E2 [E3 E4]]]]]; rewrite E1.
    - split; [intros _; eexists; reflexivity|intros H; congruence].
    - split; [intros H; congruence|]. intros _. exists p. split; [reflexivity|]. split; [apply in_validation_order; exact E2|exact E3].
  Qed.
End Engine.
