(* Proofs/CollectWalk.v — what _collect_files_fast collects (model: Collect.walk), by induction on the tree:
   exactly the regular files of the tree that are reached through non-excluded directories and do
   not bear a compiled-artefact suffix; only the direct children when not recursive. *)
From TL Require Import Lib.Base Model.CollectStr Model.Glob Gen.CollectGen Model.Collect Model.CollectSpec
     Proofs.CollectStrFacts Proofs.CollectTables.

(* ------------------------------------------------------------------ list plumbing *)
Lemma filter_flat_map {A B} (f : B -> bool) (g : A -> list B) l :
  filter f (flat_map g l) = flat_map (fun x => filter f (g x)) l.
Proof. induction l as [|x l IH]; [reflexivity|]. cbn [flat_map]. now rewrite filter_app, IH. Qed.

Lemma flat_map_ext_Forall {A B} (f g : A -> list B) l :
  Forall (fun x => f x = g x) l -> flat_map f l = flat_map g l.
Proof. induction 1 as [|x l Hx _ IH]; [reflexivity|]. cbn [flat_map]. now rewrite Hx, IH. Qed.

Lemma filter_filter {A} (f g : A -> bool) l : filter f (filter g l) = filter (fun x => g x && f x) l.
Proof.
  induction l as [|x l IH]; [reflexivity|]. cbn [filter]. destruct (g x); cbn [filter andb]; [|exact IH].
  destruct (f x); now rewrite IH.
Qed.

Lemma filter_nil_all {A} (f : A -> bool) l : (forall x, In x l -> f x = false) -> filter f l = [].
Proof.
  induction l as [|x l IH]; [reflexivity|]. intro H. cbn [filter]. rewrite (H x) by now left.
  apply IH. intros y Hy. apply H. now right.
Qed.

(* ------------------------------------------------------------------ the shape of the listed paths *)
Lemma all_files_shape rec t : forall pre p, In p (all_files rec pre t) -> exists below, below <> [] /\ p = pre ++ below.
Proof.
  induction t as [n|n cs IH] using tree_ind'; intros pre p H; [destruct H|].
  cbn [all_files] in H. apply in_app_or in H. destruct H as [H|H].
  - apply in_flat_map in H. destruct H as [c [_ H]]. destruct c as [m|m cs']; [|destruct H].
    destruct H as [<-|[]]. exists [m]. split; [discriminate|reflexivity].
  - destruct rec; [|destruct H]. apply in_flat_map in H. destruct H as [c [Hc H]]. destruct c as [m|m cs']; [destruct H|].
    rewrite Forall_forall in IH. destruct (IH _ Hc _ _ H) as [below [Hne ->]].
    exists (m :: below). split; [discriminate|]. now rewrite <- app_assoc.
Qed.

Lemma all_files_comps rec t : forall pre p,
  forallb comp_ok pre = true -> forallb names_ok (children t) = true -> In p (all_files rec pre t) -> forallb comp_ok p = true.
Proof.
  induction t as [n|n cs IH] using tree_ind'; intros pre p Hpre Hk H; [destruct H|].
  cbn [children] in Hk. cbn [all_files] in H. apply in_app_or in H. rewrite forallb_forall in Hk. destruct H as [H|H].
  - apply in_flat_map in H. destruct H as [c [Hc H]]. destruct c as [m|m cs']; [|destruct H].
    destruct H as [<-|[]]. rewrite forallb_app, Hpre. cbn. specialize (Hk _ Hc). cbn in Hk. now rewrite Hk.
  - destruct rec; [|destruct H]. apply in_flat_map in H. destruct H as [c [Hc H]]. destruct c as [m|m cs']; [destruct H|].
    rewrite Forall_forall in IH. specialize (Hk _ Hc). cbn [names_ok] in Hk. apply andb_true_iff in Hk. destruct Hk as [Hm Hk].
    apply (IH _ Hc (pre ++ [m]) p); [|exact Hk|exact H]. rewrite forallb_app, Hpre. cbn. now rewrite Hm.
Qed.

(* ------------------------------------------------------------------ walk = the hard-wired filter over all files *)
Definition hard_ok (p : list string) : bool :=
  negb (existsb spec_excluded_dir (removelast p)) && negb (spec_compiled (last p "")).

Lemma hard_ok_child pre m : existsb spec_excluded_dir pre = false -> hard_ok (pre ++ [m]) = negb (spec_compiled m).
Proof. intro H. unfold hard_ok. now rewrite removelast_last, last_last, H. Qed.

Lemma under_excluded_dir rec t pre m p :
  spec_excluded_dir m = true -> In p (all_files rec (pre ++ [m]) t) -> hard_ok p = false.
Proof.
  intros Hm H. destruct (all_files_shape _ _ _ _ H) as [below [Hne ->]]. unfold hard_ok.
  rewrite removelast_app by exact Hne. rewrite !existsb_app. cbn [existsb]. rewrite Hm.
  now rewrite orb_true_r.
Qed.

Lemma walk_filter rec t : forall pre,
  existsb spec_excluded_dir pre = false -> walk rec pre t = filter hard_ok (all_files rec pre t).
Proof.
  induction t as [n|n cs IH] using tree_ind'; intros pre Hpre; [reflexivity|].
  cbn [walk all_files]. rewrite filter_app, !filter_flat_map. f_equal.
  - apply flat_map_ext_Forall. apply Forall_forall. intros c _. destruct c as [m|m cs']; [|reflexivity].
    cbn [filter]. rewrite hard_ok_child by exact Hpre. now rewrite walk_keeps_spec.
  - rewrite walk_breaks_spec. destruct rec; cbn [negb]; [|reflexivity].
    rewrite filter_flat_map. apply flat_map_ext_Forall. rewrite Forall_forall in IH. apply Forall_forall. intros c Hc.
    destruct c as [m|m cs']; [reflexivity|]. rewrite walk_prune_spec. destruct (spec_excluded_dir m) eqn:Hm; cbn [negb].
    + symmetry. apply filter_nil_all. intros p Hp. exact (under_excluded_dir _ _ _ _ _ Hm Hp).
    + apply (IH _ Hc). rewrite existsb_app, Hpre. cbn. now rewrite Hm.
Qed.

(* ------------------------------------------------------------------ membership characterisations *)
Lemma all_files_In t : forall pre p,
  In p (all_files true pre t) <-> exists below, p = pre ++ below /\ file_at t below.
Proof.
  induction t as [n|n cs IH] using tree_ind'; intros pre p.
  - split; [intros []|]. intros [below [_ H]]. inversion H.
  - rewrite Forall_forall in IH. cbn [all_files]. rewrite in_app_iff, !in_flat_map. split.
    + intros [[c [Hc H]]|[c [Hc H]]].
      * destruct c as [m|m cs']; [|destruct H]. destruct H as [<-|[]]. exists [m]. split; [reflexivity|]. now apply FA_here.
      * destruct c as [m|m cs']; [destruct H|]. apply (IH _ Hc) in H. destruct H as [below [-> Hf]].
        exists (m :: below). split; [now rewrite <- app_assoc|]. now apply (FA_down _ _ _ cs').
    + intros [below [-> Hf]]. inversion Hf as [d cs0 m Hin|d cs0 m cs' rest Hin Hrest]; subst.
      * left. exists (File m). split; [exact Hin|now left].
      * right. exists (Dir m cs'). split; [exact Hin|]. apply (IH _ Hin). exists rest. split; [now rewrite <- app_assoc|exact Hrest].
Qed.

(* recursive collection: a path is collected iff it is a regular file of the tree, no directory
   on the way from the target down to it is always-excluded, and its suffix is not a compiled one *)
Theorem walk_exact t pre p :
  In p (walk true pre t) <->
  exists below, p = pre ++ below /\ file_at t below
                /\ existsb spec_excluded_dir (removelast below) = false /\ spec_compiled (last below "") = false.
Proof.
  revert pre p. induction t as [n|n cs IH] using tree_ind'; intros pre p.
  - split; [intros []|]. intros [below [_ [H _]]]. inversion H.
  - rewrite Forall_forall in IH. cbn [walk]. rewrite walk_breaks_spec. cbn [negb]. rewrite in_app_iff, !in_flat_map. split.
    + intros [[c [Hc H]]|[c [Hc H]]].
      * destruct c as [m|m cs']; [|destruct H]. rewrite walk_keeps_spec in H. destruct (spec_compiled m) eqn:Hm; [destruct H|].
        destruct H as [<-|[]]. exists [m]. repeat split; [now apply FA_here|exact Hm].
      * destruct c as [m|m cs']; [destruct H|]. rewrite walk_prune_spec in H. destruct (spec_excluded_dir m) eqn:Hm; [destruct H|].
        cbn [negb] in H. apply (IH _ Hc) in H. destruct H as [below [-> [Hf [He Hs]]]].
        assert (Hne : below <> []) by (intro E; subst; inversion Hf).
        exists (m :: below). repeat split.
        -- now rewrite <- app_assoc.
        -- now apply (FA_down _ _ _ cs').
        -- change (m :: below) with ([m] ++ below). rewrite removelast_app by exact Hne. cbn [app existsb]. now rewrite Hm, He.
        -- destruct below; [congruence|exact Hs].
    + intros [below [-> [Hf [He Hs]]]]. inversion Hf as [d cs0 m Hin|d cs0 m cs' rest Hin Hrest]; subst.
      * left. exists (File m). split; [exact Hin|]. rewrite walk_keeps_spec. cbn [last] in Hs. rewrite Hs. now left.
      * right. exists (Dir m cs'). split; [exact Hin|].
        assert (Hne : rest <> []) by (intro E; subst; inversion Hrest).
        change (m :: rest) with ([m] ++ rest) in He. rewrite removelast_app in He by exact Hne. cbn [app existsb] in He.
        apply orb_false_iff in He. destruct He as [Hm He]. rewrite walk_prune_spec, Hm. cbn [negb].
        apply (IH _ Hin). exists rest. repeat split; [now rewrite <- app_assoc|exact Hrest|exact He|].
        destruct rest; [congruence|exact Hs].
Qed.

(* non-recursive collection: exactly the direct child files without a compiled suffix *)
Theorem walk_flat_exact t pre p :
  In p (walk false pre t) <-> exists n, p = pre ++ [n] /\ In (File n) (children t) /\ spec_compiled n = false.
Proof.
  destruct t as [m|m cs].
  - split; [intros []|]. intros [n [_ [[] _]]].
  - cbn [walk children]. rewrite walk_breaks_spec. cbn [negb]. rewrite app_nil_r, in_flat_map. split.
    + intros [c [Hc H]]. destruct c as [n|n cs']; [|destruct H]. rewrite walk_keeps_spec in H.
      destruct (spec_compiled n) eqn:Hn; [destruct H|]. destruct H as [<-|[]]. now exists n.
    + intros [n [-> [Hin Hn]]]. exists (File n). split; [exact Hin|]. rewrite walk_keeps_spec, Hn. now left.
Qed.
