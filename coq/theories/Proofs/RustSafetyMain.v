(* Proofs/RustSafetyMain.v — C17: the models of the three Rust safety linters report exactly the
   specification's list (same order, each call once), for every quirk vector, configuration and
   file on which the guard holds; with the relevant quirk flags off the guard holds for every file.
   Switch theorems: each detect_* / allow_* option removes exactly its own reports. *)
From TL Require Import Lib.Base Lib.GenTypes Model.RustSafetyTypes Model.RustSafetySpec Gen.RustSafetyGen
     Model.RustSafety Proofs.RustSafetyWalk Proofs.RustSafetyCtx Proofs.RustSafetyEmit.

Lemma gmacro_mono q g k i : g_macro g = true -> g_macro (gpush q g k i) = true.
Proof. cbn [gpush g_macro]. intros ->. reflexivity. Qed.

(* the field _should_analyze reads is the documented `enabled` key with the documented default, for each linter *)
Lemma enabled_keys o :
  enabled_of unwrap_cfg o = opt o "enabled" true /\ enabled_of clone_cfg o = opt o "enabled" true /\ enabled_of blocking_cfg o = opt o "enabled" true.
Proof. repeat split. Qed.

(* ------------------------------------------------------------------ guarded exactness (any quirk vector) *)
Theorem unwrap_guarded q ls c file : file_guard LUnwrap q file = true ->
  unwrap_report q ls c file = spec_unwrap_report ls c file.
Proof.
  intros G. unfold unwrap_report, spec_unwrap_report. rewrite (proj1 (enabled_keys _)).
  destruct (opt (c_unwrap c) "enabled" true); [|reflexivity]. unfold unwrap_scan, spec_unwrap_scan.
  apply (walk_file_sim (push_m q) (emit_unwrap q ls (c_unwrap c)) spec_push (spec_unwrap ls (c_unwrap c))
                       (gpush q) (gok LUnwrap q) (R q) g_macro) with (g := g0).
  - intros g c1 c2 k cs HR Hk. exact (emit_unwrap_eq q g ls _ c1 c2 k cs HR Hk).
  - intros g c1 c2 k cs i rest HR Hk. exact (push_R LUnwrap q g c1 c2 k cs i rest HR Hk).
  - intros g c2 k cs M Hk. exact (spec_unwrap_silent q g ls _ c2 k cs M Hk).
  - intros g k i. apply gmacro_mono.
  - apply R_init.
  - exact G.
Qed.

Theorem clone_guarded q ls c file :
  q_clone_first_pattern q = false \/ clone_switches_on (c_clone c) = true ->
  file_guard LClone q file = true ->
  clone_report q ls c file = spec_clone_report ls c file.
Proof.
  intros HQ G. unfold clone_report, spec_clone_report. rewrite (proj1 (proj2 (enabled_keys _))).
  destruct (opt (c_clone c) "enabled" true); [|reflexivity]. unfold clone_scan, spec_clone_scan.
  apply (walk_file_sim (push_m q) (emit_clone q ls (c_clone c)) spec_push (spec_clone ls (c_clone c))
                       (gpush q) (gok LClone q) (R q) g_macro) with (g := g0).
  - intros g c1 c2 k cs HR Hk. exact (emit_clone_eq q g ls _ c1 c2 k cs HQ HR Hk).
  - intros g c1 c2 k cs i rest HR Hk. exact (push_R LClone q g c1 c2 k cs i rest HR Hk).
  - intros g c2 k cs M Hk. exact (spec_clone_silent q g ls _ c2 k cs M Hk).
  - intros g k i. apply gmacro_mono.
  - apply R_init.
  - exact G.
Qed.

Theorem blocking_guarded q ls c file : file_guard LBlocking q file = true ->
  blocking_report q ls c file = spec_blocking_report ls c file.
Proof.
  intros G. unfold blocking_report, spec_blocking_report. rewrite (proj2 (proj2 (enabled_keys _))).
  destruct (opt (c_blocking c) "enabled" true); [|reflexivity]. unfold blocking_scan, spec_blocking_scan.
  apply (walk_file_sim (push_m q) (emit_blocking q ls (c_blocking c)) spec_push (spec_blocking ls (c_blocking c))
                       (gpush q) (gok LBlocking q) (R q) g_macro) with (g := g0).
  - intros g c1 c2 k cs HR Hk. exact (emit_blocking_eq q g ls _ c1 c2 k cs HR Hk).
  - intros g c1 c2 k cs i rest HR Hk. exact (push_R LBlocking q g c1 c2 k cs i rest HR Hk).
  - intros g c2 k cs M Hk. exact (spec_blocking_silent q g ls _ c2 k cs M Hk).
  - intros g k i. apply gmacro_mono.
  - apply R_init.
  - exact G.
Qed.

(* ------------------------------------------------------------------ with the flags off the guard is void *)
Definition context_flags_off (q : rquirks) : Prop :=
  q_macro_opaque q = false /\ q_test_attr_substring q = false /\ q_cfg_test_literal q = false.

Lemma existsb_rev {A} (f : A -> bool) l : existsb f (rev l) = existsb f l.
Proof.
  induction l as [|x xs IH]; [reflexivity|]. cbn [rev existsb]. rewrite existsb_app, IH. cbn [existsb].
  rewrite orb_false_r. apply orb_comm.
Qed.

(* the scan passes over attributes and comments: whichever way q_attr_stop_at_comment is set, because the source's
   own table (_ATTRIBUTE_RUN_TYPES) names them *)
Lemma run_types_ok q :
  smem "attribute_item" (run_types q test_attr_run_types) = true /\ smem "line_comment" (run_types q test_attr_run_types) = true /\
  smem "attribute_item" (run_types q cfg_attr_run_types) = true /\ smem "line_comment" (run_types q cfg_attr_run_types) = true.
Proof. unfold run_types. destruct (q_attr_stop_at_comment q); repeat split. Qed.

Lemma sib_walk_semantic run needle sem l :
  smem "attribute_item" run = true -> smem "line_comment" run = true ->
  sib_walk run "attribute_item" (attr_hit needle sem false) l = has_attr sem l.
Proof.
  intros HA HC. unfold has_attr. induction l as [|[t|] r IH]; [reflexivity| |].
  - cbn [sib_walk existsb attr_hit sib_type]. rewrite HA, IH. cbn [String.eqb Ascii.eqb Bool.eqb andb]. now destruct (sem t).
  - cbn [sib_walk existsb sib_type]. rewrite HC. cbn [String.eqb Ascii.eqb Bool.eqb andb orb]. exact IH.
Qed.

Lemma gok_attrs q pre :
  q_test_attr_substring q = false -> q_cfg_test_literal q = false ->
  Bool.eqb (sib_walk (run_types q test_attr_run_types) test_attr_sibling_type
                     (attr_hit test_attr_needle attr_marks_test_fn (q_test_attr_substring q)) (rev pre)) (fn_is_test pre) = true /\
  Bool.eqb (sib_walk (run_types q cfg_attr_run_types) cfg_attr_sibling_type
                     (attr_hit cfg_attr_needle attr_is_cfg_test (q_cfg_test_literal q)) (rev pre)) (mod_is_test pre) = true.
Proof.
  intros H1 H2. destruct (run_types_ok q) as (A1 & C1 & A2 & C2). rewrite H1, H2.
  change test_attr_sibling_type with "attribute_item". change cfg_attr_sibling_type with "attribute_item".
  rewrite (sib_walk_semantic _ _ _ _ A1 C1), (sib_walk_semantic _ _ _ _ A2 C2).
  unfold fn_is_test, mod_is_test, has_attr. rewrite !existsb_rev. split; apply eqb_reflx.
Qed.

(* with the NetType::method patch the code's call-path table is the documented one *)
Lemma classes_documented q : q_net_bare_type q = false -> blocking_classes_of q = spec_blocking_classes.
Proof. intros H. unfold blocking_classes_of. rewrite H. reflexivity. Qed.

Lemma ostr_eqb_refl a : ostr_eqb a a = true.
Proof. destruct a; cbn [ostr_eqb]; [apply String.eqb_refl|reflexivity]. Qed.

Definition linter_flags_off (w : linter) (q : rquirks) : Prop :=
  match w with
  | LUnwrap => q_chain_start_line q = false
  | LClone => q_chain_start_line q = false /\ q_for_header_in_loop q = false
  | LBlocking => q_net_bare_type q = false /\ q_wrapper_method_form q = false /\ q_blocking_msg_line q = false
  end.

Lemma guard_void w q : context_flags_off q -> linter_flags_off w q ->
  forall n g, g_macro g = false -> (w = LClone -> g_forhdr g = false) -> (w = LBlocking -> g_mwrap g = false) ->
  rguard w q g n = true.
Proof.
  intros (HM & HS & HC) HW.
  induction n as [k cs IH] using node_ind'. intros g GM GF GW.
  unfold rguard. rewrite guard_eq. apply andb_true_iff. split.
  - unfold gok. rewrite GM. cbn [negb orb andb].
    destruct (gok_attrs q (match k with KFn pre _ _ | KMod pre => pre | _ => [] end) HS HC) as [A1 A2].
    destruct k as [pre|pre a nm| |b| |x| |nm| |sl sc ml name|sl sc path|p| |lk pat| | |nm]; try reflexivity; try assumption.
    + destruct w; cbn [linter_flags_off] in HW.
      * now rewrite HW.
      * destruct HW as [HW1 HW2]. rewrite HW1, (GF eq_refl). reflexivity.
      * reflexivity.
    + destruct w; try reflexivity. cbn [linter_flags_off] in HW. destruct HW as (HW1 & HW2 & HW3).
      rewrite (classes_documented q HW1), (GW eq_refl), HW3. cbn [negb orb andb]. rewrite !andb_true_r. apply ostr_eqb_refl.
  - assert (GM' : forall i, g_macro (gpush q g k i) = false).
    { intros i. cbn [gpush g_macro]. now rewrite GM, HM. }
    assert (GF' : forall i, w = LClone -> g_forhdr (gpush q g k i) = false).
    { intros i E. cbn [gpush g_forhdr]. rewrite (GF E). subst w. destruct HW as [_ HW2]. now rewrite HW2. }
    assert (GW' : forall i, w = LBlocking -> g_mwrap (gpush q g k i) = false).
    { intros i E. cbn [gpush g_mwrap]. rewrite (GW E). subst w. destruct HW as (_ & HW2 & _). now rewrite HW2. }
    generalize 0 as i. induction IH as [|x xs Hx _ IHxs]; intros i; [reflexivity|].
    cbn [guard_kids]. apply andb_true_iff. split.
    + exact (Hx (gpush q g k i) (GM' i) (GF' i) (GW' i)).
    + exact (IHxs (S i)).
Qed.

Lemma file_guard_void w q file : context_flags_off q -> linter_flags_off w q -> file_guard w q file = true.
Proof.
  intros HC HW. unfold file_guard. apply forallb_forall. intros n _.
  apply (guard_void w q HC HW n g0); [reflexivity|intros _; reflexivity|intros _; reflexivity].
Qed.

(* ------------------------------------------------------------------ main theorems *)
Theorem unwrap_exact q ls c file : context_flags_off q -> q_chain_start_line q = false ->
  unwrap_report q ls c file = spec_unwrap_report ls c file.
Proof. intros HC HL. apply unwrap_guarded. exact (file_guard_void LUnwrap q file HC HL). Qed.

Theorem clone_exact q ls c file : context_flags_off q -> q_chain_start_line q = false ->
  q_for_header_in_loop q = false -> q_clone_first_pattern q = false ->
  clone_report q ls c file = spec_clone_report ls c file.
Proof.
  intros HC HL HF HP. apply clone_guarded; [left; exact HP|].
  exact (file_guard_void LClone q file HC (conj HL HF)).
Qed.

Theorem blocking_exact q ls c file : context_flags_off q -> q_net_bare_type q = false -> q_wrapper_method_form q = false ->
  q_blocking_msg_line q = false ->
  blocking_report q ls c file = spec_blocking_report ls c file.
Proof. intros HC HN HWr HM. apply blocking_guarded. exact (file_guard_void LBlocking q file HC (conj HN (conj HWr HM))). Qed.

Theorem report_exact q ls c file : context_flags_off q -> q_chain_start_line q = false ->
  q_for_header_in_loop q = false -> q_clone_first_pattern q = false -> q_net_bare_type q = false ->
  q_wrapper_method_form q = false -> q_blocking_msg_line q = false ->
  report q ls c file = spec_report ls c file.
Proof.
  intros HC HL HF HP HN HWr HM. unfold report, spec_report.
  now rewrite (unwrap_exact q ls c file HC HL), (clone_exact q ls c file HC HL HF HP), (blocking_exact q ls c file HC HN HWr HM).
Qed.

(* ------------------------------------------------------------------ the message quirk touches messages only *)
Section WalkExt.
  Context {C : Type}.
  Lemma walk_ext (p1 p2 : C -> kind -> nat -> list node -> option C) (e1 e2 : C -> kind -> list node -> list rep) :
    (forall c k i rest, p1 c k i rest = p2 c k i rest) -> (forall c k cs, e1 c k cs = e2 c k cs) ->
    forall n c, walk p1 e1 c n = walk p2 e2 c n.
  Proof.
    intros HP HE. induction n as [k cs IH] using node_ind'. intros c. rewrite !walk_eq, HE. f_equal.
    generalize 0 as i. induction IH as [|x xs Hx _ IHxs]; intros i; [reflexivity|].
    cbn [walk_kids]. fold (walk_kids p1 e1 c k). fold (walk_kids p2 e2 c k).
    rewrite IHxs, HP. f_equal. destruct (p2 c k i xs); [apply Hx|reflexivity].
  Qed.
  Lemma walk_map_ext {B} (f : rep -> B) (p1 p2 : C -> kind -> nat -> list node -> option C) (e1 e2 : C -> kind -> list node -> list rep) :
    (forall c k i rest, p1 c k i rest = p2 c k i rest) -> (forall c k cs, map f (e1 c k cs) = map f (e2 c k cs)) ->
    forall n c, map f (walk p1 e1 c n) = map f (walk p2 e2 c n).
  Proof.
    intros HP HE. induction n as [k cs IH] using node_ind'. intros c. rewrite !walk_eq, !map_app, HE. f_equal.
    generalize 0 as i. induction IH as [|x xs Hx _ IHxs]; intros i; [reflexivity|].
    cbn [walk_kids]. fold (walk_kids p1 e1 c k). fold (walk_kids p2 e2 c k).
    rewrite !map_app, IHxs, HP. f_equal. destruct (p2 c k i xs); [apply Hx|reflexivity].
  Qed.
End WalkExt.

Definition erase_msg (r : rep) : string * nat * nat := match r with (rule, l, c, _) => (rule, l, c) end.
Definition msg_off (q : rquirks) : rquirks :=
  Build_rquirks (q_macro_opaque q) (q_test_attr_substring q) (q_cfg_test_literal q) (q_attr_stop_at_comment q) (q_chain_start_line q)
                (q_for_header_in_loop q) (q_clone_first_pattern q) false (q_wrapper_method_form q) (q_net_bare_type q).

Lemma emit_blocking_msg_erased q ls o anc k cs :
  map erase_msg (emit_blocking q ls o anc k cs) = map erase_msg (emit_blocking (msg_off q) ls o anc k cs).
Proof.
  destruct k; try reflexivity. unfold emit_blocking.
  change (inside_wrapper (msg_off q) anc) with (inside_wrapper q anc).
  change (inside_test (msg_off q) anc) with (inside_test q anc).
  change (blocking_classes_of (msg_off q)) with (blocking_classes_of q).
  destruct (_ && in_async_context anc); [|reflexivity].
  destruct (List.length path <? 2); [reflexivity|].
  destruct (classify_path (blocking_classes_of q) path); [|reflexivity].
  destruct (inside_wrapper q anc); [reflexivity|].
  destruct (skipped _ _ _ _ _ _); reflexivity.
Qed.

(* positions and rule ids of blocking-async do not depend on the message quirk *)
Theorem blocking_msg_erased q ls c file :
  map erase_msg (blocking_report q ls c file) = map erase_msg (blocking_report (msg_off q) ls c file).
Proof.
  unfold blocking_report. destruct (enabled_of blocking_cfg (c_blocking c)); [|reflexivity].
  unfold blocking_scan, walk_file. induction file as [|n ns IH]; [reflexivity|].
  cbn [flat_map]. rewrite !map_app, IH. f_equal.
  apply walk_map_ext.
  - intros anc k i rest. reflexivity.
  - intros anc k cs. apply emit_blocking_msg_erased.
Qed.

(* ------------------------------------------------------------------ switches *)
Section WalkFacts.
  Context {C : Type}.
  Variable push : C -> kind -> nat -> list node -> option C.

  Lemma walk_filter (p : rep -> bool) (e1 e2 : C -> kind -> list node -> list rep) :
    (forall c k cs, e1 c k cs = filter p (e2 c k cs)) ->
    forall n c, walk push e1 c n = filter p (walk push e2 c n).
  Proof.
    intros H. induction n as [k cs IH] using node_ind'. intros c.
    rewrite !walk_eq, filter_app, H. f_equal.
    generalize 0 as i. induction IH as [|x xs Hx _ IHxs]; intros i; [reflexivity|].
    cbn [walk_kids]. fold (walk_kids push e1 c k). fold (walk_kids push e2 c k).
    rewrite filter_app, IHxs. f_equal. destruct (push c k i xs); [apply Hx|reflexivity].
  Qed.

  Lemma walk_file_filter p e1 e2 : (forall c k cs, e1 c k cs = filter p (e2 c k cs)) ->
    forall file c, walk_file push e1 c file = filter p (walk_file push e2 c file).
  Proof.
    intros H. induction file as [|n ns IH]; intros c; [reflexivity|].
    unfold walk_file. cbn [flat_map]. fold (walk_file push e1 c ns). fold (walk_file push e2 c ns).
    now rewrite filter_app, (walk_filter p e1 e2 H), IH.
  Qed.

  Lemma walk_forall (P : rep -> Prop) (e : C -> kind -> list node -> list rep) :
    (forall c k cs, Forall P (e c k cs)) -> forall n c, Forall P (walk push e c n).
  Proof.
    intros H. induction n as [k cs IH] using node_ind'. intros c.
    rewrite walk_eq. apply Forall_app. split; [apply H|].
    generalize 0 as i. induction IH as [|x xs Hx _ IHxs]; intros i; [constructor|].
    cbn [walk_kids]. fold (walk_kids push e c k). apply Forall_app. split; [|apply IHxs].
    destruct (push c k i xs); [apply Hx|constructor].
  Qed.

  Lemma walk_file_forall P e : (forall c k cs, Forall P (e c k cs)) -> forall file c, Forall P (walk_file push e c file).
  Proof.
    intros H. induction file as [|n ns IH]; intros c; [constructor|].
    unfold walk_file. cbn [flat_map]. apply Forall_app. split; [apply (walk_forall P e H)|apply IH].
  Qed.
End WalkFacts.

Definition rule_of_rep (r : rep) : string := match r with (rule, _, _, _) => rule end.
Definition drop_rule (rule : string) (r : rep) : bool := negb (String.eqb (rule_of_rep r) rule).
Definition set_opt (key : string) (v : bool) (o : options) : options := (key, v) :: o.
Definition with_unwrap (c : config) (o : options) : config := {| c_unwrap := o; c_clone := c_clone c; c_blocking := c_blocking c |}.
Definition with_clone (c : config) (o : options) : config := {| c_unwrap := c_unwrap c; c_clone := o; c_blocking := c_blocking c |}.
Definition with_blocking (c : config) (o : options) : config := {| c_unwrap := c_unwrap c; c_clone := c_clone c; c_blocking := o |}.

(* allow_expect removes exactly the expect-call reports *)
Theorem switch_allow_expect ls c file :
  spec_unwrap_report ls (with_unwrap c (set_opt "allow_expect" true (c_unwrap c))) file =
  filter (drop_rule "unwrap-abuse.expect-call") (spec_unwrap_report ls (with_unwrap c (set_opt "allow_expect" false (c_unwrap c))) file).
Proof.
  unfold spec_unwrap_report. cbn [c_unwrap with_unwrap].
  change (opt (set_opt "allow_expect" true (c_unwrap c)) "enabled" true) with (opt (c_unwrap c) "enabled" true).
  change (opt (set_opt "allow_expect" false (c_unwrap c)) "enabled" true) with (opt (c_unwrap c) "enabled" true).
  destruct (opt (c_unwrap c) "enabled" true); [|reflexivity]. unfold spec_unwrap_scan. cbn [c_unwrap with_unwrap].
  apply walk_file_filter. intros x k cs.
  destruct k; try reflexivity. unfold spec_unwrap, set_opt. cbn [opt String.eqb Ascii.eqb Bool.eqb andb negb].
  destruct (in_test x && opt (c_unwrap c) "allow_in_tests" true); [reflexivity|].
  destruct (String.eqb name "unwrap"); [reflexivity|].
  destruct (String.eqb name "expect"); reflexivity.
Qed.

(* a blocking class's detect_* option removes exactly that class's reports *)
Theorem switch_blocking ls c file cl : cl = "fs-in-async" \/ cl = "sleep-in-async" \/ cl = "net-in-async" ->
  spec_blocking_report ls (with_blocking c (set_opt (blocking_switch cl) false (c_blocking c))) file =
  filter (drop_rule (blocking_rule cl)) (spec_blocking_report ls (with_blocking c (set_opt (blocking_switch cl) true (c_blocking c))) file).
Proof.
  intros Hcl. unfold spec_blocking_report. cbn [c_blocking with_blocking].
  assert (EN : forall v, opt (set_opt (blocking_switch cl) v (c_blocking c)) "enabled" true = opt (c_blocking c) "enabled" true).
  { intros v. destruct Hcl as [->|[->| ->]]; reflexivity. }
  rewrite !EN. clear EN. destruct (opt (c_blocking c) "enabled" true); [|reflexivity]. unfold spec_blocking_scan. cbn [c_blocking with_blocking].
  apply walk_file_filter. intros x k cs.
  destruct k; try reflexivity. unfold spec_blocking.
  assert (E : forall v, opt (set_opt (blocking_switch cl) v (c_blocking c)) "allow_in_tests" true = opt (c_blocking c) "allow_in_tests" true).
  { intros v. destruct Hcl as [->|[->| ->]]; reflexivity. }
  rewrite !E.
  destruct (in_async x && negb (in_wrap x) && negb (in_test x && opt (c_blocking c) "allow_in_tests" true)); [|reflexivity].
  destruct (classify_path spec_blocking_classes path) as [cl'|] eqn:EC; [|reflexivity].
  pose proof (classify_names path cl' EC) as Hcl'.
  destruct Hcl as [->|[->| ->]], Hcl' as [->|[->| ->]]; unfold set_opt; cbn [opt blocking_switch String.eqb Ascii.eqb Bool.eqb];
    clear E; repeat match goal with |- context [opt (c_blocking c) ?key true] => destruct (opt (c_blocking c) key true) end; reflexivity.
Qed.

(* `enabled: false` silences a linter, model (whatever the quirks) and specification alike *)
Theorem switch_enabled q ls c file :
  (opt (c_unwrap c) "enabled" true = false -> unwrap_report q ls c file = [] /\ spec_unwrap_report ls c file = []) /\
  (opt (c_clone c) "enabled" true = false -> clone_report q ls c file = [] /\ spec_clone_report ls c file = []) /\
  (opt (c_blocking c) "enabled" true = false -> blocking_report q ls c file = [] /\ spec_blocking_report ls c file = []).
Proof.
  unfold unwrap_report, clone_report, blocking_report, spec_unwrap_report, spec_clone_report, spec_blocking_report.
  destruct (enabled_keys (c_unwrap c)) as (-> & _ & _). destruct (enabled_keys (c_clone c)) as (_ & -> & _).
  destruct (enabled_keys (c_blocking c)) as (_ & _ & ->).
  repeat split; match goal with H : _ = false |- _ => now rewrite H end.
Qed.

(* a clone pattern whose detect_* option is off is never reported *)
Definition clone_switch_of_rule (rule : string) : string :=
  if String.eqb rule "clone-abuse.clone-chain" then "detect_clone_chain"
  else if String.eqb rule "clone-abuse.clone-in-loop" then "detect_clone_in_loop" else "detect_unnecessary_clone".

Theorem switch_clone_off ls c file :
  Forall (fun r => opt (c_clone c) (clone_switch_of_rule (rule_of_rep r)) true = true) (spec_clone_report ls c file).
Proof.
  unfold spec_clone_report. destruct (opt (c_clone c) "enabled" true); [|constructor]. unfold spec_clone_scan.
  apply walk_file_forall. intros x k cs.
  destruct k; try constructor. unfold spec_clone.
  destruct (String.eqb name "clone"); [|constructor].
  destruct (in_test x && opt (c_clone c) "allow_in_tests" true); [constructor|].
  destruct (_ && opt (c_clone c) "detect_clone_chain" true) eqn:E1.
  { apply andb_true_iff in E1 as [_ E1]. repeat constructor. exact E1. }
  destruct (in_loop x && opt (c_clone c) "detect_clone_in_loop" true) eqn:E2.
  { apply andb_true_iff in E2 as [_ E2]. repeat constructor. exact E2. }
  destruct (_ && opt (c_clone c) "detect_unnecessary_clone" true) eqn:E3.
  { apply andb_true_iff in E3 as [_ E3]. repeat constructor. exact E3. }
  constructor.
Qed.

(* allow_in_tests off: test context is irrelevant — nothing is exempt; allow_in_tests on and no
   test items: same reports as with it off *)
Theorem no_unwrap_in_test_reported ls c file :
  opt (c_unwrap c) "allow_in_tests" true = true ->
  forall pre a name body, In (N (KFn pre a name) body) file -> fn_is_test pre = true ->
  walk spec_push (spec_unwrap ls (c_unwrap c)) ctx0 (N (KFn pre a name) body) = [].
Proof.
  intros HA pre a name body _ HT.
  assert (K : forall n x, in_test x = true -> walk spec_push (spec_unwrap ls (c_unwrap c)) x n = []).
  { induction n as [k cs IH] using node_ind'. intros x Hx. rewrite walk_eq.
    assert (E : spec_unwrap ls (c_unwrap c) x k cs = []).
    { destruct k; try reflexivity. unfold spec_unwrap. now rewrite Hx, HA. }
    rewrite E. clear E. cbn [app]. generalize 0 as i. induction IH as [|y ys Hy _ IHys]; intros i; [reflexivity|].
    cbn [walk_kids]. fold (walk_kids spec_push (spec_unwrap ls (c_unwrap c)) x k). rewrite IHys, app_nil_r.
    unfold spec_push. apply Hy. cbn [in_test]. now rewrite Hx. }
  rewrite walk_eq. cbn [spec_unwrap app].
  generalize 0 as i. induction body as [|y ys IH]; intros i; [reflexivity|].
  cbn [walk_kids]. fold (walk_kids spec_push (spec_unwrap ls (c_unwrap c)) ctx0 (KFn pre a name)). rewrite IH, app_nil_r.
  unfold spec_push. apply K. cbn [in_test ctx0 orb]. exact HT.
Qed.

(* ------------------------------------------------------------------ documented tables and options *)
Lemma documented_tables :
  blocking_fs_functions = fs_functions /\ blocking_net_types = net_types /\ async_wrapper_functions = wrapper_names /\
  blocking_classes_of ideal = spec_blocking_classes /\
  test_attr_run_types = ["attribute_item"; "line_comment"; "block_comment"] /\ cfg_attr_run_types = test_attr_run_types /\
  map fst unwrap_cfg = ["enabled"; "allow_in_tests"; "allow_expect"] /\
  map fst clone_cfg = ["enabled"; "allow_in_tests"; "detect_clone_in_loop"; "detect_clone_chain"; "detect_unnecessary_clone"] /\
  map fst blocking_cfg = ["enabled"; "allow_in_tests"; "detect_fs_in_async"; "detect_sleep_in_async"; "detect_net_in_async"] /\
  forallb (fun e => String.eqb (fst e) (fst (snd e)) && snd (snd e)) (unwrap_cfg ++ clone_cfg ++ blocking_cfg) = true.
Proof. repeat split. Qed.
