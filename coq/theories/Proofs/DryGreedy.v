(* Proofs/DryGreedy.v — generic facts about the combinators of Model/DryPipe.v:
   greedy (keep an element unless it overlaps a kept one), the stable insertion sort, extensionality. *)
From TL Require Import Lib.Base Model.DryPipe.
From Coq Require Import Sorting.Sorted.

Section Greedy.
  Context {A : Type} (ovl : A -> A -> bool).

  Lemma greedy_incl : forall l kept x, In x (greedy ovl kept l) -> In x l.
  Proof.
    induction l as [|y ys IH]; intros kept x H; cbn [greedy] in H; [contradiction|].
    destruct (existsb (ovl y) kept).
    - right. eapply IH. exact H.
    - destruct H as [->|H]; [left; reflexivity|right; eapply IH; exact H].
  Qed.

  (* every element is kept or overlaps a kept element that precedes it (R = "precedes") *)
  Lemma greedy_dom (R : A -> A -> Prop) : forall l kept,
    StronglySorted R l -> (forall k y, In k kept -> In y l -> R k y) ->
    forall x, In x l ->
      In x (greedy ovl kept l) \/ exists k, (In k kept \/ In k (greedy ovl kept l)) /\ ovl x k = true /\ R k x.
  Proof.
    induction l as [|y ys IH]; intros kept Hs Hk x Hx; [contradiction|].
    inversion Hs as [|? ? Hs' Hall]; subst.
    cbn [greedy]. destruct (existsb (ovl y) kept) eqn:E.
    - destruct Hx as [->|Hx].
      + right. apply existsb_exists in E. destruct E as [k [Hin Ho]].
        exists k. split; [left; exact Hin|]. split; [exact Ho|]. apply Hk; [exact Hin|left; reflexivity].
      + apply (IH kept Hs') in Hx; [exact Hx|]. intros k z Hkk Hz. apply Hk; [exact Hkk|right; exact Hz].
    - destruct Hx as [->|Hx]; [left; left; reflexivity|].
      assert (Hk' : forall k z, In k (y :: kept) -> In z ys -> R k z).
      { intros k z [<-|Hkk] Hz; [|apply Hk; [exact Hkk|right; exact Hz]].
        rewrite Forall_forall in Hall. apply Hall. exact Hz. }
      destruct (IH (y :: kept) Hs' Hk' x Hx) as [H|[k [Hkin [Ho Hr]]]].
      + left. right. exact H.
      + right. exists k. split; [|split; assumption].
        destruct Hkin as [[<-|Hkk]|Hg]; [right; left; reflexivity|left; exact Hkk|right; right; exact Hg].
  Qed.

  Lemma greedy_dom_simple : forall l x, In x l ->
    In x (greedy ovl [] l) \/ exists k, In k (greedy ovl [] l) /\ ovl x k = true.
  Proof.
    (* the same argument without an order *)
    assert (G : forall l kept x, In x l ->
      In x (greedy ovl kept l) \/ exists k, (In k kept \/ In k (greedy ovl kept l)) /\ ovl x k = true).
    { induction l as [|y ys IH]; intros kept x Hx; [contradiction|].
      cbn [greedy]. destruct (existsb (ovl y) kept) eqn:E.
      - destruct Hx as [->|Hx].
        + right. apply existsb_exists in E. destruct E as [k [Hin Ho]]. exists k. split; [left; exact Hin|exact Ho].
        + exact (IH kept x Hx).
      - destruct Hx as [->|Hx]; [left; left; reflexivity|].
        destruct (IH (y :: kept) x Hx) as [H|[k [Hkin Ho]]]; [left; right; exact H|].
        right. exists k. split; [|exact Ho].
        destruct Hkin as [[<-|Hkk]|Hg]; [right; left; reflexivity|left; exact Hkk|right; right; exact Hg]. }
    intros l x Hx. destruct (G l [] x Hx) as [H|[k [[[]|Hk] Ho]]]; [left; exact H|].
    right. exists k. split; assumption.
  Qed.

  (* kept elements do not overlap anything kept before them *)
  Lemma greedy_indep : forall l kept,
    (forall x k, In x (greedy ovl kept l) -> In k kept -> ovl x k = false)
    /\ ForallOrdPairs (fun a b => ovl b a = false) (greedy ovl kept l).
  Proof.
    induction l as [|y ys IH]; intros kept; cbn [greedy]; [split; [intros ? ? []|constructor]|].
    destruct (existsb (ovl y) kept) eqn:E; [exact (IH kept)|].
    destruct (IH (y :: kept)) as [H1 H2]. split.
    - intros x k [<-|Hx] Hk.
      + destruct (ovl y k) eqn:Eo; [|reflexivity]. exfalso.
        assert (existsb (ovl y) kept = true) by (apply existsb_exists; exists k; split; assumption). congruence.
      + apply H1; [exact Hx|right; exact Hk].
    - constructor; [|exact H2]. apply Forall_forall. intros x Hx. apply H1; [exact Hx|left; reflexivity].
  Qed.

  Lemma fop_in (P : A -> A -> Prop) : forall l, ForallOrdPairs P l -> NoDup l ->
    forall a b, In a l -> In b l -> a <> b -> P a b \/ P b a.
  Proof.
    induction 1 as [|x l Hx Hl IH]; intros Hnd a b Ha Hb Hne; [contradiction|].
    inversion Hnd as [|? ? Hnin Hnd']; subst. rewrite Forall_forall in Hx.
    destruct Ha as [<-|Ha], Hb as [<-|Hb].
    - contradiction.
    - left. apply Hx. exact Hb.
    - right. apply Hx. exact Ha.
    - apply IH; assumption.
  Qed.

  Lemma fop_nodup (P : A -> A -> Prop) : (forall a, ~ P a a) -> forall l, ForallOrdPairs P l -> NoDup l.
  Proof.
    intros Hirr. induction 1 as [|x l Hx Hl IH]; constructor; [|exact IH].
    intros Hin. rewrite Forall_forall in Hx. exact (Hirr x (Hx x Hin)).
  Qed.
End Greedy.

Lemma greedy_ext {A} (o1 o2 : A -> A -> bool) : forall l kept,
  (forall x y, (In x l) -> (In y l \/ In y kept) -> o1 x y = o2 x y) ->
  greedy o1 kept l = greedy o2 kept l.
Proof.
  induction l as [|y ys IH]; intros kept H; [reflexivity|]. cbn [greedy].
  assert (E : existsb (o1 y) kept = existsb (o2 y) kept).
  { clear IH. assert (Hk : forall k, In k kept -> o1 y k = o2 y k) by (intros k Hk; apply H; [left; reflexivity|right; exact Hk]).
    clear H. induction kept as [|k ks IHk]; [reflexivity|]. cbn [existsb].
    rewrite (Hk k (or_introl eq_refl)), IHk; [reflexivity|]. intros k' Hk'. apply Hk. right. exact Hk'. }
  rewrite E. destruct (existsb (o2 y) kept).
  - apply IH. intros x z Hx Hz. apply H; [right; exact Hx|]. destruct Hz as [Hz|Hz]; [left; right; exact Hz|right; exact Hz].
  - f_equal. apply IH. intros x z Hx Hz. apply H; [right; exact Hx|].
    destruct Hz as [Hz|[<-|Hz]]; [left; right; exact Hz|left; left; reflexivity|right; exact Hz].
Qed.

(* ------------------------------------------------------------------ insertion sort *)
Section Sort.
  Context {A : Type} (key : A -> nat).
  Definition key_le (a b : A) : Prop := key a <= key b.

  Lemma insert_In x : forall l y, In y (insert_by key x l) <-> y = x \/ In y l.
  Proof.
    induction l as [|z zs IH]; intros y; cbn [insert_by].
    - cbn [In]. split; [intros [<-|[]]; left; reflexivity|intros [->|[]]; left; reflexivity].
    - destruct (key x <=? key z); cbn [In].
      + split; [intros [<-|H]; [left; reflexivity|right; exact H]|intros [->|H]; [left; reflexivity|right; exact H]].
      + rewrite IH. tauto.
  Qed.

  Lemma isort_In : forall l y, In y (isort key l) <-> In y l.
  Proof.
    induction l as [|z zs IH]; intros y; [reflexivity|].
    unfold isort. cbn [fold_right]. fold (isort key zs). rewrite insert_In, IH. cbn [In]. split; intros [H|H]; auto.
  Qed.

  Lemma insert_sorted x : forall l, StronglySorted key_le l -> StronglySorted key_le (insert_by key x l).
  Proof.
    induction l as [|z zs IH]; intros Hs; cbn [insert_by]; [constructor; [constructor|constructor]|].
    inversion Hs as [|? ? Hs' Hall]; subst.
    destruct (key x <=? key z) eqn:E.
    - apply Nat.leb_le in E. constructor; [exact Hs|]. constructor; [exact E|].
      rewrite Forall_forall in *. intros w Hw. unfold key_le in *. specialize (Hall w Hw). lia.
    - apply Nat.leb_gt in E. constructor; [apply IH; exact Hs'|].
      rewrite Forall_forall in *. intros w Hw. apply insert_In in Hw. destruct Hw as [->|Hw]; [unfold key_le; lia|apply Hall; exact Hw].
  Qed.

  Lemma isort_sorted : forall l, StronglySorted key_le (isort key l).
  Proof.
    induction l as [|z zs IH]; [constructor|]. unfold isort. cbn [fold_right]. apply insert_sorted. exact IH.
  Qed.
End Sort.

(* ------------------------------------------------------------------ small list facts *)
Lemma ss_filter {A} (R : A -> A -> Prop) (f : A -> bool) : forall l, StronglySorted R l -> StronglySorted R (filter f l).
Proof.
  induction 1 as [|x l Hs IH Hall]; cbn [filter]; [constructor|].
  destruct (f x); [|exact IH]. constructor; [exact IH|].
  rewrite Forall_forall in *. intros y Hy. apply filter_In in Hy. apply Hall. exact (proj1 Hy).
Qed.

Lemma ss_total {A} (R : A -> A -> Prop) : forall l, StronglySorted R l ->
  forall a b, In a l -> In b l -> a = b \/ R a b \/ R b a.
Proof.
  induction 1 as [|x l Hs IH Hall]; intros a b Ha Hb; [contradiction|].
  rewrite Forall_forall in Hall.
  destruct Ha as [<-|Ha], Hb as [<-|Hb]; [left; reflexivity|right; left; apply Hall; exact Hb|right; right; apply Hall; exact Ha|apply IH; assumption].
Qed.

Lemma ss_nodup {A} (R : A -> A -> Prop) : (forall a, ~ R a a) -> forall l, StronglySorted R l -> NoDup l.
Proof.
  intros Hirr. induction 1 as [|x l Hs IH Hall]; constructor; [|exact IH].
  intros Hin. rewrite Forall_forall in Hall. exact (Hirr x (Hall x Hin)).
Qed.

Lemma ss_app {A} (R : A -> A -> Prop) : forall l1 l2, StronglySorted R l1 -> StronglySorted R l2 ->
  (forall a b, In a l1 -> In b l2 -> R a b) -> StronglySorted R (l1 ++ l2).
Proof.
  induction l1 as [|x xs IH]; intros l2 H1 H2 H; [exact H2|].
  inversion H1 as [|? ? H1' Hall]; subst. change ((x :: xs) ++ l2) with (x :: (xs ++ l2)). constructor.
  - apply IH; [exact H1'|exact H2|]. intros a b Ha Hb. apply H; [right; exact Ha|exact Hb].
  - rewrite Forall_forall in *. intros y Hy. apply in_app_or in Hy. destruct Hy as [Hy|Hy]; [apply Hall; exact Hy|apply H; [left; reflexivity|exact Hy]].
Qed.

(* an injective map from a duplicate-free list into another list bounds its length *)
Lemma inj_map_length {A B} (f : A -> B) (ps : list A) (G : list B) :
  NoDup ps -> (forall a b, In a ps -> In b ps -> f a = f b -> a = b) -> (forall a, In a ps -> In (f a) G) ->
  List.length ps <= List.length G.
Proof.
  intros Hnd Hinj Hin. rewrite <- (map_length f ps). apply NoDup_incl_length.
  - clear Hin. induction ps as [|p ps IH]; [constructor|]. inversion Hnd as [|? ? Hn Hnd']; subst. cbn [map]. constructor.
    + intros Hm. apply in_map_iff in Hm. destruct Hm as [a [Hfa Ha]]. apply Hn.
      rewrite (Hinj p a); [exact Ha|left; reflexivity|right; exact Ha|symmetry; exact Hfa].
    + apply IH; [exact Hnd'|]. intros a b Ha Hb. apply Hinj; right; assumption.
  - intros y Hy. apply in_map_iff in Hy. destruct Hy as [a [<- Ha]]. apply Hin. exact Ha.
Qed.
