(* Proofs/RustSafetyPlain.v — a syntactic description of the files outside every listed defect class
   (`plain`), and the proof that such files pass the guard of the FAITHFUL model: on them the model of
   the current code, with every quirk on, reports exactly what the specification demands. *)
From TL Require Import Lib.Base Lib.GenTypes Model.RustSafetyTypes Model.RustSafetySpec Gen.RustSafetyGen
     Model.RustSafety Actual.RustSafetyActual Proofs.RustSafetyWalk Proofs.RustSafetyCtx Proofs.RustSafetyEmit Proofs.RustSafetyMain.

(* the substring test of the code says what the attribute means *)
Definition attr_plain (needle : string) (sem : string -> bool) (s : sib) : bool :=
  match s with SAttr t => Bool.eqb (contains needle t) (sem t) | SComment => true end.

Definition bare_net_pat : path_pat := pat 2 [(0, PIn net_types)].

(* outside the defect classes, node by node:
   - no reportable call inside a macro invocation;
   - on functions "test" occurs in an attribute exactly when it marks a test function, on modules "cfg(test)"
     occurs exactly when the attribute implies cfg(test)  (comments among the attributes are harmless since def5e3f);
   - a method call is on the line where its receiver chain starts; no clone in a `for` iterator expression;
   - no call path of the form NetType::method; no documented blocking call inside a method-form wrapper
     (handle.spawn_blocking(|| ..)) *)
Definition plain_ok (w : linter) (g : gctx) (k : kind) (cs : list node) : bool :=
  (negb (g_macro g) || negb (risky w k)) &&
  match k with
  | KFn pre _ _ => forallb (attr_plain "test" attr_marks_test_fn) pre
  | KMod pre => forallb (attr_plain "cfg(test)" attr_is_cfg_test) pre
  | KMethod sl sc ml name =>
    match w with
    | LUnwrap => sl =? ml
    | LClone => (sl =? ml) && (negb (g_forhdr g) || negb (String.eqb name "clone"))
    | LBlocking => true
    end
  | KCall _ _ path =>
    match w with LBlocking => negb (pat_matches path bare_net_pat) && (negb (g_mwrap g) || negb (risky LBlocking k)) | _ => true end
  | _ => true
  end.

Definition file_plain (w : linter) (file : list node) : bool :=
  forallb (guard (gpush rust_actual) (plain_ok w) g0) file.

(* ------------------------------------------------------------------ guards are monotone in the node test *)
Lemma guard_mono {G} (gp : G -> kind -> nat -> G) (ok1 ok2 : G -> kind -> list node -> bool) :
  (forall g k cs, ok1 g k cs = true -> ok2 g k cs = true) ->
  forall n g, guard gp ok1 g n = true -> guard gp ok2 g n = true.
Proof.
  intros H. induction n as [k cs IH] using node_ind'. intros g. rewrite !guard_eq.
  intros G1. apply andb_true_iff in G1 as [K1 Kids]. apply andb_true_iff. split; [exact (H g k cs K1)|].
  clear K1. revert Kids. generalize 0 as i. induction IH as [|x xs Hx _ IHxs]; intros i Kids; [reflexivity|].
  cbn [guard_kids] in *. apply andb_true_iff in Kids as [A B]. apply andb_true_iff. split; [exact (Hx _ A)|exact (IHxs _ B)].
Qed.

(* ------------------------------------------------------------------ attributes *)
Lemma sib_walk_plain run needle sem l :
  smem "attribute_item" run = true -> smem "line_comment" run = true ->
  forallb (attr_plain needle sem) l = true ->
  sib_walk run "attribute_item" (attr_hit needle sem true) l = has_attr sem l.
Proof.
  intros HA HC. unfold has_attr. induction l as [|[t|] r IH]; cbn [forallb attr_plain sib_walk existsb attr_hit sib_type]; intros PL; [reflexivity| |].
  - apply andb_true_iff in PL as [P1 P2]. rewrite HA, (eqb_true_eq _ _ P1), (IH P2).
    cbn [String.eqb Ascii.eqb Bool.eqb andb]. now destruct (sem t).
  - rewrite HC. cbn [String.eqb Ascii.eqb Bool.eqb andb orb]. exact (IH PL).
Qed.

Lemma forallb_rev {A} (f : A -> bool) l : forallb f (rev l) = forallb f l.
Proof.
  induction l as [|x xs IH]; [reflexivity|]. cbn [rev forallb]. rewrite forallb_app, IH. cbn [forallb].
  rewrite andb_true_r. apply andb_comm.
Qed.

Lemma attrs_plain_ok run needle sem pre :
  smem "attribute_item" run = true -> smem "line_comment" run = true ->
  forallb (attr_plain needle sem) pre = true ->
  Bool.eqb (sib_walk run "attribute_item" (attr_hit needle sem true) (rev pre)) (has_attr sem pre) = true.
Proof.
  intros HA HC PL. rewrite (sib_walk_plain run needle sem (rev pre) HA HC); [|now rewrite forallb_rev].
  unfold has_attr. rewrite existsb_rev. apply eqb_reflx.
Qed.

(* ------------------------------------------------------------------ call paths *)
Lemma code_table_shape :
  blocking_classes = [("fs-in-async", [pat 3 [(0, PEq "std"); (1, PEq "fs"); (2, PIn fs_functions)]; pat 2 [(0, PEq "fs"); (1, PIn fs_functions)]]);
                      ("sleep-in-async", [pat 3 [(0, PEq "std"); (1, PEq "thread"); (2, PEq "sleep")]; pat 2 [(0, PEq "thread"); (1, PEq "sleep")]]);
                      ("net-in-async", [pat 3 [(0, PEq "std"); (1, PEq "net"); (2, PIn net_types)]; pat 2 [(0, PEq "net"); (1, PIn net_types)]])].
Proof. reflexivity. Qed.

Lemma classify_plain path : pat_matches path bare_net_pat = false ->
  classify_path blocking_classes path = classify_path spec_blocking_classes path.
Proof.
  intros H. rewrite code_table_shape. unfold spec_blocking_classes. cbn [classify_path].
  destruct (existsb (pat_matches path) _); [reflexivity|].
  destruct (existsb (pat_matches path) _); [reflexivity|].
  cbn [existsb]. fold bare_net_pat. rewrite H. reflexivity.
Qed.

(* ------------------------------------------------------------------ plain files pass the faithful model's guard *)
Lemma plain_ok_gok w g k cs : w <> LBlocking -> plain_ok w g k cs = true -> gok w rust_actual g k cs = true.
Proof.
  intros NW. unfold plain_ok, gok. intros H. apply andb_true_iff in H as [H1 H2]. rewrite H1. cbn [andb].
  destruct (run_types_ok rust_actual) as (A1 & C1 & A2 & C2).
  destruct k as [pre|pre a nm| |b| |x| |nm| |sl sc ml name|sl sc path|p| |lk pat| | |nm]; try reflexivity.
  - exact (attrs_plain_ok _ cfg_attr_needle attr_is_cfg_test pre A2 C2 H2).
  - exact (attrs_plain_ok _ test_attr_needle attr_marks_test_fn pre A1 C1 H2).
  - destruct w; cbn [rust_actual q_chain_start_line negb orb]; try exact H2; now contradiction NW.
  - destruct w; try reflexivity; now contradiction NW.
Qed.

Lemma plain_ok_gok_b g k cs : plain_ok LBlocking g k cs = true -> gok LBlocking (msg_off rust_actual) g k cs = true.
Proof.
  unfold plain_ok, gok. intros H. apply andb_true_iff in H as [H1 H2]. rewrite H1. cbn [andb].
  destruct (run_types_ok (msg_off rust_actual)) as (A1 & C1 & A2 & C2).
  destruct k as [pre|pre a nm| |b| |x| |nm| |sl sc ml name|sl sc path|p| |lk pat| | |nm]; try reflexivity.
  - exact (attrs_plain_ok _ cfg_attr_needle attr_is_cfg_test pre A2 C2 H2).
  - exact (attrs_plain_ok _ test_attr_needle attr_marks_test_fn pre A1 C1 H2).
  - apply andb_true_iff in H2 as [H2 H3]. apply negb_true_iff in H2.
    change (blocking_classes_of (msg_off rust_actual)) with blocking_classes. rewrite (classify_plain path H2), ostr_eqb_refl, H3. reflexivity.
Qed.

Lemma file_plain_guard w file : w <> LBlocking -> file_plain w file = true -> file_guard w rust_actual file = true.
Proof.
  intros NW. unfold file_plain, file_guard, rguard. intros H. apply forallb_forall. intros n Hn.
  apply (guard_mono (gpush rust_actual) (plain_ok w) (gok w rust_actual) (fun g k cs => plain_ok_gok w g k cs NW)).
  exact (proj1 (forallb_forall _ _) H n Hn).
Qed.

Lemma file_plain_guard_b file : file_plain LBlocking file = true -> file_guard LBlocking (msg_off rust_actual) file = true.
Proof.
  unfold file_plain, file_guard, rguard. intros H. apply forallb_forall. intros n Hn.
  change (gpush (msg_off rust_actual)) with (gpush rust_actual).
  apply (guard_mono (gpush rust_actual) (plain_ok LBlocking) (gok LBlocking (msg_off rust_actual)) plain_ok_gok_b).
  exact (proj1 (forallb_forall _ _) H n Hn).
Qed.

Theorem unwrap_actual_plain ls c file : file_plain LUnwrap file = true ->
  unwrap_report rust_actual ls c file = spec_unwrap_report ls c file.
Proof. intros H. apply unwrap_guarded. exact (file_plain_guard LUnwrap file ltac:(discriminate) H). Qed.

Theorem clone_actual_plain ls c file : clone_switches_on (c_clone c) = true -> file_plain LClone file = true ->
  clone_report rust_actual ls c file = spec_clone_report ls c file.
Proof. intros HS H. apply clone_guarded; [right; exact HS|]. exact (file_plain_guard LClone file ltac:(discriminate) H). Qed.

(* blocking-async: rule ids and positions; the message text is the listed finding q_blocking_msg_line on every report *)
Theorem blocking_actual_plain ls c file : file_plain LBlocking file = true ->
  map erase_msg (blocking_report rust_actual ls c file) = map erase_msg (spec_blocking_report ls c file).
Proof.
  intros H. rewrite blocking_msg_erased. f_equal. apply blocking_guarded. exact (file_plain_guard_b file H).
Qed.
