(* Actual/SrpActual.v — the quirk vector claimed for the current tree (hand-maintained; tied to the
   code by the correspondence check, and listed flag-by-flag in /verif/known.d/C16.json).
   Four earlier flags (abstract classes skipped, impl target = trait name, generic impls lost, TS raw line span)
   were repaired by fix: commits and are gone: the model reads those rules from the generated layer. *)
From TL Require Import Lib.Base Model.SrpTypes Model.Srp.

Definition srp_actual : squirks := {|
  q_py_hash_in_string := true;
  q_ts_nonpublic_counted := true;
  q_ts_accessor_counted := true;
  q_ts_block_comment_counted := true;
  q_rs_name_collision := true;
  q_rs_block_comment_counted := true;
  q_py_setter_counted := true;
  q_py_cached_property_counted := true;
  q_ts_class_expr_skipped := true |}.
