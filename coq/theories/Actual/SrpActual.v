(* Actual/SrpActual.v — the quirk vector claimed for the current tree (hand-maintained; tied to the
   code by the correspondence check, and listed flag-by-flag in /verif/known.d/C16.json). *)
From TL Require Import Lib.Base Model.SrpTypes Model.Srp.

Definition srp_actual : squirks := {|
  q_py_hash_in_string := true;
  q_ts_loc_raw_span := true;
  q_ts_nonpublic_counted := true;
  q_ts_accessor_counted := true;
  q_ts_abstract_skipped := true;
  q_rs_trait_first_ident := true;
  q_rs_generic_impl_lost := true;
  q_rs_name_collision := true;
  q_rs_block_comment_counted := true |}.
