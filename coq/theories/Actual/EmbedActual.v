(* Actual/EmbedActual.v — the quirk vector claimed for the current tree (C19, string-concat-loop detector);
   tied to the code by the correspondence check, listed flag by flag in known.d/C19.json. *)
From TL Require Import Lib.Base Model.PerfConcat.

Definition concat_actual : cquirks := {| q_concat_global_names := true; q_concat_dedup_by_name := true; q_concat_name_table := true |}.
