(* Actual/EmbedActual.v — the quirk vectors claimed for the current tree (C19); tied to the code by the
   correspondence check, listed flag by flag in known.d/C19.json. *)
From TL Require Import Lib.Base Model.PerfConcat Model.StatelessCls Model.MethodProp Model.CondVerbose Model.RegexLoop.

Definition concat_actual : cquirks := {| q_concat_global_names := true; q_concat_dedup_by_name := true; q_concat_name_table := true |}.
Definition stateless_actual : squirks := {| q_sl_exempt_test_name := true; q_sl_exempt_mixin_name := true; q_sl_lookup_by_name := true |}.
Definition method_actual : mquirks := {| q_mp_class_body_only := true |}.
Definition cv_actual : vquirks := {| q_cv_per_enclosing_if := true |}.
Definition rx_actual : rquirks := {| q_rx_file_wide_names := true |}.
