(* Actual/RustSafetyActual.v — the quirk vector claimed for the current tree (hand-maintained; tied to the
   code by the correspondence check of ./check C17, listed flag-by-flag in known.d/C17.json). *)
From TL Require Import Lib.Base Model.RustSafetyTypes Model.RustSafety.

Definition rust_actual : rquirks := {|
  q_macro_opaque := true;
  q_test_attr_substring := true;
  q_cfg_test_literal := true;
  q_attr_stop_at_comment := true;
  q_chain_start_line := true;
  q_for_header_in_loop := true;
  q_clone_first_pattern := true;
  q_blocking_msg_line := true;
  q_wrapper_method_form := true;
  q_net_bare_type := true |}.
