(* Actual/MagicActual.v — the quirk vector claimed for the current tree (hand-maintained; tied to the
   code by the correspondence check, and listed flag-by-flag in /verif/known.d/C02.json). *)
From TL Require Import Lib.Base Model.Magic.

Definition magic_actual : mquirks := {|
  q_py_bool_is_number := true;
  q_py_upper_neg_flagged := true;
  q_py_upper_ann_flagged := true;
  q_py_upper_tuple_flagged := true;
  q_ts_hex_e_float := true;
  q_ts_bigint_dropped := true;
  q_ts_test_marker_anywhere := true;
  q_ts_single_letter_const := true;
  q_rs_hex_suffix_clash := true;
  q_py_enumerate_kw_flagged := true;
  q_py_upper_binop_flagged := true |}.
