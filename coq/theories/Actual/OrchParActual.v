(* Actual/OrchParActual.v — the quirk vector claimed for the current tree: every flag says "as in the source",
   so the faithful model follows the generated layer (parent_collects_evidence, parent_exclusion_like_lint_file,
   worker_reraises / extract_reraises) (hand-maintained; tied to the
   code by the correspondence check of ./check C07 and listed flag by flag in known.d/C07.json). *)
From TL Require Import Lib.Base Model.OrchPar.

Definition orchpar_actual : pquirks := {|
  q_par_crossfile_lost := true;
  q_parent_evidence_raw_path := true;
  q_worker_swallows_errors := true |}.
