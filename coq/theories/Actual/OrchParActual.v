(* Actual/OrchParActual.v — the quirk vector claimed for the current tree (hand-maintained; tied to the
   code by the correspondence check of ./check C07 and listed flag by flag in known.d/C07.json). *)
From TL Require Import Lib.Base Model.OrchPar.

Definition orchpar_actual : pquirks := {|
  q_par_crossfile_lost := true;
  q_worker_swallows_errors := true |}.
