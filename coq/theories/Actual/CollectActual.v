(* Actual/CollectActual.v — the quirk vector claimed for the current tree: every flag of a repaired defect off since the fixes b20520c, 27377de,
   bbae54e and 9c8f928 (the model then runs the generated functions themselves).  Hand-maintained; tied to the
   code by the C14 correspondence check, listed flag-by-flag in known.d/C14.json). *)
From TL Require Import Lib.Base Model.Collect.

Definition collect_actual : cquirks := {|
  q_excl_above_root := false;
  q_excl_filename := false;
  q_dirpat_prefix := false;
  q_dirpat_filename := false;
  q_doublestar_needs_dir := false;
  q_ti_shadows_config := false;
  q_json_ignore_unused := false;
  q_ignore_cwd_spelling := true |}.   (* still present: known.d/C14.json (same root cause as C09 q_ignore_no_reroot) *)
