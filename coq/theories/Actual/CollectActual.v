(* Actual/CollectActual.v — the quirk vector claimed for the current tree (hand-maintained; tied to the
   code by the C14 correspondence check, listed flag-by-flag in known.d/C14.json). *)
From TL Require Import Lib.Base Model.Collect.

Definition collect_actual : cquirks := {|
  q_excl_above_root := true;
  q_excl_filename := true;
  q_dirpat_prefix := true;
  q_dirpat_filename := true;
  q_doublestar_needs_dir := true;
  q_ti_shadows_config := true;
  q_json_ignore_unused := true |}.
