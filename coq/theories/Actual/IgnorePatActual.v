(* Actual/IgnorePatActual.v — which matcher each linter applies to its `ignore:` list: read from the generated table
   Gen.linter_matchers (the translator checks the shape of every matcher function), validated by the pattern stream. *)
From TL Require Import Lib.Base Gen.IgnoreGen Model.IgnorePat.

Definition kind_matcher (k : string) : lmatcher :=
  if String.eqb k "path_or_sub" then MPathOrSub else if String.eqb k "sub" then MSub
  else if String.eqb k "fnm_or_sub" then MFnmOrSub else MNever.

Fixpoint lookup (pkg : string) (t : list (string * string)) : option string :=
  match t with [] => None | (a, b) :: r => if String.eqb a pkg then Some b else lookup pkg r end.

(* packages outside the table are not exercised by the pattern stream *)
Definition matcher_of (pkg : string) : lmatcher :=
  match lookup pkg linter_matchers with Some k => kind_matcher k | None => MNever end.
