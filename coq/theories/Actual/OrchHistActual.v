(* Actual/OrchHistActual.v — the quirk vector claimed for the current tree (hand-maintained; tied to the code by
   the correspondence checks of C08 / C10 and listed flag-by-flag in known.d/C08.json and known.d/C10.json). *)
From TL Require Import Lib.Base Model.OrchHist.

Definition orch_actual : oquirks := {|
  q_dry_keeps_storage := true;
  q_lintfile_leaves_evidence := true;
  q_consts_in_processing_order := true;
  q_ignore_parser_reused := true;
  q_api_file_no_finalize := true |}.
