(* Actual/OrchHistActual.v — the quirk vector claimed for the current tree (hand-maintained; tied to the code by the
   correspondence checks of C08 / C10).  A flag set to true means "do what the source does": for the three table-shaped
   flags the model then reads the table from the generated layer.
     q_dry_keeps_storage, q_consts_in_processing_order, q_api_file_no_finalize: the source was REPAIRED (fix commits 8b82489,
       5ce39e3, f7c62f4; known.d status "fixed: ..."); with the flag on the model follows the repaired source, the main
       theorems need no hypothesis about these flags any more, and a revert of a fix makes the model reproduce the defect
       (reported as a violation: a fixed finding observed again);
     q_lintfile_leaves_evidence (bare Orchestrator.lint_file), q_ignore_parser_reused (get_ignore_parser singleton),
     q_dry_config_sticky (DRYRule._config), q_fp_config_sticky (FilePlacementRule._linter_cache): still present, listed as
       known in known.d/C08.json. *)
From TL Require Import Lib.Base Model.OrchHist.

Definition orch_actual : oquirks := {|
  q_dry_keeps_storage := true;
  q_lintfile_leaves_evidence := true;
  q_consts_in_processing_order := true;
  q_ignore_parser_reused := true;
  q_api_file_no_finalize := true;
  q_dry_config_sticky := true;
  q_fp_config_sticky := true |}.
