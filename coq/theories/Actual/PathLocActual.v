(* Actual/PathLocActual.v — the quirk vector claimed for the current tree (hand-maintained; tied to the code by
   the correspondence check, and listed flag-by-flag in /verif/known.d/C09.json). *)
From TL Require Import Lib.Base Model.PathLocTypes Model.PathLoc.

Definition pathloc_actual : quirks := {|
  q_excl_all_parts := false;        (* repaired: fix b20520c (the model reads the scope from the source: Gen.hard_exclusion_scope) *)
  q_ignore_no_reroot := true;
  q_linter_ignore_full_path := true;
  q_fp_relative_unchanged := false; (* repaired: fix 12368d4 (Gen.fp_relative_paths_rerooted) *)
  q_test_marker_full_path := true;
  q_rule_parser_cwd := true |}.
