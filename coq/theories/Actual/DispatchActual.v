(* Actual/DispatchActual.v - the quirk vector claimed for the current tree (hand-maintained; tied to the
   code by the correspondence check, and listed flag by flag in known.d/C15.json). *)
From TL Require Import Lib.Base Model.Dispatch.

Definition dispatch_actual : quirks := {|
  q_shebang_any_ext := true;
  q_name_exemption_ext_case := true |}.
