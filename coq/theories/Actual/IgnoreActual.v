(* Actual/IgnoreActual.v — the quirk vector claimed for the current tree (hand-maintained; tied to the code by
   the correspondence check, listed flag-by-flag in known.d/C04.json), and the suppression pipeline claimed
   for each linter package (tied to the code by the observable-level correspondence and by Gen.shared_parser_users). *)
From TL Require Import Lib.Base Gen.IgnoreGen Model.PyStr Model.Ignore.

Definition ignore_actual : iquirks := {|
  q_splitlines_unicode := true;
  q_next_line_hash_only := true;
  q_file_hash_only := true;
  q_block_end_before := true;
  q_bare_line_unsupported := true;
  q_bare_file_unsupported := true;
  q_start_rules_from_code := true |}.

(* pipelines by linter package and language ("py" / "ts" / "rs"); the packages not listed are not exercised
   at the observable level *)
Definition pipeline_of (pkg lang : string) : pipeline :=
  if String.eqb pkg "magic_numbers" then (if String.eqb lang "ts" then PSharedGenericTs magic_generic_ts else PSharedGeneric magic_generic_hash)
  else if String.eqb pkg "print_statements" then (if String.eqb lang "ts" then PSharedGenericTs print_generic_ts else PSharedGeneric print_generic_hash)
  else if String.eqb pkg "method_property" then POwnLine method_property_needles
  else if smem pkg ["collection_pipeline"; "stateless_class"] then PSharedTl tl_needles
  else if smem pkg ["nesting"; "srp"; "performance"; "dry"; "stringly_typed"] then PShared
  else if String.eqb pkg "file_header" then PFileHeader fh_needles true            (* violations found in an existing header *)
  else if String.eqb pkg "file_header_missing" then PFileHeader fh_needles false   (* the "no header at all" violation *)
  else PNone.

(* the packages claimed to have no inline suppression at all / their own line check only *)
Definition no_inline_support : list string := ["blocking_async"; "clone_abuse"; "cqs"; "lbyl"; "unwrap_abuse"].
Definition own_line_check_only : list string := ["method_property"].
(* the linters whose suppression is the shared parser and nothing else (dry: its own `# dry:` comments are C03's subject) *)
Definition shared_only : list string := ["nesting"; "srp"; "performance"; "dry"; "stringly_typed"].
