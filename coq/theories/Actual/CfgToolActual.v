(* Actual/CfgToolActual.v — the quirk vector claimed for the current tree (hand-maintained; tied to the
   code by the correspondence check, listed flag by flag in /verif/known.d/C20.json). *)
From TL Require Import Lib.Base Model.CfgMerge.

Definition cfgtool_actual : cquirks := {|
  q_missing_by_raw_key := true;
  q_append_to_flow_root := true;
  q_insert_mid_entry := true;
  q_cli_raw_key := true |}.
