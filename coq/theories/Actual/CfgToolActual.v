(* Actual/CfgToolActual.v — the quirk vector claimed for the current tree (hand-maintained; tied to the
   code by the correspondence check, listed flag by flag in /verif/known.d/C20.json).
   q_missing_by_raw_key and q_cli_raw_key stay `true` = "as found in the source": since repo commits 2b4908f / 5897da0 the
   source normalises (Gen.missing_by_normalised_key, Gen.set_normalises_key, Gen.get_normalises_key = true), so these two
   no longer deviate from the property; a revert flips the Gen items, breaks the proofs and re-opens the findings. *)
From TL Require Import Lib.Base Model.CfgMerge.

Definition cfgtool_actual : cquirks := {|
  q_missing_by_raw_key := true;
  q_append_to_flow_root := true;
  q_insert_mid_entry := true;
  q_cli_raw_key := true |}.
