(* Actual/ConfigActual.v - the quirk vector claimed for the current tree (hand-maintained; tied to the
   code by the correspondence check and, for the table-shaped ones, by Gen/ConfigGen.v; listed flag by
   flag in /verif/known.d/C05.json). *)
From TL Require Import Lib.Base Model.Config.

Definition config_actual : quirks :=
  [ "section_not_read[improper-logging]"; "section_not_read[stateless-class]"; "section_not_read[lazy-ignores]";
    
    "enabled_option_missing[file-header]"; "enabled_option_missing[lazy-ignores]";
    "whole_config_fallback[collection-pipeline]";
    "language_override_ignored[dry]";
    "cli_override_skips_language_sections[srp]";
    "repo_ignore_not_loaded[pyproject]"; "repo_ignore_not_loaded[--config]";
    "global_config_option_ignored"; "dry_config_option_merges_section_only";
    "wrong_type_swallowed";
    "language_block_error_retried_without_language"; "invalid_top_level_value_shadowed_by_language_block";
    "thailint_json_is_not_a_root_marker";
    "language_block_value_not_validated[dry]"; "non_mapping_section_crashes[collection-pipeline]";
    "non_mapping_language_block_crashes" ].
