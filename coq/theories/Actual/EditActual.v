(* Actual/EditActual.v — the quirk vector claimed for the current tree as far as property C13 is concerned
   (hand-maintained; tied to the code by the correspondence check of every run; the C13-relevant flags are listed in
   /verif/known.d/C13.json).  The vectors of the suppression parser, the SRP metric and the DRY tokenizer are the
   ones claimed by their own properties (C04, C16, C03). *)
From TL Require Import Lib.Base Model.Ignore Model.Srp Model.DryPipe Model.Dry
     Actual.IgnoreActual Actual.SrpActual Actual.DryActual Model.EditRun.

Definition edit_actual : equirks := {|
  e_ign := ignore_actual;      (* q_splitlines_unicode = true : a form feed appended to a line moves every directive below it *)
  e_srp := srp_actual;         (* q_ts_loc_raw_span = true   : TS/JS class size counts blank and comment lines *)
  e_dry := dry_actual;
  e_bom_kept := true           (* read_text("utf-8") keeps U+FEFF in the text handed to the rules *)
|}.
