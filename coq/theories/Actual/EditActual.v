(* Actual/EditActual.v — the quirk vector claimed for the current tree as far as property C13 is concerned
   (tied to the code by the correspondence check of every run; the C13-relevant flags are listed in
   /verif/known.d/C13.json).  The vectors of the suppression parser, the SRP metric and the DRY tokenizer are the
   ones claimed by their own properties (C04, C16, C03). *)
From TL Require Import Lib.Base Gen.EditGen Model.Ignore Model.Srp Model.DryPipe Model.Dry
     Actual.IgnoreActual Actual.SrpActual Actual.DryActual Model.EditRun.

Definition edit_actual : equirks := {|
  e_ign := ignore_actual;      (* q_splitlines_unicode = true : a form feed appended to a line moves every directive below it *)
  e_srp := srp_actual;         (* the TS/JS line-count rule is read from the source (Gen.SrpGen.ts_loc_mode) *)
  e_dry := dry_actual;
  (* read from the source: U+FEFF stays in the text handed to the rules unless the codec of FileLintContext.file_content is
     the BOM-stripping one (fix bbc2cf4 made it "utf-8-sig") *)
  e_bom_kept := negb (String.eqb file_read_encoding "utf-8-sig")
|}.
