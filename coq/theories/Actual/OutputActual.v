(* Actual/OutputActual.v — the quirk vector claimed for the current tree (hand-maintained; tied to the
   code by the correspondence check, and listed flag-by-flag in /verif/known.d/C06.json).
   q_sarif_unsanitized, q_syntax_line_zero, q_dry_empty_config_crashes, q_group_missing_config_ignored stay `true` = "as the
   source has it": the four defects were repaired in /repo (d9a5951, f9c24d2, af4580b, d92455c), the faithful model reads the repaired templates / default /
   guard / existence check from Gen/OutputGen.v and the main theorems now hold for it without a guard on these flags.  Should a repair be
   reverted, the faithful model reproduces the defect again and the check reports the entry recorded as fixed. *)
From TL Require Import Lib.Base Model.Output.

Definition output_actual : oquirks := {|
  q_sarif_unsanitized := true;
  q_syntax_line_zero := true;
  q_text_omit_zero := true;
  q_text_raw_newline := true;
  q_group_missing_config_ignored := true;
  q_dry_empty_config_crashes := true;
  q_valueerror_aborts_run := true |}.
