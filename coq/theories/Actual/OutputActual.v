(* Actual/OutputActual.v — the quirk vector claimed for the current tree (hand-maintained; tied to the
   code by the correspondence check, and listed flag-by-flag in /verif/known.d/C06.json). *)
From TL Require Import Lib.Base Model.Output.

Definition output_actual : oquirks := {|
  q_sarif_unsanitized := true;
  q_syntax_line_zero := true;
  q_text_omit_zero := true;
  q_text_raw_newline := true;
  q_group_missing_config_ignored := true;
  q_dry_empty_config_crashes := true |}.
