(* Actual/DryActual.v — the quirk vector claimed for the current tree (hand-maintained; tied to the code by
   the correspondence check of every run, listed flag by flag in /verif/known.d/C03.json). *)
From TL Require Import Lib.Base Model.DryPipe Model.Dry.

Definition dry_actual : dquirks := {|
  q_strip_in_code := true;
  q_block_comment_kept := true;
  q_overlap_asym := true |}.
