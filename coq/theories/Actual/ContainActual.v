(* Actual/ContainActual.v — the quirk vector claimed for the current tree (hand-maintained; tied to the
   code by the correspondence check with injected partial rules, and listed flag-by-flag in known.d/C11.json). *)
From TL Require Import Lib.Base Model.Contain Model.ContainWalk.

Definition contain_actual : cquirks := {|
  q_value_error_escapes := true;
  q_finalize_unguarded := true |}.

(* the tree-sitter walkers recurse once per tree level *)
Definition walk_actual : wquirks := {| q_walk_recursive := true |}.
