(* Actual/NestingActual.v - the quirk vector claimed for the current tree (hand-maintained; tied to
   the code by the correspondence check, and listed flag-by-flag in /verif/known_findings.json).
   After the fix: commits of 2026-10-02 only the Python start depth still deviates; the two table flags
   say "read the table from the source", which is now correct and is what the theorems cover. *)
From TL Require Import Lib.Base Model.Nesting.

Definition nesting_actual : nquirks := {|
  q_py_start_from_code := true;
  q_py_table_from_code := true;
  q_ts_elseif_nests := false;
  q_rs_elseif_nests := false;
  q_rs_table_from_code := true;
  q_ts_fn_types_from_code := true |}.
