(* Actual/NestingActual.v — the quirk vector claimed for the current tree (hand-maintained; tied to
   the code by the correspondence check, and listed flag-by-flag in /verif/known_findings.json). *)
From TL Require Import Lib.Base Model.Nesting.

Definition nesting_actual : nquirks := {|
  q_py_start_from_code := true;
  q_py_table_from_code := true;
  q_ts_elseif_nests := true;
  q_rs_elseif_nests := true;
  q_rs_table_from_code := true |}.
