(* Actual/LocActual.v — the quirk vector claimed for the current tree (hand-maintained; tied to the code by the
   correspondence check of C12 and listed flag by flag in known.d/C12.json). *)
From TL Require Import Lib.Base Model.Loc.

Definition loc_actual : lquirks := {|
  q_rs_chain_start := true;
  q_ts_arrow_node_start := true;
  q_ts_console_chain_start := true;
  q_fh_header_relative := true;
  q_col_const_unclamped := true |}.
