(* Actual/PlacementActual.v — the quirk vector claimed for the current tree (hand-maintained; tied to the
   code by the correspondence check, and listed flag-by-flag in /verif/known.d/C18.json). *)
From TL Require Import Lib.Base Model.Placement Model.PlacementSource.

Definition placement_actual : pquirks := {|
  q_global_on_covered := true;
  q_prefix_without_separator := true;
  q_path_relative_to_cwd := true;
  q_allow_dict_unsupported := true;
  q_trailing_slash_depth := true;
  q_backslash_separator := true |}.

Definition placement_source_actual : squirks := {|
  q_rules_toplevel_ignored := true;
  q_rules_do_not_override_file := true |}.
