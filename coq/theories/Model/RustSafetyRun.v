(* Model/RustSafetyRun.v — judging one correspondence case of C17 inside the kernel's VM.
   For an abstract Rust file and a list of (configuration, implementation output) the harness gets
   back, per run:
     [file in the domain ; impl = spec ; model ideal = spec ;
      impl = model q for q = claimed vector, claimed vector with flag i off (i = 0..7), ideal ;
      model (ideal with flag i on) = spec (i = 0..7)]
   (`judge` stops after the claimed vector when the run satisfies the specification and the claimed vector
   matches; `judge_full` always computes everything)
   The last group tells which listed defects matter on an input where several of them hide one another. *)
From TL Require Import Lib.Base Lib.GenTypes Model.RustSafetyTypes Model.RustSafetySpec Gen.RustSafetyGen Model.RustSafety.

Definition set_flag (i : nat) (b : bool) (q : rquirks) : rquirks :=
  match i with
  | 0 => Build_rquirks b (q_test_attr_substring q) (q_cfg_test_literal q) (q_attr_stop_at_comment q) (q_chain_start_line q) (q_for_header_in_loop q) (q_clone_first_pattern q) (q_net_bare_type q)
  | 1 => Build_rquirks (q_macro_opaque q) b (q_cfg_test_literal q) (q_attr_stop_at_comment q) (q_chain_start_line q) (q_for_header_in_loop q) (q_clone_first_pattern q) (q_net_bare_type q)
  | 2 => Build_rquirks (q_macro_opaque q) (q_test_attr_substring q) b (q_attr_stop_at_comment q) (q_chain_start_line q) (q_for_header_in_loop q) (q_clone_first_pattern q) (q_net_bare_type q)
  | 3 => Build_rquirks (q_macro_opaque q) (q_test_attr_substring q) (q_cfg_test_literal q) b (q_chain_start_line q) (q_for_header_in_loop q) (q_clone_first_pattern q) (q_net_bare_type q)
  | 4 => Build_rquirks (q_macro_opaque q) (q_test_attr_substring q) (q_cfg_test_literal q) (q_attr_stop_at_comment q) b (q_for_header_in_loop q) (q_clone_first_pattern q) (q_net_bare_type q)
  | 5 => Build_rquirks (q_macro_opaque q) (q_test_attr_substring q) (q_cfg_test_literal q) (q_attr_stop_at_comment q) (q_chain_start_line q) b (q_clone_first_pattern q) (q_net_bare_type q)
  | 6 => Build_rquirks (q_macro_opaque q) (q_test_attr_substring q) (q_cfg_test_literal q) (q_attr_stop_at_comment q) (q_chain_start_line q) (q_for_header_in_loop q) b (q_net_bare_type q)
  | _ => Build_rquirks (q_macro_opaque q) (q_test_attr_substring q) (q_cfg_test_literal q) (q_attr_stop_at_comment q) (q_chain_start_line q) (q_for_header_in_loop q) (q_clone_first_pattern q) b
  end.
Definition with_flag (i : nat) (q : rquirks) : rquirks := set_flag i false q.
Definition flag_ids : list nat := [0;1;2;3;4;5;6;7].

(* candidates: the claimed vector, the claimed vector with one flag switched off, the ideal *)
Definition candidates (q : rquirks) : list rquirks := q :: map (fun i => with_flag i q) flag_ids ++ [ideal].

Definition same (a b : list rep) : bool := ms_eqb rep_eqb a b.

Definition mkcfg (u c b : options) : config := {| c_unwrap := u; c_clone := c; c_blocking := b |}.

(* full judgement of one run *)
Definition judge_run (lazy : bool) (q : rquirks) (file : list node) (r : config * list rep) : list bool :=
  let '(c, impl) := r in
  let s := spec_report c file in
  let ok := same impl s in
  let ia := same impl (report q c file) in
  file_domain file :: ok :: same (report ideal c file) s :: ia ::
  (if lazy && ok && ia then []    (* nothing to attribute: the remaining bits are computed only on demand *)
   else map (fun cand => same impl (report cand c file)) (map (fun i => with_flag i q) flag_ids ++ [ideal])
        ++ map (fun i => same (report (set_flag i true ideal) c file) s) flag_ids).

Definition judge (q : rquirks) (file : list node) (runs : list (config * list rep)) : list (list bool) :=
  map (judge_run true q file) runs.
Definition judge_full (q : rquirks) (file : list node) (runs : list (config * list rep)) : list (list bool) :=
  map (judge_run false q file) runs.
