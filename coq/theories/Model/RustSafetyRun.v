(* Model/RustSafetyRun.v — judging one correspondence case of C17 inside the kernel's VM.
   For an abstract Rust file and a list of (configuration, implementation output) the harness gets
   back, per run:
     [file in the domain ; impl = spec ; model ideal = spec ;
      impl = model q for q = claimed vector, claimed vector with flag i off (i = 0..9), ideal ;
      model (ideal with flag i on) = spec (i = 0..9)]
   (`judge` stops after the claimed vector when the run satisfies the specification and the claimed vector
   matches; `judge_full` always computes everything)
   The last group tells which listed defects matter on an input where several of them hide one another. *)
From TL Require Import Lib.Base Lib.GenTypes Model.RustSafetyTypes Model.RustSafetySpec Gen.RustSafetyGen Model.RustSafety.

Definition set_flag (i : nat) (b : bool) (q : rquirks) : rquirks :=
  match i with
  | 0 => Build_rquirks b (q_test_attr_substring q) (q_cfg_test_literal q) (q_attr_stop_at_comment q) (q_chain_start_line q) (q_for_header_in_loop q) (q_clone_first_pattern q) (q_blocking_msg_line q) (q_wrapper_method_form q) (q_net_bare_type q)
  | 1 => Build_rquirks (q_macro_opaque q) b (q_cfg_test_literal q) (q_attr_stop_at_comment q) (q_chain_start_line q) (q_for_header_in_loop q) (q_clone_first_pattern q) (q_blocking_msg_line q) (q_wrapper_method_form q) (q_net_bare_type q)
  | 2 => Build_rquirks (q_macro_opaque q) (q_test_attr_substring q) b (q_attr_stop_at_comment q) (q_chain_start_line q) (q_for_header_in_loop q) (q_clone_first_pattern q) (q_blocking_msg_line q) (q_wrapper_method_form q) (q_net_bare_type q)
  | 3 => Build_rquirks (q_macro_opaque q) (q_test_attr_substring q) (q_cfg_test_literal q) b (q_chain_start_line q) (q_for_header_in_loop q) (q_clone_first_pattern q) (q_blocking_msg_line q) (q_wrapper_method_form q) (q_net_bare_type q)
  | 4 => Build_rquirks (q_macro_opaque q) (q_test_attr_substring q) (q_cfg_test_literal q) (q_attr_stop_at_comment q) b (q_for_header_in_loop q) (q_clone_first_pattern q) (q_blocking_msg_line q) (q_wrapper_method_form q) (q_net_bare_type q)
  | 5 => Build_rquirks (q_macro_opaque q) (q_test_attr_substring q) (q_cfg_test_literal q) (q_attr_stop_at_comment q) (q_chain_start_line q) b (q_clone_first_pattern q) (q_blocking_msg_line q) (q_wrapper_method_form q) (q_net_bare_type q)
  | 6 => Build_rquirks (q_macro_opaque q) (q_test_attr_substring q) (q_cfg_test_literal q) (q_attr_stop_at_comment q) (q_chain_start_line q) (q_for_header_in_loop q) b (q_blocking_msg_line q) (q_wrapper_method_form q) (q_net_bare_type q)
  | 7 => Build_rquirks (q_macro_opaque q) (q_test_attr_substring q) (q_cfg_test_literal q) (q_attr_stop_at_comment q) (q_chain_start_line q) (q_for_header_in_loop q) (q_clone_first_pattern q) (q_blocking_msg_line q) (q_wrapper_method_form q) b
  | 8 => Build_rquirks (q_macro_opaque q) (q_test_attr_substring q) (q_cfg_test_literal q) (q_attr_stop_at_comment q) (q_chain_start_line q) (q_for_header_in_loop q) (q_clone_first_pattern q) (q_blocking_msg_line q) b (q_net_bare_type q)
  | _ => Build_rquirks (q_macro_opaque q) (q_test_attr_substring q) (q_cfg_test_literal q) (q_attr_stop_at_comment q) (q_chain_start_line q) (q_for_header_in_loop q) (q_clone_first_pattern q) b (q_wrapper_method_form q) (q_net_bare_type q)
  end.
Definition with_flag (i : nat) (q : rquirks) : rquirks := set_flag i false q.
Definition flag_ids : list nat := [0;1;2;3;4;5;6;7;8;9].

(* candidates: the claimed vector, the claimed vector with one flag switched off, the ideal *)
Definition candidates (q : rquirks) : list rquirks := q :: map (fun i => with_flag i q) flag_ids ++ [ideal].

Definition same (a b : list rep) : bool :=
  if List.length a =? List.length b then (if sub_ms rep_eqb a b then sub_ms rep_eqb b a else false) else false.

Definition mkcfg (u c b : options) : config := {| c_unwrap := u; c_clone := c; c_blocking := b |}.

(* which linters' models read flag i (the others' reports are reused when only flag i changes) *)
Definition reads_unwrap (i : nat) : bool := match i with 0 | 1 | 2 | 3 | 4 => true | _ => false end.
Definition reads_clone (i : nat) : bool := match i with 0 | 1 | 2 | 3 | 4 | 5 | 6 => true | _ => false end.
Definition reads_blocking (i : nat) : bool := match i with 0 | 1 | 2 | 3 | 7 | 8 | 9 => true | _ => false end.

Definition reports3 (q : rquirks) (ls : srclines) (c : config) (file : list node) : list rep * list rep * list rep :=
  (unwrap_report q ls c file, clone_report q ls c file, blocking_report q ls c file).
Definition join3 (t : list rep * list rep * list rep) : list rep := match t with (u, cl, b) => u ++ cl ++ b end.
(* report (set_flag i v base) given the three reports of base.  Used for the attribution bits of `judge` only (which
   listed defect a failing run is attributed to); `judge_full` and every verdict bit evaluate the whole model. *)
Definition flipped (base : rquirks) (t : list rep * list rep * list rep) (i : nat) (v : bool) (ls : srclines) (c : config) (file : list node) : list rep :=
  match t with (u, cl, b) =>
    let q' := set_flag i v base in
    (if reads_unwrap i then unwrap_report q' ls c file else u) ++
    (if reads_clone i then clone_report q' ls c file else cl) ++
    (if reads_blocking i then blocking_report q' ls c file else b)
  end.

(* full judgement of one run *)
Definition judge_run (lazy : bool) (q : rquirks) (ls : srclines) (file : list node) (r : config * list rep) : list bool :=
  let '(c, impl) := r in
  let s := spec_report ls c file in
  let ok := same impl s in
  let ta := reports3 q ls c file in
  let ti := reports3 ideal ls c file in
  let ia := same impl (join3 ta) in
  file_domain file :: ok :: same (join3 ti) s :: ia ::
  (if (if lazy then (if ok then ia else false) else false) then []    (* nothing to attribute: the remaining bits are computed only on demand *)
   else if lazy then
        map (fun i => same impl (flipped q ta i false ls c file)) flag_ids ++ [same impl (join3 ti)]
        ++ map (fun i => same (flipped ideal ti i true ls c file) s) flag_ids
   else map (fun i => same impl (report (set_flag i false q) ls c file)) flag_ids ++ [same impl (join3 ti)]
        ++ map (fun i => same (report (set_flag i true ideal) ls c file) s) flag_ids).

Definition judge (q : rquirks) (ls : srclines) (file : list node) (runs : list (config * list rep)) : list (list bool) :=
  map (judge_run true q ls file) runs.
Definition judge_full (q : rquirks) (ls : srclines) (file : list node) (runs : list (config * list rep)) : list (list bool) :=
  map (judge_run false q ls file) runs.

