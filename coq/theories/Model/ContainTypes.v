(* Model/ContainTypes.v — the small types the generated layer Gen/ContainGen.v is expressed in
   (property C11: failure containment).  Definitions only. *)
From TL Require Import Lib.Base.

(* what an `except` clause does after optional logging *)
Inductive hact :=
| HReraise        (* bare `raise` *)
| HReturnEmpty    (* `return []` *)
| HReturnNone     (* `return None` / `self._content = None` *)
| HViolation.     (* turns the error into a violation (syntax error) *)

(* one except clause: the class names it lists, and what it does *)
Definition handler : Type := (list string * hact)%type.

(* steps of a cross-file rule's check(), in source order *)
Inductive xop :=
| XPre (n : string)            (* bookkeeping that never influences another file's findings *)
| XCompute (n : string)        (* analysis that may raise; result held locally *)
| XStore (n : string)          (* the held result of analysis n is added to the rule's store *)
| XComputeStore (n : string).  (* analysis n computed and stored in one statement *)

(* what a formatter of the output stage does with one field of a Violation (Gen/ContainOutGen.v: output_uses) *)
Inductive uop :=
| UAsIs              (* formatted into text, tested for truth, hashed: defined for every value *)
| UStr               (* str(x): defined for every value *)
| UJson              (* handed on to json.dumps as a value of the document *)
| USanitize          (* _sanitize_string(x) = x.encode(...).decode(...): x must be a str *)
| UStrMethod         (* x.split(...) and the like: x must be a str *)
| UEnumName          (* x.name: x must be an enum member *)
| UAddInt (k : nat). (* x + k: x must be a number *)
