(* Model/ConfigRun.v - judging one correspondence case inside the kernel's VM.
   For an abstract case and the implementation's outcome the harness gets back
     [impl = spec ; model ideal = spec ; impl = model q  for q = claimed vector, the claimed vector with
      one flag switched off (in the order of the vector), ideal ; model (claimed minus cls) = spec]. *)
From TL Require Import Lib.Base Lib.GenTypes Model.ConfigTypes Gen.ConfigGen Model.Config.
From Coq Require Import ZArith.

Definition outcome_eqb (a b : outcome) : bool :=
  match a, b with
  | Exit2, Exit2 => true
  | Ran n, Ran m => Nat.eqb n m
  | _, _ => false
  end.

Definition without (q : quirks) (f : string) : quirks := filter (fun g => negb (String.eqb g f)) q.

Definition candidates (q : quirks) : list quirks := q :: map (without q) q ++ [ideal].

(* [cls] : the flags whose declared defect class contains the case (computed by the harness from the abstract
   case); the extra last bit says whether switching off exactly those repairs the model on this case *)
Definition without_all (q : quirks) (fs : list string) : quirks := filter (fun g => negb (smem g fs)) q.

Definition judge (q : quirks) (cls : list string) (c : case) (impl : outcome) : list bool :=
  outcome_eqb impl (spec c)
  :: outcome_eqb (run ideal c) (spec c)
  :: map (fun q' => outcome_eqb impl (run q' c)) (candidates q)
  ++ [outcome_eqb (run (without_all q cls) c) (spec c)].

(* for debugging / replay files: outcome as a pair (is exit 2, count) *)
Definition show (o : outcome) : nat * nat := match o with Exit2 => (1, 0) | Ran n => (0, n) end.
Definition explain (q : quirks) (c : case) : list (nat * nat) := [show (spec c); show (run ideal c); show (run q c)].
