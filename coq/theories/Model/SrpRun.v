(* Model/SrpRun.v — judging one correspondence case inside the kernel's VM.
   For an abstract file and a list of (configuration, implementation output) the harness gets back,
   per run:  [input in the domain ; impl = spec ; model ideal = spec ; impl = model q for each candidate q]. *)
From TL Require Import Lib.Base Lib.GenTypes Model.SrpTypes Gen.SrpGen Model.SrpSpec Model.Srp.

Definition with_flag (i : nat) (q : squirks) : squirks :=
  let off (j : nat) (b : bool) := if i =? j then false else b in
  Build_squirks (off 0 (q_py_hash_in_string q)) (off 1 (q_ts_loc_raw_span q)) (off 2 (q_ts_nonpublic_counted q))
                (off 3 (q_ts_accessor_counted q)) (off 4 (q_ts_abstract_skipped q)) (off 5 (q_rs_trait_first_ident q))
                (off 6 (q_rs_generic_impl_lost q)) (off 7 (q_rs_name_collision q)) (off 8 (q_rs_block_comment_counted q)).

(* candidates: the claimed vector, the claimed vector with one flag switched off, the ideal *)
Definition candidates (q : squirks) : list squirks := q :: map (fun i => with_flag i q) (seq 0 9) ++ [ideal].

Definition same (a b : list rep) : bool := ms_eqb rep_eqb a b.

Definition judge (q : squirks) (f : sfile) (runs : list (config * list rep)) : list (list bool) :=
  map (fun r => let '(c, impl) := r in
         (file_good f && config_good c)
         :: same impl (spec_report c f)
         :: same (report ideal c f) (spec_report c f)
         :: map (fun cq => same impl (report cq c f)) (candidates q))
      runs.

(* short constructors for the harness *)
Definition L := Build_line.
Definition M := Build_member.
Definition C := Build_cls.
Definition S' := Build_rstruct.
Definition I := Build_rimpl.
Definition F := Build_sfile.

(* diagnostics: per class / struct (spec methods, spec loc, model methods, model loc) *)
Definition metrics (q : squirks) (f : sfile) : list (list nat) :=
  match f_lang f with
  | Py => map (fun c => [c_line c; spec_methods (c_members c); spec_loc (f_lines f) (c_line c) (c_len c); py_count_methods c; py_count_loc q (f_lines f) c]) (f_classes f)
  | Rs => map (fun s => let impls := filter (rs_assoc q s) (f_impls f) in
                        [s_line s; list_sum (map (fun i => spec_methods (i_members i)) (filter (own_impl s) (f_impls f)));
                         spec_loc (f_lines f) (s_line s) (s_len s) + list_sum (map (fun i => spec_loc (f_lines f) (i_line i) (i_len i)) (filter (own_impl s) (f_impls f)));
                         list_sum (map (fun i => List.length (filter rs_countable (i_members i))) impls);
                         rs_node_loc q (f_lines f) (s_line s) (s_len s) + list_sum (map (fun i => rs_node_loc q (f_lines f) (i_line i) (i_len i)) impls)]) (f_structs f)
  | _ => map (fun c => [c_line c; spec_methods (c_members c); spec_loc (f_lines f) (c_line c) (c_len c); ts_count_methods q c; ts_count_loc q (f_lines f) c]) (f_classes f)
  end.
