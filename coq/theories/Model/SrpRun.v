(* Model/SrpRun.v — judging one correspondence case inside the kernel's VM.
   For an abstract file and a list of (configuration, implementation output) the harness gets back,
   per run:  [input in the domain ; impl = spec ; model ideal = spec ; impl = model q for each candidate q]. *)
From TL Require Import Lib.Base Lib.GenTypes Model.SrpTypes Gen.SrpGen Model.SrpSpec Model.Srp.

Definition with_flag (i : nat) (q : squirks) : squirks :=
  let off (j : nat) (b : bool) := if i =? j then false else b in
  Build_squirks (off 0 (q_py_hash_in_string q)) (off 1 (q_ts_nonpublic_counted q)) (off 2 (q_ts_accessor_counted q))
                (off 3 (q_ts_block_comment_counted q)) (off 4 (q_rs_name_collision q)) (off 5 (q_rs_block_comment_counted q))
                (off 6 (q_py_setter_counted q)) (off 7 (q_py_cached_property_counted q)) (off 8 (q_ts_class_expr_skipped q)).

(* candidates: the claimed vector, the claimed vector with one flag switched off, the ideal *)
Definition candidates (q : squirks) : list squirks := q :: map (fun i => with_flag i q) (seq 0 9) ++ [ideal].

Definition same (a b : list rep) : bool := ms_eqb rep_eqb a b.

Definition judge (q : squirks) (f : sfile) (runs : list (config * list rep)) : list (list bool) :=
  map (fun r => let '(c, impl) := r in
         (file_good f && config_good c)
         :: same impl (spec_report c f)
         :: same (report ideal c f) (spec_report c f)
         :: map (fun cq => same impl (report cq c f)) (candidates q))
      runs.

(* short constructors for the harness *)
Definition L := Build_line.
Definition M := Build_member.
Definition C := Build_cls.
Definition S' := Build_rstruct.
Definition I := Build_rimpl.
Definition F := Build_sfile.

