(* Model/DryWitness.v — the concrete projects behind the C03 findings (also corpus/C03/*_w.json): refutation
   witnesses of the defects still present (Props/C03Known.v) and regression inputs of the repaired ones (Props/C03.v). *)
From TL Require Import Lib.Base Model.DryBase Model.DryPipe.

Definition L := Build_aline.
Definition F := Build_afile.

Definition strip_in_code_w : list afile := [F DPy [L false "" "def f(a):" CNone; L false "    " "p = a // 2" CNone; L false "    " "q = ""u#one""" CNone; L false "    " "r = p // 7" CNone; L false "    " "return 1" CNone]; F DPy [L false "" "def g(a):" CNone; L false "    " "p = a // 3" CNone; L false "    " "q = ""u#two""" CNone; L false "    " "r = p // 9" CNone; L false "    " "return 2" CNone]].

Definition block_comment_w : list afile := [F DTs [L false "" "function f(a) {" CNone; L false "  " "const x = foo(a);" CNone; L false "  " "const y = bar(x, 1);" CNone; L false "  " "" (CBlock "note"); L false "  " "const z = baz(y);" CNone; L false "  " "return z;" CNone; L false "" "}" CNone]; F DTs [L false "" "function g(a) {" CNone; L false "  " "const x = foo(a);" CNone; L false "  " "const y = bar(x, 1);" CNone; L false "  " "const z = baz(y);" CNone; L false "  " "return x;" CNone; L false "" "}" CNone]].

Definition overlap_asym_w : list afile := [F DPy [L false "" "def f(a):" CNone; L false "    " "p = one(a)" CNone; L false "    " "q = two(p)" CNone; L false "    " "r = three(q)" CNone; L false "    " "u = other(r)" CNone; L false "    " "s = four(u)" CNone; L false "" "" CNone; L false "    " "t = five(s)" CNone; L false "" "" CNone; L false "    " "w = six(t)" CNone; L false "    " "return w" CNone]; F DPy [L false "" "def g(a):" CNone; L false "    " "p = one(a)" CNone; L false "    " "q = two(p)" CNone; L false "    " "r = three(q)" CNone; L false "    " "return r" CNone; L false "" "" CNone; L false "" "def h(u):" CNone; L false "    " "s = four(u)" CNone; L false "    " "t = five(s)" CNone; L false "    " "w = six(t)" CNone; L false "    " "return u" CNone]].
